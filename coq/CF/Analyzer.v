(* C10/C11 - faithful port of /repo/src/control_flow/mod.rs (`Analyzer`) and of the
   decisions of the three rules that read its result (no-unreachable,
   getter-return, no-fallthrough).

   The port follows the Rust visitor method by method, in the order in which it
   visits tests and bodies; the analysis result (`info`) is an association list
   keyed by byte offset.  The three booleans of `fixes` switch candidate repairs
   on IN THE MODEL ONLY; `faithful` (all off) describes the code as it is:
     fixA  do-while: the "body always returns/throws" case also requires
           `!found_continue`;
     fixB  an unlabelled `break` recorded in `found_break` is never overwritten
           (visit_break_stmt) or shadowed (child-scope merge) by a labelled one;
     fixC  the end of a function is not recorded under the function's start key
           (which is also the key of a statement that starts with the function);
     fixD  `throw e` records may_throw whatever `e` is (the Rust relies on visit_expr,
           which does not record it for an identifier / `this`: `try { throw e } catch {}`
           then looks like a try block that cannot throw);
     fixF  the test of `while` is visited before the loop scope, the test of `do-while` in the state the scope
           had before the loop (the Rust visited both AFTER the loop, when an infinite loop has already ended
           the scope, and so lost the fact that a constant-true test can throw: `while (f() || true) {}`);
     fixE  the head (`left`) of a for-in / for-of statement is visited (the Rust visited only `right`
           and the body, so a function-like in a default value of the loop's binding pattern had no
           entries in the result and getter-return's `.meta(..).unwrap()` panicked).
   The two `unwrap`s of the Rust (`merge_forced(..).unwrap()`, `end_reason.unwrap()`)
   are explicit: they set the `panic` flag (theorem `analyzer_total`: never). *)
From V Require Export CF.Syntax.

Inductive End := Forced (ret thr inf : bool) | EBreak | EContinue.

Definition is_forced (e : End) : bool := match e with Forced _ _ _ => true | _ => false end.
Definition merge_forced (a b : End) : option End :=
  match a, b with
  | Forced r1 t1 i1, Forced r2 t2 i2 => Some (Forced (r1 || r2) (t1 || t2) (i1 || i2))
  | _, _ => None
  end.
Definition oend_forced (o : option End) : bool := match o with Some e => is_forced e | None => false end.
(* `matches!(end, Some(Forced{..} | Break))` / `matches!(end, None | Some(Continue))` *)
Definition dead (o : option End) : bool :=
  match o with Some (Forced _ _ _) | Some EBreak => true | _ => false end.
Definition live (o : option End) : bool :=
  match o with None | Some EContinue => true | _ => false end.

Definition forced_return := Forced true false false.
Definition forced_throw := Forced false true false.
Definition forced_inf := Forced false false true.

Record fixes := { fixA : bool; fixB : bool; fixC : bool; fixD : bool; fixE : bool; fixF : bool }.
Definition faithful := {| fixA := false; fixB := false; fixC := false; fixD := false; fixE := false; fixF := false |}.
Definition repaired := {| fixA := true; fixB := true; fixC := true; fixD := true; fixE := true; fixF := true |}.
(* the code as it is after the `fix:` commits for A, B, D, E and F (class C is a known finding) *)
Definition current := {| fixA := true; fixB := true; fixC := false; fixD := true; fixE := true; fixF := true |}.

Record scope := {
  s_end : option End;              (* Scope::end *)
  s_mt : bool;                     (* may_throw *)
  s_fb : option (option N);        (* found_break *)
  s_fc : bool;                     (* found_continue *)
  s_hoist : list N                 (* used_hoistable_ids *)
}.
Record meta := { m_unreach : bool; m_end : option End }.
Definition meta0 := {| m_unreach := false; m_end := None |}.
Definition imap := list (N * meta).

Fixpoint iget (m : imap) (k : N) : option meta :=
  match m with [] => None | (k', v) :: r => if N.eqb k k' then Some v else iget r k end.
(* `info.entry(k).or_default()` followed by an update *)
Fixpoint iset (m : imap) (k : N) (f : meta -> meta) : imap :=
  match m with
  | [] => [(k, f meta0)]
  | (k', v) :: r => if N.eqb k k' then (k', f v) :: r else (k', v) :: iset r k f
  end.

Record st := { sc : scope; info : imap; panic : bool }.

Definition new_scope (e : option End) :=
  {| s_end := e; s_mt := false; s_fb := None; s_fc := false; s_hoist := [] |}.
Definition init_st := {| sc := new_scope None; info := []; panic := false |}.

Definition with_sc (x : st) (s : scope) : st := {| sc := s; info := info x; panic := panic x |}.
Definition set_end (x : st) (e : option End) : st :=
  with_sc x {| s_end := e; s_mt := s_mt (sc x); s_fb := s_fb (sc x); s_fc := s_fc (sc x); s_hoist := s_hoist (sc x) |}.
Definition set_mt (x : st) (b : bool) : st :=
  with_sc x {| s_end := s_end (sc x); s_mt := b; s_fb := s_fb (sc x); s_fc := s_fc (sc x); s_hoist := s_hoist (sc x) |}.
Definition set_fb (x : st) (b : option (option N)) : st :=
  with_sc x {| s_end := s_end (sc x); s_mt := s_mt (sc x); s_fb := b; s_fc := s_fc (sc x); s_hoist := s_hoist (sc x) |}.
Definition set_fc (x : st) (b : bool) : st :=
  with_sc x {| s_end := s_end (sc x); s_mt := s_mt (sc x); s_fb := s_fb (sc x); s_fc := b; s_hoist := s_hoist (sc x) |}.
Definition add_hoist (x : st) (id : N) : st :=
  with_sc x {| s_end := s_end (sc x); s_mt := s_mt (sc x); s_fb := s_fb (sc x); s_fc := s_fc (sc x); s_hoist := id :: s_hoist (sc x) |}.
Definition set_info (x : st) (m : imap) : st := {| sc := sc x; info := m; panic := panic x |}.
Definition set_panic (x : st) : st := {| sc := sc x; info := info x; panic := true |}.

Definition get_end_reason (x : st) (k : N) : option End :=
  match iget (info x) k with Some m => m_end m | None => None end.

(* fn mark_as_end *)
Definition mark_as_end (k : N) (e : End) (x : st) : st :=
  let '(x', new_end) :=
    match s_end (sc x) with
    | None | Some EContinue => (set_end x (Some e), Some e)
    | Some EBreak => (x, Some e)
    | Some old => (x, match merge_forced old e with Some y => Some y | None => s_end (sc x) end)
    end in
  set_info x' (iset (info x') k (fun m => {| m_unreach := m_unreach m; m_end := new_end |})).

Definition set_unreach (k : N) (b : bool) (x : st) : st :=
  set_info x (iset (info x) k (fun m => {| m_unreach := b; m_end := m_end m |})).

Definition dead_now (x : st) : bool := dead (s_end (sc x)).
Definition live_now (x : st) : bool := live (s_end (sc x)).

(* fn visit_expr: children first, then the node itself *)
Definition visit_lit (x : st) : st := if live_now x then set_mt x true else x.
Definition visit_ident (id : N) (x : st) : st := if live_now x then add_hoist x id else x.
Definition visit_e (e : expr) (x : st) : st :=
  match e with
  | EIdent id => visit_ident id x
  | ECall id | ESpread id | EComputed id => visit_lit (visit_ident id x)
  | ELit => visit_lit x
  | EThis => x
  end.
(* the test of a switch case (fn visit_switch_case, first line): visited in the scope of the switch *)
Definition visit_test (t : option expr) (x : st) : st := match t with Some e => visit_e e x | None => x end.
Definition visit_oe (o : option expr) (x : st) : st := match o with Some e => visit_e e x | None => x end.
Definition visit_cond (c : cond) (x : st) : st :=
  match c with
  | COpaque e => visit_e e x
  | CSeq e _ => visit_lit (visit_e e x)
  | CTrue | CFalse | CUnkTrue => visit_lit x
  end.
(* `matches!(test.cast_to_bool(ctx), (_, Value::Known(true)))` *)
Definition known_true (c : cond) : bool := match c with CTrue | CSeq _ true => true | _ => false end.

Inductive kind := KFunction | KCase | KIf | KLoop | KLabel (l : N) | KCatch | KFinally.

Definition is_brk_or_cont (s : stmt) : bool := match s with SBrk _ _ | SCont _ _ => true | _ => false end.
(* fn visit_stmt_or_block, the part after `s.visit_with(self)` *)
Definition orb_mark (s : stmt) (y : st) : st :=
  if is_brk_or_cont s then mark_as_end (pos s) EBreak y else y.
(* fn visit_block_stmt, the part after the children *)
Definition block_end (p : N) (y : st) : st :=
  match s_end (sc y) with Some e => mark_as_end p e y | None => mark_as_end p EContinue y end.

Definition only_throw (o : option End) : bool :=
  match o with Some (Forced false true false) => true | _ => false end.
Definition fb_unlabelled (o : option (option N)) : bool := match o with Some None => true | _ => false end.
Definition fb_none (o : option (option N)) : bool := match o with None => true | _ => false end.

(* fn visit_switch_stmt: `cases.filter_map(get_end_reason).try_fold(Forced{fff}, merge_forced)` *)
Fixpoint switch_forced (cs : cases) (x : st) (acc : option End) : option End :=
  match cs with
  | CNil => acc
  | CCons cp _ _ _ r =>
      switch_forced r x
        (match acc with
         | None => None
         | Some a => match get_end_reason x cp with Some cur => merge_forced a cur | None => Some a end
         end)
  end.

Section WithFixes.
Variable fx : fixes.

(* fn with_child_scope, first half: the child analyzer's initial state *)
Definition child_enter (k : kind) (x : st) : st :=
  with_sc x (new_scope (match k with
                        | KFunction => None
                        | _ => if oend_forced (s_end (sc x)) then s_end (sc x) else None
                        end)).

(* fn with_child_scope, second half: `x` = parent state before, `c` = child state after `op` *)
Definition child_exit (k : kind) (start : N) (x c : st) : st :=
  let cs := sc c in
  let prev_end := s_end (sc x) in
  let merged_fb :=
    match k with
    | KCase | KFunction | KLoop => s_fb (sc x)
    | _ => if fixB fx && fb_unlabelled (s_fb cs) then Some None
           else match s_fb (sc x) with None => s_fb cs | o => o end
    end in
  let s1 := {| sc := {| s_end := prev_end; s_mt := s_mt (sc x) || s_mt cs; s_fb := merged_fb;
                        s_fc := s_fc (sc x) || s_fc cs; s_hoist := s_hoist (sc x) ++ s_hoist cs |};
               info := info c; panic := panic c |} in
  match s_end cs with
  | None => s1
  | Some e =>
      match k with
      | KFunction =>
          let s2 := match e with
                    | Forced _ _ _ | EContinue => if fixC fx then s1 else mark_as_end start e s1
                    | EBreak => s1
                    end in
          set_end s2 prev_end
      | KCase | KIf => s1
      | KLoop =>
          match e with
          | EBreak | EContinue => set_end (mark_as_end start e s1) prev_end
          | _ => set_end (mark_as_end start e s1) (Some e)
          end
      | KLabel l =>
          match s_fb (sc s1) with
          | Some (Some id) => if N.eqb id l then set_fb s1 None else s1
          | _ => s1
          end
      | KCatch | KFinally => mark_as_end start e s1
      end
  end.

(* fn visit_break_stmt *)
Definition visit_break (l : option N) (x : st) : st :=
  if fixB fx then
    match l with
    | None => set_fb x (Some None)
    | Some _ => match s_fb (sc x) with None => set_fb x (Some l) | Some _ => x end
    end
  else set_fb x (Some l).

(* closures passed to with_child_scope(Loop, ..) by the loop visitors, after `n.body.visit_with(a)` *)
Definition while_post_r (end_reason : option End) (c : cond) (body_lo : N) (a : st) : st :=
  let return_or_throw := oend_forced end_reason in
  let has_break := fb_unlabelled (s_fb (sc a)) in
  if known_true c && return_or_throw && negb has_break then
    match end_reason with
    | Some e => set_end (mark_as_end body_lo e a) end_reason
    | None => set_panic a                                   (* end_reason.unwrap() *)
    end
  else if known_true c && negb has_break then
    set_end (mark_as_end body_lo forced_inf a) (Some forced_inf)
  else set_end (mark_as_end body_lo EContinue a) (Some EContinue).
Definition while_post (c : cond) (body_lo : N) (a : st) : st :=
  while_post_r (get_end_reason a body_lo) c body_lo a.

Definition dowhile_post_r (end_reason : option End) (c : cond) (body_lo : N) (a : st) : st :=
  let return_or_throw := oend_forced end_reason in
  let infinite_loop := known_true c && fb_none (s_fb (sc a)) in
  let has_break := fb_unlabelled (s_fb (sc a)) in
  if return_or_throw && negb has_break && negb (fixA fx && s_fc (sc a)) then
    match end_reason with
    | Some e => set_end (mark_as_end body_lo e a) end_reason
    | None => set_panic a                                   (* end_reason.unwrap() *)
    end
  else if infinite_loop then
    set_end (mark_as_end body_lo forced_inf a) (Some forced_inf)
  else set_end (mark_as_end body_lo EContinue a) (Some EContinue).
Definition dowhile_post (c : cond) (body_lo : N) (a : st) : st :=
  dowhile_post_r (get_end_reason a body_lo) c body_lo a.

Definition for_e (end_reason : option End) : End :=
  match end_reason with
  | Some e => if is_forced e then e else forced_inf
  | None => forced_inf
  end.
Definition for_forced (c : option cond) (a : st) : bool :=
  negb (fb_unlabelled (s_fb (sc a))) && match c with None => true | Some c => known_true c end.
Definition for_post_r (end_reason : option End) (p : N) (c : option cond) (body_lo : N) (a : st) : st :=
  let has_break := fb_unlabelled (s_fb (sc a)) in
  let forced := for_forced c a in
  let a := if forced then mark_as_end p (for_e end_reason) a else a in
  if negb forced || has_break then set_end (mark_as_end body_lo EContinue a) (Some EContinue) else a.
Definition for_post (p : N) (c : option cond) (body_lo : N) (a : st) : st :=
  for_post_r (get_end_reason a body_lo) p c body_lo a.

Definition forin_post (body_lo : N) (a : st) : st :=
  set_end (mark_as_end body_lo EContinue a) (Some EContinue).

(* fn visit_if_stmt, the `match (cons_reason, alt_reason)`: the end to mark (None = the unwrap fails) *)
Definition if_else_mark (cons_reason alt_reason : option End) : option End :=
  match cons_reason, alt_reason with
  | Some a, Some b =>
      if is_forced a && is_forced b then merge_forced a b   (* x.merge_forced(y).unwrap() *)
      else match a, b with
           | EBreak, EBreak | Forced _ _ _, EBreak | EBreak, Forced _ _ _ => Some EBreak
           | _, _ => Some EContinue
           end
  | _, _ => Some EContinue
  end.
Definition if_else_end (p : N) (cons_reason alt_reason : option End) (x : st) : st :=
  match if_else_mark cons_reason alt_reason with
  | Some e => mark_as_end p e x
  | None => set_panic x
  end.

(* fn visit_try_stmt, the match after the handler when the try block may throw *)
Definition try_catch_merge (try_block_end : option End) (x : st) : st :=
  if only_throw try_block_end then x else
  match try_block_end, s_end (sc x) with
  | Some a, Some b =>
      if is_forced a && is_forced b then
        match merge_forced a b with
        | Some e => set_end x (Some e)
        | None => set_panic x                               (* x.merge_forced(y).unwrap() *)
        end
      else if is_forced b then set_end x try_block_end
      else match a, b with EContinue, EBreak => set_end x try_block_end | _, _ => x end
  | None, Some b =>
      if is_forced b then set_end x try_block_end
      else match b with EBreak => set_end x try_block_end | _ => x end
  | _, _ => x
  end.

(* ... and the match after the finalizer *)
Definition try_finally_merge (try_catch_end : option End) (x : st) : st :=
  match try_catch_end, s_end (sc x) with
  | Some a, Some EBreak => if is_forced a then set_end x (Some a) else x
  | Some a, None | Some a, Some EContinue => set_end x (Some a)
  | _, _ => x
  end.

Definition case_end_of (cs : scope) : End :=
  match s_fb cs with
  | Some _ => EBreak
  | None => match s_end cs with Some (Forced r t i) => Forced r t i | _ => EContinue end
  end.


(* fn with_child_scope(kind, start, op) *)
Definition with_child (k : kind) (start : N) (op : st -> st) (x : st) : st :=
  child_exit k start x (op (child_enter k x)).

(* The visitors.  Sub-statements are analysed by the closures `op..` (the recursive calls of `an`),
   exactly where the Rust calls `visit_with` / `visit_stmt_or_block` on them. *)
Definition visit_fn_like (p pb : N) (body : st -> st) (x : st) : st :=
  with_child KFunction p (fun a => block_end pb (body a)) x.

(* a function-like in expression position (`{get a() {..}}` in an object literal, an arrow function as a
   default value): the function, then `visit_expr` of the enclosing expression(s) *)
Definition visit_fn_expr (fp pb : N) (body : st -> st) (x : st) : st :=
  visit_lit (visit_fn_like fp pb body x).

(* fn visit_for_of_stmt / visit_for_in_stmt, `n.left.visit_with(self)` *)
Definition visit_for_head (fp pb : N) (hbody : st -> st) (x : st) : st :=
  if fixE fx then visit_fn_expr fp pb hbody x else x.

Definition visit_return (p : N) (arg : option expr) (x : st) : st :=
  mark_as_end p forced_return (match arg with Some e => visit_e e x | None => x end).

Definition visit_throw (p : N) (e : expr) (x : st) : st :=
  let x := visit_e e x in
  mark_as_end p forced_throw (if fixD fx then visit_lit x else x).

Definition visit_if (p : N) (c : cond) (p1 : N) (op1 : st -> st) (x : st) : st :=
  let x := visit_cond c x in
  let prev_end := s_end (sc x) in
  let x := with_child KIf p1 op1 x in
  set_end (mark_as_end p EContinue x) prev_end.

Definition visit_if_else (p : N) (c : cond) (p1 : N) (op1 : st -> st) (p2 : N) (op2 : st -> st) (x : st) : st :=
  let x := visit_cond c x in
  let x := with_child KIf p1 op1 x in
  let cons_reason := get_end_reason x p1 in
  let x := with_child KIf p2 op2 x in
  let alt_reason := get_end_reason x p2 in
  if_else_end p cons_reason alt_reason x.

Definition visit_while (c : cond) (body_lo : N) (body : st -> st) (x : st) : st :=
  if fixF fx then with_child KLoop body_lo (fun a => while_post c body_lo (body a)) (visit_cond c x)
  else visit_cond c (with_child KLoop body_lo (fun a => while_post c body_lo (body a)) x).

(* the test of a do-while: (fixF) visited with the scope's end as it was before the loop, then put back *)
Definition dowhile_test (prev_end : option End) (c : cond) (x : st) : st :=
  if fixF fx then set_end (visit_cond c (set_end x prev_end)) (s_end (sc x)) else visit_cond c x.
Definition dowhile_tail (prev_end : option End) (r : option End) (p : N) (c : cond) (x : st) : st :=
  dowhile_test prev_end c (match r with
                           | Some e => if is_forced e then mark_as_end p e x else x
                           | None => x
                           end).
Definition visit_do_while (p : N) (c : cond) (body_lo : N) (body : st -> st) (x : st) : st :=
  let prev_end := s_end (sc x) in
  let x := with_child KLoop body_lo (fun a => dowhile_post c body_lo (body a)) x in
  dowhile_tail prev_end (get_end_reason x body_lo) p c x.

Definition visit_for (p : N) (c : option cond) (body_lo : N) (body : st -> st) (x : st) : st :=
  let x := match c with Some c => visit_cond c x | None => x end in
  with_child KLoop body_lo (fun a => for_post p c body_lo (body a)) x.

Definition visit_for_in (body_lo : N) (body : st -> st) (x : st) : st :=
  with_child KLoop body_lo (fun a => forin_post body_lo (body a)) x.

Definition switch_end (forced_end : option End) (hd : bool) : End :=
  match forced_end with
  | Some e => if hd then e else EContinue
  | None => EContinue
  end.
Definition switch_tail (e : End) (p : N) (prev_end : option End) (x : st) : st :=
  let x := mark_as_end p e x in
  if is_forced e then x else set_end x prev_end.
Definition visit_switch (p : N) (cs : cases) (opc : st -> st) (x : st) : st :=
  let prev_end := s_end (sc x) in
  let x := opc x in
  switch_tail (switch_end (switch_forced cs x (Some (Forced false false false))) (has_default cs)) p prev_end x.

Definition visit_case (cp : N) (cons : st -> st) (y : st) : st :=
  let prev_end := s_end (sc y) in
  let c := cons (child_enter KCase y) in
  let y := child_exit KCase cp y c in
  let y := mark_as_end cp (case_end_of (sc c)) y in
  set_end y prev_end.

(* fn visit_try_stmt in three steps; `prev_end` / `old_throw` are the scope's values on entry *)
Definition try_handler (cp hbp : N) (prev_end : option End) (hb : st -> st) (x : st) : st :=
  let try_block_end := s_end (sc x) in
  let try_block_may_throw := s_mt (sc x) in
  let x := if try_block_may_throw then set_end x prev_end else x in
  let x := set_mt x false in
  let x := with_child KCatch cp (fun a => block_end hbp (hb a)) x in
  if try_block_may_throw then try_catch_merge try_block_end x else set_end x try_block_end.

Definition try_finalizer (fp : N) (prev_end : option End) (fb : st -> st) (x : st) : st :=
  let try_catch_end := s_end (sc x) in
  let x := set_end x prev_end in
  let x := with_child KFinally fp (fun a => block_end fp (fb a)) x in
  try_finally_merge try_catch_end x.

Definition try_finish (p : N) (old_throw : bool) (x : st) : st :=
  let x := match s_end (sc x) with Some e => mark_as_end p e x | None => x end in
  set_mt x (s_mt (sc x) || old_throw).

Definition visit_try (p bp : N) (blk : st -> st) (h : option (N * N)) (hb : st -> st)
           (f : option N) (fb : st -> st) (x : st) : st :=
  let old_throw := s_mt (sc x) in
  let prev_end := s_end (sc x) in
  let x := block_end bp (blk (set_mt x false)) in
  let x := match h with Some (cp, hbp) => try_handler cp hbp prev_end hb x | None => x end in
  let x := match f with Some fp => try_finalizer fp prev_end fb x | None => x end in
  try_finish p old_throw x.

(* fn visit_stmt: sets `unreachable` (with the hoisting exceptions), then the statement's visitor *)
Definition stmt_unreachable (s : stmt) (x : st) : bool :=
  match s with
  | SEmpty _ => false
  | SVar _ isv init => dead_now x && negb (isv && is_none init)
  | SFnDecl _ name _ _ => dead_now x && negb (memN name (s_hoist (sc x)))
  | _ => dead_now x
  end.

Fixpoint an (s : stmt) (x0 : st) {struct s} : st :=
  let x := set_unreach (pos s) (stmt_unreachable s x0) x0 in
  match s with
  | SExpr p e => visit_e e x
  | SEmpty p => x
  | SVar p isv init => match init with Some e => visit_e e x | None => x end
  | SFnDecl p name pb body => visit_fn_like p pb (an_list body) x
  | SArrowStmt p pb body => visit_lit (visit_fn_like p pb (an_list body) x)
  | SGetterStmt p gp pb body => visit_fn_expr gp pb (an_list body) x
  | SRet p arg => visit_return p arg x
  | SThrow p e => visit_throw p e x
  | SBrk p l => visit_break l x
  | SCont p l => set_fc x true
  | SBlock p b => block_end p (an_list b x)
  | SIf p c s1 => visit_if p c (pos s1) (fun a => orb_mark s1 (an s1 a)) x
  | SIfElse p c s1 s2 =>
      visit_if_else p c (pos s1) (fun a => orb_mark s1 (an s1 a)) (pos s2) (fun a => orb_mark s2 (an s2 a)) x
  | SWhile p c b => visit_while c (pos b) (an b) x
  | SDoWhile p b c => visit_do_while p c (pos b) (an b) x
  (* fn visit_for_stmt: init, update, test, then the body *)
  | SFor p i c u b => visit_for p c (pos b) (an b) (visit_oe u (visit_oe i x))
  | SForIn p b | SForOf p b => visit_for_in (pos b) (an b) x
  | SForHead p _ fp pb hb b => visit_for_in (pos b) (an b) (visit_for_head fp pb (an_list hb) x)
  | SSwitch p cs => visit_switch p cs (an_cases cs) x
  | SLabel p l b => with_child (KLabel l) p (fun a => orb_mark b (an b a)) x
  | STry p bp blk h hb f fb => visit_try p bp (an_list blk) h (an_list hb) f (an_list fb) x
  end
(* fn visit_stmts *)
with an_list (l : stmts) (y : st) {struct l} : st :=
  match l with
  | SNil => y
  | SCons t r => an_list r (orb_mark t (an t y))
  end
(* fn visit_switch_case, for each case in order *)
with an_cases (cs : cases) (y : st) {struct cs} : st :=
  match cs with
  | CNil => y
  | CCons cp t _ cns r => an_cases r (visit_case cp (an_list cns) (visit_test t y))
  end.

(* A function-like body analysed in a fresh Function scope (fn visit_function /
   visit_getter_prop: `with_child_scope(Function, ..)` around the body block). *)
Definition analyze_st (p : program) : st := block_end (p_pb p) (an_list (p_body p) init_st).
Definition analyze (p : program) : imap := info (analyze_st p).

End WithFixes.

(* ------------------------------------------------------------------ *)
(* impl Metadata *)
Definition stops_execution (m : meta) : bool := dead (m_end m).
Definition continues_execution (m : meta) : bool := live (m_end m).

(* all statements, at any depth, nested function bodies included *)
Fixpoint all_stmts (s : stmt) : list stmt :=
  s :: match s with
       | SFnDecl _ _ _ b | SArrowStmt _ _ b | SGetterStmt _ _ _ b | SBlock _ b => all_stmts_l b
       | SForHead _ _ _ _ hb b => all_stmts_l hb ++ all_stmts b
       | SIf _ _ a => all_stmts a
       | SIfElse _ _ a b => all_stmts a ++ all_stmts b
       | SWhile _ _ b | SDoWhile _ b _ | SFor _ _ _ _ b | SForIn _ b | SForOf _ b | SLabel _ _ b => all_stmts b
       | SSwitch _ cs => all_stmts_c cs
       | STry _ _ blk _ hb _ fb => all_stmts_l blk ++ all_stmts_l hb ++ all_stmts_l fb
       | _ => []
       end
with all_stmts_l (l : stmts) : list stmt :=
  match l with SNil => [] | SCons s r => all_stmts s ++ all_stmts_l r end
with all_stmts_c (cs : cases) : list stmt :=
  match cs with CNil => [] | CCons _ _ _ b r => all_stmts_l b ++ all_stmts_c r end.

(* rules/no_unreachable.rs: statements never reported *)
Definition nu_skipped (s : stmt) : bool :=
  match s with
  | SBlock _ _ => true
  | SFnDecl _ _ _ _ => true
  | SVar _ true None => true
  | _ => false
  end.

Definition flagged_unreachable (i : imap) (s : stmt) : bool :=
  negb (nu_skipped s) && match iget i (pos s) with Some m => m_unreach m | None => false end.

Definition no_unreachable_on (i : imap) (p : program) : list N :=
  map pos (filter (flagged_unreachable i) (all_stmts_l (p_body p))).

(* rules/getter_return.rs: `return;` statements of the getter itself (not of nested functions) *)
Fixpoint bare_returns (s : stmt) : list N :=
  match s with
  | SRet p None => [p]
  | SBlock _ b => bare_returns_l b
  | SIf _ _ a => bare_returns a
  | SIfElse _ _ a b => bare_returns a ++ bare_returns b
  | SWhile _ _ b | SDoWhile _ b _ | SFor _ _ _ _ b | SForIn _ b | SForOf _ b | SLabel _ _ b
  | SForHead _ _ _ _ _ b => bare_returns b
  | SSwitch _ cs => bare_returns_c cs
  | STry _ _ blk _ hb _ fb => bare_returns_l blk ++ bare_returns_l hb ++ bare_returns_l fb
  | _ => []
  end
with bare_returns_l (l : stmts) : list N :=
  match l with SNil => [] | SCons s r => bare_returns s ++ bare_returns_l r end
with bare_returns_c (cs : cases) : list N :=
  match cs with CNil => [] | CCons _ _ _ b r => bare_returns_l b ++ bare_returns_c r end.

(* the getters nested in a statement, at any depth: (start of the GetterProp, `{` of its body, body) *)
Fixpoint getters (s : stmt) : list (N * N * stmts) :=
  match s with
  | SGetterStmt _ gp pb b => (gp, pb, b) :: getters_l b
  | SForHead _ g fp pb hb b => (if g then [(fp, pb, hb)] else []) ++ getters_l hb ++ getters b
  | SFnDecl _ _ _ b | SArrowStmt _ _ b | SBlock _ b => getters_l b
  | SIf _ _ a => getters a
  | SIfElse _ _ a b => getters a ++ getters b
  | SWhile _ _ b | SDoWhile _ b _ | SFor _ _ _ _ b | SForIn _ b | SForOf _ b | SLabel _ _ b => getters b
  | SSwitch _ cs => getters_c cs
  | STry _ _ blk h hb f fb =>
      getters_l blk ++ (match h with Some _ => getters_l hb | None => [] end)
                    ++ (match f with Some _ => getters_l fb | None => [] end)
  | _ => []
  end
with getters_l (l : stmts) : list (N * N * stmts) :=
  match l with SNil => [] | SCons s r => getters s ++ getters_l r end
with getters_c (cs : cases) : list (N * N * stmts) :=
  match cs with CNil => [] | CCons _ _ _ b r => getters_l b ++ getters_c r end.

(* all getters that getter-return checks: the program's own one and the nested ones *)
Definition all_getters (p : program) : list (N * N * stmts) :=
  (if p_getter p then [(p_start p, p_pb p, p_body p)] else []) ++ getters_l (p_body p).

(* fn check_getter: `.meta(body.start).unwrap().continues_execution()`; a missing entry is the
   third kind of `unwrap` - it PANICS (`getter_return_panics`; theorem `every_queried_key_present`:
   never for the current code) *)
Definition getter_entry_continues (i : imap) (pb : N) : bool :=
  match iget i pb with Some m => continues_execution m | None => true end.
Definition getter_body_continues (i : imap) (p : program) : bool := getter_entry_continues i (p_pb p).

Definition getter_diags (i : imap) (g : N * N * stmts) : list N :=
  (if getter_entry_continues i (snd (fst g)) then [fst (fst g)] else []) ++ bare_returns_l (snd g).

Definition getter_return_on (i : imap) (p : program) : list N := flat_map (getter_diags i) (all_getters p).

Definition getter_return_panics_on (i : imap) (p : program) : bool :=
  existsb (fun g => match iget i (snd (fst g)) with None => true | Some _ => false end) (all_getters p).

(* rules/no_fallthrough.rs, fn visit_switch_cases: one switch *)
Fixpoint any_stops (i : imap) (l : stmts) : bool :=
  match l with
  | SNil => false
  | SCons s r => match iget i (pos s) with Some m => stops_execution m | None => false end || any_stops i r
  end.
Definition case_empty (l : stmts) : bool :=
  match l with SNil => true | SCons (SBlock _ SNil) SNil => true | _ => false end.
(* a case is reported iff it is not the last one, none of its top-level statements
   stops execution, it is not empty, and no fall-through comment follows it *)
Fixpoint fallthrough_cases (i : imap) (cs : cases) : list N :=
  match cs with
  | CNil => []
  | CCons _ _ _ _ CNil => []
  | CCons cp _ ft b r =>
      (if any_stops i b || case_empty b || ft then [] else [cp]) ++ fallthrough_cases i r
  end.

Fixpoint switches (l : list stmt) : list (N * cases) :=
  match l with
  | [] => []
  | SSwitch p cs :: r => (p, cs) :: switches r
  | _ :: r => switches r
  end.

Definition no_fallthrough_on (i : imap) (p : program) : list N :=
  flat_map (fun pc => fallthrough_cases i (snd pc)) (switches (all_stmts_l (p_body p))).

Definition no_unreachable (fx : fixes) (p : program) := no_unreachable_on (analyze fx p) p.
Definition getter_return (fx : fixes) (p : program) := getter_return_on (analyze fx p) p.
Definition no_fallthrough (fx : fixes) (p : program) := no_fallthrough_on (analyze fx p) p.
Definition getter_return_panics (fx : fixes) (p : program) := getter_return_panics_on (analyze fx p) p.
