(* C10/C11 - proof layer 1, definitions: the "ghost" analyzer `anG`.

   `anG` performs exactly the operations of `an` (Analyzer.v) on the same state, but it
   never READS the result map: wherever the Rust code calls `get_end_reason(k)`, `anG`
   uses a value that the analysis of the sub-statement returned ("ghost" end reason).
   It also returns a log: for every statement, whether the scope was dead when it was
   visited and the `unreachable` flag written; for every switch case, whether one of its
   top-level statements "stops execution" (what no-fallthrough consults).

   SoundnessMap.v proves that under `wf` (pairwise distinct keys) `anG` and `an` compute
   the same state and the ghost values are the values in the map; SoundnessInv.v proves
   the invariants P1-P6 of `anG` against the executable semantics without any reasoning
   about the map.  The check also compares `anG` with `an` on every generated program. *)
From V Require Export CF.Analyzer.

Inductive gent :=
| GStmt (k : N) (dead_before : bool) (unreachable : bool)
    (* visit_stmt at position k: was the scope's end Forced/Break, and the flag written to info[k].unreachable *)
| GCase (b : stmts) (live_before : bool) (stops : bool).
    (* a switch case with consequent b: was the scope live at the switch, and does one of the top-level
       statements of b have an end reason that stops execution (what no-fallthrough consults) *)

(* the value that `mark_as_end(k, e)` writes into info[k].end when the scope's end is `cur` *)
Definition mark_val (cur : option End) (e : End) : option End :=
  match cur with
  | None | Some EContinue | Some EBreak => Some e
  | Some old => match merge_forced old e with Some y => Some y | None => cur end
  end.

Definition gres := (st * option End * list gent)%type.
(* for a statement list: the end reasons of its elements (after visit_stmt_or_block), in order *)
Definition gres_l := (st * list (option End) * list gent)%type.
Definition tops_stop (tops : list (option End)) : bool := existsb dead tops.

Section WithFixes.
Variable fx : fixes.

(* visit_stmt_or_block after the statement itself *)
Definition orbG (s : stmt) (r : gres) : gres :=
  let '(y, rs, lg) := r in
  if is_brk_or_cont s then (mark_as_end (pos s) EBreak y, mark_val (s_end (sc y)) EBreak, lg) else r.

Definition with_childG (k : kind) (start : N) (op : st -> gres) (x : st) : gres :=
  let '(c, r, lg) := op (child_enter k x) in (child_exit fx k start x c, r, lg).

Definition block_endG (p : N) (r : gres_l) : gres :=
  let '(y, _, lg) := r in
  (block_end p y, mark_val (s_end (sc y)) (match s_end (sc y) with Some e => e | None => EContinue end), lg).

Definition fn_likeG (p pb : N) (body : st -> gres_l) (x : st) : gres :=
  let '(c, _, lg) := block_endG pb (body (child_enter KFunction x)) in
  (child_exit fx KFunction p x c,
   match s_end (sc c) with
   | Some e => match e with
               | Forced _ _ _ | EContinue => if fixC fx then None else mark_val (s_end (sc x)) e
               | EBreak => None
               end
   | None => None
   end, lg).

(* a function-like in expression position; nothing is recorded under the enclosing statement's key *)
Definition fn_exprG (fp pb : N) (body : st -> gres_l) (x : st) : gres :=
  let '(y, _, lg) := fn_likeG fp pb body x in (visit_lit y, None, lg).

Definition for_headG (fp pb : N) (hbody : st -> gres_l) (x : st) : gres :=
  if fixE fx then fn_exprG fp pb hbody x else (x, None, []).

(* `hd` (the loop head), then `tl` (the loop) *)
Definition seqG (hd tl : st -> gres) (x : st) : gres :=
  let '(y, _, lg1) := hd x in
  let '(z, r, lg2) := tl y in
  (z, r, lg1 ++ lg2).

Definition visit_returnG (p : N) (arg : option expr) (x : st) : st * option End :=
  let x := match arg with Some e => visit_e e x | None => x end in
  (mark_as_end p forced_return x, mark_val (s_end (sc x)) forced_return).

Definition visit_throwG (p : N) (e : expr) (x : st) : st * option End :=
  let x := visit_e e x in
  let x := if fixD fx then visit_lit x else x in
  (mark_as_end p forced_throw x, mark_val (s_end (sc x)) forced_throw).

Definition visit_ifG (p : N) (c : cond) (p1 : N) (op1 : st -> gres) (x : st) : gres :=
  let x := visit_cond c x in
  let prev_end := s_end (sc x) in
  let '(x, _, lg) := with_childG KIf p1 op1 x in
  (set_end (mark_as_end p EContinue x) prev_end, mark_val (s_end (sc x)) EContinue, lg).

Definition visit_if_elseG (p : N) (c : cond) (p1 : N) (op1 : st -> gres) (p2 : N) (op2 : st -> gres) (x : st) : gres :=
  let x := visit_cond c x in
  let '(x, r1, lg1) := with_childG KIf p1 op1 x in
  let '(x, r2, lg2) := with_childG KIf p2 op2 x in
  (if_else_end p r1 r2 x,
   match if_else_mark r1 r2 with Some e => mark_val (s_end (sc x)) e | None => None end,
   lg1 ++ lg2).

Definition visit_whileG (c : cond) (body_lo : N) (body : st -> gres) (x : st) : gres :=
  let x0 := if fixF fx then visit_cond c x else x in
  let '(a, r, lg) := body (child_enter KLoop x0) in
  let y := child_exit fx KLoop body_lo x0 (while_post_r r c body_lo a) in
  (if fixF fx then y else visit_cond c y, None, lg).

Definition visit_do_whileG (p : N) (c : cond) (body_lo : N) (body : st -> gres) (x : st) : gres :=
  let '(a, r, lg) := body (child_enter KLoop x) in
  let a2 := dowhile_post_r fx r c body_lo a in
  let x1 := child_exit fx KLoop body_lo x a2 in
  (* info[body_lo].end as re-marked by the Loop scope exit *)
  let r2 := match s_end (sc a2) with Some e => mark_val (s_end (sc x)) e | None => None end in
  (dowhile_tail fx (s_end (sc x)) r2 p c x1,
   match r2 with Some e => if is_forced e then mark_val (s_end (sc x1)) e else None | None => None end,
   lg).

Definition visit_forG (p : N) (c : option cond) (body_lo : N) (body : st -> gres) (x : st) : gres :=
  let x := match c with Some c => visit_cond c x | None => x end in
  let '(a, r, lg) := body (child_enter KLoop x) in
  (child_exit fx KLoop body_lo x (for_post_r r p c body_lo a),
   if for_forced c a then mark_val (s_end (sc a)) (for_e r) else None,
   lg).

Definition visit_for_inG (body_lo : N) (body : st -> gres) (x : st) : gres :=
  let '(a, _, lg) := body (child_enter KLoop x) in
  (child_exit fx KLoop body_lo x (forin_post body_lo a), None, lg).

(* switch_forced over the ghost case ends *)
Fixpoint switch_forcedG (rs : list (option End)) (acc : option End) : option End :=
  match rs with
  | [] => acc
  | r :: rest =>
      switch_forcedG rest
        (match acc with
         | None => None
         | Some a => match r with Some cur => merge_forced a cur | None => Some a end
         end)
  end.

Definition visit_switchG (p : N) (cs : cases) (opc : st -> st * list (option End) * list gent) (x : st) : gres :=
  let prev_end := s_end (sc x) in
  let '(x1, rs, lg) := opc x in
  let e := switch_end (switch_forcedG rs (Some (Forced false false false))) (has_default cs) in
  (switch_tail e p prev_end x1, mark_val (s_end (sc x1)) e, lg).

Definition visit_caseG (cp : N) (b : stmts) (cons : st -> gres_l) (y : st) : gres :=
  let prev_end := s_end (sc y) in
  let '(c, tops, lg) := cons (child_enter KCase y) in
  let y1 := child_exit fx KCase cp y c in
  let e := case_end_of (sc c) in
  (set_end (mark_as_end cp e y1) prev_end, mark_val (s_end (sc y1)) e,
   GCase b (live_now y) (tops_stop tops) :: lg).

Definition try_handlerG (cp hbp : N) (prev_end : option End) (hb : st -> gres_l) (x : st) : st * list gent :=
  let try_block_end := s_end (sc x) in
  let try_block_may_throw := s_mt (sc x) in
  let x := if try_block_may_throw then set_end x prev_end else x in
  let x := set_mt x false in
  let '(x, _, lg) := with_childG KCatch cp (fun a => block_endG hbp (hb a)) x in
  (if try_block_may_throw then try_catch_merge try_block_end x else set_end x try_block_end, lg).

Definition try_finalizerG (fp : N) (prev_end : option End) (fb : st -> gres_l) (x : st) : st * list gent :=
  let try_catch_end := s_end (sc x) in
  let x := set_end x prev_end in
  let '(x, _, lg) := with_childG KFinally fp (fun a => block_endG fp (fb a)) x in
  (try_finally_merge try_catch_end x, lg).

Definition visit_tryG (p bp : N) (blk : st -> gres_l) (h : option (N * N)) (hb : st -> gres_l)
           (f : option N) (fb : st -> gres_l) (x : st) : gres :=
  let old_throw := s_mt (sc x) in
  let prev_end := s_end (sc x) in
  let '(x1, _, lg1) := block_endG bp (blk (set_mt x false)) in
  let '(x2, lg2) := match h with Some (cp, hbp) => try_handlerG cp hbp prev_end hb x1 | None => (x1, []) end in
  let '(x3, lg3) := match f with Some fp => try_finalizerG fp prev_end fb x2 | None => (x2, []) end in
  (try_finish p old_throw x3,
   match s_end (sc x3) with Some e => mark_val (s_end (sc x3)) e | None => None end,
   lg1 ++ lg2 ++ lg3).

Definition gcons (g : gent) (r : gres) : gres := let '(y, rs, lg) := r in (y, rs, g :: lg).

Fixpoint anG (s : stmt) (x0 : st) {struct s} : gres :=
  let x := set_unreach (pos s) (stmt_unreachable s x0) x0 in
  gcons (GStmt (pos s) (dead_now x0) (stmt_unreachable s x0))
  match s with
  | SExpr p e => (visit_e e x, None, [])
  | SEmpty p => (x, None, [])
  | SVar p isv init => (match init with Some e => visit_e e x | None => x end, None, [])
  | SFnDecl p name pb body => fn_likeG p pb (anG_list body) x
  | SArrowStmt p pb body => let '(y, r, lg) := fn_likeG p pb (anG_list body) x in (visit_lit y, r, lg)
  | SGetterStmt p gp pb body => fn_exprG gp pb (anG_list body) x
  | SRet p arg => let '(y, r) := visit_returnG p arg x in (y, r, [])
  | SThrow p e => let '(y, r) := visit_throwG p e x in (y, r, [])
  | SBrk p l => (visit_break fx l x, None, [])
  | SCont p l => (set_fc x true, None, [])
  | SBlock p b => block_endG p (anG_list b x)
  | SIf p c s1 => visit_ifG p c (pos s1) (fun a => orbG s1 (anG s1 a)) x
  | SIfElse p c s1 s2 =>
      visit_if_elseG p c (pos s1) (fun a => orbG s1 (anG s1 a)) (pos s2) (fun a => orbG s2 (anG s2 a)) x
  | SWhile p c b => visit_whileG c (pos b) (anG b) x
  | SDoWhile p b c => visit_do_whileG p c (pos b) (anG b) x
  | SFor p i c u b => visit_forG p c (pos b) (anG b) (visit_oe u (visit_oe i x))
  | SForIn p b | SForOf p b => visit_for_inG (pos b) (anG b) x
  | SForHead p _ fp pb hb b => seqG (for_headG fp pb (anG_list hb)) (visit_for_inG (pos b) (anG b)) x
  | SSwitch p cs => visit_switchG p cs (anG_cases cs) x
  | SLabel p l b =>
      let '(y, _, lg) := with_childG (KLabel l) p (fun a => orbG b (anG b a)) x in (y, None, lg)
  | STry p bp blk h hb f fb => visit_tryG p bp (anG_list blk) h (anG_list hb) f (anG_list fb) x
  end
with anG_list (l : stmts) (y : st) {struct l} : gres_l :=
  match l with
  | SNil => (y, [], [])
  | SCons t r =>
      let '(y1, r1, lg1) := orbG t (anG t y) in
      let '(y2, tops, lg2) := anG_list r y1 in
      (y2, r1 :: tops, lg1 ++ lg2)
  end
with anG_cases (cs : cases) (y : st) {struct cs} : st * list (option End) * list gent :=
  match cs with
  | CNil => (y, [], [])
  | CCons cp t _ cns r =>
      let '(y1, r1, lg1) := visit_caseG cp cns (anG_list cns) (visit_test t y) in
      let '(y2, rs, lg2) := anG_cases r y1 in
      (y2, r1 :: rs, lg1 ++ lg2)
  end.

Definition analyzeG (p : program) : gres := block_endG (p_pb p) (anG_list (p_body p) init_st).

End WithFixes.

