(* C01 (control-flow part) - KEY COVERAGE: every key that a rule can look up in the analysis result
   (`ControlFlow::meta(pos)`) has an entry, for every program (well formed or not), at any nesting depth:
   every statement offset, the `{` of every block / function body / getter body / try block / handler /
   finalizer, every `catch` and `case` offset - including the bodies of nested functions, arrow
   functions and getters, and of function-likes in the head of a for-in/of (`qkeys`, Syntax.v).

   getter-return does `.meta(getter_body.start).unwrap()`: a missing entry is a panic.  The theorem holds
   for every variant of the code that visits the head of for-in/of statements (`fixE`, in the code since
   the commit "fix: the control-flow analysis visits the head of for-in and for-of statements"); it is
   FALSE without (`coverage_refuted_before_fix_E`: the model of the old code panics on
   `for (const [k = {get a() { }}] of o) ;`). *)
From V Require Import CF.Soundness CF.SoundnessTotal.

Definition has (x : st) (k : N) : Prop := iget (info x) k <> None.
(* `op` never removes an entry / `op` leaves an entry for every key of K *)
Definition grows (op : st -> st) : Prop := forall x k, has x k -> has (op x) k.
Definition covers (op : st -> st) (K : list N) : Prop := forall x k, In k K -> has (op x) k.

Section Cov.
Variable fx : fixes.
Hypothesis HE : fixE fx = true.

Lemma has_info x y k : info y = info x -> has x k -> has y k.
Proof. unfold has. intros ->. exact (fun H => H). Qed.

Lemma iget_iset_other m k f k' : iget m k' <> None -> iget (iset m k f) k' <> None.
Proof.
  induction m as [|[k0 v] r IH]; cbn [iset iget]; [intros H; exfalso; apply H; reflexivity|].
  destruct (N.eqb k k0) eqn:E; cbn [iget].
  - destruct (N.eqb k' k0); [discriminate | exact (fun H => H)].
  - destruct (N.eqb k' k0); [discriminate | exact IH].
Qed.

Lemma has_mark k e x k' : has x k' -> has (mark_as_end k e x) k'.
Proof.
  unfold has, mark_as_end. destruct (s_end (sc x)) as [[r t i| |]|]; cbn [set_info set_end with_sc info]; apply iget_iset_other.
Qed.
Lemma has_mark_same k e x : has (mark_as_end k e x) k.
Proof. apply iget_mark. Qed.
Lemma has_set_unreach k b x k' : has x k' -> has (set_unreach k b x) k'.
Proof. unfold has, set_unreach. cbn [set_info info]. apply iget_iset_other. Qed.
Lemma has_set_unreach_same k b x : has (set_unreach k b x) k.
Proof. unfold has, set_unreach. cbn [set_info info]. apply iget_iset_same. Qed.

Lemma info_visit_lit x : info (visit_lit x) = info x.
Proof. unfold visit_lit. destruct (live_now x); reflexivity. Qed.
Lemma info_visit_ident i x : info (visit_ident i x) = info x.
Proof. unfold visit_ident. destruct (live_now x); reflexivity. Qed.
Lemma info_visit_e e x : info (visit_e e x) = info x.
Proof. destruct e; cbn [visit_e]; rewrite ?info_visit_lit, ?info_visit_ident; reflexivity. Qed.
Lemma info_visit_cond c x : info (visit_cond c x) = info x.
Proof. destruct c; cbn [visit_cond]; rewrite ?info_visit_lit, ?info_visit_e; reflexivity. Qed.
Lemma info_visit_test t x : info (visit_test t x) = info x.
Proof. destruct t; cbn [visit_test]; [apply info_visit_e | reflexivity]. Qed.
Lemma info_visit_break l x : info (visit_break fx l x) = info x.
Proof. unfold visit_break. destruct (fixB fx); [destruct l; [destruct (s_fb (sc x))|]|]; reflexivity. Qed.

Lemma has_visit_lit x k : has x k -> has (visit_lit x) k.
Proof. apply has_info, info_visit_lit. Qed.
Lemma has_visit_e e x k : has x k -> has (visit_e e x) k.
Proof. apply has_info, info_visit_e. Qed.
Lemma has_visit_oe o x k : has x k -> has (visit_oe o x) k.
Proof. destruct o; cbn [visit_oe]; [apply has_visit_e | exact (fun H => H)]. Qed.
Lemma has_visit_cond c x k : has x k -> has (visit_cond c x) k.
Proof. apply has_info, info_visit_cond. Qed.
Lemma has_visit_test t x k : has x k -> has (visit_test t x) k.
Proof. apply has_info, info_visit_test. Qed.
Lemma has_visit_break l x k : has x k -> has (visit_break fx l x) k.
Proof. apply has_info, info_visit_break. Qed.
Lemma has_set_end x e k : has x k -> has (set_end x e) k.
Proof. exact (fun H => H). Qed.
Lemma has_set_mt x b k : has x k -> has (set_mt x b) k.
Proof. exact (fun H => H). Qed.
Lemma has_set_fc x b k : has x k -> has (set_fc x b) k.
Proof. exact (fun H => H). Qed.
Lemma has_set_panic x k : has x k -> has (set_panic x) k.
Proof. exact (fun H => H). Qed.
Lemma has_child_enter kd x k : has x k -> has (child_enter kd x) k.
Proof. exact (fun H => H). Qed.

Lemma has_block_end p y k : has y k -> has (block_end p y) k.
Proof. unfold block_end. destruct (s_end (sc y)); apply has_mark. Qed.
Lemma has_block_end_same p y : has (block_end p y) p.
Proof. unfold block_end. destruct (s_end (sc y)); apply has_mark_same. Qed.
Lemma end_block_end_some p y : s_end (sc (block_end p y)) <> None.
Proof.
  unfold block_end, mark_as_end. destruct (s_end (sc y)) as [[r t i| |]|] eqn:Ee; cbn [set_info set_end with_sc sc s_end]; try rewrite Ee; discriminate.
Qed.
Lemma has_orb_mark s y k : has y k -> has (orb_mark s y) k.
Proof. unfold orb_mark. destruct (is_brk_or_cont s); [apply has_mark | exact (fun H => H)]. Qed.

Lemma has_child_exit kd start x c k : has c k -> has (child_exit fx kd start x c) k.
Proof.
  intros H. unfold child_exit. destruct (s_end (sc c)) as [e|]; [|exact H].
  destruct kd.
  - destruct e; destruct (fixC fx); try exact H; apply has_set_end, has_mark; exact H.
  - exact H.
  - exact H.
  - destruct e; apply has_set_end, has_mark; exact H.
  - cbv zeta. cbn [sc s_fb].
    match goal with |- has (match ?o with _ => _ end) _ => destruct o as [[id|]|] end; try exact H.
    destruct (N.eqb id l); exact H.
  - apply has_mark. exact H.
  - apply has_mark. exact H.
Qed.

(* the `catch` keyword / the finalizer block: recorded when the child scope has an end *)
Lemma has_child_exit_catch start x c : s_end (sc c) <> None -> has (child_exit fx KCatch start x c) start.
Proof. intros H. unfold child_exit. destruct (s_end (sc c)) as [e|]; [apply has_mark_same | contradiction]. Qed.

Lemma grows_with_child kd start op : grows op -> grows (with_child fx kd start op).
Proof. intros H x k Hk. unfold with_child. apply has_child_exit. apply H. exact Hk. Qed.
Lemma covers_with_child kd start op K : covers op K -> covers (with_child fx kd start op) K.
Proof. intros H x k Hk. unfold with_child. apply has_child_exit. apply H. exact Hk. Qed.

Lemma grows_block_end p op : grows op -> grows (fun a => block_end p (op a)).
Proof. intros H x k Hk. apply has_block_end. apply H. exact Hk. Qed.
Lemma covers_block_end p op K : covers op K -> covers (fun a => block_end p (op a)) (p :: K).
Proof. intros H x k [<- | Hk]; [apply has_block_end_same | apply has_block_end; apply H; exact Hk]. Qed.
Lemma grows_orb s op : grows op -> grows (fun a => orb_mark s (op a)).
Proof. intros H x k Hk. apply has_orb_mark. apply H. exact Hk. Qed.
Lemma covers_orb s op K : covers op K -> covers (fun a => orb_mark s (op a)) K.
Proof. intros H x k Hk. apply has_orb_mark. apply H. exact Hk. Qed.

(* function-likes *)
Lemma grows_fn_like p pb op : grows op -> grows (visit_fn_like fx p pb op).
Proof. intros H. unfold visit_fn_like. apply grows_with_child. apply grows_block_end. exact H. Qed.
Lemma covers_fn_like p pb op K : covers op K -> covers (visit_fn_like fx p pb op) (pb :: K).
Proof. intros H. unfold visit_fn_like. apply covers_with_child. apply covers_block_end. exact H. Qed.
Lemma grows_fn_expr p pb op : grows op -> grows (visit_fn_expr fx p pb op).
Proof. intros H x k Hk. unfold visit_fn_expr. apply has_visit_lit. apply grows_fn_like; assumption. Qed.
Lemma covers_fn_expr p pb op K : covers op K -> covers (visit_fn_expr fx p pb op) (pb :: K).
Proof. intros H x k Hk. unfold visit_fn_expr. apply has_visit_lit. apply (covers_fn_like p pb op K H). exact Hk. Qed.
Lemma grows_for_head p pb op : grows op -> grows (visit_for_head fx p pb op).
Proof. intros H x k Hk. unfold visit_for_head. destruct (fixE fx); [apply grows_fn_expr; assumption | exact Hk]. Qed.
(* here the repair E is used *)
Lemma covers_for_head p pb op K : covers op K -> covers (visit_for_head fx p pb op) (pb :: K).
Proof. intros H x k Hk. unfold visit_for_head. rewrite HE. apply (covers_fn_expr p pb op K H). exact Hk. Qed.

(* return / throw *)
Lemma grows_return p a : grows (visit_return p a).
Proof. intros x k Hk. unfold visit_return. apply has_mark. destruct a; [apply has_visit_e|]; exact Hk. Qed.
Lemma grows_throw p e : grows (visit_throw fx p e).
Proof. intros x k Hk. unfold visit_throw. apply has_mark. destruct (fixD fx); [apply has_visit_lit|]; apply has_visit_e; exact Hk. Qed.

(* if *)
Lemma grows_if p c p1 op1 : grows op1 -> grows (visit_if fx p c p1 op1).
Proof.
  intros H x k Hk. unfold visit_if. apply has_set_end, has_mark. apply grows_with_child; [exact H|]. apply has_visit_cond. exact Hk.
Qed.
Lemma covers_if p c p1 op1 K : covers op1 K -> covers (visit_if fx p c p1 op1) K.
Proof. intros H x k Hk. unfold visit_if. apply has_set_end, has_mark. apply (covers_with_child KIf p1 op1 K H). exact Hk. Qed.

Lemma has_if_else_end p r1 r2 x k : has x k -> has (if_else_end p r1 r2 x) k.
Proof. intros H. unfold if_else_end. destruct (if_else_mark r1 r2); [apply has_mark | apply has_set_panic]; exact H. Qed.

Lemma grows_if_else p c p1 op1 p2 op2 : grows op1 -> grows op2 -> grows (visit_if_else fx p c p1 op1 p2 op2).
Proof.
  intros H1 H2 x k Hk. unfold visit_if_else. apply has_if_else_end.
  apply grows_with_child; [exact H2|]. apply grows_with_child; [exact H1|]. apply has_visit_cond. exact Hk.
Qed.
Lemma covers_if_else p c p1 op1 p2 op2 K1 K2 :
  covers op1 K1 -> grows op2 -> covers op2 K2 -> covers (visit_if_else fx p c p1 op1 p2 op2) (K1 ++ K2).
Proof.
  intros H1 G2 H2 x k Hk. unfold visit_if_else. apply has_if_else_end. apply in_app_or in Hk. destruct Hk as [Hk | Hk].
  - apply grows_with_child; [exact G2|]. apply (covers_with_child KIf p1 op1 K1 H1). exact Hk.
  - apply (covers_with_child KIf p2 op2 K2 H2). exact Hk.
Qed.

(* loops *)
Lemma has_while_post c lo a k : has a k -> has (while_post c lo a) k.
Proof.
  intros H. unfold while_post, while_post_r.
  destruct (known_true c && oend_forced (get_end_reason a lo) && negb (fb_unlabelled (s_fb (sc a)))).
  - destruct (get_end_reason a lo); [apply has_set_end, has_mark | apply has_set_panic]; exact H.
  - destruct (known_true c && negb (fb_unlabelled (s_fb (sc a)))); apply has_set_end, has_mark; exact H.
Qed.
Lemma has_dowhile_post c lo a k : has a k -> has (dowhile_post fx c lo a) k.
Proof.
  intros H. unfold dowhile_post, dowhile_post_r.
  destruct (oend_forced (get_end_reason a lo) && negb (fb_unlabelled (s_fb (sc a))) && negb (fixA fx && s_fc (sc a))).
  - destruct (get_end_reason a lo); [apply has_set_end, has_mark | apply has_set_panic]; exact H.
  - destruct (known_true c && fb_none (s_fb (sc a))); apply has_set_end, has_mark; exact H.
Qed.
Lemma has_for_post p c lo a k : has a k -> has (for_post p c lo a) k.
Proof.
  intros H. unfold for_post, for_post_r. destruct (for_forced c a); cbn [negb orb].
  - destruct (fb_unlabelled (s_fb (sc a))); [apply has_set_end, has_mark|]; apply has_mark; exact H.
  - apply has_set_end, has_mark. exact H.
Qed.
Lemma has_forin_post lo a k : has a k -> has (forin_post lo a) k.
Proof. intros H. unfold forin_post. apply has_set_end, has_mark. exact H. Qed.
Lemma has_dowhile_tail prev r p c x k : has x k -> has (dowhile_tail fx prev r p c x) k.
Proof.
  intros H. unfold dowhile_tail, dowhile_test.
  assert (H' : has (match r with Some e => if is_forced e then mark_as_end p e x else x | None => x end) k)
    by (destruct r as [e|]; [destruct (is_forced e); [apply has_mark|]|]; exact H).
  destruct (fixF fx); [apply has_set_end, has_visit_cond, has_set_end | apply has_visit_cond]; exact H'.
Qed.

Lemma grows_while c lo op : grows op -> grows (visit_while fx c lo op).
Proof.
  intros H x k Hk. unfold visit_while.
  assert (G : grows (fun a => while_post c lo (op a))) by (intros y k' Hk'; apply has_while_post; apply H; exact Hk').
  destruct (fixF fx); [apply grows_with_child; [exact G | apply has_visit_cond; exact Hk] | apply has_visit_cond; apply grows_with_child; [exact G | exact Hk]].
Qed.
Lemma covers_while c lo op K : covers op K -> covers (visit_while fx c lo op) K.
Proof.
  intros H x k Hk. unfold visit_while.
  assert (C : covers (fun a => while_post c lo (op a)) K) by (intros y k' Hk'; apply has_while_post; apply H; exact Hk').
  destruct (fixF fx); [|apply has_visit_cond]; apply (covers_with_child KLoop lo _ K C); exact Hk.
Qed.
Lemma grows_do_while p c lo op : grows op -> grows (visit_do_while fx p c lo op).
Proof.
  intros H x k Hk. unfold visit_do_while. apply has_dowhile_tail. apply grows_with_child; [|exact Hk].
  intros y k' Hk'. apply has_dowhile_post. apply H. exact Hk'.
Qed.
Lemma covers_do_while p c lo op K : covers op K -> covers (visit_do_while fx p c lo op) K.
Proof.
  intros H x k Hk. unfold visit_do_while. apply has_dowhile_tail.
  apply (covers_with_child KLoop lo _ K); [|exact Hk]. intros y k' Hk'. apply has_dowhile_post. apply H. exact Hk'.
Qed.
Lemma grows_for p c lo op : grows op -> grows (visit_for fx p c lo op).
Proof.
  intros H x k Hk. unfold visit_for. apply grows_with_child.
  - intros y k' Hk'. apply has_for_post. apply H. exact Hk'.
  - destruct c; [apply has_visit_cond|]; exact Hk.
Qed.
Lemma covers_for p c lo op K : covers op K -> covers (visit_for fx p c lo op) K.
Proof.
  intros H x k Hk. unfold visit_for.
  apply (covers_with_child KLoop lo _ K); [|exact Hk]. intros y k' Hk'. apply has_for_post. apply H. exact Hk'.
Qed.
Lemma grows_for_in lo op : grows op -> grows (visit_for_in fx lo op).
Proof.
  intros H x k Hk. unfold visit_for_in. apply grows_with_child; [|exact Hk].
  intros y k' Hk'. apply has_forin_post. apply H. exact Hk'.
Qed.
Lemma covers_for_in lo op K : covers op K -> covers (visit_for_in fx lo op) K.
Proof.
  intros H x k Hk. unfold visit_for_in.
  apply (covers_with_child KLoop lo _ K); [|exact Hk]. intros y k' Hk'. apply has_forin_post. apply H. exact Hk'.
Qed.

(* switch *)
Lemma has_switch_tail e p prev x k : has x k -> has (switch_tail e p prev x) k.
Proof. intros H. unfold switch_tail. destruct (is_forced e); [|apply has_set_end]; apply has_mark; exact H. Qed.
Lemma grows_switch p cs opc : grows opc -> grows (visit_switch p cs opc).
Proof. intros H x k Hk. unfold visit_switch. apply has_switch_tail. apply H. exact Hk. Qed.
Lemma covers_switch p cs opc K : covers opc K -> covers (visit_switch p cs opc) K.
Proof. intros H x k Hk. unfold visit_switch. apply has_switch_tail. apply H. exact Hk. Qed.
Lemma grows_case cp op : grows op -> grows (visit_case fx cp op).
Proof.
  intros H y k Hk. unfold visit_case. apply has_set_end, has_mark, has_child_exit. apply H. apply has_child_enter. exact Hk.
Qed.
Lemma covers_case cp op K : covers op K -> covers (visit_case fx cp op) (cp :: K).
Proof.
  intros H y k [<- | Hk]; unfold visit_case; apply has_set_end; [apply has_mark_same|].
  apply has_mark, has_child_exit. apply H. exact Hk.
Qed.

(* try *)
Lemma has_tcm e x k : has x k -> has (try_catch_merge e x) k.
Proof.
  intros H. unfold try_catch_merge. destruct (only_throw e); [exact H|].
  destruct e as [a|]; destruct (s_end (sc x)) as [b|]; try exact H.
  - destruct (is_forced a && is_forced b); [destruct (merge_forced a b); exact H|].
    destruct (is_forced b); [exact H|]. destruct a; try exact H; destruct b; exact H.
  - destruct (is_forced b); [exact H|]. destruct b; exact H.
Qed.
Lemma has_tfm e x k : has x k -> has (try_finally_merge e x) k.
Proof.
  intros H. unfold try_finally_merge. destruct e as [a|]; [|exact H].
  destruct (s_end (sc x)) as [[r t i| |]|]; try exact H. destruct (is_forced a); exact H.
Qed.

Lemma grows_handler cp hbp prev op : grows op -> grows (try_handler fx cp hbp prev op).
Proof.
  intros H x k Hk. unfold try_handler. cbv zeta.
  assert (G : forall y, has y k -> has (with_child fx KCatch cp (fun a => block_end hbp (op a)) y) k).
  { intros y Hy. apply grows_with_child; [apply grows_block_end; exact H | exact Hy]. }
  destruct (s_mt (sc x)); [apply has_tcm | apply has_set_end]; apply G; exact Hk.
Qed.
Lemma covers_handler cp hbp prev op K : covers op K -> covers (try_handler fx cp hbp prev op) (cp :: hbp :: K).
Proof.
  intros H x k Hk. unfold try_handler. cbv zeta.
  assert (G : forall y, has (with_child fx KCatch cp (fun a => block_end hbp (op a)) y) k).
  { intros y. destruct Hk as [<- | Hk].
    - unfold with_child. apply has_child_exit_catch. apply end_block_end_some.
    - apply (covers_with_child KCatch cp _ (hbp :: K)); [apply covers_block_end; exact H | exact Hk]. }
  destruct (s_mt (sc x)); [apply has_tcm | apply has_set_end]; apply G.
Qed.
Lemma grows_finalizer fp prev op : grows op -> grows (try_finalizer fx fp prev op).
Proof.
  intros H x k Hk. unfold try_finalizer. apply has_tfm. apply grows_with_child; [apply grows_block_end; exact H | exact Hk].
Qed.
Lemma covers_finalizer fp prev op K : covers op K -> covers (try_finalizer fx fp prev op) (fp :: K).
Proof.
  intros H x k Hk. unfold try_finalizer. apply has_tfm.
  apply (covers_with_child KFinally fp _ (fp :: K)); [apply covers_block_end; exact H | exact Hk].
Qed.
Lemma has_try_finish p old x k : has x k -> has (try_finish p old x) k.
Proof. intros H. unfold try_finish. apply has_set_mt. destruct (s_end (sc x)); [apply has_mark|]; exact H. Qed.

Definition try_hq (h : option (N * N)) (K : list N) : list N := match h with Some (cp, hbp) => cp :: hbp :: K | None => [] end.
Definition try_fq (f : option N) (K : list N) : list N := match f with Some fp => fp :: K | None => [] end.

Lemma grows_try p bp blk h hb f fb : grows blk -> grows hb -> grows fb -> grows (visit_try fx p bp blk h hb f fb).
Proof.
  intros Gb Gh Gf x k Hk. unfold visit_try. cbv zeta. apply has_try_finish.
  assert (H1 : has (block_end bp (blk (set_mt x false))) k) by (apply has_block_end; apply Gb; exact Hk).
  assert (H2 : has (match h with Some (cp, hbp) => try_handler fx cp hbp (s_end (sc x)) hb (block_end bp (blk (set_mt x false)))
                            | None => block_end bp (blk (set_mt x false)) end) k).
  { destruct h as [[cp hbp]|]; [apply grows_handler; assumption | exact H1]. }
  destruct f as [fp|]; [apply grows_finalizer; assumption | exact H2].
Qed.
Lemma covers_try p bp blk h hb f fb Kb Kh Kf :
  covers blk Kb -> grows hb -> covers hb Kh -> grows fb -> covers fb Kf ->
  covers (visit_try fx p bp blk h hb f fb) (bp :: Kb ++ try_hq h Kh ++ try_fq f Kf).
Proof.
  intros Cb Gh Ch Gf Cf x k Hk. unfold visit_try. cbv zeta. apply has_try_finish.
  set (x1 := block_end bp (blk (set_mt x false))).
  set (x2 := match h with Some (cp, hbp) => try_handler fx cp hbp (s_end (sc x)) hb x1 | None => x1 end).
  assert (G2 : has x1 k -> has x2 k).
  { intros H. unfold x2. destruct h as [[cp hbp]|]; [apply grows_handler; assumption | exact H]. }
  assert (G3 : has x2 k -> has (match f with Some fp => try_finalizer fx fp (s_end (sc x)) fb x2 | None => x2 end) k).
  { intros H. destruct f as [fp|]; [apply grows_finalizer; assumption | exact H]. }
  assert (Hk' : In k (bp :: Kb) \/ In k (try_hq h Kh) \/ In k (try_fq f Kf)).
  { destruct Hk as [<- | Hk]; [left; left; reflexivity|]. apply in_app_or in Hk. destruct Hk as [Hk | Hk]; [left; right; exact Hk|].
    apply in_app_or in Hk. destruct Hk as [Hk | Hk]; [right; left | right; right]; exact Hk. }
  destruct Hk' as [Hb | [Hh | Hf]].
  - apply G3, G2. unfold x1. apply (covers_block_end bp blk Kb Cb). exact Hb.
  - apply G3. unfold x2. destruct h as [[cp hbp]|]; [|destruct Hh]. apply (covers_handler cp hbp _ hb Kh Ch). exact Hh.
  - destruct f as [fp|]; [|destruct Hf]. apply (covers_finalizer fp _ fb Kf Cf). exact Hf.
Qed.

(* ------------------------------------------------------------------ *)
Definition covS (s : stmt) : Prop := grows (an fx s) /\ covers (an fx s) (qkeys s).
Definition covL (l : stmts) : Prop := grows (an_list fx l) /\ covers (an_list fx l) (qkeys_l l).
Definition covC (cs : cases) : Prop := grows (an_cases fx cs) /\ covers (an_cases fx cs) (qkeys_c cs).

(* `an s x0 = V (set_unreach (pos s) .. x0)` *)
Lemma cov_wrap s (V : st -> st) K :
  (forall x0, an fx s x0 = V (set_unreach (pos s) (stmt_unreachable s x0) x0)) ->
  grows V -> covers V K -> grows (an fx s) /\ covers (an fx s) (pos s :: K).
Proof.
  intros E G C. split.
  - intros x k Hk. rewrite E. apply G. apply has_set_unreach. exact Hk.
  - intros x k [<- | Hk]; rewrite E; [apply G; apply has_set_unreach_same | apply C; exact Hk].
Qed.

Lemma covers_nil (V : st -> st) : covers V [].
Proof. intros x k []. Qed.

Theorem an_covers : (forall s, covS s) /\ (forall l, covL l) /\ (forall cs, covC cs).
Proof.
  apply stmt_mutind.
  - intros p e. apply (cov_wrap (SExpr p e) (visit_e e) []); [reflexivity | intros x k; apply has_visit_e | apply covers_nil].
  - intros p. apply (cov_wrap (SEmpty p) (fun x => x) []); [reflexivity | intros x k H; exact H | apply covers_nil].
  - intros p v i. apply (cov_wrap (SVar p v i) (fun x => match i with Some e => visit_e e x | None => x end) []);
      [reflexivity | intros x k H; destruct i; [apply has_visit_e|]; exact H | apply covers_nil].
  - intros p n pb b [Gb Cb].
    apply (cov_wrap (SFnDecl p n pb b) (visit_fn_like fx p pb (an_list fx b)) (pb :: qkeys_l b));
      [reflexivity | apply grows_fn_like; exact Gb | apply covers_fn_like; exact Cb].
  - intros p pb b [Gb Cb].
    apply (cov_wrap (SArrowStmt p pb b) (visit_fn_expr fx p pb (an_list fx b)) (pb :: qkeys_l b));
      [reflexivity | apply grows_fn_expr; exact Gb | apply covers_fn_expr; exact Cb].
  - intros p gp pb b [Gb Cb].
    apply (cov_wrap (SGetterStmt p gp pb b) (visit_fn_expr fx gp pb (an_list fx b)) (pb :: qkeys_l b));
      [reflexivity | apply grows_fn_expr; exact Gb | apply covers_fn_expr; exact Cb].
  - intros p a. apply (cov_wrap (SRet p a) (visit_return p a) []); [reflexivity | apply grows_return | apply covers_nil].
  - intros p e. apply (cov_wrap (SThrow p e) (visit_throw fx p e) []); [reflexivity | apply grows_throw | apply covers_nil].
  - intros p l. apply (cov_wrap (SBrk p l) (visit_break fx l) []); [reflexivity | intros x k; apply has_visit_break | apply covers_nil].
  - intros p l. apply (cov_wrap (SCont p l) (fun x => set_fc x true) []); [reflexivity | intros x k H; exact H | apply covers_nil].
  - intros p b [Gb Cb].
    apply (cov_wrap (SBlock p b) (fun a => block_end p (an_list fx b a)) (qkeys_l b)); [reflexivity | apply grows_block_end; exact Gb|].
    intros x k Hk. apply (covers_block_end p _ _ Cb). right. exact Hk.
  - intros p c a [Ga Ca].
    apply (cov_wrap (SIf p c a) (visit_if fx p c (pos a) (fun y => orb_mark a (an fx a y))) (qkeys a));
      [reflexivity | apply grows_if; apply grows_orb; exact Ga | apply covers_if; apply covers_orb; exact Ca].
  - intros p c a [Ga Ca] b [Gb Cb].
    apply (cov_wrap (SIfElse p c a b)
             (visit_if_else fx p c (pos a) (fun y => orb_mark a (an fx a y)) (pos b) (fun y => orb_mark b (an fx b y))) (qkeys a ++ qkeys b));
      [reflexivity | apply grows_if_else; apply grows_orb; assumption
      | apply covers_if_else; [apply covers_orb; exact Ca | apply grows_orb; exact Gb | apply covers_orb; exact Cb]].
  - intros p c b [Gb Cb].
    apply (cov_wrap (SWhile p c b) (visit_while fx c (pos b) (an fx b)) (qkeys b));
      [reflexivity | apply grows_while; exact Gb | apply covers_while; exact Cb].
  - intros p b [Gb Cb] c.
    apply (cov_wrap (SDoWhile p b c) (visit_do_while fx p c (pos b) (an fx b)) (qkeys b));
      [reflexivity | apply grows_do_while; exact Gb | apply covers_do_while; exact Cb].
  - intros p i c u b [Gb Cb].
    apply (cov_wrap (SFor p i c u b) (fun x => visit_for fx p c (pos b) (an fx b) (visit_oe u (visit_oe i x))) (qkeys b));
      [reflexivity | intros x k Hk; apply grows_for; [exact Gb | apply has_visit_oe, has_visit_oe; exact Hk] | intros x k Hk; apply (covers_for p c (pos b) _ _ Cb); exact Hk].
  - intros p b [Gb Cb].
    apply (cov_wrap (SForIn p b) (visit_for_in fx (pos b) (an fx b)) (qkeys b));
      [reflexivity | apply grows_for_in; exact Gb | apply covers_for_in; exact Cb].
  - intros p b [Gb Cb].
    apply (cov_wrap (SForOf p b) (visit_for_in fx (pos b) (an fx b)) (qkeys b));
      [reflexivity | apply grows_for_in; exact Gb | apply covers_for_in; exact Cb].
  - intros p g fp pb hb [Gh Ch] b [Gb Cb].
    apply (cov_wrap (SForHead p g fp pb hb b)
             (fun x => visit_for_in fx (pos b) (an fx b) (visit_for_head fx fp pb (an_list fx hb) x)) ((pb :: qkeys_l hb) ++ qkeys b));
      [reflexivity | |].
    + intros x k Hk. apply grows_for_in; [exact Gb|]. apply grows_for_head; [exact Gh | exact Hk].
    + intros x k Hk. apply in_app_or in Hk. destruct Hk as [Hk | Hk].
      * apply grows_for_in; [exact Gb|]. apply (covers_for_head fp pb _ _ Ch). exact Hk.
      * apply (covers_for_in (pos b) _ _ Cb). exact Hk.
  - intros p cs [Gc Cc].
    apply (cov_wrap (SSwitch p cs) (visit_switch p cs (an_cases fx cs)) (qkeys_c cs));
      [reflexivity | apply grows_switch; exact Gc | apply covers_switch; exact Cc].
  - intros p l b [Gb Cb].
    apply (cov_wrap (SLabel p l b) (with_child fx (KLabel l) p (fun a => orb_mark b (an fx b a))) (qkeys b));
      [reflexivity | apply grows_with_child; apply grows_orb; exact Gb | apply covers_with_child; apply covers_orb; exact Cb].
  - intros p bp blk [Gb Cb] h hb [Gh Ch] f fb [Gf Cf].
    assert (Hq : qkeys (STry p bp blk h hb f fb) = p :: bp :: qkeys_l blk ++ try_hq h (qkeys_l hb) ++ try_fq f (qkeys_l fb)).
    { cbn [qkeys]. destruct h as [[cp hbp]|], f; reflexivity. }
    unfold covS. rewrite Hq.
    apply (cov_wrap (STry p bp blk h hb f fb) (visit_try fx p bp (an_list fx blk) h (an_list fx hb) f (an_list fx fb)));
      [reflexivity | apply grows_try; assumption | apply covers_try; assumption].
  - split; [intros x k H; exact H | intros x k []].
  - intros s [Gs Cs] r [Gr Cr]. split.
    + intros x k Hk. cbn [an_list]. apply Gr. apply has_orb_mark. apply Gs. exact Hk.
    + intros x k Hk. cbn [an_list qkeys_l] in *. apply in_app_or in Hk. destruct Hk as [Hk | Hk].
      * apply Gr. apply has_orb_mark. apply Cs. exact Hk.
      * apply Cr. exact Hk.
  - split; [intros x k H; exact H | intros x k []].
  - intros cp d ft b [Gb Cb] r [Gr Cr]. split.
    + intros x k Hk. cbn [an_cases]. apply Gr. apply grows_case; [exact Gb|]. apply has_visit_test. exact Hk.
    + intros x k Hk. cbn [an_cases qkeys_c] in *.
      assert (Hk' : In k (cp :: qkeys_l b) \/ In k (qkeys_c r)).
      { destruct Hk as [<- | Hk]; [left; left; reflexivity|]. apply in_app_or in Hk. destruct Hk as [Hk | Hk]; [left; right | right]; exact Hk. }
      destruct Hk' as [Hk' | Hk'].
      * apply Gr. apply (covers_case cp _ _ Cb). exact Hk'.
      * apply Cr. exact Hk'.
Qed.

(* every key a rule can look up has an entry in the result *)
Theorem every_queried_key_present_fx (p : program) (k : N) :
  In k (p_pb p :: qkeys_l (p_body p)) -> iget (analyze fx p) k <> None.
Proof.
  intros Hk. unfold analyze, analyze_st. destruct an_covers as [_ [HL _]]. destruct (HL (p_body p)) as [_ C].
  apply (covers_block_end (p_pb p) _ _ C init_st). exact Hk.
Qed.

End Cov.

(* ------------------------------------------------------------------ *)
(* what the rules look up, in terms of the syntax *)
Lemma pos_in_qkeys s : In (pos s) (qkeys s).
Proof. destruct s; cbn [pos qkeys]; left; reflexivity. Qed.

Scheme sub_stmt_cov_ind := Minimality for sub_stmt Sort Prop
  with sub_stmts_cov_ind := Minimality for sub_stmts Sort Prop
  with sub_cases_cov_ind := Minimality for sub_cases Sort Prop.
Combined Scheme sub_cov_mutind from sub_stmt_cov_ind, sub_stmts_cov_ind, sub_cases_cov_ind.

(* every statement of the program, at any depth (bodies of nested functions / getters / loop heads included) *)
Lemma sub_stmt_qkeys :
  (forall t s, sub_stmt t s -> In (pos t) (qkeys s)) /\
  (forall t l, sub_stmts t l -> In (pos t) (qkeys_l l)) /\
  (forall t cs, sub_cases t cs -> In (pos t) (qkeys_c cs)).
Proof.
  apply sub_cov_mutind.
  - intros s. apply pos_in_qkeys.
  - intros t p n pb b _ IH. right. right. exact IH.
  - intros t p pb b _ IH. right. right. exact IH.
  - intros t p gp pb b _ IH. right. right. exact IH.
  - intros t p g fp pb hb b _ IH. right. apply in_or_app. left. right. exact IH.
  - intros t p b _ IH. right. exact IH.
  - intros t p c a _ IH. right. exact IH.
  - intros t p c a b _ IH. right. apply in_or_app. left. exact IH.
  - intros t p c a b _ IH. right. apply in_or_app. right. exact IH.
  - intros t s pre b post Hs _ IH.
    destruct s; cbn [loop_shape] in Hs; try discriminate; try (injection Hs as _ <- _; cbn [qkeys]; right; try exact IH).
    apply in_or_app. right. exact IH.
  - intros t p cs _ IH. right. exact IH.
  - intros t p l b _ IH. right. exact IH.
  - intros t p bp blk h hb f fb _ IH. right. right. apply in_or_app. left. exact IH.
  - intros t p bp blk hp hb f fb _ IH. right. right. apply in_or_app. right. apply in_or_app. left.
    destruct hp as [cp hbp]. right. right. exact IH.
  - intros t p bp blk h hb fp fb _ IH. right. right. apply in_or_app. right. apply in_or_app. right. right. exact IH.
  - intros t s r _ IH. cbn [qkeys_l]. apply in_or_app. left. exact IH.
  - intros t s r _ IH. cbn [qkeys_l]. apply in_or_app. right. exact IH.
  - intros t cp d ft b r _ IH. cbn [qkeys_c]. right. apply in_or_app. left. exact IH.
  - intros t cp d ft b r _ IH. cbn [qkeys_c]. right. apply in_or_app. right. exact IH.
Qed.

(* the body block of every nested getter *)
Lemma getters_qkeys :
  (forall s g, In g (getters s) -> In (snd (fst g)) (qkeys s)) /\
  (forall l g, In g (getters_l l) -> In (snd (fst g)) (qkeys_l l)) /\
  (forall cs g, In g (getters_c cs) -> In (snd (fst g)) (qkeys_c cs)).
Proof.
  apply stmt_mutind; try (intros; cbn [getters] in *; contradiction).
  - intros p n pb b IHb g H. right. right. apply IHb. exact H.
  - intros p pb b IHb g H. right. right. apply IHb. exact H.
  - intros p gp pb b IHb g [<- | H]; [right; left; reflexivity | right; right; apply IHb; exact H].
  - intros p b IHb g H. right. apply IHb. exact H.
  - intros p c a IHa g H. right. apply IHa. exact H.
  - intros p c a IHa b IHb g H. right. cbn [getters] in H. apply in_app_or in H. apply in_or_app.
    destruct H as [H | H]; [left; apply IHa | right; apply IHb]; exact H.
  - intros p c b IHb g H. right. apply IHb. exact H.
  - intros p b IHb c g H. right. apply IHb. exact H.
  - intros p i c u b IHb g H. right. apply IHb. exact H.
  - intros p b IHb g H. right. apply IHb. exact H.
  - intros p b IHb g H. right. apply IHb. exact H.
  - intros p gt fp pb hb IHh b IHb g H. right. cbn [getters] in H. apply in_app_or in H. apply in_or_app. destruct H as [H | H].
    + left. destruct gt; [|destruct H]. destruct H as [<- | []]. left. reflexivity.
    + apply in_app_or in H. destruct H as [H | H]; [left; right; apply IHh | right; apply IHb]; exact H.
  - intros p cs IH g H. right. apply IH. exact H.
  - intros p l b IHb g H. right. apply IHb. exact H.
  - intros p bp blk IHb h hb IHh f fb IHf g H. right. right. cbn [getters] in H.
    apply in_app_or in H. apply in_or_app. destruct H as [H | H]; [left; apply IHb; exact H | right].
    apply in_app_or in H. apply in_or_app. destruct H as [H | H].
    + left. destruct h as [[cp hbp]|]; [right; right; apply IHh; exact H | destruct H].
    + right. destruct f as [fp|]; [right; apply IHf; exact H | destruct H].
  - intros s IHs r IHr g H. cbn [getters_l qkeys_l] in *. apply in_app_or in H. apply in_or_app.
    destruct H as [H | H]; [left; apply IHs | right; apply IHr]; exact H.
  - intros cp d ft b IHb r IHr g H. cbn [getters_c qkeys_c] in *. right. apply in_app_or in H. apply in_or_app.
    destruct H as [H | H]; [left; apply IHb | right; apply IHr]; exact H.
Qed.

Lemma all_getters_qkeys p g : In g (all_getters p) -> In (snd (fst g)) (p_pb p :: qkeys_l (p_body p)).
Proof.
  unfold all_getters. intros H. apply in_app_or in H. destruct H as [H | H].
  - destruct (p_getter p); [|destruct H]. destruct H as [<- | []]. left. reflexivity.
  - right. destruct getters_qkeys as [_ [HL _]]. apply HL. exact H.
Qed.

(* ------------------------------------------------------------------ *)
(* the statements for the current code *)
Theorem every_queried_key_present (p : program) (k : N) :
  In k (p_pb p :: qkeys_l (p_body p)) -> iget (analyze current p) k <> None.
Proof. apply every_queried_key_present_fx. reflexivity. Qed.

(* no-unreachable / no-fallthrough: `.meta(stmt.start())` of every statement, at any depth *)
Theorem every_statement_has_entry (p : program) (t : stmt) :
  sub_stmts t (p_body p) -> iget (analyze current p) (pos t) <> None.
Proof.
  intros H. apply every_queried_key_present. right. destruct sub_stmt_qkeys as [_ [HL _]]. apply HL. exact H.
Qed.

(* getter-return: `.meta(getter_body.start).unwrap()` of the program's getter and of every nested one *)
Theorem every_getter_body_has_entry (p : program) (g : N * N * stmts) :
  In g (all_getters p) -> iget (analyze current p) (snd (fst g)) <> None.
Proof. intros H. apply every_queried_key_present. apply all_getters_qkeys. exact H. Qed.

Theorem getter_return_never_panics (p : program) : getter_return_panics current p = false.
Proof.
  unfold getter_return_panics, getter_return_panics_on.
  destruct (existsb _ (all_getters p)) eqn:Ex; [|reflexivity].
  apply existsb_exists in Ex. destruct Ex as [g [Hin Hg]].
  pose proof (every_getter_body_has_entry p g Hin) as Hne.
  destruct (iget (analyze current p) (snd (fst g))); [discriminate | exfalso; apply Hne; reflexivity].
Qed.

(* all three kinds of `unwrap` together: the two in the analyzer (`panic` flag) and the one in getter-return *)
Theorem analyzer_never_panics (p : program) :
  panic (analyze_st current p) = false /\ getter_return_panics current p = false.
Proof. split; [apply (analyzer_total current p) | apply getter_return_never_panics]. Qed.

(* ------------------------------------------------------------------ *)
(* before the fix commit E the statement was false: the head of a for-in/of was not visited *)
(* function f() { for (const [k = {get a() { }}] of o) ; } *)
Definition wE_getter : program :=
  {| p_getter := false; p_start := 0; p_pb := 13;
     p_body := SCons (SForHead 15 true 32 40 SNil (SEmpty 52)) SNil |}.
Definition before_E := {| fixA := true; fixB := true; fixC := false; fixD := true; fixE := false; fixF := true |}.

Theorem coverage_refuted_before_fix_E :
  wf wE_getter /\ In 40 (qkeys_l (p_body wE_getter)) /\ iget (analyze before_E wE_getter) 40 = None /\
  getter_return_panics before_E wE_getter = true /\ getter_return_panics current wE_getter = false.
Proof. vm_compute. repeat split; try reflexivity. right. left. reflexivity. Qed.

Print Assumptions every_queried_key_present.
Print Assumptions every_statement_has_entry.
Print Assumptions every_getter_body_has_entry.
Print Assumptions analyzer_never_panics.
Print Assumptions coverage_refuted_before_fix_E.
