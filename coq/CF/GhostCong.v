(* C10/C11 - the ghost analyzer of the CURRENT code against the ghost analyzer with all repairs on.

   The only difference between `current` and `repaired` is repair C: on leaving a Function scope the current code
   records the function's end under the function's start key.  The ghost analyzer never reads the map, so this shows
   only in the end reason that `fn_likeG` returns for a statement that STARTS with the function (`function g(){}`,
   `() => {};`), and that reason is consumed only
     - by `if .. else ..` about its two branches, by `while` / `do-while` / `for(;;)` about the loop body,
     - by no-fallthrough about the top-level statements of a switch case (`tops_stop`).
   `fnsafe` (Syntax.v) excludes exactly these positions.  On such programs the two ghost analyses produce the same
   scope states, the same log and the same reasons (`anG_cong`); no reasoning about the map is involved. *)
From V Require Import CF.AnalyzerG CF.SemDecideProofs CF.SoundnessInv.

(* equal up to the map *)
Definition R (x x' : st) : Prop := sc x = sc x' /\ panic x = panic x'.

Lemma R_refl x : R x x.
Proof. split; reflexivity. Qed.

Ltac Rd := intros [s i pn] [s' i' pn'] [Hs Hp]; cbn [sc panic] in Hs, Hp; subst s' pn'.

Lemma R_end x x' : R x x' -> s_end (sc x) = s_end (sc x').
Proof. intros [H _]. rewrite H. reflexivity. Qed.
Lemma R_mt x x' : R x x' -> s_mt (sc x) = s_mt (sc x').
Proof. intros [H _]. rewrite H. reflexivity. Qed.
Lemma R_dead x x' : R x x' -> dead_now x = dead_now x'.
Proof. intros H. unfold dead_now. rewrite (R_end _ _ H). reflexivity. Qed.
Lemma R_live x x' : R x x' -> live_now x = live_now x'.
Proof. intros H. unfold live_now. rewrite (R_end _ _ H). reflexivity. Qed.
Lemma R_unreach s x x' : R x x' -> stmt_unreachable s x = stmt_unreachable s x'.
Proof. intros H. destruct s; cbn [stmt_unreachable]; rewrite ?(R_dead _ _ H); try reflexivity. destruct H as [H _]. rewrite H. reflexivity. Qed.

(* the primitive operations *)
Lemma R_mark k e : forall x x', R x x' -> R (mark_as_end k e x) (mark_as_end k e x').
Proof. Rd. unfold mark_as_end, R. cbn [sc s_end]. destruct (s_end s) as [[r t f| |]|]; split; reflexivity. Qed.
Lemma R_set_unreach k b b' : b = b' -> forall x x', R x x' -> R (set_unreach k b x) (set_unreach k b' x').
Proof. intros <-. Rd. split; reflexivity. Qed.
Lemma R_visit_lit : forall x x', R x x' -> R (visit_lit x) (visit_lit x').
Proof. Rd. unfold visit_lit, live_now, R. cbn [sc]. destruct (live (s_end s)); split; reflexivity. Qed.
Lemma R_visit_ident id : forall x x', R x x' -> R (visit_ident id x) (visit_ident id x').
Proof. Rd. unfold visit_ident, live_now, R. cbn [sc]. destruct (live (s_end s)); split; reflexivity. Qed.
Lemma R_visit_e e : forall x x', R x x' -> R (visit_e e x) (visit_e e x').
Proof. intros x x' H. destruct e; cbn [visit_e]; try exact H; auto using R_visit_lit, R_visit_ident. Qed.
Lemma R_visit_oe o : forall x x', R x x' -> R (visit_oe o x) (visit_oe o x').
Proof. intros x x' H. destruct o; cbn [visit_oe]; [apply R_visit_e|]; exact H. Qed.
Lemma R_visit_cond c : forall x x', R x x' -> R (visit_cond c x) (visit_cond c x').
Proof. intros x x' H. destruct c; cbn [visit_cond]; auto using R_visit_lit, R_visit_e. Qed.
Lemma R_visit_test t : forall x x', R x x' -> R (visit_test t x) (visit_test t x').
Proof. intros x x' H. destruct t; cbn [visit_test]; auto using R_visit_e. Qed.
Lemma R_visit_break fx l : forall x x', R x x' -> R (visit_break fx l x) (visit_break fx l x').
Proof. Rd. unfold visit_break, R. cbn [sc]. destruct (fixB fx); [destruct l; [destruct (s_fb s)|]|]; split; reflexivity. Qed.
Lemma R_set_end e e' : e = e' -> forall x x', R x x' -> R (set_end x e) (set_end x' e').
Proof. intros <-. Rd. split; reflexivity. Qed.
Lemma R_set_mt b b' : b = b' -> forall x x', R x x' -> R (set_mt x b) (set_mt x' b').
Proof. intros <-. Rd. split; reflexivity. Qed.
Lemma R_set_fc b : forall x x', R x x' -> R (set_fc x b) (set_fc x' b).
Proof. Rd. split; reflexivity. Qed.
Lemma R_set_panic : forall x x', R x x' -> R (set_panic x) (set_panic x').
Proof. Rd. split; reflexivity. Qed.
Lemma R_child_enter k : forall x x', R x x' -> R (child_enter k x) (child_enter k x').
Proof. Rd. split; reflexivity. Qed.
Lemma R_block_end p : forall x x', R x x' -> R (block_end p x) (block_end p x').
Proof. intros x x' H. unfold block_end. rewrite <- (R_end _ _ H). destruct (s_end (sc x)); apply R_mark; exact H. Qed.
Lemma R_orb_mark s : forall x x', R x x' -> R (orb_mark s x) (orb_mark s x').
Proof. intros x x' H. unfold orb_mark. destruct (is_brk_or_cont s); [apply R_mark|]; exact H. Qed.

(* leaving a scope: the same kind in both, `current` on the left, `repaired` on the right *)
Lemma R_child_exit k start : forall x x' c c', R x x' -> R c c' ->
  R (child_exit current k start x c) (child_exit repaired k start x' c').
Proof.
  intros [s i p] [s' i' p'] [sc0 ic pc] [sc0' ic' pc'] [Hs Hp] [Hcs Hcp]. cbn [sc panic] in Hs, Hp, Hcs, Hcp. subst s' p' sc0' pc'.
  unfold child_exit, R. cbn [sc s_end fixB fixC current repaired andb].
  destruct (s_end sc0) as [e|]; [|destruct k; split; reflexivity].
  destruct k.
  - destruct e; unfold mark_as_end; cbn [sc s_end set_end with_sc set_info]; destruct (s_end s) as [[r t f| |]|]; split; reflexivity.
  - split; reflexivity.
  - split; reflexivity.
  - destruct e; unfold mark_as_end; cbn [sc s_end set_end with_sc set_info]; destruct (s_end s) as [[r t f| |]|]; split; reflexivity.
  - cbn [sc s_fb]. destruct (fb_unlabelled (s_fb sc0)); cbn [s_fb].
    + split; reflexivity.
    + destruct (s_fb s) as [[id|]|]; [destruct (N.eqb id l) | | destruct (s_fb sc0) as [[id|]|]; [destruct (N.eqb id l)| |]]; split; reflexivity.
  - unfold mark_as_end; cbn [sc s_end set_end with_sc set_info]. destruct (s_end s) as [[r t f| |]|]; split; reflexivity.
  - unfold mark_as_end; cbn [sc s_end set_end with_sc set_info]. destruct (s_end s) as [[r t f| |]|]; split; reflexivity.
Qed.

Ltac Rfin :=
  repeat first [ apply R_set_end; [reflexivity|] | apply R_mark | apply R_set_panic | apply R_set_mt; [reflexivity|]
               | apply R_visit_cond | apply R_visit_lit | (split; reflexivity) ].

Lemma R_while_post r c lo : forall a a', R a a' -> R (while_post_r r c lo a) (while_post_r r c lo a').
Proof.
  Rd. unfold while_post_r. cbn [sc s_fb].
  destruct (known_true c && oend_forced r && negb (fb_unlabelled (s_fb s))); [destruct r; Rfin|].
  destruct (known_true c && negb (fb_unlabelled (s_fb s))); Rfin.
Qed.
Lemma R_dowhile_post fx r c lo : forall a a', R a a' -> R (dowhile_post_r fx r c lo a) (dowhile_post_r fx r c lo a').
Proof.
  Rd. unfold dowhile_post_r. cbn [sc s_fb s_fc].
  destruct (oend_forced r && negb (fb_unlabelled (s_fb s)) && negb (fixA fx && s_fc s)); [destruct r; Rfin|].
  destruct (known_true c && fb_none (s_fb s)); Rfin.
Qed.
Lemma R_for_post r p c lo : forall a a', R a a' -> R (for_post_r r p c lo a) (for_post_r r p c lo a').
Proof.
  Rd. unfold for_post_r, for_forced. cbn [sc s_fb].
  destruct (negb (fb_unlabelled (s_fb s)) && match c with Some c0 => known_true c0 | None => true end); cbn [negb orb].
  - destruct (fb_unlabelled (s_fb s)); Rfin.
  - Rfin.
Qed.
Lemma R_forin_post lo : forall a a', R a a' -> R (forin_post lo a) (forin_post lo a').
Proof. intros a a' H. unfold forin_post. apply R_set_end; [reflexivity|]. apply R_mark. exact H. Qed.
Lemma R_dowhile_test fx prev c : forall x x', R x x' -> R (dowhile_test fx prev c x) (dowhile_test fx prev c x').
Proof.
  intros x x' H. unfold dowhile_test. destruct (fixF fx); [|apply R_visit_cond; exact H].
  apply R_set_end; [apply (R_end _ _ H) | apply R_visit_cond, R_set_end; [reflexivity | exact H]].
Qed.
Lemma R_dowhile_tail fx prev r p c : forall x x', R x x' -> R (dowhile_tail fx prev r p c x) (dowhile_tail fx prev r p c x').
Proof. intros x x' H. unfold dowhile_tail. apply R_dowhile_test. destruct r as [e|]; [destruct (is_forced e); [apply R_mark|]|]; exact H. Qed.
Lemma R_if_else_end p r1 r2 : forall x x', R x x' -> R (if_else_end p r1 r2 x) (if_else_end p r1 r2 x').
Proof. intros x x' H. unfold if_else_end. destruct (if_else_mark r1 r2); [apply R_mark | apply R_set_panic]; exact H. Qed.
Lemma R_switch_tail e p prev : forall x x', R x x' -> R (switch_tail e p prev x) (switch_tail e p prev x').
Proof. intros x x' H. unfold switch_tail. destruct (is_forced e); [|apply R_set_end; [reflexivity|]]; apply R_mark; exact H. Qed.
Lemma R_tcm e : forall x x', R x x' -> R (try_catch_merge e x) (try_catch_merge e x').
Proof.
  Rd. unfold try_catch_merge. cbn [sc]. destruct (only_throw e); [Rfin|].
  destruct e as [a|]; destruct (s_end s) as [b|]; try (split; reflexivity).
  - destruct (is_forced a && is_forced b); [destruct (merge_forced a b); Rfin|].
    destruct (is_forced b); [Rfin|]. destruct a; try (split; reflexivity); destruct b; Rfin.
  - destruct (is_forced b); [Rfin|]. destruct b; Rfin.
Qed.
Lemma R_tfm e : forall x x', R x x' -> R (try_finally_merge e x) (try_finally_merge e x').
Proof.
  Rd. unfold try_finally_merge. cbn [sc]. destruct e as [a|]; [|split; reflexivity].
  destruct (s_end s) as [[r t f| |]|]; try (split; reflexivity); try (destruct (is_forced a)); Rfin.
Qed.
Lemma R_try_finish p old : forall x x', R x x' -> R (try_finish p old x) (try_finish p old x').
Proof.
  intros x x' H. unfold try_finish. rewrite <- (R_end _ _ H).
  destruct (s_end (sc x)) as [e|].
  - apply R_set_mt; [rewrite (R_mt _ _ (R_mark p e _ _ H)); reflexivity | apply R_mark; exact H].
  - apply R_set_mt; [rewrite (R_mt _ _ H); reflexivity | exact H].
Qed.

(* ------------------------------------------------------------------ *)
(* closures: `current` on the left, `repaired` on the right *)
Definition cg0 (g g' : st -> gres) : Prop :=
  forall x x', R x x' -> R (g_st (g x)) (g_st (g' x')) /\ g_lg (g x) = g_lg (g' x').
Definition cg1 (g g' : st -> gres) : Prop :=
  forall x x', R x x' -> R (g_st (g x)) (g_st (g' x')) /\ g_lg (g x) = g_lg (g' x') /\ g_rs (g x) = g_rs (g' x').

(* the reasons of the elements of a list agree, except for the statements that start with a function *)
Fixpoint tops_agree (l : stmts) (t t' : list (option End)) : Prop :=
  match l, t, t' with
  | SNil, [], [] => True
  | SCons s r, a :: u, a' :: u' => (is_fnstart s = false -> a = a') /\ tops_agree r u u'
  | _, _, _ => False
  end.
Definition cgl (l : stmts) (g g' : st -> gres_l) : Prop :=
  forall x x', R x x' -> R (l_st (g x)) (l_st (g' x')) /\ l_lg (g x) = l_lg (g' x') /\ tops_agree l (l_tops (g x)) (l_tops (g' x')).
Definition cgc (g g' : st -> gres_c) : Prop :=
  forall x x', R x x' -> R (c_st (g x)) (c_st (g' x')) /\ c_lg (g x) = c_lg (g' x') /\ c_rs (g x) = c_rs (g' x').

Lemma cg1_cg0 g g' : cg1 g g' -> cg0 g g'.
Proof. intros H x x' HR. destruct (H x x' HR) as [A [B _]]. split; assumption. Qed.

Lemma tops_agree_eq l : forall t t', no_fnstart_top l = true -> tops_agree l t t' -> t = t'.
Proof.
  induction l as [|s r IH] using SemDecideProofs.stmts_ind'; intros t t' Hn H.
  - destruct t, t'; try contradiction. reflexivity.
  - destruct t as [|a u], t' as [|a' u']; try contradiction. cbn [no_fnstart_top] in Hn. apply andb_true_iff in Hn. destruct Hn as [Hs Hr].
    destruct H as [Ha Hu]. rewrite (Ha ltac:(destruct (is_fnstart s); [discriminate | reflexivity])), (IH _ _ Hr Hu). reflexivity.
Qed.

Ltac gd H g g' := destruct g as [[?y ?r] ?lg]; destruct g' as [[?y ?r] ?lg]; cbn [g_st g_lg g_rs l_st l_lg l_tops c_st c_lg c_rs fst snd] in *.

(* visit_stmt *)
Lemma cg0_wrap s V V' : cg0 V V' -> cg0 (wrap s V) (wrap s V').
Proof.
  intros H x x' HR. unfold wrap. rewrite !g_st_gcons, !g_lg_gcons.
  destruct (H _ _ (R_set_unreach (pos s) _ _ (R_unreach s _ _ HR) _ _ HR)) as [A B].
  split; [exact A|]. rewrite B, (R_dead _ _ HR), (R_unreach s _ _ HR). reflexivity.
Qed.
Lemma cg1_wrap s V V' : cg1 V V' -> cg1 (wrap s V) (wrap s V').
Proof.
  intros H x x' HR. unfold wrap. rewrite !g_st_gcons, !g_lg_gcons, !g_rs_gcons.
  destruct (H _ _ (R_set_unreach (pos s) _ _ (R_unreach s _ _ HR) _ _ HR)) as [A [B C]].
  split; [exact A | split; [|exact C]]. rewrite B, (R_dead _ _ HR), (R_unreach s _ _ HR). reflexivity.
Qed.

Lemma cg1_leaf (f f' : st -> st) : (forall x x', R x x' -> R (f x) (f' x')) -> cg1 (fun x => (f x, None, [])) (fun x => (f' x, None, [])).
Proof. intros H x x' HR. cbn [g_st g_lg g_rs fst snd]. split; [apply H; exact HR | split; reflexivity]. Qed.

(* visit_stmt_or_block *)
Lemma cg0_orb s g g' : cg0 g g' -> cg0 (fun a => orbG s (g a)) (fun a => orbG s (g' a)).
Proof.
  intros H x x' HR. destruct (H x x' HR) as [A B]. unfold orbG.
  destruct (g x) as [[y r] lg]. destruct (g' x') as [[y' r'] lg']. cbn [g_st g_lg fst snd] in *.
  destruct (is_brk_or_cont s); cbn [g_st g_lg fst snd]; split; try assumption. apply R_mark. exact A.
Qed.
Lemma cg1_orb s g g' : cg1 g g' -> cg1 (fun a => orbG s (g a)) (fun a => orbG s (g' a)).
Proof.
  intros H x x' HR. destruct (H x x' HR) as [A [B C]]. unfold orbG.
  destruct (g x) as [[y r] lg]. destruct (g' x') as [[y' r'] lg']. cbn [g_st g_lg g_rs fst snd] in *.
  destruct (is_brk_or_cont s); cbn [g_st g_lg g_rs fst snd]; dsplit; try assumption; [apply R_mark; exact A | rewrite (R_end _ _ A); reflexivity].
Qed.

(* blocks *)
Lemma cg1_block_end p l g g' : cgl l g g' -> cg1 (fun a => block_endG p (g a)) (fun a => block_endG p (g' a)).
Proof.
  intros H x x' HR. destruct (H x x' HR) as [A [B _]]. unfold block_endG.
  destruct (g x) as [[y t] lg]. destruct (g' x') as [[y' t'] lg']. cbn [g_st g_lg g_rs l_st l_lg fst snd] in *.
  dsplit; [apply R_block_end; exact A | exact B | rewrite (R_end _ _ A); reflexivity].
Qed.

(* child scopes other than Function *)
Lemma cg1_with_child k start g g' : cg1 g g' -> cg1 (with_childG current k start g) (with_childG repaired k start g').
Proof.
  intros H x x' HR. unfold with_childG. destruct (H _ _ (R_child_enter k _ _ HR)) as [A [B C]].
  destruct (g (child_enter k x)) as [[c r] lg]. destruct (g' (child_enter k x')) as [[c' r'] lg']. cbn [g_st g_lg g_rs fst snd] in *.
  dsplit; [apply R_child_exit; assumption | exact B | exact C].
Qed.
Lemma cg0_with_child k start g g' : cg0 g g' -> cg0 (with_childG current k start g) (with_childG repaired k start g').
Proof.
  intros H x x' HR. unfold with_childG. destruct (H _ _ (R_child_enter k _ _ HR)) as [A B].
  destruct (g (child_enter k x)) as [[c r] lg]. destruct (g' (child_enter k x')) as [[c' r'] lg']. cbn [g_st g_lg fst snd] in *.
  split; [apply R_child_exit; assumption | exact B].
Qed.

(* function-likes: the returned reason differs (repair C), the rest does not *)
Lemma cg0_fn p pb l g g' : cgl l g g' -> cg0 (fn_likeG current p pb g) (fn_likeG repaired p pb g').
Proof.
  intros H x x' HR. unfold fn_likeG.
  destruct (cg1_block_end pb l g g' H _ _ (R_child_enter KFunction _ _ HR)) as [A [B _]].
  destruct (block_endG pb (g (child_enter KFunction x))) as [[c r] lg]. destruct (block_endG pb (g' (child_enter KFunction x'))) as [[c' r'] lg'].
  cbn [g_st g_lg fst snd] in *. split; [apply R_child_exit; assumption | exact B].
Qed.
Lemma cg0_arrow p pb l g g' : cgl l g g' ->
  cg0 (fun x => let '(y, r, lg) := fn_likeG current p pb g x in (visit_lit y, r, lg))
      (fun x => let '(y, r, lg) := fn_likeG repaired p pb g' x in (visit_lit y, r, lg)).
Proof.
  intros H x x' HR. destruct (cg0_fn p pb l g g' H x x' HR) as [A B].
  destruct (fn_likeG current p pb g x) as [[y r] lg]. destruct (fn_likeG repaired p pb g' x') as [[y' r'] lg']. cbn [g_st g_lg fst snd] in *.
  split; [apply R_visit_lit; exact A | exact B].
Qed.
Lemma cg1_fn_expr p pb l g g' : cgl l g g' -> cg1 (fn_exprG current p pb g) (fn_exprG repaired p pb g').
Proof.
  intros H x x' HR. unfold fn_exprG. destruct (cg0_fn p pb l g g' H x x' HR) as [A B].
  destruct (fn_likeG current p pb g x) as [[y r] lg]. destruct (fn_likeG repaired p pb g' x') as [[y' r'] lg']. cbn [g_st g_lg g_rs fst snd] in *.
  dsplit; [apply R_visit_lit; exact A | exact B | reflexivity].
Qed.
Lemma cg1_for_head p pb l g g' : cgl l g g' -> cg1 (for_headG current p pb g) (for_headG repaired p pb g').
Proof. intros H. unfold for_headG. cbn [fixE current repaired]. apply (cg1_fn_expr p pb l). exact H. Qed.

Lemma cg1_seq hd hd' tl tl' : cg0 hd hd' -> cg1 tl tl' -> cg1 (seqG hd tl) (seqG hd' tl').
Proof.
  intros H1 H2 x x' HR. unfold seqG. destruct (H1 x x' HR) as [A B].
  destruct (hd x) as [[y r1] lg1]. destruct (hd' x') as [[y' r1'] lg1']. cbn [g_st g_lg fst snd] in *.
  destruct (H2 y y' A) as [A2 [B2 C2]]. destruct (tl y) as [[z r] lg2]. destruct (tl' y') as [[z' r'] lg2']. cbn [g_st g_lg g_rs fst snd] in *.
  dsplit; [exact A2 | rewrite B, B2; reflexivity | exact C2].
Qed.

(* return / throw *)
Lemma cg1_return p a : cg1 (fun x => let '(y, r) := visit_returnG p a x in (y, r, [])) (fun x => let '(y, r) := visit_returnG p a x in (y, r, [])).
Proof.
  intros x x' HR. unfold visit_returnG. cbn [g_st g_lg g_rs fst snd].
  assert (HR' : R (match a with Some e => visit_e e x | None => x end) (match a with Some e => visit_e e x' | None => x' end))
    by (destruct a; [apply R_visit_e|]; exact HR).
  dsplit; [apply R_mark; exact HR' | reflexivity | rewrite (R_end _ _ HR'); reflexivity].
Qed.
Lemma cg1_throw p e : cg1 (fun x => let '(y, r) := visit_throwG current p e x in (y, r, [])) (fun x => let '(y, r) := visit_throwG repaired p e x in (y, r, [])).
Proof.
  intros x x' HR. unfold visit_throwG. cbn [fixD current repaired g_st g_lg g_rs fst snd].
  assert (HR' : R (visit_lit (visit_e e x)) (visit_lit (visit_e e x'))) by (apply R_visit_lit, R_visit_e; exact HR).
  dsplit; [apply R_mark; exact HR' | reflexivity | rewrite (R_end _ _ HR'); reflexivity].
Qed.

(* if *)
Lemma cg1_if p c p1 g1 g1' : cg0 g1 g1' -> cg1 (visit_ifG current p c p1 g1) (visit_ifG repaired p c p1 g1').
Proof.
  intros H x x' HR. unfold visit_ifG. pose proof (R_visit_cond c _ _ HR) as HRc.
  destruct (cg0_with_child KIf p1 g1 g1' H _ _ HRc) as [A B].
  destruct (with_childG current KIf p1 g1 (visit_cond c x)) as [[y r] lg]. destruct (with_childG repaired KIf p1 g1' (visit_cond c x')) as [[y' r'] lg'].
  cbn [g_st g_lg g_rs fst snd] in *.
  dsplit; [apply R_set_end; [apply (R_end _ _ HRc) | apply R_mark; exact A] | exact B | rewrite (R_end _ _ A); reflexivity].
Qed.
Lemma cg1_if_else p c p1 g1 g1' p2 g2 g2' : cg1 g1 g1' -> cg1 g2 g2' ->
  cg1 (visit_if_elseG current p c p1 g1 p2 g2) (visit_if_elseG repaired p c p1 g1' p2 g2').
Proof.
  intros H1 H2 x x' HR. unfold visit_if_elseG. pose proof (R_visit_cond c _ _ HR) as HRc.
  destruct (cg1_with_child KIf p1 g1 g1' H1 _ _ HRc) as [A [B C]].
  destruct (with_childG current KIf p1 g1 (visit_cond c x)) as [[y r] lg]. destruct (with_childG repaired KIf p1 g1' (visit_cond c x')) as [[y' r'] lg'].
  cbn [g_st g_lg g_rs fst snd] in *. subst r' lg'.
  destruct (cg1_with_child KIf p2 g2 g2' H2 _ _ A) as [A2 [B2 C2]].
  destruct (with_childG current KIf p2 g2 y) as [[z r2] lg2]. destruct (with_childG repaired KIf p2 g2' y') as [[z' r2'] lg2'].
  cbn [g_st g_lg g_rs fst snd] in *. subst r2' lg2'.
  dsplit; [apply R_if_else_end; exact A2 | reflexivity | rewrite (R_end _ _ A2); reflexivity].
Qed.

(* loops *)
Lemma R_dowhile_tail_cr prev r p c : forall x x', R x x' -> R (dowhile_tail current prev r p c x) (dowhile_tail repaired prev r p c x').
Proof.
  intros x x' H. unfold dowhile_tail, dowhile_test. cbn [fixF current repaired].
  assert (H' : R (match r with Some e => if is_forced e then mark_as_end p e x else x | None => x end)
                 (match r with Some e => if is_forced e then mark_as_end p e x' else x' | None => x' end))
    by (destruct r as [e|]; [destruct (is_forced e); [apply R_mark|]|]; exact H).
  apply R_set_end; [apply (R_end _ _ H') | apply R_visit_cond, R_set_end; [reflexivity | exact H']].
Qed.

Lemma cg1_while c lo g g' : cg1 g g' -> cg1 (visit_whileG current c lo g) (visit_whileG repaired c lo g').
Proof.
  intros H x x' HR. unfold visit_whileG. cbn [fixF current repaired]. pose proof (R_visit_cond c _ _ HR) as HRc.
  destruct (H _ _ (R_child_enter KLoop _ _ HRc)) as [A [B C]].
  destruct (g (child_enter KLoop (visit_cond c x))) as [[a r] lg]. destruct (g' (child_enter KLoop (visit_cond c x'))) as [[a' r'] lg']. cbn [g_st g_lg g_rs fst snd] in *. subst r' lg'.
  dsplit; [|reflexivity | reflexivity]. apply R_child_exit; [exact HRc | apply R_while_post; exact A].
Qed.
Lemma cg1_do_while p c lo g g' : cg1 g g' -> cg1 (visit_do_whileG current p c lo g) (visit_do_whileG repaired p c lo g').
Proof.
  intros H x x' HR. unfold visit_do_whileG. destruct (H _ _ (R_child_enter KLoop _ _ HR)) as [A [B C]].
  destruct (g (child_enter KLoop x)) as [[a r] lg]. destruct (g' (child_enter KLoop x')) as [[a' r'] lg']. cbn [g_st g_lg g_rs fst snd] in *. subst r' lg'.
  pose proof (R_dowhile_post current r c lo _ _ A) as A2. change (dowhile_post_r current r c lo a') with (dowhile_post_r repaired r c lo a') in A2.
  pose proof (R_child_exit KLoop lo _ _ _ _ HR A2) as A3.
  rewrite <- (R_end _ _ A2), <- (R_end _ _ HR), <- (R_end _ _ A3).
  dsplit; [|reflexivity | reflexivity].
  apply R_dowhile_tail_cr. exact A3.
Qed.
Lemma cg1_for p c lo g g' : cg1 g g' -> cg1 (visit_forG current p c lo g) (visit_forG repaired p c lo g').
Proof.
  intros H x x' HR. unfold visit_forG.
  assert (HRc : R (match c with Some c0 => visit_cond c0 x | None => x end) (match c with Some c0 => visit_cond c0 x' | None => x' end))
    by (destruct c; [apply R_visit_cond|]; exact HR).
  destruct (H _ _ (R_child_enter KLoop _ _ HRc)) as [A [B C]].
  destruct (g (child_enter KLoop _)) as [[a r] lg]. destruct (g' (child_enter KLoop _)) as [[a' r'] lg']. cbn [g_st g_lg g_rs fst snd] in *. subst r' lg'.
  dsplit; [apply R_child_exit; [exact HRc | apply R_for_post; exact A] | reflexivity|].
  unfold for_forced. destruct A as [As Ap]. rewrite As. reflexivity.
Qed.
Lemma cg1_for_in lo g g' : cg0 g g' -> cg1 (visit_for_inG current lo g) (visit_for_inG repaired lo g').
Proof.
  intros H x x' HR. unfold visit_for_inG. destruct (H _ _ (R_child_enter KLoop _ _ HR)) as [A B].
  destruct (g (child_enter KLoop x)) as [[a r] lg]. destruct (g' (child_enter KLoop x')) as [[a' r'] lg']. cbn [g_st g_lg g_rs fst snd] in *.
  dsplit; [apply R_child_exit; [exact HR | apply R_forin_post; exact A] | exact B | reflexivity].
Qed.
Lemma cg1_label l p g g' : cg0 g g' ->
  cg1 (fun x => let '(y, _, lg) := with_childG current (KLabel l) p g x in (y, None, lg))
      (fun x => let '(y, _, lg) := with_childG repaired (KLabel l) p g' x in (y, None, lg)).
Proof.
  intros H x x' HR. destruct (cg0_with_child (KLabel l) p g g' H x x' HR) as [A B].
  destruct (with_childG current (KLabel l) p g x) as [[y r] lg]. destruct (with_childG repaired (KLabel l) p g' x') as [[y' r'] lg'].
  cbn [g_st g_lg g_rs fst snd] in *. dsplit; [exact A | exact B | reflexivity].
Qed.

(* switch *)
Lemma cg1_switch p cs g g' : cgc g g' -> cg1 (visit_switchG p cs g) (visit_switchG p cs g').
Proof.
  intros H x x' HR. unfold visit_switchG. destruct (H x x' HR) as [A [B C]].
  destruct (g x) as [[x1 rs] lg]. destruct (g' x') as [[x1' rs'] lg']. cbn [c_st c_lg c_rs g_st g_lg g_rs fst snd] in *. subst rs' lg'.
  rewrite <- (R_end _ _ HR), <- (R_end _ _ A).
  dsplit; [apply R_switch_tail; exact A | reflexivity | reflexivity].
Qed.

Lemma cg1_case cp b g g' : cgl b g g' -> no_fnstart_top b = true ->
  cg1 (visit_caseG current cp b g) (visit_caseG repaired cp b g').
Proof.
  intros H Hb y y' HR. unfold visit_caseG. destruct (H _ _ (R_child_enter KCase _ _ HR)) as [A [B C]].
  destruct (g (child_enter KCase y)) as [[c tops] lg]. destruct (g' (child_enter KCase y')) as [[c' tops'] lg'].
  cbn [l_st l_lg l_tops g_st g_lg g_rs fst snd] in *. subst lg'. rewrite (tops_agree_eq b _ _ Hb C).
  pose proof (R_child_exit KCase cp _ _ _ _ HR A) as A2. destruct A as [As Ap]. rewrite <- As.
  rewrite <- (R_end _ _ HR), <- (R_end _ _ A2), (R_live _ _ HR).
  dsplit; [apply R_set_end; [reflexivity | apply R_mark; exact A2] | reflexivity | reflexivity].
Qed.

(* try *)
Lemma cg_handler cp hbp prev l g g' : cgl l g g' -> forall x x', R x x' ->
  R (fst (try_handlerG current cp hbp prev g x)) (fst (try_handlerG repaired cp hbp prev g' x')) /\
  snd (try_handlerG current cp hbp prev g x) = snd (try_handlerG repaired cp hbp prev g' x').
Proof.
  intros H x x' HR. unfold try_handlerG. rewrite <- (R_mt _ _ HR), <- (R_end _ _ HR).
  assert (HR1 : R (set_mt (if s_mt (sc x) then set_end x prev else x) false) (set_mt (if s_mt (sc x) then set_end x' prev else x') false)).
  { apply R_set_mt; [reflexivity|]. destruct (s_mt (sc x)); [apply R_set_end; [reflexivity|]|]; exact HR. }
  destruct (cg1_with_child KCatch cp _ _ (cg1_block_end hbp l g g' H) _ _ HR1) as [A [B _]].
  destruct (with_childG current KCatch cp _ _) as [[y r] lg]. destruct (with_childG repaired KCatch cp _ _) as [[y' r'] lg'].
  cbn [g_st g_lg fst snd] in *. split; [|exact B].
  destruct (s_mt (sc x)); [apply R_tcm | apply R_set_end; [reflexivity|]]; exact A.
Qed.
Lemma cg_finalizer fp prev l g g' : cgl l g g' -> forall x x', R x x' ->
  R (fst (try_finalizerG current fp prev g x)) (fst (try_finalizerG repaired fp prev g' x')) /\
  snd (try_finalizerG current fp prev g x) = snd (try_finalizerG repaired fp prev g' x').
Proof.
  intros H x x' HR. unfold try_finalizerG. rewrite <- (R_end _ _ HR).
  destruct (cg1_with_child KFinally fp _ _ (cg1_block_end fp l g g' H) _ _ (R_set_end prev prev eq_refl _ _ HR)) as [A [B _]].
  destruct (with_childG current KFinally fp _ _) as [[y r] lg]. destruct (with_childG repaired KFinally fp _ _) as [[y' r'] lg'].
  cbn [g_st g_lg fst snd] in *. split; [apply R_tfm; exact A | exact B].
Qed.

Lemma cg1_try p bp lb gb gb' h lh gh gh' f lf gf gf' :
  cgl lb gb gb' -> (h <> None -> cgl lh gh gh') -> (f <> None -> cgl lf gf gf') ->
  cg1 (visit_tryG current p bp gb h gh f gf) (visit_tryG repaired p bp gb' h gh' f gf').
Proof.
  intros Hb Hh Hf x x' HR. unfold visit_tryG. rewrite <- (R_mt _ _ HR), <- (R_end _ _ HR).
  destruct (cg1_block_end bp lb gb gb' Hb _ _ (R_set_mt false false eq_refl _ _ HR)) as [A1 [B1 _]].
  destruct (block_endG bp (gb (set_mt x false))) as [[x1 r1] lg1]. destruct (block_endG bp (gb' (set_mt x' false))) as [[x1' r1'] lg1'].
  cbn [g_st g_lg fst snd] in *. subst lg1'.
  assert (H2 : R (fst (match h with Some (cp, hbp) => try_handlerG current cp hbp (s_end (sc x)) gh x1 | None => (x1, []) end))
                 (fst (match h with Some (cp, hbp) => try_handlerG repaired cp hbp (s_end (sc x)) gh' x1' | None => (x1', []) end)) /\
               snd (match h with Some (cp, hbp) => try_handlerG current cp hbp (s_end (sc x)) gh x1 | None => (x1, []) end) =
               snd (match h with Some (cp, hbp) => try_handlerG repaired cp hbp (s_end (sc x)) gh' x1' | None => (x1', []) end)).
  { destruct h as [[cp hbp]|]; [apply (cg_handler cp hbp _ lh); [apply Hh; discriminate | exact A1] | split; [exact A1 | reflexivity]]. }
  destruct (match h with Some (cp, hbp) => try_handlerG current cp hbp (s_end (sc x)) gh x1 | None => (x1, []) end) as [x2 lg2].
  destruct (match h with Some (cp, hbp) => try_handlerG repaired cp hbp (s_end (sc x)) gh' x1' | None => (x1', []) end) as [x2' lg2'].
  cbn [fst snd] in H2. destruct H2 as [A2 B2]. subst lg2'.
  assert (H3 : R (fst (match f with Some fp => try_finalizerG current fp (s_end (sc x)) gf x2 | None => (x2, []) end))
                 (fst (match f with Some fp => try_finalizerG repaired fp (s_end (sc x)) gf' x2' | None => (x2', []) end)) /\
               snd (match f with Some fp => try_finalizerG current fp (s_end (sc x)) gf x2 | None => (x2, []) end) =
               snd (match f with Some fp => try_finalizerG repaired fp (s_end (sc x)) gf' x2' | None => (x2', []) end)).
  { destruct f as [fp|]; [apply (cg_finalizer fp _ lf); [apply Hf; discriminate | exact A2] | split; [exact A2 | reflexivity]]. }
  destruct (match f with Some fp => try_finalizerG current fp (s_end (sc x)) gf x2 | None => (x2, []) end) as [x3 lg3].
  destruct (match f with Some fp => try_finalizerG repaired fp (s_end (sc x)) gf' x2' | None => (x2', []) end) as [x3' lg3'].
  cbn [fst snd] in H3. destruct H3 as [A3 B3]. subst lg3'.
  cbn [g_st g_lg g_rs fst snd]. rewrite <- (R_end _ _ A3).
  dsplit; [apply R_try_finish; exact A3 | reflexivity | reflexivity].
Qed.

(* lists *)
Lemma cgl_nil : cgl SNil (fun y => (y, [], [])) (fun y => (y, [], [])).
Proof. intros x x' HR. cbn [l_st l_lg l_tops fst snd tops_agree]. dsplit; [exact HR | reflexivity | exact I]. Qed.

Lemma cgl_cons s r hd hd' tl tl' :
  cg0 hd hd' -> (is_fnstart s = false -> cg1 hd hd') -> cgl r tl tl' ->
  cgl (SCons s r) (consG s hd tl) (consG s hd' tl').
Proof.
  intros H0 H1 H2 x x' HR. unfold consG. destruct (H0 x x' HR) as [A B].
  assert (C : is_fnstart s = false -> g_rs (hd x) = g_rs (hd' x')) by (intros Hs; apply (H1 Hs x x' HR)).
  destruct (hd x) as [[y1 r1] lg1]. destruct (hd' x') as [[y1' r1'] lg1']. cbn [g_st g_lg g_rs fst snd] in *.
  destruct (H2 y1 y1' A) as [A2 [B2 C2]]. destruct (tl y1) as [[y2 tops] lg2]. destruct (tl' y1') as [[y2' tops'] lg2'].
  cbn [l_st l_lg l_tops fst snd tops_agree] in *. dsplit; [exact A2 | rewrite B, B2; reflexivity | exact C | exact C2].
Qed.

Lemma cg0_ext g g' h h' : (forall x, g x = h x) -> (forall x, g' x = h' x) -> cg0 h h' -> cg0 g g'.
Proof. intros E E' H x x' HR. rewrite E, E'. apply H. exact HR. Qed.
Lemma cg1_ext g g' h h' : (forall x, g x = h x) -> (forall x, g' x = h' x) -> cg1 h h' -> cg1 g g'.
Proof. intros E E' H x x' HR. rewrite E, E'. apply H. exact HR. Qed.
Lemma cgl_ext l g g' h h' : (forall x, g x = h x) -> (forall x, g' x = h' x) -> cgl l h h' -> cgl l g g'.
Proof. intros E E' H x x' HR. rewrite E, E'. apply H. exact HR. Qed.

(* ------------------------------------------------------------------ *)
Definition congS (s : stmt) : Prop :=
  fnsafe s = true -> cg0 (anG current s) (anG repaired s) /\ (is_fnstart s = false -> cg1 (anG current s) (anG repaired s)).
Definition congL (l : stmts) : Prop := fnsafe_l l = true -> cgl l (anG_list current l) (anG_list repaired l).
Definition congC (cs : cases) : Prop := fnsafe_c cs = true -> cgc (anG_cases current cs) (anG_cases repaired cs).

(* a statement that does not start with a function: the full congruence *)
Lemma congS_full s (V V' : st -> gres) :
  (forall x, anG current s x = wrap s V x) -> (forall x, anG repaired s x = wrap s V' x) ->
  cg1 V V' -> cg0 (anG current s) (anG repaired s) /\ (is_fnstart s = false -> cg1 (anG current s) (anG repaired s)).
Proof.
  intros E E' H. assert (H1 : cg1 (anG current s) (anG repaired s)) by (eapply cg1_ext; [exact E | exact E' | apply cg1_wrap; exact H]).
  split; [apply cg1_cg0; exact H1 | intros _; exact H1].
Qed.

Lemma congS_orb1 s : congS s -> fnsafe s = true -> is_fnstart s = false ->
  cg1 (fun a => orbG s (anG current s a)) (fun a => orbG s (anG repaired s a)).
Proof. intros H Hf Hs. apply cg1_orb. apply (proj2 (H Hf) Hs). Qed.
Lemma congS_orb0 s : congS s -> fnsafe s = true ->
  cg0 (fun a => orbG s (anG current s a)) (fun a => orbG s (anG repaired s a)).
Proof. intros H Hf. apply cg0_orb. apply (proj1 (H Hf)). Qed.

Ltac bsplit H := repeat (apply andb_true_iff in H; let H' := fresh H in destruct H as [H H']).
Lemma negb_true b : negb b = true -> b = false.
Proof. destruct b; [discriminate | reflexivity]. Qed.

Theorem anG_cong : (forall s, congS s) /\ (forall l, congL l) /\ (forall cs, congC cs).
Proof.
  apply stmt_mutind.
  - intros p e _. apply (congS_full (SExpr p e) (fun x => (visit_e e x, None, [])) (fun x => (visit_e e x, None, [])));
      [reflexivity | reflexivity | apply cg1_leaf; apply R_visit_e].
  - intros p _. apply (congS_full (SEmpty p) (fun x => (x, None, [])) (fun x => (x, None, [])));
      [reflexivity | reflexivity | apply (cg1_leaf (fun x => x) (fun x => x)); intros x x' H; exact H].
  - intros p v i _. apply (congS_full (SVar p v i) (fun x => (match i with Some e => visit_e e x | None => x end, None, []))
                                       (fun x => (match i with Some e => visit_e e x | None => x end, None, [])));
      [reflexivity | reflexivity |].
    apply (cg1_leaf (fun x => match i with Some e => visit_e e x | None => x end) (fun x => match i with Some e => visit_e e x | None => x end)).
    intros x x' H. destruct i; [apply R_visit_e|]; exact H.
  - (* SFnDecl: only the weak congruence *)
    intros p n pb b IHb Hf. cbn [fnsafe] in Hf. split; [|discriminate].
    eapply cg0_ext; [intros x; reflexivity | intros x; reflexivity|].
    apply (cg0_wrap (SFnDecl p n pb b) (fn_likeG current p pb (anG_list current b)) (fn_likeG repaired p pb (anG_list repaired b))).
    apply (cg0_fn p pb b). apply IHb. exact Hf.
  - intros p pb b IHb Hf. cbn [fnsafe] in Hf. split; [|discriminate].
    eapply cg0_ext; [intros x; reflexivity | intros x; reflexivity|].
    apply (cg0_wrap (SArrowStmt p pb b) (fun x => let '(y, r, lg) := fn_likeG current p pb (anG_list current b) x in (visit_lit y, r, lg))
                    (fun x => let '(y, r, lg) := fn_likeG repaired p pb (anG_list repaired b) x in (visit_lit y, r, lg))).
    apply (cg0_arrow p pb b). apply IHb. exact Hf.
  - intros p gp pb b IHb Hf. cbn [fnsafe] in Hf.
    apply (congS_full (SGetterStmt p gp pb b) (fn_exprG current gp pb (anG_list current b)) (fn_exprG repaired gp pb (anG_list repaired b)));
      [reflexivity | reflexivity | apply (cg1_fn_expr gp pb b); apply IHb; exact Hf].
  - intros p a _. apply (congS_full (SRet p a) (fun x => let '(y, r) := visit_returnG p a x in (y, r, [])) (fun x => let '(y, r) := visit_returnG p a x in (y, r, [])));
      [reflexivity | reflexivity | apply cg1_return].
  - intros p e _. apply (congS_full (SThrow p e) (fun x => let '(y, r) := visit_throwG current p e x in (y, r, [])) (fun x => let '(y, r) := visit_throwG repaired p e x in (y, r, [])));
      [reflexivity | reflexivity | apply cg1_throw].
  - intros p l _. apply (congS_full (SBrk p l) (fun x => (visit_break current l x, None, [])) (fun x => (visit_break repaired l x, None, [])));
      [reflexivity | reflexivity | apply cg1_leaf; apply (R_visit_break current)].
  - intros p l _. apply (congS_full (SCont p l) (fun x => (set_fc x true, None, [])) (fun x => (set_fc x true, None, [])));
      [reflexivity | reflexivity | apply (cg1_leaf (fun x => set_fc x true) (fun x => set_fc x true)); apply R_set_fc].
  - intros p b IHb Hf. cbn [fnsafe] in Hf.
    apply (congS_full (SBlock p b) (fun a => block_endG p (anG_list current b a)) (fun a => block_endG p (anG_list repaired b a)));
      [reflexivity | reflexivity | apply (cg1_block_end p b); apply IHb; exact Hf].
  - intros p c a IHa Hf. cbn [fnsafe] in Hf.
    apply (congS_full (SIf p c a) (visit_ifG current p c (pos a) (fun y => orbG a (anG current a y))) (visit_ifG repaired p c (pos a) (fun y => orbG a (anG repaired a y))));
      [reflexivity | reflexivity | apply cg1_if; apply congS_orb0; assumption].
  - intros p c a IHa b IHb Hf. cbn [fnsafe] in Hf. bsplit Hf.
    apply (congS_full (SIfElse p c a b)
             (visit_if_elseG current p c (pos a) (fun y => orbG a (anG current a y)) (pos b) (fun y => orbG b (anG current b y)))
             (visit_if_elseG repaired p c (pos a) (fun y => orbG a (anG repaired a y)) (pos b) (fun y => orbG b (anG repaired b y))));
      [reflexivity | reflexivity | apply cg1_if_else; apply congS_orb1; try assumption; apply negb_true; assumption].
  - intros p c b IHb Hf. cbn [fnsafe] in Hf. bsplit Hf.
    apply (congS_full (SWhile p c b) (visit_whileG current c (pos b) (anG current b)) (visit_whileG repaired c (pos b) (anG repaired b)));
      [reflexivity | reflexivity | apply cg1_while; apply (proj2 (IHb Hf0)); apply negb_true; assumption].
  - intros p b IHb c Hf. cbn [fnsafe] in Hf. bsplit Hf.
    apply (congS_full (SDoWhile p b c) (visit_do_whileG current p c (pos b) (anG current b)) (visit_do_whileG repaired p c (pos b) (anG repaired b)));
      [reflexivity | reflexivity | apply cg1_do_while; apply (proj2 (IHb Hf0)); apply negb_true; assumption].
  - intros p i c u b IHb Hf. cbn [fnsafe] in Hf. bsplit Hf.
    apply (congS_full (SFor p i c u b) (fun x => visit_forG current p c (pos b) (anG current b) (visit_oe u (visit_oe i x)))
                      (fun x => visit_forG repaired p c (pos b) (anG repaired b) (visit_oe u (visit_oe i x))));
      [reflexivity | reflexivity|].
    intros x x' HR. apply cg1_for; [apply (proj2 (IHb Hf0)); apply negb_true; assumption | apply R_visit_oe, R_visit_oe; exact HR].
  - intros p b IHb Hf. cbn [fnsafe] in Hf.
    apply (congS_full (SForIn p b) (visit_for_inG current (pos b) (anG current b)) (visit_for_inG repaired (pos b) (anG repaired b)));
      [reflexivity | reflexivity | apply cg1_for_in; apply (proj1 (IHb Hf))].
  - intros p b IHb Hf. cbn [fnsafe] in Hf.
    apply (congS_full (SForOf p b) (visit_for_inG current (pos b) (anG current b)) (visit_for_inG repaired (pos b) (anG repaired b)));
      [reflexivity | reflexivity | apply cg1_for_in; apply (proj1 (IHb Hf))].
  - intros p g fp pb hb IHh b IHb Hf. cbn [fnsafe] in Hf. bsplit Hf.
    apply (congS_full (SForHead p g fp pb hb b)
             (seqG (for_headG current fp pb (anG_list current hb)) (visit_for_inG current (pos b) (anG current b)))
             (seqG (for_headG repaired fp pb (anG_list repaired hb)) (visit_for_inG repaired (pos b) (anG repaired b))));
      [reflexivity | reflexivity|].
    apply cg1_seq; [apply cg1_cg0; apply (cg1_for_head fp pb hb); apply IHh; assumption | apply cg1_for_in; apply (proj1 (IHb Hf0))].
  - intros p cs IHc Hf. cbn [fnsafe] in Hf.
    apply (congS_full (SSwitch p cs) (visit_switchG p cs (anG_cases current cs)) (visit_switchG p cs (anG_cases repaired cs)));
      [reflexivity | reflexivity | apply cg1_switch; apply IHc; exact Hf].
  - intros p l b IHb Hf. cbn [fnsafe] in Hf.
    apply (congS_full (SLabel p l b)
             (fun x => let '(y, _, lg) := with_childG current (KLabel l) p (fun a => orbG b (anG current b a)) x in (y, None, lg))
             (fun x => let '(y, _, lg) := with_childG repaired (KLabel l) p (fun a => orbG b (anG repaired b a)) x in (y, None, lg)));
      [reflexivity | reflexivity | apply cg1_label; apply congS_orb0; assumption].
  - intros p bp blk IHb h hb IHh f fb IHf Hf. cbn [fnsafe] in Hf. bsplit Hf.
    apply (congS_full (STry p bp blk h hb f fb)
             (visit_tryG current p bp (anG_list current blk) h (anG_list current hb) f (anG_list current fb))
             (visit_tryG repaired p bp (anG_list repaired blk) h (anG_list repaired hb) f (anG_list repaired fb)));
      [reflexivity | reflexivity|].
    apply (cg1_try p bp blk _ _ h hb _ _ f fb); [apply IHb; assumption | intros _; apply IHh; assumption | intros _; apply IHf; assumption].
  - intros _. exact cgl_nil.
  - intros s IHs r IHr Hf. cbn [fnsafe_l] in Hf. bsplit Hf.
    eapply cgl_ext; [intros x; reflexivity | intros x; reflexivity|].
    apply (cgl_cons s r (fun a => orbG s (anG current s a)) (fun a => orbG s (anG repaired s a)) (anG_list current r) (anG_list repaired r)).
    + apply congS_orb0; assumption.
    + intros Hs. apply congS_orb1; assumption.
    + apply IHr. assumption.
  - intros _ x x' HR. cbn [anG_cases c_st c_lg c_rs fst snd]. dsplit; [exact HR | reflexivity | reflexivity].
  - intros cp d ft b IHb r IHr Hf. cbn [fnsafe_c] in Hf. bsplit Hf.
    intros x x' HR.
    change (anG_cases current (CCons cp d ft b r) x)
      with (consC (fun y => visit_caseG current cp b (anG_list current b) (visit_test d y)) (anG_cases current r) x).
    change (anG_cases repaired (CCons cp d ft b r) x')
      with (consC (fun y => visit_caseG repaired cp b (anG_list repaired b) (visit_test d y)) (anG_cases repaired r) x').
    unfold consC.
    destruct (cg1_case cp b _ _ (IHb Hf1) Hf _ _ (R_visit_test d _ _ HR)) as [A [B C]].
    destruct (visit_caseG current cp b (anG_list current b) (visit_test d x)) as [[y1 r1] lg1].
    destruct (visit_caseG repaired cp b (anG_list repaired b) (visit_test d x')) as [[y1' r1'] lg1'].
    cbn [g_st g_lg g_rs fst snd] in *. subst r1' lg1'.
    destruct (IHr Hf0 y1 y1' A) as [A2 [B2 C2]].
    destruct (anG_cases current r y1) as [[y2 rs] lg2]. destruct (anG_cases repaired r y1') as [[y2' rs'] lg2'].
    cbn [c_st c_lg c_rs fst snd] in *. subst rs' lg2'. dsplit; [exact A2 | reflexivity | reflexivity].
Qed.

(* program level *)
Theorem analyzeG_cong (p : program) : fn_stmt_safe p ->
  g_lg (analyzeG current p) = g_lg (analyzeG repaired p) /\ g_rs (analyzeG current p) = g_rs (analyzeG repaired p).
Proof.
  intros Hf. destruct anG_cong as [_ [HL _]]. unfold analyzeG.
  destruct (cg1_block_end (p_pb p) (p_body p) _ _ (HL (p_body p) Hf) init_st init_st (R_refl _)) as [_ [B C]].
  split; assumption.
Qed.

Print Assumptions analyzeG_cong.
