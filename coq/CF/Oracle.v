(* C10/C11 - the properties as executable checks on one program (model analyzer
   against the executable semantics).  Used by the `oracle` sub-command of the
   extracted driver and by the refutation witnesses. *)
From V Require Export CF.Analyzer CF.SemDecide.

(* C10: statements reported by no-unreachable that some execution enters *)
Definition c10_violations (fx : fixes) (p : program) : list N :=
  filter (fun pi => memN pi (prog_reach p)) (no_unreachable fx p).

(* C11 (getter): the body can complete normally, yet getter-return does not report the getter *)
Definition c11_getter_violation (fx : fixes) (p : program) : bool :=
  p_getter p && prog_can_fall_off p && negb (getter_body_continues (analyze fx p) p).

(* ... the same for every getter of the program, nested ones included (only the program's own getter is
   covered by the theorems; the nested ones are checked on every generated program) *)
Definition c11_getter_violations_all (fx : fixes) (p : program) : list N :=
  let i := analyze fx p in
  flat_map (fun g => if cN (csem_l (snd g)) && negb (getter_entry_continues i (snd (fst g))) then [fst (fst g)] else [])
           (all_getters p).

(* C11 (switch): cases of an entered switch whose consequent can complete normally although
   one of its top-level statements is claimed to stop execution *)
Fixpoint bad_cases (i : imap) (cs : cases) : list N :=
  match cs with
  | CNil => []
  | CCons cp _ _ b r => (if any_stops i b && cN (csem_l b) then [cp] else []) ++ bad_cases i r
  end.
Definition c11_case_violations (fx : fixes) (p : program) : list N :=
  let i := analyze fx p in
  let reach := prog_reach p in
  flat_map (fun pc => if memN (fst pc) reach then bad_cases i (snd pc) else [])
           (switches (all_stmts_l (p_body p))).

Definition c10_ok fx p := match c10_violations fx p with [] => true | _ => false end.
Definition c11_ok fx p := negb (c11_getter_violation fx p) && match c11_case_violations fx p with [] => true | _ => false end.

(* ------------------------------------------------------------------ *)
(* Purely semantic facts about a program (no analyzer involved), for evaluating the properties directly on
   the implementation's diagnostics:  cases of an entered switch that are not the last one, are not "empty"
   in the sense of no-fallthrough, carry no fall-through comment, and whose consequent can complete normally
   (so control falls into the next case): no-fallthrough has to report exactly these. *)
Fixpoint sem_fall_cases (cs : cases) : list N :=
  match cs with
  | CNil => []
  | CCons _ _ _ _ CNil => []
  | CCons cp _ ft b r =>
      (if cN (csem_l b) && negb (case_empty b) && negb ft then [cp] else []) ++ sem_fall_cases r
  end.
(* getters (start offsets) whose body can complete normally: getter-return has to report these *)
Definition sem_falling_getters (p : program) : list N :=
  flat_map (fun g => if cN (csem_l (snd g)) then [fst (fst g)] else []) (all_getters p).

Definition sem_fallthrough_cases (p : program) : list N :=
  let reach := prog_reach p in
  flat_map (fun pc => if memN (fst pc) reach then sem_fall_cases (snd pc) else [])
           (switches (all_stmts_l (p_body p))).
