(* C10/C11 - executable form of the specification in Semantics.v:
   `csem s ls` = set of possible completions of `s`; `reach s` = positions of the
   sub-statements that can be entered.  Proved equivalent to `exec`/`enters` in
   SemDecideProofs.v.
   Used for search (the oracles of the check) and as the semantic side of the
   soundness proofs. *)
From V Require Export CF.Semantics.

(* a set of completions *)
Record comps := { cN : bool; cR : bool; cT : bool; cB0 : bool; cC0 : bool; cBL : list N; cCL : list N }.
Definition cempty := {| cN := false; cR := false; cT := false; cB0 := false; cC0 := false; cBL := []; cCL := [] |}.
Definition cunion (a b : comps) :=
  {| cN := cN a || cN b; cR := cR a || cR b; cT := cT a || cT b; cB0 := cB0 a || cB0 b; cC0 := cC0 a || cC0 b;
     cBL := cBL a ++ cBL b; cCL := cCL a ++ cCL b |}.
Definition cset_N (b : bool) (a : comps) :=
  {| cN := b; cR := cR a; cT := cT a; cB0 := cB0 a; cC0 := cC0 a; cBL := cBL a; cCL := cCL a |}.
Definition cset_T (b : bool) (a : comps) :=
  {| cN := cN a; cR := cR a; cT := b; cB0 := cB0 a; cC0 := cC0 a; cBL := cBL a; cCL := cCL a |}.
Definition n_if (b : bool) := cset_N b cempty.
Definition t_if (b : bool) := cset_T b cempty.
Definition only_N := n_if true.

Definition cin (k : completion) (c : comps) : bool :=
  match k with
  | Normal => cN c
  | Ret => cR c
  | Thr => cT c
  | Brk None => cB0 c
  | Cont None => cC0 c
  | Brk (Some l) => memN l (cBL c)
  | Cont (Some l) => memN l (cCL c)
  end.

Definition is_nil {A} (l : list A) : bool := match l with [] => true | _ => false end.
Definition cnonempty (c : comps) : bool :=
  cN c || cR c || cT c || cB0 c || cC0 c || negb (is_nil (cBL c)) || negb (is_nil (cCL c)).

(* loop { pre; body; post } with labels ls, given the completions of the body *)
Definition sem_loop (pre post : cond) (ls : list N) (bc : comps) : comps :=
  let t := cunion (t_if (cond_throws pre)) (n_if (may_false pre)) in
  if may_true pre then
    let again := cN bc || cC0 bc || existsb (fun l => memN l ls) (cCL bc) in
    cunion t {| cN := cB0 bc || (again && may_false post); cR := cR bc;
                cT := cT bc || (again && cond_throws post); cB0 := false; cC0 := false;
                cBL := cBL bc; cCL := filter (fun l => negb (memN l ls)) (cCL bc) |}
  else t.

(* try block + handler: `bc` block, `hc` handler body *)
Definition sem_catch (h : option (N * N)) (bc hc : comps) : comps :=
  match h with
  | Some _ => if cT bc then cunion (cset_T false bc) hc else bc
  | None => bc
  end.

(* finalizer: `tc` = completions of block+handler, `fc` = completions of the finalizer body *)
Definition sem_fin (f : option N) (tc fc : comps) : comps :=
  match f with
  | None => tc
  | Some _ => if cnonempty tc then cunion (if cN fc then tc else cempty) (cset_N false fc) else cempty
  end.

(* completions *)
Fixpoint csem (s : stmt) (ls : list N) {struct s} : comps :=
  match s with
  | SExpr _ e => cset_T (e_throws e) only_N
  | SEmpty _ => only_N
  | SVar _ _ i => cset_T (oe_throws i) only_N
  | SFnDecl _ _ _ _ | SArrowStmt _ _ _ | SGetterStmt _ _ _ _ => only_N
  | SRet _ a => {| cN := false; cR := true; cT := oe_throws a; cB0 := false; cC0 := false; cBL := []; cCL := [] |}
  | SThrow _ _ => t_if true
  | SBrk _ None => {| cN := false; cR := false; cT := false; cB0 := true; cC0 := false; cBL := []; cCL := [] |}
  | SBrk _ (Some l) => {| cN := false; cR := false; cT := false; cB0 := false; cC0 := false; cBL := [l]; cCL := [] |}
  | SCont _ None => {| cN := false; cR := false; cT := false; cB0 := false; cC0 := true; cBL := []; cCL := [] |}
  | SCont _ (Some l) => {| cN := false; cR := false; cT := false; cB0 := false; cC0 := false; cBL := []; cCL := [l] |}
  | SBlock _ b => csem_l b
  | SIf _ c a =>
      cunion (t_if (cond_throws c)) (cunion (if may_true c then csem a [] else cempty) (n_if (may_false c)))
  | SIfElse _ c a b =>
      cunion (t_if (cond_throws c))
             (cunion (if may_true c then csem a [] else cempty) (if may_false c then csem b [] else cempty))
  | SWhile _ c b => sem_loop c CTrue ls (csem b [])
  | SDoWhile _ b c => sem_loop CTrue c ls (csem b [])
  | SFor _ i c u b => cunion (t_if (oe_throws i)) (sem_loop (for_pre c) (upd_post u) ls (csem b []))
  | SForIn _ b | SForOf _ b | SForHead _ _ _ _ _ b => sem_loop opaque CTrue ls (csem b [])
  | SSwitch _ cs =>
      let ca := snd (csem_c cs) in
      {| cN := cN ca || cB0 ca || negb (has_default cs); cR := cR ca; cT := cT ca || tests_throw cs; cB0 := false; cC0 := cC0 ca;
         cBL := cBL ca; cCL := cCL ca |}
  | SLabel _ l b =>
      let c := csem b (l :: ls) in
      {| cN := cN c || memN l (cBL c); cR := cR c; cT := cT c; cB0 := cB0 c; cC0 := cC0 c;
         cBL := filter (fun x => negb (N.eqb x l)) (cBL c); cCL := cCL c |}
  | STry _ _ blk h hb f fb =>
      sem_fin f (sem_catch h (csem_l blk) (csem_l hb)) (csem_l fb)
  end
with csem_l (l : stmts) {struct l} : comps :=
  match l with
  | SNil => only_N
  | SCons t r =>
      let c := csem t [] in
      if cN c then cunion (cset_N false c) (csem_l r) else c
  end
(* (falling through from the first case, jumping to any case) *)
with csem_c (cs : cases) {struct cs} : comps * comps :=
  match cs with
  | CNil => (only_N, cempty)
  | CCons _ _ _ b r =>
      let cb := csem_l b in
      let here := if cN cb then cunion (cset_N false cb) (fst (csem_c r)) else cb in
      (here, cunion here (snd (csem_c r)))
  end.

(* positions of the sub-statements that can be entered (function declarations are hoisted, see `hoist_l`) *)
Fixpoint reach (s : stmt) : list N :=
  pos s ::
  match s with
  | SFnDecl _ _ _ b | SArrowStmt _ _ b | SGetterStmt _ _ _ b | SBlock _ b => reach_l b
  | SForHead _ _ _ _ hb b => reach_l hb ++ reach b
  | SIf _ c a => if may_true c then reach a else []
  | SIfElse _ c a b => (if may_true c then reach a else []) ++ (if may_false c then reach b else [])
  | SWhile _ c b => if may_true c then reach b else []
  | SFor _ _ c _ b => if may_true (for_pre c) then reach b else []
  | SDoWhile _ b _ | SForIn _ b | SForOf _ b | SLabel _ _ b => reach b
  | SSwitch _ cs => reach_c cs
  | STry _ _ blk h hb f fb =>
      let bc := csem_l blk in
      reach_l blk
      ++ (match h with Some _ => if cT bc then reach_l hb else [] | None => [] end)
      ++ (match f with Some _ => if cnonempty (sem_catch h bc (csem_l hb)) then reach_l fb else [] | None => [] end)
  | _ => []
  end
with reach_l (l : stmts) : list N :=
  match l with
  | SNil => []
  | SCons t r => reach t ++ (if cN (csem t []) then reach_l r else hoist_l r)
  end
(* what is reachable in an entered list even when control never gets to its statements: the bodies of the
   function declarations that are directly in the list (hoisting); `hoist_l l` is included in `reach_l l` *)
with hoist_l (l : stmts) : list N :=
  match l with
  | SNil => []
  | SCons t r => (match t with SFnDecl _ _ _ b => reach_l b | _ => [] end) ++ hoist_l r
  end
with reach_c (cs : cases) : list N :=
  match cs with
  | CNil => []
  | CCons _ _ _ b r => reach_l b ++ reach_c r
  end.

Definition hoist_s (s : stmt) : list N := match s with SFnDecl _ _ _ b => reach_l b | _ => [] end.
Lemma hoist_l_cons s r : hoist_l (SCons s r) = hoist_s s ++ hoist_l r.
Proof. reflexivity. Qed.

(* ------------------------------------------------------------------ *)
(* program-level oracles *)
Definition prog_reach (p : program) : list N := reach_l (p_body p).
Definition prog_can_fall_off (p : program) : bool := cN (csem_l (p_body p)).
