(* C10/C11 - executable form of the specification in Semantics.v:
   `sem s ls` = (set of possible completions of `s`, positions of the entered
   sub-statements).  Proved equivalent to `exec`/`enters` in SemDecideProofs.v.
   Used for search (the oracles of the check) and as the semantic side of the
   soundness proofs. *)
From V Require Export CF.Semantics.

(* a set of completions *)
Record comps := { cN : bool; cR : bool; cT : bool; cB0 : bool; cC0 : bool; cBL : list N; cCL : list N }.
Definition cempty := {| cN := false; cR := false; cT := false; cB0 := false; cC0 := false; cBL := []; cCL := [] |}.
Definition cunion (a b : comps) :=
  {| cN := cN a || cN b; cR := cR a || cR b; cT := cT a || cT b; cB0 := cB0 a || cB0 b; cC0 := cC0 a || cC0 b;
     cBL := cBL a ++ cBL b; cCL := cCL a ++ cCL b |}.
Definition cset_N (b : bool) (a : comps) :=
  {| cN := b; cR := cR a; cT := cT a; cB0 := cB0 a; cC0 := cC0 a; cBL := cBL a; cCL := cCL a |}.
Definition cset_T (b : bool) (a : comps) :=
  {| cN := cN a; cR := cR a; cT := b; cB0 := cB0 a; cC0 := cC0 a; cBL := cBL a; cCL := cCL a |}.
Definition n_if (b : bool) := cset_N b cempty.
Definition t_if (b : bool) := cset_T b cempty.
Definition only_N := n_if true.

Definition cin (k : completion) (c : comps) : bool :=
  match k with
  | Normal => cN c
  | Ret => cR c
  | Thr => cT c
  | Brk None => cB0 c
  | Cont None => cC0 c
  | Brk (Some l) => memN l (cBL c)
  | Cont (Some l) => memN l (cCL c)
  end.

Definition is_nil {A} (l : list A) : bool := match l with [] => true | _ => false end.
Definition cnonempty (c : comps) : bool :=
  cN c || cR c || cT c || cB0 c || cC0 c || negb (is_nil (cBL c)) || negb (is_nil (cCL c)).

(* loop { pre; body; post } with labels ls, given the body's result *)
Definition sem_loop (pre post : cond) (ls : list N) (body : comps * list N) : comps * list N :=
  let t := cunion (t_if (cond_throws pre)) (n_if (may_false pre)) in
  if may_true pre then
    let bc := fst body in
    let again := cN bc || cC0 bc || existsb (fun l => memN l ls) (cCL bc) in
    let out := {| cN := cB0 bc || (again && may_false post); cR := cR bc;
                  cT := cT bc || (again && cond_throws post); cB0 := false; cC0 := false;
                  cBL := cBL bc; cCL := filter (fun l => negb (memN l ls)) (cCL bc) |} in
    (cunion t out, snd body)
  else (t, []).

(* finalizer: `tc` = completions of block+handler, `fin` = result of the finalizer body *)
Definition sem_fin (tc : comps) (fin : comps * list N) : comps * list N :=
  if cnonempty tc then
    (cunion (if cN (fst fin) then tc else cempty) (cset_N false (fst fin)), snd fin)
  else (cempty, []).

Fixpoint sem (s : stmt) (ls : list N) {struct s} : comps * list N :=
  let '(c, rs) :=
    match s with
    | SExpr _ e => (cset_T (e_throws e) only_N, [])
    | SEmpty _ => (only_N, [])
    | SVar _ _ i => (cset_T (oe_throws i) only_N, [])
    | SFnDecl _ _ _ b | SArrowStmt _ _ b => (only_N, snd (sem_l b))
    | SRet _ a => ({| cN := false; cR := true; cT := oe_throws a; cB0 := false; cC0 := false; cBL := []; cCL := [] |}, [])
    | SThrow _ _ => (t_if true, [])
    | SBrk _ None => ({| cN := false; cR := false; cT := false; cB0 := true; cC0 := false; cBL := []; cCL := [] |}, [])
    | SBrk _ (Some l) => ({| cN := false; cR := false; cT := false; cB0 := false; cC0 := false; cBL := [l]; cCL := [] |}, [])
    | SCont _ None => ({| cN := false; cR := false; cT := false; cB0 := false; cC0 := true; cBL := []; cCL := [] |}, [])
    | SCont _ (Some l) => ({| cN := false; cR := false; cT := false; cB0 := false; cC0 := false; cBL := []; cCL := [l] |}, [])
    | SBlock _ b => sem_l b
    | SIf _ c a =>
        let ra := sem a [] in
        (cunion (t_if (cond_throws c)) (cunion (if may_true c then fst ra else cempty) (n_if (may_false c))),
         if may_true c then snd ra else [])
    | SIfElse _ c a b =>
        let ra := sem a [] in
        let rb := sem b [] in
        (cunion (t_if (cond_throws c)) (cunion (if may_true c then fst ra else cempty) (if may_false c then fst rb else cempty)),
         (if may_true c then snd ra else []) ++ (if may_false c then snd rb else []))
    | SWhile _ c b => sem_loop c CTrue ls (sem b [])
    | SDoWhile _ b c => sem_loop CTrue c ls (sem b [])
    | SFor _ (Some c) b => sem_loop c CTrue ls (sem b [])
    | SFor _ None b => sem_loop CTrue CTrue ls (sem b [])
    | SForIn _ b | SForOf _ b => sem_loop opaque CTrue ls (sem b [])
    | SSwitch _ cs =>
        let '(_, ca, rs) := sem_c cs in
        ({| cN := cN ca || cB0 ca || negb (has_default cs); cR := cR ca; cT := cT ca; cB0 := false; cC0 := cC0 ca;
            cBL := cBL ca; cCL := cCL ca |}, rs)
    | SLabel _ l b =>
        let '(c, rs) := sem b (l :: ls) in
        ({| cN := cN c || memN l (cBL c); cR := cR c; cT := cT c; cB0 := cB0 c; cC0 := cC0 c;
            cBL := filter (fun x => negb (N.eqb x l)) (cBL c); cCL := cCL c |}, rs)
    | STry _ _ blk h hb f fb =>
        let '(bc, rb) := sem_l blk in
        let '(tc, rh) := match h with
                         | Some _ => if cT bc then let '(hc, rh) := sem_l hb in (cunion (cset_T false bc) hc, rh)
                                     else (bc, [])
                         | None => (bc, [])
                         end in
        match f with
        | None => (tc, rb ++ rh)
        | Some _ => let '(c, rf) := sem_fin tc (sem_l fb) in (c, rb ++ rh ++ rf)
        end
    end in
  (c, pos s :: rs)
with sem_l (l : stmts) {struct l} : comps * list N :=
  match l with
  | SNil => (only_N, [])
  | SCons t r =>
      let '(c, rs) := sem t [] in
      if cN c then let '(c2, rs2) := sem_l r in (cunion (cset_N false c) c2, rs ++ rs2)
      else (c, rs)
  end
(* (falling through from the first case, jumping to any case, entered positions) *)
with sem_c (cs : cases) {struct cs} : comps * comps * list N :=
  match cs with
  | CNil => (only_N, cempty, [])
  | CCons _ _ _ b r =>
      let '(cb, rb) := sem_l b in
      let '(ch, ca, rr) := sem_c r in
      let here := if cN cb then cunion (cset_N false cb) ch else cb in
      (here, cunion here ca, rb ++ rr)
  end.

(* ------------------------------------------------------------------ *)
(* program-level oracles *)
Definition prog_reach (p : program) : list N := snd (sem_l (p_body p)).
Definition prog_can_fall_off (p : program) : bool := cN (fst (sem_l (p_body p))).
