(* C10/C11 - the executable semantics (`csem`, `reach`) agrees with the inductive
   specification (`exec`, `enters`) of Semantics.v. *)
From V Require Import CF.SemDecide.
From Coq Require Import Lia.

Lemma stmts_ind' (P : stmts -> Prop) :
  P SNil -> (forall t r, P r -> P (SCons t r)) -> forall l, P l.
Proof. intros H0 H1. fix F 1. intros [|t r]; [exact H0 | apply H1, F]. Qed.

Lemma memN_In x l : memN x l = true <-> In x l.
Proof.
  induction l as [|y r IH]; cbn [memN In]; [split; [discriminate | tauto]|].
  rewrite orb_true_iff, IH. destruct (N.eqb_spec x y) as [->|Hne]; intuition congruence.
Qed.

Lemma memN_app x a b : memN x (a ++ b) = memN x a || memN x b.
Proof. induction a as [|y r IH]; cbn [memN app]; [reflexivity|]. rewrite IH, orb_assoc. reflexivity. Qed.

Lemma memN_filter x f l : memN x (filter f l) = memN x l && f x.
Proof.
  induction l as [|y r IH]; cbn [memN filter]; [reflexivity|].
  destruct (f y) eqn:Hf; cbn [memN]; rewrite IH.
  - destruct (N.eqb_spec x y) as [->|Hne]; cbn [orb]; [rewrite Hf; destruct (memN y r); reflexivity | reflexivity].
  - destruct (N.eqb_spec x y) as [->|Hne]; cbn [orb]; [rewrite Hf; rewrite !andb_false_r; reflexivity | reflexivity].
Qed.

Lemma existsb_memN ls l : existsb (fun l => memN l ls) l = true <-> exists x, memN x l = true /\ memN x ls = true.
Proof.
  rewrite existsb_exists. split; intros [x [H1 H2]]; exists x.
  - split; [apply memN_In; exact H1 | exact H2].
  - split; [apply memN_In; exact H1 | exact H2].
Qed.

Lemma cin_cunion k a b : cin k (cunion a b) = cin k a || cin k b.
Proof. destruct k as [| [l|] | [l|] | |]; cbn [cin cunion cN cR cT cB0 cC0 cBL cCL]; try reflexivity; apply memN_app. Qed.

Lemma cin_cempty k : cin k cempty = false.
Proof. destruct k as [| [l|] | [l|] | |]; reflexivity. Qed.

Lemma cin_cset_N_false k c : cin k (cset_N false c) = match k with Normal => false | _ => cin k c end.
Proof. destruct k as [| [l|] | [l|] | |]; reflexivity. Qed.

Lemma cin_cset_T_false k c : cin k (cset_T false c) = match k with Thr => false | _ => cin k c end.
Proof. destruct k as [| [l|] | [l|] | |]; reflexivity. Qed.

Lemma cin_n_if k b : cin k (n_if b) = match k with Normal => b | _ => false end.
Proof. destruct k as [| [l|] | [l|] | |]; reflexivity. Qed.

Lemma cin_t_if k b : cin k (t_if b) = match k with Thr => b | _ => false end.
Proof. destruct k as [| [l|] | [l|] | |]; reflexivity. Qed.

Lemma cin_nonempty k c : cin k c = true -> cnonempty c = true.
Proof.
  unfold cnonempty. destruct k as [| [l|] | [l|] | |]; cbn [cin]; intros H; try (rewrite H; rewrite ?orb_true_r; reflexivity).
  - destruct (cBL c); [discriminate|]. cbn [is_nil negb]. rewrite ?orb_true_r. reflexivity.
  - destruct (cCL c); [discriminate|]. cbn [is_nil negb]. rewrite ?orb_true_r. reflexivity.
Qed.

Lemma nonempty_cin c : cnonempty c = true -> exists k, cin k c = true.
Proof.
  unfold cnonempty. rewrite !orb_true_iff. intros [[[[[[H|H]|H]|H]|H]|H]|H].
  - exists Normal; exact H.
  - exists Ret; exact H.
  - exists Thr; exact H.
  - exists (Brk None); exact H.
  - exists (Cont None); exact H.
  - destruct (cBL c) as [|l r] eqn:E; [discriminate|]. exists (Brk (Some l)). cbn [cin]. rewrite E. cbn [memN]. rewrite N.eqb_refl. reflexivity.
  - destruct (cCL c) as [|l r] eqn:E; [discriminate|]. exists (Cont (Some l)). cbn [cin]. rewrite E. cbn [memN]. rewrite N.eqb_refl. reflexivity.
Qed.

(* ------------------------------------------------------------------ *)
(* loops *)
(* the init expression of a `for` may throw, once, before the loop *)
Definition head_throws (s : stmt) : bool := match s with SFor _ i _ _ _ => oe_throws i | _ => false end.

Lemma loop_shape_csem s pre b post ls :
  loop_shape s = Some (pre, b, post) -> csem s ls = cunion (t_if (head_throws s)) (sem_loop pre post ls (csem b [])).
Proof.
  assert (E0 : forall c, cunion (t_if false) c = c) by (intros [n r t b0 c0 bl cl]; reflexivity).
  destruct s; cbn [loop_shape]; try discriminate; intros H; injection H as <- <- <-; cbn [head_throws csem]; rewrite ?E0; reflexivity.
Qed.

Lemma loop_cin_intro s pre b post ls k :
  loop_shape s = Some (pre, b, post) -> cin k (sem_loop pre post ls (csem b [])) = true -> cin k (csem s ls) = true.
Proof. intros H Hk. rewrite (loop_shape_csem _ _ _ _ ls H), cin_cunion, Hk. apply orb_true_r. Qed.

(* positions reachable through a function-like in the head of the loop *)
Definition head_reach (s : stmt) : list N :=
  match s with SForHead _ _ _ _ hb _ => reach_l hb | _ => [] end.

Lemma loop_shape_reach s pre b post :
  loop_shape s = Some (pre, b, post) -> reach s = pos s :: head_reach s ++ (if may_true pre then reach b else []).
Proof.
  destruct s; cbn [loop_shape]; try discriminate; intros H; injection H as <- <- <-; reflexivity.
Qed.

Definition again (ls : list N) (bc : comps) : bool := cN bc || cC0 bc || existsb (fun l => memN l ls) (cCL bc).

Lemma continues_again ls k bc : continues ls k = true -> cin k bc = true -> again ls bc = true.
Proof.
  unfold again. destruct k as [| [l|] | [l|] | |]; cbn [continues cin]; try discriminate; intros Hc Hk.
  - rewrite Hk. reflexivity.
  - replace (existsb (fun l0 => memN l0 ls) (cCL bc)) with true; [rewrite !orb_true_r; reflexivity|].
    symmetry. apply existsb_memN. exists l. split; assumption.
  - rewrite Hk. rewrite orb_true_r. reflexivity.
Qed.

Lemma again_continues ls bc : again ls bc = true -> exists k, continues ls k = true /\ cin k bc = true.
Proof.
  unfold again. rewrite !orb_true_iff. intros [[H|H]|H].
  - exists Normal. split; [reflexivity | exact H].
  - exists (Cont None). split; [reflexivity | exact H].
  - apply existsb_memN in H. destruct H as [x [H1 H2]]. exists (Cont (Some x)). split; [exact H2 | exact H1].
Qed.

Lemma cin_sem_loop k pre post ls bc :
  cin k (sem_loop pre post ls bc) =
  match k with Thr => cond_throws pre | Normal => may_false pre | _ => false end
  || (may_true pre &&
      match k with
      | Normal => cB0 bc || (again ls bc && may_false post)
      | Thr => cT bc || (again ls bc && cond_throws post)
      | Ret => cR bc
      | Brk None | Cont None => false
      | Brk (Some l) => memN l (cBL bc)
      | Cont (Some l) => memN l (cCL bc) && negb (memN l ls)
      end).
Proof.
  unfold sem_loop, again. destruct (may_true pre); rewrite ?cin_cunion, ?cin_t_if, ?cin_n_if;
    destruct k as [| [l|] | [l|] | |]; cbn [cin cN cR cT cB0 cC0 cBL cCL andb orb];
    rewrite ?orb_false_r, ?orb_false_l, ?memN_filter; reflexivity.
Qed.

(* ------------------------------------------------------------------ *)
(* switch *)
Lemma suffix_any cs' cs k :
  case_suffix cs' cs -> cin k (fst (csem_c cs')) = true -> cin k (snd (csem_c cs)) = true.
Proof.
  induction 1 as [cp d ft b r | cs' cp d ft b r Hs IH]; intros Hk.
  - cbn [csem_c fst snd] in *. rewrite cin_cunion, Hk. reflexivity.
  - cbn [csem_c snd]. rewrite cin_cunion, (IH Hk). apply orb_true_r.
Qed.

Lemma any_suffix cs k :
  cin k (snd (csem_c cs)) = true -> exists cs', case_suffix cs' cs /\ cin k (fst (csem_c cs')) = true.
Proof.
  induction cs as [|cp d ft b r IH]; cbn [csem_c snd].
  - rewrite cin_cempty. discriminate.
  - rewrite cin_cunion, orb_true_iff. intros [H|H].
    + exists (CCons cp d ft b r). split; [constructor | exact H].
    + destruct (IH H) as [cs' [Hs Hk]]. exists cs'. split; [constructor; exact Hs | exact Hk].
Qed.

(* ------------------------------------------------------------------ *)
(* exec -> csem *)
Lemma cin_unlabel l k c :
  cin k c = true ->
  cin (unlabel l k) {| cN := cN c || memN l (cBL c); cR := cR c; cT := cT c; cB0 := cB0 c; cC0 := cC0 c;
                       cBL := filter (fun x => negb (N.eqb x l)) (cBL c); cCL := cCL c |} = true.
Proof.
  destruct k as [| [l'|] | [l'|] | |]; cbn [unlabel cin cN cR cT cB0 cC0 cBL cCL]; intros H; try exact H.
  - rewrite H. reflexivity.
  - destruct (N.eqb_spec l' l) as [->|Hne]; cbn [cin cN cBL].
    + rewrite H. apply orb_true_r.
    + rewrite memN_filter, H. cbn [andb]. destruct (N.eqb_spec l' l); [contradiction | reflexivity].
Qed.

Lemma cin_unbreak k ca hd tt :
  cin k ca = true ->
  cin (unbreak k) {| cN := cN ca || cB0 ca || hd; cR := cR ca; cT := cT ca || tt; cB0 := false; cC0 := cC0 ca;
                     cBL := cBL ca; cCL := cCL ca |} = true.
Proof.
  destruct k as [| [l'|] | [l'|] | |]; cbn [unbreak cin cN cR cT cB0 cC0 cBL cCL]; intros H; try exact H.
  - rewrite H. reflexivity.
  - rewrite H. rewrite orb_true_r. reflexivity.
  - rewrite H. reflexivity.
Qed.

Lemma exec_csem :
  (forall ls s k, exec ls s k -> cin k (csem s ls) = true) /\
  (forall l k, exec_l l k -> cin k (csem_l l) = true) /\
  (forall cs k, exec_c cs k -> cin k (fst (csem_c cs)) = true) /\
  (forall f fb k k', exec_fin f fb k k' -> forall tc, cin k tc = true -> cin k' (sem_fin f tc (csem_l fb)) = true).
Proof.
  apply exec_mutind; intros.
  - reflexivity.
  - cbn [csem cin cset_T cT]. assumption.
  - reflexivity.
  - reflexivity.
  - cbn [csem cin cset_T cT]. assumption.
  - reflexivity.
  - reflexivity.
  - reflexivity.
  - reflexivity.
  - cbn [csem cin cT]. assumption.
  - reflexivity.
  - destruct l; cbn [csem cin cB0 cBL memN]; [rewrite N.eqb_refl|]; reflexivity.
  - destruct l; cbn [csem cin cC0 cCL memN]; [rewrite N.eqb_refl|]; reflexivity.
  - cbn [csem]. assumption.
  - (* if thr *) cbn [csem]. rewrite cin_cunion, cin_t_if. rewrite H. reflexivity.
  - cbn [csem]. rewrite !cin_cunion. rewrite H, H1. rewrite orb_true_r. reflexivity.
  - cbn [csem]. rewrite !cin_cunion, cin_n_if. rewrite H. rewrite !orb_true_r. reflexivity.
  - cbn [csem]. rewrite cin_cunion, cin_t_if. rewrite H. reflexivity.
  - cbn [csem]. rewrite !cin_cunion. rewrite H, H1. rewrite orb_true_r. reflexivity.
  - cbn [csem]. rewrite !cin_cunion. rewrite H, H1. rewrite !orb_true_r. reflexivity.
  - (* for: init throws *) cbn [csem]. rewrite cin_cunion, cin_t_if. cbn [oe_throws]. rewrite H. reflexivity.
  - (* loops *) apply (loop_cin_intro _ _ _ _ ls _ H); rewrite cin_sem_loop. rewrite H0. reflexivity.
  - apply (loop_cin_intro _ _ _ _ ls _ H); rewrite cin_sem_loop. rewrite H0. reflexivity.
  - apply (loop_cin_intro _ _ _ _ ls _ H); rewrite cin_sem_loop. rewrite H0. cbn [cin] in H2. rewrite H2. cbn [andb orb]. apply orb_true_r.
  - apply (loop_cin_intro _ _ _ _ ls _ H); rewrite cin_sem_loop. rewrite H0. cbn [andb].
    destruct k as [| [l|] | [l|] | |]; cbn [escapes continues negb] in H3; try discriminate; cbn [cin] in H2.
    + rewrite H2. apply orb_true_r.
    + rewrite H2, H3. apply orb_true_r.
    + rewrite H2. apply orb_true_r.
    + rewrite H2. cbn [orb]. apply orb_true_r.
  - apply (loop_cin_intro _ _ _ _ ls _ H); rewrite cin_sem_loop. rewrite H0.
    rewrite (continues_again _ _ _ H3 H2), H4. cbn [andb]. rewrite !orb_true_r. reflexivity.
  - apply (loop_cin_intro _ _ _ _ ls _ H); rewrite cin_sem_loop. rewrite H0.
    rewrite (continues_again _ _ _ H3 H2), H4. cbn [andb]. rewrite !orb_true_r. reflexivity.
  - assumption.
  - (* switch *) cbn [csem]. apply cin_unbreak. eapply suffix_any; eassumption.
  - cbn [csem cin cN]. rewrite H. apply orb_true_r.
  - cbn [csem cin cT]. rewrite H. apply orb_true_r.
  - (* label *) cbn [csem]. apply cin_unlabel. assumption.
  - (* try *) cbn [csem]. apply H3.
    unfold sem_catch. destruct h as [hp|]; [|assumption].
    destruct H1 as [Hk|Hk]; [|discriminate].
    destruct (cT (csem_l blk)); [|assumption].
    rewrite cin_cunion, cin_cset_T_false. destruct k; try (rewrite H0; reflexivity). congruence.
  - cbn [csem]. apply H4. unfold sem_catch. cbn [cin] in H0. rewrite H0.
    rewrite cin_cunion, H2. apply orb_true_r.
  - (* lists *) reflexivity.
  - cbn [csem_l]. destruct (cN (csem s [])); [|assumption].
    rewrite cin_cunion, cin_cset_N_false. destruct k; try (rewrite H0; reflexivity). congruence.
  - cbn [csem_l]. cbn [cin] in H0. rewrite H0. rewrite cin_cunion, H2. apply orb_true_r.
  - (* cases *) reflexivity.
  - cbn [csem_c fst]. destruct (cN (csem_l b)); [|assumption].
    rewrite cin_cunion, cin_cset_N_false. destruct k; try (rewrite H0; reflexivity). congruence.
  - cbn [csem_c fst]. cbn [cin] in H0. rewrite H0. rewrite cin_cunion, H2. apply orb_true_r.
  - (* fin *) cbn [sem_fin]. assumption.
  - cbn [sem_fin]. rewrite (cin_nonempty _ _ H1). cbn [cin] in H0. rewrite H0.
    rewrite cin_cunion, H1. reflexivity.
  - cbn [sem_fin]. rewrite (cin_nonempty _ _ H2).
    rewrite cin_cunion, cin_cset_N_false. destruct k'; try (rewrite H0; apply orb_true_r). congruence.
Qed.

(* ------------------------------------------------------------------ *)
(* csem -> exec *)
Lemma catch_intro1 k h bc hc : cin k bc = true -> (k <> Thr \/ h = None) -> cin k (sem_catch h bc hc) = true.
Proof.
  intros Hk Hor. unfold sem_catch. destruct h as [hp|]; [|assumption].
  destruct Hor as [Hne|Hn]; [|discriminate].
  destruct (cT bc); [|assumption].
  rewrite cin_cunion, cin_cset_T_false. destruct k; try (rewrite Hk; reflexivity). congruence.
Qed.

Lemma catch_intro2 k hp bc hc : cin Thr bc = true -> cin k hc = true -> cin k (sem_catch (Some hp) bc hc) = true.
Proof.
  intros Ht Hk. unfold sem_catch. cbn [cin] in Ht. rewrite Ht. rewrite cin_cunion, Hk. apply orb_true_r.
Qed.

Lemma catch_inv k h bc hc :
  cin k (sem_catch h bc hc) = true ->
  (cin k bc = true /\ (k <> Thr \/ h = None)) \/ (exists hp, h = Some hp /\ cin Thr bc = true /\ cin k hc = true).
Proof.
  unfold sem_catch. destruct h as [hp|].
  - destruct (cT bc) eqn:Ht.
    + rewrite cin_cunion, cin_cset_T_false, orb_true_iff. intros [H|H].
      * left. destruct k; try (split; [exact H | left; discriminate]). discriminate.
      * right. exists hp. repeat split; assumption.
    + intros H. left. split; [exact H|]. left. intros ->. cbn [cin] in H. congruence.
  - intros H. left. split; [exact H | right; reflexivity].
Qed.

Lemma fin_inv k' f tc fc :
  cin k' (sem_fin f tc fc) = true ->
  (f = None /\ cin k' tc = true) \/
  (exists fp, f = Some fp /\
     ((cin Normal fc = true /\ cin k' tc = true) \/ (cin k' fc = true /\ k' <> Normal /\ exists k, cin k tc = true))).
Proof.
  unfold sem_fin. destruct f as [fp|]; [|intros H; left; split; [reflexivity | exact H]].
  destruct (cnonempty tc) eqn:Hne; [|rewrite cin_cempty; discriminate].
  rewrite cin_cunion, orb_true_iff. intros [H|H]; right; exists fp; (split; [reflexivity|]).
  - left. cbn [cin]. destruct (cN fc); [split; [reflexivity | exact H] | rewrite cin_cempty in H; discriminate].
  - right. rewrite cin_cset_N_false in H. destruct (nonempty_cin _ Hne) as [k Hk].
    destruct k'; try discriminate; (split; [exact H | split; [discriminate | exists k; exact Hk]]).
Qed.

Lemma loop_csem_exec s pre b post ls k :
  loop_shape s = Some (pre, b, post) ->
  (forall k0, cin k0 (csem b []) = true -> exec [] b k0) ->
  cin k (csem s ls) = true -> exec ls s k.
Proof.
  intros Hs IH. rewrite (loop_shape_csem _ _ _ _ ls Hs), cin_cunion, cin_t_if, orb_true_iff. intros [H|H].
  { destruct k; try discriminate. destruct s; cbn [head_throws] in H; try discriminate.
    destruct i as [e|]; [|discriminate]. apply X_for_init_thr. exact H. }
  revert H. rewrite cin_sem_loop, orb_true_iff. intros [H|H].
  - destruct k as [| [l|] | [l|] | |]; try discriminate.
    + eapply X_loop_pre_false; eassumption.
    + eapply X_loop_pre_thr; eassumption.
  - apply andb_true_iff in H. destruct H as [Hpre H].
    destruct k as [| [l|] | [l|] | |]; try discriminate.
    + apply orb_true_iff in H. destruct H as [H|H].
      * eapply X_loop_break; [eassumption | assumption | apply IH; exact H].
      * apply andb_true_iff in H. destruct H as [Ha Hp]. destruct (again_continues _ _ Ha) as [k0 [Hc Hk0]].
        eapply X_loop_post_false; [eassumption | assumption | apply IH; exact Hk0 | assumption | assumption].
    + eapply X_loop_escape; [eassumption | assumption | apply IH; exact H | reflexivity].
    + apply andb_true_iff in H. destruct H as [H Hn].
      eapply X_loop_escape; [eassumption | assumption | apply IH; exact H |]. cbn [escapes continues]. exact Hn.
    + eapply X_loop_escape; [eassumption | assumption | apply IH; exact H | reflexivity].
    + apply orb_true_iff in H. destruct H as [H|H].
      * eapply X_loop_escape; [eassumption | assumption | apply IH; exact H | reflexivity].
      * apply andb_true_iff in H. destruct H as [Ha Hp]. destruct (again_continues _ _ Ha) as [k0 [Hc Hk0]].
        eapply X_loop_post_thr; [eassumption | assumption | apply IH; exact Hk0 | assumption | assumption].
Qed.

Lemma case_suffix_inv cs' cp d ft b r :
  case_suffix cs' (CCons cp d ft b r) -> cs' = CCons cp d ft b r \/ case_suffix cs' r.
Proof. intros H. inversion H; subst; [left; reflexivity | right; assumption]. Qed.

Definition csem_exec_cases (cs : cases) : Prop :=
  (forall k, cin k (fst (csem_c cs)) = true -> exec_c cs k) /\
  (forall cs' k, case_suffix cs' cs -> cin k (fst (csem_c cs')) = true -> exec_c cs' k).

Lemma try_csem_exec ls p bp blk h hb f fb k' :
  (forall k, cin k (csem_l blk) = true -> exec_l blk k) ->
  (forall k, cin k (csem_l hb) = true -> exec_l hb k) ->
  (forall k, cin k (csem_l fb) = true -> exec_l fb k) ->
  cin k' (csem (STry p bp blk h hb f fb) ls) = true -> exec ls (STry p bp blk h hb f fb) k'.
Proof.
  intros IHb IHh IHf. cbn [csem]. intros H.
  assert (Hfin : forall k, cin k (sem_catch h (csem_l blk) (csem_l hb)) = true ->
                           forall k2, exec_fin f fb k k2 -> exec ls (STry p bp blk h hb f fb) k2).
  { intros k Hk k2 Hf. apply catch_inv in Hk. destruct Hk as [[Hk Hor] | [hp [-> [Ht Hk]]]].
    - eapply X_try; [apply IHb; exact Hk | exact Hor | exact Hf].
    - eapply X_try_catch; [apply IHb; exact Ht | apply IHh; exact Hk | exact Hf]. }
  apply fin_inv in H. destruct H as [[-> Hk] | [fp [-> [[Hn Hk] | [Hk [Hne [k Hk0]]]]]]].
  - eapply Hfin; [exact Hk | constructor].
  - eapply Hfin; [exact Hk | apply XF_normal; apply IHf; exact Hn].
  - eapply Hfin; [exact Hk0 | apply XF_override; [apply IHf; exact Hk | exact Hne]].
Qed.

Lemma csem_exec :
  (forall s ls k, cin k (csem s ls) = true -> exec ls s k) /\
  (forall l k, cin k (csem_l l) = true -> exec_l l k) /\
  (forall cs, csem_exec_cases cs).
Proof.
  apply stmt_mutind.
  - intros p e ls k H. destruct k as [| [l|] | [l|] | |]; try discriminate; constructor; exact H.
  - intros p ls k H. destruct k as [| [l|] | [l|] | |]; try discriminate; constructor.
  - intros p v i ls k H. destruct k as [| [l|] | [l|] | |]; try discriminate; constructor; exact H.
  - intros p n pb b IHb ls k H. destruct k as [| [l|] | [l|] | |]; try discriminate; constructor.
  - intros p pb b IHb ls k H. destruct k as [| [l|] | [l|] | |]; try discriminate; constructor.
  - intros p gp pb b IHb ls k H. destruct k as [| [l|] | [l|] | |]; try discriminate; constructor.
  - intros p a ls k H. destruct k as [| [l|] | [l|] | |]; try discriminate; constructor; exact H.
  - intros p e ls k H. destruct k as [| [l|] | [l|] | |]; try discriminate; constructor.
  - intros p l ls k H. destruct l as [l|]; destruct k as [| [l'|] | [l'|] | |]; try discriminate.
    + cbn [csem cin cBL memN] in H. rewrite orb_false_r in H. apply N.eqb_eq in H. subst l'. constructor.
    + constructor.
  - intros p l ls k H. destruct l as [l|]; destruct k as [| [l'|] | [l'|] | |]; try discriminate.
    + cbn [csem cin cCL memN] in H. rewrite orb_false_r in H. apply N.eqb_eq in H. subst l'. constructor.
    + constructor.
  - intros p b IHb ls k H. constructor. apply IHb. exact H.
  - (* if *) intros p c a IHa ls k H. cbn [csem] in H. rewrite !cin_cunion, cin_t_if, cin_n_if, !orb_true_iff in H.
    destruct H as [H | [H | H]].
    + destruct k; try discriminate. apply X_if_thr. exact H.
    + destruct (may_true c) eqn:Hc; [|rewrite cin_cempty in H; discriminate]. apply X_if_then; [exact Hc | apply IHa; exact H].
    + destruct k; try discriminate. apply X_if_skip. exact H.
  - intros p c a IHa b IHb ls k H. cbn [csem] in H. rewrite !cin_cunion, cin_t_if, !orb_true_iff in H.
    destruct H as [H | [H | H]].
    + destruct k; try discriminate. apply X_ifelse_thr. exact H.
    + destruct (may_true c) eqn:Hc; [|rewrite cin_cempty in H; discriminate]. apply X_ifelse_then; [exact Hc | apply IHa; exact H].
    + destruct (may_false c) eqn:Hc; [|rewrite cin_cempty in H; discriminate]. apply X_ifelse_else; [exact Hc | apply IHb; exact H].
  - (* loops *) intros p c b IHb ls k H. eapply loop_csem_exec; [reflexivity | apply IHb | exact H].
  - intros p b IHb c ls k H. eapply loop_csem_exec; [reflexivity | apply IHb | exact H].
  - intros p i c u b IHb ls k H. eapply loop_csem_exec; [reflexivity | apply IHb | exact H].
  - intros p b IHb ls k H. eapply loop_csem_exec; [reflexivity | apply IHb | exact H].
  - intros p b IHb ls k H. eapply loop_csem_exec; [reflexivity | apply IHb | exact H].
  - intros p g fp pb hb IHh b IHb ls k H. eapply loop_csem_exec; [reflexivity | apply IHb | exact H].
  - (* switch *) intros p cs [IH1 IH2] ls k H. cbn [csem] in H.
    destruct k as [| [l|] | [l|] | |]; cbn [cin cN cR cT cB0 cC0 cBL cCL] in H; try discriminate.
    + rewrite !orb_true_iff in H. destruct H as [[H|H]|H].
      * destruct (any_suffix cs Normal H) as [cs' [Hs Hk]]. apply (X_switch ls p cs cs' Normal Hs). apply (IH2 _ _ Hs Hk).
      * destruct (any_suffix cs (Brk None) H) as [cs' [Hs Hk]]. apply (X_switch ls p cs cs' (Brk None) Hs). apply (IH2 _ _ Hs Hk).
      * apply X_switch_nomatch. destruct (has_default cs); [discriminate | reflexivity].
    + destruct (any_suffix cs (Brk (Some l)) H) as [cs' [Hs Hk]]. apply (X_switch ls p cs cs' (Brk (Some l)) Hs). apply (IH2 _ _ Hs Hk).
    + destruct (any_suffix cs (Cont (Some l)) H) as [cs' [Hs Hk]]. apply (X_switch ls p cs cs' (Cont (Some l)) Hs). apply (IH2 _ _ Hs Hk).
    + destruct (any_suffix cs (Cont None) H) as [cs' [Hs Hk]]. apply (X_switch ls p cs cs' (Cont None) Hs). apply (IH2 _ _ Hs Hk).
    + destruct (any_suffix cs Ret H) as [cs' [Hs Hk]]. apply (X_switch ls p cs cs' Ret Hs). apply (IH2 _ _ Hs Hk).
    + apply orb_true_iff in H. destruct H as [H|H]; [|apply X_switch_test_thr; exact H].
      destruct (any_suffix cs Thr H) as [cs' [Hs Hk]]. apply (X_switch ls p cs cs' Thr Hs). apply (IH2 _ _ Hs Hk).
  - (* label *) intros p l b IHb ls k H. cbn [csem] in H.
    destruct k as [| [l'|] | [l'|] | |]; cbn [cin cN cR cT cB0 cC0 cBL cCL] in H.
    + apply orb_true_iff in H. destruct H as [H|H].
      * apply (X_label ls p l b Normal). apply IHb. exact H.
      * replace Normal with (unlabel l (Brk (Some l))) by (cbn [unlabel]; rewrite N.eqb_refl; reflexivity).
        apply X_label. apply IHb. exact H.
    + rewrite memN_filter in H. apply andb_true_iff in H. destruct H as [H Hne].
      replace (Brk (Some l')) with (unlabel l (Brk (Some l'))) by (cbn [unlabel]; destruct (N.eqb l' l); [discriminate | reflexivity]).
      apply X_label. apply IHb. exact H.
    + apply (X_label ls p l b (Brk None)). apply IHb. exact H.
    + apply (X_label ls p l b (Cont (Some l'))). apply IHb. exact H.
    + apply (X_label ls p l b (Cont None)). apply IHb. exact H.
    + apply (X_label ls p l b Ret). apply IHb. exact H.
    + apply (X_label ls p l b Thr). apply IHb. exact H.
  - (* try *) intros p bp blk IHb h hb IHh f fb IHf ls k H. apply try_csem_exec; assumption.
  - (* lists *) intros k H. destruct k as [| [l|] | [l|] | |]; try discriminate. constructor.
  - intros s IHs r IHr k H. cbn [csem_l] in H. destruct (cN (csem s [])) eqn:Hn.
    + rewrite cin_cunion, cin_cset_N_false, orb_true_iff in H. destruct H as [H|H].
      * apply XL_stop; [apply IHs; destruct k; try exact H; discriminate | destruct k; try discriminate; congruence].
      * apply XL_next; [apply IHs; exact Hn | apply IHr; exact H].
    + apply XL_stop; [apply IHs; exact H | intros ->; cbn [cin] in H; congruence].
  - (* cases *) split.
    + intros k H. destruct k as [| [l|] | [l|] | |]; try discriminate. constructor.
    + intros cs' k Hs. inversion Hs.
  - intros cp d ft b IHb r [IH1 IH2].
    assert (Hhead : forall k, cin k (fst (csem_c (CCons cp d ft b r))) = true -> exec_c (CCons cp d ft b r) k).
    { intros k H. cbn [csem_c fst] in H. destruct (cN (csem_l b)) eqn:Hn.
      - rewrite cin_cunion, cin_cset_N_false, orb_true_iff in H. destruct H as [H|H].
        + apply XC_stop; [apply IHb; destruct k; try exact H; discriminate | destruct k; try discriminate; congruence].
        + apply XC_fall; [apply IHb; exact Hn | apply IH1; exact H].
      - apply XC_stop; [apply IHb; exact H | intros ->; cbn [cin] in H; congruence]. }
    split; [exact Hhead|].
    intros cs' k Hs Hk. apply case_suffix_inv in Hs. destruct Hs as [-> | Hs].
    + apply Hhead. exact Hk.
    + apply (IH2 _ _ Hs Hk).
Qed.

Theorem exec_iff_csem ls s k : exec ls s k <-> cin k (csem s ls) = true.
Proof. split; [apply exec_csem | apply csem_exec]. Qed.

Theorem exec_l_iff_csem l k : exec_l l k <-> cin k (csem_l l) = true.
Proof. split; [apply exec_csem | apply csem_exec]. Qed.

(* ------------------------------------------------------------------ *)
(* enters <-> reach *)
Lemma hoist_in_reach l : forall pi, In pi (hoist_l l) -> In pi (reach_l l).
Proof.
  induction l as [|t r IH] using stmts_ind'; intros pi H; [exact H|]. cbn [hoist_l reach_l] in *.
  apply in_app_or in H. apply in_or_app. destruct H as [H | H].
  - left. destruct t; try (destruct H). right. exact H.
  - right. destruct (cN (csem t [])); [apply IH; exact H | exact H].
Qed.

Lemma fn_in_hoist l p n pb b : In (SFnDecl p n pb b) (stmts_to_list l) -> forall pi, In pi (reach_l b) -> In pi (hoist_l l).
Proof.
  induction l as [|t r IH] using stmts_ind'; intros H pi Hpi; [destruct H|]. cbn [stmts_to_list hoist_l] in *.
  apply in_or_app. destruct H as [-> | H]; [left; exact Hpi | right; apply IH; assumption].
Qed.

Lemma enters_reach :
  (forall s pi, enters s pi -> In pi (reach s)) /\
  (forall l pi, enters_l l pi -> In pi (reach_l l)) /\
  (forall cs pi, enters_c cs pi -> In pi (reach_c cs)).
Proof.
  apply enters_mutind.
  - intros s. destruct s; left; reflexivity.
  - intros p n pb b pi _ IH. right. exact IH.
  - intros p pb b pi _ IH. right. exact IH.
  - intros p gp pb b pi _ IH. right. exact IH.
  - intros p g fp pb hb b pi _ IH. right. apply in_or_app. left. exact IH.
  - intros p b pi _ IH. right. exact IH.
  - intros p c a pi Hc _ IH. right. rewrite Hc. exact IH.
  - intros p c a b pi Hc _ IH. right. apply in_or_app. left. rewrite Hc. exact IH.
  - intros p c a b pi Hc _ IH. right. apply in_or_app. right. rewrite Hc. exact IH.
  - intros s pre b post pi Hs Hpre _ IH. rewrite (loop_shape_reach _ _ _ _ Hs). right. apply in_or_app. right. rewrite Hpre. exact IH.
  - intros p cs pi _ IH. right. exact IH.
  - intros p l b pi _ IH. right. exact IH.
  - intros p bp blk h hb f fb pi _ IH. right. apply in_or_app. left. exact IH.
  - intros p bp blk hp hb f fb pi Hx _ IH. right. apply in_or_app. right. apply in_or_app. left.
    apply exec_l_iff_csem in Hx. cbn [cin] in Hx. rewrite Hx. exact IH.
  - intros p bp blk h hb fp fb k pi Hx Hor _ IH. right. apply in_or_app. right. apply in_or_app. right.
    apply exec_l_iff_csem in Hx.
    rewrite (cin_nonempty k _ (catch_intro1 k h _ (csem_l hb) Hx Hor)). exact IH.
  - intros p bp blk hp hb fp fb k pi Hx Hh _ IH. right. apply in_or_app. right. apply in_or_app. right.
    apply exec_l_iff_csem in Hx. apply exec_l_iff_csem in Hh.
    rewrite (cin_nonempty k _ (catch_intro2 k hp _ _ Hx Hh)). exact IH.
  - intros s r pi _ IH. cbn [reach_l]. apply in_or_app. left. exact IH.
  - intros s r pi Hx _ IH. cbn [reach_l]. apply in_or_app. right.
    apply exec_iff_csem in Hx. cbn [cin] in Hx. rewrite Hx. exact IH.
  - intros l p n pb b pi Hin _ IH. apply hoist_in_reach. eapply fn_in_hoist; eassumption.
  - intros cp d ft b r pi _ IH. cbn [reach_c]. apply in_or_app. left. exact IH.
  - intros cp d ft b r pi _ IH. cbn [reach_c]. apply in_or_app. right. exact IH.
Qed.

Lemma loop_reach_enters s pre b post pi :
  loop_shape s = Some (pre, b, post) ->
  (forall pi, In pi (head_reach s) -> enters s pi) ->
  (forall pi, In pi (reach b) -> enters b pi) ->
  In pi (reach s) -> enters s pi.
Proof.
  intros Hs IHh IH. rewrite (loop_shape_reach _ _ _ _ Hs). intros [<- | H]; [apply N_self|].
  apply in_app_or in H. destruct H as [H | H]; [apply IHh; exact H|].
  destruct (may_true pre) eqn:Hpre; [|destruct H].
  eapply N_loop; [exact Hs | exact Hpre | apply IH; exact H].
Qed.

(* the invariant of the converse direction; for a list also: a position in `hoist_l` lies in the body of one of the
   function declarations of the list *)
Definition RE_s (s : stmt) : Prop :=
  (forall pi, In pi (reach s) -> enters s pi) /\
  match s with SFnDecl _ _ _ b => forall pi, In pi (reach_l b) -> enters_l b pi | _ => True end.
Definition RE_l (l : stmts) : Prop :=
  (forall pi, In pi (reach_l l) -> enters_l l pi) /\
  (forall pi, In pi (hoist_l l) -> exists p n pb b, In (SFnDecl p n pb b) (stmts_to_list l) /\ enters_l b pi).
Definition RE_c (cs : cases) : Prop := forall pi, In pi (reach_c cs) -> enters_c cs pi.

Lemma reach_enters_inv : (forall s, RE_s s) /\ (forall l, RE_l l) /\ (forall cs, RE_c cs).
Proof.
  apply stmt_mutind.
  - intros p e. split; [|exact I]. intros pi [<- | []]. apply (N_self (SExpr p e)).
  - intros p. split; [|exact I]. intros pi [<- | []]. apply (N_self (SEmpty p)).
  - intros p v i. split; [|exact I]. intros pi [<- | []]. apply (N_self (SVar p v i)).
  - intros p n pb b [IHb _]. split; [|exact IHb].
    intros pi [<- | H]; [apply (N_self (SFnDecl p n pb b)) | apply N_fndecl; apply IHb; exact H].
  - intros p pb b [IHb _]. split; [|exact I]. intros pi [<- | H]; [apply (N_self (SArrowStmt p pb b)) | apply N_arrow; apply IHb; exact H].
  - intros p gp pb b [IHb _]. split; [|exact I]. intros pi [<- | H]; [apply (N_self (SGetterStmt p gp pb b)) | apply N_getter; apply IHb; exact H].
  - intros p a. split; [|exact I]. intros pi [<- | []]. apply (N_self (SRet p a)).
  - intros p e. split; [|exact I]. intros pi [<- | []]. apply (N_self (SThrow p e)).
  - intros p l. split; [|exact I]. intros pi [<- | []]. apply (N_self (SBrk p l)).
  - intros p l. split; [|exact I]. intros pi [<- | []]. apply (N_self (SCont p l)).
  - intros p b [IHb _]. split; [|exact I]. intros pi [<- | H]; [apply (N_self (SBlock p b)) | apply N_block; apply IHb; exact H].
  - intros p c a [IHa _]. split; [|exact I]. intros pi [<- | H]; [apply (N_self (SIf p c a))|].
    destruct (may_true c) eqn:Hc; [|destruct H]. apply N_if; [exact Hc | apply IHa; exact H].
  - intros p c a [IHa _] b [IHb _]. split; [|exact I]. intros pi [<- | H]; [apply (N_self (SIfElse p c a b))|].
    apply in_app_or in H. destruct H as [H|H].
    + destruct (may_true c) eqn:Hc; [|destruct H]. apply N_ifelse_then; [exact Hc | apply IHa; exact H].
    + destruct (may_false c) eqn:Hc; [|destruct H]. apply N_ifelse_else; [exact Hc | apply IHb; exact H].
  - intros p c b [IHb _]. split; [|exact I]. intros pi H. eapply loop_reach_enters; [reflexivity | intros pi' [] | exact IHb | exact H].
  - intros p b [IHb _] c. split; [|exact I]. intros pi H. eapply loop_reach_enters; [reflexivity | intros pi' [] | exact IHb | exact H].
  - intros p i c u b [IHb _]. split; [|exact I]. intros pi H. eapply loop_reach_enters; [reflexivity | intros pi' [] | exact IHb | exact H].
  - intros p b [IHb _]. split; [|exact I]. intros pi H. eapply loop_reach_enters; [reflexivity | intros pi' [] | exact IHb | exact H].
  - intros p b [IHb _]. split; [|exact I]. intros pi H. eapply loop_reach_enters; [reflexivity | intros pi' [] | exact IHb | exact H].
  - intros p g fp pb hb [IHh _] b [IHb _]. split; [|exact I]. intros pi H.
    eapply loop_reach_enters; [reflexivity | intros pi' H'; apply N_forhead; apply IHh; exact H' | exact IHb | exact H].
  - intros p cs IH. split; [|exact I]. intros pi [<- | H]; [apply (N_self (SSwitch p cs)) | apply N_switch; apply IH; exact H].
  - intros p l b [IHb _]. split; [|exact I]. intros pi [<- | H]; [apply (N_self (SLabel p l b)) | apply N_label; apply IHb; exact H].
  - intros p bp blk [IHb _] h hb [IHh _] f fb [IHf _]. split; [|exact I]. intros pi [<- | H]; [apply (N_self (STry p bp blk h hb f fb))|].
    apply in_app_or in H. destruct H as [H|H]; [apply N_try_block; apply IHb; exact H|].
    apply in_app_or in H. destruct H as [H|H].
    + destruct h as [hp|]; [|destruct H]. destruct (cT (csem_l blk)) eqn:Ht; [|destruct H].
      apply N_try_catch; [apply exec_l_iff_csem; exact Ht | apply IHh; exact H].
    + destruct f as [fp|]; [|destruct H].
      destruct (cnonempty (sem_catch h (csem_l blk) (csem_l hb))) eqn:Hne; [|destruct H].
      destruct (nonempty_cin _ Hne) as [k Hk]. apply catch_inv in Hk.
      destruct Hk as [[Hk Hor] | [hp [-> [Ht Hk]]]].
      * eapply N_try_finally; [apply exec_l_iff_csem; exact Hk | exact Hor | apply IHf; exact H].
      * eapply N_try_catch_finally; [apply exec_l_iff_csem; exact Ht | apply exec_l_iff_csem; exact Hk | apply IHf; exact H].
  - split; [intros pi [] | intros pi []].
  - intros s [IHs IHs'] r [IHr IHr'].
    assert (Hh : forall pi, In pi (hoist_l (SCons s r)) ->
                 exists p n pb b, In (SFnDecl p n pb b) (stmts_to_list (SCons s r)) /\ enters_l b pi).
    { intros pi H. cbn [hoist_l] in H. apply in_app_or in H. destruct H as [H | H].
      - destruct s; try (destruct H).
        match goal with |- exists _ _ _ _, In _ (stmts_to_list (SCons (SFnDecl ?p0 ?n0 ?pb0 ?b0) _)) /\ _ => exists p0, n0, pb0, b0 end.
        split; [left; reflexivity | apply IHs'; exact H].
      - destruct (IHr' pi H) as [p [n [pb [b [Hin He]]]]]. exists p, n, pb, b. split; [right; exact Hin | exact He]. }
    split; [|exact Hh].
    intros pi H. cbn [reach_l] in H. apply in_app_or in H. destruct H as [H|H].
    + apply NL_here. apply IHs. exact H.
    + destruct (cN (csem s [])) eqn:Hn.
      * apply NL_next; [apply exec_iff_csem; exact Hn | apply IHr; exact H].
      * destruct (IHr' pi H) as [p [n [pb [b [Hin He]]]]]. eapply NL_hoist; [right; exact Hin | exact He].
  - intros pi [].
  - intros cp d ft b [IHb _] r IHr pi H. cbn [reach_c] in H. apply in_app_or in H. destruct H as [H|H].
    + apply NC_here. apply IHb. exact H.
    + apply NC_later. apply IHr. exact H.
Qed.

Lemma reach_enters :
  (forall s pi, In pi (reach s) -> enters s pi) /\
  (forall l pi, In pi (reach_l l) -> enters_l l pi) /\
  (forall cs pi, In pi (reach_c cs) -> enters_c cs pi).
Proof.
  destruct reach_enters_inv as [HS [HL HC]]. split; [intros s; apply HS | split; [intros l; apply HL | exact HC]].
Qed.

Theorem enters_iff_reach s pi : enters s pi <-> In pi (reach s).
Proof. split; [apply enters_reach | apply reach_enters]. Qed.

Theorem enters_l_iff_reach l pi : enters_l l pi <-> In pi (reach_l l).
Proof. split; [apply enters_reach | apply reach_enters]. Qed.

Theorem prog_enters_iff p pi : prog_enters p pi <-> memN pi (prog_reach p) = true.
Proof. unfold prog_enters, prog_reach. rewrite memN_In. apply enters_l_iff_reach. Qed.

Theorem prog_falls_off_iff p : prog_falls_off_end p <-> prog_can_fall_off p = true.
Proof. unfold prog_falls_off_end, prog_can_fall_off. apply (exec_l_iff_csem (p_body p) Normal). Qed.

Print Assumptions exec_iff_csem.
Print Assumptions prog_enters_iff.
Print Assumptions prog_falls_off_iff.
