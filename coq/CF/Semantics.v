(* C10/C11 - THE SPECIFICATION: a big-step "may" semantics of the statement language.

   `exec ls s k` : some execution of statement `s` (whose directly enclosing labels
                   are `ls`) terminates with completion `k`.  Divergence = no completion.
   `enters s pi` : some execution of `s`, started at its entry, reaches the entry of
                   the sub-statement that sits at position `pi`.

   Abstraction (everything the analyzer cannot know may go either way):
     - an opaque condition may be true or false; `true`/`false` constants are constant;
     - only calls and `throw` can throw; identifiers and literals are pure;
     - `for-in/of` may iterate any number of times (also zero);
     - a `switch` may jump to any of its cases (to `default` when nothing matches),
       and past all of them when it has no `default`; evaluating a case test that is a call may throw;
     - function declarations are HOISTED: a function declared anywhere directly in a statement list (a function
       body, a block, the consequent of a switch case) can be called as soon as that list is entered - also when
       the declaration stands after a `return` / `throw` / `break`, so that the declaration statement itself is
       never reached (rule NL_hoist);
     - a nested function may be called by anyone, so its body may be entered, and
       evaluating a function declaration / arrow expression / object literal with a getter
       completes normally; the same holds for a function-like in the head of a for-in/of
       (a default value of the binding pattern), once the loop statement is reached.
   Executions carry no state, so every loop iteration has the same possible outcomes. *)
From V Require Export CF.Syntax.

Inductive completion := Normal | Brk (l : option N) | Cont (l : option N) | Ret | Thr.

Definition oe_throws (o : option expr) : bool := match o with Some e => e_throws e | None => false end.
Definition may_true (c : cond) : bool := match c with CFalse | CSeq _ false => false | _ => true end.
Definition may_false (c : cond) : bool := match c with CTrue | CSeq _ true | CUnkTrue => false | _ => true end.
Definition cond_throws (c : cond) : bool := match c with COpaque e | CSeq e _ => e_throws e | _ => false end.

(* `for (i; c; u) b`: the test (none = true); the update is evaluated after the body (also after `continue`) and may
   throw, then the loop goes on: as a post-condition it is `(u, true)` *)
Definition for_pre (c : option cond) : cond := match c with Some c => c | None => CTrue end.
Definition upd_post (u : option expr) : cond := match u with Some e => CSeq e true | None => CTrue end.

(* Every loop is `loop { if (!pre) break; body; if (!post) break; }` *)
Definition opaque := COpaque (EIdent 0).
Definition loop_shape (s : stmt) : option (cond * stmt * cond) :=
  match s with
  | SWhile _ c b => Some (c, b, CTrue)
  | SDoWhile _ b c => Some (CTrue, b, c)
  | SFor _ _ c u b => Some (for_pre c, b, upd_post u)
  | SForIn _ b | SForOf _ b | SForHead _ _ _ _ _ b => Some (opaque, b, CTrue)
  | _ => None
  end.

(* completions of a loop body after which the loop goes on; `ls` = labels of the loop *)
Definition continues (ls : list N) (k : completion) : bool :=
  match k with
  | Normal | Cont None => true
  | Cont (Some l) => memN l ls
  | _ => false
  end.
(* ... and those that leave the loop unchanged (`Brk None` leaves it as Normal) *)
Definition escapes (ls : list N) (k : completion) : bool :=
  match k with Brk None => false | _ => negb (continues ls k) end.

Definition unbreak (k : completion) : completion := match k with Brk None => Normal | _ => k end.
Definition unlabel (l : N) (k : completion) : completion :=
  match k with Brk (Some l') => if N.eqb l' l then Normal else k | _ => k end.

Inductive case_suffix : cases -> cases -> Prop :=
| CS_here cp d ft b r : case_suffix (CCons cp d ft b r) (CCons cp d ft b r)
| CS_later cs cp d ft b r : case_suffix cs r -> case_suffix cs (CCons cp d ft b r).

Inductive exec : list N -> stmt -> completion -> Prop :=
| X_expr ls p e : exec ls (SExpr p e) Normal
| X_expr_thr ls p e : e_throws e = true -> exec ls (SExpr p e) Thr
| X_empty ls p : exec ls (SEmpty p) Normal
| X_var ls p v i : exec ls (SVar p v i) Normal
| X_var_thr ls p v i : oe_throws i = true -> exec ls (SVar p v i) Thr
| X_fndecl ls p n pb b : exec ls (SFnDecl p n pb b) Normal
| X_arrow ls p pb b : exec ls (SArrowStmt p pb b) Normal
| X_getter ls p gp pb b : exec ls (SGetterStmt p gp pb b) Normal
| X_ret ls p a : exec ls (SRet p a) Ret
| X_ret_thr ls p a : oe_throws a = true -> exec ls (SRet p a) Thr
| X_throw ls p e : exec ls (SThrow p e) Thr
| X_brk ls p l : exec ls (SBrk p l) (Brk l)
| X_cont ls p l : exec ls (SCont p l) (Cont l)
| X_block ls p b k : exec_l b k -> exec ls (SBlock p b) k
(* if *)
| X_if_thr ls p c a : cond_throws c = true -> exec ls (SIf p c a) Thr
| X_if_then ls p c a k : may_true c = true -> exec [] a k -> exec ls (SIf p c a) k
| X_if_skip ls p c a : may_false c = true -> exec ls (SIf p c a) Normal
| X_ifelse_thr ls p c a b : cond_throws c = true -> exec ls (SIfElse p c a b) Thr
| X_ifelse_then ls p c a b k : may_true c = true -> exec [] a k -> exec ls (SIfElse p c a b) k
| X_ifelse_else ls p c a b k : may_false c = true -> exec [] b k -> exec ls (SIfElse p c a b) k
(* the init expression of a `for`, evaluated once before the loop *)
| X_for_init_thr ls p e c u b : e_throws e = true -> exec ls (SFor p (Some e) c u b) Thr
(* loops: s = loop { pre; b; post } *)
| X_loop_pre_thr ls s pre b post : loop_shape s = Some (pre, b, post) ->
    cond_throws pre = true -> exec ls s Thr
| X_loop_pre_false ls s pre b post : loop_shape s = Some (pre, b, post) ->
    may_false pre = true -> exec ls s Normal
| X_loop_break ls s pre b post : loop_shape s = Some (pre, b, post) ->
    may_true pre = true -> exec [] b (Brk None) -> exec ls s Normal
| X_loop_escape ls s pre b post k : loop_shape s = Some (pre, b, post) ->
    may_true pre = true -> exec [] b k -> escapes ls k = true -> exec ls s k
| X_loop_post_thr ls s pre b post k : loop_shape s = Some (pre, b, post) ->
    may_true pre = true -> exec [] b k -> continues ls k = true -> cond_throws post = true -> exec ls s Thr
| X_loop_post_false ls s pre b post k : loop_shape s = Some (pre, b, post) ->
    may_true pre = true -> exec [] b k -> continues ls k = true -> may_false post = true -> exec ls s Normal
| X_loop_again ls s pre b post k k' : loop_shape s = Some (pre, b, post) ->
    may_true pre = true -> exec [] b k -> continues ls k = true -> may_true post = true ->
    exec ls s k' -> exec ls s k'
(* switch *)
| X_switch ls p cs cs' k : case_suffix cs' cs -> exec_c cs' k -> exec ls (SSwitch p cs) (unbreak k)
| X_switch_nomatch ls p cs : has_default cs = false -> exec ls (SSwitch p cs) Normal
| X_switch_test_thr ls p cs : tests_throw cs = true -> exec ls (SSwitch p cs) Thr
(* label *)
| X_label ls p l b k : exec (l :: ls) b k -> exec ls (SLabel p l b) (unlabel l k)
(* try: block, then handler if the block threw and there is one, then finalizer *)
| X_try ls p bp blk h hb f fb k k' : exec_l blk k -> (k <> Thr \/ h = None) ->
    exec_fin f fb k k' -> exec ls (STry p bp blk h hb f fb) k'
| X_try_catch ls p bp blk hp hb f fb k k' : exec_l blk Thr -> exec_l hb k ->
    exec_fin f fb k k' -> exec ls (STry p bp blk (Some hp) hb f fb) k'

with exec_l : stmts -> completion -> Prop :=
| XL_nil : exec_l SNil Normal
| XL_stop s r k : exec [] s k -> k <> Normal -> exec_l (SCons s r) k
| XL_next s r k : exec [] s Normal -> exec_l r k -> exec_l (SCons s r) k

(* a switch entered at its first case, falling through *)
with exec_c : cases -> completion -> Prop :=
| XC_nil : exec_c CNil Normal
| XC_stop cp d ft b r k : exec_l b k -> k <> Normal -> exec_c (CCons cp d ft b r) k
| XC_fall cp d ft b r k : exec_l b Normal -> exec_c r k -> exec_c (CCons cp d ft b r) k

(* `exec_fin f fb k k'`: completion k' of try/catch with finalizer (f, fb) when block+handler gave k *)
with exec_fin : option N -> stmts -> completion -> completion -> Prop :=
| XF_none fb k : exec_fin None fb k k
| XF_normal fp fb k : exec_l fb Normal -> exec_fin (Some fp) fb k k
| XF_override fp fb k k' : exec_l fb k' -> k' <> Normal -> exec_fin (Some fp) fb k k'.

Scheme exec_mind := Minimality for exec Sort Prop
  with exec_l_mind := Minimality for exec_l Sort Prop
  with exec_c_mind := Minimality for exec_c Sort Prop
  with exec_fin_mind := Minimality for exec_fin Sort Prop.
Combined Scheme exec_mutind from exec_mind, exec_l_mind, exec_c_mind, exec_fin_mind.

Inductive enters : stmt -> N -> Prop :=
| N_self s : enters s (pos s)
| N_fndecl p n pb b pi : enters_l b pi -> enters (SFnDecl p n pb b) pi
| N_arrow p pb b pi : enters_l b pi -> enters (SArrowStmt p pb b) pi
| N_getter p gp pb b pi : enters_l b pi -> enters (SGetterStmt p gp pb b) pi
| N_forhead p g fp pb hb b pi : enters_l hb pi -> enters (SForHead p g fp pb hb b) pi
| N_block p b pi : enters_l b pi -> enters (SBlock p b) pi
| N_if p c a pi : may_true c = true -> enters a pi -> enters (SIf p c a) pi
| N_ifelse_then p c a b pi : may_true c = true -> enters a pi -> enters (SIfElse p c a b) pi
| N_ifelse_else p c a b pi : may_false c = true -> enters b pi -> enters (SIfElse p c a b) pi
| N_loop s pre b post pi : loop_shape s = Some (pre, b, post) -> may_true pre = true ->
    enters b pi -> enters s pi
| N_switch p cs pi : enters_c cs pi -> enters (SSwitch p cs) pi
| N_label p l b pi : enters b pi -> enters (SLabel p l b) pi
| N_try_block p bp blk h hb f fb pi : enters_l blk pi -> enters (STry p bp blk h hb f fb) pi
| N_try_catch p bp blk hp hb f fb pi : exec_l blk Thr -> enters_l hb pi ->
    enters (STry p bp blk (Some hp) hb f fb) pi
| N_try_finally p bp blk h hb fp fb k pi : exec_l blk k -> (k <> Thr \/ h = None) ->
    enters_l fb pi -> enters (STry p bp blk h hb (Some fp) fb) pi
| N_try_catch_finally p bp blk hp hb fp fb k pi : exec_l blk Thr -> exec_l hb k ->
    enters_l fb pi -> enters (STry p bp blk (Some hp) hb (Some fp) fb) pi

with enters_l : stmts -> N -> Prop :=
| NL_here s r pi : enters s pi -> enters_l (SCons s r) pi
| NL_next s r pi : exec [] s Normal -> enters_l r pi -> enters_l (SCons s r) pi
(* hoisting: `l` is entered, `function g(){b}` is one of its statements (anywhere), somebody calls g *)
| NL_hoist l p n pb b pi : In (SFnDecl p n pb b) (stmts_to_list l) -> enters_l b pi -> enters_l l pi

(* every case of an entered switch can be jumped to *)
with enters_c : cases -> N -> Prop :=
| NC_here cp d ft b r pi : enters_l b pi -> enters_c (CCons cp d ft b r) pi
| NC_later cp d ft b r pi : enters_c r pi -> enters_c (CCons cp d ft b r) pi.

Scheme enters_mind := Minimality for enters Sort Prop
  with enters_l_mind := Minimality for enters_l Sort Prop
  with enters_c_mind := Minimality for enters_c Sort Prop.
Combined Scheme enters_mutind from enters_mind, enters_l_mind, enters_c_mind.

(* Program level: the body of the function / getter is executed from its start. *)
Definition prog_enters (p : program) (pi : N) : Prop := enters_l (p_body p) pi.
Definition prog_falls_off_end (p : program) : Prop := exec_l (p_body p) Normal.

(* "the sub-statement `t` occurs in ..." - used to speak about every switch of a program *)
Inductive sub_stmt : stmt -> stmt -> Prop :=
| Sub_self s : sub_stmt s s
| Sub_fndecl t p n pb b : sub_stmts t b -> sub_stmt t (SFnDecl p n pb b)
| Sub_arrow t p pb b : sub_stmts t b -> sub_stmt t (SArrowStmt p pb b)
| Sub_getter t p gp pb b : sub_stmts t b -> sub_stmt t (SGetterStmt p gp pb b)
| Sub_forhead t p g fp pb hb b : sub_stmts t hb -> sub_stmt t (SForHead p g fp pb hb b)
| Sub_block t p b : sub_stmts t b -> sub_stmt t (SBlock p b)
| Sub_if t p c a : sub_stmt t a -> sub_stmt t (SIf p c a)
| Sub_ifelse1 t p c a b : sub_stmt t a -> sub_stmt t (SIfElse p c a b)
| Sub_ifelse2 t p c a b : sub_stmt t b -> sub_stmt t (SIfElse p c a b)
| Sub_loop t s pre b post : loop_shape s = Some (pre, b, post) -> sub_stmt t b -> sub_stmt t s
| Sub_switch t p cs : sub_cases t cs -> sub_stmt t (SSwitch p cs)
| Sub_label t p l b : sub_stmt t b -> sub_stmt t (SLabel p l b)
| Sub_try1 t p bp blk h hb f fb : sub_stmts t blk -> sub_stmt t (STry p bp blk h hb f fb)
| Sub_try2 t p bp blk hp hb f fb : sub_stmts t hb -> sub_stmt t (STry p bp blk (Some hp) hb f fb)
| Sub_try3 t p bp blk h hb fp fb : sub_stmts t fb -> sub_stmt t (STry p bp blk h hb (Some fp) fb)
with sub_stmts : stmt -> stmts -> Prop :=
| SubL_here t s r : sub_stmt t s -> sub_stmts t (SCons s r)
| SubL_next t s r : sub_stmts t r -> sub_stmts t (SCons s r)
with sub_cases : stmt -> cases -> Prop :=
| SubC_here t cp d ft b r : sub_stmts t b -> sub_cases t (CCons cp d ft b r)
| SubC_later t cp d ft b r : sub_cases t r -> sub_cases t (CCons cp d ft b r).

Inductive case_in : stmts -> cases -> Prop :=
| CI_here cp d ft b r : case_in b (CCons cp d ft b r)
| CI_later b' cp d ft b r : case_in b' r -> case_in b' (CCons cp d ft b r).
