(* C10/C11 - the property statements, parametrised by the repairs switched on in the
   analyzer model (`faithful` = the code as it is). *)
From V Require Export CF.Analyzer CF.Semantics.

(* C10: no-unreachable never reports a statement that some execution enters *)
Definition C10_holds (fx : fixes) : Prop :=
  forall p pi, wf p -> In pi (no_unreachable fx p) -> ~ prog_enters p pi.

(* C11, getter-return: a getter whose body can complete normally (fall off its end) is reported *)
Definition C11_getter_holds (fx : fixes) : Prop :=
  forall p, wf p -> p_getter p = true -> prog_falls_off_end p -> In (p_start p) (getter_return fx p).

(* C11, no-fallthrough: for every entered switch at any depth and each of its cases, if one of the
   top-level statements of the case is claimed to stop execution (which silences the rule), then the
   consequent of the case cannot complete normally *)
Definition C11_case_holds (fx : fixes) : Prop :=
  forall p sw cs b, wf p ->
    sub_stmts (SSwitch sw cs) (p_body p) -> prog_enters p sw -> case_in b cs ->
    any_stops (analyze fx p) b = true -> ~ exec_l b Normal.

(* the panics of the Rust code (two kinds of `unwrap` in the analyzer, one in getter-return) *)
Definition analyzer_total_holds (fx : fixes) : Prop :=
  forall p, panic (analyze_st fx p) = false /\ iget (analyze fx p) (p_pb p) <> None.
