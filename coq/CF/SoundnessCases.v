(* C10/C11 - proof layer 1 for no-fallthrough (IN PROGRESS; nothing here is assumed anywhere).
   Goal: the "stops" flag that the ghost analyzer logs for a switch case equals `any_stops` evaluated on the
   map at the END of the whole analysis, and every switch/case of the program has its log entries; together
   with `ghost_sound` this gives `C11_case_holds repaired`.
   Done (part A, below): when the analysis of a statement list is finished, the map holds, for each element
   of the list, exactly the ghost end reason that the "stops" flag is computed from (`tops_ok`), hence
   `any_stops` on that map = the logged flag (`any_stops_tops`).
   Remaining: (B) tail stability - none of the operations that follow the list (rest of the enclosing
   visitors, later siblings) writes a key of those elements; per visitor this is a chain of the `frame_*`
   lemmas of SoundnessMap.v; (C) a syntactic lemma: every switch `sw` with case `b` of the program has
   log entries `GStmt sw d _` and `GCase b (negb d) _`.
   Holds for every combination of repairs. *)
From V Require Import CF.AnalyzerG CF.SoundnessInv CF.SoundnessMap CF.Semantics.
From Coq Require Import Lia.

Lemma stmts_list_ind (P : stmts -> Prop) :
  P SNil -> (forall t r, P r -> P (SCons t r)) -> forall l, P l.
Proof. intros H0 H1. fix F 1. intros [|t r]; [exact H0 | apply H1, F]. Qed.

Lemma cases_list_ind (P : cases -> Prop) :
  P CNil -> (forall cp d ft b r, P r -> P (CCons cp d ft b r)) -> forall cs, P cs.
Proof. intros H0 H1. fix F 1. intros [|cp d ft b r]; [exact H0 | apply H1, F]. Qed.

Section Cases.
Variable fx : fixes.

(* ------------------------------------------------------------------ *)
(* part A: the end reasons of the elements of a list, as left in the map when the list is finished *)
Definition tops_rel (l : stmts) (y : st) (tops : list (option End)) : Prop :=
  Forall2 (fun t r => E y (pos t) = r) (stmts_to_list l) tops.

Lemma any_stops_tops l y tops : tops_rel l y tops -> any_stops (info y) l = tops_stop tops.
Proof.
  unfold tops_rel. revert tops. induction l as [|t r IH] using stmts_list_ind; intros tops H; cbn [stmts_to_list] in H.
  - inversion H; subst. reflexivity.
  - inversion H as [|t' r0 l' tops' Ht Hr]; subst. cbn [any_stops tops_stop existsb]. rewrite (IH _ Hr). f_equal.
    unfold E, get_end_reason. destruct (iget (info y) (pos t)) as [m|]; reflexivity.
Qed.

Lemma anG_list_cons t r y : anG_list fx (SCons t r) y = consG t (fun a => orbG t (anG fx t a)) (anG_list fx r) y.
Proof. reflexivity. Qed.
Lemma anG_cases_cons cp d ft b r y :
  anG_cases fx (CCons cp d ft b r) y = consC (visit_caseG fx cp b (anG_list fx b)) (anG_cases fx r) y.
Proof. reflexivity. Qed.

Lemma tops_ok l : NoDup (keys_l l) -> forall x, fresh x (keys_l l) ->
  tops_rel l (l_st (anG_list fx l x)) (l_tops (anG_list fx l x)).
Proof.
  induction l as [|t r IH] using stmts_list_ind; intros Hn x Hf.
  - constructor.
  - cbn [keys_l] in Hn, Hf. destruct (NoDup_app_inv _ _ Hn) as [Hnt [Hnr Hd]].
    destruct (an_anG fx) as [HS [HL _]].
    pose proof (simS_orb fx t (HS t) Hnt x (fresh_incl _ _ _ Hf (incl_appl _ (incl_refl _)))) as [_ [R1 F1]].
    rewrite anG_list_cons. unfold consG. destruct (orbG t (anG fx t x)) as [[y1 r1] lg1]. cbn [g_st g_rs fst snd] in *.
    assert (Hf2 : fresh y1 (keys_l r)).
    { eapply fresh_frame; [|exact F1 | intros k Hk Hk'; exact (Hd k Hk' Hk)]. eapply fresh_incl; [exact Hf | apply incl_appr, incl_refl]. }
    pose proof (IH Hnr y1 Hf2) as IH'. destruct (HL r Hnr y1 Hf2) as [_ F2].
    destruct (anG_list fx r y1) as [[y2 tops] lg2]. cbn [l_st l_tops fst snd] in *.
    unfold tops_rel. cbn [stmts_to_list]. constructor; [|exact IH'].
    rewrite (E_frame _ _ _ (pos t) F2); [exact R1|]. intros Hk. apply (Hd (pos t)); [apply pos_in_keys | exact Hk].
Qed.

(* the logged flag of a case is `any_stops` on the map as it is when the case's consequent is finished *)
Corollary case_flag_at_list_end b : NoDup (keys_l b) -> forall x, fresh x (keys_l b) ->
  any_stops (info (l_st (anG_list fx b x))) b = tops_stop (l_tops (anG_list fx b x)).
Proof. intros Hn x Hf. apply any_stops_tops. apply tops_ok; assumption. Qed.


(* ------------------------------------------------------------------ *)
(* part B: tail stability.  `claims lg y S`: every logged case flag equals `any_stops` on the map of state y,
   and the keys of the case's top-level statements lie in the set S of keys that nothing outside will write *)
Definition claims (lg : list gent) (y : st) (S : N -> Prop) : Prop :=
  forall b lv s, In (GCase b lv s) lg ->
    (forall t, In t (stmts_to_list b) -> S (pos t)) /\ any_stops (info y) b = s.

Definition SK (K : list N) (p : N) : N -> Prop := fun k => In k K /\ k <> p.
Definition SL (K : list N) : N -> Prop := fun k => In k K.

Lemma any_stops_stable i i' b :
  (forall t, In t (stmts_to_list b) -> iget i' (pos t) = iget i (pos t)) -> any_stops i' b = any_stops i b.
Proof.
  induction b as [|t r IH] using stmts_list_ind; intros H; [reflexivity|]. cbn [any_stops].
  rewrite (H t (or_introl eq_refl)), IH; [reflexivity|]. intros t' Ht'. apply H. right. exact Ht'.
Qed.

Lemma claims_nil y S : claims [] y S.
Proof. intros b lv s []. Qed.
Lemma claims_app a b y S : claims a y S -> claims b y S -> claims (a ++ b) y S.
Proof. intros Ha Hb c lv s Hin. apply in_app_or in Hin. destruct Hin; [eapply Ha | eapply Hb]; eassumption. Qed.
Lemma claims_stmt k d fl lg y S : claims lg y S -> claims (GStmt k d fl :: lg) y S.
Proof. intros H b lv s [E|Hin]; [discriminate | eapply H; eassumption]. Qed.
Lemma claims_weak lg y (S S' : N -> Prop) : claims lg y S -> (forall k, S k -> S' k) -> claims lg y S'.
Proof. intros H Hs b lv s Hin. destruct (H b lv s Hin) as [H1 H2]. split; [intros t Ht; apply Hs, H1, Ht | exact H2]. Qed.
(* later writes outside S do not disturb the claims *)
Lemma claims_frame lg y y' (S : N -> Prop) T :
  claims lg y S -> frame y y' T -> (forall k, S k -> ~ In k T) -> claims lg y' S.
Proof.
  intros H F Hd b lv s Hin. destruct (H b lv s Hin) as [H1 H2]. split; [exact H1|].
  rewrite <- H2. apply any_stops_stable. intros t Ht. apply F. apply Hd, H1, Ht.
Qed.
Lemma claims_info lg y y' S : claims lg y S -> info y' = info y -> claims lg y' S.
Proof. intros H E b lv s Hin. rewrite E. eapply H. exact Hin. Qed.

Definition cokc (g : st -> gres) (S : N -> Prop) (K : list N) : Prop :=
  forall x, fresh x K -> claims (g_lg (g x)) (g_st (g x)) S.
Definition cokl (g : st -> gres_l) (S : N -> Prop) (K : list N) : Prop :=
  forall x, fresh x K -> claims (l_lg (g x)) (l_st (g x)) S.
Definition cokcs (g : st -> gres_c) (S : N -> Prop) (K : list N) : Prop :=
  forall x, fresh x K -> claims (c_lg (g x)) (c_st (g x)) S.
Definition frc (g : st -> gres) (K : list N) : Prop := forall x, fresh x K -> frame x (g_st (g x)) K.
Definition frl (g : st -> gres_l) (K : list N) : Prop := forall x, fresh x K -> frame x (l_st (g x)) K.
Definition frcs (g : st -> gres_c) (K : list N) : Prop := forall x, fresh x K -> frame x (c_st (g x)) K.

Lemma SK_not_p K p k : SK K p k -> ~ In k [p].
Proof. intros [_ Hne] [E|[]]. apply Hne. symmetry. exact E. Qed.
Lemma SK_up K p K' p' : incl K K' -> ~ In p' K -> forall k, SK K p k -> SK K' p' k.
Proof. intros Hi Hp k [Hk _]. split; [apply Hi, Hk | intros ->; exact (Hp Hk)]. Qed.
Lemma SL_up K K' p' : incl K K' -> ~ In p' K -> forall k, SL K k -> SK K' p' k.
Proof. intros Hi Hp k Hk. split; [apply Hi, Hk | intros ->; exact (Hp Hk)]. Qed.

Lemma cok_wrap s V S K : cokc V S K -> cokc (wrap s V) S K.
Proof.
  intros H x0 Hf. unfold wrap. rewrite g_lg_gcons, g_st_gcons. apply claims_stmt. apply H.
  intros k Hk. rewrite E_set_unreach. apply Hf. exact Hk.
Qed.

Lemma cok_leaf (f : st -> st) S K : cokc (fun x => (f x, None, [])) S K.
Proof. intros x _. apply claims_nil. Qed.

Lemma cok_orb s g K : cokc g (SK K (pos s)) K -> cokc (fun a => orbG s (g a)) (SK K (pos s)) K.
Proof.
  intros H x Hf. specialize (H x Hf). unfold orbG. destruct (g x) as [[y r] lg]. cbn [g_st g_lg fst snd] in *.
  destruct (is_brk_or_cont s); cbn [g_st g_lg fst snd]; [|exact H].
  eapply claims_frame; [exact H | apply (frame_mark (pos s) EBreak y [pos s]); left; reflexivity | apply SK_not_p].
Qed.

Lemma cok_block_end p g K : cokl g (SL K) K -> ~ In p K -> cokc (fun a => block_endG p (g a)) (SK (p :: K) p) (p :: K).
Proof.
  intros H Hp x Hf. specialize (H x (fresh_incl _ _ _ Hf (incl_tl _ (incl_refl _)))). unfold block_endG.
  destruct (g x) as [[y tops] lg]. cbn [g_st g_lg l_st l_lg fst snd] in *.
  eapply claims_frame; [eapply claims_weak; [exact H | apply SL_up; [apply incl_tl, incl_refl | exact Hp]]| | apply SK_not_p].
  unfold block_end. destruct (s_end (sc y)); apply frame_mark; left; reflexivity.
Qed.

(* with_child_scope: the exit writes at most `start` *)
Lemma cok_with_child kd start g (S : N -> Prop) K x :
  cokc g S K -> fresh x K -> (forall k, S k -> k <> start) ->
  claims (g_lg (with_childG fx kd start g x)) (g_st (with_childG fx kd start g x)) S.
Proof.
  intros H Hf Hs. specialize (H (child_enter kd x) (fresh_info _ _ _ eq_refl Hf)). unfold with_childG.
  destruct (g (child_enter kd x)) as [[c r] lg]. cbn [g_st g_lg fst snd] in *.
  eapply claims_frame; [exact H | apply (frame_child_exit fx kd start x c [start]); left; reflexivity|].
  intros k Hk [E|[]]. apply (Hs k Hk). symmetry. exact E.
Qed.

Lemma cok_fn p pb g K : cokl g (SL K) K -> ~ In p (pb :: K) -> ~ In pb K ->
  cokc (fn_likeG fx p pb g) (SK (p :: pb :: K) p) (p :: pb :: K).
Proof.
  intros H Hp Hpb x Hf. unfold fn_likeG.
  assert (Hs : forall k, SK (pb :: K) pb k -> k <> p) by (intros k [Hk _] ->; exact (Hp Hk)).
  pose proof (cok_with_child KFunction p _ _ _ x (cok_block_end pb g K H Hpb)
                (fresh_incl _ _ _ Hf (incl_tl _ (incl_refl _))) Hs) as HC.
  unfold with_childG in HC. destruct (block_endG pb (g (child_enter KFunction x))) as [[c r] lg]. cbn [g_st g_lg fst snd] in *.
  eapply claims_weak; [exact HC|].
  intros k [Hk Hne]. split; [right; exact Hk | intros ->; exact (Hp Hk)].
Qed.

Lemma cok_arrow p pb g K : cokl g (SL K) K -> ~ In p (pb :: K) -> ~ In pb K ->
  cokc (fun x => let '(y, r, lg) := fn_likeG fx p pb g x in (visit_lit y, r, lg)) (SK (p :: pb :: K) p) (p :: pb :: K).
Proof.
  intros H Hp Hpb x Hf. pose proof (cok_fn p pb g K H Hp Hpb x Hf) as HC.
  destruct (fn_likeG fx p pb g x) as [[y r] lg]. cbn [g_st g_lg fst snd] in *.
  eapply claims_info; [exact HC | apply info_visit_lit].
Qed.

Lemma cok_if p c p1 g1 K1 : cokc g1 (SK K1 p1) K1 -> ~ In p K1 ->
  cokc (visit_ifG fx p c p1 g1) (SK (p :: K1) p) (p :: K1).
Proof.
  intros H Hp x Hf. unfold visit_ifG.
  assert (Hf1 : fresh (visit_cond c x) K1).
  { eapply fresh_info; [apply info_visit_cond|]. eapply fresh_incl; [exact Hf | apply incl_tl, incl_refl]. }
  pose proof (cok_with_child KIf p1 g1 _ _ _ H Hf1 (fun k Hk => proj2 Hk)) as HC.
  destruct (with_childG fx KIf p1 g1 (visit_cond c x)) as [[y r] lg]. cbn [g_st g_lg fst snd] in *.
  eapply claims_info; [|reflexivity].
  eapply claims_frame; [eapply claims_weak; [exact HC | apply SK_up; [apply incl_tl, incl_refl | exact Hp]]
                       | apply (frame_mark p EContinue y [p]); left; reflexivity | apply SK_not_p].
Qed.


Lemma cok_if_else p c p1 g1 K1 p2 g2 K2 :
  cokc g1 (SK K1 p1) K1 -> cokc g2 (SK K2 p2) K2 -> frc g1 K1 -> frc g2 K2 ->
  ~ In p (K1 ++ K2) -> (forall k, In k K1 -> ~ In k K2) ->
  cokc (visit_if_elseG fx p c p1 g1 p2 g2) (SK (p :: K1 ++ K2) p) (p :: K1 ++ K2).
Proof.
  intros H1 H2 F1 F2 Hp Hd x Hf. unfold visit_if_elseG.
  assert (Hf1 : fresh (visit_cond c x) K1).
  { eapply fresh_info; [apply info_visit_cond|]. eapply fresh_incl; [exact Hf | apply incl_tl, incl_appl, incl_refl]. }
  pose proof (cok_with_child KIf p1 g1 _ _ _ H1 Hf1 (fun k Hk => proj2 Hk)) as HC1.
  assert (Fr1 : frame (visit_cond c x) (g_st (with_childG fx KIf p1 g1 (visit_cond c x))) K1).
  { unfold with_childG. pose proof (F1 (child_enter KIf (visit_cond c x)) (fresh_info _ _ _ eq_refl Hf1)) as Fc.
    destruct (g1 (child_enter KIf (visit_cond c x))) as [[c1 r1] lg1]. cbn [g_st fst snd] in *.
    eapply frame_trans; [exact Fc | apply frame_info, info_child_exit_if]. }
  destruct (with_childG fx KIf p1 g1 (visit_cond c x)) as [[x2 r1] lg1]. cbn [g_st g_lg fst snd] in *.
  assert (Hf2 : fresh x2 K2).
  { eapply fresh_frame; [|exact Fr1 | intros k Hk Hk'; exact (Hd k Hk' Hk)].
    eapply fresh_info; [apply info_visit_cond|]. eapply fresh_incl; [exact Hf | apply incl_tl, incl_appr, incl_refl]. }
  pose proof (cok_with_child KIf p2 g2 _ _ _ H2 Hf2 (fun k Hk => proj2 Hk)) as HC2.
  assert (Fr2 : frame x2 (g_st (with_childG fx KIf p2 g2 x2)) K2).
  { unfold with_childG. pose proof (F2 (child_enter KIf x2) (fresh_info _ _ _ eq_refl Hf2)) as Fc.
    destruct (g2 (child_enter KIf x2)) as [[c2 r2'] lg2']. cbn [g_st fst snd] in *.
    eapply frame_trans; [exact Fc | apply frame_info, info_child_exit_if]. }
  destruct (with_childG fx KIf p2 g2 x2) as [[x3 r2] lg2]. cbn [g_st g_lg fst snd] in *.
  assert (Hn1 : ~ In p K1) by (intros Hk; apply Hp, in_or_app; left; exact Hk).
  assert (Hn2 : ~ In p K2) by (intros Hk; apply Hp, in_or_app; right; exact Hk).
  assert (Ft : frame x3 (if_else_end p r1 r2 x3) [p]).
  { unfold if_else_end. destruct (if_else_mark r1 r2); [apply frame_mark; left; reflexivity | apply frame_info; reflexivity]. }
  apply claims_app.
  - eapply claims_frame; [|exact Ft | apply SK_not_p].
    eapply claims_weak; [|apply (SK_up K1 p1); [apply incl_tl, incl_appl, incl_refl | exact Hn1]].
    eapply claims_frame; [exact HC1 | exact Fr2 | intros k [Hk _]; exact (Hd k Hk)].
  - eapply claims_frame; [|exact Ft | apply SK_not_p].
    eapply claims_weak; [exact HC2 | apply SK_up; [apply incl_tl, incl_appr, incl_refl | exact Hn2]].
Qed.

(* loops: after the body only the body's own key `lo` (and the loop's key p) are written *)
Lemma cok_while p c lo g K : cokc g (SK K lo) K -> In lo K -> ~ In p K ->
  cokc (visit_whileG fx c lo g) (SK (p :: K) p) (p :: K).
Proof.
  intros H Hlo Hp x Hf. unfold visit_whileG.
  specialize (H (child_enter KLoop x) (fresh_info _ _ _ eq_refl (fresh_incl _ _ _ Hf (incl_tl _ (incl_refl _))))).
  destruct (g (child_enter KLoop x)) as [[a r] lg]. cbn [g_st g_lg fst snd] in *.
  eapply claims_weak; [|apply (SK_up K lo); [apply incl_tl, incl_refl | exact Hp]].
  eapply claims_frame; [exact H | | apply SK_not_p].
  eapply frame_trans; [apply (frame_while_post r c lo a [lo]); left; reflexivity|].
  eapply frame_trans; [apply frame_child_exit; left; reflexivity | apply frame_info, info_visit_cond].
Qed.

Lemma cok_do_while p c lo g K : cokc g (SK K lo) K -> In lo K -> ~ In p K ->
  cokc (visit_do_whileG fx p c lo g) (SK (p :: K) p) (p :: K).
Proof.
  intros H Hlo Hp x Hf. unfold visit_do_whileG.
  specialize (H (child_enter KLoop x) (fresh_info _ _ _ eq_refl (fresh_incl _ _ _ Hf (incl_tl _ (incl_refl _))))).
  destruct (g (child_enter KLoop x)) as [[a r] lg]. cbn [g_st g_lg fst snd] in *.
  eapply claims_frame; [eapply claims_weak; [|apply (SK_up K lo); [apply incl_tl, incl_refl | exact Hp]]| | apply SK_not_p].
  - eapply claims_frame; [exact H | | apply SK_not_p].
    eapply frame_trans; [apply (frame_dowhile_post fx r c lo a [lo]); left; reflexivity | apply frame_child_exit; left; reflexivity].
  - unfold dowhile_tail. eapply frame_trans; [|apply frame_info, info_visit_cond].
    match goal with |- frame _ (match ?o with _ => _ end) _ => destruct o as [e|] end;
      [destruct (is_forced e); [apply frame_mark; left; reflexivity | apply frame_refl] | apply frame_refl].
Qed.

Lemma cok_for p c lo g K : cokc g (SK K lo) K -> In lo K -> ~ In p K ->
  cokc (visit_forG fx p c lo g) (SK (p :: K) p) (p :: K).
Proof.
  intros H Hlo Hp x Hf. unfold visit_forG.
  set (x' := match c with Some c0 => visit_cond c0 x | None => x end).
  assert (Ix' : info x' = info x) by (unfold x'; destruct c; [apply info_visit_cond | reflexivity]).
  specialize (H (child_enter KLoop x') (fresh_info _ _ _ Ix' (fresh_incl _ _ _ Hf (incl_tl _ (incl_refl _))))).
  destruct (g (child_enter KLoop x')) as [[a r] lg]. cbn [g_st g_lg fst snd] in *.
  eapply claims_weak; [|apply (SK_up K lo); [apply incl_tl, incl_refl | exact Hp]].
  eapply claims_frame; [exact H | |].
  - eapply frame_trans; [apply (frame_for_post r p c lo a [lo; p]); [left; reflexivity | right; left; reflexivity]|].
    apply frame_child_exit. left. reflexivity.
  - intros k [Hk Hne] [E'|[E'|[]]]; [apply Hne; symmetry; exact E' | subst k; exact (Hp Hk)].
Qed.

Lemma cok_for_in p lo g K : cokc g (SK K lo) K -> In lo K -> ~ In p K ->
  cokc (visit_for_inG fx lo g) (SK (p :: K) p) (p :: K).
Proof.
  intros H Hlo Hp x Hf. unfold visit_for_inG.
  specialize (H (child_enter KLoop x) (fresh_info _ _ _ eq_refl (fresh_incl _ _ _ Hf (incl_tl _ (incl_refl _))))).
  destruct (g (child_enter KLoop x)) as [[a r] lg]. cbn [g_st g_lg fst snd] in *.
  eapply claims_weak; [|apply (SK_up K lo); [apply incl_tl, incl_refl | exact Hp]].
  eapply claims_frame; [exact H | | apply SK_not_p].
  eapply frame_trans; [|apply frame_child_exit; left; reflexivity].
  unfold forin_post. eapply frame_trans; [apply frame_mark; left; reflexivity | apply frame_info; reflexivity].
Qed.

Lemma cok_label p l g K pb : cokc g (SK K pb) K -> ~ In p K ->
  cokc (fun x => let '(y, _, lg) := with_childG fx (KLabel l) p g x in (y, None, lg)) (SK (p :: K) p) (p :: K).
Proof.
  intros H Hp x Hf.
  assert (Hs : forall k, SK K pb k -> k <> p) by (intros k [Hk _] ->; exact (Hp Hk)).
  pose proof (cok_with_child (KLabel l) p g _ _ x H (fresh_incl _ _ _ Hf (incl_tl _ (incl_refl _))) Hs) as HC.
  destruct (with_childG fx (KLabel l) p g x) as [[y r] lg]. cbn [g_st g_lg fst snd] in *.
  eapply claims_weak; [exact HC | apply SK_up; [apply incl_tl, incl_refl | exact Hp]].
Qed.

(* lists *)
Lemma cok_nil S : cokl (fun y => (y, [], [])) S [].
Proof. intros x _. apply claims_nil. Qed.

Lemma cok_cons s g1 g2 K1 K2 p1 :
  cokc g1 (SK K1 p1) K1 -> cokl g2 (SL K2) K2 -> frc g1 K1 -> frl g2 K2 -> (forall k, In k K1 -> ~ In k K2) ->
  cokl (consG s g1 g2) (SL (K1 ++ K2)) (K1 ++ K2).
Proof.
  intros H1 H2 F1 F2 Hd x Hf. unfold consG.
  assert (Hf1 : fresh x K1) by (eapply fresh_incl; [exact Hf | apply incl_appl, incl_refl]).
  specialize (H1 x Hf1). specialize (F1 x Hf1). destruct (g1 x) as [[y1 r1] lg1]. cbn [g_st g_lg fst snd] in *.
  assert (Hf2 : fresh y1 K2).
  { eapply fresh_frame; [|exact F1 | intros k Hk Hk'; exact (Hd k Hk' Hk)]. eapply fresh_incl; [exact Hf | apply incl_appr, incl_refl]. }
  specialize (H2 y1 Hf2). specialize (F2 y1 Hf2). destruct (g2 y1) as [[y2 tops] lg2]. cbn [l_st l_lg fst snd] in *.
  apply claims_app.
  - eapply claims_weak; [eapply claims_frame; [exact H1 | exact F2 | intros k [Hk _]; exact (Hd k Hk)]|].
    intros k [Hk _]. apply in_or_app. left. exact Hk.
  - eapply claims_weak; [exact H2 | intros k Hk; apply in_or_app; right; exact Hk].
Qed.

Lemma pos_in_keys_l b t : In t (stmts_to_list b) -> In (pos t) (keys_l b).
Proof.
  induction b as [|t' r IH] using stmts_list_ind; cbn [stmts_to_list keys_l]; [intros []|].
  intros [<-|Hin]; apply in_or_app; [left; apply pos_in_keys | right; apply IH; exact Hin].
Qed.

(* a switch case: the new log entry *)
Lemma cok_case cp b :
  NoDup (keys_l b) -> cokl (anG_list fx b) (SL (keys_l b)) (keys_l b) -> ~ In cp (keys_l b) ->
  cokc (visit_caseG fx cp b (anG_list fx b)) (SK (cp :: keys_l b) cp) (cp :: keys_l b).
Proof.
  intros Hn H Hcp y Hf. unfold visit_caseG.
  assert (Hf1 : fresh (child_enter KCase y) (keys_l b)).
  { eapply fresh_info; [reflexivity|]. eapply fresh_incl; [exact Hf | apply incl_tl, incl_refl]. }
  specialize (H _ Hf1). pose proof (case_flag_at_list_end b Hn _ Hf1) as HT.
  destruct (anG_list fx b (child_enter KCase y)) as [[c tops] lg]. cbn [g_st g_lg l_st l_tops l_lg fst snd] in *.
  assert (Ft : frame c (set_end (mark_as_end cp (case_end_of (sc c)) (child_exit fx KCase cp y c)) (s_end (sc y))) [cp]).
  { eapply frame_trans; [apply frame_info, info_child_exit_case|].
    eapply frame_trans; [apply frame_mark; left; reflexivity | apply frame_info; reflexivity]. }
  intros b' lv s [E|Hin].
  - injection E as <- _ <-. split.
    + intros t Ht. split; [right; apply pos_in_keys_l; exact Ht | intros Eq; apply Hcp; rewrite <- Eq; apply pos_in_keys_l; exact Ht].
    + rewrite <- HT. apply any_stops_stable. intros t Ht. apply Ft. intros [Eq|[]]. apply Hcp. rewrite Eq. apply pos_in_keys_l. exact Ht.
  - revert b' lv s Hin. change (claims lg (set_end (mark_as_end cp (case_end_of (sc c)) (child_exit fx KCase cp y c)) (s_end (sc y))) (SK (cp :: keys_l b) cp)).
    eapply claims_frame; [eapply claims_weak; [exact H | apply SL_up; [apply incl_tl, incl_refl | exact Hcp]] | exact Ft | apply SK_not_p].
Qed.

Lemma cok_nilC S : cokcs (fun y => (y, [], [])) S [].
Proof. intros x _. apply claims_nil. Qed.

Lemma cok_consC g1 g2 K1 K2 p1 :
  cokc g1 (SK K1 p1) K1 -> cokcs g2 (SL K2) K2 -> frc g1 K1 -> frcs g2 K2 -> (forall k, In k K1 -> ~ In k K2) ->
  cokcs (consC g1 g2) (SL (K1 ++ K2)) (K1 ++ K2).
Proof.
  intros H1 H2 F1 F2 Hd x Hf. unfold consC.
  assert (Hf1 : fresh x K1) by (eapply fresh_incl; [exact Hf | apply incl_appl, incl_refl]).
  specialize (H1 x Hf1). specialize (F1 x Hf1). destruct (g1 x) as [[y1 r1] lg1]. cbn [g_st g_lg fst snd] in *.
  assert (Hf2 : fresh y1 K2).
  { eapply fresh_frame; [|exact F1 | intros k Hk Hk'; exact (Hd k Hk' Hk)]. eapply fresh_incl; [exact Hf | apply incl_appr, incl_refl]. }
  specialize (H2 y1 Hf2). specialize (F2 y1 Hf2). destruct (g2 y1) as [[y2 rs] lg2]. cbn [c_st c_lg fst snd] in *.
  apply claims_app.
  - eapply claims_weak; [eapply claims_frame; [exact H1 | exact F2 | intros k [Hk _]; exact (Hd k Hk)]|].
    intros k [Hk _]. apply in_or_app. left. exact Hk.
  - eapply claims_weak; [exact H2 | intros k Hk; apply in_or_app; right; exact Hk].
Qed.

Lemma cok_switch p cs g K : cokcs g (SL K) K -> ~ In p K -> cokc (visit_switchG p cs g) (SK (p :: K) p) (p :: K).
Proof.
  intros H Hp x Hf. unfold visit_switchG. specialize (H x (fresh_incl _ _ _ Hf (incl_tl _ (incl_refl _)))).
  destruct (g x) as [[x1 rs] lg]. cbn [g_st g_lg c_st c_lg fst snd] in *.
  eapply claims_frame; [eapply claims_weak; [exact H | apply SL_up; [apply incl_tl, incl_refl | exact Hp]]| | apply SK_not_p].
  unfold switch_tail. match goal with |- frame _ (if ?b then _ else _) _ => destruct b end;
    [apply frame_mark; left; reflexivity | eapply frame_trans; [apply frame_mark; left; reflexivity | apply frame_info; reflexivity]].
Qed.

End Cases.
