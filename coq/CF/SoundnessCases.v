(* C10/C11 - proof layer 1 for no-fallthrough (IN PROGRESS; nothing here is assumed anywhere).
   Goal: the "stops" flag that the ghost analyzer logs for a switch case equals `any_stops` evaluated on the
   map at the END of the whole analysis, and every switch/case of the program has its log entries; together
   with `ghost_sound` this gives `C11_case_holds repaired`.
   Done (part A, below): when the analysis of a statement list is finished, the map holds, for each element
   of the list, exactly the ghost end reason that the "stops" flag is computed from (`tops_ok`), hence
   `any_stops` on that map = the logged flag (`any_stops_tops`).
   Remaining: (B) tail stability - none of the operations that follow the list (rest of the enclosing
   visitors, later siblings) writes a key of those elements; per visitor this is a chain of the `frame_*`
   lemmas of SoundnessMap.v; (C) a syntactic lemma: every switch `sw` with case `b` of the program has
   log entries `GStmt sw d _` and `GCase b (negb d) _`.
   Holds for every combination of repairs. *)
From V Require Import CF.AnalyzerG CF.SoundnessInv CF.SoundnessMap CF.Semantics.
From Coq Require Import Lia.

Lemma stmts_list_ind (P : stmts -> Prop) :
  P SNil -> (forall t r, P r -> P (SCons t r)) -> forall l, P l.
Proof. intros H0 H1. fix F 1. intros [|t r]; [exact H0 | apply H1, F]. Qed.

Lemma cases_list_ind (P : cases -> Prop) :
  P CNil -> (forall cp d ft b r, P r -> P (CCons cp d ft b r)) -> forall cs, P cs.
Proof. intros H0 H1. fix F 1. intros [|cp d ft b r]; [exact H0 | apply H1, F]. Qed.

Section Cases.
Variable fx : fixes.

(* ------------------------------------------------------------------ *)
(* part A: the end reasons of the elements of a list, as left in the map when the list is finished *)
Definition tops_rel (l : stmts) (y : st) (tops : list (option End)) : Prop :=
  Forall2 (fun t r => E y (pos t) = r) (stmts_to_list l) tops.

Lemma any_stops_tops l y tops : tops_rel l y tops -> any_stops (info y) l = tops_stop tops.
Proof.
  unfold tops_rel. revert tops. induction l as [|t r IH] using stmts_list_ind; intros tops H; cbn [stmts_to_list] in H.
  - inversion H; subst. reflexivity.
  - inversion H as [|t' r0 l' tops' Ht Hr]; subst. cbn [any_stops tops_stop existsb]. rewrite (IH _ Hr). f_equal.
    unfold E, get_end_reason. destruct (iget (info y) (pos t)) as [m|]; reflexivity.
Qed.

Lemma anG_list_cons t r y : anG_list fx (SCons t r) y = consG t (fun a => orbG t (anG fx t a)) (anG_list fx r) y.
Proof. reflexivity. Qed.
Lemma anG_cases_cons cp d ft b r y :
  anG_cases fx (CCons cp d ft b r) y = consC (visit_caseG fx cp b (anG_list fx b)) (anG_cases fx r) y.
Proof. reflexivity. Qed.

Lemma tops_ok l : NoDup (keys_l l) -> forall x, fresh x (keys_l l) ->
  tops_rel l (l_st (anG_list fx l x)) (l_tops (anG_list fx l x)).
Proof.
  induction l as [|t r IH] using stmts_list_ind; intros Hn x Hf.
  - constructor.
  - cbn [keys_l] in Hn, Hf. destruct (NoDup_app_inv _ _ Hn) as [Hnt [Hnr Hd]].
    destruct (an_anG fx) as [HS [HL _]].
    pose proof (simS_orb fx t (HS t) Hnt x (fresh_incl _ _ _ Hf (incl_appl _ (incl_refl _)))) as [_ [R1 F1]].
    rewrite anG_list_cons. unfold consG. destruct (orbG t (anG fx t x)) as [[y1 r1] lg1]. cbn [g_st g_rs fst snd] in *.
    assert (Hf2 : fresh y1 (keys_l r)).
    { eapply fresh_frame; [|exact F1 | intros k Hk Hk'; exact (Hd k Hk' Hk)]. eapply fresh_incl; [exact Hf | apply incl_appr, incl_refl]. }
    pose proof (IH Hnr y1 Hf2) as IH'. destruct (HL r Hnr y1 Hf2) as [_ F2].
    destruct (anG_list fx r y1) as [[y2 tops] lg2]. cbn [l_st l_tops fst snd] in *.
    unfold tops_rel. cbn [stmts_to_list]. constructor; [|exact IH'].
    rewrite (E_frame _ _ _ (pos t) F2); [exact R1|]. intros Hk. apply (Hd (pos t)); [apply pos_in_keys | exact Hk].
Qed.

(* the logged flag of a case is `any_stops` on the map as it is when the case's consequent is finished *)
Corollary case_flag_at_list_end b : NoDup (keys_l b) -> forall x, fresh x (keys_l b) ->
  any_stops (info (l_st (anG_list fx b x))) b = tops_stop (l_tops (anG_list fx b x)).
Proof. intros Hn x Hf. apply any_stops_tops. apply tops_ok; assumption. Qed.

End Cases.
