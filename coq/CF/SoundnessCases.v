(* C10/C11 - proof layer 1 for no-fallthrough.
   (A) `tops_ok`: when the analysis of a statement list is finished, the map holds for each element exactly the
       ghost end reason that the logged "stops" flag of a case is computed from;
   (B) `case_flags_stable`: tail stability - none of the operations that follow (rest of the enclosing visitors,
       later siblings) writes a key of those elements, so the flag equals `any_stops` on every later map;
   (C) `switch_entries`: every switch `sw` with case `b` occurring in the program has log entries
       `GStmt sw d _` and `GCase b (negb d) _`.
   Together with `ghost_sound` this gives `C11_case_sound_repaired` (SoundnessRepaired.v).
   (A) and (B) hold for every combination of repairs, (C) for those that visit the head of for-in/of (`fixE`). *)
From V Require Import CF.AnalyzerG CF.SoundnessInv CF.SoundnessMap CF.Semantics.
From Coq Require Import Lia.

Lemma stmts_list_ind (P : stmts -> Prop) :
  P SNil -> (forall t r, P r -> P (SCons t r)) -> forall l, P l.
Proof. intros H0 H1. fix F 1. intros [|t r]; [exact H0 | apply H1, F]. Qed.

Lemma cases_list_ind (P : cases -> Prop) :
  P CNil -> (forall cp d ft b r, P r -> P (CCons cp d ft b r)) -> forall cs, P cs.
Proof. intros H0 H1. fix F 1. intros [|cp d ft b r]; [exact H0 | apply H1, F]. Qed.

Section Cases.
Variable fx : fixes.

(* ------------------------------------------------------------------ *)
(* part A: the end reasons of the elements of a list, as left in the map when the list is finished *)
Definition tops_rel (l : stmts) (y : st) (tops : list (option End)) : Prop :=
  Forall2 (fun t r => E y (pos t) = r) (stmts_to_list l) tops.

Lemma any_stops_tops l y tops : tops_rel l y tops -> any_stops (info y) l = tops_stop tops.
Proof.
  unfold tops_rel. revert tops. induction l as [|t r IH] using stmts_list_ind; intros tops H; cbn [stmts_to_list] in H.
  - inversion H; subst. reflexivity.
  - inversion H as [|t' r0 l' tops' Ht Hr]; subst. cbn [any_stops tops_stop existsb]. rewrite (IH _ Hr). f_equal.
    unfold E, get_end_reason. destruct (iget (info y) (pos t)) as [m|]; reflexivity.
Qed.

Lemma anG_list_cons t r y : anG_list fx (SCons t r) y = consG t (fun a => orbG t (anG fx t a)) (anG_list fx r) y.
Proof. reflexivity. Qed.
Lemma anG_cases_cons cp d ft b r y :
  anG_cases fx (CCons cp d ft b r) y = consC (fun y => visit_caseG fx cp b (anG_list fx b) (visit_test d y)) (anG_cases fx r) y.
Proof. reflexivity. Qed.

Lemma tops_ok l : NoDup (keys_l l) -> forall x, fresh x (keys_l l) ->
  tops_rel l (l_st (anG_list fx l x)) (l_tops (anG_list fx l x)).
Proof.
  induction l as [|t r IH] using stmts_list_ind; intros Hn x Hf.
  - constructor.
  - cbn [keys_l] in Hn, Hf. destruct (NoDup_app_inv _ _ Hn) as [Hnt [Hnr Hd]].
    destruct (an_anG fx) as [HS [HL _]].
    pose proof (simS_orb fx t (HS t) Hnt x (fresh_incl _ _ _ Hf (incl_appl _ (incl_refl _)))) as [_ [R1 F1]].
    rewrite anG_list_cons. unfold consG. destruct (orbG t (anG fx t x)) as [[y1 r1] lg1]. cbn [g_st g_rs fst snd] in *.
    assert (Hf2 : fresh y1 (keys_l r)).
    { eapply fresh_frame; [|exact F1 | intros k Hk Hk'; exact (Hd k Hk' Hk)]. eapply fresh_incl; [exact Hf | apply incl_appr, incl_refl]. }
    pose proof (IH Hnr y1 Hf2) as IH'. destruct (HL r Hnr y1 Hf2) as [_ F2].
    destruct (anG_list fx r y1) as [[y2 tops] lg2]. cbn [l_st l_tops fst snd] in *.
    unfold tops_rel. cbn [stmts_to_list]. constructor; [|exact IH'].
    rewrite (E_frame _ _ _ (pos t) F2); [exact R1|]. intros Hk. apply (Hd (pos t)); [apply pos_in_keys | exact Hk].
Qed.

(* the logged flag of a case is `any_stops` on the map as it is when the case's consequent is finished *)
Corollary case_flag_at_list_end b : NoDup (keys_l b) -> forall x, fresh x (keys_l b) ->
  any_stops (info (l_st (anG_list fx b x))) b = tops_stop (l_tops (anG_list fx b x)).
Proof. intros Hn x Hf. apply any_stops_tops. apply tops_ok; assumption. Qed.


(* ------------------------------------------------------------------ *)
(* part B: tail stability.  `claims lg y S`: every logged case flag equals `any_stops` on the map of state y,
   and the keys of the case's top-level statements lie in the set S of keys that nothing outside will write *)
Definition claims (lg : list gent) (y : st) (S : N -> Prop) : Prop :=
  forall b lv s, In (GCase b lv s) lg ->
    (forall t, In t (stmts_to_list b) -> S (pos t)) /\ any_stops (info y) b = s.

Definition SK (K : list N) (p : N) : N -> Prop := fun k => In k K /\ k <> p.
Definition SL (K : list N) : N -> Prop := fun k => In k K.

Lemma any_stops_stable i i' b :
  (forall t, In t (stmts_to_list b) -> iget i' (pos t) = iget i (pos t)) -> any_stops i' b = any_stops i b.
Proof.
  induction b as [|t r IH] using stmts_list_ind; intros H; [reflexivity|]. cbn [any_stops].
  rewrite (H t (or_introl eq_refl)), IH; [reflexivity|]. intros t' Ht'. apply H. right. exact Ht'.
Qed.

Lemma claims_nil y S : claims [] y S.
Proof. intros b lv s []. Qed.
Lemma claims_app a b y S : claims a y S -> claims b y S -> claims (a ++ b) y S.
Proof. intros Ha Hb c lv s Hin. apply in_app_or in Hin. destruct Hin; [eapply Ha | eapply Hb]; eassumption. Qed.
Lemma claims_stmt k d fl lg y S : claims lg y S -> claims (GStmt k d fl :: lg) y S.
Proof. intros H b lv s [E|Hin]; [discriminate | eapply H; eassumption]. Qed.
Lemma claims_weak lg y (S S' : N -> Prop) : claims lg y S -> (forall k, S k -> S' k) -> claims lg y S'.
Proof. intros H Hs b lv s Hin. destruct (H b lv s Hin) as [H1 H2]. split; [intros t Ht; apply Hs, H1, Ht | exact H2]. Qed.
(* later writes outside S do not disturb the claims *)
Lemma claims_frame lg y y' (S : N -> Prop) T :
  claims lg y S -> frame y y' T -> (forall k, S k -> ~ In k T) -> claims lg y' S.
Proof.
  intros H F Hd b lv s Hin. destruct (H b lv s Hin) as [H1 H2]. split; [exact H1|].
  rewrite <- H2. apply any_stops_stable. intros t Ht. apply F. apply Hd, H1, Ht.
Qed.
Lemma claims_info lg y y' S : claims lg y S -> info y' = info y -> claims lg y' S.
Proof. intros H E b lv s Hin. rewrite E. eapply H. exact Hin. Qed.

Definition cokc (g : st -> gres) (S : N -> Prop) (K : list N) : Prop :=
  forall x, fresh x K -> claims (g_lg (g x)) (g_st (g x)) S.
Definition cokl (g : st -> gres_l) (S : N -> Prop) (K : list N) : Prop :=
  forall x, fresh x K -> claims (l_lg (g x)) (l_st (g x)) S.
Definition cokcs (g : st -> gres_c) (S : N -> Prop) (K : list N) : Prop :=
  forall x, fresh x K -> claims (c_lg (g x)) (c_st (g x)) S.
Definition frc (g : st -> gres) (K : list N) : Prop := forall x, fresh x K -> frame x (g_st (g x)) K.
Definition frl (g : st -> gres_l) (K : list N) : Prop := forall x, fresh x K -> frame x (l_st (g x)) K.
Definition frcs (g : st -> gres_c) (K : list N) : Prop := forall x, fresh x K -> frame x (c_st (g x)) K.

Lemma SK_not_p K p k : SK K p k -> ~ In k [p].
Proof. intros [_ Hne] [E|[]]. apply Hne. symmetry. exact E. Qed.
Lemma SK_up K p K' p' : incl K K' -> ~ In p' K -> forall k, SK K p k -> SK K' p' k.
Proof. intros Hi Hp k [Hk _]. split; [apply Hi, Hk | intros ->; exact (Hp Hk)]. Qed.
Lemma SL_up K K' p' : incl K K' -> ~ In p' K -> forall k, SL K k -> SK K' p' k.
Proof. intros Hi Hp k Hk. split; [apply Hi, Hk | intros ->; exact (Hp Hk)]. Qed.

Lemma cok_wrap s V S K : cokc V S K -> cokc (wrap s V) S K.
Proof.
  intros H x0 Hf. unfold wrap. rewrite g_lg_gcons, g_st_gcons. apply claims_stmt. apply H.
  intros k Hk. rewrite E_set_unreach. apply Hf. exact Hk.
Qed.

Lemma cok_leaf (f : st -> st) S K : cokc (fun x => (f x, None, [])) S K.
Proof. intros x _. apply claims_nil. Qed.

Lemma cok_orb s g K : cokc g (SK K (pos s)) K -> cokc (fun a => orbG s (g a)) (SK K (pos s)) K.
Proof.
  intros H x Hf. specialize (H x Hf). unfold orbG. destruct (g x) as [[y r] lg]. cbn [g_st g_lg fst snd] in *.
  destruct (is_brk_or_cont s); cbn [g_st g_lg fst snd]; [|exact H].
  eapply claims_frame; [exact H | apply (frame_mark (pos s) EBreak y [pos s]); left; reflexivity | apply SK_not_p].
Qed.

Lemma cok_block_end p g K : cokl g (SL K) K -> ~ In p K -> cokc (fun a => block_endG p (g a)) (SK (p :: K) p) (p :: K).
Proof.
  intros H Hp x Hf. specialize (H x (fresh_incl _ _ _ Hf (incl_tl _ (incl_refl _)))). unfold block_endG.
  destruct (g x) as [[y tops] lg]. cbn [g_st g_lg l_st l_lg fst snd] in *.
  eapply claims_frame; [eapply claims_weak; [exact H | apply SL_up; [apply incl_tl, incl_refl | exact Hp]]| | apply SK_not_p].
  unfold block_end. destruct (s_end (sc y)); apply frame_mark; left; reflexivity.
Qed.

(* with_child_scope: the exit writes at most `start` *)
Lemma cok_with_child kd start g (S : N -> Prop) K x :
  cokc g S K -> fresh x K -> (forall k, S k -> k <> start) ->
  claims (g_lg (with_childG fx kd start g x)) (g_st (with_childG fx kd start g x)) S.
Proof.
  intros H Hf Hs. specialize (H (child_enter kd x) (fresh_info _ _ _ eq_refl Hf)). unfold with_childG.
  destruct (g (child_enter kd x)) as [[c r] lg]. cbn [g_st g_lg fst snd] in *.
  eapply claims_frame; [exact H | apply (frame_child_exit fx kd start x c [start]); left; reflexivity|].
  intros k Hk [E|[]]. apply (Hs k Hk). symmetry. exact E.
Qed.

Lemma cok_fn p pb g K : cokl g (SL K) K -> ~ In p (pb :: K) -> ~ In pb K ->
  cokc (fn_likeG fx p pb g) (SK (p :: pb :: K) p) (p :: pb :: K).
Proof.
  intros H Hp Hpb x Hf. unfold fn_likeG.
  assert (Hs : forall k, SK (pb :: K) pb k -> k <> p) by (intros k [Hk _] ->; exact (Hp Hk)).
  pose proof (cok_with_child KFunction p _ _ _ x (cok_block_end pb g K H Hpb)
                (fresh_incl _ _ _ Hf (incl_tl _ (incl_refl _))) Hs) as HC.
  unfold with_childG in HC. destruct (block_endG pb (g (child_enter KFunction x))) as [[c r] lg]. cbn [g_st g_lg fst snd] in *.
  eapply claims_weak; [exact HC|].
  intros k [Hk Hne]. split; [right; exact Hk | intros ->; exact (Hp Hk)].
Qed.

Lemma cok_arrow p pb g K : cokl g (SL K) K -> ~ In p (pb :: K) -> ~ In pb K ->
  cokc (fun x => let '(y, r, lg) := fn_likeG fx p pb g x in (visit_lit y, r, lg)) (SK (p :: pb :: K) p) (p :: pb :: K).
Proof.
  intros H Hp Hpb x Hf. pose proof (cok_fn p pb g K H Hp Hpb x Hf) as HC.
  destruct (fn_likeG fx p pb g x) as [[y r] lg]. cbn [g_st g_lg fst snd] in *.
  eapply claims_info; [exact HC | apply info_visit_lit].
Qed.

Lemma cok_fn_expr fp pb g K : cokl g (SL K) K -> ~ In fp (pb :: K) -> ~ In pb K ->
  cokc (fn_exprG fx fp pb g) (SK (fp :: pb :: K) fp) (fp :: pb :: K).
Proof.
  intros H Hp Hpb x Hf. pose proof (cok_fn fp pb g K H Hp Hpb x Hf) as HC. unfold fn_exprG.
  destruct (fn_likeG fx fp pb g x) as [[y r] lg]. cbn [g_st g_lg fst snd] in *.
  eapply claims_info; [exact HC | apply info_visit_lit].
Qed.

Lemma cok_for_head fp pb g K : cokl g (SL K) K -> ~ In fp (pb :: K) -> ~ In pb K ->
  cokc (for_headG fx fp pb g) (SK (fp :: pb :: K) fp) (fp :: pb :: K).
Proof.
  intros H Hp Hpb. unfold for_headG. destruct (fixE fx); [apply cok_fn_expr; assumption | intros x _; apply claims_nil].
Qed.

Lemma cokc_up g (S S' : N -> Prop) K K' : cokc g S K -> incl K K' -> (forall k, S k -> S' k) -> cokc g S' K'.
Proof. intros H Hi Hs x Hf. eapply claims_weak; [apply H; eapply fresh_incl; [exact Hf | exact Hi] | exact Hs]. Qed.

(* the head of a loop, then the loop *)
Lemma cok_seq g1 g2 (S1 S2 S : N -> Prop) K1 K2 K :
  cokc g1 S1 K1 -> cokc g2 S2 K2 -> frc g1 K1 -> frc g2 K2 ->
  (forall k, In k K1 -> ~ In k K2) -> incl K1 K -> incl K2 K ->
  (forall k, S1 k -> In k K1) -> (forall k, S1 k -> S k) -> (forall k, S2 k -> S k) ->
  cokc (seqG g1 g2) S K.
Proof.
  intros H1 H2 F1 F2 Hd I1 I2 HS1 W1 W2 x Hf. unfold seqG.
  assert (Hf1 : fresh x K1) by (eapply fresh_incl; [exact Hf | exact I1]).
  specialize (H1 x Hf1). specialize (F1 x Hf1). destruct (g1 x) as [[y r1] lg1]. cbn [g_st g_lg fst snd] in *.
  assert (Hf2 : fresh y K2).
  { eapply fresh_frame; [|exact F1 | intros k Hk Hk'; exact (Hd k Hk' Hk)]. eapply fresh_incl; [exact Hf | exact I2]. }
  specialize (H2 y Hf2). specialize (F2 y Hf2). destruct (g2 y) as [[z r] lg2]. cbn [g_st g_lg fst snd] in *.
  apply claims_app.
  - eapply claims_weak; [eapply claims_frame; [exact H1 | exact F2 | intros k Hk; apply Hd, HS1; exact Hk] | exact W1].
  - eapply claims_weak; [exact H2 | exact W2].
Qed.

Lemma cok_if p c p1 g1 K1 : cokc g1 (SK K1 p1) K1 -> ~ In p K1 ->
  cokc (visit_ifG fx p c p1 g1) (SK (p :: K1) p) (p :: K1).
Proof.
  intros H Hp x Hf. unfold visit_ifG.
  assert (Hf1 : fresh (visit_cond c x) K1).
  { eapply fresh_info; [apply info_visit_cond|]. eapply fresh_incl; [exact Hf | apply incl_tl, incl_refl]. }
  pose proof (cok_with_child KIf p1 g1 _ _ _ H Hf1 (fun k Hk => proj2 Hk)) as HC.
  destruct (with_childG fx KIf p1 g1 (visit_cond c x)) as [[y r] lg]. cbn [g_st g_lg fst snd] in *.
  eapply claims_info; [|reflexivity].
  eapply claims_frame; [eapply claims_weak; [exact HC | apply SK_up; [apply incl_tl, incl_refl | exact Hp]]
                       | apply (frame_mark p EContinue y [p]); left; reflexivity | apply SK_not_p].
Qed.


Lemma cok_if_else p c p1 g1 K1 p2 g2 K2 :
  cokc g1 (SK K1 p1) K1 -> cokc g2 (SK K2 p2) K2 -> frc g1 K1 -> frc g2 K2 ->
  ~ In p (K1 ++ K2) -> (forall k, In k K1 -> ~ In k K2) ->
  cokc (visit_if_elseG fx p c p1 g1 p2 g2) (SK (p :: K1 ++ K2) p) (p :: K1 ++ K2).
Proof.
  intros H1 H2 F1 F2 Hp Hd x Hf. unfold visit_if_elseG.
  assert (Hf1 : fresh (visit_cond c x) K1).
  { eapply fresh_info; [apply info_visit_cond|]. eapply fresh_incl; [exact Hf | apply incl_tl, incl_appl, incl_refl]. }
  pose proof (cok_with_child KIf p1 g1 _ _ _ H1 Hf1 (fun k Hk => proj2 Hk)) as HC1.
  assert (Fr1 : frame (visit_cond c x) (g_st (with_childG fx KIf p1 g1 (visit_cond c x))) K1).
  { unfold with_childG. pose proof (F1 (child_enter KIf (visit_cond c x)) (fresh_info _ _ _ eq_refl Hf1)) as Fc.
    destruct (g1 (child_enter KIf (visit_cond c x))) as [[c1 r1] lg1]. cbn [g_st fst snd] in *.
    eapply frame_trans; [exact Fc | apply frame_info, info_child_exit_if]. }
  destruct (with_childG fx KIf p1 g1 (visit_cond c x)) as [[x2 r1] lg1]. cbn [g_st g_lg fst snd] in *.
  assert (Hf2 : fresh x2 K2).
  { eapply fresh_frame; [|exact Fr1 | intros k Hk Hk'; exact (Hd k Hk' Hk)].
    eapply fresh_info; [apply info_visit_cond|]. eapply fresh_incl; [exact Hf | apply incl_tl, incl_appr, incl_refl]. }
  pose proof (cok_with_child KIf p2 g2 _ _ _ H2 Hf2 (fun k Hk => proj2 Hk)) as HC2.
  assert (Fr2 : frame x2 (g_st (with_childG fx KIf p2 g2 x2)) K2).
  { unfold with_childG. pose proof (F2 (child_enter KIf x2) (fresh_info _ _ _ eq_refl Hf2)) as Fc.
    destruct (g2 (child_enter KIf x2)) as [[c2 r2'] lg2']. cbn [g_st fst snd] in *.
    eapply frame_trans; [exact Fc | apply frame_info, info_child_exit_if]. }
  destruct (with_childG fx KIf p2 g2 x2) as [[x3 r2] lg2]. cbn [g_st g_lg fst snd] in *.
  assert (Hn1 : ~ In p K1) by (intros Hk; apply Hp, in_or_app; left; exact Hk).
  assert (Hn2 : ~ In p K2) by (intros Hk; apply Hp, in_or_app; right; exact Hk).
  assert (Ft : frame x3 (if_else_end p r1 r2 x3) [p]).
  { unfold if_else_end. destruct (if_else_mark r1 r2); [apply frame_mark; left; reflexivity | apply frame_info; reflexivity]. }
  apply claims_app.
  - eapply claims_frame; [|exact Ft | apply SK_not_p].
    eapply claims_weak; [|apply (SK_up K1 p1); [apply incl_tl, incl_appl, incl_refl | exact Hn1]].
    eapply claims_frame; [exact HC1 | exact Fr2 | intros k [Hk _]; exact (Hd k Hk)].
  - eapply claims_frame; [|exact Ft | apply SK_not_p].
    eapply claims_weak; [exact HC2 | apply SK_up; [apply incl_tl, incl_appr, incl_refl | exact Hn2]].
Qed.

(* loops: after the body only the body's own key `lo` (and the loop's key p) are written *)
Lemma cok_while p c lo g K : cokc g (SK K lo) K -> In lo K -> ~ In p K ->
  cokc (visit_whileG fx c lo g) (SK (p :: K) p) (p :: K).
Proof.
  intros H Hlo Hp x Hf. unfold visit_whileG.
  set (x0 := if fixF fx then visit_cond c x else x).
  assert (Ix : info x0 = info x) by (unfold x0; destruct (fixF fx); [apply info_visit_cond | reflexivity]).
  assert (Hf0 : fresh (child_enter KLoop x0) K).
  { eapply fresh_info; [cbn [child_enter with_sc info]; exact Ix|]. eapply fresh_incl; [exact Hf | apply incl_tl, incl_refl]. }
  specialize (H (child_enter KLoop x0) Hf0).
  destruct (g (child_enter KLoop x0)) as [[a r] lg]. cbn [g_st g_lg fst snd] in *.
  eapply claims_weak; [|apply (SK_up K lo); [apply incl_tl, incl_refl | exact Hp]].
  eapply claims_frame; [exact H | | apply SK_not_p].
  eapply frame_trans; [apply (frame_while_post r c lo a [lo]); left; reflexivity|].
  eapply frame_trans; [apply frame_child_exit; left; reflexivity|].
  destruct (fixF fx); [apply frame_refl | apply frame_info, info_visit_cond].
Qed.

Lemma cok_do_while p c lo g K : cokc g (SK K lo) K -> In lo K -> ~ In p K ->
  cokc (visit_do_whileG fx p c lo g) (SK (p :: K) p) (p :: K).
Proof.
  intros H Hlo Hp x Hf. unfold visit_do_whileG.
  specialize (H (child_enter KLoop x) (fresh_info _ _ _ eq_refl (fresh_incl _ _ _ Hf (incl_tl _ (incl_refl _))))).
  destruct (g (child_enter KLoop x)) as [[a r] lg]. cbn [g_st g_lg fst snd] in *.
  eapply claims_frame; [eapply claims_weak; [|apply (SK_up K lo); [apply incl_tl, incl_refl | exact Hp]]| | apply SK_not_p].
  - eapply claims_frame; [exact H | | apply SK_not_p].
    eapply frame_trans; [apply (frame_dowhile_post fx r c lo a [lo]); left; reflexivity | apply frame_child_exit; left; reflexivity].
  - unfold dowhile_tail. eapply frame_trans; [|apply frame_info, info_dowhile_test].
    match goal with |- frame _ (match ?o with _ => _ end) _ => destruct o as [e|] end;
      [destruct (is_forced e); [apply frame_mark; left; reflexivity | apply frame_refl] | apply frame_refl].
Qed.

Lemma cok_for p c lo g K : cokc g (SK K lo) K -> In lo K -> ~ In p K ->
  cokc (visit_forG fx p c lo g) (SK (p :: K) p) (p :: K).
Proof.
  intros H Hlo Hp x Hf. unfold visit_forG.
  set (x' := match c with Some c0 => visit_cond c0 x | None => x end).
  assert (Ix' : info x' = info x) by (unfold x'; destruct c; [apply info_visit_cond | reflexivity]).
  specialize (H (child_enter KLoop x') (fresh_info _ _ _ Ix' (fresh_incl _ _ _ Hf (incl_tl _ (incl_refl _))))).
  destruct (g (child_enter KLoop x')) as [[a r] lg]. cbn [g_st g_lg fst snd] in *.
  eapply claims_weak; [|apply (SK_up K lo); [apply incl_tl, incl_refl | exact Hp]].
  eapply claims_frame; [exact H | |].
  - eapply frame_trans; [apply (frame_for_post r p c lo a [lo; p]); [left; reflexivity | right; left; reflexivity]|].
    apply frame_child_exit. left. reflexivity.
  - intros k [Hk Hne] [E'|[E'|[]]]; [apply Hne; symmetry; exact E' | subst k; exact (Hp Hk)].
Qed.

Lemma cok_for_in p lo g K : cokc g (SK K lo) K -> In lo K -> ~ In p K ->
  cokc (visit_for_inG fx lo g) (SK (p :: K) p) (p :: K).
Proof.
  intros H Hlo Hp x Hf. unfold visit_for_inG.
  specialize (H (child_enter KLoop x) (fresh_info _ _ _ eq_refl (fresh_incl _ _ _ Hf (incl_tl _ (incl_refl _))))).
  destruct (g (child_enter KLoop x)) as [[a r] lg]. cbn [g_st g_lg fst snd] in *.
  eapply claims_weak; [|apply (SK_up K lo); [apply incl_tl, incl_refl | exact Hp]].
  eapply claims_frame; [exact H | | apply SK_not_p].
  eapply frame_trans; [|apply frame_child_exit; left; reflexivity].
  unfold forin_post. eapply frame_trans; [apply frame_mark; left; reflexivity | apply frame_info; reflexivity].
Qed.

Lemma cok_label p l g K pb : cokc g (SK K pb) K -> ~ In p K ->
  cokc (fun x => let '(y, _, lg) := with_childG fx (KLabel l) p g x in (y, None, lg)) (SK (p :: K) p) (p :: K).
Proof.
  intros H Hp x Hf.
  assert (Hs : forall k, SK K pb k -> k <> p) by (intros k [Hk _] ->; exact (Hp Hk)).
  pose proof (cok_with_child (KLabel l) p g _ _ x H (fresh_incl _ _ _ Hf (incl_tl _ (incl_refl _))) Hs) as HC.
  destruct (with_childG fx (KLabel l) p g x) as [[y r] lg]. cbn [g_st g_lg fst snd] in *.
  eapply claims_weak; [exact HC | apply SK_up; [apply incl_tl, incl_refl | exact Hp]].
Qed.

(* lists *)
Lemma cok_nil S : cokl (fun y => (y, [], [])) S [].
Proof. intros x _. apply claims_nil. Qed.

Lemma cok_cons s g1 g2 K1 K2 p1 :
  cokc g1 (SK K1 p1) K1 -> cokl g2 (SL K2) K2 -> frc g1 K1 -> frl g2 K2 -> (forall k, In k K1 -> ~ In k K2) ->
  cokl (consG s g1 g2) (SL (K1 ++ K2)) (K1 ++ K2).
Proof.
  intros H1 H2 F1 F2 Hd x Hf. unfold consG.
  assert (Hf1 : fresh x K1) by (eapply fresh_incl; [exact Hf | apply incl_appl, incl_refl]).
  specialize (H1 x Hf1). specialize (F1 x Hf1). destruct (g1 x) as [[y1 r1] lg1]. cbn [g_st g_lg fst snd] in *.
  assert (Hf2 : fresh y1 K2).
  { eapply fresh_frame; [|exact F1 | intros k Hk Hk'; exact (Hd k Hk' Hk)]. eapply fresh_incl; [exact Hf | apply incl_appr, incl_refl]. }
  specialize (H2 y1 Hf2). specialize (F2 y1 Hf2). destruct (g2 y1) as [[y2 tops] lg2]. cbn [l_st l_lg fst snd] in *.
  apply claims_app.
  - eapply claims_weak; [eapply claims_frame; [exact H1 | exact F2 | intros k [Hk _]; exact (Hd k Hk)]|].
    intros k [Hk _]. apply in_or_app. left. exact Hk.
  - eapply claims_weak; [exact H2 | intros k Hk; apply in_or_app; right; exact Hk].
Qed.

Lemma pos_in_keys_l b t : In t (stmts_to_list b) -> In (pos t) (keys_l b).
Proof.
  induction b as [|t' r IH] using stmts_list_ind; cbn [stmts_to_list keys_l]; [intros []|].
  intros [<-|Hin]; apply in_or_app; [left; apply pos_in_keys | right; apply IH; exact Hin].
Qed.

(* a switch case: the new log entry *)
Lemma cok_case cp b :
  NoDup (keys_l b) -> cokl (anG_list fx b) (SL (keys_l b)) (keys_l b) -> ~ In cp (keys_l b) ->
  cokc (visit_caseG fx cp b (anG_list fx b)) (SK (cp :: keys_l b) cp) (cp :: keys_l b).
Proof.
  intros Hn H Hcp y Hf. unfold visit_caseG.
  assert (Hf1 : fresh (child_enter KCase y) (keys_l b)).
  { eapply fresh_info; [reflexivity|]. eapply fresh_incl; [exact Hf | apply incl_tl, incl_refl]. }
  specialize (H _ Hf1). pose proof (case_flag_at_list_end b Hn _ Hf1) as HT.
  destruct (anG_list fx b (child_enter KCase y)) as [[c tops] lg]. cbn [g_st g_lg l_st l_tops l_lg fst snd] in *.
  assert (Ft : frame c (set_end (mark_as_end cp (case_end_of (sc c)) (child_exit fx KCase cp y c)) (s_end (sc y))) [cp]).
  { eapply frame_trans; [apply frame_info, info_child_exit_case|].
    eapply frame_trans; [apply frame_mark; left; reflexivity | apply frame_info; reflexivity]. }
  intros b' lv s [E|Hin].
  - injection E as <- _ <-. split.
    + intros t Ht. split; [right; apply pos_in_keys_l; exact Ht | intros Eq; apply Hcp; rewrite <- Eq; apply pos_in_keys_l; exact Ht].
    + rewrite <- HT. apply any_stops_stable. intros t Ht. apply Ft. intros [Eq|[]]. apply Hcp. rewrite Eq. apply pos_in_keys_l. exact Ht.
  - revert b' lv s Hin. change (claims lg (set_end (mark_as_end cp (case_end_of (sc c)) (child_exit fx KCase cp y c)) (s_end (sc y))) (SK (cp :: keys_l b) cp)).
    eapply claims_frame; [eapply claims_weak; [exact H | apply SL_up; [apply incl_tl, incl_refl | exact Hcp]] | exact Ft | apply SK_not_p].
Qed.

Lemma cok_nilC S : cokcs (fun y => (y, [], [])) S [].
Proof. intros x _. apply claims_nil. Qed.

Lemma cok_consC g1 g2 K1 K2 p1 :
  cokc g1 (SK K1 p1) K1 -> cokcs g2 (SL K2) K2 -> frc g1 K1 -> frcs g2 K2 -> (forall k, In k K1 -> ~ In k K2) ->
  cokcs (consC g1 g2) (SL (K1 ++ K2)) (K1 ++ K2).
Proof.
  intros H1 H2 F1 F2 Hd x Hf. unfold consC.
  assert (Hf1 : fresh x K1) by (eapply fresh_incl; [exact Hf | apply incl_appl, incl_refl]).
  specialize (H1 x Hf1). specialize (F1 x Hf1). destruct (g1 x) as [[y1 r1] lg1]. cbn [g_st g_lg fst snd] in *.
  assert (Hf2 : fresh y1 K2).
  { eapply fresh_frame; [|exact F1 | intros k Hk Hk'; exact (Hd k Hk' Hk)]. eapply fresh_incl; [exact Hf | apply incl_appr, incl_refl]. }
  specialize (H2 y1 Hf2). specialize (F2 y1 Hf2). destruct (g2 y1) as [[y2 rs] lg2]. cbn [c_st c_lg fst snd] in *.
  apply claims_app.
  - eapply claims_weak; [eapply claims_frame; [exact H1 | exact F2 | intros k [Hk _]; exact (Hd k Hk)]|].
    intros k [Hk _]. apply in_or_app. left. exact Hk.
  - eapply claims_weak; [exact H2 | intros k Hk; apply in_or_app; right; exact Hk].
Qed.

Lemma cok_switch p cs g K : cokcs g (SL K) K -> ~ In p K -> cokc (visit_switchG p cs g) (SK (p :: K) p) (p :: K).
Proof.
  intros H Hp x Hf. unfold visit_switchG. specialize (H x (fresh_incl _ _ _ Hf (incl_tl _ (incl_refl _)))).
  destruct (g x) as [[x1 rs] lg]. cbn [g_st g_lg c_st c_lg fst snd] in *.
  eapply claims_frame; [eapply claims_weak; [exact H | apply SL_up; [apply incl_tl, incl_refl | exact Hp]]| | apply SK_not_p].
  unfold switch_tail. match goal with |- frame _ (if ?b then _ else _) _ => destruct b end;
    [apply frame_mark; left; reflexivity | eapply frame_trans; [apply frame_mark; left; reflexivity | apply frame_info; reflexivity]].
Qed.


(* try *)
Lemma cok_handler cp hbp prev g Kh x :
  cokl g (SL Kh) Kh -> ~ In hbp Kh -> ~ In cp (hbp :: Kh) -> fresh x (hbp :: Kh) ->
  claims (snd (try_handlerG fx cp hbp prev g x)) (fst (try_handlerG fx cp hbp prev g x)) (SK (hbp :: Kh) hbp).
Proof.
  intros H Hh Hcp Hf. unfold try_handlerG.
  set (xa := set_mt (if s_mt (sc x) then set_end x prev else x) false).
  assert (Ixa : info xa = info x) by (unfold xa; destruct (s_mt (sc x)); reflexivity).
  assert (Hs : forall k, SK (hbp :: Kh) hbp k -> k <> cp) by (intros k [Hk _] ->; exact (Hcp Hk)).
  pose proof (cok_with_child KCatch cp _ _ _ xa (cok_block_end hbp g Kh H Hh) (fresh_info _ _ _ Ixa Hf) Hs) as HC.
  destruct (with_childG fx KCatch cp (fun a => block_endG hbp (g a)) xa) as [[xb r] lg]. cbn [g_st g_lg fst snd] in *.
  destruct (s_mt (sc x)); (eapply claims_info; [exact HC|]); [apply info_tcm | reflexivity].
Qed.

Lemma cok_finalizer fp prev g Kf x :
  cokl g (SL Kf) Kf -> ~ In fp Kf -> fresh x (fp :: Kf) ->
  claims (snd (try_finalizerG fx fp prev g x)) (fst (try_finalizerG fx fp prev g x)) (SK (fp :: Kf) fp).
Proof.
  intros H Hfp Hf. unfold try_finalizerG.
  pose proof (cok_with_child KFinally fp _ _ _ (set_end x prev) (cok_block_end fp g Kf H Hfp) (fresh_info _ _ _ eq_refl Hf)
                (fun k Hk => proj2 Hk)) as HC.
  destruct (with_childG fx KFinally fp (fun a => block_endG fp (g a)) (set_end x prev)) as [[xb r] lg]. cbn [g_st g_lg fst snd] in *.
  eapply claims_info; [exact HC | apply info_tfm].
Qed.

Lemma cok_try p bp mb gb Kb h mh gh Kh f mf gf Kf :
  cokl gb (SL Kb) Kb -> sim_l Kb mb gb ->
  (h <> None -> cokl gh (SL Kh) Kh /\ sim_l Kh mh gh) ->
  (f <> None -> cokl gf (SL Kf) Kf /\ sim_l Kf mf gf) ->
  NoDup (p :: bp :: Kb ++ try_hkeys h Kh ++ try_fkeys f Kf) ->
  cokc (visit_tryG fx p bp gb h gh f gf) (SK (p :: bp :: Kb ++ try_hkeys h Kh ++ try_fkeys f Kf) p)
       (p :: bp :: Kb ++ try_hkeys h Kh ++ try_fkeys f Kf).
Proof.
  intros Hb Sb Hh Hff Hn x Hf. unfold visit_tryG.
  set (KK := p :: bp :: Kb ++ try_hkeys h Kh ++ try_fkeys f Kf) in *.
  assert (Hn0 := Hn).
  apply NoDup_cons_inv in Hn. destruct Hn as [Hp Hn]. apply NoDup_cons_inv in Hn. destruct Hn as [Hbp Hn].
  apply NoDup_app_inv in Hn. destruct Hn as [_ [Hn D1]]. apply NoDup_app_inv in Hn. destruct Hn as [Nh [Nf D2]].
  assert (I1 : incl (bp :: Kb) KK) by (unfold KK; apply incl_tl; intros k [<-|Hk]; [left; reflexivity | right; apply in_or_app; left; exact Hk]).
  assert (I2 : incl (try_hkeys h Kh) KK) by (unfold KK; apply incl_tl, incl_tl, incl_appr, incl_appl, incl_refl).
  assert (I3 : incl (try_fkeys f Kf) KK) by (unfold KK; apply incl_tl, incl_tl, incl_appr, incl_appr, incl_refl).
  assert (Hbp' : ~ In bp Kb) by (intros Hk; apply Hbp, in_or_app; left; exact Hk).
  (* block *)
  assert (Hf0 : fresh (set_mt x false) (bp :: Kb)) by (eapply fresh_info; [reflexivity|]; eapply fresh_incl; [exact Hf | exact I1]).
  pose proof (cok_block_end bp gb Kb Hb Hbp' _ Hf0) as C1.
  destruct (sim_block_end bp mb gb Kb Sb _ Hf0) as [_ [_ F1]].
  destruct (block_endG bp (gb (set_mt x false))) as [[x1 r1] lg1]. cbn [g_st g_lg fst snd] in *.
  assert (Fx1 : frame x x1 (bp :: Kb)) by (eapply frame_trans; [apply (frame_info x (set_mt x false)); reflexivity | exact F1]).
  (* handler *)
  assert (H2 : exists x2 lg2, (match h with Some (cp, hbp) => try_handlerG fx cp hbp (s_end (sc x)) gh x1 | None => (x1, []) end) = (x2, lg2) /\
              frame x1 x2 (try_hkeys h Kh) /\ claims lg2 x2 (SK (try_hkeys h Kh) p)).
  { destruct h as [[cp hbp]|].
    - destruct (Hh ltac:(discriminate)) as [Ch Sh]. cbn [try_hkeys] in *.
      apply NoDup_cons_inv in Nh. destruct Nh as [Ncp Nh]. apply NoDup_cons_inv in Nh. destruct Nh as [Nhbp _].
      assert (Hfh : fresh x1 (hbp :: Kh)).
      { eapply fresh_frame; [|exact Fx1|].
        - eapply fresh_incl; [exact Hf|]. eapply incl_tran; [|exact I2]. apply incl_tl, incl_refl.
        - intros k Hk Hk'. destruct Hk' as [<-|Hk']; [apply Hbp; apply in_or_app; right; apply in_or_app; left; right; exact Hk|].
          apply (D1 k Hk'). apply in_or_app. left. right. exact Hk. }
      destruct (sim_handler fx cp hbp (s_end (sc x)) mh gh Kh x1 Sh Hfh) as [_ Fh].
      pose proof (cok_handler cp hbp (s_end (sc x)) gh Kh x1 Ch Nhbp Ncp Hfh) as CH.
      destruct (try_handlerG fx cp hbp (s_end (sc x)) gh x1) as [x2 lg2]. exists x2, lg2. cbn [fst snd] in *.
      dsplit; [reflexivity | exact Fh|].
      eapply claims_weak; [exact CH|]. apply SK_up; [apply incl_tl, incl_refl|].
      intros Hk. apply Hp. right. apply in_or_app. right. apply in_or_app. left. right. exact Hk.
    - exists x1, []. dsplit; [reflexivity | apply frame_refl | apply claims_nil]. }
  destruct H2 as [x2 [lg2 [G2 [F2 C2]]]]. rewrite G2.
  (* finalizer *)
  assert (H3 : exists x3 lg3, (match f with Some fp => try_finalizerG fx fp (s_end (sc x)) gf x2 | None => (x2, []) end) = (x3, lg3) /\
              frame x2 x3 (try_fkeys f Kf) /\ claims lg3 x3 (SK KK p)).
  { destruct f as [fp|].
    - destruct (Hff ltac:(discriminate)) as [Cf Sf]. cbn [try_fkeys] in *.
      apply NoDup_cons_inv in Nf. destruct Nf as [Nfp _].
      assert (Hff' : fresh x2 (fp :: Kf)).
      { eapply fresh_frame; [|exact F2|].
        + eapply fresh_frame; [|exact Fx1|].
          * eapply fresh_incl; [exact Hf | exact I3].
          * intros k Hk Hk'. destruct Hk' as [<-|Hk']; [apply Hbp; apply in_or_app; right; apply in_or_app; right; exact Hk|].
            apply (D1 k Hk'). apply in_or_app. right. exact Hk.
        + intros k Hk Hk'. exact (D2 k Hk' Hk). }
      destruct (sim_finalizer fx fp (s_end (sc x)) mf gf Kf x2 Sf Hff') as [_ Ff].
      pose proof (cok_finalizer fp (s_end (sc x)) gf Kf x2 Cf Nfp Hff') as CF.
      destruct (try_finalizerG fx fp (s_end (sc x)) gf x2) as [x3 lg3]. exists x3, lg3. cbn [fst snd] in *.
      dsplit; [reflexivity | exact Ff|].
      eapply claims_weak; [exact CF|]. apply SK_up; [exact I3|].
      intros Hk. apply Hp. right. apply in_or_app. right. apply in_or_app. right. exact Hk.
    - exists x2, []. dsplit; [reflexivity | apply frame_refl | apply claims_nil]. }
  destruct H3 as [x3 [lg3 [G3 [F3 C3]]]]. rewrite G3. cbn [g_st g_lg fst snd].
  assert (Ft : frame x3 (try_finish p (s_mt (sc x)) x3) [p]).
  { unfold try_finish. destruct (s_end (sc x3)); [eapply frame_trans; [apply frame_mark; left; reflexivity | apply frame_info; reflexivity] | apply frame_info; reflexivity]. }
  assert (Hin_b : forall k, SK (bp :: Kb) bp k -> In k Kb).
  { intros k [[E|Hk] Hne]; [exfalso; apply Hne; symmetry; exact E | exact Hk]. }
  apply claims_app; [|apply claims_app].
  - eapply claims_frame; [|exact Ft | apply SK_not_p].
    eapply claims_weak; [|apply (SK_up (bp :: Kb) bp); [exact I1|]].
    + eapply claims_frame; [eapply claims_frame; [exact C1 | exact F2|] | exact F3|].
      * intros k Hk Hk'. apply (D1 k (Hin_b k Hk)). apply in_or_app. left. exact Hk'.
      * intros k Hk Hk'. apply (D1 k (Hin_b k Hk)). apply in_or_app. right. exact Hk'.
    + intros [<-|Hk]; apply Hp; [left; reflexivity | right; apply in_or_app; left; exact Hk].
  - eapply claims_frame; [|exact Ft | apply SK_not_p].
    eapply claims_weak; [eapply claims_frame; [exact C2 | exact F3 | intros k [Hk _]; exact (D2 k Hk)]|].
    intros k [Hk Hne]. split; [apply I2; exact Hk | exact Hne].
  - eapply claims_frame; [exact C3 | exact Ft | apply SK_not_p].
Qed.


(* the induction for part B *)
Lemma cokc_ext g g' S K : (forall x, g x = g' x) -> cokc g' S K -> cokc g S K.
Proof. intros E H x Hf. rewrite E. apply H. exact Hf. Qed.
Lemma cokl_ext g g' S K : (forall x, g x = g' x) -> cokl g' S K -> cokl g S K.
Proof. intros E H x Hf. rewrite E. apply H. exact Hf. Qed.
Lemma cokcs_ext g g' S K : (forall x, g x = g' x) -> cokcs g' S K -> cokcs g S K.
Proof. intros E H x Hf. rewrite E. apply H. exact Hf. Qed.

Definition cokS (s : stmt) : Prop := NoDup (keys s) -> cokc (anG fx s) (SK (keys s) (pos s)) (keys s).
Definition cokL (l : stmts) : Prop := NoDup (keys_l l) -> cokl (anG_list fx l) (SL (keys_l l)) (keys_l l).
Definition cokC (cs : cases) : Prop := NoDup (keys_c cs) -> cokcs (anG_cases fx cs) (SL (keys_c cs)) (keys_c cs).

Lemma frc_stmt s : NoDup (keys s) -> frc (anG fx s) (keys s).
Proof. intros Hn x Hf. destruct (an_anG fx) as [HS _]. apply (HS s Hn x Hf). Qed.
Lemma frc_orb s : NoDup (keys s) -> frc (fun a => orbG s (anG fx s a)) (keys s).
Proof. intros Hn x Hf. destruct (an_anG fx) as [HS _]. apply (simS_orb fx s (HS s) Hn x Hf). Qed.
Lemma frl_list l : NoDup (keys_l l) -> frl (anG_list fx l) (keys_l l).
Proof. intros Hn x Hf. destruct (an_anG fx) as [_ [HL _]]. apply (HL l Hn x Hf). Qed.
Lemma frcs_cases cs : NoDup (keys_c cs) -> frcs (anG_cases fx cs) (keys_c cs).
Proof. intros Hn x Hf. destruct (an_anG fx) as [_ [_ HC]]. apply (HC cs Hn x Hf). Qed.
Lemma frc_case cp b : NoDup (keys_l b) -> frc (visit_caseG fx cp b (anG_list fx b)) (cp :: keys_l b).
Proof. intros Hn x Hf. destruct (an_anG fx) as [_ [HL _]]. apply (sim_case fx cp b _ _ _ (HL b Hn) x Hf). Qed.

(* a step that leaves the map alone, before a closure *)
Lemma cokc_pre g S K (f : st -> st) : cokc g S K -> (forall x, info (f x) = info x) -> cokc (fun x => g (f x)) S K.
Proof. intros H Hi x Hf. apply H. eapply fresh_info; [apply Hi | exact Hf]. Qed.
Lemma frc_pre g K (f : st -> st) : frc g K -> (forall x, info (f x) = info x) -> frc (fun x => g (f x)) K.
Proof.
  intros H Hi x Hf. eapply frame_trans; [apply (frame_info x (f x)); apply Hi|]. apply H. eapply fresh_info; [apply Hi | exact Hf].
Qed.

Lemma cokS_orb s : cokS s -> NoDup (keys s) -> cokc (fun a => orbG s (anG fx s a)) (SK (keys s) (pos s)) (keys s).
Proof. intros H Hn. apply cok_orb. apply H. exact Hn. Qed.

Ltac wrapc s V := eapply cokc_ext; [intros x; reflexivity|]; apply (cok_wrap s V).
Ltac leafc s V := wrapc s V; intros x _; apply claims_nil.

Theorem case_flags_stable : (forall s, cokS s) /\ (forall l, cokL l) /\ (forall cs, cokC cs).
Proof.
  apply stmt_mutind.
  - intros p e Hn. leafc (SExpr p e) (fun x => (visit_e e x, @None End, @nil gent)).
  - intros p Hn. leafc (SEmpty p) (fun x : st => (x, @None End, @nil gent)).
  - intros p v i Hn. leafc (SVar p v i) (fun x => (match i with Some e => visit_e e x | None => x end, @None End, @nil gent)).
  - intros p n pb b IHb Hn. cbn [keys] in Hn. destruct (NoDup_cons_inv _ _ Hn) as [Hp Hn']. destruct (NoDup_cons_inv _ _ Hn') as [Hpb Hnb].
    wrapc (SFnDecl p n pb b) (fn_likeG fx p pb (anG_list fx b)). apply cok_fn; [apply IHb; exact Hnb | exact Hp | exact Hpb].
  - intros p pb b IHb Hn. cbn [keys] in Hn. destruct (NoDup_cons_inv _ _ Hn) as [Hp Hn']. destruct (NoDup_cons_inv _ _ Hn') as [Hpb Hnb].
    wrapc (SArrowStmt p pb b) (fun x => let '(y, r, lg) := fn_likeG fx p pb (anG_list fx b) x in (visit_lit y, r, lg)).
    apply cok_arrow; [apply IHb; exact Hnb | exact Hp | exact Hpb].
  - intros p gp pb b IHb Hn. cbn [keys] in Hn. destruct (NoDup_cons_inv _ _ Hn) as [Hp Hn']. destruct (NoDup_cons_inv _ _ Hn') as [Hgp Hn''].
    destruct (NoDup_cons_inv _ _ Hn'') as [Hpb Hnb].
    wrapc (SGetterStmt p gp pb b) (fn_exprG fx gp pb (anG_list fx b)).
    apply (cokc_up _ (SK (gp :: pb :: keys_l b) gp) _ (gp :: pb :: keys_l b)); [apply cok_fn_expr; [apply IHb; exact Hnb | exact Hgp | exact Hpb] | apply incl_tl, incl_refl|].
    cbn [keys pos]. apply SK_up; [apply incl_tl, incl_refl | exact Hp].
  - intros p a Hn. leafc (SRet p a) (fun x => let '(y, r) := visit_returnG p a x in (y, r, @nil gent)).
  - intros p e Hn. leafc (SThrow p e) (fun x => let '(y, r) := visit_throwG fx p e x in (y, r, @nil gent)).
  - intros p l Hn. leafc (SBrk p l) (fun x => (visit_break fx l x, @None End, @nil gent)).
  - intros p l Hn. leafc (SCont p l) (fun x => (set_fc x true, @None End, @nil gent)).
  - intros p b IHb Hn. cbn [keys] in Hn. destruct (NoDup_cons_inv _ _ Hn) as [Hp Hnb].
    wrapc (SBlock p b) (fun a => block_endG p (anG_list fx b a)). apply cok_block_end; [apply IHb; exact Hnb | exact Hp].
  - intros p c a IHa Hn. cbn [keys] in Hn. destruct (NoDup_cons_inv _ _ Hn) as [Hp Hna].
    wrapc (SIf p c a) (visit_ifG fx p c (pos a) (fun y => orbG a (anG fx a y))). apply cok_if; [apply cokS_orb; assumption | exact Hp].
  - intros p c a IHa b IHb Hn. cbn [keys] in Hn. destruct (NoDup_cons_inv _ _ Hn) as [Hp Hn']. destruct (NoDup_app_inv _ _ Hn') as [Hna [Hnb Hd]].
    wrapc (SIfElse p c a b) (visit_if_elseG fx p c (pos a) (fun y => orbG a (anG fx a y)) (pos b) (fun y => orbG b (anG fx b y))).
    apply cok_if_else; [apply cokS_orb; assumption | apply cokS_orb; assumption | apply frc_orb; exact Hna | apply frc_orb; exact Hnb | exact Hp | exact Hd].
  - intros p c b IHb Hn. cbn [keys] in Hn. destruct (NoDup_cons_inv _ _ Hn) as [Hp Hnb].
    wrapc (SWhile p c b) (visit_whileG fx c (pos b) (anG fx b)). apply cok_while; [apply IHb; exact Hnb | apply pos_in_keys | exact Hp].
  - intros p b IHb c Hn. cbn [keys] in Hn. destruct (NoDup_cons_inv _ _ Hn) as [Hp Hnb].
    wrapc (SDoWhile p b c) (visit_do_whileG fx p c (pos b) (anG fx b)). apply cok_do_while; [apply IHb; exact Hnb | apply pos_in_keys | exact Hp].
  - intros p i c u b IHb Hn. cbn [keys] in Hn. destruct (NoDup_cons_inv _ _ Hn) as [Hp Hnb].
    wrapc (SFor p i c u b) (fun x => visit_forG fx p c (pos b) (anG fx b) (visit_oe u (visit_oe i x))).
    apply (cokc_pre _ _ _ (fun x => visit_oe u (visit_oe i x))); [apply cok_for; [apply IHb; exact Hnb | apply pos_in_keys | exact Hp]|].
    intros x. rewrite !info_visit_oe. reflexivity.
  - intros p b IHb Hn. cbn [keys] in Hn. destruct (NoDup_cons_inv _ _ Hn) as [Hp Hnb].
    wrapc (SForIn p b) (visit_for_inG fx (pos b) (anG fx b)). apply cok_for_in; [apply IHb; exact Hnb | apply pos_in_keys | exact Hp].
  - intros p b IHb Hn. cbn [keys] in Hn. destruct (NoDup_cons_inv _ _ Hn) as [Hp Hnb].
    wrapc (SForOf p b) (visit_for_inG fx (pos b) (anG fx b)). apply cok_for_in; [apply IHb; exact Hnb | apply pos_in_keys | exact Hp].
  - intros p g fp pb hb IHh b IHb Hn. cbn [keys] in Hn. destruct (NoDup_cons_inv _ _ Hn) as [Hp Hn'].
    destruct (NoDup_app_inv _ _ Hn') as [Hnh [Hnb Hd]].
    destruct (NoDup_cons_inv _ _ Hnh) as [Hfp Hnh']. destruct (NoDup_cons_inv _ _ Hnh') as [Hpb Hnhb].
    assert (Hpb' : ~ In p (keys b)) by (intros Hk; apply Hp; apply in_or_app; right; exact Hk).
    destruct (an_anG fx) as [HS [HL _]].
    wrapc (SForHead p g fp pb hb b) (seqG (for_headG fx fp pb (anG_list fx hb)) (visit_for_inG fx (pos b) (anG fx b))).
    cbn [keys pos].
    apply (cok_seq _ _ (SK (fp :: pb :: keys_l hb) fp) (SK (p :: keys b) p) _ (fp :: pb :: keys_l hb) (p :: keys b)).
    + apply cok_for_head; [apply IHh; exact Hnhb | exact Hfp | exact Hpb].
    + apply cok_for_in; [apply IHb; exact Hnb | apply pos_in_keys | exact Hpb'].
    + intros x Hf. apply (sim0_for_head fx fp pb _ _ _ (HL hb Hnhb) Hfp x Hf).
    + intros x Hf. apply (sim_for_in fx p (pos b) _ _ _ (HS b Hnb) (pos_in_keys b) Hpb' x Hf).
    + intros k Hk [<- | Hk']; [apply Hp; apply in_or_app; left; exact Hk | exact (Hd k Hk Hk')].
    + intros k Hk. right. apply in_or_app. left. exact Hk.
    + intros k [<- | Hk]; [left; reflexivity | right; apply in_or_app; right; exact Hk].
    + intros k [Hk _]. exact Hk.
    + intros k [Hk _]. split; [right; apply in_or_app; left; exact Hk | intros ->; apply Hp; apply in_or_app; left; exact Hk].
    + intros k [[<- | Hk] Hne]; [contradiction Hne; reflexivity|]. split; [right; apply in_or_app; right; exact Hk | exact Hne].
  - intros p cs IHc Hn. cbn [keys] in Hn. destruct (NoDup_cons_inv _ _ Hn) as [Hp Hnc].
    wrapc (SSwitch p cs) (visit_switchG p cs (anG_cases fx cs)). apply cok_switch; [apply IHc; exact Hnc | exact Hp].
  - intros p l b IHb Hn. cbn [keys] in Hn. destruct (NoDup_cons_inv _ _ Hn) as [Hp Hnb].
    wrapc (SLabel p l b) (fun x => let '(y, _, lg) := with_childG fx (KLabel l) p (fun a => orbG b (anG fx b a)) x in (y, @None End, lg)).
    apply (cok_label p l _ _ (pos b)); [apply cokS_orb; assumption | exact Hp].
  - intros p bp blk IHb h hb IHh f fb IHf Hn.
    assert (Hk : keys (STry p bp blk h hb f fb) = p :: bp :: keys_l blk ++ try_hkeys h (keys_l hb) ++ try_fkeys f (keys_l fb)).
    { cbn [keys]. destruct h as [[cp hbp]|], f; reflexivity. }
    unfold cokS in *. rewrite Hk in Hn |- *. assert (Hn0 := Hn).
    apply NoDup_cons_inv in Hn. destruct Hn as [_ Hn]. apply NoDup_cons_inv in Hn. destruct Hn as [_ Hn].
    apply NoDup_app_inv in Hn. destruct Hn as [Nb [Hn _]]. apply NoDup_app_inv in Hn. destruct Hn as [Nh [Nf _]].
    destruct (an_anG fx) as [_ [HL _]].
    wrapc (STry p bp blk h hb f fb) (visit_tryG fx p bp (anG_list fx blk) h (anG_list fx hb) f (anG_list fx fb)).
    apply (cok_try p bp (an_list fx blk) _ _ h (an_list fx hb) _ _ f (an_list fx fb) _ _ (IHb Nb) (HL blk Nb)); [| | exact Hn0].
    + intros Hh. assert (Nhb : NoDup (keys_l hb)).
      { destruct h as [[cp hbp]|]; [|contradiction]. cbn [try_hkeys] in Nh. apply NoDup_cons_inv in Nh. destruct Nh as [_ Nh]. apply NoDup_cons_inv in Nh. apply Nh. }
      split; [apply IHh; exact Nhb | apply HL; exact Nhb].
    + intros Hf'. assert (Nfb : NoDup (keys_l fb)).
      { destruct f as [fp|]; [|contradiction]. cbn [try_fkeys] in Nf. apply NoDup_cons_inv in Nf. apply Nf. }
      split; [apply IHf; exact Nfb | apply HL; exact Nfb].
  - intros _. apply cok_nil.
  - intros s IHs r IHr Hn. cbn [keys_l] in Hn. destruct (NoDup_app_inv _ _ Hn) as [Hns [Hnr Hd]].
    eapply cokl_ext; [intros x; apply anG_list_cons|]. cbn [keys_l].
    apply (cok_cons s _ _ _ _ (pos s)); [apply cokS_orb; assumption | apply IHr; exact Hnr | apply frc_orb; exact Hns | apply frl_list; exact Hnr | exact Hd].
  - intros _. apply cok_nilC.
  - intros cp d ft b IHb r IHr Hn. cbn [keys_c] in Hn. destruct (NoDup_cons_inv _ _ Hn) as [Hp Hn']. destruct (NoDup_app_inv _ _ Hn') as [Hnb [Hnr Hd]].
    eapply cokcs_ext; [intros x; apply anG_cases_cons|].
    unfold cokC in *. cbn [keys_c]. change (cp :: keys_l b ++ keys_c r) with ((cp :: keys_l b) ++ keys_c r).
    apply (cok_consC _ _ _ _ cp).
    + apply (cokc_pre _ _ _ (visit_test d)); [|apply info_visit_test].
      apply cok_case; [exact Hnb | apply IHb; exact Hnb | intros Hk; apply Hp, in_or_app; left; exact Hk].
    + apply IHr. exact Hnr.
    + apply (frc_pre _ _ (visit_test d)); [apply frc_case; exact Hnb | apply info_visit_test].
    + apply frcs_cases. exact Hnr.
    + intros k [<-|Hk] Hk'; [apply Hp, in_or_app; right; exact Hk' | exact (Hd k Hk Hk')].
Qed.


(* ------------------------------------------------------------------ *)
(* part C: every switch of the program, and each of its cases, has its log entries; the case entry records
   "live" exactly when the switch's own entry records "not dead" *)
Definition has_entries (lg : list gent) (sw : N) (cs : cases) : Prop :=
  exists d fl, In (GStmt sw d fl) lg /\ forall b, case_in b cs -> exists stops, In (GCase b (negb d) stops) lg.

Lemma has_entries_incl lg lg' sw cs : has_entries lg sw cs -> incl lg lg' -> has_entries lg' sw cs.
Proof.
  intros [d [fl [H1 H2]]] Hi. exists d, fl. split; [apply Hi, H1|].
  intros b Hb. destruct (H2 b Hb) as [s Hs]. exists s. apply Hi, Hs.
Qed.

Lemma lg_orbG s r : g_lg (orbG s r) = g_lg r.
Proof. unfold orbG. destruct r as [[y rs] lg]. destruct (is_brk_or_cont s); reflexivity. Qed.
Lemma lg_wrap s V x0 : g_lg (wrap s V x0) = GStmt (pos s) (dead_now x0) (stmt_unreachable s x0) :: g_lg (V (set_unreach (pos s) (stmt_unreachable s x0) x0)).
Proof. unfold wrap. apply g_lg_gcons. Qed.
Lemma lg_block_end p r : g_lg (block_endG p r) = l_lg r.
Proof. unfold block_endG. destruct r as [[y tops] lg]. reflexivity. Qed.
Lemma lg_with_child kd start g x : g_lg (with_childG fx kd start g x) = g_lg (g (child_enter kd x)).
Proof. unfold with_childG. destruct (g (child_enter kd x)) as [[c r] lg]. reflexivity. Qed.
Lemma lg_fn p pb g x : g_lg (fn_likeG fx p pb g x) = l_lg (g (child_enter KFunction x)).
Proof. unfold fn_likeG, block_endG. destruct (g (child_enter KFunction x)) as [[c tops] lg]. reflexivity. Qed.
Lemma lg_arrow p pb g x : g_lg (let '(y, r, lg) := fn_likeG fx p pb g x in (visit_lit y, r, lg)) = l_lg (g (child_enter KFunction x)).
Proof. rewrite <- (lg_fn p pb g x). destruct (fn_likeG fx p pb g x) as [[y r] lg]. reflexivity. Qed.
Lemma lg_fn_expr fp pb g x : g_lg (fn_exprG fx fp pb g x) = l_lg (g (child_enter KFunction x)).
Proof. unfold fn_exprG. rewrite <- (lg_fn fp pb g x). destruct (fn_likeG fx fp pb g x) as [[y r] lg]. reflexivity. Qed.
Lemma lg_seq g1 g2 x : exists y, g_lg (seqG g1 g2 x) = g_lg (g1 x) ++ g_lg (g2 y).
Proof. unfold seqG. destruct (g1 x) as [[y r1] lg1]. exists y. destruct (g2 y) as [[z r] lg2]. reflexivity. Qed.
Lemma lg_if p c p1 g1 x : g_lg (visit_ifG fx p c p1 g1 x) = g_lg (g1 (child_enter KIf (visit_cond c x))).
Proof. unfold visit_ifG. rewrite <- (lg_with_child KIf p1 g1 (visit_cond c x)). destruct (with_childG fx KIf p1 g1 (visit_cond c x)) as [[y r] lg]. reflexivity. Qed.
Lemma lg_if_else p c p1 g1 p2 g2 x :
  exists y2, g_lg (visit_if_elseG fx p c p1 g1 p2 g2 x) = g_lg (g1 (child_enter KIf (visit_cond c x))) ++ g_lg (g2 y2).
Proof.
  unfold visit_if_elseG. rewrite <- (lg_with_child KIf p1 g1 (visit_cond c x)).
  destruct (with_childG fx KIf p1 g1 (visit_cond c x)) as [[y1 r1] lg1]. exists (child_enter KIf y1).
  rewrite <- (lg_with_child KIf p2 g2 y1). destruct (with_childG fx KIf p2 g2 y1) as [[y2 r2] lg2]. reflexivity.
Qed.
Lemma lg_while c lo g x : exists y, g_lg (visit_whileG fx c lo g x) = g_lg (g y).
Proof.
  unfold visit_whileG. exists (child_enter KLoop (if fixF fx then visit_cond c x else x)).
  destruct (g (child_enter KLoop (if fixF fx then visit_cond c x else x))) as [[a r] lg]. reflexivity.
Qed.
Lemma lg_do_while p c lo g x : g_lg (visit_do_whileG fx p c lo g x) = g_lg (g (child_enter KLoop x)).
Proof. unfold visit_do_whileG. destruct (g (child_enter KLoop x)) as [[a r] lg]. reflexivity. Qed.
Lemma lg_for p c lo g x : exists y, g_lg (visit_forG fx p c lo g x) = g_lg (g y).
Proof.
  unfold visit_forG. exists (child_enter KLoop (match c with Some c0 => visit_cond c0 x | None => x end)).
  destruct (g (child_enter KLoop (match c with Some c0 => visit_cond c0 x | None => x end))) as [[a r] lg]. reflexivity.
Qed.
Lemma lg_for_in lo g x : g_lg (visit_for_inG fx lo g x) = g_lg (g (child_enter KLoop x)).
Proof. unfold visit_for_inG. destruct (g (child_enter KLoop x)) as [[a r] lg]. reflexivity. Qed.
Lemma lg_label l p g x : g_lg (let '(y, _, lg) := with_childG fx (KLabel l) p g x in (y, @None End, lg)) = g_lg (g (child_enter (KLabel l) x)).
Proof. rewrite <- (lg_with_child (KLabel l) p g x). destruct (with_childG fx (KLabel l) p g x) as [[y r] lg]. reflexivity. Qed.
Lemma lg_switch p cs g x : g_lg (visit_switchG p cs g x) = c_lg (g x).
Proof. unfold visit_switchG. destruct (g x) as [[x1 rs] lg]. reflexivity. Qed.
Lemma lg_handler cp hbp prev g x : exists y, snd (try_handlerG fx cp hbp prev g x) = l_lg (g y).
Proof.
  unfold try_handlerG. set (xa := set_mt (if s_mt (sc x) then set_end x prev else x) false). exists (child_enter KCatch xa).
  rewrite <- (lg_block_end hbp (g (child_enter KCatch xa))). rewrite <- (lg_with_child KCatch cp (fun a => block_endG hbp (g a)) xa).
  destruct (with_childG fx KCatch cp (fun a => block_endG hbp (g a)) xa) as [[xb r] lg]. reflexivity.
Qed.
Lemma lg_finalizer fp prev g x : exists y, snd (try_finalizerG fx fp prev g x) = l_lg (g y).
Proof.
  unfold try_finalizerG. exists (child_enter KFinally (set_end x prev)).
  rewrite <- (lg_block_end fp (g (child_enter KFinally (set_end x prev)))). rewrite <- (lg_with_child KFinally fp (fun a => block_endG fp (g a)) (set_end x prev)).
  destruct (with_childG fx KFinally fp (fun a => block_endG fp (g a)) (set_end x prev)) as [[xb r] lg]. reflexivity.
Qed.
Lemma lg_try p bp gb h gh f gf x :
  exists y2 y3, g_lg (visit_tryG fx p bp gb h gh f gf x) =
    l_lg (gb (set_mt x false)) ++ (match h with Some _ => l_lg (gh y2) | None => [] end) ++ (match f with Some _ => l_lg (gf y3) | None => [] end).
Proof.
  unfold visit_tryG. rewrite <- (lg_block_end bp (gb (set_mt x false))).
  destruct (block_endG bp (gb (set_mt x false))) as [[x1 r1] lg1]. cbn [g_lg snd].
  assert (H2 : exists y2, snd (match h with Some (cp, hbp) => try_handlerG fx cp hbp (s_end (sc x)) gh x1 | None => (x1, []) end) = match h with Some _ => l_lg (gh y2) | None => [] end).
  { destruct h as [[cp hbp]|]; [apply lg_handler | exists x; reflexivity]. }
  destruct H2 as [y2 E2]. destruct (match h with Some (cp, hbp) => try_handlerG fx cp hbp (s_end (sc x)) gh x1 | None => (x1, []) end) as [x2 lg2].
  assert (H3 : exists y3, snd (match f with Some fp => try_finalizerG fx fp (s_end (sc x)) gf x2 | None => (x2, []) end) = match f with Some _ => l_lg (gf y3) | None => [] end).
  { destruct f as [fp|]; [apply lg_finalizer | exists x; reflexivity]. }
  destruct H3 as [y3 E3]. destruct (match f with Some fp => try_finalizerG fx fp (s_end (sc x)) gf x2 | None => (x2, []) end) as [x3 lg3].
  exists y2, y3. cbn [snd] in *. rewrite E2, E3. reflexivity.
Qed.
Lemma lg_cons t r y : exists y2, l_lg (anG_list fx (SCons t r) y) = g_lg (anG fx t y) ++ l_lg (anG_list fx r y2).
Proof.
  rewrite anG_list_cons. unfold consG. rewrite <- (lg_orbG t (anG fx t y)). destruct (orbG t (anG fx t y)) as [[y1 r1] lg1].
  exists y1. destruct (anG_list fx r y1) as [[y2 tops] lg2]. reflexivity.
Qed.

Lemma end_visit_case cp b g y : s_end (sc (g_st (visit_caseG fx cp b g y))) = s_end (sc y).
Proof. unfold visit_caseG. destruct (g (child_enter KCase y)) as [[c tops] lg]. reflexivity. Qed.

Lemma cases_entries cs b : case_in b cs -> forall y, exists stops, In (GCase b (live_now y) stops) (c_lg (anG_cases fx cs y)).
Proof.
  induction 1 as [cp d ft b r | b' cp d ft b r Hin IH]; intros y; rewrite anG_cases_cons; unfold consC.
  - unfold visit_caseG. destruct (anG_list fx b (child_enter KCase (visit_test d y))) as [[c tops] lg].
    destruct (anG_cases fx r _) as [[y2 rs] lg2]. exists (tops_stop tops). cbn [c_lg snd]. left.
    unfold live_now. rewrite end_visit_test. reflexivity.
  - pose proof (end_visit_case cp b (anG_list fx b) (visit_test d y)) as He. rewrite end_visit_test in He.
    destruct (visit_caseG fx cp b (anG_list fx b) (visit_test d y)) as [[y1 r1] lg1]. cbn [g_st fst] in He.
    destruct (IH y1) as [stops Hs]. destruct (anG_cases fx r y1) as [[y2 rs] lg2]. cbn [c_lg snd] in *.
    exists stops. apply in_or_app. right. unfold live_now in *. rewrite <- He. exact Hs.
Qed.

Lemma lg_consC cp d ft b r y :
  exists y2, c_lg (anG_cases fx (CCons cp d ft b r) y) =
    g_lg (visit_caseG fx cp b (anG_list fx b) (visit_test d y)) ++ c_lg (anG_cases fx r y2).
Proof.
  rewrite anG_cases_cons. unfold consC. destruct (visit_caseG fx cp b (anG_list fx b) (visit_test d y)) as [[y1 r1] lg1].
  exists y1. destruct (anG_cases fx r y1) as [[y2 rs] lg2]. reflexivity.
Qed.
Lemma lg_case cp b g y : exists stops, g_lg (visit_caseG fx cp b g y) = GCase b (live_now y) stops :: l_lg (g (child_enter KCase y)).
Proof. unfold visit_caseG. destruct (g (child_enter KCase y)) as [[c tops] lg]. exists (tops_stop tops). reflexivity. Qed.

Lemma lg_loop s pre b post : loop_shape s = Some (pre, b, post) ->
  forall x, exists y hd, g_lg (anG fx s x) = GStmt (pos s) (dead_now x) (stmt_unreachable s x) :: hd ++ g_lg (anG fx b y).
Proof.
  intros Hs x.
  destruct s as [ | | | | | | | | | | | | |p0 c0 b0|p0 b0 c0|p0 i0 c0 u0 b0|p0 b0|p0 b0|p0 g0 fp0 pb0 hb0 b0| | | ]; cbn [loop_shape] in Hs; try discriminate.
  - injection Hs as _ <- _. change (anG fx (SWhile p0 c0 b0) x) with (wrap (SWhile p0 c0 b0) (visit_whileG fx c0 (pos b0) (anG fx b0)) x).
    rewrite lg_wrap. destruct (lg_while c0 (pos b0) (anG fx b0) (set_unreach (pos (SWhile p0 c0 b0)) (stmt_unreachable (SWhile p0 c0 b0) x) x)) as [y Eq].
    rewrite Eq. eexists. exists []. reflexivity.
  - injection Hs as _ <- _. change (anG fx (SDoWhile p0 b0 c0) x) with (wrap (SDoWhile p0 b0 c0) (visit_do_whileG fx p0 c0 (pos b0) (anG fx b0)) x).
    rewrite lg_wrap, lg_do_while. eexists. exists []. reflexivity.
  - injection Hs as _ <- _.
    change (anG fx (SFor p0 i0 c0 u0 b0) x) with (wrap (SFor p0 i0 c0 u0 b0) (fun y => visit_forG fx p0 c0 (pos b0) (anG fx b0) (visit_oe u0 (visit_oe i0 y))) x).
    rewrite lg_wrap. cbv beta.
    destruct (lg_for p0 c0 (pos b0) (anG fx b0) (visit_oe u0 (visit_oe i0 (set_unreach (pos (SFor p0 i0 c0 u0 b0)) (stmt_unreachable (SFor p0 i0 c0 u0 b0) x) x)))) as [y Eq].
    rewrite Eq. eexists. exists []. reflexivity.
  - injection Hs as _ <- _. change (anG fx (SForIn p0 b0) x) with (wrap (SForIn p0 b0) (visit_for_inG fx (pos b0) (anG fx b0)) x).
    rewrite lg_wrap, lg_for_in. eexists. exists []. reflexivity.
  - injection Hs as _ <- _. change (anG fx (SForOf p0 b0) x) with (wrap (SForOf p0 b0) (visit_for_inG fx (pos b0) (anG fx b0)) x).
    rewrite lg_wrap, lg_for_in. eexists. exists []. reflexivity.
  - injection Hs as _ <- _.
    change (anG fx (SForHead p0 g0 fp0 pb0 hb0 b0) x)
      with (wrap (SForHead p0 g0 fp0 pb0 hb0 b0) (seqG (for_headG fx fp0 pb0 (anG_list fx hb0)) (visit_for_inG fx (pos b0) (anG fx b0))) x).
    rewrite lg_wrap.
    destruct (lg_seq (for_headG fx fp0 pb0 (anG_list fx hb0)) (visit_for_inG fx (pos b0) (anG fx b0))
                (set_unreach (pos (SForHead p0 g0 fp0 pb0 hb0 b0)) (stmt_unreachable (SForHead p0 g0 fp0 pb0 hb0 b0) x) x)) as [y Eq].
    rewrite Eq, lg_for_in. eexists. eexists. reflexivity.
Qed.

Scheme sub_stmt_mind := Minimality for sub_stmt Sort Prop
  with sub_stmts_mind := Minimality for sub_stmts Sort Prop
  with sub_cases_mind := Minimality for sub_cases Sort Prop.
Combined Scheme sub_mutind from sub_stmt_mind, sub_stmts_mind, sub_cases_mind.

Lemma entries_wrap s V sw cs x0 :
  has_entries (g_lg (V (set_unreach (pos s) (stmt_unreachable s x0) x0))) sw cs -> has_entries (g_lg (wrap s V x0)) sw cs.
Proof. intros H. rewrite lg_wrap. eapply has_entries_incl; [exact H | apply incl_tl, incl_refl]. Qed.

(* from here on: the head of a for-in/of is visited *)
Hypothesis HE : fixE fx = true.

Theorem switch_entries :
  (forall t s, sub_stmt t s -> forall sw cs, t = SSwitch sw cs -> forall x, has_entries (g_lg (anG fx s x)) sw cs) /\
  (forall t l, sub_stmts t l -> forall sw cs, t = SSwitch sw cs -> forall x, has_entries (l_lg (anG_list fx l x)) sw cs) /\
  (forall t cs', sub_cases t cs' -> forall sw cs, t = SSwitch sw cs -> forall x, has_entries (c_lg (anG_cases fx cs' x)) sw cs).
Proof.
  apply sub_mutind.
  - (* the switch itself *)
    intros s sw cs -> x. change (anG fx (SSwitch sw cs) x) with (wrap (SSwitch sw cs) (visit_switchG sw cs (anG_cases fx cs)) x).
    rewrite lg_wrap, lg_switch. exists (dead_now x), (stmt_unreachable (SSwitch sw cs) x). split; [left; reflexivity|].
    intros b Hb. destruct (cases_entries cs b Hb (set_unreach (pos (SSwitch sw cs)) (stmt_unreachable (SSwitch sw cs) x) x)) as [stops Hs].
    exists stops. right. unfold live_now in Hs. cbn [set_unreach set_info sc] in Hs. unfold dead_now. rewrite live_not_dead in Hs. exact Hs.
  - intros t p n pb b _ IH sw cs E x. change (anG fx (SFnDecl p n pb b) x) with (wrap (SFnDecl p n pb b) (fn_likeG fx p pb (anG_list fx b)) x).
    apply entries_wrap. rewrite lg_fn. apply (IH sw cs E).
  - intros t p pb b _ IH sw cs E x.
    change (anG fx (SArrowStmt p pb b) x) with (wrap (SArrowStmt p pb b) (fun x => let '(y, r, lg) := fn_likeG fx p pb (anG_list fx b) x in (visit_lit y, r, lg)) x).
    apply entries_wrap. rewrite lg_arrow. apply (IH sw cs E).
  - intros t p gp pb b _ IH sw cs E x.
    change (anG fx (SGetterStmt p gp pb b) x) with (wrap (SGetterStmt p gp pb b) (fn_exprG fx gp pb (anG_list fx b)) x).
    apply entries_wrap. rewrite lg_fn_expr. apply (IH sw cs E).
  - intros t p g fp pb hb b _ IH sw cs E x.
    change (anG fx (SForHead p g fp pb hb b) x)
      with (wrap (SForHead p g fp pb hb b) (seqG (for_headG fx fp pb (anG_list fx hb)) (visit_for_inG fx (pos b) (anG fx b))) x).
    apply entries_wrap.
    destruct (lg_seq (for_headG fx fp pb (anG_list fx hb)) (visit_for_inG fx (pos b) (anG fx b))
                (set_unreach (pos (SForHead p g fp pb hb b)) (stmt_unreachable (SForHead p g fp pb hb b) x) x)) as [y Eq].
    rewrite Eq. unfold for_headG. rewrite HE, lg_fn_expr.
    eapply has_entries_incl; [apply (IH sw cs E) | apply incl_appl, incl_refl].
  - intros t p b _ IH sw cs E x. change (anG fx (SBlock p b) x) with (wrap (SBlock p b) (fun a => block_endG p (anG_list fx b a)) x).
    apply entries_wrap. rewrite lg_block_end. apply (IH sw cs E).
  - intros t p c a _ IH sw cs E x. change (anG fx (SIf p c a) x) with (wrap (SIf p c a) (visit_ifG fx p c (pos a) (fun y => orbG a (anG fx a y))) x).
    apply entries_wrap. rewrite lg_if, lg_orbG. apply (IH sw cs E).
  - intros t p c a b _ IH sw cs E x.
    change (anG fx (SIfElse p c a b) x) with (wrap (SIfElse p c a b) (visit_if_elseG fx p c (pos a) (fun y => orbG a (anG fx a y)) (pos b) (fun y => orbG b (anG fx b y))) x).
    apply entries_wrap. destruct (lg_if_else p c (pos a) (fun y => orbG a (anG fx a y)) (pos b) (fun y => orbG b (anG fx b y)) (set_unreach (pos (SIfElse p c a b)) (stmt_unreachable (SIfElse p c a b) x) x)) as [y2 Eq].
    rewrite Eq, lg_orbG. eapply has_entries_incl; [apply (IH sw cs E) | apply incl_appl, incl_refl].
  - intros t p c a b _ IH sw cs E x.
    change (anG fx (SIfElse p c a b) x) with (wrap (SIfElse p c a b) (visit_if_elseG fx p c (pos a) (fun y => orbG a (anG fx a y)) (pos b) (fun y => orbG b (anG fx b y))) x).
    apply entries_wrap. destruct (lg_if_else p c (pos a) (fun y => orbG a (anG fx a y)) (pos b) (fun y => orbG b (anG fx b y)) (set_unreach (pos (SIfElse p c a b)) (stmt_unreachable (SIfElse p c a b) x) x)) as [y2 Eq].
    rewrite Eq, !lg_orbG. eapply has_entries_incl; [apply (IH sw cs E) | apply incl_appr, incl_refl].
  - (* loops *)
    intros t s pre b post Hs _ IH sw cs E x. destruct (lg_loop s pre b post Hs x) as [y [hd Eq]]. rewrite Eq.
    eapply has_entries_incl; [apply (IH sw cs E) | apply incl_tl, incl_appr, incl_refl].
  - intros t p cs0 _ IH sw cs E x. change (anG fx (SSwitch p cs0) x) with (wrap (SSwitch p cs0) (visit_switchG p cs0 (anG_cases fx cs0)) x).
    apply entries_wrap. rewrite lg_switch. apply (IH sw cs E).
  - intros t p l b _ IH sw cs E x.
    change (anG fx (SLabel p l b) x) with (wrap (SLabel p l b) (fun x => let '(y, _, lg) := with_childG fx (KLabel l) p (fun a => orbG b (anG fx b a)) x in (y, @None End, lg)) x).
    apply entries_wrap. rewrite lg_label, lg_orbG. apply (IH sw cs E).
  - intros t p bp blk h hb f fb _ IH sw cs E x.
    change (anG fx (STry p bp blk h hb f fb) x) with (wrap (STry p bp blk h hb f fb) (visit_tryG fx p bp (anG_list fx blk) h (anG_list fx hb) f (anG_list fx fb)) x).
    apply entries_wrap. destruct (lg_try p bp (anG_list fx blk) h (anG_list fx hb) f (anG_list fx fb) (set_unreach (pos (STry p bp blk h hb f fb)) (stmt_unreachable (STry p bp blk h hb f fb) x) x)) as [y2 [y3 Eq]].
    rewrite Eq. eapply has_entries_incl; [apply (IH sw cs E) | apply incl_appl, incl_refl].
  - intros t p bp blk hp hb f fb _ IH sw cs E x.
    change (anG fx (STry p bp blk (Some hp) hb f fb) x) with (wrap (STry p bp blk (Some hp) hb f fb) (visit_tryG fx p bp (anG_list fx blk) (Some hp) (anG_list fx hb) f (anG_list fx fb)) x).
    apply entries_wrap. destruct (lg_try p bp (anG_list fx blk) (Some hp) (anG_list fx hb) f (anG_list fx fb) (set_unreach (pos (STry p bp blk (Some hp) hb f fb)) (stmt_unreachable (STry p bp blk (Some hp) hb f fb) x) x)) as [y2 [y3 Eq]].
    rewrite Eq. eapply has_entries_incl; [apply (IH sw cs E) | apply incl_appr, incl_appl, incl_refl].
  - intros t p bp blk h hb fp fb _ IH sw cs E x.
    change (anG fx (STry p bp blk h hb (Some fp) fb) x) with (wrap (STry p bp blk h hb (Some fp) fb) (visit_tryG fx p bp (anG_list fx blk) h (anG_list fx hb) (Some fp) (anG_list fx fb)) x).
    apply entries_wrap. destruct (lg_try p bp (anG_list fx blk) h (anG_list fx hb) (Some fp) (anG_list fx fb) (set_unreach (pos (STry p bp blk h hb (Some fp) fb)) (stmt_unreachable (STry p bp blk h hb (Some fp) fb) x) x)) as [y2 [y3 Eq]].
    rewrite Eq. eapply has_entries_incl; [apply (IH sw cs E) | apply incl_appr, incl_appr, incl_refl].
  - intros t s r _ IH sw cs E x. destruct (lg_cons s r x) as [y2 Eq]. rewrite Eq.
    eapply has_entries_incl; [apply (IH sw cs E) | apply incl_appl, incl_refl].
  - intros t s r _ IH sw cs E x. destruct (lg_cons s r x) as [y2 Eq]. rewrite Eq.
    eapply has_entries_incl; [apply (IH sw cs E) | apply incl_appr, incl_refl].
  - intros t cp d ft b r _ IH sw cs E x. destruct (lg_consC cp d ft b r x) as [y2 Eq]. rewrite Eq.
    destruct (lg_case cp b (anG_list fx b) (visit_test d x)) as [stops Ec]. rewrite Ec.
    eapply has_entries_incl; [apply (IH sw cs E) | apply incl_appl, incl_tl, incl_refl].
  - intros t cp d ft b r _ IH sw cs E x. destruct (lg_consC cp d ft b r x) as [y2 Eq]. rewrite Eq.
    eapply has_entries_incl; [apply (IH sw cs E) | apply incl_appr, incl_refl].
Qed.

End Cases.
