(* C10/C11 - the CURRENT code: repairs A, B, D and E are applied (`current`), the function-start key
   collision C is a known finding.  On programs without function-likes (`no_fn_stmt`) the current analyzer
   computes exactly the map that the fully repaired one computes (`analyze_current_repaired`); on the larger
   class `fn_stmt_safe` the two ghost analyses agree (GhostCong.v), which carries the soundness theorems over;
   witnesses show that the side condition is needed. *)
From V Require Import CF.Soundness CF.AnalyzerG CF.SemDecide CF.SemDecideProofs CF.Oracle CF.SoundnessInv CF.SoundnessMap CF.SoundnessCases
  CF.SoundnessRepaired CF.GhostCong.

(* the only use of fixC is in the Function arm of with_child_scope *)
Lemma child_exit_cur k start x c : k <> KFunction -> child_exit current k start x c = child_exit repaired k start x c.
Proof. intros H. destruct k; try reflexivity. contradiction. Qed.

Lemma with_child_cur k start op op' x :
  k <> KFunction -> (forall y, op y = op' y) -> with_child current k start op x = with_child repaired k start op' x.
Proof. intros Hk H. unfold with_child. rewrite H. apply child_exit_cur. exact Hk. Qed.

Lemma handler_cur cp hbp prev hb hb' x :
  (forall y, hb y = hb' y) -> try_handler current cp hbp prev hb x = try_handler repaired cp hbp prev hb' x.
Proof.
  intros H. unfold try_handler.
  rewrite (with_child_cur KCatch cp (fun a => block_end hbp (hb a)) (fun a => block_end hbp (hb' a))); [reflexivity | discriminate|].
  intros y. rewrite H. reflexivity.
Qed.
Lemma finalizer_cur fp prev fb fb' x :
  (forall y, fb y = fb' y) -> try_finalizer current fp prev fb x = try_finalizer repaired fp prev fb' x.
Proof.
  intros H. unfold try_finalizer.
  rewrite (with_child_cur KFinally fp (fun a => block_end fp (fb a)) (fun a => block_end fp (fb' a))); [reflexivity | discriminate|].
  intros y. rewrite H. reflexivity.
Qed.

Lemma dowhile_tail_cur prev r p c x : dowhile_tail current prev r p c x = dowhile_tail repaired prev r p c x.
Proof. unfold dowhile_tail, dowhile_test. cbn [fixF current repaired]. reflexivity. Qed.

Theorem an_current_repaired :
  (forall s, nofn s = true -> forall x, an current s x = an repaired s x) /\
  (forall l, nofn_l l = true -> forall x, an_list current l x = an_list repaired l x) /\
  (forall cs, nofn_c cs = true -> forall x, an_cases current cs x = an_cases repaired cs x).
Proof.
  apply stmt_mutind.
  - reflexivity.
  - reflexivity.
  - reflexivity.
  - discriminate.
  - discriminate.
  - discriminate.
  - reflexivity.
  - reflexivity.
  - reflexivity.
  - reflexivity.
  - intros p b IHb Hn x. cbn [an nofn] in *. rewrite (IHb Hn). reflexivity.
  - intros p c a IHa Hn x. cbn [an nofn] in *. unfold visit_if.
    rewrite (with_child_cur KIf (pos a) (fun y => orb_mark a (an current a y)) (fun y => orb_mark a (an repaired a y))); [reflexivity | discriminate|].
    intros y. rewrite (IHa Hn). reflexivity.
  - intros p c a IHa b IHb Hn x. cbn [an nofn] in *. apply andb_true_iff in Hn. destruct Hn as [Ha Hb]. unfold visit_if_else.
    rewrite (with_child_cur KIf (pos a) (fun y => orb_mark a (an current a y)) (fun y => orb_mark a (an repaired a y)));
      [|discriminate | intros y; rewrite (IHa Ha); reflexivity].
    rewrite (with_child_cur KIf (pos b) (fun y => orb_mark b (an current b y)) (fun y => orb_mark b (an repaired b y)));
      [reflexivity | discriminate | intros y; rewrite (IHb Hb); reflexivity].
  - intros p c b IHb Hn x. cbn [an nofn] in *. unfold visit_while. cbn [fixF current repaired].
    apply with_child_cur; [discriminate | intros y; rewrite (IHb Hn); reflexivity].
  - intros p b IHb c Hn x. cbn [an nofn] in *. unfold visit_do_while.
    rewrite (with_child_cur KLoop (pos b) (fun a => dowhile_post current c (pos b) (an current b a)) (fun a => dowhile_post repaired c (pos b) (an repaired b a)));
      [apply dowhile_tail_cur | discriminate | intros y; rewrite (IHb Hn); reflexivity].
  - intros p i c u b IHb Hn x. cbn [an nofn] in *. unfold visit_for.
    apply with_child_cur; [discriminate | intros y; rewrite (IHb Hn); reflexivity].
  - intros p b IHb Hn x. cbn [an nofn] in *. unfold visit_for_in.
    apply with_child_cur; [discriminate | intros y; rewrite (IHb Hn); reflexivity].
  - intros p b IHb Hn x. cbn [an nofn] in *. unfold visit_for_in.
    apply with_child_cur; [discriminate | intros y; rewrite (IHb Hn); reflexivity].
  - discriminate.
  - intros p cs IH Hn x. cbn [an nofn] in *. unfold visit_switch. rewrite (IH Hn). reflexivity.
  - intros p l b IHb Hn x. cbn [an nofn] in *.
    apply with_child_cur; [discriminate | intros y; rewrite (IHb Hn); reflexivity].
  - intros p bp blk IHb h hb IHh f fb IHf Hn x. cbn [an nofn] in *.
    apply andb_true_iff in Hn. destruct Hn as [Hn Hf]. apply andb_true_iff in Hn. destruct Hn as [Hb Hh].
    unfold visit_try. rewrite (IHb Hb).
    destruct h as [[cp hbp]|]; [rewrite (handler_cur cp hbp _ _ (an_list repaired hb)); [|intros y; apply (IHh Hh)]|];
      (destruct f as [fp|]; [rewrite (finalizer_cur fp _ _ (an_list repaired fb)); [|intros y; apply (IHf Hf)]|]); reflexivity.
  - reflexivity.
  - intros s IHs r IHr Hn x. cbn [an_list nofn_l] in *. apply andb_true_iff in Hn. destruct Hn as [Hs Hr].
    rewrite (IHs Hs), (IHr Hr). reflexivity.
  - reflexivity.
  - intros cp d ft b IHb r IHr Hn x. cbn [an_cases nofn_c] in *. apply andb_true_iff in Hn. destruct Hn as [Hb Hr].
    unfold visit_case. rewrite (IHb Hb), (IHr Hr). rewrite !(child_exit_cur KCase) by discriminate. reflexivity.
Qed.

Theorem analyze_current_repaired p : no_fn_stmt p -> analyze current p = analyze repaired p.
Proof.
  intros H. unfold analyze, analyze_st. destruct an_current_repaired as [_ [HL _]]. rewrite (HL _ H). reflexivity.
Qed.

(* ------------------------------------------------------------------ *)
(* The soundness theorems for the current code, under the finer side condition `fn_stmt_safe` (Syntax.v): function
   declarations and arrow / getter expression statements are allowed, except where the end reason recorded under the
   statement's own key is read back.  Route: layer 1 for `current` (map analysis = ghost analysis, SoundnessMap.v /
   SoundnessCases.v hold for every variant), then GhostCong.v (the ghost analyses of `current` and `repaired` produce the
   same log and reasons), then layer 2 for `repaired` (SoundnessInv.v). *)
Lemma nofn_fnsafe :
  (forall s, nofn s = true -> fnsafe s = true /\ is_fnstart s = false) /\
  (forall l, nofn_l l = true -> fnsafe_l l = true /\ no_fnstart_top l = true) /\
  (forall cs, nofn_c cs = true -> fnsafe_c cs = true).
Proof.
  apply stmt_mutind; cbn [nofn nofn_l nofn_c fnsafe fnsafe_l fnsafe_c is_fnstart no_fnstart_top]; try (intros; split; reflexivity); try discriminate.
  - intros p b IHb H. split; [apply IHb; exact H | reflexivity].
  - intros p c a IHa H. split; [apply IHa; exact H | reflexivity].
  - intros p c a IHa b IHb H. apply andb_true_iff in H. destruct H as [Ha Hb]. destruct (IHa Ha) as [A1 A2]. destruct (IHb Hb) as [B1 B2].
    rewrite A1, A2, B1, B2. split; reflexivity.
  - intros p c b IHb H. destruct (IHb H) as [B1 B2]. rewrite B1, B2. split; reflexivity.
  - intros p b IHb c H. destruct (IHb H) as [B1 B2]. rewrite B1, B2. split; reflexivity.
  - intros p i c u b IHb H. destruct (IHb H) as [B1 B2]. rewrite B1, B2. split; reflexivity.
  - intros p b IHb H. split; [apply IHb; exact H | reflexivity].
  - intros p b IHb H. split; [apply IHb; exact H | reflexivity].
  - intros p cs IH H. split; [apply IH; exact H | reflexivity].
  - intros p l b IHb H. split; [apply IHb; exact H | reflexivity].
  - intros p bp blk IHb h hb IHh f fb IHf H. apply andb_true_iff in H. destruct H as [H Hf]. apply andb_true_iff in H. destruct H as [Hb Hh].
    rewrite (proj1 (IHb Hb)), (proj1 (IHh Hh)), (proj1 (IHf Hf)). split; reflexivity.
  - intros s IHs r IHr H. apply andb_true_iff in H. destruct H as [Hs Hr]. destruct (IHs Hs) as [S1 S2]. destruct (IHr Hr) as [R1 R2].
    rewrite S1, S2, R1, R2. split; reflexivity.
  - intros cp d ft b IHb r IHr H. apply andb_true_iff in H. destruct H as [Hb Hr]. destruct (IHb Hb) as [B1 B2].
    rewrite B1, B2, (IHr Hr). reflexivity.
Qed.

(* the old side condition implies the new one *)
Theorem no_fn_stmt_safe p : no_fn_stmt p -> fn_stmt_safe p.
Proof. intros H. destruct nofn_fnsafe as [_ [HL _]]. apply (HL (p_body p) H). Qed.

Theorem C10_sound_current :
  forall p pi, wf p -> fn_stmt_safe p -> In pi (no_unreachable current p) -> ~ prog_enters p pi.
Proof.
  intros p pi Hwf Hs Hin Hent.
  unfold no_unreachable, no_unreachable_on in Hin. apply in_map_iff in Hin. destruct Hin as [t [Ept Hin]].
  apply filter_In in Hin. destruct Hin as [_ Hfl]. unfold flagged_unreachable in Hfl. apply andb_true_iff in Hfl. destruct Hfl as [_ Hu].
  destruct (analyze_ghost current p Hwf) as [Est _].
  assert (HU : U (g_st (analyzeG current p)) pi = true).
  { unfold U. rewrite <- Est. unfold analyze in Hu. rewrite Ept in Hu. exact Hu. }
  destruct (anG_ulog current) as [_ [HL _]].
  pose proof (ulog_block_end (p_pb p) _ (HL (p_body p)) init_st pi HU) as Hlog.
  destruct Hlog as [Hbad | Hlog]; [discriminate Hbad|].
  (* the same log entry in the ghost analysis with all repairs on *)
  destruct (analyzeG_cong p Hs) as [Elg _]. unfold logged in Hlog.
  change (In (GStmt pi true true) (g_lg (analyzeG current p))) in Hlog. rewrite Elg in Hlog.
  pose proof (wf_keys p Hwf) as Hn. apply NoDup_cons_inv in Hn. destruct Hn as [Hpb Hnb].
  destruct (ghost_sound p Hnb) as [HC10 _].
  apply (HC10 pi true Hlog). apply memN_In. apply prog_enters_iff. exact Hent.
Qed.

Theorem C11_getter_sound_current :
  forall p, wf p -> fn_stmt_safe p -> p_getter p = true -> prog_falls_off_end p -> In (p_start p) (getter_return current p).
Proof.
  intros p Hwf Hs Hg Hfall. unfold getter_return, getter_return_on, all_getters. rewrite Hg. cbn [app flat_map].
  apply in_or_app. left. unfold getter_diags. cbn [fst snd]. apply in_or_app. left.
  assert (Hc : getter_entry_continues (analyze current p) (p_pb p) = true).
  { unfold getter_entry_continues. destruct (iget (analyze current p) (p_pb p)) as [m|] eqn:Em; [|reflexivity].
    destruct (analyze_ghost current p Hwf) as [_ Er]. destruct (analyzeG_cong p Hs) as [_ Ers]. rewrite Ers in Er.
    pose proof (wf_keys p Hwf) as Hn. apply NoDup_cons_inv in Hn. destruct Hn as [Hpb Hnb].
    destruct (ghost_sound p Hnb) as [_ [HG _]].
    unfold continues_execution. unfold E, get_end_reason in Er. unfold analyze in Em. rewrite Em in Er. rewrite Er.
    apply HG. apply prog_falls_off_iff. exact Hfall. }
  rewrite Hc. left. reflexivity.
Qed.

Theorem C11_case_sound_current :
  forall p sw cs b, wf p -> fn_stmt_safe p ->
    sub_stmts (SSwitch sw cs) (p_body p) -> prog_enters p sw -> case_in b cs ->
    any_stops (analyze current p) b = true -> ~ exec_l b Normal.
Proof.
  intros p sw cs b Hwf Hsafe Hsub Hent Hcase Hstops Hex.
  pose proof (wf_keys p Hwf) as Hn. apply NoDup_cons_inv in Hn. destruct Hn as [Hpb Hnb].
  destruct (analyze_ghost current p Hwf) as [Est _].
  (* the log entries of the switch and of the case, in the ghost analysis of the current code *)
  destruct (switch_entries current eq_refl) as [_ [HE _]].
  destruct (HE _ _ Hsub sw cs eq_refl init_st) as [d [fl [Hsw Hcs]]]. destruct (Hcs b Hcase) as [stops Hb].
  (* the logged flag is any_stops on the final map *)
  destruct (case_flags_stable current) as [_ [HS _]].
  pose proof (HS (p_body p) Hnb init_st (fresh_init _)) as Hcl.
  assert (Hfinal : any_stops (analyze current p) b = stops).
  { unfold analyze. rewrite Est. unfold analyzeG, block_endG.
    destruct (anG_list current (p_body p) init_st) as [[y tops] lg] eqn:Eg. cbn [l_lg l_st g_st fst snd] in *.
    destruct (Hcl b (negb d) stops Hb) as [Hin Hs]. rewrite <- Hs. apply any_stops_stable. intros t Ht.
    unfold block_end. destruct (s_end (sc y)); apply iget_mark_neq; intros Eq; apply Hpb; rewrite <- Eq; apply (Hin t Ht). }
  rewrite Hfinal in Hstops. subst stops.
  (* the same entries in the log of the ghost analysis with all repairs on *)
  destruct (analyzeG_cong p Hsafe) as [Elg _].
  assert (Hlg : g_lg (analyzeG current p) = l_lg (anG_list current (p_body p) init_st)) by (unfold analyzeG; apply lg_block_end).
  destruct (ghost_sound p Hnb) as [HC10 [_ HC]].
  destruct d.
  - assert (Hsw' : In (GStmt sw true fl) (g_lg (analyzeG repaired p))) by (rewrite <- Elg, Hlg; exact Hsw).
    exfalso. apply (HC10 sw fl Hsw'). apply memN_In. apply prog_enters_iff. exact Hent.
  - cbn [negb] in Hb. assert (Hb' : In (GCase b true true) (g_lg (analyzeG repaired p))) by (rewrite <- Elg, Hlg; exact Hb).
    apply exec_l_iff_csem in Hex. cbn [cin] in Hex. rewrite (HC b Hb') in Hex. discriminate.
Qed.

(* ------------------------------------------------------------------ *)
(* the known finding (class C): without the side condition all three statements fail for the current code *)
(* function f() { if (v1) () => { throw 1; }; else () => { throw 1; }; v3(); } *)
Definition kC_c10 : program :=
  {| p_getter := false; p_start := 0; p_pb := 13; p_body := (SCons (SIfElse 15 (COpaque (EIdent 1)) (SArrowStmt 23 29 (SCons (SThrow 31 ELit) SNil)) (SArrowStmt 48 54 (SCons (SThrow 56 ELit) SNil))) (SCons (SExpr 68 (ECall 3)) SNil)) |}.
(* ({get a() { if (v1) () => { throw 1; }; else () => { throw 1; }; }}) *)
Definition kC_getter : program :=
  {| p_getter := true; p_start := 2; p_pb := 10; p_body := (SCons (SIfElse 12 (COpaque (EIdent 1)) (SArrowStmt 20 26 (SCons (SThrow 28 ELit) SNil)) (SArrowStmt 45 51 (SCons (SThrow 53 ELit) SNil))) SNil) |}.
(* function f() { switch (d) { case 0: function v5() { return 1; } case 1: v999(); } } *)
Definition kC_case_body := SCons (SFnDecl 36 5 50 (SCons (SRet 52 (Some ELit)) SNil)) SNil.
Definition kC_case_cases := CCons 28 (Some ELit) false kC_case_body (CCons 64 (Some ELit) false (SCons (SExpr 72 (ECall 999)) SNil) CNil).
Definition kC_case : program :=
  {| p_getter := false; p_start := 0; p_pb := 13; p_body := SCons (SSwitch 15 kC_case_cases) SNil |}.

Theorem C10_known_class_C :
  exists p pi, wf p /\ ~ fn_stmt_safe p /\ In pi (no_unreachable current p) /\ prog_enters p pi.
Proof.
  exists kC_c10, 68. split; [vm_compute; reflexivity|]. split; [vm_compute; discriminate|].
  split; [vm_compute; tauto | apply prog_enters_iff; vm_compute; reflexivity].
Qed.

Theorem C11_getter_known_class_C :
  exists p, wf p /\ ~ fn_stmt_safe p /\ p_getter p = true /\ prog_falls_off_end p /\ ~ In (p_start p) (getter_return current p).
Proof.
  exists kC_getter. split; [vm_compute; reflexivity|]. split; [vm_compute; discriminate|]. split; [reflexivity|].
  split; [apply prog_falls_off_iff; vm_compute; reflexivity | vm_compute; tauto].
Qed.

Theorem C11_case_known_class_C :
  exists p sw cs b, wf p /\ ~ fn_stmt_safe p /\ sub_stmts (SSwitch sw cs) (p_body p) /\ prog_enters p sw /\ case_in b cs /\
                    any_stops (analyze current p) b = true /\ exec_l b Normal.
Proof.
  exists kC_case, 15, kC_case_cases, kC_case_body. split; [vm_compute; reflexivity|]. split; [vm_compute; discriminate|].
  split; [cbn [p_body kC_case]; apply SubL_here; apply Sub_self|].
  split; [apply prog_enters_iff; vm_compute; reflexivity|]. split; [apply CI_here|].
  split; [vm_compute; reflexivity | apply exec_l_iff_csem; vm_compute; reflexivity].
Qed.

Print Assumptions analyze_current_repaired.
Print Assumptions no_fn_stmt_safe.
Print Assumptions C10_sound_current.
Print Assumptions C11_getter_sound_current.
Print Assumptions C11_case_sound_current.
Print Assumptions C10_known_class_C.
Print Assumptions C11_getter_known_class_C.
Print Assumptions C11_case_known_class_C.
