(* C10/C11 - the CURRENT code: repairs A, B and D are applied (`current`), the function-start key
   collision C is a known finding.  On programs in which no statement starts with a function
   (`no_fn_stmt`) the current analyzer computes exactly what the fully repaired one computes, so the
   soundness theorems of SoundnessRepaired.v carry over; witnesses show that the side condition is needed. *)
From V Require Import CF.Soundness CF.SemDecide CF.SemDecideProofs CF.Oracle CF.SoundnessRepaired.

(* the only use of fixC is in the Function arm of with_child_scope *)
Lemma child_exit_cur k start x c : k <> KFunction -> child_exit current k start x c = child_exit repaired k start x c.
Proof. intros H. destruct k; try reflexivity. contradiction. Qed.

Lemma with_child_cur k start op op' x :
  k <> KFunction -> (forall y, op y = op' y) -> with_child current k start op x = with_child repaired k start op' x.
Proof. intros Hk H. unfold with_child. rewrite H. apply child_exit_cur. exact Hk. Qed.

Lemma handler_cur cp hbp prev hb hb' x :
  (forall y, hb y = hb' y) -> try_handler current cp hbp prev hb x = try_handler repaired cp hbp prev hb' x.
Proof.
  intros H. unfold try_handler.
  rewrite (with_child_cur KCatch cp (fun a => block_end hbp (hb a)) (fun a => block_end hbp (hb' a))); [reflexivity | discriminate|].
  intros y. rewrite H. reflexivity.
Qed.
Lemma finalizer_cur fp prev fb fb' x :
  (forall y, fb y = fb' y) -> try_finalizer current fp prev fb x = try_finalizer repaired fp prev fb' x.
Proof.
  intros H. unfold try_finalizer.
  rewrite (with_child_cur KFinally fp (fun a => block_end fp (fb a)) (fun a => block_end fp (fb' a))); [reflexivity | discriminate|].
  intros y. rewrite H. reflexivity.
Qed.

Theorem an_current_repaired :
  (forall s, nofn s = true -> forall x, an current s x = an repaired s x) /\
  (forall l, nofn_l l = true -> forall x, an_list current l x = an_list repaired l x) /\
  (forall cs, nofn_c cs = true -> forall x, an_cases current cs x = an_cases repaired cs x).
Proof.
  apply stmt_mutind.
  - reflexivity.
  - reflexivity.
  - reflexivity.
  - discriminate.
  - discriminate.
  - discriminate.
  - reflexivity.
  - reflexivity.
  - reflexivity.
  - reflexivity.
  - intros p b IHb Hn x. cbn [an nofn] in *. rewrite (IHb Hn). reflexivity.
  - intros p c a IHa Hn x. cbn [an nofn] in *. unfold visit_if.
    rewrite (with_child_cur KIf (pos a) (fun y => orb_mark a (an current a y)) (fun y => orb_mark a (an repaired a y))); [reflexivity | discriminate|].
    intros y. rewrite (IHa Hn). reflexivity.
  - intros p c a IHa b IHb Hn x. cbn [an nofn] in *. apply andb_true_iff in Hn. destruct Hn as [Ha Hb]. unfold visit_if_else.
    rewrite (with_child_cur KIf (pos a) (fun y => orb_mark a (an current a y)) (fun y => orb_mark a (an repaired a y)));
      [|discriminate | intros y; rewrite (IHa Ha); reflexivity].
    rewrite (with_child_cur KIf (pos b) (fun y => orb_mark b (an current b y)) (fun y => orb_mark b (an repaired b y)));
      [reflexivity | discriminate | intros y; rewrite (IHb Hb); reflexivity].
  - intros p c b IHb Hn x. cbn [an nofn] in *. unfold visit_while.
    rewrite (with_child_cur KLoop (pos b) (fun a => while_post c (pos b) (an current b a)) (fun a => while_post c (pos b) (an repaired b a)));
      [reflexivity | discriminate | intros y; rewrite (IHb Hn); reflexivity].
  - intros p b IHb c Hn x. cbn [an nofn] in *. unfold visit_do_while.
    rewrite (with_child_cur KLoop (pos b) (fun a => dowhile_post current c (pos b) (an current b a)) (fun a => dowhile_post repaired c (pos b) (an repaired b a)));
      [reflexivity | discriminate | intros y; rewrite (IHb Hn); reflexivity].
  - intros p c b IHb Hn x. cbn [an nofn] in *. unfold visit_for.
    apply with_child_cur; [discriminate | intros y; rewrite (IHb Hn); reflexivity].
  - intros p b IHb Hn x. cbn [an nofn] in *. unfold visit_for_in.
    apply with_child_cur; [discriminate | intros y; rewrite (IHb Hn); reflexivity].
  - intros p b IHb Hn x. cbn [an nofn] in *. unfold visit_for_in.
    apply with_child_cur; [discriminate | intros y; rewrite (IHb Hn); reflexivity].
  - discriminate.
  - intros p cs IH Hn x. cbn [an nofn] in *. unfold visit_switch. rewrite (IH Hn). reflexivity.
  - intros p l b IHb Hn x. cbn [an nofn] in *.
    apply with_child_cur; [discriminate | intros y; rewrite (IHb Hn); reflexivity].
  - intros p bp blk IHb h hb IHh f fb IHf Hn x. cbn [an nofn] in *.
    apply andb_true_iff in Hn. destruct Hn as [Hn Hf]. apply andb_true_iff in Hn. destruct Hn as [Hb Hh].
    unfold visit_try. rewrite (IHb Hb).
    destruct h as [[cp hbp]|]; [rewrite (handler_cur cp hbp _ _ (an_list repaired hb)); [|intros y; apply (IHh Hh)]|];
      (destruct f as [fp|]; [rewrite (finalizer_cur fp _ _ (an_list repaired fb)); [|intros y; apply (IHf Hf)]|]); reflexivity.
  - reflexivity.
  - intros s IHs r IHr Hn x. cbn [an_list nofn_l] in *. apply andb_true_iff in Hn. destruct Hn as [Hs Hr].
    rewrite (IHs Hs), (IHr Hr). reflexivity.
  - reflexivity.
  - intros cp d ft b IHb r IHr Hn x. cbn [an_cases nofn_c] in *. apply andb_true_iff in Hn. destruct Hn as [Hb Hr].
    unfold visit_case. rewrite (IHb Hb), (IHr Hr). rewrite !(child_exit_cur KCase) by discriminate. reflexivity.
Qed.

Theorem analyze_current_repaired p : no_fn_stmt p -> analyze current p = analyze repaired p.
Proof.
  intros H. unfold analyze, analyze_st. destruct an_current_repaired as [_ [HL _]]. rewrite (HL _ H). reflexivity.
Qed.

Theorem C10_sound_current :
  forall p pi, wf p -> no_fn_stmt p -> In pi (no_unreachable current p) -> ~ prog_enters p pi.
Proof.
  intros p pi Hwf Hn Hin. unfold no_unreachable in Hin. rewrite (analyze_current_repaired p Hn) in Hin.
  exact (C10_sound_repaired p pi Hwf Hin).
Qed.

Theorem C11_getter_sound_current :
  forall p, wf p -> no_fn_stmt p -> p_getter p = true -> prog_falls_off_end p -> In (p_start p) (getter_return current p).
Proof.
  intros p Hwf Hn Hg Hf. unfold getter_return. rewrite (analyze_current_repaired p Hn).
  exact (C11_getter_sound_repaired p Hwf Hg Hf).
Qed.

Theorem C11_case_sound_current :
  forall p sw cs b, wf p -> no_fn_stmt p ->
    sub_stmts (SSwitch sw cs) (p_body p) -> prog_enters p sw -> case_in b cs ->
    any_stops (analyze current p) b = true -> ~ exec_l b Normal.
Proof.
  intros p sw cs b Hwf Hn Hsub Hent Hc Hs. rewrite (analyze_current_repaired p Hn) in Hs.
  exact (C11_case_sound_repaired p sw cs b Hwf Hsub Hent Hc Hs).
Qed.

(* ------------------------------------------------------------------ *)
(* the known finding (class C): without the side condition all three statements fail for the current code *)
(* function f() { if (v1) () => { throw 1; }; else () => { throw 1; }; v3(); } *)
Definition kC_c10 : program :=
  {| p_getter := false; p_start := 0; p_pb := 13; p_body := (SCons (SIfElse 15 (COpaque (EIdent 1)) (SArrowStmt 23 29 (SCons (SThrow 31 ELit) SNil)) (SArrowStmt 48 54 (SCons (SThrow 56 ELit) SNil))) (SCons (SExpr 68 (ECall 3)) SNil)) |}.
(* ({get a() { if (v1) () => { throw 1; }; else () => { throw 1; }; }}) *)
Definition kC_getter : program :=
  {| p_getter := true; p_start := 2; p_pb := 10; p_body := (SCons (SIfElse 12 (COpaque (EIdent 1)) (SArrowStmt 20 26 (SCons (SThrow 28 ELit) SNil)) (SArrowStmt 45 51 (SCons (SThrow 53 ELit) SNil))) SNil) |}.
(* function f() { switch (d) { case 0: function v5() { return 1; } case 1: v999(); } } *)
Definition kC_case_body := SCons (SFnDecl 36 5 50 (SCons (SRet 52 (Some ELit)) SNil)) SNil.
Definition kC_case_cases := CCons 28 (Some ELit) false kC_case_body (CCons 64 (Some ELit) false (SCons (SExpr 72 (ECall 999)) SNil) CNil).
Definition kC_case : program :=
  {| p_getter := false; p_start := 0; p_pb := 13; p_body := SCons (SSwitch 15 kC_case_cases) SNil |}.

Theorem C10_known_class_C :
  exists p pi, wf p /\ ~ no_fn_stmt p /\ In pi (no_unreachable current p) /\ prog_enters p pi.
Proof.
  exists kC_c10, 68. split; [vm_compute; reflexivity|]. split; [vm_compute; discriminate|].
  split; [vm_compute; tauto | apply prog_enters_iff; vm_compute; reflexivity].
Qed.

Theorem C11_getter_known_class_C :
  exists p, wf p /\ ~ no_fn_stmt p /\ p_getter p = true /\ prog_falls_off_end p /\ ~ In (p_start p) (getter_return current p).
Proof.
  exists kC_getter. split; [vm_compute; reflexivity|]. split; [vm_compute; discriminate|]. split; [reflexivity|].
  split; [apply prog_falls_off_iff; vm_compute; reflexivity | vm_compute; tauto].
Qed.

Theorem C11_case_known_class_C :
  exists p sw cs b, wf p /\ ~ no_fn_stmt p /\ sub_stmts (SSwitch sw cs) (p_body p) /\ prog_enters p sw /\ case_in b cs /\
                    any_stops (analyze current p) b = true /\ exec_l b Normal.
Proof.
  exists kC_case, 15, kC_case_cases, kC_case_body. split; [vm_compute; reflexivity|]. split; [vm_compute; discriminate|].
  split; [cbn [p_body kC_case]; apply SubL_here; apply Sub_self|].
  split; [apply prog_enters_iff; vm_compute; reflexivity|]. split; [apply CI_here|].
  split; [vm_compute; reflexivity | apply exec_l_iff_csem; vm_compute; reflexivity].
Qed.

Print Assumptions analyze_current_repaired.
Print Assumptions C10_sound_current.
Print Assumptions C11_getter_sound_current.
Print Assumptions C11_case_sound_current.
Print Assumptions C10_known_class_C.
Print Assumptions C11_getter_known_class_C.
Print Assumptions C11_case_known_class_C.
