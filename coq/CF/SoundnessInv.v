(* C10/C11 - proof layer 2: invariants of the ghost analyzer `anG` (all repairs on) against the
   executable semantics `csem`/`reach`.  No reasoning about the result map happens here. *)
From V Require Import CF.AnalyzerG CF.SemDecide CF.SemDecideProofs.
From Coq Require Import Lia.

Definition fx := repaired.

(* ------------------------------------------------------------------ *)
(* scope-level facts about the primitive operations *)
Lemma live_not_dead o : live o = negb (dead o).
Proof. destruct o as [[r t i| |]|]; reflexivity. Qed.

Definition lv (x : st) : Prop := live (s_end (sc x)) = true.
Definition dd (x : st) : Prop := dead (s_end (sc x)) = true.

Lemma lv_not_dd x : lv x -> dd x -> False.
Proof. unfold lv, dd. rewrite live_not_dead. destruct (dead (s_end (sc x))); discriminate. Qed.
Lemma lv_or_dd x : lv x \/ dd x.
Proof. unfold lv, dd. rewrite live_not_dead. destruct (dead (s_end (sc x))); [right | left]; reflexivity. Qed.

(* mark_as_end on the scope *)
Definition mark_end (cur : option End) (e : End) : option End :=
  match cur with None | Some EContinue => Some e | _ => cur end.

Lemma sc_mark k e x :
  sc (mark_as_end k e x) =
  {| s_end := mark_end (s_end (sc x)) e; s_mt := s_mt (sc x); s_fb := s_fb (sc x); s_fc := s_fc (sc x);
     s_hoist := s_hoist (sc x) |}.
Proof. unfold mark_as_end, mark_end. destruct x as [[en mt fb fc ho] i pa]. destruct en as [[r t f| |]|]; reflexivity. Qed.

Lemma end_mark k e x : s_end (sc (mark_as_end k e x)) = mark_end (s_end (sc x)) e.
Proof. rewrite sc_mark. reflexivity. Qed.
Lemma mt_mark k e x : s_mt (sc (mark_as_end k e x)) = s_mt (sc x).
Proof. rewrite sc_mark. reflexivity. Qed.
Lemma fb_mark k e x : s_fb (sc (mark_as_end k e x)) = s_fb (sc x).
Proof. rewrite sc_mark. reflexivity. Qed.
Lemma fc_mark k e x : s_fc (sc (mark_as_end k e x)) = s_fc (sc x).
Proof. rewrite sc_mark. reflexivity. Qed.

Lemma sc_set_unreach k b x : sc (set_unreach k b x) = sc x.
Proof. reflexivity. Qed.

Lemma mark_end_live cur e : live cur = true -> mark_end cur e = Some e.
Proof. destruct cur as [[r t i| |]|]; try discriminate; reflexivity. Qed.
Lemma mark_end_dead cur e : dead cur = true -> mark_end cur e = cur.
Proof. destruct cur as [[r t i| |]|]; try discriminate; reflexivity. Qed.
Lemma mark_val_live cur e : live cur = true -> mark_val cur e = Some e.
Proof. destruct cur as [[r t i| |]|]; try discriminate; reflexivity. Qed.

(* visit_lit / visit_ident / visit_e / visit_cond: only may_throw and the hoist set change *)
Lemma end_visit_lit x : s_end (sc (visit_lit x)) = s_end (sc x).
Proof. unfold visit_lit. destruct (live_now x); reflexivity. Qed.
Lemma fb_visit_lit x : s_fb (sc (visit_lit x)) = s_fb (sc x).
Proof. unfold visit_lit. destruct (live_now x); reflexivity. Qed.
Lemma fc_visit_lit x : s_fc (sc (visit_lit x)) = s_fc (sc x).
Proof. unfold visit_lit. destruct (live_now x); reflexivity. Qed.
Lemma mt_visit_lit x : s_mt (sc (visit_lit x)) = s_mt (sc x) || live_now x.
Proof. unfold visit_lit. destruct (live_now x); cbn; [rewrite orb_true_r | rewrite orb_false_r]; reflexivity. Qed.
Lemma end_visit_ident i x : s_end (sc (visit_ident i x)) = s_end (sc x).
Proof. unfold visit_ident. destruct (live_now x); reflexivity. Qed.
Lemma fb_visit_ident i x : s_fb (sc (visit_ident i x)) = s_fb (sc x).
Proof. unfold visit_ident. destruct (live_now x); reflexivity. Qed.
Lemma fc_visit_ident i x : s_fc (sc (visit_ident i x)) = s_fc (sc x).
Proof. unfold visit_ident. destruct (live_now x); reflexivity. Qed.
Lemma mt_visit_ident i x : s_mt (sc (visit_ident i x)) = s_mt (sc x).
Proof. unfold visit_ident. destruct (live_now x); reflexivity. Qed.

Lemma end_visit_e e x : s_end (sc (visit_e e x)) = s_end (sc x).
Proof. destruct e; cbn [visit_e]; rewrite ?end_visit_lit, ?end_visit_ident; reflexivity. Qed.
Lemma fb_visit_e e x : s_fb (sc (visit_e e x)) = s_fb (sc x).
Proof. destruct e; cbn [visit_e]; rewrite ?fb_visit_lit, ?fb_visit_ident; reflexivity. Qed.
Lemma fc_visit_e e x : s_fc (sc (visit_e e x)) = s_fc (sc x).
Proof. destruct e; cbn [visit_e]; rewrite ?fc_visit_lit, ?fc_visit_ident; reflexivity. Qed.
Lemma mt_visit_e_mono e x : s_mt (sc x) = true -> s_mt (sc (visit_e e x)) = true.
Proof.
  intros H. destruct e; cbn [visit_e]; rewrite ?mt_visit_lit, ?mt_visit_ident, ?H; reflexivity.
Qed.
Lemma mt_visit_e_throws e x : lv x -> e_throws e = true -> s_mt (sc (visit_e e x)) = true.
Proof.
  intros Hl He. destruct e; try discriminate. cbn [visit_e]. rewrite mt_visit_lit.
  unfold live_now. rewrite end_visit_ident. unfold lv in Hl. rewrite Hl. apply orb_true_r.
Qed.

Lemma end_visit_cond c x : s_end (sc (visit_cond c x)) = s_end (sc x).
Proof. destruct c; cbn [visit_cond]; rewrite ?end_visit_lit, ?end_visit_e; reflexivity. Qed.
Lemma fb_visit_cond c x : s_fb (sc (visit_cond c x)) = s_fb (sc x).
Proof. destruct c; cbn [visit_cond]; rewrite ?fb_visit_lit, ?fb_visit_e; reflexivity. Qed.
Lemma fc_visit_cond c x : s_fc (sc (visit_cond c x)) = s_fc (sc x).
Proof. destruct c; cbn [visit_cond]; rewrite ?fc_visit_lit, ?fc_visit_e; reflexivity. Qed.
Lemma mt_visit_cond_mono c x : s_mt (sc x) = true -> s_mt (sc (visit_cond c x)) = true.
Proof.
  intros H. destruct c; cbn [visit_cond]; [rewrite mt_visit_lit, H; reflexivity | rewrite mt_visit_lit, H; reflexivity | apply mt_visit_e_mono; exact H].
Qed.
Lemma mt_visit_cond_throws c x : lv x -> cond_throws c = true -> s_mt (sc (visit_cond c x)) = true.
Proof. intros Hl Hc. destruct c; try discriminate. cbn [visit_cond]. apply mt_visit_e_throws; assumption. Qed.

(* ------------------------------------------------------------------ *)
(* child scopes *)
Lemma sc_child_enter k x :
  sc (child_enter k x) =
  new_scope (match k with KFunction => None | _ => if oend_forced (s_end (sc x)) then s_end (sc x) else None end).
Proof. reflexivity. Qed.

Lemma lv_child_enter k x : lv x -> lv (child_enter k x).
Proof.
  unfold lv. rewrite sc_child_enter. intros H. destruct k; cbn [new_scope s_end]; try reflexivity;
    destruct (s_end (sc x)) as [[r t i| |]|]; try discriminate; reflexivity.
Qed.
Lemma lv_child_enter_fn x : lv (child_enter KFunction x).
Proof. reflexivity. Qed.

(* the scope after child_exit, field by field *)
Definition not_merging (k : kind) : bool := match k with KCase | KFunction | KLoop => true | _ => false end.

Lemma mt_child_exit k start x c : s_mt (sc (child_exit fx k start x c)) = s_mt (sc x) || s_mt (sc c).
Proof.
  unfold child_exit. destruct (s_end (sc c)) as [e|]; [|reflexivity].
  destruct k; cbn [fixC fx repaired]; try reflexivity.
  - destruct e; reflexivity.
  - destruct e; cbn [set_end with_sc sc s_mt]; rewrite mt_mark; reflexivity.
  - cbv zeta. cbn [sc s_fb]. match goal with |- context [match ?o with _ => _ end] => destruct o as [[id|]|] end; try reflexivity.
    destruct (N.eqb id l); reflexivity.
  - rewrite mt_mark. reflexivity.
  - rewrite mt_mark. reflexivity.
Qed.

Lemma fc_child_exit k start x c : s_fc (sc (child_exit fx k start x c)) = s_fc (sc x) || s_fc (sc c).
Proof.
  unfold child_exit. destruct (s_end (sc c)) as [e|]; [|reflexivity].
  destruct k; cbn [fixC fx repaired]; try reflexivity.
  - destruct e; reflexivity.
  - destruct e; cbn [set_end with_sc sc s_fc]; rewrite fc_mark; reflexivity.
  - cbv zeta. cbn [sc s_fb]. match goal with |- context [match ?o with _ => _ end] => destruct o as [[id|]|] end; try reflexivity.
    destruct (N.eqb id l); reflexivity.
  - rewrite fc_mark. reflexivity.
  - rewrite fc_mark. reflexivity.
Qed.

(* found_break: kept by Case/Function/Loop; otherwise an unlabelled break of the child always shows *)
Lemma fb_child_exit_keep k start x c :
  not_merging k = true -> s_fb (sc (child_exit fx k start x c)) = s_fb (sc x).
Proof.
  unfold child_exit. destruct (s_end (sc c)) as [e|]; destruct k; try discriminate; intros _; try reflexivity.
  - destruct e; reflexivity.
  - destruct e; cbn [set_end with_sc sc s_fb]; rewrite fb_mark; reflexivity.
Qed.

Lemma fb_child_exit_mono k start x c :
  s_fb (sc x) = Some None -> s_fb (sc (child_exit fx k start x c)) = Some None.
Proof.
  intros H. destruct (not_merging k) eqn:Hk; [rewrite fb_child_exit_keep; assumption|].
  unfold child_exit. rewrite H. cbn [fixB fx repaired andb].
  destruct (s_end (sc c)) as [e|]; destruct k; try discriminate; cbn [sc s_fb];
    destruct (fb_unlabelled (s_fb (sc c))); try reflexivity; rewrite ?fb_mark; reflexivity.
Qed.

Lemma fb_child_exit_child k start x c :
  not_merging k = false -> s_fb (sc c) = Some None -> s_fb (sc (child_exit fx k start x c)) = Some None.
Proof.
  intros Hk H. unfold child_exit. rewrite H. cbn [fixB fx repaired andb fb_unlabelled].
  destruct (s_end (sc c)) as [e|]; destruct k; try discriminate; cbn [sc s_fb]; rewrite ?fb_mark; reflexivity.
Qed.

(* the scope's end after child_exit *)
Lemma end_child_exit_if start x c : s_end (sc (child_exit fx KIf start x c)) = s_end (sc x).
Proof. unfold child_exit. destruct (s_end (sc c)); reflexivity. Qed.
Lemma end_child_exit_case start x c : s_end (sc (child_exit fx KCase start x c)) = s_end (sc x).
Proof. unfold child_exit. destruct (s_end (sc c)); reflexivity. Qed.
Lemma end_child_exit_fn start x c : s_end (sc (child_exit fx KFunction start x c)) = s_end (sc x).
Proof. unfold child_exit. destruct (s_end (sc c)) as [e|]; [destruct e|]; reflexivity. Qed.
Lemma end_child_exit_label l start x c : s_end (sc (child_exit fx (KLabel l) start x c)) = s_end (sc x).
Proof.
  unfold child_exit. destruct (s_end (sc c)); [|reflexivity]. cbv zeta. cbn [sc s_fb].
  match goal with |- context [match ?o with _ => _ end] => destruct o as [[id|]|] end; try reflexivity.
  destruct (N.eqb id l); reflexivity.
Qed.
Lemma end_child_exit_loop start x c :
  s_end (sc (child_exit fx KLoop start x c)) =
  match s_end (sc c) with Some (Forced r t i) => Some (Forced r t i) | _ => s_end (sc x) end.
Proof. unfold child_exit. destruct (s_end (sc c)) as [[r t i| |]|]; reflexivity. Qed.
Lemma end_child_exit_catch start x c :
  s_end (sc (child_exit fx KCatch start x c)) =
  match s_end (sc c) with Some e => mark_end (s_end (sc x)) e | None => s_end (sc x) end.
Proof. unfold child_exit. destruct (s_end (sc c)) as [e|]; [rewrite end_mark|]; reflexivity. Qed.
Lemma end_child_exit_finally start x c :
  s_end (sc (child_exit fx KFinally start x c)) =
  match s_end (sc c) with Some e => mark_end (s_end (sc x)) e | None => s_end (sc x) end.
Proof. unfold child_exit. destruct (s_end (sc c)) as [e|]; [rewrite end_mark|]; reflexivity. Qed.

(* block_end on the scope *)
Lemma end_block_end p y : s_end (sc (block_end p y)) = match s_end (sc y) with Some e => Some e | None => Some EContinue end.
Proof. unfold block_end. destruct (s_end (sc y)) as [[r t i| |]|] eqn:E; rewrite end_mark, E; reflexivity. Qed.
Lemma mt_block_end p y : s_mt (sc (block_end p y)) = s_mt (sc y).
Proof. unfold block_end. destruct (s_end (sc y)); apply mt_mark. Qed.
Lemma fb_block_end p y : s_fb (sc (block_end p y)) = s_fb (sc y).
Proof. unfold block_end. destruct (s_end (sc y)); apply fb_mark. Qed.
Lemma fc_block_end p y : s_fc (sc (block_end p y)) = s_fc (sc y).
Proof. unfold block_end. destruct (s_end (sc y)); apply fc_mark. Qed.
Lemma dd_block_end p y : dd (block_end p y) <-> dd y.
Proof. unfold dd. rewrite end_block_end. destruct (s_end (sc y)) as [[r t i| |]|]; cbn; split; congruence. Qed.

(* ------------------------------------------------------------------ *)
(* the invariants *)
Definition g_st (r : gres) : st := fst (fst r).
Definition g_rs (r : gres) : option End := snd (fst r).
Definition g_lg (r : gres) : list gent := snd r.
Definition l_st (r : gres_l) : st := fst (fst r).
Definition l_tops (r : gres_l) : list (option End) := snd (fst r).
Definition l_lg (r : gres_l) : list gent := snd r.

(* (A1) recorded facts are never lost *)
Definition mono (x0 x1 : st) : Prop :=
  (s_fb (sc x0) = Some None -> s_fb (sc x1) = Some None) /\
  (s_fc (sc x0) = true -> s_fc (sc x1) = true) /\
  (s_mt (sc x0) = true -> s_mt (sc x1) = true).
(* (A2) a case of a switch that was analysed live and is claimed to stop cannot complete normally *)
Definition cases_ok (lg : list gent) : Prop := forall b, In (GCase b true true) lg -> cN (csem_l b) = false.
(* (A3) logged statement positions are keys of the statement *)
Definition lkeys_in (lg : list gent) (K : list N) : Prop := forall k d fl, In (GStmt k d fl) lg -> In k K.

Definition has_cont (c : comps) : bool := cC0 c || negb (is_nil (cCL c)).
(* (B2..B5) P2: dead afterwards => cannot complete normally; P3/P4/P5: escaping break / continue / throw is recorded *)
Definition post_sc (x1 : st) (c : comps) : Prop :=
  (dd x1 -> cN c = false) /\
  (cB0 c = true -> s_fb (sc x1) = Some None) /\
  (has_cont c = true -> s_fc (sc x1) = true) /\
  (cT c = true -> s_mt (sc x1) = true).
(* (B1) P1: a statement visited while the scope was dead is not entered *)
Definition flags_ok (lg : list gent) (R : list N) : Prop := forall k fl, In (GStmt k true fl) lg -> ~ In k R.

Definition okA (op : st -> gres) (K : list N) : Prop :=
  forall x, mono x (g_st (op x)) /\ cases_ok (g_lg (op x)) /\ lkeys_in (g_lg (op x)) K.
Definition okB (op : st -> gres) (c : comps) (R : list N) : Prop :=
  forall x, lv x ->
    post_sc (g_st (op x)) c /\ (dead (g_rs (op x)) = true -> cN c = false) /\ flags_ok (g_lg (op x)) R.
Definition okAl (op : st -> gres_l) (K : list N) : Prop :=
  forall x, mono x (l_st (op x)) /\ cases_ok (l_lg (op x)) /\ lkeys_in (l_lg (op x)) K.
Definition okBl (op : st -> gres_l) (c : comps) (R : list N) : Prop :=
  forall x, lv x ->
    post_sc (l_st (op x)) c /\ (tops_stop (l_tops (op x)) = true -> cN c = false) /\ flags_ok (l_lg (op x)) R.

Lemma mono_refl x : mono x x.
Proof. repeat split; intros H; exact H. Qed.
Lemma mono_trans x y z : mono x y -> mono y z -> mono x z.
Proof. intros [A1 [A2 A3]] [B1 [B2 B3]]. repeat split; intros H; auto. Qed.
Lemma mono_sc x y : sc x = sc y -> mono x y.
Proof. intros E. unfold mono. rewrite E. repeat split; intros H; exact H. Qed.

Lemma mono_mark k e x : mono x (mark_as_end k e x).
Proof. unfold mono. rewrite fb_mark, fc_mark, mt_mark. repeat split; intros H; exact H. Qed.
Lemma mono_visit_lit x : mono x (visit_lit x).
Proof. unfold mono. rewrite fb_visit_lit, fc_visit_lit, mt_visit_lit. repeat split; intros H; try exact H. rewrite H. reflexivity. Qed.
Lemma mono_visit_e e x : mono x (visit_e e x).
Proof. unfold mono. rewrite fb_visit_e, fc_visit_e. repeat split; intros H; try exact H. apply mt_visit_e_mono. exact H. Qed.
Lemma mono_visit_cond c x : mono x (visit_cond c x).
Proof. unfold mono. rewrite fb_visit_cond, fc_visit_cond. repeat split; intros H; try exact H. apply mt_visit_cond_mono. exact H. Qed.
Lemma mono_block_end p x : mono x (block_end p x).
Proof. unfold mono. rewrite fb_block_end, fc_block_end, mt_block_end. repeat split; intros H; exact H. Qed.
Lemma mono_set_end x e : mono x (set_end x e).
Proof. repeat split; intros H; exact H. Qed.
Lemma mono_child_exit k start x c : mono x (child_exit fx k start x c).
Proof.
  unfold mono. rewrite fc_child_exit, mt_child_exit. repeat split; intros H.
  - apply fb_child_exit_mono. exact H.
  - rewrite H. reflexivity.
  - rewrite H. reflexivity.
Qed.

Lemma cases_ok_nil : cases_ok [].
Proof. intros b []. Qed.
Lemma cases_ok_app a b : cases_ok a -> cases_ok b -> cases_ok (a ++ b).
Proof. intros Ha Hb x H. apply in_app_or in H. destruct H; [apply Ha | apply Hb]; assumption. Qed.
Lemma cases_ok_stmt k d fl lg : cases_ok lg -> cases_ok (GStmt k d fl :: lg).
Proof. intros H b [E | Hin]; [discriminate | apply H; exact Hin]. Qed.

Lemma lkeys_in_nil K : lkeys_in [] K.
Proof. intros k d fl []. Qed.
Lemma lkeys_in_app a b K : lkeys_in a K -> lkeys_in b K -> lkeys_in (a ++ b) K.
Proof. intros Ha Hb k d fl H. apply in_app_or in H. destruct H; [eapply Ha | eapply Hb]; eassumption. Qed.
Lemma lkeys_in_weak a K K' : lkeys_in a K -> incl K K' -> lkeys_in a K'.
Proof. intros Ha Hi k d fl H. apply Hi. eapply Ha. eassumption. Qed.
Lemma lkeys_in_case b l s lg K : lkeys_in lg K -> lkeys_in (GCase b l s :: lg) K.
Proof. intros H k d fl [E | Hin]; [discriminate | eapply H; eassumption]. Qed.

Lemma flags_ok_nil R : flags_ok [] R.
Proof. intros k fl []. Qed.
Lemma flags_ok_case b l s lg R : flags_ok lg R -> flags_ok (GCase b l s :: lg) R.
Proof. intros H k fl [E | Hin]; [discriminate | eapply H; eassumption]. Qed.
(* logged keys in K, and K disjoint from R *)
Lemma flags_ok_disjoint lg K R : lkeys_in lg K -> (forall k, In k K -> ~ In k R) -> flags_ok lg R.
Proof. intros Hk Hd k fl Hin. apply Hd. eapply Hk. eassumption. Qed.
Lemma flags_ok_app_r lg R1 R2 : flags_ok lg R1 -> flags_ok lg R2 -> flags_ok lg (R1 ++ R2).
Proof. intros H1 H2 k fl Hin Hr. apply in_app_or in Hr. destruct Hr; [eapply H1 | eapply H2]; eassumption. Qed.
Lemma flags_ok_app_l lg1 lg2 R : flags_ok lg1 R -> flags_ok lg2 R -> flags_ok (lg1 ++ lg2) R.
Proof. intros H1 H2 k fl Hin. apply in_app_or in Hin. destruct Hin; [eapply H1 | eapply H2]; eassumption. Qed.
Lemma flags_ok_cons_r lg p R : flags_ok lg [p] -> flags_ok lg R -> flags_ok lg (p :: R).
Proof. intros H1 H2. apply (flags_ok_app_r lg [p] R H1 H2). Qed.

(* reach and keys *)
Lemma reach_keys :
  (forall s k, In k (reach s) -> In k (keys s)) /\
  (forall l k, In k (reach_l l) -> In k (keys_l l)) /\
  (forall cs k, In k (reach_c cs) -> In k (keys_c cs)).
Proof.
  apply stmt_mutind; cbn [reach keys reach_l keys_l reach_c keys_c].
  - intros p e k [<-|[]]; left; reflexivity.
  - intros p k [<-|[]]; left; reflexivity.
  - intros p v i k [<-|[]]; left; reflexivity.
  - intros p n pb b IH k [<-|H]; [left; reflexivity | right; right; apply IH; exact H].
  - intros p pb b IH k [<-|H]; [left; reflexivity | right; right; apply IH; exact H].
  - intros p a k [<-|[]]; left; reflexivity.
  - intros p e k [<-|[]]; left; reflexivity.
  - intros p l k [<-|[]]; left; reflexivity.
  - intros p l k [<-|[]]; left; reflexivity.
  - intros p b IH k [<-|H]; [left; reflexivity | right; apply IH; exact H].
  - intros p c a IH k [<-|H]; [left; reflexivity | right]. destruct (may_true c); [apply IH; exact H | destruct H].
  - intros p c a IHa b IHb k [<-|H]; [left; reflexivity | right]. apply in_or_app. apply in_app_or in H. destruct H as [H|H].
    + left. destruct (may_true c); [apply IHa; exact H | destruct H].
    + right. destruct (may_false c); [apply IHb; exact H | destruct H].
  - intros p c b IH k [<-|H]; [left; reflexivity | right]. destruct (may_true c); [apply IH; exact H | destruct H].
  - intros p b IH c k [<-|H]; [left; reflexivity | right; apply IH; exact H].
  - intros p c b IH k [<-|H]; [left; reflexivity | right]. destruct c as [c|]; [destruct (may_true c); [apply IH; exact H | destruct H] | apply IH; exact H].
  - intros p b IH k [<-|H]; [left; reflexivity | right; apply IH; exact H].
  - intros p b IH k [<-|H]; [left; reflexivity | right; apply IH; exact H].
  - intros p cs IH k [<-|H]; [left; reflexivity | right; apply IH; exact H].
  - intros p l b IH k [<-|H]; [left; reflexivity | right; apply IH; exact H].
  - intros p bp blk IHb h hb IHh f fb IHf k [<-|H]; [left; reflexivity | right; right].
    apply in_or_app. apply in_app_or in H. destruct H as [H|H]; [left; apply IHb; exact H | right].
    apply in_or_app. apply in_app_or in H. destruct H as [H|H].
    + left. destruct h as [[cp hbp]|]; [|destruct H]. destruct (cT (csem_l blk)); [|destruct H]. right; right. apply IHh. exact H.
    + right. destruct f as [fp|]; [|destruct H].
      match type of H with In _ (if ?b then _ else _) => destruct b end; [|destruct H]. right. apply IHf. exact H.
  - intros k [].
  - intros s IHs r IHr k H. apply in_or_app. apply in_app_or in H. destruct H as [H|H]; [left; apply IHs; exact H | right].
    destruct (cN (csem s [])); [apply IHr; exact H | destruct H].
  - intros k [].
  - intros cp d ft b IHb r IHr k H. right. apply in_or_app. apply in_app_or in H. destruct H as [H|H]; [left; apply IHb | right; apply IHr]; exact H.
Qed.

(* ------------------------------------------------------------------ *)
(* NoDup helpers *)
Lemma NoDup_app_inv {A} (a b : list A) :
  NoDup (a ++ b) -> NoDup a /\ NoDup b /\ (forall x, In x a -> ~ In x b).
Proof.
  induction a as [|y a IH]; cbn [app].
  - intros H. repeat split; [constructor | exact H | intros x []].
  - intros H. inversion H as [|y' l Hn Hd]; subst. destruct (IH Hd) as [Ha [Hb Hdis]].
    repeat split.
    + constructor; [intros Hin; apply Hn; apply in_or_app; left; exact Hin | exact Ha].
    + exact Hb.
    + intros x [<-|Hin] Hb'; [apply Hn; apply in_or_app; right; exact Hb' | exact (Hdis x Hin Hb')].
Qed.
Lemma NoDup_cons_inv {A} (x : A) l : NoDup (x :: l) -> ~ In x l /\ NoDup l.
Proof. intros H. inversion H; subst. split; assumption. Qed.

(* ------------------------------------------------------------------ *)
(* the visit_stmt wrapper *)
Definition wrap (s : stmt) (V : st -> gres) (x0 : st) : gres :=
  gcons (GStmt (pos s) (dead_now x0) (stmt_unreachable s x0)) (V (set_unreach (pos s) (stmt_unreachable s x0) x0)).

Lemma g_st_gcons g r : g_st (gcons g r) = g_st r.
Proof. destruct r as [[y rs] lg]. reflexivity. Qed.
Lemma g_rs_gcons g r : g_rs (gcons g r) = g_rs r.
Proof. destruct r as [[y rs] lg]. reflexivity. Qed.
Lemma g_lg_gcons g r : g_lg (gcons g r) = g :: g_lg r.
Proof. destruct r as [[y rs] lg]. reflexivity. Qed.

Lemma wrap_A s V K K' : okA V K -> incl K K' -> In (pos s) K' -> okA (wrap s V) K'.
Proof.
  intros HV Hi Hp x0. unfold wrap. rewrite g_st_gcons, g_lg_gcons.
  destruct (HV (set_unreach (pos s) (stmt_unreachable s x0) x0)) as [Hm [Hc Hk]].
  split; [|split].
  - eapply mono_trans; [apply (mono_sc x0 (set_unreach (pos s) (stmt_unreachable s x0) x0)); reflexivity | exact Hm].
  - apply cases_ok_stmt. exact Hc.
  - intros k d fl [E | Hin]; [injection E as <- _ _; exact Hp | apply Hi; eapply Hk; eassumption].
Qed.

Lemma wrap_B s V K c R : okB V c R -> okA V K -> (forall k, In k K -> k <> pos s) -> okB (wrap s V) c (pos s :: R).
Proof.
  intros HB HA Hne x0 Hl. unfold wrap. rewrite g_st_gcons, g_rs_gcons, g_lg_gcons.
  assert (Hl' : lv (set_unreach (pos s) (stmt_unreachable s x0) x0)) by exact Hl.
  destruct (HB _ Hl') as [Hp [Hr Hf]]. destruct (HA (set_unreach (pos s) (stmt_unreachable s x0) x0)) as [_ [_ Hk]].
  split; [exact Hp | split; [exact Hr|]].
  intros k fl [E | Hin].
  - injection E as _ Hd _. exfalso. unfold lv in Hl. unfold dead_now in Hd. rewrite live_not_dead, Hd in Hl. discriminate.
  - intros [E | Hr']; [apply (Hne k); [eapply Hk; eassumption | symmetry; exact E] | exact (Hf k fl Hin Hr')].
Qed.

(* visit_stmt_or_block *)
Lemma orb_A s op K : okA op K -> okA (fun a => orbG s (op a)) K.
Proof.
  intros H x. destruct (H x) as [Hm [Hc Hk]]. unfold orbG. destruct (op x) as [[y rs] lg]. cbn [g_st g_lg fst snd] in *.
  destruct (is_brk_or_cont s); cbn [g_st g_lg fst snd]; [|split; [exact Hm | split; assumption]].
  split; [apply (mono_trans x y _ Hm (mono_mark _ _ _)) | split; assumption].
Qed.

Lemma orb_B s op c R : okB op c R -> (is_brk_or_cont s = true -> cN c = false) -> okB (fun a => orbG s (op a)) c R.
Proof.
  intros H Hbc x Hl. destruct (H x Hl) as [[P2 [P3 [P4 P5]]] [Hr Hf]]. unfold orbG. destruct (op x) as [[y rs] lg].
  cbn [g_st g_rs g_lg fst snd] in *.
  destruct (is_brk_or_cont s) eqn:E; cbn [g_st g_rs g_lg fst snd]; [|split; [split; [exact P2 | split; [exact P3 | split; [exact P4 | exact P5]]] | split; assumption]].
  split; [|split; [intros _; apply Hbc; reflexivity | exact Hf]].
  split; [intros _; apply Hbc; reflexivity|]. rewrite fb_mark, fc_mark, mt_mark. split; [exact P3 | split; [exact P4 | exact P5]].
Qed.

(* a block / function body / try block ends: block_endG *)
Lemma block_end_A p op K : okAl op K -> okA (fun a => block_endG p (op a)) K.
Proof.
  intros H x. destruct (H x) as [Hm [Hc Hk]]. unfold block_endG. destruct (op x) as [[y tops] lg].
  cbn [g_st g_lg l_st l_lg fst snd] in *. split; [apply (mono_trans x y _ Hm (mono_block_end _ _)) | split; assumption].
Qed.

Lemma block_end_B p op c R : okBl op c R -> okB (fun a => block_endG p (op a)) c R.
Proof.
  intros H x Hl. destruct (H x Hl) as [[P2 [P3 [P4 P5]]] [Hr Hf]]. unfold block_endG. destruct (op x) as [[y tops] lg].
  cbn [g_st g_rs g_lg l_st l_tops l_lg fst snd] in *.
  split; [|split; [|exact Hf]].
  - split; [intros Hd; apply P2; apply dd_block_end in Hd; exact Hd|].
    rewrite fb_block_end, fc_block_end, mt_block_end. split; [exact P3 | split; [exact P4 | exact P5]].
  - intros Hd. apply P2. unfold dd. destruct (s_end (sc y)) as [[r t i| |]|]; cbn in Hd |- *; congruence.
Qed.

(* leaves *)
Lemma post_sc_live x1 c : lv x1 ->
  (cB0 c = true -> s_fb (sc x1) = Some None) -> (has_cont c = true -> s_fc (sc x1) = true) ->
  (cT c = true -> s_mt (sc x1) = true) -> post_sc x1 c.
Proof. intros Hl H3 H4 H5. split; [intros Hd; exfalso; exact (lv_not_dd _ Hl Hd) | split; [exact H3 | split; [exact H4 | exact H5]]]. Qed.

Lemma leaf_A (f : st -> st) : (forall x, mono x (f x)) -> okA (fun x => (f x, None, [])) [].
Proof. intros H x. cbn [g_st g_lg fst snd]. split; [apply H | split; [apply cases_ok_nil | apply lkeys_in_nil]]. Qed.

Lemma expr_B e : okB (fun x => (visit_e e x, None, [])) (cset_T (e_throws e) only_N) [].
Proof.
  intros x Hl. cbn [g_st g_rs g_lg fst snd]. split; [|split; [discriminate | apply flags_ok_nil]].
  apply post_sc_live; [unfold lv; rewrite end_visit_e; exact Hl | discriminate | discriminate |].
  cbn [cset_T cT]. apply mt_visit_e_throws. exact Hl.
Qed.

Lemma empty_B : okB (fun x => (x, None, [])) only_N [].
Proof.
  intros x Hl. cbn [g_st g_rs g_lg fst snd]. split; [|split; [discriminate | apply flags_ok_nil]].
  apply post_sc_live; [exact Hl | discriminate | discriminate | discriminate].
Qed.

Lemma var_B i : okB (fun x => (match i with Some e => visit_e e x | None => x end, None, [])) (cset_T (oe_throws i) only_N) [].
Proof. destruct i as [e|]; [apply expr_B | apply empty_B]. Qed.

Lemma ret_B p a :
  okB (fun x => let '(y, r) := visit_returnG p a x in (y, r, []))
      {| cN := false; cR := true; cT := oe_throws a; cB0 := false; cC0 := false; cBL := []; cCL := [] |} [].
Proof.
  intros x Hl. unfold visit_returnG. cbn [g_st g_rs g_lg fst snd]. split; [|split; [reflexivity | apply flags_ok_nil]].
  repeat split; try discriminate. cbn [cT]. rewrite mt_mark. destruct a as [e|]; [apply mt_visit_e_throws; exact Hl | discriminate].
Qed.

Lemma throw_B p e : okB (fun x => let '(y, r) := visit_throwG fx p e x in (y, r, [])) (t_if true) [].
Proof.
  intros x Hl. unfold visit_throwG. cbn [fixD fx repaired g_st g_rs g_lg fst snd]. split; [|split; [reflexivity | apply flags_ok_nil]].
  repeat split; try discriminate. intros _. rewrite mt_mark, mt_visit_lit. unfold live_now. rewrite end_visit_e.
  unfold lv in Hl. rewrite Hl. apply orb_true_r.
Qed.

Lemma brk_B l : okB (fun x => (visit_break fx l x, None, []))
  (match l with None => {| cN := false; cR := false; cT := false; cB0 := true; cC0 := false; cBL := []; cCL := [] |}
              | Some l => {| cN := false; cR := false; cT := false; cB0 := false; cC0 := false; cBL := [l]; cCL := [] |} end) [].
Proof.
  intros x Hl. cbn [g_st g_rs g_lg fst snd]. split; [|split; [discriminate | apply flags_ok_nil]].
  unfold visit_break. cbn [fixB fx repaired].
  destruct l as [l|]; [destruct (s_fb (sc x))|]; repeat split; try discriminate; try reflexivity.
Qed.

Lemma cont_B l : okB (fun x => (set_fc x true, None, []))
  (match l with None => {| cN := false; cR := false; cT := false; cB0 := false; cC0 := true; cBL := []; cCL := [] |}
              | Some l => {| cN := false; cR := false; cT := false; cB0 := false; cC0 := false; cBL := []; cCL := [l] |} end) [].
Proof.
  intros x Hl. cbn [g_st g_rs g_lg fst snd]. split; [|split; [discriminate | apply flags_ok_nil]].
  destruct l as [l|]; repeat split; try discriminate; try reflexivity.
Qed.

Lemma mono_visit_break l x : mono x (visit_break fx l x).
Proof.
  unfold visit_break. cbn [fixB fx repaired]. destruct l as [l|]; [destruct (s_fb (sc x)) eqn:E|].
  - apply mono_refl.
  - repeat split; intros H; try exact H; try (cbn in H; congruence).
  - repeat split; intros H; try exact H; try reflexivity.
Qed.

(* ------------------------------------------------------------------ *)
(* completion-set helpers *)
Lemma has_cont_cunion a b : has_cont (cunion a b) = has_cont a || has_cont b.
Proof.
  unfold has_cont. cbn [cunion cC0 cCL]. destruct (cC0 a), (cC0 b), (cCL a), (cCL b); reflexivity.
Qed.
Lemma has_cont_cempty : has_cont cempty = false. Proof. reflexivity. Qed.
Lemma has_cont_t_if b : has_cont (t_if b) = false. Proof. reflexivity. Qed.
Lemma has_cont_n_if b : has_cont (n_if b) = false. Proof. reflexivity. Qed.
Lemma has_cont_cset_N b c : has_cont (cset_N b c) = has_cont c. Proof. reflexivity. Qed.
Lemma has_cont_cset_T b c : has_cont (cset_T b c) = has_cont c. Proof. reflexivity. Qed.

Ltac dsplit := repeat match goal with |- _ /\ _ => split end.

Lemma if_eq_N (b : bool) c : cN c = false -> cN (if b then c else cempty) = false.
Proof. intros H. destruct b; [exact H | reflexivity]. Qed.
Lemma if_field (f : comps -> bool) (b : bool) c :
  f cempty = false -> f (if b then c else cempty) = true -> f c = true /\ b = true.
Proof. intros H0 H. destruct b; [split; [exact H | reflexivity] | congruence]. Qed.
Lemma or_field (f : comps -> bool) (b1 b2 : bool) c1 c2 :
  f cempty = false -> f (if b1 then c1 else cempty) || f (if b2 then c2 else cempty) = true ->
  f c1 = true /\ b1 = true \/ f c2 = true /\ b2 = true.
Proof.
  intros H0 H. apply orb_true_iff in H. destruct H as [H|H]; [left | right]; apply if_field; assumption.
Qed.
Lemma flags_ok_nil' lg : flags_ok lg [].
Proof. intros k fl _ []. Qed.

(* ------------------------------------------------------------------ *)
(* child scopes, generically *)
Lemma with_child_A k start op K : okA op K -> okA (with_childG fx k start op) K.
Proof.
  intros H x. unfold with_childG. destruct (H (child_enter k x)) as [_ [Hc Hk]].
  destruct (op (child_enter k x)) as [[c r] lg]. cbn [g_st g_lg fst snd] in *.
  dsplit; [apply mono_child_exit | exact Hc | exact Hk].
Qed.

(* function-like bodies *)
Lemma fn_A p pb body K : okAl body K -> okA (fn_likeG fx p pb body) K.
Proof.
  intros H x. unfold fn_likeG, block_endG. destruct (H (child_enter KFunction x)) as [_ [Hc Hk]].
  destruct (body (child_enter KFunction x)) as [[c tops] lg]. cbn [g_st g_lg l_lg fst snd] in *.
  dsplit; [apply mono_child_exit | exact Hc | exact Hk].
Qed.

Lemma fn_B p pb body cb Rb : okBl body cb Rb -> okB (fn_likeG fx p pb body) only_N Rb.
Proof.
  intros H x Hl. unfold fn_likeG, block_endG. destruct (H (child_enter KFunction x) (lv_child_enter_fn x)) as [_ [_ Hf]].
  destruct (body (child_enter KFunction x)) as [[c tops] lg]. cbn [g_st g_rs g_lg l_lg fst snd fixC fx repaired] in *.
  dsplit.
  - apply post_sc_live; try discriminate. unfold lv. rewrite end_child_exit_fn. exact Hl.
  - destruct (s_end (sc (block_end pb c))) as [[r t i| |]|]; discriminate.
  - exact Hf.
Qed.

Lemma arrow_A p pb body K : okAl body K -> okA (fun x => let '(y, r, lg) := fn_likeG fx p pb body x in (visit_lit y, r, lg)) K.
Proof.
  intros H x. destruct (fn_A p pb body K H x) as [Hm [Hc Hk]]. destruct (fn_likeG fx p pb body x) as [[y r] lg].
  cbn [g_st g_lg fst snd] in *. dsplit; [eapply mono_trans; [exact Hm | apply mono_visit_lit] | exact Hc | exact Hk].
Qed.

Lemma arrow_B p pb body cb Rb :
  okBl body cb Rb -> okB (fun x => let '(y, r, lg) := fn_likeG fx p pb body x in (visit_lit y, r, lg)) only_N Rb.
Proof.
  intros H x Hl. destruct (fn_B p pb body cb Rb H x Hl) as [[P2 _] [Hr Hf]]. destruct (fn_likeG fx p pb body x) as [[y r] lg].
  cbn [g_st g_rs g_lg fst snd] in *. dsplit; [|exact Hr | exact Hf].
  split; [|dsplit; discriminate]. intros Hd. apply P2. unfold dd in *. rewrite end_visit_lit in Hd. exact Hd.
Qed.

(* if without else *)
Lemma if_A p c p1 op1 K : okA op1 K -> okA (visit_ifG fx p c p1 op1) K.
Proof.
  intros H x. unfold visit_ifG. destruct (with_child_A KIf p1 op1 K H (visit_cond c x)) as [Hm [Hc Hk]].
  destruct (with_childG fx KIf p1 op1 (visit_cond c x)) as [[x2 r] lg]. cbn [g_st g_lg fst snd] in *.
  dsplit; [|exact Hc | exact Hk].
  eapply mono_trans; [apply mono_visit_cond|]. eapply mono_trans; [exact Hm|].
  eapply mono_trans; [apply mono_mark | apply mono_set_end].
Qed.

Lemma if_B p c p1 op1 c1 R1 :
  okB op1 c1 R1 ->
  okB (visit_ifG fx p c p1 op1)
      (cunion (t_if (cond_throws c)) (cunion (if may_true c then c1 else cempty) (n_if (may_false c))))
      (if may_true c then R1 else []).
Proof.
  intros H x Hl. unfold visit_ifG, with_childG.
  assert (Hl1 : lv (visit_cond c x)) by (unfold lv; rewrite end_visit_cond; exact Hl).
  destruct (H (child_enter KIf (visit_cond c x)) (lv_child_enter KIf _ Hl1)) as [[P2 [P3 [P4 P5]]] [Hr Hf]].
  destruct (op1 (child_enter KIf (visit_cond c x))) as [[c' r] lg]. cbn [g_st g_rs g_lg fst snd] in *.
  dsplit.
  - apply post_sc_live.
    + unfold lv. cbn [set_end with_sc sc s_end]. exact Hl1.
    + cbn [cunion cB0 t_if n_if cset_T cset_N cempty orb]. rewrite orb_false_r. intros Hb.
      cbn [set_end with_sc sc s_fb]. rewrite fb_mark. apply fb_child_exit_child; [reflexivity|].
      apply P3. destruct (may_true c); [exact Hb | discriminate].
    + rewrite !has_cont_cunion, has_cont_t_if, has_cont_n_if, orb_false_r. cbn [orb]. intros Hb.
      cbn [set_end with_sc sc s_fc]. rewrite fc_mark, fc_child_exit. rewrite P4; [apply orb_true_r|].
      destruct (may_true c); [exact Hb | discriminate].
    + cbn [cunion cT t_if n_if cset_T cset_N cempty]. rewrite orb_false_r. intros Hb.
      cbn [set_end with_sc sc s_mt]. rewrite mt_mark, mt_child_exit. apply orb_true_iff in Hb. destruct Hb as [Hb|Hb].
      * rewrite (mt_visit_cond_throws c x Hl Hb). reflexivity.
      * rewrite P5; [apply orb_true_r|]. destruct (may_true c); [exact Hb | discriminate].
  - rewrite end_child_exit_if. rewrite (mark_val_live _ _ Hl1). discriminate.
  - destruct (may_true c); [exact Hf | intros k fl _ []].
Qed.

(* if with else *)
Lemma if_else_mark_dead r1 r2 e :
  if_else_mark r1 r2 = Some e -> dead (Some e) = true -> dead r1 = true /\ dead r2 = true.
Proof.
  unfold if_else_mark. destruct r1 as [a|]; [|intros H; injection H as <-; discriminate].
  destruct r2 as [b|]; [|intros H; injection H as <-; discriminate].
  destruct a, b; cbn [is_forced andb merge_forced]; intros H; injection H as <-; cbn; intros Hd; try discriminate; split; reflexivity.
Qed.

Lemma if_else_A p c p1 op1 p2 op2 K1 K2 :
  okA op1 K1 -> okA op2 K2 -> okA (visit_if_elseG fx p c p1 op1 p2 op2) (K1 ++ K2).
Proof.
  intros H1 H2 x. unfold visit_if_elseG.
  destruct (with_child_A KIf p1 op1 K1 H1 (visit_cond c x)) as [Hm1 [Hc1 Hk1]].
  destruct (with_childG fx KIf p1 op1 (visit_cond c x)) as [[x2 r1] lg1]. cbn [g_st g_lg fst snd] in *.
  destruct (with_child_A KIf p2 op2 K2 H2 x2) as [Hm2 [Hc2 Hk2]].
  destruct (with_childG fx KIf p2 op2 x2) as [[x3 r2] lg2]. cbn [g_st g_lg fst snd] in *.
  dsplit.
  - eapply mono_trans; [apply mono_visit_cond|]. eapply mono_trans; [exact Hm1|]. eapply mono_trans; [exact Hm2|].
    unfold if_else_end. destruct (if_else_mark r1 r2); [apply mono_mark | apply mono_sc; reflexivity].
  - apply cases_ok_app; assumption.
  - apply lkeys_in_app; [eapply lkeys_in_weak; [exact Hk1 | apply incl_appl, incl_refl] | eapply lkeys_in_weak; [exact Hk2 | apply incl_appr, incl_refl]].
Qed.

Lemma if_else_B p c p1 op1 p2 op2 c1 c2 R1 R2 K1 K2 :
  okB op1 c1 R1 -> okB op2 c2 R2 -> okA op1 K1 -> okA op2 K2 ->
  (forall k, In k K1 -> ~ In k R2) -> (forall k, In k K2 -> ~ In k R1) ->
  okB (visit_if_elseG fx p c p1 op1 p2 op2)
      (cunion (t_if (cond_throws c)) (cunion (if may_true c then c1 else cempty) (if may_false c then c2 else cempty)))
      ((if may_true c then R1 else []) ++ (if may_false c then R2 else [])).
Proof.
  intros H1 H2 A1 A2 D12 D21 x Hl. unfold visit_if_elseG, with_childG.
  assert (Hl1 : lv (visit_cond c x)) by (unfold lv; rewrite end_visit_cond; exact Hl).
  destruct (H1 (child_enter KIf (visit_cond c x)) (lv_child_enter KIf _ Hl1)) as [[P2 [P3 [P4 P5]]] [Hr Hf]].
  destruct (A1 (child_enter KIf (visit_cond c x))) as [_ [_ Hk1]].
  destruct (op1 (child_enter KIf (visit_cond c x))) as [[c1' r1] lg1]. cbn [g_st g_rs g_lg fst snd] in *.
  set (x2 := child_exit fx KIf p1 (visit_cond c x) c1') in *.
  assert (Hl2 : lv x2) by (unfold lv, x2; rewrite end_child_exit_if; exact Hl1).
  destruct (H2 (child_enter KIf x2) (lv_child_enter KIf _ Hl2)) as [[Q2 [Q3 [Q4 Q5]]] [Qr Qf]].
  destruct (A2 (child_enter KIf x2)) as [_ [_ Hk2]].
  destruct (op2 (child_enter KIf x2)) as [[c2' r2] lg2]. cbn [g_st g_rs g_lg fst snd] in *.
  set (x3 := child_exit fx KIf p2 x2 c2') in *.
  assert (Hl3 : lv x3) by (unfold lv, x3; rewrite end_child_exit_if; exact Hl2).
  assert (Hfb : cB0 c1 = true /\ may_true c = true \/ cB0 c2 = true /\ may_false c = true -> s_fb (sc x3) = Some None).
  { intros [[Hb _]|[Hb _]].
    - unfold x3. apply fb_child_exit_mono. unfold x2. apply fb_child_exit_child; [reflexivity | apply P3; exact Hb].
    - unfold x3. apply fb_child_exit_child; [reflexivity | apply Q3; exact Hb]. }
  assert (Hfc : has_cont c1 = true /\ may_true c = true \/ has_cont c2 = true /\ may_false c = true -> s_fc (sc x3) = true).
  { intros [[Hb _]|[Hb _]]; unfold x3, x2; rewrite !fc_child_exit.
    - rewrite (P4 Hb). rewrite orb_true_r. reflexivity.
    - rewrite (Q4 Hb). apply orb_true_r. }
  assert (Hmt : cond_throws c = true \/ cT c1 = true /\ may_true c = true \/ cT c2 = true /\ may_false c = true -> s_mt (sc x3) = true).
  { intros [Hb|[[Hb _]|[Hb _]]]; unfold x3, x2; rewrite !mt_child_exit.
    - rewrite (mt_visit_cond_throws c x Hl Hb). reflexivity.
    - rewrite (P5 Hb). rewrite orb_true_r. reflexivity.
    - rewrite (Q5 Hb). apply orb_true_r. }
  assert (Hdead : forall e, if_else_mark r1 r2 = Some e -> dead (Some e) = true ->
            cN (cunion (t_if (cond_throws c)) (cunion (if may_true c then c1 else cempty) (if may_false c then c2 else cempty))) = false).
  { intros e He Hd. destruct (if_else_mark_dead _ _ _ He Hd) as [D1 D2].
    cbn [cunion cN t_if cset_T cempty orb]. rewrite (if_eq_N (may_true c) c1 (Hr D1)), (if_eq_N (may_false c) c2 (Qr D2)). reflexivity. }
  dsplit.
  - unfold if_else_end. destruct (if_else_mark r1 r2) as [e|] eqn:He.
    + split; [|rewrite fb_mark, fc_mark, mt_mark; dsplit].
      * intros Hd. unfold dd in Hd. rewrite end_mark, (mark_end_live _ _ Hl3) in Hd. exact (Hdead e eq_refl Hd).
      * cbn [cunion cB0 t_if cset_T cempty orb]. intros Hb. apply Hfb. apply (or_field cB0); [reflexivity | exact Hb].
      * rewrite !has_cont_cunion, has_cont_t_if. cbn [orb]. intros Hb. apply Hfc. apply (or_field has_cont); [reflexivity | exact Hb].
      * cbn [cunion cT t_if cset_T cempty]. intros Hb. apply Hmt. apply orb_true_iff in Hb. destruct Hb as [Hb|Hb]; [left; exact Hb | right].
        apply (or_field cT); [reflexivity | exact Hb].
    + apply post_sc_live; [exact Hl3 | | |].
      * cbn [cunion cB0 t_if cset_T cempty orb]. intros Hb. apply Hfb. apply (or_field cB0); [reflexivity | exact Hb].
      * rewrite !has_cont_cunion, has_cont_t_if. cbn [orb]. intros Hb. apply Hfc. apply (or_field has_cont); [reflexivity | exact Hb].
      * cbn [cunion cT t_if cset_T cempty]. intros Hb. apply Hmt. apply orb_true_iff in Hb. destruct Hb as [Hb|Hb]; [left; exact Hb | right].
        apply (or_field cT); [reflexivity | exact Hb].
  - destruct (if_else_mark r1 r2) as [e|] eqn:He; [|discriminate].
    rewrite (mark_val_live _ _ Hl3). apply Hdead. reflexivity.
  - apply flags_ok_app_l; apply flags_ok_app_r.
    + destruct (may_true c); [exact Hf | apply flags_ok_nil'].
    + destruct (may_false c); [|apply flags_ok_nil']. eapply flags_ok_disjoint; [exact Hk1 | exact D12].
    + destruct (may_true c); [|apply flags_ok_nil']. eapply flags_ok_disjoint; [exact Hk2 | exact D21].
    + destruct (may_false c); [exact Qf | apply flags_ok_nil'].
Qed.

(* ------------------------------------------------------------------ *)
(* loops *)
Lemma cN_sem_loop pre post ls bc :
  cN (sem_loop pre post ls bc) = may_false pre || (may_true pre && (cB0 bc || (again ls bc && may_false post))).
Proof. exact (cin_sem_loop Normal pre post ls bc). Qed.
Lemma cT_sem_loop pre post ls bc :
  cT (sem_loop pre post ls bc) = cond_throws pre || (may_true pre && (cT bc || (again ls bc && cond_throws post))).
Proof. exact (cin_sem_loop Thr pre post ls bc). Qed.
Lemma cB0_sem_loop pre post ls bc : cB0 (sem_loop pre post ls bc) = false.
Proof. change (cin (Brk None) (sem_loop pre post ls bc) = false). rewrite cin_sem_loop. rewrite andb_false_r. reflexivity. Qed.
Lemma has_cont_sem_loop pre post ls bc : has_cont (sem_loop pre post ls bc) = true -> has_cont bc = true.
Proof.
  unfold sem_loop, has_cont. destruct (may_true pre); cbn [cunion t_if n_if cset_T cset_N cempty cC0 cCL app orb]; [|discriminate].
  intros H. destruct (cCL bc) as [|l r]; [discriminate|]. cbn [is_nil negb]. apply orb_true_r.
Qed.
Lemma again_split ls bc : again ls bc = true -> cN bc = true \/ has_cont bc = true.
Proof.
  unfold again, has_cont. rewrite !orb_true_iff. intros [[H|H]|H]; [left; exact H | right; left; exact H | right; right].
  destruct (cCL bc); [discriminate | reflexivity].
Qed.

Lemma while_post_sc r c lo a :
  s_fb (sc (while_post_r r c lo a)) = s_fb (sc a) /\ s_fc (sc (while_post_r r c lo a)) = s_fc (sc a) /\
  s_mt (sc (while_post_r r c lo a)) = s_mt (sc a) /\
  (oend_forced (s_end (sc (while_post_r r c lo a))) = true -> known_true c = true /\ fb_unlabelled (s_fb (sc a)) = false).
Proof.
  unfold while_post_r. destruct r as [e|]; cbn [oend_forced].
  - destruct (known_true c) eqn:Hk; cbn [andb]; [|cbn [set_end with_sc sc s_fb s_fc s_mt s_end]; rewrite fb_mark, fc_mark, mt_mark; dsplit; try reflexivity; discriminate].
    destruct (fb_unlabelled (s_fb (sc a))) eqn:Hb; cbn [negb andb]; rewrite ?andb_false_r, ?andb_true_r.
    + cbn [set_end with_sc sc s_fb s_fc s_mt s_end oend_forced is_forced]; rewrite fb_mark, fc_mark, mt_mark; dsplit; try reflexivity; discriminate.
    + destruct (is_forced e); cbn [set_end with_sc sc s_fb s_fc s_mt s_end]; rewrite fb_mark, fc_mark, mt_mark; dsplit; try reflexivity; intros _; split; reflexivity.
  - rewrite andb_false_r. cbn [andb].
    destruct (known_true c) eqn:Hk; cbn [andb]; [|cbn [set_end with_sc sc s_fb s_fc s_mt s_end]; rewrite fb_mark, fc_mark, mt_mark; dsplit; try reflexivity; discriminate].
    destruct (fb_unlabelled (s_fb (sc a))) eqn:Hb; cbn [negb]; cbn [set_end with_sc sc s_fb s_fc s_mt s_end oend_forced is_forced]; rewrite fb_mark, fc_mark, mt_mark; dsplit; try reflexivity; try discriminate.
    intros _; split; reflexivity.
Qed.

Lemma while_A c lo body K : okA body K -> okA (visit_whileG fx c lo body) K.
Proof.
  intros H x. unfold visit_whileG. destruct (H (child_enter KLoop x)) as [_ [Hc Hk]].
  destruct (body (child_enter KLoop x)) as [[a r] lg]. cbn [g_st g_lg fst snd] in *.
  dsplit; [|exact Hc | exact Hk]. eapply mono_trans; [apply mono_child_exit | apply mono_visit_cond].
Qed.

Lemma while_B c lo body bc Rb ls :
  okB body bc Rb -> okB (visit_whileG fx c lo body) (sem_loop c CTrue ls bc) (if may_true c then Rb else []).
Proof.
  intros H x Hl. unfold visit_whileG.
  destruct (H (child_enter KLoop x) (lv_child_enter KLoop _ Hl)) as [[P2 [P3 [P4 P5]]] [Hr Hf]].
  destruct (body (child_enter KLoop x)) as [[a r] lg]. cbn [g_st g_rs g_lg fst snd] in *.
  destruct (while_post_sc r c lo a) as [Efb [Efc [Emt Eend]]].
  set (a2 := while_post_r r c lo a) in *.
  dsplit.
  - split; [|dsplit].
    + intros Hd. unfold dd in Hd. rewrite end_visit_cond, end_child_exit_loop in Hd.
      destruct (s_end (sc a2)) as [[R T I| |]|] eqn:Ea; try (exfalso; unfold lv in Hl; rewrite live_not_dead, Hd in Hl; discriminate).
      destruct (Eend eq_refl) as [Hk Hb]. destruct c; try discriminate.
      rewrite cN_sem_loop. cbn [may_false may_true andb orb]. rewrite andb_false_r, orb_false_r.
      destruct (cB0 bc) eqn:Eb; [|reflexivity]. rewrite (P3 eq_refl) in Hb. discriminate.
    + rewrite cB0_sem_loop. discriminate.
    + intros Hc. apply has_cont_sem_loop in Hc. rewrite fc_visit_cond, fc_child_exit, Efc, (P4 Hc). apply orb_true_r.
    + rewrite cT_sem_loop. cbn [cond_throws andb]. rewrite andb_false_r, orb_false_r. intros Hc. apply orb_true_iff in Hc. destruct Hc as [Hc|Hc].
      * apply mt_visit_cond_throws; [|exact Hc]. unfold lv. rewrite end_child_exit_loop.
        destruct (s_end (sc a2)) as [[R T I| |]|] eqn:Ea; try exact Hl.
        destruct (Eend eq_refl) as [Hk _]. destruct c; discriminate.
      * apply andb_true_iff in Hc. destruct Hc as [_ Hc]. apply mt_visit_cond_mono. rewrite mt_child_exit, Emt, (P5 Hc). apply orb_true_r.
  - discriminate.
  - destruct (may_true c); [exact Hf | apply flags_ok_nil'].
Qed.
