(* C10/C11 - proof layer 2: invariants of the ghost analyzer `anG` (all repairs on) against the
   executable semantics `csem`/`reach`.  No reasoning about the result map happens here. *)
From V Require Import CF.AnalyzerG CF.SemDecide CF.SemDecideProofs.
From Coq Require Import Lia.

Definition fx := repaired.

(* ------------------------------------------------------------------ *)
(* scope-level facts about the primitive operations *)
Lemma live_not_dead o : live o = negb (dead o).
Proof. destruct o as [[r t i| |]|]; reflexivity. Qed.

Definition lv (x : st) : Prop := live (s_end (sc x)) = true.
Definition dd (x : st) : Prop := dead (s_end (sc x)) = true.

Lemma lv_not_dd x : lv x -> dd x -> False.
Proof. unfold lv, dd. rewrite live_not_dead. destruct (dead (s_end (sc x))); discriminate. Qed.
Lemma lv_or_dd x : lv x \/ dd x.
Proof. unfold lv, dd. rewrite live_not_dead. destruct (dead (s_end (sc x))); [right | left]; reflexivity. Qed.

(* mark_as_end on the scope *)
Definition mark_end (cur : option End) (e : End) : option End :=
  match cur with None | Some EContinue => Some e | _ => cur end.

Lemma sc_mark k e x :
  sc (mark_as_end k e x) =
  {| s_end := mark_end (s_end (sc x)) e; s_mt := s_mt (sc x); s_fb := s_fb (sc x); s_fc := s_fc (sc x);
     s_hoist := s_hoist (sc x) |}.
Proof. unfold mark_as_end, mark_end. destruct x as [[en mt fb fc ho] i pa]. destruct en as [[r t f| |]|]; reflexivity. Qed.

Lemma end_mark k e x : s_end (sc (mark_as_end k e x)) = mark_end (s_end (sc x)) e.
Proof. rewrite sc_mark. reflexivity. Qed.
Lemma mt_mark k e x : s_mt (sc (mark_as_end k e x)) = s_mt (sc x).
Proof. rewrite sc_mark. reflexivity. Qed.
Lemma fb_mark k e x : s_fb (sc (mark_as_end k e x)) = s_fb (sc x).
Proof. rewrite sc_mark. reflexivity. Qed.
Lemma fc_mark k e x : s_fc (sc (mark_as_end k e x)) = s_fc (sc x).
Proof. rewrite sc_mark. reflexivity. Qed.

Lemma sc_set_unreach k b x : sc (set_unreach k b x) = sc x.
Proof. reflexivity. Qed.

Lemma mark_end_live cur e : live cur = true -> mark_end cur e = Some e.
Proof. destruct cur as [[r t i| |]|]; try discriminate; reflexivity. Qed.
Lemma mark_end_dead cur e : dead cur = true -> mark_end cur e = cur.
Proof. destruct cur as [[r t i| |]|]; try discriminate; reflexivity. Qed.
Lemma mark_val_live cur e : live cur = true -> mark_val cur e = Some e.
Proof. destruct cur as [[r t i| |]|]; try discriminate; reflexivity. Qed.

(* visit_lit / visit_ident / visit_e / visit_cond: only may_throw and the hoist set change *)
Lemma end_visit_lit x : s_end (sc (visit_lit x)) = s_end (sc x).
Proof. unfold visit_lit. destruct (live_now x); reflexivity. Qed.
Lemma fb_visit_lit x : s_fb (sc (visit_lit x)) = s_fb (sc x).
Proof. unfold visit_lit. destruct (live_now x); reflexivity. Qed.
Lemma fc_visit_lit x : s_fc (sc (visit_lit x)) = s_fc (sc x).
Proof. unfold visit_lit. destruct (live_now x); reflexivity. Qed.
Lemma mt_visit_lit x : s_mt (sc (visit_lit x)) = s_mt (sc x) || live_now x.
Proof. unfold visit_lit. destruct (live_now x); cbn; [rewrite orb_true_r | rewrite orb_false_r]; reflexivity. Qed.
Lemma end_visit_ident i x : s_end (sc (visit_ident i x)) = s_end (sc x).
Proof. unfold visit_ident. destruct (live_now x); reflexivity. Qed.
Lemma fb_visit_ident i x : s_fb (sc (visit_ident i x)) = s_fb (sc x).
Proof. unfold visit_ident. destruct (live_now x); reflexivity. Qed.
Lemma fc_visit_ident i x : s_fc (sc (visit_ident i x)) = s_fc (sc x).
Proof. unfold visit_ident. destruct (live_now x); reflexivity. Qed.
Lemma mt_visit_ident i x : s_mt (sc (visit_ident i x)) = s_mt (sc x).
Proof. unfold visit_ident. destruct (live_now x); reflexivity. Qed.

Lemma end_visit_e e x : s_end (sc (visit_e e x)) = s_end (sc x).
Proof. destruct e; cbn [visit_e]; rewrite ?end_visit_lit, ?end_visit_ident; reflexivity. Qed.
Lemma fb_visit_e e x : s_fb (sc (visit_e e x)) = s_fb (sc x).
Proof. destruct e; cbn [visit_e]; rewrite ?fb_visit_lit, ?fb_visit_ident; reflexivity. Qed.
Lemma fc_visit_e e x : s_fc (sc (visit_e e x)) = s_fc (sc x).
Proof. destruct e; cbn [visit_e]; rewrite ?fc_visit_lit, ?fc_visit_ident; reflexivity. Qed.
Lemma mt_visit_e_mono e x : s_mt (sc x) = true -> s_mt (sc (visit_e e x)) = true.
Proof.
  intros H. destruct e; cbn [visit_e]; rewrite ?mt_visit_lit, ?mt_visit_ident, ?H; reflexivity.
Qed.
Lemma mt_visit_e_throws e x : lv x -> e_throws e = true -> s_mt (sc (visit_e e x)) = true.
Proof.
  intros Hl He. destruct e; try discriminate. cbn [visit_e]. rewrite mt_visit_lit.
  unfold live_now. rewrite end_visit_ident. unfold lv in Hl. rewrite Hl. apply orb_true_r.
Qed.

Lemma end_visit_cond c x : s_end (sc (visit_cond c x)) = s_end (sc x).
Proof. destruct c; cbn [visit_cond]; rewrite ?end_visit_lit, ?end_visit_e; reflexivity. Qed.
Lemma fb_visit_cond c x : s_fb (sc (visit_cond c x)) = s_fb (sc x).
Proof. destruct c; cbn [visit_cond]; rewrite ?fb_visit_lit, ?fb_visit_e; reflexivity. Qed.
Lemma fc_visit_cond c x : s_fc (sc (visit_cond c x)) = s_fc (sc x).
Proof. destruct c; cbn [visit_cond]; rewrite ?fc_visit_lit, ?fc_visit_e; reflexivity. Qed.
Lemma mt_visit_cond_mono c x : s_mt (sc x) = true -> s_mt (sc (visit_cond c x)) = true.
Proof.
  intros H. destruct c; cbn [visit_cond]; [rewrite mt_visit_lit, H; reflexivity | rewrite mt_visit_lit, H; reflexivity | apply mt_visit_e_mono; exact H].
Qed.
Lemma mt_visit_cond_throws c x : lv x -> cond_throws c = true -> s_mt (sc (visit_cond c x)) = true.
Proof. intros Hl Hc. destruct c; try discriminate. cbn [visit_cond]. apply mt_visit_e_throws; assumption. Qed.

(* ------------------------------------------------------------------ *)
(* child scopes *)
Lemma sc_child_enter k x :
  sc (child_enter k x) =
  new_scope (match k with KFunction => None | _ => if oend_forced (s_end (sc x)) then s_end (sc x) else None end).
Proof. reflexivity. Qed.

Lemma lv_child_enter k x : lv x -> lv (child_enter k x).
Proof.
  unfold lv. rewrite sc_child_enter. intros H. destruct k; cbn [new_scope s_end]; try reflexivity;
    destruct (s_end (sc x)) as [[r t i| |]|]; try discriminate; reflexivity.
Qed.
Lemma lv_child_enter_fn x : lv (child_enter KFunction x).
Proof. reflexivity. Qed.

(* the scope after child_exit, field by field *)
Definition not_merging (k : kind) : bool := match k with KCase | KFunction | KLoop => true | _ => false end.

Lemma mt_child_exit k start x c : s_mt (sc (child_exit fx k start x c)) = s_mt (sc x) || s_mt (sc c).
Proof.
  unfold child_exit. destruct (s_end (sc c)) as [e|]; [|reflexivity].
  destruct k; cbn [fixC fx repaired]; try reflexivity.
  - destruct e; reflexivity.
  - destruct e; cbn [set_end with_sc sc s_mt]; rewrite mt_mark; reflexivity.
  - cbv zeta. cbn [sc s_fb]. match goal with |- context [match ?o with _ => _ end] => destruct o as [[id|]|] end; try reflexivity.
    destruct (N.eqb id l); reflexivity.
  - rewrite mt_mark. reflexivity.
  - rewrite mt_mark. reflexivity.
Qed.

Lemma fc_child_exit k start x c : s_fc (sc (child_exit fx k start x c)) = s_fc (sc x) || s_fc (sc c).
Proof.
  unfold child_exit. destruct (s_end (sc c)) as [e|]; [|reflexivity].
  destruct k; cbn [fixC fx repaired]; try reflexivity.
  - destruct e; reflexivity.
  - destruct e; cbn [set_end with_sc sc s_fc]; rewrite fc_mark; reflexivity.
  - cbv zeta. cbn [sc s_fb]. match goal with |- context [match ?o with _ => _ end] => destruct o as [[id|]|] end; try reflexivity.
    destruct (N.eqb id l); reflexivity.
  - rewrite fc_mark. reflexivity.
  - rewrite fc_mark. reflexivity.
Qed.

(* found_break: kept by Case/Function/Loop; otherwise an unlabelled break of the child always shows *)
Lemma fb_child_exit_keep k start x c :
  not_merging k = true -> s_fb (sc (child_exit fx k start x c)) = s_fb (sc x).
Proof.
  unfold child_exit. destruct (s_end (sc c)) as [e|]; destruct k; try discriminate; intros _; try reflexivity.
  - destruct e; reflexivity.
  - destruct e; cbn [set_end with_sc sc s_fb]; rewrite fb_mark; reflexivity.
Qed.

Lemma fb_child_exit_mono k start x c :
  s_fb (sc x) = Some None -> s_fb (sc (child_exit fx k start x c)) = Some None.
Proof.
  intros H. destruct (not_merging k) eqn:Hk; [rewrite fb_child_exit_keep; assumption|].
  unfold child_exit. rewrite H. cbn [fixB fx repaired andb].
  destruct (s_end (sc c)) as [e|]; destruct k; try discriminate; cbn [sc s_fb];
    destruct (fb_unlabelled (s_fb (sc c))); try reflexivity; rewrite ?fb_mark; reflexivity.
Qed.

Lemma fb_child_exit_child k start x c :
  not_merging k = false -> s_fb (sc c) = Some None -> s_fb (sc (child_exit fx k start x c)) = Some None.
Proof.
  intros Hk H. unfold child_exit. rewrite H. cbn [fixB fx repaired andb fb_unlabelled].
  destruct (s_end (sc c)) as [e|]; destruct k; try discriminate; cbn [sc s_fb]; rewrite ?fb_mark; reflexivity.
Qed.

(* the scope's end after child_exit *)
Lemma end_child_exit_if start x c : s_end (sc (child_exit fx KIf start x c)) = s_end (sc x).
Proof. unfold child_exit. destruct (s_end (sc c)); reflexivity. Qed.
Lemma end_child_exit_case start x c : s_end (sc (child_exit fx KCase start x c)) = s_end (sc x).
Proof. unfold child_exit. destruct (s_end (sc c)); reflexivity. Qed.
Lemma end_child_exit_fn start x c : s_end (sc (child_exit fx KFunction start x c)) = s_end (sc x).
Proof. unfold child_exit. destruct (s_end (sc c)) as [e|]; [destruct e|]; reflexivity. Qed.
Lemma end_child_exit_label l start x c : s_end (sc (child_exit fx (KLabel l) start x c)) = s_end (sc x).
Proof.
  unfold child_exit. destruct (s_end (sc c)); [|reflexivity]. cbv zeta. cbn [sc s_fb].
  match goal with |- context [match ?o with _ => _ end] => destruct o as [[id|]|] end; try reflexivity.
  destruct (N.eqb id l); reflexivity.
Qed.
Lemma end_child_exit_loop start x c :
  s_end (sc (child_exit fx KLoop start x c)) =
  match s_end (sc c) with Some (Forced r t i) => Some (Forced r t i) | _ => s_end (sc x) end.
Proof. unfold child_exit. destruct (s_end (sc c)) as [[r t i| |]|]; reflexivity. Qed.
Lemma end_child_exit_catch start x c :
  s_end (sc (child_exit fx KCatch start x c)) =
  match s_end (sc c) with Some e => mark_end (s_end (sc x)) e | None => s_end (sc x) end.
Proof. unfold child_exit. destruct (s_end (sc c)) as [e|]; [rewrite end_mark|]; reflexivity. Qed.
Lemma end_child_exit_finally start x c :
  s_end (sc (child_exit fx KFinally start x c)) =
  match s_end (sc c) with Some e => mark_end (s_end (sc x)) e | None => s_end (sc x) end.
Proof. unfold child_exit. destruct (s_end (sc c)) as [e|]; [rewrite end_mark|]; reflexivity. Qed.

(* block_end on the scope *)
Lemma end_block_end p y : s_end (sc (block_end p y)) = match s_end (sc y) with Some e => Some e | None => Some EContinue end.
Proof. unfold block_end. destruct (s_end (sc y)) as [[r t i| |]|] eqn:E; rewrite end_mark, E; reflexivity. Qed.
Lemma mt_block_end p y : s_mt (sc (block_end p y)) = s_mt (sc y).
Proof. unfold block_end. destruct (s_end (sc y)); apply mt_mark. Qed.
Lemma fb_block_end p y : s_fb (sc (block_end p y)) = s_fb (sc y).
Proof. unfold block_end. destruct (s_end (sc y)); apply fb_mark. Qed.
Lemma fc_block_end p y : s_fc (sc (block_end p y)) = s_fc (sc y).
Proof. unfold block_end. destruct (s_end (sc y)); apply fc_mark. Qed.
Lemma dd_block_end p y : dd (block_end p y) <-> dd y.
Proof. unfold dd. rewrite end_block_end. destruct (s_end (sc y)) as [[r t i| |]|]; cbn; split; congruence. Qed.
