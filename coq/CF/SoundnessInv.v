(* C10/C11 - proof layer 2: invariants of the ghost analyzer `anG` (all repairs on) against the
   executable semantics `csem`/`reach`.  No reasoning about the result map happens here. *)
From V Require Import CF.AnalyzerG CF.SemDecide CF.SemDecideProofs.
From Coq Require Import Lia.

Definition fx := repaired.

(* ------------------------------------------------------------------ *)
(* scope-level facts about the primitive operations *)
Lemma live_not_dead o : live o = negb (dead o).
Proof. destruct o as [[r t i| |]|]; reflexivity. Qed.

Definition lv (x : st) : Prop := live (s_end (sc x)) = true.
Definition dd (x : st) : Prop := dead (s_end (sc x)) = true.

Lemma lv_not_dd x : lv x -> dd x -> False.
Proof. unfold lv, dd. rewrite live_not_dead. destruct (dead (s_end (sc x))); discriminate. Qed.
Lemma lv_or_dd x : lv x \/ dd x.
Proof. unfold lv, dd. rewrite live_not_dead. destruct (dead (s_end (sc x))); [right | left]; reflexivity. Qed.

(* mark_as_end on the scope *)
Definition mark_end (cur : option End) (e : End) : option End :=
  match cur with None | Some EContinue => Some e | _ => cur end.

Lemma sc_mark k e x :
  sc (mark_as_end k e x) =
  {| s_end := mark_end (s_end (sc x)) e; s_mt := s_mt (sc x); s_fb := s_fb (sc x); s_fc := s_fc (sc x);
     s_hoist := s_hoist (sc x) |}.
Proof. unfold mark_as_end, mark_end. destruct x as [[en mt fb fc ho] i pa]. destruct en as [[r t f| |]|]; reflexivity. Qed.

Lemma end_mark k e x : s_end (sc (mark_as_end k e x)) = mark_end (s_end (sc x)) e.
Proof. rewrite sc_mark. reflexivity. Qed.
Lemma mt_mark k e x : s_mt (sc (mark_as_end k e x)) = s_mt (sc x).
Proof. rewrite sc_mark. reflexivity. Qed.
Lemma fb_mark k e x : s_fb (sc (mark_as_end k e x)) = s_fb (sc x).
Proof. rewrite sc_mark. reflexivity. Qed.
Lemma fc_mark k e x : s_fc (sc (mark_as_end k e x)) = s_fc (sc x).
Proof. rewrite sc_mark. reflexivity. Qed.

Lemma sc_set_unreach k b x : sc (set_unreach k b x) = sc x.
Proof. reflexivity. Qed.

Lemma mark_end_live cur e : live cur = true -> mark_end cur e = Some e.
Proof. destruct cur as [[r t i| |]|]; try discriminate; reflexivity. Qed.
Lemma mark_end_dead cur e : dead cur = true -> mark_end cur e = cur.
Proof. destruct cur as [[r t i| |]|]; try discriminate; reflexivity. Qed.
Lemma mark_val_live cur e : live cur = true -> mark_val cur e = Some e.
Proof. destruct cur as [[r t i| |]|]; try discriminate; reflexivity. Qed.

(* visit_lit / visit_ident / visit_e / visit_cond: only may_throw and the hoist set change *)
Lemma end_visit_lit x : s_end (sc (visit_lit x)) = s_end (sc x).
Proof. unfold visit_lit. destruct (live_now x); reflexivity. Qed.
Lemma fb_visit_lit x : s_fb (sc (visit_lit x)) = s_fb (sc x).
Proof. unfold visit_lit. destruct (live_now x); reflexivity. Qed.
Lemma fc_visit_lit x : s_fc (sc (visit_lit x)) = s_fc (sc x).
Proof. unfold visit_lit. destruct (live_now x); reflexivity. Qed.
Lemma mt_visit_lit x : s_mt (sc (visit_lit x)) = s_mt (sc x) || live_now x.
Proof. unfold visit_lit. destruct (live_now x); cbn; [rewrite orb_true_r | rewrite orb_false_r]; reflexivity. Qed.
Lemma end_visit_ident i x : s_end (sc (visit_ident i x)) = s_end (sc x).
Proof. unfold visit_ident. destruct (live_now x); reflexivity. Qed.
Lemma fb_visit_ident i x : s_fb (sc (visit_ident i x)) = s_fb (sc x).
Proof. unfold visit_ident. destruct (live_now x); reflexivity. Qed.
Lemma fc_visit_ident i x : s_fc (sc (visit_ident i x)) = s_fc (sc x).
Proof. unfold visit_ident. destruct (live_now x); reflexivity. Qed.
Lemma mt_visit_ident i x : s_mt (sc (visit_ident i x)) = s_mt (sc x).
Proof. unfold visit_ident. destruct (live_now x); reflexivity. Qed.

Lemma end_visit_e e x : s_end (sc (visit_e e x)) = s_end (sc x).
Proof. destruct e; cbn [visit_e]; rewrite ?end_visit_lit, ?end_visit_ident; reflexivity. Qed.
Lemma fb_visit_e e x : s_fb (sc (visit_e e x)) = s_fb (sc x).
Proof. destruct e; cbn [visit_e]; rewrite ?fb_visit_lit, ?fb_visit_ident; reflexivity. Qed.
Lemma fc_visit_e e x : s_fc (sc (visit_e e x)) = s_fc (sc x).
Proof. destruct e; cbn [visit_e]; rewrite ?fc_visit_lit, ?fc_visit_ident; reflexivity. Qed.
Lemma mt_visit_e_mono e x : s_mt (sc x) = true -> s_mt (sc (visit_e e x)) = true.
Proof.
  intros H. destruct e; cbn [visit_e]; rewrite ?mt_visit_lit, ?mt_visit_ident, ?H; reflexivity.
Qed.
Lemma mt_visit_e_throws e x : lv x -> e_throws e = true -> s_mt (sc (visit_e e x)) = true.
Proof.
  intros Hl He. destruct e; try discriminate; cbn [visit_e]; rewrite mt_visit_lit;
    unfold live_now; rewrite end_visit_ident; unfold lv in Hl; rewrite Hl; apply orb_true_r.
Qed.
(* optional expressions (init / update of a `for`) *)
Lemma end_visit_oe o x : s_end (sc (visit_oe o x)) = s_end (sc x).
Proof. destruct o; cbn [visit_oe]; [apply end_visit_e | reflexivity]. Qed.
Lemma mt_visit_oe_mono o x : s_mt (sc x) = true -> s_mt (sc (visit_oe o x)) = true.
Proof. destruct o; cbn [visit_oe]; [apply mt_visit_e_mono | exact (fun H => H)]. Qed.
Lemma mt_visit_oe_throws o x : lv x -> oe_throws o = true -> s_mt (sc (visit_oe o x)) = true.
Proof. destruct o; cbn [visit_oe oe_throws]; [apply mt_visit_e_throws | discriminate]. Qed.

Lemma end_visit_cond c x : s_end (sc (visit_cond c x)) = s_end (sc x).
Proof. destruct c; cbn [visit_cond]; rewrite ?end_visit_lit, ?end_visit_e; reflexivity. Qed.
Lemma fb_visit_cond c x : s_fb (sc (visit_cond c x)) = s_fb (sc x).
Proof. destruct c; cbn [visit_cond]; rewrite ?fb_visit_lit, ?fb_visit_e; reflexivity. Qed.
Lemma fc_visit_cond c x : s_fc (sc (visit_cond c x)) = s_fc (sc x).
Proof. destruct c; cbn [visit_cond]; rewrite ?fc_visit_lit, ?fc_visit_e; reflexivity. Qed.
Lemma mt_visit_cond_mono c x : s_mt (sc x) = true -> s_mt (sc (visit_cond c x)) = true.
Proof.
  intros H. destruct c; cbn [visit_cond]; try (rewrite mt_visit_lit, H; reflexivity); [apply mt_visit_e_mono; exact H|].
  rewrite mt_visit_lit, (mt_visit_e_mono e x H). reflexivity.
Qed.
Lemma mt_visit_cond_throws c x : lv x -> cond_throws c = true -> s_mt (sc (visit_cond c x)) = true.
Proof.
  intros Hl Hc. destruct c; try discriminate; cbn [visit_cond cond_throws] in *; [apply mt_visit_e_throws; assumption|].
  rewrite mt_visit_lit, (mt_visit_e_throws e x Hl Hc). reflexivity.
Qed.
(* what `Known(true)` means semantically (for the tests the model has) *)
Lemma known_true_sem c : known_true c = true -> may_false c = false /\ may_true c = true.
Proof. destruct c as [| | e | e [|] |]; try discriminate; intros _; split; reflexivity. Qed.

(* the test of a do-while (with repair F) *)
Lemma end_dowhile_test prev c x : s_end (sc (dowhile_test fx prev c x)) = s_end (sc x).
Proof. reflexivity. Qed.
Lemma fb_dowhile_test prev c x : s_fb (sc (dowhile_test fx prev c x)) = s_fb (sc x).
Proof. unfold dowhile_test. cbn [fixF fx repaired set_end with_sc sc s_fb]. rewrite fb_visit_cond. reflexivity. Qed.
Lemma fc_dowhile_test prev c x : s_fc (sc (dowhile_test fx prev c x)) = s_fc (sc x).
Proof. unfold dowhile_test. cbn [fixF fx repaired set_end with_sc sc s_fc]. rewrite fc_visit_cond. reflexivity. Qed.
Lemma mt_dowhile_test_mono prev c x : s_mt (sc x) = true -> s_mt (sc (dowhile_test fx prev c x)) = true.
Proof. intros H. unfold dowhile_test. cbn [fixF fx repaired set_end with_sc sc s_mt]. apply mt_visit_cond_mono. exact H. Qed.
Lemma mt_dowhile_test_throws prev c x : live prev = true -> cond_throws c = true -> s_mt (sc (dowhile_test fx prev c x)) = true.
Proof. intros Hl Hc. unfold dowhile_test. cbn [fixF fx repaired set_end with_sc sc s_mt]. apply mt_visit_cond_throws; [exact Hl | exact Hc]. Qed.

(* ------------------------------------------------------------------ *)
(* child scopes *)
Lemma sc_child_enter k x :
  sc (child_enter k x) =
  new_scope (match k with KFunction => None | _ => if oend_forced (s_end (sc x)) then s_end (sc x) else None end).
Proof. reflexivity. Qed.

Lemma lv_child_enter k x : lv x -> lv (child_enter k x).
Proof.
  unfold lv. rewrite sc_child_enter. intros H. destruct k; cbn [new_scope s_end]; try reflexivity;
    destruct (s_end (sc x)) as [[r t i| |]|]; try discriminate; reflexivity.
Qed.
Lemma lv_child_enter_fn x : lv (child_enter KFunction x).
Proof. reflexivity. Qed.

(* the scope after child_exit, field by field *)
Definition not_merging (k : kind) : bool := match k with KCase | KFunction | KLoop => true | _ => false end.

Lemma mt_child_exit k start x c : s_mt (sc (child_exit fx k start x c)) = s_mt (sc x) || s_mt (sc c).
Proof.
  unfold child_exit. destruct (s_end (sc c)) as [e|]; [|reflexivity].
  destruct k; cbn [fixC fx repaired]; try reflexivity.
  - destruct e; reflexivity.
  - destruct e; cbn [set_end with_sc sc s_mt]; rewrite mt_mark; reflexivity.
  - cbv zeta. cbn [sc s_fb]. match goal with |- context [match ?o with _ => _ end] => destruct o as [[id|]|] end; try reflexivity.
    destruct (N.eqb id l); reflexivity.
  - rewrite mt_mark. reflexivity.
  - rewrite mt_mark. reflexivity.
Qed.

Lemma fc_child_exit k start x c : s_fc (sc (child_exit fx k start x c)) = s_fc (sc x) || s_fc (sc c).
Proof.
  unfold child_exit. destruct (s_end (sc c)) as [e|]; [|reflexivity].
  destruct k; cbn [fixC fx repaired]; try reflexivity.
  - destruct e; reflexivity.
  - destruct e; cbn [set_end with_sc sc s_fc]; rewrite fc_mark; reflexivity.
  - cbv zeta. cbn [sc s_fb]. match goal with |- context [match ?o with _ => _ end] => destruct o as [[id|]|] end; try reflexivity.
    destruct (N.eqb id l); reflexivity.
  - rewrite fc_mark. reflexivity.
  - rewrite fc_mark. reflexivity.
Qed.

(* found_break: kept by Case/Function/Loop; otherwise an unlabelled break of the child always shows *)
Lemma fb_child_exit_keep k start x c :
  not_merging k = true -> s_fb (sc (child_exit fx k start x c)) = s_fb (sc x).
Proof.
  unfold child_exit. destruct (s_end (sc c)) as [e|]; destruct k; try discriminate; intros _; try reflexivity.
  - destruct e; reflexivity.
  - destruct e; cbn [set_end with_sc sc s_fb]; rewrite fb_mark; reflexivity.
Qed.

Lemma fb_child_exit_mono k start x c :
  s_fb (sc x) = Some None -> s_fb (sc (child_exit fx k start x c)) = Some None.
Proof.
  intros H. destruct (not_merging k) eqn:Hk; [rewrite fb_child_exit_keep; assumption|].
  unfold child_exit. rewrite H. cbn [fixB fx repaired andb].
  destruct (s_end (sc c)) as [e|]; destruct k; try discriminate; cbn [sc s_fb];
    destruct (fb_unlabelled (s_fb (sc c))); try reflexivity; rewrite ?fb_mark; reflexivity.
Qed.

Lemma fb_child_exit_child k start x c :
  not_merging k = false -> s_fb (sc c) = Some None -> s_fb (sc (child_exit fx k start x c)) = Some None.
Proof.
  intros Hk H. unfold child_exit. rewrite H. cbn [fixB fx repaired andb fb_unlabelled].
  destruct (s_end (sc c)) as [e|]; destruct k; try discriminate; cbn [sc s_fb]; rewrite ?fb_mark; reflexivity.
Qed.

(* the scope's end after child_exit *)
Lemma end_child_exit_if start x c : s_end (sc (child_exit fx KIf start x c)) = s_end (sc x).
Proof. unfold child_exit. destruct (s_end (sc c)); reflexivity. Qed.
Lemma end_child_exit_case start x c : s_end (sc (child_exit fx KCase start x c)) = s_end (sc x).
Proof. unfold child_exit. destruct (s_end (sc c)); reflexivity. Qed.
Lemma end_child_exit_fn start x c : s_end (sc (child_exit fx KFunction start x c)) = s_end (sc x).
Proof. unfold child_exit. destruct (s_end (sc c)) as [e|]; [destruct e|]; reflexivity. Qed.
Lemma end_child_exit_label l start x c : s_end (sc (child_exit fx (KLabel l) start x c)) = s_end (sc x).
Proof.
  unfold child_exit. destruct (s_end (sc c)); [|reflexivity]. cbv zeta. cbn [sc s_fb].
  match goal with |- context [match ?o with _ => _ end] => destruct o as [[id|]|] end; try reflexivity.
  destruct (N.eqb id l); reflexivity.
Qed.
Lemma end_child_exit_loop start x c :
  s_end (sc (child_exit fx KLoop start x c)) =
  match s_end (sc c) with Some (Forced r t i) => Some (Forced r t i) | _ => s_end (sc x) end.
Proof. unfold child_exit. destruct (s_end (sc c)) as [[r t i| |]|]; reflexivity. Qed.
Lemma end_child_exit_catch start x c :
  s_end (sc (child_exit fx KCatch start x c)) =
  match s_end (sc c) with Some e => mark_end (s_end (sc x)) e | None => s_end (sc x) end.
Proof. unfold child_exit. destruct (s_end (sc c)) as [e|]; [rewrite end_mark|]; reflexivity. Qed.
Lemma end_child_exit_finally start x c :
  s_end (sc (child_exit fx KFinally start x c)) =
  match s_end (sc c) with Some e => mark_end (s_end (sc x)) e | None => s_end (sc x) end.
Proof. unfold child_exit. destruct (s_end (sc c)) as [e|]; [rewrite end_mark|]; reflexivity. Qed.

(* block_end on the scope *)
Lemma end_block_end p y : s_end (sc (block_end p y)) = match s_end (sc y) with Some e => Some e | None => Some EContinue end.
Proof. unfold block_end. destruct (s_end (sc y)) as [[r t i| |]|] eqn:E; rewrite end_mark, E; reflexivity. Qed.
Lemma mt_block_end p y : s_mt (sc (block_end p y)) = s_mt (sc y).
Proof. unfold block_end. destruct (s_end (sc y)); apply mt_mark. Qed.
Lemma fb_block_end p y : s_fb (sc (block_end p y)) = s_fb (sc y).
Proof. unfold block_end. destruct (s_end (sc y)); apply fb_mark. Qed.
Lemma fc_block_end p y : s_fc (sc (block_end p y)) = s_fc (sc y).
Proof. unfold block_end. destruct (s_end (sc y)); apply fc_mark. Qed.
Lemma dd_block_end p y : dd (block_end p y) <-> dd y.
Proof. unfold dd. rewrite end_block_end. destruct (s_end (sc y)) as [[r t i| |]|]; cbn; split; congruence. Qed.

(* ------------------------------------------------------------------ *)
(* the invariants *)
Definition g_st (r : gres) : st := fst (fst r).
Definition g_rs (r : gres) : option End := snd (fst r).
Definition g_lg (r : gres) : list gent := snd r.
Definition l_st (r : gres_l) : st := fst (fst r).
Definition l_tops (r : gres_l) : list (option End) := snd (fst r).
Definition l_lg (r : gres_l) : list gent := snd r.

(* (A1) recorded facts are never lost *)
Definition mono (x0 x1 : st) : Prop :=
  (s_fb (sc x0) = Some None -> s_fb (sc x1) = Some None) /\
  (s_fc (sc x0) = true -> s_fc (sc x1) = true) /\
  (s_mt (sc x0) = true -> s_mt (sc x1) = true).
(* (A2) a case of a switch that was analysed live and is claimed to stop cannot complete normally *)
Definition cases_ok (lg : list gent) : Prop := forall b, In (GCase b true true) lg -> cN (csem_l b) = false.
(* (A3) logged statement positions are keys of the statement *)
Definition lkeys_in (lg : list gent) (K : list N) : Prop := forall k d fl, In (GStmt k d fl) lg -> In k K.

Definition has_cont (c : comps) : bool := cC0 c || negb (is_nil (cCL c)).
(* (B2..B5) P2: dead afterwards => cannot complete normally; P3/P4/P5: escaping break / continue / throw is recorded *)
Definition post_sc (x1 : st) (c : comps) : Prop :=
  (dd x1 -> cN c = false) /\
  (cB0 c = true -> s_fb (sc x1) = Some None) /\
  (has_cont c = true -> s_fc (sc x1) = true) /\
  (cT c = true -> s_mt (sc x1) = true).
(* (B1) P1: a statement visited while the scope was dead is not entered *)
Definition flags_ok (lg : list gent) (R : list N) : Prop := forall k fl, In (GStmt k true fl) lg -> ~ In k R.

Definition okA (op : st -> gres) (K : list N) : Prop :=
  forall x, mono x (g_st (op x)) /\ cases_ok (g_lg (op x)) /\ lkeys_in (g_lg (op x)) K.
Definition okB (op : st -> gres) (c : comps) (R : list N) : Prop :=
  forall x, lv x ->
    post_sc (g_st (op x)) c /\ (dead (g_rs (op x)) = true -> cN c = false) /\ flags_ok (g_lg (op x)) R.
Definition okAl (op : st -> gres_l) (K : list N) : Prop :=
  forall x, mono x (l_st (op x)) /\ cases_ok (l_lg (op x)) /\ lkeys_in (l_lg (op x)) K.
Definition okBl (op : st -> gres_l) (c : comps) (R : list N) : Prop :=
  forall x, lv x ->
    post_sc (l_st (op x)) c /\ (tops_stop (l_tops (op x)) = true -> cN c = false) /\ flags_ok (l_lg (op x)) R.

Lemma mono_refl x : mono x x.
Proof. repeat split; intros H; exact H. Qed.
Lemma mono_trans x y z : mono x y -> mono y z -> mono x z.
Proof. intros [A1 [A2 A3]] [B1 [B2 B3]]. repeat split; intros H; auto. Qed.
Lemma mono_sc x y : sc x = sc y -> mono x y.
Proof. intros E. unfold mono. rewrite E. repeat split; intros H; exact H. Qed.

Lemma mono_mark k e x : mono x (mark_as_end k e x).
Proof. unfold mono. rewrite fb_mark, fc_mark, mt_mark. repeat split; intros H; exact H. Qed.
Lemma mono_visit_lit x : mono x (visit_lit x).
Proof. unfold mono. rewrite fb_visit_lit, fc_visit_lit, mt_visit_lit. repeat split; intros H; try exact H. rewrite H. reflexivity. Qed.
Lemma mono_visit_e e x : mono x (visit_e e x).
Proof. unfold mono. rewrite fb_visit_e, fc_visit_e. repeat split; intros H; try exact H. apply mt_visit_e_mono. exact H. Qed.
Lemma mono_visit_cond c x : mono x (visit_cond c x).
Proof. unfold mono. rewrite fb_visit_cond, fc_visit_cond. repeat split; intros H; try exact H. apply mt_visit_cond_mono. exact H. Qed.
Lemma mono_block_end p x : mono x (block_end p x).
Proof. unfold mono. rewrite fb_block_end, fc_block_end, mt_block_end. repeat split; intros H; exact H. Qed.
Lemma mono_set_end x e : mono x (set_end x e).
Proof. repeat split; intros H; exact H. Qed.
Lemma mono_child_exit k start x c : mono x (child_exit fx k start x c).
Proof.
  unfold mono. rewrite fc_child_exit, mt_child_exit. repeat split; intros H.
  - apply fb_child_exit_mono. exact H.
  - rewrite H. reflexivity.
  - rewrite H. reflexivity.
Qed.

Lemma cases_ok_nil : cases_ok [].
Proof. intros b []. Qed.
Lemma cases_ok_app a b : cases_ok a -> cases_ok b -> cases_ok (a ++ b).
Proof. intros Ha Hb x H. apply in_app_or in H. destruct H; [apply Ha | apply Hb]; assumption. Qed.
Lemma cases_ok_stmt k d fl lg : cases_ok lg -> cases_ok (GStmt k d fl :: lg).
Proof. intros H b [E | Hin]; [discriminate | apply H; exact Hin]. Qed.

Lemma lkeys_in_nil K : lkeys_in [] K.
Proof. intros k d fl []. Qed.
Lemma lkeys_in_app a b K : lkeys_in a K -> lkeys_in b K -> lkeys_in (a ++ b) K.
Proof. intros Ha Hb k d fl H. apply in_app_or in H. destruct H; [eapply Ha | eapply Hb]; eassumption. Qed.
Lemma lkeys_in_weak a K K' : lkeys_in a K -> incl K K' -> lkeys_in a K'.
Proof. intros Ha Hi k d fl H. apply Hi. eapply Ha. eassumption. Qed.
Lemma lkeys_in_case b l s lg K : lkeys_in lg K -> lkeys_in (GCase b l s :: lg) K.
Proof. intros H k d fl [E | Hin]; [discriminate | eapply H; eassumption]. Qed.

Lemma flags_ok_nil R : flags_ok [] R.
Proof. intros k fl []. Qed.
Lemma flags_ok_case b l s lg R : flags_ok lg R -> flags_ok (GCase b l s :: lg) R.
Proof. intros H k fl [E | Hin]; [discriminate | eapply H; eassumption]. Qed.
(* logged keys in K, and K disjoint from R *)
Lemma flags_ok_disjoint lg K R : lkeys_in lg K -> (forall k, In k K -> ~ In k R) -> flags_ok lg R.
Proof. intros Hk Hd k fl Hin. apply Hd. eapply Hk. eassumption. Qed.
Lemma flags_ok_app_r lg R1 R2 : flags_ok lg R1 -> flags_ok lg R2 -> flags_ok lg (R1 ++ R2).
Proof. intros H1 H2 k fl Hin Hr. apply in_app_or in Hr. destruct Hr; [eapply H1 | eapply H2]; eassumption. Qed.
Lemma flags_ok_app_l lg1 lg2 R : flags_ok lg1 R -> flags_ok lg2 R -> flags_ok (lg1 ++ lg2) R.
Proof. intros H1 H2 k fl Hin. apply in_app_or in Hin. destruct Hin; [eapply H1 | eapply H2]; eassumption. Qed.
Lemma flags_ok_cons_r lg p R : flags_ok lg [p] -> flags_ok lg R -> flags_ok lg (p :: R).
Proof. intros H1 H2. apply (flags_ok_app_r lg [p] R H1 H2). Qed.

(* reach and keys *)
Lemma reach_keys :
  (forall s k, In k (reach s) -> In k (keys s)) /\
  (forall l k, In k (reach_l l) -> In k (keys_l l)) /\
  (forall cs k, In k (reach_c cs) -> In k (keys_c cs)).
Proof.
  apply stmt_mutind; cbn [reach keys keys_l reach_c keys_c].
  - intros p e k [<-|[]]; left; reflexivity.
  - intros p k [<-|[]]; left; reflexivity.
  - intros p v i k [<-|[]]; left; reflexivity.
  - intros p n pb b IH k [<-|H]; [left; reflexivity | right; right; apply IH; exact H].
  - intros p pb b IH k [<-|H]; [left; reflexivity | right; right; apply IH; exact H].
  - intros p gp pb b IH k [<-|H]; [left; reflexivity | right; right; right; apply IH; exact H].
  - intros p a k [<-|[]]; left; reflexivity.
  - intros p e k [<-|[]]; left; reflexivity.
  - intros p l k [<-|[]]; left; reflexivity.
  - intros p l k [<-|[]]; left; reflexivity.
  - intros p b IH k [<-|H]; [left; reflexivity | right; apply IH; exact H].
  - intros p c a IH k [<-|H]; [left; reflexivity | right]. destruct (may_true c); [apply IH; exact H | destruct H].
  - intros p c a IHa b IHb k [<-|H]; [left; reflexivity | right]. apply in_or_app. apply in_app_or in H. destruct H as [H|H].
    + left. destruct (may_true c); [apply IHa; exact H | destruct H].
    + right. destruct (may_false c); [apply IHb; exact H | destruct H].
  - intros p c b IH k [<-|H]; [left; reflexivity | right]. destruct (may_true c); [apply IH; exact H | destruct H].
  - intros p b IH c k [<-|H]; [left; reflexivity | right; apply IH; exact H].
  - intros p i c u b IH k [<-|H]; [left; reflexivity | right]. destruct (may_true (for_pre c)); [apply IH; exact H | destruct H].
  - intros p b IH k [<-|H]; [left; reflexivity | right; apply IH; exact H].
  - intros p b IH k [<-|H]; [left; reflexivity | right; apply IH; exact H].
  - intros p g fp pb hb IHh b IHb k [<-|H]; [left; reflexivity | right]. apply in_app_or in H. destruct H as [H|H].
    + right. right. apply in_or_app. left. apply IHh. exact H.
    + right. right. apply in_or_app. right. apply IHb. exact H.
  - intros p cs IH k [<-|H]; [left; reflexivity | right; apply IH; exact H].
  - intros p l b IH k [<-|H]; [left; reflexivity | right; apply IH; exact H].
  - intros p bp blk IHb h hb IHh f fb IHf k [<-|H]; [left; reflexivity | right; right].
    apply in_or_app. apply in_app_or in H. destruct H as [H|H]; [left; apply IHb; exact H | right].
    apply in_or_app. apply in_app_or in H. destruct H as [H|H].
    + left. destruct h as [[cp hbp]|]; [|destruct H]. destruct (cT (csem_l blk)); [|destruct H]. right; right. apply IHh. exact H.
    + right. destruct f as [fp|]; [|destruct H].
      match type of H with In _ (if ?b then _ else _) => destruct b end; [|destruct H]. right. apply IHf. exact H.
  - intros k [].
  - intros s IHs r IHr k H. apply in_or_app. apply in_app_or in H. destruct H as [H|H]; [left; apply IHs; exact H | right].
    destruct (cN (csem s [])); [apply IHr; exact H | apply IHr; apply hoist_in_reach; exact H].
  - intros k [].
  - intros cp d ft b IHb r IHr k H. right. apply in_or_app. apply in_app_or in H. destruct H as [H|H]; [left; apply IHb | right; apply IHr]; exact H.
Qed.

(* ------------------------------------------------------------------ *)
(* NoDup helpers *)
Lemma NoDup_app_inv {A} (a b : list A) :
  NoDup (a ++ b) -> NoDup a /\ NoDup b /\ (forall x, In x a -> ~ In x b).
Proof.
  induction a as [|y a IH]; cbn [app].
  - intros H. repeat split; [constructor | exact H | intros x []].
  - intros H. inversion H as [|y' l Hn Hd]; subst. destruct (IH Hd) as [Ha [Hb Hdis]].
    repeat split.
    + constructor; [intros Hin; apply Hn; apply in_or_app; left; exact Hin | exact Ha].
    + exact Hb.
    + intros x [<-|Hin] Hb'; [apply Hn; apply in_or_app; right; exact Hb' | exact (Hdis x Hin Hb')].
Qed.
Lemma NoDup_cons_inv {A} (x : A) l : NoDup (x :: l) -> ~ In x l /\ NoDup l.
Proof. intros H. inversion H; subst. split; assumption. Qed.

(* ------------------------------------------------------------------ *)
(* the visit_stmt wrapper *)
Definition wrap (s : stmt) (V : st -> gres) (x0 : st) : gres :=
  gcons (GStmt (pos s) (dead_now x0) (stmt_unreachable s x0)) (V (set_unreach (pos s) (stmt_unreachable s x0) x0)).

Lemma g_st_gcons g r : g_st (gcons g r) = g_st r.
Proof. destruct r as [[y rs] lg]. reflexivity. Qed.
Lemma g_rs_gcons g r : g_rs (gcons g r) = g_rs r.
Proof. destruct r as [[y rs] lg]. reflexivity. Qed.
Lemma g_lg_gcons g r : g_lg (gcons g r) = g :: g_lg r.
Proof. destruct r as [[y rs] lg]. reflexivity. Qed.

Lemma wrap_A s V K K' : okA V K -> incl K K' -> In (pos s) K' -> okA (wrap s V) K'.
Proof.
  intros HV Hi Hp x0. unfold wrap. rewrite g_st_gcons, g_lg_gcons.
  destruct (HV (set_unreach (pos s) (stmt_unreachable s x0) x0)) as [Hm [Hc Hk]].
  split; [|split].
  - eapply mono_trans; [apply (mono_sc x0 (set_unreach (pos s) (stmt_unreachable s x0) x0)); reflexivity | exact Hm].
  - apply cases_ok_stmt. exact Hc.
  - intros k d fl [E | Hin]; [injection E as <- _ _; exact Hp | apply Hi; eapply Hk; eassumption].
Qed.

Lemma wrap_B s V K c R : okB V c R -> okA V K -> (forall k, In k K -> k <> pos s) -> okB (wrap s V) c (pos s :: R).
Proof.
  intros HB HA Hne x0 Hl. unfold wrap. rewrite g_st_gcons, g_rs_gcons, g_lg_gcons.
  assert (Hl' : lv (set_unreach (pos s) (stmt_unreachable s x0) x0)) by exact Hl.
  destruct (HB _ Hl') as [Hp [Hr Hf]]. destruct (HA (set_unreach (pos s) (stmt_unreachable s x0) x0)) as [_ [_ Hk]].
  split; [exact Hp | split; [exact Hr|]].
  intros k fl [E | Hin].
  - injection E as _ Hd _. exfalso. unfold lv in Hl. unfold dead_now in Hd. rewrite live_not_dead, Hd in Hl. discriminate.
  - intros [E | Hr']; [apply (Hne k); [eapply Hk; eassumption | symmetry; exact E] | exact (Hf k fl Hin Hr')].
Qed.

(* visit_stmt_or_block *)
Lemma orb_A s op K : okA op K -> okA (fun a => orbG s (op a)) K.
Proof.
  intros H x. destruct (H x) as [Hm [Hc Hk]]. unfold orbG. destruct (op x) as [[y rs] lg]. cbn [g_st g_lg fst snd] in *.
  destruct (is_brk_or_cont s); cbn [g_st g_lg fst snd]; [|split; [exact Hm | split; assumption]].
  split; [apply (mono_trans x y _ Hm (mono_mark _ _ _)) | split; assumption].
Qed.

Lemma orb_B s op c R : okB op c R -> (is_brk_or_cont s = true -> cN c = false) -> okB (fun a => orbG s (op a)) c R.
Proof.
  intros H Hbc x Hl. destruct (H x Hl) as [[P2 [P3 [P4 P5]]] [Hr Hf]]. unfold orbG. destruct (op x) as [[y rs] lg].
  cbn [g_st g_rs g_lg fst snd] in *.
  destruct (is_brk_or_cont s) eqn:E; cbn [g_st g_rs g_lg fst snd]; [|split; [split; [exact P2 | split; [exact P3 | split; [exact P4 | exact P5]]] | split; assumption]].
  split; [|split; [intros _; apply Hbc; reflexivity | exact Hf]].
  split; [intros _; apply Hbc; reflexivity|]. rewrite fb_mark, fc_mark, mt_mark. split; [exact P3 | split; [exact P4 | exact P5]].
Qed.

(* a block / function body / try block ends: block_endG *)
Lemma block_end_A p op K : okAl op K -> okA (fun a => block_endG p (op a)) K.
Proof.
  intros H x. destruct (H x) as [Hm [Hc Hk]]. unfold block_endG. destruct (op x) as [[y tops] lg].
  cbn [g_st g_lg l_st l_lg fst snd] in *. split; [apply (mono_trans x y _ Hm (mono_block_end _ _)) | split; assumption].
Qed.

Lemma block_end_B p op c R : okBl op c R -> okB (fun a => block_endG p (op a)) c R.
Proof.
  intros H x Hl. destruct (H x Hl) as [[P2 [P3 [P4 P5]]] [Hr Hf]]. unfold block_endG. destruct (op x) as [[y tops] lg].
  cbn [g_st g_rs g_lg l_st l_tops l_lg fst snd] in *.
  split; [|split; [|exact Hf]].
  - split; [intros Hd; apply P2; apply dd_block_end in Hd; exact Hd|].
    rewrite fb_block_end, fc_block_end, mt_block_end. split; [exact P3 | split; [exact P4 | exact P5]].
  - intros Hd. apply P2. unfold dd. destruct (s_end (sc y)) as [[r t i| |]|]; cbn in Hd |- *; congruence.
Qed.

(* leaves *)
Lemma post_sc_live x1 c : lv x1 ->
  (cB0 c = true -> s_fb (sc x1) = Some None) -> (has_cont c = true -> s_fc (sc x1) = true) ->
  (cT c = true -> s_mt (sc x1) = true) -> post_sc x1 c.
Proof. intros Hl H3 H4 H5. split; [intros Hd; exfalso; exact (lv_not_dd _ Hl Hd) | split; [exact H3 | split; [exact H4 | exact H5]]]. Qed.

Lemma leaf_A (f : st -> st) : (forall x, mono x (f x)) -> okA (fun x => (f x, None, [])) [].
Proof. intros H x. cbn [g_st g_lg fst snd]. split; [apply H | split; [apply cases_ok_nil | apply lkeys_in_nil]]. Qed.

Lemma expr_B e : okB (fun x => (visit_e e x, None, [])) (cset_T (e_throws e) only_N) [].
Proof.
  intros x Hl. cbn [g_st g_rs g_lg fst snd]. split; [|split; [discriminate | apply flags_ok_nil]].
  apply post_sc_live; [unfold lv; rewrite end_visit_e; exact Hl | discriminate | discriminate |].
  cbn [cset_T cT]. apply mt_visit_e_throws. exact Hl.
Qed.

Lemma empty_B : okB (fun x => (x, None, [])) only_N [].
Proof.
  intros x Hl. cbn [g_st g_rs g_lg fst snd]. split; [|split; [discriminate | apply flags_ok_nil]].
  apply post_sc_live; [exact Hl | discriminate | discriminate | discriminate].
Qed.

Lemma var_B i : okB (fun x => (match i with Some e => visit_e e x | None => x end, None, [])) (cset_T (oe_throws i) only_N) [].
Proof. destruct i as [e|]; [apply expr_B | apply empty_B]. Qed.

Lemma ret_B p a :
  okB (fun x => let '(y, r) := visit_returnG p a x in (y, r, []))
      {| cN := false; cR := true; cT := oe_throws a; cB0 := false; cC0 := false; cBL := []; cCL := [] |} [].
Proof.
  intros x Hl. unfold visit_returnG. cbn [g_st g_rs g_lg fst snd]. split; [|split; [reflexivity | apply flags_ok_nil]].
  repeat split; try discriminate. cbn [cT]. rewrite mt_mark. destruct a as [e|]; [apply mt_visit_e_throws; exact Hl | discriminate].
Qed.

Lemma throw_B p e : okB (fun x => let '(y, r) := visit_throwG fx p e x in (y, r, [])) (t_if true) [].
Proof.
  intros x Hl. unfold visit_throwG. cbn [fixD fx repaired g_st g_rs g_lg fst snd]. split; [|split; [reflexivity | apply flags_ok_nil]].
  repeat split; try discriminate. intros _. rewrite mt_mark, mt_visit_lit. unfold live_now. rewrite end_visit_e.
  unfold lv in Hl. rewrite Hl. apply orb_true_r.
Qed.

Lemma brk_B l : okB (fun x => (visit_break fx l x, None, []))
  (match l with None => {| cN := false; cR := false; cT := false; cB0 := true; cC0 := false; cBL := []; cCL := [] |}
              | Some l => {| cN := false; cR := false; cT := false; cB0 := false; cC0 := false; cBL := [l]; cCL := [] |} end) [].
Proof.
  intros x Hl. cbn [g_st g_rs g_lg fst snd]. split; [|split; [discriminate | apply flags_ok_nil]].
  unfold visit_break. cbn [fixB fx repaired].
  destruct l as [l|]; [destruct (s_fb (sc x))|]; repeat split; try discriminate; try reflexivity.
Qed.

Lemma cont_B l : okB (fun x => (set_fc x true, None, []))
  (match l with None => {| cN := false; cR := false; cT := false; cB0 := false; cC0 := true; cBL := []; cCL := [] |}
              | Some l => {| cN := false; cR := false; cT := false; cB0 := false; cC0 := false; cBL := []; cCL := [l] |} end) [].
Proof.
  intros x Hl. cbn [g_st g_rs g_lg fst snd]. split; [|split; [discriminate | apply flags_ok_nil]].
  destruct l as [l|]; repeat split; try discriminate; try reflexivity.
Qed.

Lemma mono_visit_break l x : mono x (visit_break fx l x).
Proof.
  unfold visit_break. cbn [fixB fx repaired]. destruct l as [l|]; [destruct (s_fb (sc x)) eqn:E|].
  - apply mono_refl.
  - repeat split; intros H; try exact H; try (cbn in H; congruence).
  - repeat split; intros H; try exact H; try reflexivity.
Qed.

(* ------------------------------------------------------------------ *)
(* completion-set helpers *)
Lemma has_cont_cunion a b : has_cont (cunion a b) = has_cont a || has_cont b.
Proof.
  unfold has_cont. cbn [cunion cC0 cCL]. destruct (cC0 a), (cC0 b), (cCL a), (cCL b); reflexivity.
Qed.
Lemma has_cont_cempty : has_cont cempty = false. Proof. reflexivity. Qed.
Lemma has_cont_t_if b : has_cont (t_if b) = false. Proof. reflexivity. Qed.
Lemma has_cont_n_if b : has_cont (n_if b) = false. Proof. reflexivity. Qed.
Lemma has_cont_cset_N b c : has_cont (cset_N b c) = has_cont c. Proof. reflexivity. Qed.
Lemma has_cont_cset_T b c : has_cont (cset_T b c) = has_cont c. Proof. reflexivity. Qed.

Ltac dsplit := repeat match goal with |- _ /\ _ => split end.

Lemma if_eq_N (b : bool) c : cN c = false -> cN (if b then c else cempty) = false.
Proof. intros H. destruct b; [exact H | reflexivity]. Qed.
Lemma if_field (f : comps -> bool) (b : bool) c :
  f cempty = false -> f (if b then c else cempty) = true -> f c = true /\ b = true.
Proof. intros H0 H. destruct b; [split; [exact H | reflexivity] | congruence]. Qed.
Lemma or_field (f : comps -> bool) (b1 b2 : bool) c1 c2 :
  f cempty = false -> f (if b1 then c1 else cempty) || f (if b2 then c2 else cempty) = true ->
  f c1 = true /\ b1 = true \/ f c2 = true /\ b2 = true.
Proof.
  intros H0 H. apply orb_true_iff in H. destruct H as [H|H]; [left | right]; apply if_field; assumption.
Qed.
Lemma flags_ok_nil' lg : flags_ok lg [].
Proof. intros k fl _ []. Qed.

(* ------------------------------------------------------------------ *)
(* child scopes, generically *)
Lemma with_child_A k start op K : okA op K -> okA (with_childG fx k start op) K.
Proof.
  intros H x. unfold with_childG. destruct (H (child_enter k x)) as [_ [Hc Hk]].
  destruct (op (child_enter k x)) as [[c r] lg]. cbn [g_st g_lg fst snd] in *.
  dsplit; [apply mono_child_exit | exact Hc | exact Hk].
Qed.

(* function-like bodies *)
Lemma fn_A p pb body K : okAl body K -> okA (fn_likeG fx p pb body) K.
Proof.
  intros H x. unfold fn_likeG, block_endG. destruct (H (child_enter KFunction x)) as [_ [Hc Hk]].
  destruct (body (child_enter KFunction x)) as [[c tops] lg]. cbn [g_st g_lg l_lg fst snd] in *.
  dsplit; [apply mono_child_exit | exact Hc | exact Hk].
Qed.

Lemma fn_B p pb body cb Rb : okBl body cb Rb -> okB (fn_likeG fx p pb body) only_N Rb.
Proof.
  intros H x Hl. unfold fn_likeG, block_endG. destruct (H (child_enter KFunction x) (lv_child_enter_fn x)) as [_ [_ Hf]].
  destruct (body (child_enter KFunction x)) as [[c tops] lg]. cbn [g_st g_rs g_lg l_lg fst snd fixC fx repaired] in *.
  dsplit.
  - apply post_sc_live; try discriminate. unfold lv. rewrite end_child_exit_fn. exact Hl.
  - destruct (s_end (sc (block_end pb c))) as [[r t i| |]|]; discriminate.
  - exact Hf.
Qed.

(* ... its log, for ANY entry state (the body is analysed in a fresh scope) *)
Lemma fn_H p pb body cb Rb : okBl body cb Rb -> forall x, flags_ok (g_lg (fn_likeG fx p pb body x)) Rb.
Proof.
  intros H x. unfold fn_likeG, block_endG. destruct (H (child_enter KFunction x) (lv_child_enter_fn x)) as [_ [_ Hf]].
  destruct (body (child_enter KFunction x)) as [[c tops] lg]. cbn [g_lg l_lg fst snd] in *. exact Hf.
Qed.

Lemma arrow_A p pb body K : okAl body K -> okA (fun x => let '(y, r, lg) := fn_likeG fx p pb body x in (visit_lit y, r, lg)) K.
Proof.
  intros H x. destruct (fn_A p pb body K H x) as [Hm [Hc Hk]]. destruct (fn_likeG fx p pb body x) as [[y r] lg].
  cbn [g_st g_lg fst snd] in *. dsplit; [eapply mono_trans; [exact Hm | apply mono_visit_lit] | exact Hc | exact Hk].
Qed.

Lemma arrow_B p pb body cb Rb :
  okBl body cb Rb -> okB (fun x => let '(y, r, lg) := fn_likeG fx p pb body x in (visit_lit y, r, lg)) only_N Rb.
Proof.
  intros H x Hl. destruct (fn_B p pb body cb Rb H x Hl) as [[P2 _] [Hr Hf]]. destruct (fn_likeG fx p pb body x) as [[y r] lg].
  cbn [g_st g_rs g_lg fst snd] in *. dsplit; [|exact Hr | exact Hf].
  split; [|dsplit; discriminate]. intros Hd. apply P2. unfold dd in *. rewrite end_visit_lit in Hd. exact Hd.
Qed.

(* a function-like in expression position (object-literal getter statement, loop head) *)
Lemma fn_expr_A fp pb body K : okAl body K -> okA (fn_exprG fx fp pb body) K.
Proof.
  intros H x. unfold fn_exprG. destruct (fn_A fp pb body K H x) as [Hm [Hc Hk]]. destruct (fn_likeG fx fp pb body x) as [[y r] lg].
  cbn [g_st g_lg fst snd] in *. dsplit; [eapply mono_trans; [exact Hm | apply mono_visit_lit] | exact Hc | exact Hk].
Qed.

Lemma fn_expr_B fp pb body cb Rb : okBl body cb Rb -> okB (fn_exprG fx fp pb body) only_N Rb.
Proof.
  intros H x Hl. unfold fn_exprG. destruct (fn_B fp pb body cb Rb H x Hl) as [[P2 _] [Hr Hf]]. destruct (fn_likeG fx fp pb body x) as [[y r] lg].
  cbn [g_st g_rs g_lg fst snd] in *. dsplit; [|discriminate | exact Hf].
  split; [|dsplit; discriminate]. intros Hd. apply P2. unfold dd in *. rewrite end_visit_lit in Hd. exact Hd.
Qed.

Lemma for_head_A fp pb body K : okAl body K -> okA (for_headG fx fp pb body) K.
Proof. intros H. unfold for_headG. cbn [fixE fx repaired]. apply fn_expr_A. exact H. Qed.
Lemma for_head_B fp pb body cb Rb : okBl body cb Rb -> okB (for_headG fx fp pb body) only_N Rb.
Proof. intros H. unfold for_headG. cbn [fixE fx repaired]. eapply fn_expr_B. exact H. Qed.

(* the head of a loop, then the loop *)
Lemma seq_A hd tl K1 K2 : okA hd K1 -> okA tl K2 -> okA (seqG hd tl) (K1 ++ K2).
Proof.
  intros H1 H2 x. unfold seqG. destruct (H1 x) as [Hm1 [Hc1 Hk1]]. destruct (hd x) as [[y r1] lg1]. cbn [g_st g_lg fst snd] in *.
  destruct (H2 y) as [Hm2 [Hc2 Hk2]]. destruct (tl y) as [[z r] lg2]. cbn [g_st g_lg fst snd] in *.
  dsplit; [eapply mono_trans; eassumption | apply cases_ok_app; assumption|].
  apply lkeys_in_app; [eapply lkeys_in_weak; [exact Hk1 | apply incl_appl, incl_refl] | eapply lkeys_in_weak; [exact Hk2 | apply incl_appr, incl_refl]].
Qed.

Lemma seq_B hd tl c R1 R2 K1 K2 :
  okB hd only_N R1 -> okB tl c R2 -> okA hd K1 -> okA tl K2 ->
  (forall k, In k K1 -> ~ In k R2) -> (forall k, In k K2 -> ~ In k R1) ->
  okB (seqG hd tl) c (R1 ++ R2).
Proof.
  intros H1 H2 A1 A2 D12 D21 x Hl. unfold seqG.
  destruct (H1 x Hl) as [[P2 _] [_ Hf]]. destruct (A1 x) as [_ [_ Hk1]].
  destruct (hd x) as [[y r1] lg1]. cbn [g_st g_rs g_lg fst snd] in *.
  assert (Hly : lv y) by (destruct (lv_or_dd y) as [Hy | Hy]; [exact Hy | discriminate (P2 Hy)]).
  destruct (H2 y Hly) as [Q [Qr Qf]]. destruct (A2 y) as [_ [_ Hk2]].
  destruct (tl y) as [[z r] lg2]. cbn [g_st g_rs g_lg fst snd] in *.
  dsplit; [exact Q | exact Qr|].
  apply flags_ok_app_l; apply flags_ok_app_r;
    [exact Hf | eapply flags_ok_disjoint; [exact Hk1 | exact D12] | eapply flags_ok_disjoint; [exact Hk2 | exact D21] | exact Qf].
Qed.

(* if without else *)
Lemma if_A p c p1 op1 K : okA op1 K -> okA (visit_ifG fx p c p1 op1) K.
Proof.
  intros H x. unfold visit_ifG. destruct (with_child_A KIf p1 op1 K H (visit_cond c x)) as [Hm [Hc Hk]].
  destruct (with_childG fx KIf p1 op1 (visit_cond c x)) as [[x2 r] lg]. cbn [g_st g_lg fst snd] in *.
  dsplit; [|exact Hc | exact Hk].
  eapply mono_trans; [apply mono_visit_cond|]. eapply mono_trans; [exact Hm|].
  eapply mono_trans; [apply mono_mark | apply mono_set_end].
Qed.

Lemma if_B p c p1 op1 c1 R1 :
  okB op1 c1 R1 ->
  okB (visit_ifG fx p c p1 op1)
      (cunion (t_if (cond_throws c)) (cunion (if may_true c then c1 else cempty) (n_if (may_false c))))
      (if may_true c then R1 else []).
Proof.
  intros H x Hl. unfold visit_ifG, with_childG.
  assert (Hl1 : lv (visit_cond c x)) by (unfold lv; rewrite end_visit_cond; exact Hl).
  destruct (H (child_enter KIf (visit_cond c x)) (lv_child_enter KIf _ Hl1)) as [[P2 [P3 [P4 P5]]] [Hr Hf]].
  destruct (op1 (child_enter KIf (visit_cond c x))) as [[c' r] lg]. cbn [g_st g_rs g_lg fst snd] in *.
  dsplit.
  - apply post_sc_live.
    + unfold lv. cbn [set_end with_sc sc s_end]. exact Hl1.
    + cbn [cunion cB0 t_if n_if cset_T cset_N cempty orb]. rewrite orb_false_r. intros Hb.
      cbn [set_end with_sc sc s_fb]. rewrite fb_mark. apply fb_child_exit_child; [reflexivity|].
      apply P3. destruct (may_true c); [exact Hb | discriminate].
    + rewrite !has_cont_cunion, has_cont_t_if, has_cont_n_if, orb_false_r. cbn [orb]. intros Hb.
      cbn [set_end with_sc sc s_fc]. rewrite fc_mark, fc_child_exit. rewrite P4; [apply orb_true_r|].
      destruct (may_true c); [exact Hb | discriminate].
    + cbn [cunion cT t_if n_if cset_T cset_N cempty]. rewrite orb_false_r. intros Hb.
      cbn [set_end with_sc sc s_mt]. rewrite mt_mark, mt_child_exit. apply orb_true_iff in Hb. destruct Hb as [Hb|Hb].
      * rewrite (mt_visit_cond_throws c x Hl Hb). reflexivity.
      * rewrite P5; [apply orb_true_r|]. destruct (may_true c); [exact Hb | discriminate].
  - rewrite end_child_exit_if. rewrite (mark_val_live _ _ Hl1). discriminate.
  - destruct (may_true c); [exact Hf | intros k fl _ []].
Qed.

(* if with else *)
Lemma if_else_mark_dead r1 r2 e :
  if_else_mark r1 r2 = Some e -> dead (Some e) = true -> dead r1 = true /\ dead r2 = true.
Proof.
  unfold if_else_mark. destruct r1 as [a|]; [|intros H; injection H as <-; discriminate].
  destruct r2 as [b|]; [|intros H; injection H as <-; discriminate].
  destruct a, b; cbn [is_forced andb merge_forced]; intros H; injection H as <-; cbn; intros Hd; try discriminate; split; reflexivity.
Qed.

Lemma if_else_A p c p1 op1 p2 op2 K1 K2 :
  okA op1 K1 -> okA op2 K2 -> okA (visit_if_elseG fx p c p1 op1 p2 op2) (K1 ++ K2).
Proof.
  intros H1 H2 x. unfold visit_if_elseG.
  destruct (with_child_A KIf p1 op1 K1 H1 (visit_cond c x)) as [Hm1 [Hc1 Hk1]].
  destruct (with_childG fx KIf p1 op1 (visit_cond c x)) as [[x2 r1] lg1]. cbn [g_st g_lg fst snd] in *.
  destruct (with_child_A KIf p2 op2 K2 H2 x2) as [Hm2 [Hc2 Hk2]].
  destruct (with_childG fx KIf p2 op2 x2) as [[x3 r2] lg2]. cbn [g_st g_lg fst snd] in *.
  dsplit.
  - eapply mono_trans; [apply mono_visit_cond|]. eapply mono_trans; [exact Hm1|]. eapply mono_trans; [exact Hm2|].
    unfold if_else_end. destruct (if_else_mark r1 r2); [apply mono_mark | apply mono_sc; reflexivity].
  - apply cases_ok_app; assumption.
  - apply lkeys_in_app; [eapply lkeys_in_weak; [exact Hk1 | apply incl_appl, incl_refl] | eapply lkeys_in_weak; [exact Hk2 | apply incl_appr, incl_refl]].
Qed.

Lemma if_else_B p c p1 op1 p2 op2 c1 c2 R1 R2 K1 K2 :
  okB op1 c1 R1 -> okB op2 c2 R2 -> okA op1 K1 -> okA op2 K2 ->
  (forall k, In k K1 -> ~ In k R2) -> (forall k, In k K2 -> ~ In k R1) ->
  okB (visit_if_elseG fx p c p1 op1 p2 op2)
      (cunion (t_if (cond_throws c)) (cunion (if may_true c then c1 else cempty) (if may_false c then c2 else cempty)))
      ((if may_true c then R1 else []) ++ (if may_false c then R2 else [])).
Proof.
  intros H1 H2 A1 A2 D12 D21 x Hl. unfold visit_if_elseG, with_childG.
  assert (Hl1 : lv (visit_cond c x)) by (unfold lv; rewrite end_visit_cond; exact Hl).
  destruct (H1 (child_enter KIf (visit_cond c x)) (lv_child_enter KIf _ Hl1)) as [[P2 [P3 [P4 P5]]] [Hr Hf]].
  destruct (A1 (child_enter KIf (visit_cond c x))) as [_ [_ Hk1]].
  destruct (op1 (child_enter KIf (visit_cond c x))) as [[c1' r1] lg1]. cbn [g_st g_rs g_lg fst snd] in *.
  set (x2 := child_exit fx KIf p1 (visit_cond c x) c1') in *.
  assert (Hl2 : lv x2) by (unfold lv, x2; rewrite end_child_exit_if; exact Hl1).
  destruct (H2 (child_enter KIf x2) (lv_child_enter KIf _ Hl2)) as [[Q2 [Q3 [Q4 Q5]]] [Qr Qf]].
  destruct (A2 (child_enter KIf x2)) as [_ [_ Hk2]].
  destruct (op2 (child_enter KIf x2)) as [[c2' r2] lg2]. cbn [g_st g_rs g_lg fst snd] in *.
  set (x3 := child_exit fx KIf p2 x2 c2') in *.
  assert (Hl3 : lv x3) by (unfold lv, x3; rewrite end_child_exit_if; exact Hl2).
  assert (Hfb : cB0 c1 = true /\ may_true c = true \/ cB0 c2 = true /\ may_false c = true -> s_fb (sc x3) = Some None).
  { intros [[Hb _]|[Hb _]].
    - unfold x3. apply fb_child_exit_mono. unfold x2. apply fb_child_exit_child; [reflexivity | apply P3; exact Hb].
    - unfold x3. apply fb_child_exit_child; [reflexivity | apply Q3; exact Hb]. }
  assert (Hfc : has_cont c1 = true /\ may_true c = true \/ has_cont c2 = true /\ may_false c = true -> s_fc (sc x3) = true).
  { intros [[Hb _]|[Hb _]]; unfold x3, x2; rewrite !fc_child_exit.
    - rewrite (P4 Hb). rewrite orb_true_r. reflexivity.
    - rewrite (Q4 Hb). apply orb_true_r. }
  assert (Hmt : cond_throws c = true \/ cT c1 = true /\ may_true c = true \/ cT c2 = true /\ may_false c = true -> s_mt (sc x3) = true).
  { intros [Hb|[[Hb _]|[Hb _]]]; unfold x3, x2; rewrite !mt_child_exit.
    - rewrite (mt_visit_cond_throws c x Hl Hb). reflexivity.
    - rewrite (P5 Hb). rewrite orb_true_r. reflexivity.
    - rewrite (Q5 Hb). apply orb_true_r. }
  assert (Hdead : forall e, if_else_mark r1 r2 = Some e -> dead (Some e) = true ->
            cN (cunion (t_if (cond_throws c)) (cunion (if may_true c then c1 else cempty) (if may_false c then c2 else cempty))) = false).
  { intros e He Hd. destruct (if_else_mark_dead _ _ _ He Hd) as [D1 D2].
    cbn [cunion cN t_if cset_T cempty orb]. rewrite (if_eq_N (may_true c) c1 (Hr D1)), (if_eq_N (may_false c) c2 (Qr D2)). reflexivity. }
  dsplit.
  - unfold if_else_end. destruct (if_else_mark r1 r2) as [e|] eqn:He.
    + split; [|rewrite fb_mark, fc_mark, mt_mark; dsplit].
      * intros Hd. unfold dd in Hd. rewrite end_mark, (mark_end_live _ _ Hl3) in Hd. exact (Hdead e eq_refl Hd).
      * cbn [cunion cB0 t_if cset_T cempty orb]. intros Hb. apply Hfb. apply (or_field cB0); [reflexivity | exact Hb].
      * rewrite !has_cont_cunion, has_cont_t_if. cbn [orb]. intros Hb. apply Hfc. apply (or_field has_cont); [reflexivity | exact Hb].
      * cbn [cunion cT t_if cset_T cempty]. intros Hb. apply Hmt. apply orb_true_iff in Hb. destruct Hb as [Hb|Hb]; [left; exact Hb | right].
        apply (or_field cT); [reflexivity | exact Hb].
    + apply post_sc_live; [exact Hl3 | | |].
      * cbn [cunion cB0 t_if cset_T cempty orb]. intros Hb. apply Hfb. apply (or_field cB0); [reflexivity | exact Hb].
      * rewrite !has_cont_cunion, has_cont_t_if. cbn [orb]. intros Hb. apply Hfc. apply (or_field has_cont); [reflexivity | exact Hb].
      * cbn [cunion cT t_if cset_T cempty]. intros Hb. apply Hmt. apply orb_true_iff in Hb. destruct Hb as [Hb|Hb]; [left; exact Hb | right].
        apply (or_field cT); [reflexivity | exact Hb].
  - destruct (if_else_mark r1 r2) as [e|] eqn:He; [|discriminate].
    rewrite (mark_val_live _ _ Hl3). apply Hdead. reflexivity.
  - apply flags_ok_app_l; apply flags_ok_app_r.
    + destruct (may_true c); [exact Hf | apply flags_ok_nil'].
    + destruct (may_false c); [|apply flags_ok_nil']. eapply flags_ok_disjoint; [exact Hk1 | exact D12].
    + destruct (may_true c); [|apply flags_ok_nil']. eapply flags_ok_disjoint; [exact Hk2 | exact D21].
    + destruct (may_false c); [exact Qf | apply flags_ok_nil'].
Qed.

(* ------------------------------------------------------------------ *)
(* loops *)
Lemma cN_sem_loop pre post ls bc :
  cN (sem_loop pre post ls bc) = may_false pre || (may_true pre && (cB0 bc || (again ls bc && may_false post))).
Proof. exact (cin_sem_loop Normal pre post ls bc). Qed.
Lemma cT_sem_loop pre post ls bc :
  cT (sem_loop pre post ls bc) = cond_throws pre || (may_true pre && (cT bc || (again ls bc && cond_throws post))).
Proof. exact (cin_sem_loop Thr pre post ls bc). Qed.
Lemma cB0_sem_loop pre post ls bc : cB0 (sem_loop pre post ls bc) = false.
Proof. change (cin (Brk None) (sem_loop pre post ls bc) = false). rewrite cin_sem_loop. rewrite andb_false_r. reflexivity. Qed.
Lemma has_cont_sem_loop pre post ls bc : has_cont (sem_loop pre post ls bc) = true -> has_cont bc = true.
Proof.
  unfold sem_loop, has_cont. destruct (may_true pre); cbn [cunion t_if n_if cset_T cset_N cempty cC0 cCL app orb]; [|discriminate].
  intros H. destruct (cCL bc) as [|l r]; [discriminate|]. cbn [is_nil negb]. apply orb_true_r.
Qed.
Lemma again_split ls bc : again ls bc = true -> cN bc = true \/ has_cont bc = true.
Proof.
  unfold again, has_cont. rewrite !orb_true_iff. intros [[H|H]|H]; [left; exact H | right; left; exact H | right; right].
  destruct (cCL bc); [discriminate | reflexivity].
Qed.

Lemma while_post_sc r c lo a :
  s_fb (sc (while_post_r r c lo a)) = s_fb (sc a) /\ s_fc (sc (while_post_r r c lo a)) = s_fc (sc a) /\
  s_mt (sc (while_post_r r c lo a)) = s_mt (sc a) /\
  (oend_forced (s_end (sc (while_post_r r c lo a))) = true -> known_true c = true /\ fb_unlabelled (s_fb (sc a)) = false).
Proof.
  unfold while_post_r. destruct r as [e|]; cbn [oend_forced].
  - destruct (known_true c) eqn:Hk; cbn [andb]; [|cbn [set_end with_sc sc s_fb s_fc s_mt s_end]; rewrite fb_mark, fc_mark, mt_mark; dsplit; try reflexivity; discriminate].
    destruct (fb_unlabelled (s_fb (sc a))) eqn:Hb; cbn [negb andb]; rewrite ?andb_false_r, ?andb_true_r.
    + cbn [set_end with_sc sc s_fb s_fc s_mt s_end oend_forced is_forced]; rewrite fb_mark, fc_mark, mt_mark; dsplit; try reflexivity; discriminate.
    + destruct (is_forced e); cbn [set_end with_sc sc s_fb s_fc s_mt s_end]; rewrite fb_mark, fc_mark, mt_mark; dsplit; try reflexivity; intros _; split; reflexivity.
  - rewrite andb_false_r. cbn [andb].
    destruct (known_true c) eqn:Hk; cbn [andb]; [|cbn [set_end with_sc sc s_fb s_fc s_mt s_end]; rewrite fb_mark, fc_mark, mt_mark; dsplit; try reflexivity; discriminate].
    destruct (fb_unlabelled (s_fb (sc a))) eqn:Hb; cbn [negb]; cbn [set_end with_sc sc s_fb s_fc s_mt s_end oend_forced is_forced]; rewrite fb_mark, fc_mark, mt_mark; dsplit; try reflexivity; try discriminate.
    intros _; split; reflexivity.
Qed.

Lemma while_A c lo body K : okA body K -> okA (visit_whileG fx c lo body) K.
Proof.
  intros H x. unfold visit_whileG. cbn [fixF fx repaired]. destruct (H (child_enter KLoop (visit_cond c x))) as [_ [Hc Hk]].
  destruct (body (child_enter KLoop (visit_cond c x))) as [[a r] lg]. cbn [g_st g_lg fst snd] in *.
  dsplit; [|exact Hc | exact Hk]. eapply mono_trans; [apply mono_visit_cond | apply mono_child_exit].
Qed.

Lemma while_B c lo body bc Rb ls :
  okB body bc Rb -> okB (visit_whileG fx c lo body) (sem_loop c CTrue ls bc) (if may_true c then Rb else []).
Proof.
  intros H x Hl. unfold visit_whileG. cbn [fixF fx repaired].
  set (x0 := visit_cond c x).
  assert (Hl0 : lv x0) by (unfold lv, x0; rewrite end_visit_cond; exact Hl).
  destruct (H (child_enter KLoop x0) (lv_child_enter KLoop _ Hl0)) as [[P2 [P3 [P4 P5]]] [Hr Hf]].
  destruct (body (child_enter KLoop x0)) as [[a r] lg]. cbn [g_st g_rs g_lg fst snd] in *.
  destruct (while_post_sc r c lo a) as [Efb [Efc [Emt Eend]]].
  set (a2 := while_post_r r c lo a) in *.
  dsplit.
  - split; [|dsplit].
    + intros Hd. unfold dd in Hd. rewrite end_child_exit_loop in Hd.
      destruct (s_end (sc a2)) as [[R T I| |]|] eqn:Ea; try (exfalso; unfold lv in Hl0; rewrite live_not_dead, Hd in Hl0; discriminate).
      destruct (Eend eq_refl) as [Hk Hb]. destruct (known_true_sem c Hk) as [Hmf Hmt].
      rewrite cN_sem_loop, Hmf, Hmt. cbn [may_false andb orb]. rewrite andb_false_r, orb_false_r.
      destruct (cB0 bc) eqn:Eb; [|reflexivity]. rewrite (P3 eq_refl) in Hb. discriminate.
    + rewrite cB0_sem_loop. discriminate.
    + intros Hc. apply has_cont_sem_loop in Hc. rewrite fc_child_exit, Efc, (P4 Hc). apply orb_true_r.
    + rewrite cT_sem_loop. cbn [cond_throws andb]. rewrite andb_false_r, orb_false_r. intros Hc. rewrite mt_child_exit.
      apply orb_true_iff in Hc. destruct Hc as [Hc|Hc].
      * unfold x0. rewrite (mt_visit_cond_throws c x Hl Hc). reflexivity.
      * apply andb_true_iff in Hc. destruct Hc as [_ Hc]. rewrite Emt, (P5 Hc). apply orb_true_r.
  - discriminate.
  - destruct (may_true c); [exact Hf | apply flags_ok_nil'].
Qed.

Lemma dowhile_post_sc r c lo a :
  let a2 := dowhile_post_r fx r c lo a in
  s_fb (sc a2) = s_fb (sc a) /\ s_fc (sc a2) = s_fc (sc a) /\ s_mt (sc a2) = s_mt (sc a) /\
  (exists e, s_end (sc a2) = Some e /\
     (is_forced e = true ->
        (oend_forced r = true /\ fb_unlabelled (s_fb (sc a)) = false /\ s_fc (sc a) = false) \/
        (known_true c = true /\ fb_none (s_fb (sc a)) = true)) /\
     (is_forced e = false -> e = EContinue)).
Proof.
  unfold dowhile_post_r. cbn [fixA fx repaired andb].
  destruct r as [e|]; cbn [oend_forced].
  - destruct (is_forced e && negb (fb_unlabelled (s_fb (sc a))) && negb (s_fc (sc a))) eqn:C1.
    + apply andb_true_iff in C1. destruct C1 as [C1 C3]. apply andb_true_iff in C1. destruct C1 as [C1 C2].
      cbn [set_end with_sc sc s_fb s_fc s_mt s_end]. rewrite fb_mark, fc_mark, mt_mark. dsplit; try reflexivity.
      exists e. dsplit; [reflexivity | | intros Hn; congruence].
      intros _. left. dsplit; [exact C1 | destruct (fb_unlabelled (s_fb (sc a))); [discriminate | reflexivity] | destruct (s_fc (sc a)); [discriminate | reflexivity]].
    + destruct (known_true c && fb_none (s_fb (sc a))) eqn:C2; cbn [set_end with_sc sc s_fb s_fc s_mt s_end]; rewrite fb_mark, fc_mark, mt_mark; dsplit; try reflexivity.
      * exists forced_inf. dsplit; [reflexivity | | discriminate]. intros _. right. apply andb_true_iff in C2. exact C2.
      * exists EContinue. dsplit; [reflexivity | discriminate | reflexivity].
  - cbn [andb]. destruct (known_true c && fb_none (s_fb (sc a))) eqn:C2; cbn [set_end with_sc sc s_fb s_fc s_mt s_end]; rewrite fb_mark, fc_mark, mt_mark; dsplit; try reflexivity.
    + exists forced_inf. dsplit; [reflexivity | | discriminate]. intros _. right. apply andb_true_iff in C2. exact C2.
    + exists EContinue. dsplit; [reflexivity | discriminate | reflexivity].
Qed.

Lemma dowhile_A p c lo body K : okA body K -> okA (visit_do_whileG fx p c lo body) K.
Proof.
  intros H x. unfold visit_do_whileG. destruct (H (child_enter KLoop x)) as [_ [Hc Hk]].
  destruct (body (child_enter KLoop x)) as [[a r] lg]. cbn [g_st g_lg fst snd] in *.
  dsplit; [|exact Hc | exact Hk]. eapply mono_trans; [apply mono_child_exit|]. unfold dowhile_tail.
  match goal with |- mono _ (dowhile_test _ _ c ?y) => assert (Hm : mono (child_exit fx KLoop lo x (dowhile_post_r fx r c lo a)) y) end.
  { match goal with |- mono _ (match ?o with _ => _ end) => destruct o as [e|] end; [destruct (is_forced e); [apply mono_mark | apply mono_refl] | apply mono_refl]. }
  eapply mono_trans; [exact Hm|]. destruct Hm as [_ _].
  repeat split; [rewrite fb_dowhile_test; intros Hq; exact Hq | rewrite fc_dowhile_test; intros Hq; exact Hq | apply mt_dowhile_test_mono].
Qed.

Lemma is_forced_dead e : is_forced e = true -> dead (Some e) = true.
Proof. destruct e; try discriminate; reflexivity. Qed.
Lemma forced_merge_dead a e : is_forced a = true -> dead (mark_val (Some a) e) = true.
Proof. destruct a; try discriminate. intros _. destruct e; reflexivity. Qed.

Lemma dowhile_B p c lo body bc Rb ls :
  okB body bc Rb -> okB (visit_do_whileG fx p c lo body) (sem_loop CTrue c ls bc) Rb.
Proof.
  intros H x Hl. unfold visit_do_whileG.
  destruct (H (child_enter KLoop x) (lv_child_enter KLoop _ Hl)) as [[P2 [P3 [P4 P5]]] [Hr Hf]].
  destruct (body (child_enter KLoop x)) as [[a r] lg]. cbn [g_st g_rs g_lg fst snd] in *.
  destruct (dowhile_post_sc r c lo a) as [Efb [Efc [Emt [e [Ee [Hfo Hnf]]]]]]. cbv zeta in *.
  set (a2 := dowhile_post_r fx r c lo a) in *. rewrite Ee.
  rewrite (mark_val_live _ e Hl).
  assert (HF : is_forced e = true -> cN (sem_loop CTrue c ls bc) = false /\ True).
  { intros He. rewrite cN_sem_loop. cbn [may_false may_true andb orb].
    destruct (Hfo He) as [[C1 [C2 C3]] | [C1 C2]].
    - assert (Hb : cB0 bc = false).
      { destruct (cB0 bc) eqn:Eb; [|reflexivity]. rewrite (P3 eq_refl) in C2. discriminate. }
      assert (Ha : again ls bc = false).
      { destruct (again ls bc) eqn:Ea; [|reflexivity]. destruct (again_split _ _ Ea) as [Hn|Hc].
        - rewrite Hr in Hn; [discriminate|]. destruct r as [[R T I| |]|]; try discriminate; reflexivity.
        - rewrite (P4 Hc) in C3. discriminate. }
      rewrite Hb, Ha. split; [reflexivity | exact I].
    - destruct (known_true_sem c C1) as [Hmf _]. rewrite Hmf. rewrite !andb_false_r, orb_false_r.
      split; [|exact I]. destruct (cB0 bc) eqn:Eb; [|reflexivity]. rewrite (P3 eq_refl) in C2. discriminate. }
  assert (Hend1 : s_end (sc (child_exit fx KLoop lo x a2)) = if is_forced e then Some e else s_end (sc x)).
  { rewrite end_child_exit_loop, Ee. destruct e; reflexivity. }
  dsplit.
  - unfold dowhile_tail. split; [|dsplit].
    + intros Hd. unfold dd in Hd. rewrite end_dowhile_test in Hd. destruct (is_forced e) eqn:He; [apply HF; reflexivity|].
      exfalso. rewrite Hend1 in Hd. unfold lv in Hl. rewrite live_not_dead, Hd in Hl. discriminate.
    + rewrite cB0_sem_loop. discriminate.
    + intros Hc. apply has_cont_sem_loop in Hc. rewrite fc_dowhile_test.
      assert (Hx1 : s_fc (sc (child_exit fx KLoop lo x a2)) = true) by (rewrite fc_child_exit, Efc, (P4 Hc); apply orb_true_r).
      destruct (is_forced e); [rewrite fc_mark|]; exact Hx1.
    + rewrite cT_sem_loop. cbn [cond_throws may_true andb orb]. intros Hc. apply orb_true_iff in Hc. destruct Hc as [Hc|Hc].
      * apply mt_dowhile_test_mono.
        assert (Hx1 : s_mt (sc (child_exit fx KLoop lo x a2)) = true) by (rewrite mt_child_exit, Emt, (P5 Hc); apply orb_true_r).
        destruct (is_forced e); [rewrite mt_mark|]; exact Hx1.
      * apply andb_true_iff in Hc. destruct Hc as [_ Hc]. apply mt_dowhile_test_throws; [exact Hl | exact Hc].
  - destruct (is_forced e) eqn:He; [|discriminate]. intros _. apply HF. reflexivity.
  - exact Hf.
Qed.

Lemma for_post_sc r p c lo a :
  let a2 := for_post_r r p c lo a in
  s_fb (sc a2) = s_fb (sc a) /\ s_fc (sc a2) = s_fc (sc a) /\ s_mt (sc a2) = s_mt (sc a) /\
  (oend_forced (s_end (sc a2)) = true -> for_forced c a = true).
Proof.
  unfold for_post_r. destruct (for_forced c a) eqn:Ef; cbn [negb orb].
  - assert (Hb : fb_unlabelled (s_fb (sc a)) = false).
    { unfold for_forced in Ef. destruct (fb_unlabelled (s_fb (sc a))); [discriminate | reflexivity]. }
    rewrite Hb. rewrite fb_mark, fc_mark, mt_mark. dsplit; reflexivity.
  - cbn [set_end with_sc sc s_fb s_fc s_mt s_end oend_forced is_forced]. rewrite fb_mark, fc_mark, mt_mark. dsplit; try reflexivity. discriminate.
Qed.

Lemma mono_visit_oe o x : mono x (visit_oe o x).
Proof. destruct o; cbn [visit_oe]; [apply mono_visit_e | apply mono_refl]. Qed.
Lemma may_false_upd_post u : may_false (upd_post u) = false.
Proof. destruct u; reflexivity. Qed.
Lemma cond_throws_upd_post u : cond_throws (upd_post u) = oe_throws u.
Proof. destruct u; reflexivity. Qed.

(* `for (i; c; u) body`: init and update are visited first, in the enclosing scope *)
Definition forG (p : N) (i : option expr) (c : option cond) (u : option expr) (lo : N) (body : st -> gres) (x : st) : gres :=
  visit_forG fx p c lo body (visit_oe u (visit_oe i x)).

Lemma for_A p i c u lo body K : okA body K -> okA (forG p i c u lo body) K.
Proof.
  intros H x. unfold forG, visit_forG.
  set (x0 := visit_oe u (visit_oe i x)).
  set (x' := match c with Some c0 => visit_cond c0 x0 | None => x0 end).
  destruct (H (child_enter KLoop x')) as [_ [Hc Hk]].
  destruct (body (child_enter KLoop x')) as [[a r] lg]. cbn [g_st g_lg fst snd] in *.
  dsplit; [|exact Hc | exact Hk].
  eapply mono_trans; [|apply mono_child_exit]. unfold x', x0.
  eapply mono_trans; [apply mono_visit_oe|]. eapply mono_trans; [apply mono_visit_oe|].
  destruct c; [apply mono_visit_cond | apply mono_refl].
Qed.

Lemma for_B p i c u lo body bc Rb ls :
  okB body bc Rb ->
  okB (forG p i c u lo body) (cunion (t_if (oe_throws i)) (sem_loop (for_pre c) (upd_post u) ls bc)) (if may_true (for_pre c) then Rb else []).
Proof.
  intros H x Hl. unfold forG, visit_forG.
  set (x0 := visit_oe u (visit_oe i x)).
  assert (Hl0 : lv x0) by (unfold lv, x0; rewrite !end_visit_oe; exact Hl).
  set (x' := match c with Some c0 => visit_cond c0 x0 | None => x0 end).
  assert (Hl' : lv x') by (unfold lv, x'; destruct c; [rewrite end_visit_cond|]; exact Hl0).
  assert (Mx' : s_mt (sc x0) = true -> s_mt (sc x') = true) by (unfold x'; destruct c; [apply mt_visit_cond_mono | exact (fun Hq => Hq)]).
  destruct (H (child_enter KLoop x') (lv_child_enter KLoop _ Hl')) as [[P2 [P3 [P4 P5]]] [Hr Hf]].
  destruct (body (child_enter KLoop x')) as [[a r] lg]. cbn [g_st g_rs g_lg fst snd] in *.
  destruct (for_post_sc r p c lo a) as [Efb [Efc [Emt Eend]]]. cbv zeta in *.
  set (a2 := for_post_r r p c lo a) in *.
  assert (EN : cN (cunion (t_if (oe_throws i)) (sem_loop (for_pre c) (upd_post u) ls bc)) = cN (sem_loop (for_pre c) (upd_post u) ls bc)) by reflexivity.
  assert (HF : for_forced c a = true -> cN (sem_loop (for_pre c) (upd_post u) ls bc) = false).
  { intros Hff. unfold for_forced in Hff. apply andb_true_iff in Hff. destruct Hff as [Hb Hk].
    rewrite cN_sem_loop, may_false_upd_post. rewrite andb_false_r, orb_false_r.
    assert (Hb0 : cB0 bc = false).
    { destruct (cB0 bc) eqn:Eb; [|reflexivity]. rewrite (P3 eq_refl) in Hb. discriminate. }
    rewrite Hb0, andb_false_r, orb_false_r. destruct c as [c0|]; [|reflexivity]. cbn [for_pre]. rewrite (proj1 (known_true_sem c0 Hk)). reflexivity. }
  dsplit.
  - split; [|dsplit].
    + intros Hd. rewrite EN. apply HF. apply Eend. unfold dd in Hd. rewrite end_child_exit_loop in Hd.
      destruct (s_end (sc a2)) as [[R T I| |]|]; try reflexivity; exfalso; unfold lv in Hl'; rewrite live_not_dead, Hd in Hl'; discriminate.
    + cbn [cunion t_if cset_T cempty cB0 orb]. rewrite cB0_sem_loop. discriminate.
    + rewrite has_cont_cunion, has_cont_t_if. cbn [orb]. intros Hc. apply has_cont_sem_loop in Hc. rewrite fc_child_exit, Efc, (P4 Hc). apply orb_true_r.
    + cbn [cunion t_if cset_T cempty cT]. rewrite cT_sem_loop, cond_throws_upd_post. intros Hc. rewrite mt_child_exit.
      apply orb_true_iff in Hc. destruct Hc as [Hc|Hc].
      * (* the init expression throws *)
        rewrite Mx'; [reflexivity|]. unfold x0. apply mt_visit_oe_mono. apply mt_visit_oe_throws; [exact Hl | exact Hc].
      * apply orb_true_iff in Hc. destruct Hc as [Hc|Hc].
        -- destruct c as [c0|]; [|discriminate]. unfold x'. cbn [for_pre] in Hc. rewrite (mt_visit_cond_throws c0 x0 Hl0 Hc). reflexivity.
        -- apply andb_true_iff in Hc. destruct Hc as [_ Hc]. apply orb_true_iff in Hc. destruct Hc as [Hc|Hc].
           ++ rewrite Emt, (P5 Hc). apply orb_true_r.
           ++ (* the update expression throws *)
              apply andb_true_iff in Hc. destruct Hc as [_ Hc]. rewrite Mx'; [reflexivity|]. unfold x0.
              apply mt_visit_oe_throws; [unfold lv; rewrite end_visit_oe; exact Hl | exact Hc].
  - destruct (for_forced c a) eqn:Ef; [|discriminate]. intros _. rewrite EN. apply HF. reflexivity.
  - destruct (may_true (for_pre c)); [exact Hf | apply flags_ok_nil'].
Qed.

Lemma for_in_A lo body K : okA body K -> okA (visit_for_inG fx lo body) K.
Proof.
  intros H x. unfold visit_for_inG. destruct (H (child_enter KLoop x)) as [_ [Hc Hk]].
  destruct (body (child_enter KLoop x)) as [[a r] lg]. cbn [g_st g_lg fst snd] in *.
  dsplit; [apply mono_child_exit | exact Hc | exact Hk].
Qed.

Lemma for_in_B lo body bc Rb ls :
  okB body bc Rb -> okB (visit_for_inG fx lo body) (sem_loop opaque CTrue ls bc) Rb.
Proof.
  intros H x Hl. unfold visit_for_inG.
  destruct (H (child_enter KLoop x) (lv_child_enter KLoop _ Hl)) as [[P2 [P3 [P4 P5]]] [Hr Hf]].
  destruct (body (child_enter KLoop x)) as [[a r] lg]. cbn [g_st g_rs g_lg fst snd] in *.
  dsplit.
  - apply post_sc_live.
    + unfold lv. rewrite end_child_exit_loop. unfold forin_post. cbn [set_end with_sc sc s_end]. exact Hl.
    + rewrite cB0_sem_loop. discriminate.
    + intros Hc. apply has_cont_sem_loop in Hc. rewrite fc_child_exit. unfold forin_post. cbn [set_end with_sc sc s_fc].
      rewrite fc_mark, (P4 Hc). apply orb_true_r.
    + rewrite cT_sem_loop. cbn [opaque cond_throws e_throws may_true andb orb]. rewrite andb_false_r, orb_false_r. intros Hc.
      rewrite mt_child_exit. unfold forin_post. cbn [set_end with_sc sc s_mt]. rewrite mt_mark, (P5 Hc). apply orb_true_r.
  - discriminate.
  - exact Hf.
Qed.

(* labelled statement *)
Definition lab_comps (l : N) (c : comps) : comps :=
  {| cN := cN c || memN l (cBL c); cR := cR c; cT := cT c; cB0 := cB0 c; cC0 := cC0 c;
     cBL := filter (fun x => negb (N.eqb x l)) (cBL c); cCL := cCL c |}.

Lemma label_A l p op K : okA op K -> okA (fun x => let '(y, _, lg) := with_childG fx (KLabel l) p op x in (y, None, lg)) K.
Proof.
  intros H x. destruct (with_child_A (KLabel l) p op K H x) as [Hm [Hc Hk]].
  destruct (with_childG fx (KLabel l) p op x) as [[y r] lg]. cbn [g_st g_lg fst snd] in *. dsplit; assumption.
Qed.

Lemma label_B l p op cb Rb :
  okB op cb Rb -> okB (fun x => let '(y, _, lg) := with_childG fx (KLabel l) p op x in (y, None, lg)) (lab_comps l cb) Rb.
Proof.
  intros H x Hl. unfold with_childG.
  destruct (H (child_enter (KLabel l) x) (lv_child_enter (KLabel l) _ Hl)) as [[P2 [P3 [P4 P5]]] [Hr Hf]].
  destruct (op (child_enter (KLabel l) x)) as [[c r] lg]. cbn [g_st g_rs g_lg fst snd] in *.
  dsplit; [|discriminate | exact Hf].
  apply post_sc_live.
  - unfold lv. rewrite end_child_exit_label. exact Hl.
  - cbn [lab_comps cB0]. intros Hb. apply fb_child_exit_child; [reflexivity | apply P3; exact Hb].
  - intros Hb. rewrite fc_child_exit, P4; [apply orb_true_r | exact Hb].
  - cbn [lab_comps cT]. intros Hb. rewrite mt_child_exit, (P5 Hb). apply orb_true_r.
Qed.

(* ------------------------------------------------------------------ *)
(* statement lists *)
Definition consG (s : stmt) (hd : st -> gres) (tl : st -> gres_l) (y : st) : gres_l :=
  let '(y1, r1, lg1) := hd y in
  let '(y2, tops, lg2) := tl y1 in
  (y2, r1 :: tops, lg1 ++ lg2).

Lemma nil_A : okAl (fun y => (y, [], [])) [].
Proof. intros x. cbn [l_st l_lg fst snd]. dsplit; [apply mono_refl | apply cases_ok_nil | apply lkeys_in_nil]. Qed.
Lemma nil_B : okBl (fun y => (y, [], [])) only_N [].
Proof.
  intros x Hl. cbn [l_st l_tops l_lg fst snd]. dsplit; [|intros H; cbn in H; discriminate | apply flags_ok_nil].
  apply post_sc_live; [exact Hl | discriminate | discriminate | discriminate].
Qed.

Lemma cons_A s hd tl K1 K2 : okA hd K1 -> okAl tl K2 -> okAl (consG s hd tl) (K1 ++ K2).
Proof.
  intros H1 H2 x. unfold consG. destruct (H1 x) as [Hm1 [Hc1 Hk1]]. destruct (hd x) as [[y1 r1] lg1]. cbn [g_st g_lg fst snd] in *.
  destruct (H2 y1) as [Hm2 [Hc2 Hk2]]. destruct (tl y1) as [[y2 tops] lg2]. cbn [l_st l_lg fst snd] in *.
  dsplit; [eapply mono_trans; eassumption | apply cases_ok_app; assumption|].
  apply lkeys_in_app; [eapply lkeys_in_weak; [exact Hk1 | apply incl_appl, incl_refl] | eapply lkeys_in_weak; [exact Hk2 | apply incl_appr, incl_refl]].
Qed.

Lemma cons_B s hd tl c1 c2 R1 R2 H2 K1 K2 :
  okB hd c1 R1 -> okBl tl c2 R2 -> okA hd K1 -> okAl tl K2 ->
  (forall y, flags_ok (l_lg (tl y)) H2) ->
  (forall k, In k K1 -> ~ In k R2) -> (forall k, In k K2 -> ~ In k R1) -> (forall k, In k K1 -> ~ In k H2) ->
  okBl (consG s hd tl) (if cN c1 then cunion (cset_N false c1) c2 else c1) (R1 ++ (if cN c1 then R2 else H2)).
Proof.
  intros H1 H2' A1 A2 HH D12 D21 D1H x Hl. unfold consG.
  destruct (H1 x Hl) as [[P2 [P3 [P4 P5]]] [Hr Hf]]. destruct (A1 x) as [_ [_ Hk1]].
  destruct (hd x) as [[y1 r1] lg1]. cbn [g_st g_rs g_lg fst snd] in *.
  destruct (A2 y1) as [Hm2 [_ Hk2]]. pose proof (HH y1) as HHy.
  (* the flags when the tail is not executed: only its hoisted function bodies are reachable *)
  assert (Hdead : forall y2 tops lg2, tl y1 = (y2, tops, lg2) -> flags_ok (lg1 ++ lg2) (R1 ++ H2)).
  { intros y2 tops lg2 Et. rewrite Et in Hk2, HHy. cbn [l_lg snd] in Hk2, HHy.
    apply flags_ok_app_l; apply flags_ok_app_r;
      [exact Hf | eapply flags_ok_disjoint; [exact Hk1 | exact D1H] | eapply flags_ok_disjoint; [exact Hk2 | exact D21] | exact HHy]. }
  destruct (lv_or_dd y1) as [Hl1 | Hd1].
  - (* the head leaves the scope live *)
    destruct (H2' y1 Hl1) as [[Q2 [Q3 [Q4 Q5]]] [Qr Qf]].
    destruct (tl y1) as [[y2 tops] lg2] eqn:Et. cbn [l_st l_tops l_lg fst snd] in *. destruct Hm2 as [M1 [M2 M3]].
    destruct (cN c1) eqn:En.
    + dsplit.
      * split; [|dsplit].
        -- intros Hd. cbn [cunion cset_N cN orb]. apply Q2. exact Hd.
        -- cbn [cunion cset_N cB0]. intros Hb. apply orb_true_iff in Hb. destruct Hb as [Hb|Hb]; [apply M1, P3; exact Hb | apply Q3; exact Hb].
        -- rewrite has_cont_cunion, has_cont_cset_N. intros Hb. apply orb_true_iff in Hb. destruct Hb as [Hb|Hb]; [apply M2, P4; exact Hb | apply Q4; exact Hb].
        -- cbn [cunion cset_N cT]. intros Hb. apply orb_true_iff in Hb. destruct Hb as [Hb|Hb]; [apply M3, P5; exact Hb | apply Q5; exact Hb].
      * cbn [tops_stop existsb]. fold (tops_stop tops). intros Hb. apply orb_true_iff in Hb. destruct Hb as [Hb|Hb].
        -- discriminate (Hr Hb).
        -- cbn [cunion cset_N cN orb]. apply Qr. exact Hb.
      * apply flags_ok_app_l; apply flags_ok_app_r; [exact Hf | eapply flags_ok_disjoint; [exact Hk1 | exact D12] | eapply flags_ok_disjoint; [exact Hk2 | exact D21] | exact Qf].
    + dsplit.
      * split; [intros _; exact En | dsplit].
        -- intros Hb. apply M1, P3. exact Hb.
        -- intros Hb. apply M2, P4. exact Hb.
        -- intros Hb. apply M3, P5. exact Hb.
      * intros _. exact En.
      * apply (Hdead y2 tops lg2 eq_refl).
  - (* the head leaves the scope dead: it cannot complete normally, the tail is not executed *)
    assert (En : cN c1 = false) by (apply P2; exact Hd1). rewrite En.
    destruct (tl y1) as [[y2 tops] lg2] eqn:Et. cbn [l_st l_tops l_lg fst snd] in *. destruct Hm2 as [M1 [M2 M3]].
    dsplit.
    + split; [intros _; exact En | dsplit].
      * intros Hb. apply M1, P3. exact Hb.
      * intros Hb. apply M2, P4. exact Hb.
      * intros Hb. apply M3, P5. exact Hb.
    + intros _. exact En.
    + apply (Hdead y2 tops lg2 eq_refl).
Qed.

(* ------------------------------------------------------------------ *)
(* switch *)
Definition gres_c := (st * list (option End) * list gent)%type.
Definition c_st (r : gres_c) : st := fst (fst r).
Definition c_rs (r : gres_c) : list (option End) := snd (fst r).
Definition c_lg (r : gres_c) : list gent := snd r.
Definition all_forced (rs : list (option End)) : bool := forallb oend_forced rs.

Definition okAc (op : st -> gres_c) (K : list N) : Prop :=
  forall y, mono y (c_st (op y)) /\ cases_ok (c_lg (op y)) /\ lkeys_in (c_lg (op y)) K.
Definition okBc (op : st -> gres_c) (ca : comps) (R : list N) : Prop :=
  forall y, lv y ->
    s_end (sc (c_st (op y))) = s_end (sc y) /\
    (has_cont ca = true -> s_fc (sc (c_st (op y))) = true) /\
    (cT ca = true -> s_mt (sc (c_st (op y))) = true) /\
    (forall r, In r (c_rs (op y)) -> r <> None) /\
    (all_forced (c_rs (op y)) = true -> cN ca = false /\ cB0 ca = false) /\
    flags_ok (c_lg (op y)) R.

Lemma case_A cp b cons K Rb :
  okAl cons K -> okBl cons (csem_l b) Rb -> okA (visit_caseG fx cp b cons) K.
Proof.
  intros HA HB y. unfold visit_caseG.
  destruct (HA (child_enter KCase y)) as [_ [Hc Hk]].
  assert (HB' := HB (child_enter KCase y)).
  destruct (cons (child_enter KCase y)) as [[c tops] lg]. cbn [g_st g_lg l_st l_tops l_lg fst snd] in *.
  dsplit.
  - eapply mono_trans; [apply (mono_child_exit KCase cp y c)|]. eapply mono_trans; [apply mono_mark | apply mono_set_end].
  - intros b' [E | Hin]; [|apply Hc; exact Hin].
    injection E as <- El Es. apply HB'; [|exact Es]. apply lv_child_enter. unfold lv. exact El.
  - apply lkeys_in_case. exact Hk.
Qed.

Lemma case_end_forced c e : case_end_of (sc c) = e -> is_forced e = true -> s_fb (sc c) = None /\ dd c.
Proof.
  unfold case_end_of, dd. destruct (s_fb (sc c)); [intros <-; discriminate|].
  destruct (s_end (sc c)) as [[r t i| |]|]; intros <-; try discriminate. intros _. split; reflexivity.
Qed.

Lemma case_B cp b cons cb Rb :
  okBl cons cb Rb ->
  forall y, lv y ->
    s_end (sc (g_st (visit_caseG fx cp b cons y))) = s_end (sc y) /\
    (has_cont cb = true -> s_fc (sc (g_st (visit_caseG fx cp b cons y))) = true) /\
    (cT cb = true -> s_mt (sc (g_st (visit_caseG fx cp b cons y))) = true) /\
    g_rs (visit_caseG fx cp b cons y) <> None /\
    (oend_forced (g_rs (visit_caseG fx cp b cons y)) = true -> cN cb = false /\ cB0 cb = false) /\
    flags_ok (g_lg (visit_caseG fx cp b cons y)) Rb.
Proof.
  intros HB y Hl. unfold visit_caseG.
  destruct (HB (child_enter KCase y) (lv_child_enter KCase _ Hl)) as [[P2 [P3 [P4 P5]]] [Hr Hf]].
  destruct (cons (child_enter KCase y)) as [[c tops] lg]. cbn [g_st g_rs g_lg l_st l_tops l_lg fst snd] in *.
  assert (Hl1 : live (s_end (sc (child_exit fx KCase cp y c))) = true) by (rewrite end_child_exit_case; exact Hl).
  rewrite (mark_val_live _ _ Hl1).
  dsplit.
  - reflexivity.
  - intros Hb. cbn [set_end with_sc sc s_fc]. rewrite fc_mark, fc_child_exit, (P4 Hb). apply orb_true_r.
  - intros Hb. cbn [set_end with_sc sc s_mt]. rewrite mt_mark, mt_child_exit, (P5 Hb). apply orb_true_r.
  - discriminate.
  - cbn [oend_forced]. intros He. destruct (case_end_forced c _ eq_refl He) as [Hfb Hd].
    split; [apply P2; exact Hd|]. destruct (cB0 cb) eqn:Eb; [|reflexivity]. rewrite (P3 eq_refl) in Hfb. discriminate.
  - apply flags_ok_case. exact Hf.
Qed.

Definition consC (hd : st -> gres) (tl : st -> gres_c) (y : st) : gres_c :=
  let '(y1, r1, lg1) := hd y in
  let '(y2, rs, lg2) := tl y1 in
  (y2, r1 :: rs, lg1 ++ lg2).

Lemma nilC_A : okAc (fun y => (y, [], [])) [].
Proof. intros y. cbn [c_st c_lg fst snd]. dsplit; [apply mono_refl | apply cases_ok_nil | apply lkeys_in_nil]. Qed.
Lemma nilC_B : okBc (fun y => (y, [], [])) cempty [].
Proof.
  intros y Hl. cbn [c_st c_rs c_lg fst snd]. split; [reflexivity|]. split; [discriminate|]. split; [discriminate|].
  split; [intros r []|]. split; [intros _; split; reflexivity | apply flags_ok_nil].
Qed.

Lemma consC_A hd tl K1 K2 : okA hd K1 -> okAc tl K2 -> okAc (consC hd tl) (K1 ++ K2).
Proof.
  intros H1 H2 x. unfold consC. destruct (H1 x) as [Hm1 [Hc1 Hk1]]. destruct (hd x) as [[y1 r1] lg1]. cbn [g_st g_lg fst snd] in *.
  destruct (H2 y1) as [Hm2 [Hc2 Hk2]]. destruct (tl y1) as [[y2 rs] lg2]. cbn [c_st c_lg fst snd] in *.
  dsplit; [eapply mono_trans; eassumption | apply cases_ok_app; assumption|].
  apply lkeys_in_app; [eapply lkeys_in_weak; [exact Hk1 | apply incl_appl, incl_refl] | eapply lkeys_in_weak; [exact Hk2 | apply incl_appr, incl_refl]].
Qed.

Lemma fst_snd_csem_c cs :
  (has_cont (fst (csem_c cs)) = true -> has_cont (snd (csem_c cs)) = true) /\
  (cT (fst (csem_c cs)) = true -> cT (snd (csem_c cs)) = true).
Proof.
  destruct cs as [|cp d ft b r]; cbn [csem_c fst snd]; [split; discriminate|].
  rewrite has_cont_cunion. cbn [cunion cT]. split; intros H; rewrite H; reflexivity.
Qed.

Lemma consC_B cp b cons tl cb r K1 K2 Rb R2 (f : st -> st) :
  okBl cons cb Rb -> okAl cons K1 -> okBl cons (csem_l b) Rb -> cb = csem_l b ->
  okBc tl (snd (csem_c r)) R2 -> okAc tl K2 ->
  (forall k, In k K1 -> ~ In k R2) -> (forall k, In k K2 -> ~ In k Rb) ->
  (forall y, s_end (sc (f y)) = s_end (sc y)) ->
  okBc (consC (fun y => visit_caseG fx cp b cons (f y)) tl)
       (cunion (if cN cb then cunion (cset_N false cb) (fst (csem_c r)) else cb) (snd (csem_c r)))
       (Rb ++ R2).
Proof.
  intros HB HA HB' Ecb HT HTA D12 D21 Hfe y0 Hl0. unfold consC.
  set (y := f y0). assert (Hl : lv y) by (unfold lv, y; rewrite Hfe; exact Hl0).
  destruct (case_B cp b cons cb Rb HB y Hl) as [E1 [F1 [T1 [N1 [A1 G1]]]]].
  destruct (case_A cp b cons K1 Rb HA HB' y) as [_ [_ Hk1]].
  destruct (visit_caseG fx cp b cons y) as [[y1 r1] lg1]. cbn [g_st g_rs g_lg fst snd] in *.
  assert (Hl1 : lv y1) by (unfold lv; rewrite E1; exact Hl).
  destruct (HT y1 Hl1) as [E2 [F2 [T2 [N2 [A2 G2]]]]]. destruct (HTA y1) as [[_ [M2 M3]] [_ Hk2]].
  destruct (tl y1) as [[y2 rs] lg2]. cbn [c_st c_rs c_lg fst snd] in *.
  destruct (fst_snd_csem_c r) as [FS1 FS2].
  dsplit.
  - rewrite E2, E1. unfold y. apply Hfe.
  - rewrite has_cont_cunion. intros Hb. apply orb_true_iff in Hb. destruct Hb as [Hb|Hb]; [|apply F2; exact Hb].
    destruct (cN cb); [|apply M2, F1; exact Hb].
    rewrite has_cont_cunion, has_cont_cset_N in Hb. apply orb_true_iff in Hb. destruct Hb as [Hb|Hb]; [apply M2, F1; exact Hb | apply F2, FS1; exact Hb].
  - cbn [cunion cT]. intros Hb. apply orb_true_iff in Hb. destruct Hb as [Hb|Hb]; [|apply T2; exact Hb].
    destruct (cN cb); [|apply M3, T1; exact Hb].
    cbn [cunion cset_N cT] in Hb. apply orb_true_iff in Hb. destruct Hb as [Hb|Hb]; [apply M3, T1; exact Hb | apply T2, FS2; exact Hb].
  - intros r0 [<-|Hin]; [exact N1 | apply N2; exact Hin].
  - cbn [all_forced forallb]. fold (all_forced rs). intros Hb. apply andb_true_iff in Hb. destruct Hb as [Hb1 Hb2].
    destruct (A1 Hb1) as [Z1 Z2]. destruct (A2 Hb2) as [Z3 Z4]. rewrite Z1. cbn [cunion cN cB0]. rewrite Z1, Z2, Z3, Z4. split; reflexivity.
  - apply flags_ok_app_l; apply flags_ok_app_r; [exact G1 | eapply flags_ok_disjoint; [exact Hk1 | exact D12] | eapply flags_ok_disjoint; [exact Hk2 | exact D21] | exact G2].
Qed.

Lemma switch_forcedG_forced rs a e :
  switch_forcedG rs (Some a) = Some e -> is_forced a = true -> (forall r, In r rs -> r <> None) ->
  is_forced e = true /\ all_forced rs = true.
Proof.
  revert a. induction rs as [|r rs IH]; intros a H Ha Hn; cbn [switch_forcedG] in H.
  - injection H as <-. split; [exact Ha | reflexivity].
  - destruct r as [cur|]; [|exfalso; apply (Hn None); [left; reflexivity | reflexivity]].
    destruct (merge_forced a cur) as [m|] eqn:Em.
    + destruct a; try discriminate. destruct cur; try discriminate. cbn [merge_forced] in Em. injection Em as <-.
      destruct (IH _ H eq_refl (fun r0 Hin => Hn r0 (or_intror Hin))) as [He Hall].
      split; [exact He|]. cbn [all_forced forallb oend_forced is_forced andb]. exact Hall.
    + exfalso. clear -H. induction rs as [|r rs IH]; cbn [switch_forcedG] in H; [discriminate | apply IH; exact H].
Qed.

Lemma switch_A p cs opc K : okAc opc K -> okA (visit_switchG p cs opc) K.
Proof.
  intros H x. unfold visit_switchG. destruct (H x) as [Hm [Hc Hk]]. destruct (opc x) as [[x1 rs] lg]. cbn [g_st g_lg c_st c_lg fst snd] in *.
  dsplit; [|exact Hc | exact Hk]. eapply mono_trans; [exact Hm|]. unfold switch_tail.
  match goal with |- mono _ (if ?b then _ else _) => destruct b end; [apply mono_mark | eapply mono_trans; [apply mono_mark | apply mono_set_end]].
Qed.

Lemma switch_B p cs opc ca R tt :
  okBc opc ca R -> (forall y, lv y -> tt = true -> s_mt (sc (c_st (opc y))) = true) ->
  okB (visit_switchG p cs opc)
      {| cN := cN ca || cB0 ca || negb (has_default cs); cR := cR ca; cT := cT ca || tt; cB0 := false; cC0 := cC0 ca;
         cBL := cBL ca; cCL := cCL ca |} R.
Proof.
  intros H Htt x Hl. unfold visit_switchG. destruct (H x Hl) as [E1 [F1 [T0 [N1 [A1 G1]]]]]. specialize (Htt x Hl).
  destruct (opc x) as [[x1 rs] lg]. cbn [g_st g_rs g_lg c_st c_rs c_lg fst snd] in *.
  assert (T1 : cT ca || tt = true -> s_mt (sc x1) = true).
  { intros Hb. apply orb_true_iff in Hb. destruct Hb as [Hb|Hb]; [apply T0; exact Hb | apply Htt; exact Hb]. }
  assert (Hl1 : live (s_end (sc x1)) = true) by (rewrite E1; exact Hl).
  set (e := switch_end (switch_forcedG rs (Some (Forced false false false))) (has_default cs)).
  assert (HF : is_forced e = true -> cN ca || cB0 ca || negb (has_default cs) = false).
  { unfold e, switch_end. destruct (switch_forcedG rs (Some (Forced false false false))) as [e0|] eqn:Es; [|discriminate].
    destruct (has_default cs); [|discriminate]. intros He.
    destruct (switch_forcedG_forced _ _ _ Es eq_refl N1) as [_ Hall]. destruct (A1 Hall) as [Z1 Z2]. rewrite Z1, Z2. reflexivity. }
  assert (Hdead : dead (Some e) = true -> is_forced e = true).
  { unfold e, switch_end. destruct (switch_forcedG rs (Some (Forced false false false))) as [e0|] eqn:Es; [|discriminate].
    destruct (has_default cs); [|discriminate].
    destruct (switch_forcedG_forced _ _ _ Es eq_refl N1) as [He _]. intros _. exact He. }
  rewrite (mark_val_live _ _ Hl1). dsplit.
  - unfold switch_tail. destruct (is_forced e) eqn:He.
    + split; [intros _; cbn [cN]; apply HF; reflexivity|]. rewrite fb_mark, fc_mark, mt_mark. dsplit; [discriminate | exact F1 | exact T1].
    + apply post_sc_live; [exact Hl | discriminate | | ]; cbn [set_end with_sc sc s_fc s_mt]; rewrite ?fc_mark, ?mt_mark; [exact F1 | exact T1].
  - intros Hd. cbn [cN]. apply HF, Hdead. exact Hd.
  - exact G1.
Qed.

(* ------------------------------------------------------------------ *)
(* try *)
Lemma tcm_sc tbe x :
  s_fb (sc (try_catch_merge tbe x)) = s_fb (sc x) /\ s_fc (sc (try_catch_merge tbe x)) = s_fc (sc x) /\
  s_mt (sc (try_catch_merge tbe x)) = s_mt (sc x).
Proof.
  unfold try_catch_merge. destruct (only_throw tbe); [dsplit; reflexivity|].
  destruct tbe as [a|]; destruct (s_end (sc x)) as [b|]; try (dsplit; reflexivity).
  - destruct a, b; cbn [is_forced andb merge_forced]; dsplit; reflexivity.
  - destruct b; cbn [is_forced]; dsplit; reflexivity.
Qed.

Lemma tcm_dead tbe x : dd (try_catch_merge tbe x) -> dead tbe = true /\ dd x.
Proof.
  unfold try_catch_merge, dd. destruct (only_throw tbe) eqn:Eo.
  - intros H. split; [|exact H]. destruct tbe as [[r t i| |]|]; try discriminate; reflexivity.
  - destruct tbe as [a|]; destruct (s_end (sc x)) as [b|] eqn:Eb.
    + destruct a, b; cbn [is_forced andb merge_forced set_end with_sc sc s_end set_panic]; rewrite ?Eb; cbn; intros H; try discriminate; split; reflexivity.
    + cbn. rewrite Eb. discriminate.
    + destruct b; cbn [is_forced set_end with_sc sc s_end]; rewrite ?Eb; cbn; discriminate.
    + rewrite Eb. cbn. discriminate.
Qed.

Lemma tfm_sc tce x :
  s_fb (sc (try_finally_merge tce x)) = s_fb (sc x) /\ s_fc (sc (try_finally_merge tce x)) = s_fc (sc x) /\
  s_mt (sc (try_finally_merge tce x)) = s_mt (sc x).
Proof.
  unfold try_finally_merge. destruct tce as [a|]; [|dsplit; reflexivity].
  destruct (s_end (sc x)) as [[r t i| |]|]; try (dsplit; reflexivity). destruct (is_forced a); dsplit; reflexivity.
Qed.

(* dead after the finalizer merge: either the try/catch part was dead, or the finalizer's own end is *)
Lemma tfm_dead tce x : dd (try_finally_merge tce x) -> dead tce = true \/ dd x.
Proof.
  unfold try_finally_merge, dd. destruct tce as [a|]; [|intros H; right; exact H].
  destruct (s_end (sc x)) as [[r t i| |]|] eqn:Eb.
  - rewrite Eb. intros H. right. exact H.
  - destruct (is_forced a) eqn:Ea; cbn [set_end with_sc sc s_end]; [intros _; left; apply is_forced_dead; exact Ea | rewrite Eb; intros H; right; exact H].
  - cbn [set_end with_sc sc s_end]. intros H. left. exact H.
  - cbn [set_end with_sc sc s_end]. intros H. left. exact H.
Qed.

Definition mono2 (x y : st) : Prop :=
  (s_fb (sc x) = Some None -> s_fb (sc y) = Some None) /\ (s_fc (sc x) = true -> s_fc (sc y) = true).
Lemma mono_mono2 x y : mono x y -> mono2 x y.
Proof. intros [A [B _]]. split; assumption. Qed.
Lemma mono2_trans x y z : mono2 x y -> mono2 y z -> mono2 x z.
Proof. intros [A1 A2] [B1 B2]. split; intros H; auto. Qed.
Lemma mono2_sc x y : s_fb (sc x) = s_fb (sc y) -> s_fc (sc x) = s_fc (sc y) -> mono2 x y.
Proof. intros E1 E2. unfold mono2. rewrite E1, E2. split; intros H; exact H. Qed.

Lemma handler_A cp hbp prev hb K x :
  okAl hb K ->
  mono2 x (fst (try_handlerG fx cp hbp prev hb x)) /\ cases_ok (snd (try_handlerG fx cp hbp prev hb x)) /\
  lkeys_in (snd (try_handlerG fx cp hbp prev hb x)) K.
Proof.
  intros H. unfold try_handlerG.
  set (xa := set_mt (if s_mt (sc x) then set_end x prev else x) false).
  destruct (with_child_A KCatch cp _ K (block_end_A hbp hb K H) xa) as [Hm [Hc Hk]].
  destruct (with_childG fx KCatch cp (fun a => block_endG hbp (hb a)) xa) as [[xb r] lg]. cbn [g_st g_lg fst snd] in *.
  dsplit; [|exact Hc | exact Hk].
  eapply (mono2_trans x xa); [apply mono2_sc; unfold xa; destruct (s_mt (sc x)); reflexivity|].
  eapply mono2_trans; [apply mono_mono2; exact Hm|].
  destruct (s_mt (sc x)); [destruct (tcm_sc (s_end (sc x)) xb) as [E1 [E2 _]]; apply mono2_sc; symmetry; assumption | apply mono2_sc; reflexivity].
Qed.

Lemma handler_B cp hbp prev hb hc Rh K bc x :
  live prev = true -> okBl hb hc Rh -> okAl hb K -> post_sc x bc ->
  post_sc (fst (try_handlerG fx cp hbp prev hb x)) (sem_catch (Some (cp, hbp)) bc hc) /\
  flags_ok (snd (try_handlerG fx cp hbp prev hb x)) (if cT bc then Rh else []).
Proof.
  intros Hp HB HA [P2 [P3 [P4 P5]]]. unfold try_handlerG, sem_catch.
  destruct (s_mt (sc x)) eqn:Emt.
  - (* the try block may throw *)
    set (xa := set_mt (set_end x prev) false).
    assert (Hla : lv xa) by exact Hp.
    pose proof (block_end_B hbp hb hc Rh HB (child_enter KCatch xa) (lv_child_enter KCatch _ Hla)) as HC.
    unfold with_childG. destruct (block_endG hbp (hb (child_enter KCatch xa))) as [[c' r] lg] eqn:Ec.
    cbn [g_st g_rs g_lg fst snd] in *. destruct HC as [[Q2 [Q3 [Q4 Q5]]] [_ Qf]].
    set (xb := child_exit fx KCatch cp xa c').
    destruct (tcm_sc (s_end (sc x)) xb) as [E1 [E2 E3]].
    assert (Hdd : dd xb -> dd c').
    { unfold dd, xb. rewrite end_child_exit_catch. destruct (s_end (sc c')) as [e|]; [rewrite (mark_end_live _ _ Hp); intros H; exact H|].
      intros H. exfalso. cbn in Hp. change (s_end (sc xa)) with prev in H. rewrite live_not_dead, H in Hp. discriminate. }
    split.
    + split; [|dsplit].
      * intros Hd. apply tcm_dead in Hd. destruct Hd as [Hd1 Hd2].
        assert (Z1 : cN bc = false) by (apply P2; exact Hd1). assert (Z2 : cN hc = false) by (apply Q2, Hdd; exact Hd2).
        destruct (cT bc); [cbn [cunion cset_T cN]; rewrite Z1, Z2; reflexivity | exact Z1].
      * rewrite E1. intros Hb. unfold xb.
        assert (Hb' : cB0 bc = true \/ cB0 hc = true).
        { destruct (cT bc); [cbn [cunion cset_T cB0] in Hb; apply orb_true_iff in Hb; exact Hb | left; exact Hb]. }
        destruct Hb' as [Hb'|Hb']; [apply fb_child_exit_mono; apply P3; exact Hb' | apply fb_child_exit_child; [reflexivity | apply Q3; exact Hb']].
      * rewrite E2. intros Hb. unfold xb. rewrite fc_child_exit.
        assert (Hb' : has_cont bc = true \/ has_cont hc = true).
        { destruct (cT bc); [rewrite has_cont_cunion, has_cont_cset_T in Hb; apply orb_true_iff in Hb; exact Hb | left; exact Hb]. }
        destruct Hb' as [Hb'|Hb']; [change (s_fc (sc xa)) with (s_fc (sc x)); rewrite (P4 Hb'); reflexivity | rewrite (Q4 Hb'); apply orb_true_r].
      * rewrite E3. intros Hb. unfold xb. rewrite mt_child_exit.
        destruct (cT bc) eqn:Et; [|congruence]. cbn [cunion cset_T cT orb] in Hb. rewrite (Q5 Hb). apply orb_true_r.
    + destruct (cT bc); [exact Qf | apply flags_ok_nil'].
  - (* the analysis says the try block cannot throw: by P5 it cannot *)
    assert (Et : cT bc = false) by (destruct (cT bc) eqn:Et; [pose proof (P5 eq_refl) as Hq; congruence | reflexivity]).
    rewrite Et. set (xa := set_mt x false).
    destruct (with_child_A KCatch cp _ K (block_end_A hbp hb K HA) xa) as [[M1 [M2 _]] _].
    destruct (with_childG fx KCatch cp (fun a => block_endG hbp (hb a)) xa) as [[xb r] lg]. cbn [g_st g_lg fst snd] in *.
    split; [|apply flags_ok_nil'].
    split; [intros Hd; apply P2; exact Hd | dsplit].
    + intros Hb. cbn [set_end with_sc sc s_fb]. apply M1. apply P3. exact Hb.
    + intros Hb. cbn [set_end with_sc sc s_fc]. apply M2. apply P4. exact Hb.
    + intros Hb. change (cT bc = true) in Hb. congruence.
Qed.

Lemma finalizer_A fp prev fb K x :
  okAl fb K ->
  mono x (fst (try_finalizerG fx fp prev fb x)) /\ cases_ok (snd (try_finalizerG fx fp prev fb x)) /\
  lkeys_in (snd (try_finalizerG fx fp prev fb x)) K.
Proof.
  intros H. unfold try_finalizerG.
  destruct (with_child_A KFinally fp _ K (block_end_A fp fb K H) (set_end x prev)) as [Hm [Hc Hk]].
  destruct (with_childG fx KFinally fp (fun a => block_endG fp (fb a)) (set_end x prev)) as [[xb r] lg]. cbn [g_st g_lg fst snd] in *.
  dsplit; [|exact Hc | exact Hk].
  eapply mono_trans; [apply (mono_set_end x prev)|]. eapply mono_trans; [exact Hm|].
  destruct (tfm_sc (s_end (sc x)) xb) as [E1 [E2 E3]]. unfold mono. rewrite E1, E2, E3. dsplit; intros Hx; exact Hx.
Qed.

Lemma finalizer_B fp prev fb fc Rf tc x :
  live prev = true -> okBl fb fc Rf -> post_sc x tc ->
  post_sc (fst (try_finalizerG fx fp prev fb x)) (sem_fin (Some fp) tc fc) /\
  flags_ok (snd (try_finalizerG fx fp prev fb x)) (if cnonempty tc then Rf else []).
Proof.
  intros Hp HB [P2 [P3 [P4 P5]]]. unfold try_finalizerG, sem_fin.
  set (xa := set_end x prev). assert (Hla : lv xa) by exact Hp.
  pose proof (block_end_B fp fb fc Rf HB (child_enter KFinally xa) (lv_child_enter KFinally _ Hla)) as HC.
  unfold with_childG. destruct (block_endG fp (fb (child_enter KFinally xa))) as [[c' r] lg] eqn:Ec.
  cbn [g_st g_rs g_lg fst snd] in *. destruct HC as [[Q2 [Q3 [Q4 Q5]]] [_ Qf]].
  set (xb := child_exit fx KFinally fp xa c').
  destruct (tfm_sc (s_end (sc x)) xb) as [E1 [E2 E3]].
  assert (Hdd : dd xb -> dd c').
  { unfold dd, xb. rewrite end_child_exit_finally. destruct (s_end (sc c')) as [e|]; [rewrite (mark_end_live _ _ Hp); intros H; exact H|].
    intros H. exfalso. change (s_end (sc xa)) with prev in H. rewrite live_not_dead, H in Hp. discriminate. }
  split; [|destruct (cnonempty tc); [exact Qf | apply flags_ok_nil']].
  destruct (cnonempty tc); [|split; [reflexivity | dsplit; discriminate]].
  split; [|dsplit].
  - intros Hd. cbn [cunion cset_N cN]. rewrite orb_false_r. apply tfm_dead in Hd. destruct Hd as [Hd|Hd].
    + destruct (cN fc); [exact (P2 Hd) | reflexivity].
    + rewrite (Q2 (Hdd Hd)). reflexivity.
  - rewrite E1. cbn [cunion cset_N cB0]. intros Hb. apply orb_true_iff in Hb. unfold xb. destruct Hb as [Hb|Hb].
    + apply fb_child_exit_mono. apply P3. destruct (cN fc); [exact Hb | discriminate].
    + apply fb_child_exit_child; [reflexivity | apply Q3; exact Hb].
  - rewrite E2. rewrite has_cont_cunion, has_cont_cset_N. intros Hb. apply orb_true_iff in Hb. unfold xb. rewrite fc_child_exit. destruct Hb as [Hb|Hb].
    + change (s_fc (sc xa)) with (s_fc (sc x)). rewrite P4; [reflexivity|]. destruct (cN fc); [exact Hb | discriminate].
    + rewrite (Q4 Hb). apply orb_true_r.
  - rewrite E3. cbn [cunion cset_N cT]. intros Hb. apply orb_true_iff in Hb. unfold xb. rewrite mt_child_exit. destruct Hb as [Hb|Hb].
    + change (s_mt (sc xa)) with (s_mt (sc x)). rewrite P5; [reflexivity|]. destruct (cN fc); [exact Hb | discriminate].
    + rewrite (Q5 Hb). apply orb_true_r.
Qed.

Lemma mark_end_same e : mark_end (Some e) e = Some e.
Proof. destruct e; reflexivity. Qed.

Lemma try_finish_B p old x c :
  post_sc x c ->
  post_sc (try_finish p old x) c /\
  (dead (match s_end (sc x) with Some e => mark_val (s_end (sc x)) e | None => None end) = true -> cN c = false).
Proof.
  intros [P2 [P3 [P4 P5]]]. unfold try_finish.
  assert (Hend : s_end (sc (match s_end (sc x) with Some e => mark_as_end p e x | None => x end)) = s_end (sc x)).
  { destruct (s_end (sc x)) as [e|] eqn:E; [rewrite end_mark, E; apply mark_end_same | exact E]. }
  split.
  - split; [|dsplit].
    + intros Hd. apply P2. unfold dd in *. cbn [set_mt with_sc sc s_end] in Hd. rewrite Hend in Hd. exact Hd.
    + intros Hb. cbn [set_mt with_sc sc s_fb]. destruct (s_end (sc x)); [rewrite fb_mark|]; apply P3; exact Hb.
    + intros Hb. cbn [set_mt with_sc sc s_fc]. destruct (s_end (sc x)); [rewrite fc_mark|]; apply P4; exact Hb.
    + intros Hb. cbn [set_mt with_sc sc s_mt]. destruct (s_end (sc x)); [rewrite mt_mark|]; rewrite (P5 Hb); reflexivity.
  - intros Hd. apply P2. unfold dd. destruct (s_end (sc x)) as [[r t i| |]|]; cbn in Hd |- *; congruence.
Qed.

Definition try_reach_h (h : option (N * N)) (bc : comps) (Rh : list N) : list N :=
  match h with Some _ => if cT bc then Rh else [] | None => [] end.
Definition try_reach_f (f : option N) (tc : comps) (Rf : list N) : list N :=
  match f with Some _ => if cnonempty tc then Rf else [] | None => [] end.

Lemma try_A p bp blk h hb f fb Kb Kh Kf :
  okAl blk Kb -> okAl hb Kh -> okAl fb Kf -> okA (visit_tryG fx p bp blk h hb f fb) (Kb ++ Kh ++ Kf).
Proof.
  intros Hb Hh Hf x. unfold visit_tryG.
  destruct (block_end_A bp blk Kb Hb (set_mt x false)) as [Hm1 [Hc1 Hk1]].
  destruct (block_endG bp (blk (set_mt x false))) as [[x1 r1] lg1]. cbn [g_st g_lg fst snd] in *.
  assert (H2 : exists x2 lg2, (match h with Some (cp, hbp) => try_handlerG fx cp hbp (s_end (sc x)) hb x1 | None => (x1, []) end) = (x2, lg2)
            /\ mono2 x1 x2 /\ cases_ok lg2 /\ lkeys_in lg2 Kh).
  { destruct h as [[cp hbp]|].
    - destruct (handler_A cp hbp (s_end (sc x)) hb Kh x1 Hh) as [M [C K]].
      destruct (try_handlerG fx cp hbp (s_end (sc x)) hb x1) as [x2 lg2]. exists x2, lg2. dsplit; [reflexivity | exact M | exact C | exact K].
    - exists x1, []. dsplit; [reflexivity | apply mono2_sc; reflexivity | apply cases_ok_nil | apply lkeys_in_nil]. }
  destruct H2 as [x2 [lg2 [E2 [Hm2 [Hc2 Hk2]]]]]. rewrite E2.
  assert (H3 : exists x3 lg3, (match f with Some fp => try_finalizerG fx fp (s_end (sc x)) fb x2 | None => (x2, []) end) = (x3, lg3)
            /\ mono x2 x3 /\ cases_ok lg3 /\ lkeys_in lg3 Kf).
  { destruct f as [fp|].
    - destruct (finalizer_A fp (s_end (sc x)) fb Kf x2 Hf) as [M [C K]].
      destruct (try_finalizerG fx fp (s_end (sc x)) fb x2) as [x3 lg3]. exists x3, lg3. dsplit; [reflexivity | exact M | exact C | exact K].
    - exists x2, []. dsplit; [reflexivity | apply mono_refl | apply cases_ok_nil | apply lkeys_in_nil]. }
  destruct H3 as [x3 [lg3 [E3 [Hm3 [Hc3 Hk3]]]]]. rewrite E3. cbn [g_st g_lg fst snd].
  dsplit.
  - assert (M2 : mono2 x x3).
    { eapply mono2_trans; [|apply mono_mono2; exact Hm3]. eapply mono2_trans; [|exact Hm2].
      eapply (mono2_trans x (set_mt x false)); [apply mono2_sc; reflexivity | apply mono_mono2; exact Hm1]. }
    destruct M2 as [M2a M2b]. unfold try_finish. unfold mono. cbn [set_mt with_sc sc s_fb s_fc s_mt]. dsplit.
    + intros Hx. destruct (s_end (sc x3)); [rewrite fb_mark|]; apply M2a; exact Hx.
    + intros Hx. destruct (s_end (sc x3)); [rewrite fc_mark|]; apply M2b; exact Hx.
    + intros Hx. rewrite Hx. apply orb_true_r.
  - apply cases_ok_app; [exact Hc1 | apply cases_ok_app; assumption].
  - apply lkeys_in_app; [eapply lkeys_in_weak; [exact Hk1 | apply incl_appl, incl_refl]|].
    apply lkeys_in_app; [eapply lkeys_in_weak; [exact Hk2 | apply incl_appr, incl_appl, incl_refl] | eapply lkeys_in_weak; [exact Hk3 | apply incl_appr, incl_appr, incl_refl]].
Qed.

Lemma try_B p bp blk h hb f fb bc hc fc Rb Rh Rf Kb Kh Kf :
  okBl blk bc Rb -> okBl hb hc Rh -> okBl fb fc Rf -> okAl blk Kb -> okAl hb Kh -> okAl fb Kf ->
  (forall k, In k Kb -> ~ In k Rh /\ ~ In k Rf) -> (forall k, In k Kh -> ~ In k Rb /\ ~ In k Rf) ->
  (forall k, In k Kf -> ~ In k Rb /\ ~ In k Rh) ->
  okB (visit_tryG fx p bp blk h hb f fb) (sem_fin f (sem_catch h bc hc) fc)
      (Rb ++ try_reach_h h bc Rh ++ try_reach_f f (sem_catch h bc hc) Rf).
Proof.
  intros Bb Bh Bf Ab Ah Af Db Dh Df x Hl. unfold visit_tryG.
  assert (Hl0 : lv (set_mt x false)) by exact Hl.
  destruct (block_end_B bp blk bc Rb Bb (set_mt x false) Hl0) as [Q1 [_ G1]].
  destruct (block_end_A bp blk Kb Ab (set_mt x false)) as [_ [_ Hk1]].
  destruct (block_endG bp (blk (set_mt x false))) as [[x1 r1] lg1]. cbn [g_st g_rs g_lg fst snd] in *.
  assert (H2 : exists x2 lg2, (match h with Some (cp, hbp) => try_handlerG fx cp hbp (s_end (sc x)) hb x1 | None => (x1, []) end) = (x2, lg2)
            /\ post_sc x2 (sem_catch h bc hc) /\ flags_ok lg2 (try_reach_h h bc Rh) /\ lkeys_in lg2 Kh).
  { destruct h as [[cp hbp]|].
    - destruct (handler_B cp hbp (s_end (sc x)) hb hc Rh Kh bc x1 Hl Bh Ah Q1) as [Q G].
      destruct (handler_A cp hbp (s_end (sc x)) hb Kh x1 Ah) as [_ [_ K]].
      destruct (try_handlerG fx cp hbp (s_end (sc x)) hb x1) as [x2 lg2]. exists x2, lg2. dsplit; [reflexivity | exact Q | exact G | exact K].
    - exists x1, []. dsplit; [reflexivity | exact Q1 | apply flags_ok_nil | apply lkeys_in_nil]. }
  destruct H2 as [x2 [lg2 [E2 [Q2 [G2 Hk2]]]]]. rewrite E2.
  assert (H3 : exists x3 lg3, (match f with Some fp => try_finalizerG fx fp (s_end (sc x)) fb x2 | None => (x2, []) end) = (x3, lg3)
            /\ post_sc x3 (sem_fin f (sem_catch h bc hc) fc) /\ flags_ok lg3 (try_reach_f f (sem_catch h bc hc) Rf) /\ lkeys_in lg3 Kf).
  { destruct f as [fp|].
    - destruct (finalizer_B fp (s_end (sc x)) fb fc Rf (sem_catch h bc hc) x2 Hl Bf Q2) as [Q G].
      destruct (finalizer_A fp (s_end (sc x)) fb Kf x2 Af) as [_ [_ K]].
      destruct (try_finalizerG fx fp (s_end (sc x)) fb x2) as [x3 lg3]. exists x3, lg3. dsplit; [reflexivity | exact Q | exact G | exact K].
    - exists x2, []. dsplit; [reflexivity | exact Q2 | apply flags_ok_nil | apply lkeys_in_nil]. }
  destruct H3 as [x3 [lg3 [E3 [Q3 [G3 Hk3]]]]]. rewrite E3. cbn [g_st g_rs g_lg fst snd].
  destruct (try_finish_B p (s_mt (sc x)) x3 _ Q3) as [QF RF].
  dsplit; [exact QF | exact RF|].
  assert (Sh : forall k, In k (try_reach_h h bc Rh) -> In k Rh).
  { unfold try_reach_h. destruct h; [destruct (cT bc)|]; intros k Hin; [exact Hin | destruct Hin | destruct Hin]. }
  assert (Sf : forall k, In k (try_reach_f f (sem_catch h bc hc) Rf) -> In k Rf).
  { unfold try_reach_f. destruct f; [destruct (cnonempty _)|]; intros k Hin; [exact Hin | destruct Hin | destruct Hin]. }
  apply flags_ok_app_l; [|apply flags_ok_app_l].
  - apply flags_ok_app_r; [exact G1 | apply flags_ok_app_r].
    + eapply flags_ok_disjoint; [exact Hk1 | intros k Hk Hr; apply (proj1 (Db k Hk)), Sh, Hr].
    + eapply flags_ok_disjoint; [exact Hk1 | intros k Hk Hr; apply (proj2 (Db k Hk)), Sf, Hr].
  - apply flags_ok_app_r; [|apply flags_ok_app_r].
    + eapply flags_ok_disjoint; [exact Hk2 | intros k Hk Hr; exact (proj1 (Dh k Hk) Hr)].
    + exact G2.
    + eapply flags_ok_disjoint; [exact Hk2 | intros k Hk Hr; apply (proj2 (Dh k Hk)), Sf, Hr].
  - apply flags_ok_app_r; [|apply flags_ok_app_r].
    + eapply flags_ok_disjoint; [exact Hk3 | intros k Hk Hr; exact (proj1 (Df k Hk) Hr)].
    + eapply flags_ok_disjoint; [exact Hk3 | intros k Hk Hr; apply (proj2 (Df k Hk)), Sh, Hr].
    + exact G3.
Qed.

(* ------------------------------------------------------------------ *)
(* the induction *)
Lemma reach_keys_l : (forall l k, In k (reach_l l) -> In k (keys_l l)) /\ True.
Proof. split; [apply reach_keys | exact I]. Qed.

(* the test of a case is visited in the scope of the switch, before the case's child scope *)
Lemma end_visit_test t y : s_end (sc (visit_test t y)) = s_end (sc y).
Proof. destruct t; [apply end_visit_e | reflexivity]. Qed.
Lemma mono_visit_test t y : mono y (visit_test t y).
Proof. destruct t; [apply mono_visit_e | apply mono_refl]. Qed.
Lemma okA_pre g K (f : st -> st) : okA g K -> (forall y, mono y (f y)) -> okA (fun y => g (f y)) K.
Proof. intros H Hf y. destruct (H (f y)) as [A [B C]]. dsplit; [eapply mono_trans; [apply Hf | exact A] | exact B | exact C]. Qed.

Lemma end_visit_caseG cp b g y : s_end (sc (g_st (visit_caseG fx cp b g y))) = s_end (sc y).
Proof. unfold visit_caseG. destruct (g (child_enter KCase y)) as [[c tops] lg]. reflexivity. Qed.
Lemma mono_visit_caseG cp b g y : mono y (g_st (visit_caseG fx cp b g y)).
Proof.
  unfold visit_caseG. destruct (g (child_enter KCase y)) as [[c tops] lg]. cbn [g_st fst].
  eapply mono_trans; [apply (mono_child_exit KCase cp y c)|]. eapply mono_trans; [apply mono_mark | apply mono_set_end].
Qed.

Lemma anG_cases_step cp t ft b r y :
  anG_cases fx (CCons cp t ft b r) y = consC (fun y => visit_caseG fx cp b (anG_list fx b) (visit_test t y)) (anG_cases fx r) y.
Proof. reflexivity. Qed.

Lemma mono_cases cs : forall y, mono y (c_st (anG_cases fx cs y)).
Proof.
  induction cs as [|cp t ft b r IH]; intros y; [apply mono_refl|]. rewrite anG_cases_step. unfold consC.
  pose proof (mono_visit_caseG cp b (anG_list fx b) (visit_test t y)) as M1.
  destruct (visit_caseG fx cp b (anG_list fx b) (visit_test t y)) as [[y1 r1] lg1]. cbn [g_st fst] in M1.
  specialize (IH y1). destruct (anG_cases fx r y1) as [[y2 rs] lg2]. cbn [c_st fst] in *.
  eapply mono_trans; [apply mono_visit_test|]. eapply mono_trans; eassumption.
Qed.

(* a case test that is a call is recorded in may_throw (P5 for the tests) *)
Lemma tests_mt cs : forall y, lv y -> tests_throw cs = true -> s_mt (sc (c_st (anG_cases fx cs y))) = true.
Proof.
  induction cs as [|cp t ft b r IH]; intros y Hl Ht; [discriminate|]. rewrite anG_cases_step. unfold consC.
  pose proof (mono_visit_caseG cp b (anG_list fx b) (visit_test t y)) as M1.
  pose proof (end_visit_caseG cp b (anG_list fx b) (visit_test t y)) as E1.
  destruct (visit_caseG fx cp b (anG_list fx b) (visit_test t y)) as [[y1 r1] lg1]. cbn [g_st fst] in M1, E1.
  pose proof (mono_cases r y1) as M2. specialize (IH y1).
  destruct (anG_cases fx r y1) as [[y2 rs] lg2]. cbn [c_st fst] in *.
  cbn [tests_throw] in Ht. apply orb_true_iff in Ht. destruct Ht as [Ht|Ht].
  - destruct t as [e|]; [|discriminate]. apply M2, M1. cbn [visit_test]. apply mt_visit_e_throws; [exact Hl | exact Ht].
  - apply IH; [|exact Ht]. unfold lv. rewrite E1, end_visit_test. exact Hl.
Qed.

Lemma okA_ext op op' K : (forall x, op x = op' x) -> okA op' K -> okA op K.
Proof. intros E H x. rewrite E. apply H. Qed.
Lemma okB_ext op op' c R : (forall x, op x = op' x) -> okB op' c R -> okB op c R.
Proof. intros E H x. rewrite E. apply H. Qed.
Lemma okAl_ext op op' K : (forall x, op x = op' x) -> okAl op' K -> okAl op K.
Proof. intros E H x. rewrite E. apply H. Qed.
Lemma okBl_ext op op' c R : (forall x, op x = op' x) -> okBl op' c R -> okBl op c R.
Proof. intros E H x. rewrite E. apply H. Qed.
Lemma okAc_ext op op' K : (forall x, op x = op' x) -> okAc op' K -> okAc op K.
Proof. intros E H x. rewrite E. apply H. Qed.
Lemma okBc_ext op op' c R : (forall x, op x = op' x) -> okBc op' c R -> okBc op c R.
Proof. intros E H x. rewrite E. apply H. Qed.
Lemma okA_weak op K K' : okA op K -> incl K K' -> okA op K'.
Proof. intros H Hi x. destruct (H x) as [A [B C]]. dsplit; [exact A | exact B | eapply lkeys_in_weak; eassumption]. Qed.

Lemma brk_cont_cN s ls : is_brk_or_cont s = true -> cN (csem s ls) = false.
Proof. destruct s; try discriminate; intros _; destruct l; reflexivity. Qed.

Lemma pos_in_keys s : In (pos s) (keys s).
Proof. destruct s; cbn [pos keys]; left; reflexivity. Qed.

Definition inv_s (s : stmt) : Prop :=
  NoDup (keys s) -> okA (anG fx s) (keys s) /\ forall ls, okB (anG fx s) (csem s ls) (reach s).
Definition inv_l (l : stmts) : Prop :=
  NoDup (keys_l l) -> okAl (anG_list fx l) (keys_l l) /\ okBl (anG_list fx l) (csem_l l) (reach_l l).
Definition inv_c (cs : cases) : Prop :=
  NoDup (keys_c cs) -> okAc (anG_cases fx cs) (keys_c cs) /\ okBc (anG_cases fx cs) (snd (csem_c cs)) (reach_c cs).

(* hoisting: whatever the entry state, the statements logged as "visited dead" lie outside the bodies of the function
   declarations that are directly in the list (these bodies are analysed in a fresh scope) *)
Definition hoistS (s : stmt) : Prop := NoDup (keys s) -> forall x, flags_ok (g_lg (anG fx s x)) (hoist_s s).
Definition hoistL (l : stmts) : Prop := NoDup (keys_l l) -> forall y, flags_ok (l_lg (anG_list fx l y)) (hoist_l l).
Definition inv_s' (s : stmt) : Prop := inv_s s /\ hoistS s.
Definition inv_l' (l : stmts) : Prop := inv_l l /\ hoistL l.

Lemma hoistS_nil s : hoist_s s = [] -> hoistS s.
Proof. intros E _ x. rewrite E. apply flags_ok_nil'. Qed.

(* closures `fun a => orbG s (anG s a)` *)
Lemma orb_inv s : inv_s s -> NoDup (keys s) ->
  okA (fun a => orbG s (anG fx s a)) (keys s) /\ forall ls, okB (fun a => orbG s (anG fx s a)) (csem s ls) (reach s).
Proof.
  intros H Hn. destruct (H Hn) as [A B]. split; [apply orb_A; exact A|].
  intros ls. apply orb_B; [apply B | apply brk_cont_cN].
Qed.

Ltac leaf_case V HB :=
  split; [eapply okA_ext; [intros x; reflexivity|]; eapply (wrap_A _ V []); [|apply incl_nil_l | left; reflexivity]
         | intros ls; eapply okB_ext; [intros x; reflexivity|]; eapply (wrap_B _ V []); [exact HB | | intros k []]].

Lemma okAc_weak op K K' : okAc op K -> incl K K' -> okAc op K'.
Proof. intros H Hi x. destruct (H x) as [A [B C]]. dsplit; [exact A | exact B | eapply lkeys_in_weak; eassumption]. Qed.

Definition try_Kh (h : option (N * N)) (hb : stmts) : list N := match h with Some _ => keys_l hb | None => [] end.
Definition try_Kf (f : option N) (fb : stmts) : list N := match f with Some _ => keys_l fb | None => [] end.

Lemma try_keys_facts p bp blk h hb f fb :
  NoDup (keys (STry p bp blk h hb f fb)) ->
  NoDup (keys_l blk) /\ NoDup (try_Kh h hb) /\ NoDup (try_Kf f fb) /\
  (forall k, In k (keys_l blk ++ try_Kh h hb ++ try_Kf f fb) -> k <> p /\ In k (keys (STry p bp blk h hb f fb))) /\
  (forall k, In k (keys_l blk) -> ~ In k (try_Kh h hb) /\ ~ In k (try_Kf f fb)) /\
  (forall k, In k (try_Kh h hb) -> ~ In k (try_Kf f fb)).
Proof.
  cbn [keys]. intros Hn. apply NoDup_cons_inv in Hn. destruct Hn as [Hp Hn]. apply NoDup_cons_inv in Hn. destruct Hn as [Hbp Hn].
  apply NoDup_app_inv in Hn. destruct Hn as [Hnb [Hn D1]]. apply NoDup_app_inv in Hn. destruct Hn as [Hnh [Hnf D2]].
  assert (Ih : incl (try_Kh h hb) (match h with Some (cp, hbp) => cp :: hbp :: keys_l hb | None => [] end)).
  { destruct h as [[cp hbp]|]; [apply incl_tl, incl_tl, incl_refl | apply incl_refl]. }
  assert (If : incl (try_Kf f fb) (match f with Some fp => fp :: keys_l fb | None => [] end)).
  { destruct f as [fp|]; [apply incl_tl, incl_refl | apply incl_refl]. }
  dsplit.
  - exact Hnb.
  - destruct h as [[cp hbp]|]; [|constructor]. apply NoDup_cons_inv in Hnh. destruct Hnh as [_ Hnh]. apply NoDup_cons_inv in Hnh. apply Hnh.
  - destruct f as [fp|]; [|constructor]. apply NoDup_cons_inv in Hnf. apply Hnf.
  - intros k Hk.
    assert (Hin : In k (keys_l blk ++ (match h with Some (cp, hbp) => cp :: hbp :: keys_l hb | None => [] end) ++ (match f with Some fp => fp :: keys_l fb | None => [] end))).
    { apply in_app_or in Hk. apply in_or_app. destruct Hk as [Hk|Hk]; [left; exact Hk | right].
      apply in_app_or in Hk. apply in_or_app. destruct Hk as [Hk|Hk]; [left; apply Ih; exact Hk | right; apply If; exact Hk]. }
    split; [intros E; apply Hp; right; rewrite <- E; exact Hin | right; right; exact Hin].
  - intros k Hk. split; intros Hk'; apply (D1 k Hk); apply in_or_app; [left; apply Ih; exact Hk' | right; apply If; exact Hk'].
  - intros k Hk Hk'. apply (D2 k); [apply Ih; exact Hk | apply If; exact Hk'].
Qed.

Lemma try_inv p bp blk h hb f fb :
  inv_l blk -> (h <> None -> inv_l hb) -> (f <> None -> inv_l fb) -> inv_s (STry p bp blk h hb f fb).
Proof.
  intros IHb IHh IHf Hn. destruct (try_keys_facts _ _ _ _ _ _ _ Hn) as [Nb [Nh [Nf [Hsub [Dbh Dhf]]]]].
  destruct (IHb Nb) as [Ab Bb].
  (* handler / finalizer closures: the real ones when present, trivial ones otherwise *)
  assert (Hh : exists hop, okAl hop (try_Kh h hb) /\ okBl hop (match h with Some _ => csem_l hb | None => only_N end) (match h with Some _ => reach_l hb | None => [] end)
               /\ (forall g x, visit_tryG fx p bp (anG_list fx blk) h (anG_list fx hb) f g x = visit_tryG fx p bp (anG_list fx blk) h hop f g x)).
  { destruct h as [[cp hbp]|].
    - destruct (IHh ltac:(discriminate) Nh) as [A B]. exists (anG_list fx hb). dsplit; [exact A | exact B | reflexivity].
    - exists (fun y => (y, [], [])). dsplit; [exact nil_A | exact nil_B | reflexivity]. }
  destruct Hh as [hop [Ah [Bh Eh]]].
  assert (Hf : exists fop, okAl fop (try_Kf f fb) /\ okBl fop (match f with Some _ => csem_l fb | None => only_N end) (match f with Some _ => reach_l fb | None => [] end)
               /\ (forall x, visit_tryG fx p bp (anG_list fx blk) h hop f (anG_list fx fb) x = visit_tryG fx p bp (anG_list fx blk) h hop f fop x)).
  { destruct f as [fp|].
    - destruct (IHf ltac:(discriminate) Nf) as [A B]. exists (anG_list fx fb). dsplit; [exact A | exact B | reflexivity].
    - exists (fun y => (y, [], [])). dsplit; [exact nil_A | exact nil_B | reflexivity]. }
  destruct Hf as [fop [Af [Bf Ef]]].
  assert (Rh_in : forall k, In k (match h with Some _ => reach_l hb | None => [] end) -> In k (try_Kh h hb)).
  { destruct h; [intros k Hk; apply reach_keys; exact Hk | intros k []]. }
  assert (Rf_in : forall k, In k (match f with Some _ => reach_l fb | None => [] end) -> In k (try_Kf f fb)).
  { destruct f; [intros k Hk; apply reach_keys; exact Hk | intros k []]. }
  assert (HA : okA (visit_tryG fx p bp (anG_list fx blk) h hop f fop) (keys_l blk ++ try_Kh h hb ++ try_Kf f fb)).
  { apply try_A; assumption. }
  split.
  - eapply okA_ext; [intros x; cbn [anG]; unfold gcons; rewrite Eh, Ef; reflexivity|].
    eapply (wrap_A (STry p bp blk h hb f fb) _ _ _ HA); [intros k Hk; apply (Hsub k Hk) | left; reflexivity].
  - intros ls. eapply okB_ext; [intros x; cbn [anG]; unfold gcons; rewrite Eh, Ef; reflexivity|].
    assert (HB := try_B p bp (anG_list fx blk) h hop f fop _ _ _ _ _ _ _ _ _ Bb Bh Bf Ab Ah Af).
    assert (HB' : okB (visit_tryG fx p bp (anG_list fx blk) h hop f fop) (csem (STry p bp blk h hb f fb) ls)
                      (reach_l blk ++ (match h with Some _ => if cT (csem_l blk) then reach_l hb else [] | None => [] end)
                       ++ (match f with Some _ => if cnonempty (sem_catch h (csem_l blk) (csem_l hb)) then reach_l fb else [] | None => [] end))).
    { assert (E1 : csem (STry p bp blk h hb f fb) ls =
                   sem_fin f (sem_catch h (csem_l blk) (match h with Some _ => csem_l hb | None => only_N end)) (match f with Some _ => csem_l fb | None => only_N end)).
      { cbn [csem]. destruct h, f; reflexivity. }
      rewrite E1.
      assert (E2 : (match h with Some _ => if cT (csem_l blk) then reach_l hb else [] | None => [] end) =
                   try_reach_h h (csem_l blk) (match h with Some _ => reach_l hb | None => [] end)) by (destruct h; reflexivity).
      assert (E3 : (match f with Some _ => if cnonempty (sem_catch h (csem_l blk) (csem_l hb)) then reach_l fb else [] | None => [] end) =
                   try_reach_f f (sem_catch h (csem_l blk) (match h with Some _ => csem_l hb | None => only_N end)) (match f with Some _ => reach_l fb | None => [] end)).
      { destruct h, f; reflexivity. }
      rewrite E2, E3. apply HB.
      - intros k Hk. destruct (Dbh k Hk) as [D1 D2]. split; intros Hr; [apply D1, Rh_in, Hr | apply D2, Rf_in, Hr].
      - intros k Hk. split; intros Hr; [apply (proj1 (Dbh k (proj1 reach_keys_l _ _ Hr))); exact Hk | apply (Dhf k Hk), Rf_in, Hr].
      - intros k Hk. split; intros Hr; [apply (proj2 (Dbh k (proj1 reach_keys_l _ _ Hr))); exact Hk | apply (Dhf k (Rh_in k Hr)); exact Hk]. }
    assert (HW := wrap_B (STry p bp blk h hb f fb) _ _ _ _ HB' HA (fun k Hk => proj1 (Hsub k Hk))).
    exact HW.
Qed.

Theorem anG_inv' : (forall s, inv_s' s) /\ (forall l, inv_l' l) /\ (forall cs, inv_c cs).
Proof.
  apply stmt_mutind.
  - (* SExpr *) intros p e. split.
    { intros Hn. 
    leaf_case (fun x => (visit_e e x, @None End, @nil gent)) (expr_B e); apply leaf_A; intros x; apply mono_visit_e. }
    { apply hoistS_nil. reflexivity. }
  - (* SEmpty *) intros p. split.
    { intros Hn. 
    leaf_case (fun x : st => (x, @None End, @nil gent)) empty_B; apply leaf_A; intros x; apply mono_refl. }
    { apply hoistS_nil. reflexivity. }
  - (* SVar *) intros p v i. split.
    { intros Hn. 
    leaf_case (fun x => (match i with Some e => visit_e e x | None => x end, @None End, @nil gent)) (var_B i);
      apply leaf_A; intros x; (destruct i; [apply mono_visit_e | apply mono_refl]). }
    { apply hoistS_nil. reflexivity. }
  - (* SFnDecl *) intros p n pb b [IHb HIHb]. split.
    { intros Hn. cbn [keys] in Hn.
    apply NoDup_cons_inv in Hn. destruct Hn as [Hp Hn]. apply NoDup_cons_inv in Hn. destruct Hn as [Hpb Hn].
    destruct (IHb Hn) as [Ab Bb].
    split.
    + eapply okA_ext; [intros x; reflexivity|]. eapply (wrap_A _ (fn_likeG fx p pb (anG_list fx b)) (keys_l b)).
      * apply fn_A. exact Ab.
      * cbn [keys]. apply incl_tl, incl_tl, incl_refl.
      * left. reflexivity.
    + intros ls. eapply okB_ext; [intros x; reflexivity|]. eapply (wrap_B _ (fn_likeG fx p pb (anG_list fx b)) (keys_l b)).
      * eapply fn_B. exact Bb.
      * apply fn_A. exact Ab.
      * intros k Hk E. cbn [pos] in E. subst k. apply Hp. right. exact Hk. }
    { intros Hn x. cbn [keys] in Hn. apply NoDup_cons_inv in Hn. destruct Hn as [Hp Hn]. apply NoDup_cons_inv in Hn. destruct Hn as [Hpb Hn].
      destruct (IHb Hn) as [_ Bb]. change (anG fx (SFnDecl p n pb b) x) with (wrap (SFnDecl p n pb b) (fn_likeG fx p pb (anG_list fx b)) x).
      unfold wrap. rewrite g_lg_gcons. cbn [hoist_s]. intros k fl [E | Hin].
      - injection E as <- _ _. cbn [pos]. intros Hr. apply Hp. right. apply (proj1 reach_keys_l). exact Hr.
      - exact (fn_H p pb _ _ _ Bb _ k fl Hin). }
  - (* SArrowStmt *) intros p pb b [IHb HIHb]. split.
    { intros Hn. cbn [keys] in Hn.
    apply NoDup_cons_inv in Hn. destruct Hn as [Hp Hn]. apply NoDup_cons_inv in Hn. destruct Hn as [Hpb Hn].
    destruct (IHb Hn) as [Ab Bb].
    split.
    + eapply okA_ext; [intros x; reflexivity|].
      eapply (wrap_A _ (fun x => let '(y, r, lg) := fn_likeG fx p pb (anG_list fx b) x in (visit_lit y, r, lg)) (keys_l b)).
      * apply arrow_A. exact Ab.
      * cbn [keys]. apply incl_tl, incl_tl, incl_refl.
      * left. reflexivity.
    + intros ls. eapply okB_ext; [intros x; reflexivity|].
      eapply (wrap_B _ (fun x => let '(y, r, lg) := fn_likeG fx p pb (anG_list fx b) x in (visit_lit y, r, lg)) (keys_l b)).
      * eapply arrow_B. exact Bb.
      * apply arrow_A. exact Ab.
      * intros k Hk E. cbn [pos] in E. subst k. apply Hp. right. exact Hk. }
    { apply hoistS_nil. reflexivity. }
  - (* SGetterStmt *) intros p gp pb b [IHb HIHb]. split.
    { intros Hn. cbn [keys] in Hn.
    apply NoDup_cons_inv in Hn. destruct Hn as [Hp Hn]. apply NoDup_cons_inv in Hn. destruct Hn as [Hgp Hn].
    apply NoDup_cons_inv in Hn. destruct Hn as [Hpb Hn].
    destruct (IHb Hn) as [Ab Bb].
    split.
    + eapply okA_ext; [intros x; reflexivity|]. eapply (wrap_A _ (fn_exprG fx gp pb (anG_list fx b)) (keys_l b)).
      * apply fn_expr_A. exact Ab.
      * cbn [keys]. apply incl_tl, incl_tl, incl_tl, incl_refl.
      * left. reflexivity.
    + intros ls. eapply okB_ext; [intros x; reflexivity|]. eapply (wrap_B _ (fn_exprG fx gp pb (anG_list fx b)) (keys_l b)).
      * eapply fn_expr_B. exact Bb.
      * apply fn_expr_A. exact Ab.
      * intros k Hk E. cbn [pos] in E. subst k. apply Hp. right. right. exact Hk. }
    { apply hoistS_nil. reflexivity. }
  - (* SRet *) intros p a. split.
    { intros Hn. 
    assert (HA : okA (fun x => let '(y, r) := visit_returnG p a x in (y, r, @nil gent)) []).
    { intros x. unfold visit_returnG. cbn [g_st g_lg fst snd]. dsplit; [|apply cases_ok_nil | apply lkeys_in_nil].
      eapply mono_trans; [|apply mono_mark]. destruct a; [apply mono_visit_e | apply mono_refl]. }
    leaf_case (fun x => let '(y, r) := visit_returnG p a x in (y, r, @nil gent)) (ret_B p a); exact HA. }
    { apply hoistS_nil. reflexivity. }
  - (* SThrow *) intros p e. split.
    { intros Hn. 
    assert (HA : okA (fun x => let '(y, r) := visit_throwG fx p e x in (y, r, @nil gent)) []).
    { intros x. unfold visit_throwG. cbn [fixD fx repaired g_st g_lg fst snd]. dsplit; [|apply cases_ok_nil | apply lkeys_in_nil].
      eapply mono_trans; [apply mono_visit_e|]. eapply mono_trans; [apply mono_visit_lit | apply mono_mark]. }
    leaf_case (fun x => let '(y, r) := visit_throwG fx p e x in (y, r, @nil gent)) (throw_B p e); exact HA. }
    { apply hoistS_nil. reflexivity. }
  - (* SBrk *) intros p l. split.
    { intros Hn. 
    leaf_case (fun x => (visit_break fx l x, @None End, @nil gent)) (brk_B l); apply leaf_A; intros x; apply mono_visit_break. }
    { apply hoistS_nil. reflexivity. }
  - (* SCont *) intros p l. split.
    { intros Hn. 
    leaf_case (fun x => (set_fc x true, @None End, @nil gent)) (cont_B l); apply leaf_A; intros x;
      (repeat split; intros H; try exact H; reflexivity). }
    { apply hoistS_nil. reflexivity. }
  - (* SBlock *) intros p b [IHb HIHb]. split.
    { intros Hn. cbn [keys] in Hn. apply NoDup_cons_inv in Hn. destruct Hn as [Hp Hn].
    destruct (IHb Hn) as [Ab Bb].
    split.
    + eapply okA_ext; [intros x; reflexivity|]. eapply (wrap_A _ (fun a => block_endG p (anG_list fx b a)) (keys_l b)).
      * apply block_end_A. exact Ab.
      * cbn [keys]. apply incl_tl, incl_refl.
      * left. reflexivity.
    + intros ls. eapply okB_ext; [intros x; reflexivity|]. eapply (wrap_B _ (fun a => block_endG p (anG_list fx b a)) (keys_l b)).
      * apply block_end_B. exact Bb.
      * apply block_end_A. exact Ab.
      * intros k Hk E. cbn [pos] in E. subst k. apply Hp. exact Hk. }
    { apply hoistS_nil. reflexivity. }
  - (* SIf *) intros p c a [IHa HIHa]. split.
    { intros Hn. cbn [keys] in Hn. apply NoDup_cons_inv in Hn. destruct Hn as [Hp Hn].
    destruct (orb_inv a IHa Hn) as [Aa Ba].
    split.
    + eapply okA_ext; [intros x; reflexivity|]. eapply (wrap_A _ (visit_ifG fx p c (pos a) (fun y => orbG a (anG fx a y))) (keys a)).
      * apply if_A. exact Aa.
      * cbn [keys]. apply incl_tl, incl_refl.
      * left. reflexivity.
    + intros ls. eapply okB_ext; [intros x; reflexivity|]. eapply (wrap_B _ (visit_ifG fx p c (pos a) (fun y => orbG a (anG fx a y))) (keys a)).
      * apply if_B. apply Ba.
      * apply if_A. exact Aa.
      * intros k Hk E. cbn [pos] in E. subst k. apply Hp. exact Hk. }
    { apply hoistS_nil. reflexivity. }
  - (* SIfElse *) intros p c a [IHa HIHa] b [IHb HIHb]. split.
    { intros Hn. cbn [keys] in Hn. apply NoDup_cons_inv in Hn. destruct Hn as [Hp Hn].
    apply NoDup_app_inv in Hn. destruct Hn as [Hna [Hnb Hdis]].
    destruct (orb_inv a IHa Hna) as [Aa Ba]. destruct (orb_inv b IHb Hnb) as [Ab Bb].
    split.
    + eapply okA_ext; [intros x; reflexivity|].
      eapply (wrap_A _ (visit_if_elseG fx p c (pos a) (fun y => orbG a (anG fx a y)) (pos b) (fun y => orbG b (anG fx b y))) (keys a ++ keys b)).
      * apply if_else_A; assumption.
      * cbn [keys]. apply incl_tl, incl_refl.
      * left. reflexivity.
    + intros ls. eapply okB_ext; [intros x; reflexivity|].
      eapply (wrap_B _ (visit_if_elseG fx p c (pos a) (fun y => orbG a (anG fx a y)) (pos b) (fun y => orbG b (anG fx b y))) (keys a ++ keys b)).
      * eapply if_else_B; [apply Ba | apply Bb | exact Aa | exact Ab | |].
        -- intros k Hk Hr. apply (Hdis k Hk). apply reach_keys. exact Hr.
        -- intros k Hk Hr. apply (Hdis k); [apply reach_keys; exact Hr | exact Hk].
      * apply if_else_A; assumption.
      * intros k Hk E. cbn [pos] in E. subst k. apply Hp. exact Hk. }
    { apply hoistS_nil. reflexivity. }
  - (* SWhile *) intros p c b [IHb HIHb]. split.
    { intros Hn. cbn [keys] in Hn. apply NoDup_cons_inv in Hn. destruct Hn as [Hp Hn].
    destruct (IHb Hn) as [Ab Bb].
    split.
    + eapply okA_ext; [intros x; reflexivity|]. eapply (wrap_A _ (visit_whileG fx c (pos b) (anG fx b)) (keys b)).
      * apply while_A. exact Ab.
      * cbn [keys]. apply incl_tl, incl_refl.
      * left. reflexivity.
    + intros ls. eapply okB_ext; [intros x; reflexivity|]. eapply (wrap_B _ (visit_whileG fx c (pos b) (anG fx b)) (keys b)).
      * apply while_B. apply Bb.
      * apply while_A. exact Ab.
      * intros k Hk E. cbn [pos] in E. subst k. apply Hp. exact Hk. }
    { apply hoistS_nil. reflexivity. }
  - (* SDoWhile *) intros p b [IHb HIHb] c. split.
    { intros Hn. cbn [keys] in Hn. apply NoDup_cons_inv in Hn. destruct Hn as [Hp Hn].
    destruct (IHb Hn) as [Ab Bb].
    split.
    + eapply okA_ext; [intros x; reflexivity|]. eapply (wrap_A _ (visit_do_whileG fx p c (pos b) (anG fx b)) (keys b)).
      * apply dowhile_A. exact Ab.
      * cbn [keys]. apply incl_tl, incl_refl.
      * left. reflexivity.
    + intros ls. eapply okB_ext; [intros x; reflexivity|]. eapply (wrap_B _ (visit_do_whileG fx p c (pos b) (anG fx b)) (keys b)).
      * apply dowhile_B. apply Bb.
      * apply dowhile_A. exact Ab.
      * intros k Hk E. cbn [pos] in E. subst k. apply Hp. exact Hk. }
    { apply hoistS_nil. reflexivity. }
  - (* SFor *) intros p i c u b [IHb HIHb]. split.
    { intros Hn. cbn [keys] in Hn. apply NoDup_cons_inv in Hn. destruct Hn as [Hp Hn].
    destruct (IHb Hn) as [Ab Bb].
    split.
    + eapply okA_ext; [intros x; reflexivity|]. eapply (wrap_A _ (forG p i c u (pos b) (anG fx b)) (keys b)).
      * apply for_A. exact Ab.
      * cbn [keys]. apply incl_tl, incl_refl.
      * left. reflexivity.
    + intros ls. eapply okB_ext; [intros x; reflexivity|].
      apply (wrap_B (SFor p i c u b) (forG p i c u (pos b) (anG fx b)) (keys b) _ _ (for_B p i c u (pos b) (anG fx b) _ _ ls (Bb [])) (for_A p i c u (pos b) _ _ Ab)).
      intros k Hk E; cbn [pos] in E; subst k; apply Hp; exact Hk. }
    { apply hoistS_nil. reflexivity. }
  - (* SForIn *) intros p b [IHb HIHb]. split.
    { intros Hn. cbn [keys] in Hn. apply NoDup_cons_inv in Hn. destruct Hn as [Hp Hn].
    destruct (IHb Hn) as [Ab Bb].
    split.
    + eapply okA_ext; [intros x; reflexivity|]. eapply (wrap_A _ (visit_for_inG fx (pos b) (anG fx b)) (keys b)).
      * apply for_in_A. exact Ab.
      * cbn [keys]. apply incl_tl, incl_refl.
      * left. reflexivity.
    + intros ls. eapply okB_ext; [intros x; reflexivity|]. eapply (wrap_B _ (visit_for_inG fx (pos b) (anG fx b)) (keys b)).
      * apply for_in_B. apply Bb.
      * apply for_in_A. exact Ab.
      * intros k Hk E. cbn [pos] in E. subst k. apply Hp. exact Hk. }
    { apply hoistS_nil. reflexivity. }
  - (* SForOf *) intros p b [IHb HIHb]. split.
    { intros Hn. cbn [keys] in Hn. apply NoDup_cons_inv in Hn. destruct Hn as [Hp Hn].
    destruct (IHb Hn) as [Ab Bb].
    split.
    + eapply okA_ext; [intros x; reflexivity|]. eapply (wrap_A _ (visit_for_inG fx (pos b) (anG fx b)) (keys b)).
      * apply for_in_A. exact Ab.
      * cbn [keys]. apply incl_tl, incl_refl.
      * left. reflexivity.
    + intros ls. eapply okB_ext; [intros x; reflexivity|]. eapply (wrap_B _ (visit_for_inG fx (pos b) (anG fx b)) (keys b)).
      * apply for_in_B. apply Bb.
      * apply for_in_A. exact Ab.
      * intros k Hk E. cbn [pos] in E. subst k. apply Hp. exact Hk. }
    { apply hoistS_nil. reflexivity. }
  - (* SForHead *) intros p g fp pb hb [IHh HIHh] b [IHb HIHb]. split.
    { intros Hn. cbn [keys] in Hn. apply NoDup_cons_inv in Hn. destruct Hn as [Hp Hn].
    apply NoDup_app_inv in Hn. destruct Hn as [Hnh [Hnb Hdis]].
    apply NoDup_cons_inv in Hnh. destruct Hnh as [_ Hnh]. apply NoDup_cons_inv in Hnh. destruct Hnh as [_ Hnh].
    destruct (IHh Hnh) as [Ah Bh]. destruct (IHb Hnb) as [Ab Bb].
    assert (HA : okA (seqG (for_headG fx fp pb (anG_list fx hb)) (visit_for_inG fx (pos b) (anG fx b))) (keys_l hb ++ keys b)).
    { apply seq_A; [apply for_head_A; exact Ah | apply for_in_A; exact Ab]. }
    assert (Hsub : incl (keys_l hb ++ keys b) ((fp :: pb :: keys_l hb) ++ keys b)).
    { intros k Hk. apply in_app_or in Hk. apply in_or_app. destruct Hk as [Hk | Hk]; [left; right; right; exact Hk | right; exact Hk]. }
    split.
    + eapply okA_ext; [intros x; reflexivity|]. eapply (wrap_A _ _ (keys_l hb ++ keys b)).
      * exact HA.
      * cbn [keys]. apply incl_tl. exact Hsub.
      * left. reflexivity.
    + intros ls. eapply okB_ext; [intros x; reflexivity|].
      eapply (wrap_B (SForHead p g fp pb hb b) _ (keys_l hb ++ keys b)).
      * eapply seq_B; [eapply for_head_B; exact Bh | apply for_in_B; apply Bb | apply for_head_A; exact Ah | apply for_in_A; exact Ab | |].
        -- intros k Hk Hr. apply (Hdis k); [right; right; exact Hk | apply reach_keys; exact Hr].
        -- intros k Hk Hr. apply (Hdis k); [right; right; apply (proj1 reach_keys_l); exact Hr | exact Hk].
      * exact HA.
      * intros k Hk E. cbn [pos] in E. subst k. apply Hp. apply Hsub. exact Hk. }
    { apply hoistS_nil. reflexivity. }
  - (* SSwitch *) intros p cs IHc. split.
    { intros Hn. cbn [keys] in Hn. apply NoDup_cons_inv in Hn. destruct Hn as [Hp Hn].
    destruct (IHc Hn) as [Ac Bc].
    split.
    + eapply okA_ext; [intros x; reflexivity|]. eapply (wrap_A _ (visit_switchG p cs (anG_cases fx cs)) (keys_c cs)).
      * apply switch_A. exact Ac.
      * cbn [keys]. apply incl_tl, incl_refl.
      * left. reflexivity.
    + intros ls. eapply okB_ext; [intros x; reflexivity|]. eapply (wrap_B _ (visit_switchG p cs (anG_cases fx cs)) (keys_c cs)).
      * apply switch_B; [exact Bc | apply tests_mt].
      * apply switch_A. exact Ac.
      * intros k Hk E. cbn [pos] in E. subst k. apply Hp. exact Hk. }
    { apply hoistS_nil. reflexivity. }
  - (* SLabel *) intros p l b [IHb HIHb]. split.
    { intros Hn. cbn [keys] in Hn. apply NoDup_cons_inv in Hn. destruct Hn as [Hp Hn].
    destruct (orb_inv b IHb Hn) as [Ab Bb].
    split.
    + eapply okA_ext; [intros x; reflexivity|].
      eapply (wrap_A _ (fun x => let '(y, _, lg) := with_childG fx (KLabel l) p (fun a => orbG b (anG fx b a)) x in (y, None, lg)) (keys b)).
      * apply label_A. exact Ab.
      * cbn [keys]. apply incl_tl, incl_refl.
      * left. reflexivity.
    + intros ls. eapply okB_ext; [intros x; reflexivity|].
      eapply (wrap_B _ (fun x => let '(y, _, lg) := with_childG fx (KLabel l) p (fun a => orbG b (anG fx b a)) x in (y, None, lg)) (keys b)).
      * apply (label_B l p _ (csem b (l :: ls)) (reach b)). apply Bb.
      * apply label_A. exact Ab.
      * intros k Hk E. cbn [pos] in E. subst k. apply Hp. exact Hk. }
    { apply hoistS_nil. reflexivity. }
  - (* STry *) intros p bp blk [IHb HIHb] h hb [IHh HIHh] f fb [IHf HIHf]. split.
    { apply try_inv; [exact IHb | intros _; exact IHh | intros _; exact IHf]. }
    { apply hoistS_nil. reflexivity. }
  - (* SNil *) split.
    { intros _. split; [exact nil_A | exact nil_B]. }
    { intros _ y. apply flags_ok_nil. }
  - (* SCons *) intros s [IHs HIHs] r [IHr HIHr]. split.
    { intros Hn. cbn [keys_l] in Hn. apply NoDup_app_inv in Hn. destruct Hn as [Hns [Hnr Hdis]].
      destruct (orb_inv s IHs Hns) as [As Bs]. destruct (IHr Hnr) as [Ar Br].
      split.
      + eapply okAl_ext; [|apply (cons_A s (fun a => orbG s (anG fx s a)) (anG_list fx r) _ _ As Ar)].
        intros x. cbn [anG_list]. unfold consG. reflexivity.
      + eapply okBl_ext; [|apply (cons_B s (fun a => orbG s (anG fx s a)) (anG_list fx r) _ _ _ _ (hoist_l r) _ _ (Bs []) Br As Ar (HIHr Hnr))].
        * intros x. cbn [anG_list]. unfold consG. reflexivity.
        * intros k Hk Hr. apply (Hdis k Hk). apply reach_keys. exact Hr.
        * intros k Hk Hr. apply (Hdis k); [apply reach_keys; exact Hr | exact Hk].
        * intros k Hk Hr. apply (Hdis k Hk). apply reach_keys. apply hoist_in_reach. exact Hr. }
    { intros Hn y. cbn [keys_l] in Hn. apply NoDup_app_inv in Hn. destruct Hn as [Hns [Hnr Hdis]].
      destruct (orb_inv s IHs Hns) as [As _]. destruct (IHr Hnr) as [Ar _].
      rewrite hoist_l_cons. change (anG_list fx (SCons s r) y) with (consG s (fun a => orbG s (anG fx s a)) (anG_list fx r) y).
      unfold consG. destruct (As y) as [_ [_ Hk1]]. pose proof (HIHs Hns y) as Hh1.
      assert (El : g_lg (orbG s (anG fx s y)) = g_lg (anG fx s y)) by (unfold orbG; destruct (anG fx s y) as [[y0 r0] lg0]; destruct (is_brk_or_cont s); reflexivity).
      rewrite <- El in Hh1. destruct (orbG s (anG fx s y)) as [[y1 r1] lg1]. cbn [g_lg snd] in Hk1, Hh1.
      destruct (Ar y1) as [_ [_ Hk2]]. pose proof (HIHr Hnr y1) as Hh2. destruct (anG_list fx r y1) as [[y2 tops] lg2]. cbn [l_lg snd] in *.
      apply flags_ok_app_l; apply flags_ok_app_r.
      - exact Hh1.
      - eapply flags_ok_disjoint; [exact Hk1|]. intros k Hk Hr. apply (Hdis k Hk). apply reach_keys. apply hoist_in_reach. exact Hr.
      - eapply flags_ok_disjoint; [exact Hk2|]. intros k Hk Hr. apply (Hdis k); [|exact Hk].
        destruct s; cbn [hoist_s] in Hr; try (destruct Hr). cbn [keys]. right. right. apply (proj1 reach_keys_l). exact Hr.
      - exact Hh2. }
  - (* CNil *) intros _. split; [exact nilC_A | exact nilC_B].
  - (* CCons *) intros cp d ft b [IHb HIHb] r IHr Hn. cbn [keys_c] in Hn. apply NoDup_cons_inv in Hn. destruct Hn as [Hp Hn].
    apply NoDup_app_inv in Hn. destruct Hn as [Hnb [Hnr Hdis]].
    destruct (IHb Hnb) as [Ab Bb]. destruct (IHr Hnr) as [Ar Br].
    split.
    + eapply okAc_ext; [|eapply okAc_weak; [apply (consC_A (fun y => visit_caseG fx cp b (anG_list fx b) (visit_test d y)) (anG_cases fx r) _ _
                                                   (okA_pre _ _ (visit_test d) (case_A cp b _ _ _ Ab Bb) (mono_visit_test d)) Ar)|]].
      * intros x. apply anG_cases_step.
      * cbn [keys_c]. apply incl_tl, incl_refl.
    + eapply okBc_ext; [|apply (consC_B cp b (anG_list fx b) (anG_cases fx r) (csem_l b) r _ _ _ _ (visit_test d) Bb Ab Bb eq_refl Br Ar)].
      * intros x. apply anG_cases_step.
      * intros k Hk Hr. apply (Hdis k Hk). apply reach_keys. exact Hr.
      * intros k Hk Hr. apply (Hdis k); [apply reach_keys; exact Hr | exact Hk].
      * apply end_visit_test.
Qed.

Theorem anG_inv : (forall s, inv_s s) /\ (forall l, inv_l l) /\ (forall cs, inv_c cs).
Proof. destruct anG_inv' as [HS [HL HC]]. split; [intros s; apply HS | split; [intros l; apply HL | exact HC]]. Qed.

(* ------------------------------------------------------------------ *)
(* program level, for the ghost analyzer with all repairs on *)
Lemma init_lv : lv init_st.
Proof. reflexivity. Qed.

(* every logged `unreachable = true` was written while the scope was dead *)
Lemma stmt_unreachable_dead s x : stmt_unreachable s x = true -> dead_now x = true.
Proof. destruct s; cbn [stmt_unreachable]; try (intros H; exact H); try discriminate; intros H; apply andb_true_iff in H; apply H. Qed.

Theorem ghost_sound (p : program) :
  NoDup (keys_l (p_body p)) ->
  (* C10: a statement visited while the scope was dead is not entered *)
  (forall k fl, In (GStmt k true fl) (g_lg (analyzeG fx p)) -> ~ In k (prog_reach p)) /\
  (* C11 getter: if the body can fall off its end, the end reason of the body block does not "stop" *)
  (prog_can_fall_off p = true -> live (g_rs (analyzeG fx p)) = true) /\
  (* C11 case: a case of a switch analysed live whose consequent is claimed to stop cannot complete normally *)
  (forall b, In (GCase b true true) (g_lg (analyzeG fx p)) -> cN (csem_l b) = false).
Proof.
  intros Hn. destruct anG_inv as [_ [Hl _]]. destruct (Hl (p_body p) Hn) as [A B].
  unfold analyzeG, prog_reach, prog_can_fall_off.
  destruct (block_end_B (p_pb p) _ _ _ B init_st init_lv) as [_ [Hr Hf]].
  destruct (block_end_A (p_pb p) _ _ A init_st) as [_ [Hc _]].
  dsplit.
  - exact Hf.
  - intros Hn'. rewrite live_not_dead. destruct (dead (g_rs (block_endG (p_pb p) (anG_list fx (p_body p) init_st)))) eqn:Ed; [|reflexivity].
    rewrite (Hr eq_refl) in Hn'. discriminate.
  - exact Hc.
Qed.

Print Assumptions anG_inv.
Print Assumptions ghost_sound.
