(* C10/C11 - proof layer 1: under `wf` (pairwise distinct keys) the ghost analyzer `anG` computes the
   same state as the map-based analyzer `an`, its ghost end reasons are the values `an` reads from the
   map, and every `unreachable = true` in the final map has its entry in the ghost log.
   Holds for every combination of repairs. *)
From V Require Import CF.AnalyzerG CF.SoundnessInv.
From Coq Require Import Lia.

Section Map.
Variable fx : fixes.

Definition E (x : st) (k : N) : option End := get_end_reason x k.
Definition U (x : st) (k : N) : bool := match iget (info x) k with Some m => m_unreach m | None => false end.

(* ------------------------------------------------------------------ *)
(* association list *)
Lemma iget_iset_eq m k f : iget (iset m k f) k = Some (f (match iget m k with Some v => v | None => meta0 end)).
Proof.
  induction m as [|[k' v] r IH]; cbn [iset iget].
  - rewrite N.eqb_refl. reflexivity.
  - destruct (N.eqb k k') eqn:Ek; cbn [iget]; rewrite Ek; [reflexivity | exact IH].
Qed.
Lemma iget_iset_neq m k k' f : k' <> k -> iget (iset m k f) k' = iget m k'.
Proof.
  intros Hne. induction m as [|[k2 v] r IH]; cbn [iset iget].
  - destruct (N.eqb_spec k' k); [contradiction | reflexivity].
  - destruct (N.eqb k k2) eqn:Ek; cbn [iget].
    + apply N.eqb_eq in Ek. subst k2. destruct (N.eqb_spec k' k); [contradiction | reflexivity].
    + destruct (N.eqb k' k2); [reflexivity | exact IH].
Qed.

Lemma info_mark k e x :
  info (mark_as_end k e x) = iset (info x) k (fun m => {| m_unreach := m_unreach m; m_end := mark_val (s_end (sc x)) e |}).
Proof. unfold mark_as_end, mark_val. destruct (s_end (sc x)) as [[r t i| |]|]; reflexivity. Qed.

Lemma E_mark_eq k e x : E (mark_as_end k e x) k = mark_val (s_end (sc x)) e.
Proof. unfold E, get_end_reason. rewrite info_mark, iget_iset_eq. reflexivity. Qed.
Lemma iget_mark_neq k k' e x : k' <> k -> iget (info (mark_as_end k e x)) k' = iget (info x) k'.
Proof. intros H. rewrite info_mark. apply iget_iset_neq. exact H. Qed.
Lemma E_mark_neq k k' e x : k' <> k -> E (mark_as_end k e x) k' = E x k'.
Proof. intros H. unfold E, get_end_reason. rewrite iget_mark_neq; [reflexivity | exact H]. Qed.
Lemma U_mark k k' e x : U (mark_as_end k e x) k' = U x k'.
Proof.
  unfold U. rewrite info_mark. destruct (N.eq_dec k' k) as [->|Hne]; [|rewrite iget_iset_neq; [reflexivity | exact Hne]].
  rewrite iget_iset_eq. destruct (iget (info x) k); reflexivity.
Qed.

Lemma E_set_unreach k b x k' : E (set_unreach k b x) k' = E x k'.
Proof.
  unfold E, get_end_reason, set_unreach. cbn [set_info info].
  destruct (N.eq_dec k' k) as [->|Hne]; [|rewrite iget_iset_neq; [reflexivity | exact Hne]].
  rewrite iget_iset_eq. destruct (iget (info x) k); reflexivity.
Qed.
Lemma iget_set_unreach_neq k b x k' : k' <> k -> iget (info (set_unreach k b x)) k' = iget (info x) k'.
Proof. intros H. unfold set_unreach. cbn [set_info info]. apply iget_iset_neq. exact H. Qed.
Lemma U_set_unreach_eq k b x : U (set_unreach k b x) k = b.
Proof. unfold U, set_unreach. cbn [set_info info]. rewrite iget_iset_eq. reflexivity. Qed.
Lemma U_set_unreach_neq k b x k' : k' <> k -> U (set_unreach k b x) k' = U x k'.
Proof. intros H. unfold U. rewrite iget_set_unreach_neq; [reflexivity | exact H]. Qed.

(* operations that leave the map alone *)
Lemma info_visit_lit x : info (visit_lit x) = info x.
Proof. unfold visit_lit. destruct (live_now x); reflexivity. Qed.
Lemma info_visit_ident i x : info (visit_ident i x) = info x.
Proof. unfold visit_ident. destruct (live_now x); reflexivity. Qed.
Lemma info_visit_e e x : info (visit_e e x) = info x.
Proof. destruct e; cbn [visit_e]; rewrite ?info_visit_lit, ?info_visit_ident; reflexivity. Qed.
Lemma info_visit_oe o x : info (visit_oe o x) = info x.
Proof. destruct o; cbn [visit_oe]; [apply info_visit_e | reflexivity]. Qed.
Lemma info_visit_cond c x : info (visit_cond c x) = info x.
Proof. destruct c; cbn [visit_cond]; rewrite ?info_visit_lit, ?info_visit_e; reflexivity. Qed.
Lemma info_visit_break l x : info (visit_break fx l x) = info x.
Proof. unfold visit_break. destruct (fixB fx); [destruct l; [destruct (s_fb (sc x))|]|]; reflexivity. Qed.

(* ------------------------------------------------------------------ *)
Definition fresh (x : st) (K : list N) : Prop := forall k, In k K -> E x k = None.
Definition frame (x y : st) (K : list N) : Prop := forall k, ~ In k K -> iget (info y) k = iget (info x) k.

Lemma frame_refl x K : frame x x K.
Proof. intros k _. reflexivity. Qed.
Lemma frame_info x y K : info y = info x -> frame x y K.
Proof. intros H k _. rewrite H. reflexivity. Qed.
Lemma frame_trans x y z K : frame x y K -> frame y z K -> frame x z K.
Proof. intros H1 H2 k Hk. rewrite (H2 k Hk). apply H1. exact Hk. Qed.
Lemma frame_weak x y K K' : frame x y K -> incl K K' -> frame x y K'.
Proof. intros H Hi k Hk. apply H. intros Hin. apply Hk, Hi, Hin. Qed.
Lemma frame_mark k e x K : In k K -> frame x (mark_as_end k e x) K.
Proof. intros Hin k' Hk'. apply iget_mark_neq. intros ->. exact (Hk' Hin). Qed.
Lemma frame_set_unreach k b x K : In k K -> frame x (set_unreach k b x) K.
Proof. intros Hin k' Hk'. apply iget_set_unreach_neq. intros ->. exact (Hk' Hin). Qed.

Lemma fresh_info x y K : info y = info x -> fresh x K -> fresh y K.
Proof. intros H Hf k Hk. unfold E, get_end_reason. rewrite H. apply Hf. exact Hk. Qed.
Lemma fresh_incl x K K' : fresh x K' -> incl K K' -> fresh x K.
Proof. intros H Hi k Hk. apply H, Hi, Hk. Qed.
(* keys untouched by a framed step stay fresh *)
Lemma fresh_frame x y K K' : fresh x K -> frame x y K' -> (forall k, In k K -> ~ In k K') -> fresh y K.
Proof. intros Hf Hfr Hd k Hk. unfold E, get_end_reason. rewrite (Hfr k (Hd k Hk)). apply Hf. exact Hk. Qed.
Lemma E_frame x y K k : frame x y K -> ~ In k K -> E y k = E x k.
Proof. intros H Hk. unfold E, get_end_reason. rewrite (H k Hk). reflexivity. Qed.

(* simulation of a closure analysing a statement whose keys are K and whose own key is p *)
Definition sim (K : list N) (p : N) (m : st -> st) (g : st -> gres) : Prop :=
  forall x, fresh x K -> m x = g_st (g x) /\ E (g_st (g x)) p = g_rs (g x) /\ frame x (g_st (g x)) K.
Definition sim_l (K : list N) (m : st -> st) (g : st -> gres_l) : Prop :=
  forall x, fresh x K -> m x = l_st (g x) /\ frame x (l_st (g x)) K.

(* child_exit and the map *)
Lemma iget_child_exit_neq k start x c k' :
  k' <> start -> iget (info (child_exit fx k start x c)) k' = iget (info c) k'.
Proof.
  intros Hne. unfold child_exit. destruct (s_end (sc c)) as [e|]; [|reflexivity].
  destruct k; try reflexivity.
  - destruct e; try reflexivity; destruct (fixC fx); try reflexivity; cbn [set_end with_sc info]; rewrite iget_mark_neq; [reflexivity | exact Hne | reflexivity | exact Hne].
  - destruct e; cbn [set_end with_sc info]; rewrite iget_mark_neq; try reflexivity; exact Hne.
  - cbv zeta. cbn [sc s_fb]. match goal with |- context [match ?o with _ => _ end] => destruct o as [[id|]|] end; try reflexivity.
    destruct (N.eqb id l); reflexivity.
  - rewrite iget_mark_neq; [reflexivity | exact Hne].
  - rewrite iget_mark_neq; [reflexivity | exact Hne].
Qed.

Lemma info_child_exit_if start x c : info (child_exit fx KIf start x c) = info c.
Proof. unfold child_exit. destruct (s_end (sc c)); reflexivity. Qed.
Lemma info_child_exit_case start x c : info (child_exit fx KCase start x c) = info c.
Proof. unfold child_exit. destruct (s_end (sc c)); reflexivity. Qed.
Lemma info_child_exit_label l start x c : info (child_exit fx (KLabel l) start x c) = info c.
Proof.
  unfold child_exit. destruct (s_end (sc c)); [|reflexivity]. cbv zeta. cbn [sc s_fb].
  match goal with |- context [match ?o with _ => _ end] => destruct o as [[id|]|] end; try reflexivity.
  destruct (N.eqb id l); reflexivity.
Qed.

Lemma E_child_exit_loop lo x c :
  E (child_exit fx KLoop lo x c) lo = match s_end (sc c) with Some e => mark_val (s_end (sc x)) e | None => E c lo end.
Proof.
  unfold child_exit. destruct (s_end (sc c)) as [e|]; [|reflexivity].
  destruct e; unfold E, get_end_reason; cbn [set_end with_sc info]; rewrite info_mark, iget_iset_eq; reflexivity.
Qed.

Lemma frame_child_exit k start x c K : In start K -> frame c (child_exit fx k start x c) K.
Proof. intros Hin k' Hk'. apply iget_child_exit_neq. intros ->. exact (Hk' Hin). Qed.


(* ------------------------------------------------------------------ *)
(* visit_stmt wrapper, leaves, visit_stmt_or_block, blocks *)
Lemma sim_wrap s Vm Vg K :
  sim K (pos s) Vm Vg -> In (pos s) K ->
  sim K (pos s) (fun x0 => Vm (set_unreach (pos s) (stmt_unreachable s x0) x0)) (wrap s Vg).
Proof.
  intros H Hp x0 Hf. unfold wrap. rewrite g_st_gcons, g_rs_gcons.
  set (x := set_unreach (pos s) (stmt_unreachable s x0) x0).
  assert (Hfx : fresh x K) by (intros k Hk; unfold x; rewrite E_set_unreach; apply Hf; exact Hk).
  destruct (H x Hfx) as [E1 [E2 F]]. dsplit; [exact E1 | exact E2|].
  eapply frame_trans; [apply frame_set_unreach; exact Hp | exact F].
Qed.

Lemma sim_leaf (f : st -> st) K p :
  (forall x, info (f x) = info x) -> In p K -> sim K p f (fun x => (f x, None, [])).
Proof.
  intros Hi Hp x Hf. cbn [g_st g_rs fst snd]. dsplit; [reflexivity | | apply frame_info; apply Hi].
  unfold E, get_end_reason. rewrite Hi. apply Hf. exact Hp.
Qed.

Lemma sim_orb s m g K : sim K (pos s) m g -> In (pos s) K -> sim K (pos s) (fun a => orb_mark s (m a)) (fun a => orbG s (g a)).
Proof.
  intros H Hp x Hf. destruct (H x Hf) as [E1 [E2 F]]. unfold orb_mark, orbG. rewrite E1.
  destruct (g x) as [[y r] lg]. cbn [g_st g_rs fst snd] in *.
  destruct (is_brk_or_cont s); cbn [g_st g_rs fst snd]; [|dsplit; [reflexivity | exact E2 | exact F]].
  dsplit; [reflexivity | apply E_mark_eq | eapply frame_trans; [exact F | apply frame_mark; exact Hp]].
Qed.

Lemma sim_block_end p m g K : sim_l K m g -> sim (p :: K) p (fun a => block_end p (m a)) (fun a => block_endG p (g a)).
Proof.
  intros H x Hf. assert (Hf' : fresh x K) by (eapply fresh_incl; [exact Hf | apply incl_tl, incl_refl]).
  destruct (H x Hf') as [E1 F]. unfold block_endG. rewrite E1. destruct (g x) as [[y tops] lg]. cbn [g_st g_rs l_st fst snd] in *.
  dsplit; [reflexivity | |].
  - unfold block_end. destruct (s_end (sc y)) eqn:Ee; rewrite E_mark_eq, Ee; reflexivity.
  - eapply frame_trans; [eapply frame_weak; [exact F | apply incl_tl, incl_refl]|].
    unfold block_end. destruct (s_end (sc y)); apply frame_mark; left; reflexivity.
Qed.

(* with_child_scope *)
Lemma sim_child k start m g K p x :
  sim K p m g -> fresh x K ->
  exists c r lg, g (child_enter k x) = (c, r, lg) /\ m (child_enter k x) = c /\ E c p = r /\ frame x c K /\
    with_child fx k start m x = child_exit fx k start x c /\
    with_childG fx k start g x = (child_exit fx k start x c, r, lg).
Proof.
  intros H Hf. assert (Hf' : fresh (child_enter k x) K) by (eapply fresh_info; [|exact Hf]; reflexivity).
  destruct (H _ Hf') as [E1 [E2 F]]. unfold with_child, with_childG. rewrite E1.
  destruct (g (child_enter k x)) as [[c r] lg]. cbn [g_st g_rs fst snd] in *.
  exists c, r, lg. dsplit; try reflexivity; assumption.
Qed.

Lemma frame_child x c k start K K' :
  frame x c K -> incl K K' -> In start K' -> frame x (child_exit fx k start x c) K'.
Proof.
  intros F Hi Hs. eapply frame_trans; [eapply frame_weak; [exact F | exact Hi] | apply frame_child_exit; exact Hs].
Qed.

Lemma sim_fn_like p pb m g K :
  sim_l K m g -> ~ In p (pb :: K) ->
  sim (p :: pb :: K) p (visit_fn_like fx p pb m) (fn_likeG fx p pb g).
Proof.
  intros H Hp x Hf. unfold visit_fn_like, fn_likeG.
  assert (Hs := sim_block_end pb m g K H).
  assert (Hf' : fresh x (pb :: K)) by (eapply fresh_incl; [exact Hf | apply incl_tl, incl_refl]).
  destruct (sim_child KFunction p _ _ _ pb x Hs Hf') as [c [r [lg [Eg [Em [Er [F [W1 W2]]]]]]]].
  rewrite W1. unfold with_childG in W2. rewrite Eg in *. cbn [g_st g_rs fst snd].
  assert (Ecp : E c p = None) by (rewrite (E_frame x c _ p F Hp); apply Hf; left; reflexivity).
  dsplit; [reflexivity | | eapply frame_child; [exact F | apply incl_tl, incl_refl | left; reflexivity]].
  unfold child_exit. destruct (s_end (sc c)) as [e|]; [|exact Ecp].
  destruct e; [destruct (fixC fx) | exact Ecp | destruct (fixC fx)]; unfold set_end, with_sc;
    try exact Ecp; unfold E, get_end_reason; cbn [info]; rewrite info_mark, iget_iset_eq; reflexivity.
Qed.

Lemma sim_arrow p pb m g K :
  sim_l K m g -> ~ In p (pb :: K) ->
  sim (p :: pb :: K) p (fun x => visit_lit (visit_fn_like fx p pb m x))
      (fun x => let '(y, r, lg) := fn_likeG fx p pb g x in (visit_lit y, r, lg)).
Proof.
  intros H Hp x Hf. destruct (sim_fn_like p pb m g K H Hp x Hf) as [E1 [E2 F]]. rewrite E1.
  destruct (fn_likeG fx p pb g x) as [[y r] lg]. cbn [g_st g_rs fst snd] in *.
  dsplit; [reflexivity | | eapply frame_trans; [exact F | apply frame_info, info_visit_lit]].
  unfold E, get_end_reason. rewrite info_visit_lit. exact E2.
Qed.

(* simulation without the own-key equation (for a loop head, whose reason is not used) *)
Definition sim0 (K : list N) (m : st -> st) (g : st -> gres) : Prop :=
  forall x, fresh x K -> m x = g_st (g x) /\ frame x (g_st (g x)) K.

Lemma sim_sim0 K p m g : sim K p m g -> sim0 K m g.
Proof. intros H x Hf. destruct (H x Hf) as [E1 [_ F]]. split; assumption. Qed.

(* a closure that records nothing under the statement's own key p *)
Lemma sim0_own K p m g : sim0 K m g -> (forall x, g_rs (g x) = None) -> ~ In p K -> sim (p :: K) p m g.
Proof.
  intros H Hr Hp x Hf. assert (Hf' : fresh x K) by (eapply fresh_incl; [exact Hf | apply incl_tl, incl_refl]).
  destruct (H x Hf') as [E1 F]. dsplit; [exact E1 | | eapply frame_weak; [exact F | apply incl_tl, incl_refl]].
  rewrite Hr, (E_frame _ _ _ p F Hp). apply Hf. left. reflexivity.
Qed.

Lemma sim_equiv K K' p m g : sim K p m g -> (forall k, In k K <-> In k K') -> sim K' p m g.
Proof.
  intros H Hi x Hf. assert (Hf' : fresh x K) by (intros k Hk; apply Hf, Hi; exact Hk).
  destruct (H x Hf') as [E1 [E2 F]]. dsplit; [exact E1 | exact E2|]. intros k Hk. apply F. intros Hk'. apply Hk, Hi. exact Hk'.
Qed.

Lemma sim0_fn_expr fp pb m g K :
  sim_l K m g -> ~ In fp (pb :: K) -> sim0 (fp :: pb :: K) (visit_fn_expr fx fp pb m) (fn_exprG fx fp pb g).
Proof.
  intros H Hp x Hf. destruct (sim_arrow fp pb m g K H Hp x Hf) as [E1 [_ F]]. unfold visit_fn_expr, fn_exprG.
  destruct (fn_likeG fx fp pb g x) as [[y r] lg]. cbn [g_st fst snd] in *. split; assumption.
Qed.

Lemma rs_fn_expr fp pb g x : g_rs (fn_exprG fx fp pb g x) = None.
Proof. unfold fn_exprG. destruct (fn_likeG fx fp pb g x) as [[y r] lg]. reflexivity. Qed.

Lemma sim0_for_head fp pb m g K :
  sim_l K m g -> ~ In fp (pb :: K) -> sim0 (fp :: pb :: K) (visit_for_head fx fp pb m) (for_headG fx fp pb g).
Proof.
  intros H Hp. unfold visit_for_head, for_headG. destruct (fixE fx); [apply sim0_fn_expr; assumption|].
  intros x _. cbn [g_st fst]. split; [reflexivity | apply frame_refl].
Qed.

(* the head of a loop, then the loop (whose own key is p) *)
Lemma sim_seq m1 g1 m2 g2 K1 K2 p :
  sim0 K1 m1 g1 -> sim K2 p m2 g2 -> (forall k, In k K2 -> ~ In k K1) ->
  sim (K1 ++ K2) p (fun x => m2 (m1 x)) (seqG g1 g2).
Proof.
  intros H1 H2 Hd x Hf. unfold seqG.
  destruct (H1 x (fresh_incl _ _ _ Hf (incl_appl _ (incl_refl _)))) as [E1 F1]. rewrite E1.
  destruct (g1 x) as [[y r1] lg1]. cbn [g_st fst snd] in *.
  assert (Hf2 : fresh y K2).
  { eapply fresh_frame; [|exact F1 | exact Hd]. eapply fresh_incl; [exact Hf | apply incl_appr, incl_refl]. }
  destruct (H2 y Hf2) as [E2 [E3 F2]]. rewrite E2. destruct (g2 y) as [[z r] lg2]. cbn [g_st g_rs fst snd] in *.
  dsplit; [reflexivity | exact E3|].
  eapply frame_trans; eapply frame_weak; [exact F1 | apply incl_appl, incl_refl | exact F2 | apply incl_appr, incl_refl].
Qed.

Lemma sim_return p a K : In p K ->
  sim K p (visit_return p a) (fun x => let '(y, r) := visit_returnG p a x in (y, r, [])).
Proof.
  intros Hp x Hf. unfold visit_return, visit_returnG. cbn [g_st g_rs fst snd].
  dsplit; [reflexivity | apply E_mark_eq|].
  destruct a as [e|].
  - eapply frame_trans; [apply (frame_info x (visit_e e x)); apply info_visit_e | apply frame_mark; exact Hp].
  - apply frame_mark; exact Hp.
Qed.

Lemma sim_throw p e K : In p K ->
  sim K p (visit_throw fx p e) (fun x => let '(y, r) := visit_throwG fx p e x in (y, r, [])).
Proof.
  intros Hp x Hf. unfold visit_throw, visit_throwG. cbn [g_st g_rs fst snd].
  dsplit; [reflexivity | apply E_mark_eq|].
  eapply frame_trans; [|apply frame_mark; exact Hp]. apply frame_info.
  destruct (fixD fx); rewrite ?info_visit_lit, info_visit_e; reflexivity.
Qed.

(* if *)
Lemma sim_if p c m1 g1 K1 p1 :
  sim K1 p1 m1 g1 -> ~ In p K1 ->
  sim (p :: K1) p (visit_if fx p c p1 m1) (visit_ifG fx p c p1 g1).
Proof.
  intros H Hp x Hf. unfold visit_if, visit_ifG.
  assert (Hf1 : fresh (visit_cond c x) K1).
  { eapply fresh_info; [apply info_visit_cond|]. eapply fresh_incl; [exact Hf | apply incl_tl, incl_refl]. }
  destruct (sim_child KIf p1 _ _ _ p1 _ H Hf1) as [c1 [r1 [lg1 [Eg [Em [Er [F [W1 W2]]]]]]]].
  rewrite W1, W2. cbn [g_st g_rs fst snd].
  dsplit; [reflexivity | unfold E, get_end_reason; cbn [set_end with_sc info]; fold (get_end_reason (mark_as_end p EContinue (child_exit fx KIf p1 (visit_cond c x) c1)) p); apply E_mark_eq|].
  eapply frame_trans; [apply (frame_info x (visit_cond c x)); apply info_visit_cond|].
  eapply frame_trans; [eapply (frame_weak _ c1 K1); [exact F | apply incl_tl, incl_refl]|].
  eapply frame_trans; [apply frame_info; apply info_child_exit_if|].
  eapply frame_trans; [apply frame_mark; left; reflexivity | apply frame_info; reflexivity].
Qed.

Lemma sim_if_else p c m1 g1 K1 p1 m2 g2 K2 p2 :
  sim K1 p1 m1 g1 -> sim K2 p2 m2 g2 -> ~ In p (K1 ++ K2) -> (forall k, In k K2 -> ~ In k K1) ->
  sim (p :: K1 ++ K2) p (visit_if_else fx p c p1 m1 p2 m2) (visit_if_elseG fx p c p1 g1 p2 g2).
Proof.
  intros H1 H2 Hp Hd x Hf. unfold visit_if_else, visit_if_elseG.
  assert (Hf1 : fresh (visit_cond c x) K1).
  { eapply fresh_info; [apply info_visit_cond|]. eapply fresh_incl; [exact Hf | apply incl_tl, incl_appl, incl_refl]. }
  destruct (sim_child KIf p1 _ _ _ p1 _ H1 Hf1) as [c1 [r1 [lg1 [Eg1 [Em1 [Er1 [F1 [W1 W1']]]]]]]].
  rewrite W1, W1'. set (x2 := child_exit fx KIf p1 (visit_cond c x) c1).
  assert (Fx2 : frame x x2 K1).
  { eapply frame_trans; [apply (frame_info x (visit_cond c x)); apply info_visit_cond|].
    eapply frame_trans; [exact F1 | apply frame_info; apply info_child_exit_if]. }
  assert (Hf2 : fresh x2 K2).
  { eapply fresh_frame; [|exact Fx2 | exact Hd]. eapply fresh_incl; [exact Hf | apply incl_tl, incl_appr, incl_refl]. }
  destruct (sim_child KIf p2 _ _ _ p2 _ H2 Hf2) as [c2 [r2 [lg2 [Eg2 [Em2 [Er2 [F2 [W2 W2']]]]]]]].
  assert (R1 : get_end_reason x2 p1 = r1).
  { unfold x2, get_end_reason. rewrite info_child_exit_if. exact Er1. }
  rewrite R1, W2, W2'. set (x3 := child_exit fx KIf p2 x2 c2).
  assert (R2 : get_end_reason x3 p2 = r2).
  { unfold x3, get_end_reason. rewrite info_child_exit_if. exact Er2. }
  rewrite R2. cbn [g_st g_rs fst snd].
  assert (Fx3 : frame x x3 (p :: K1 ++ K2)).
  { eapply frame_trans; [eapply frame_weak; [exact Fx2 | apply incl_tl, incl_appl, incl_refl]|].
    eapply frame_trans; [eapply frame_weak; [exact F2 | apply incl_tl, incl_appr, incl_refl] | apply frame_info; apply info_child_exit_if]. }
  dsplit; [reflexivity | |].
  - unfold if_else_end. destruct (if_else_mark r1 r2) as [e|]; [apply E_mark_eq|].
    unfold E, get_end_reason. cbn [set_panic info]. fold (E x3 p).
    assert (Hnp : ~ In p K1 /\ ~ In p K2) by (split; intros Hin; apply Hp, in_or_app; [left | right]; exact Hin).
    unfold x3. unfold E, get_end_reason. rewrite info_child_exit_if.
    rewrite (F2 p (proj2 Hnp)). unfold x2. rewrite info_child_exit_if. rewrite (F1 p (proj1 Hnp)). rewrite info_visit_cond.
    apply Hf. left. reflexivity.
  - eapply frame_trans; [exact Fx3|]. unfold if_else_end. destruct (if_else_mark r1 r2); [apply frame_mark; left; reflexivity | apply frame_info; reflexivity].
Qed.


(* loops *)
Lemma frame_while_post r c lo a K : In lo K -> frame a (while_post_r r c lo a) K.
Proof.
  intros Hin. unfold while_post_r.
  destruct (known_true c && oend_forced r && negb (fb_unlabelled (s_fb (sc a)))).
  - destruct r; [eapply frame_trans; [apply frame_mark; exact Hin | apply frame_info; reflexivity] | apply frame_info; reflexivity].
  - destruct (known_true c && negb (fb_unlabelled (s_fb (sc a)))); (eapply frame_trans; [apply frame_mark; exact Hin | apply frame_info; reflexivity]).
Qed.
Lemma frame_dowhile_post r c lo a K : In lo K -> frame a (dowhile_post_r fx r c lo a) K.
Proof.
  intros Hin. unfold dowhile_post_r.
  destruct (oend_forced r && negb (fb_unlabelled (s_fb (sc a))) && negb (fixA fx && s_fc (sc a))).
  - destruct r; [eapply frame_trans; [apply frame_mark; exact Hin | apply frame_info; reflexivity] | apply frame_info; reflexivity].
  - destruct (known_true c && fb_none (s_fb (sc a))); (eapply frame_trans; [apply frame_mark; exact Hin | apply frame_info; reflexivity]).
Qed.
Lemma frame_for_post r p c lo a K : In lo K -> In p K -> frame a (for_post_r r p c lo a) K.
Proof.
  intros Hlo Hp. unfold for_post_r.
  assert (H1 : frame a (if for_forced c a then mark_as_end p (for_e r) a else a) K).
  { destruct (for_forced c a); [apply frame_mark; exact Hp | apply frame_refl]. }
  destruct (negb (for_forced c a) || fb_unlabelled (s_fb (sc a))); [|exact H1].
  eapply frame_trans; [exact H1|]. eapply frame_trans; [apply frame_mark; exact Hlo | apply frame_info; reflexivity].
Qed.

Lemma sim_while_gen p c lo m g K (f1 f2 : st -> st) :
  (forall x, info (f1 x) = info x) -> (forall x, info (f2 x) = info x) ->
  sim K lo m g -> In lo K -> ~ In p K ->
  sim (p :: K) p (fun x => f2 (with_child fx KLoop lo (fun a => while_post c lo (m a)) (f1 x)))
      (fun x => let '(a, r, lg) := g (child_enter KLoop (f1 x)) in (f2 (child_exit fx KLoop lo (f1 x) (while_post_r r c lo a)), None, lg)).
Proof.
  intros I1 I2 H Hlo Hp x Hf. unfold with_child.
  assert (Hf1 : fresh (child_enter KLoop (f1 x)) K).
  { eapply fresh_info; [cbn [child_enter with_sc info]; apply I1|]. eapply fresh_incl; [exact Hf | apply incl_tl, incl_refl]. }
  destruct (H _ Hf1) as [E1 [E2 F]]. rewrite E1. unfold while_post. fold (E (g_st (g (child_enter KLoop (f1 x)))) lo). rewrite E2.
  destruct (g (child_enter KLoop (f1 x))) as [[a r] lg]. cbn [g_st g_rs fst snd] in *.
  assert (Fr : frame x (f2 (child_exit fx KLoop lo (f1 x) (while_post_r r c lo a))) K).
  { eapply frame_trans; [apply (frame_info x (child_enter KLoop (f1 x))); cbn [child_enter with_sc info]; apply I1|].
    eapply frame_trans; [exact F|]. eapply frame_trans; [apply frame_while_post; exact Hlo|].
    eapply frame_trans; [apply frame_child_exit; exact Hlo | apply frame_info; apply I2]. }
  dsplit; [reflexivity | | eapply frame_weak; [exact Fr | apply incl_tl, incl_refl]].
  rewrite (E_frame _ _ _ p Fr Hp). apply Hf. left. reflexivity.
Qed.

Lemma sim_while p c lo m g K :
  sim K lo m g -> In lo K -> ~ In p K ->
  sim (p :: K) p (visit_while fx c lo m) (visit_whileG fx c lo g).
Proof.
  intros H Hlo Hp. unfold visit_while, visit_whileG. destruct (fixF fx).
  - apply (sim_while_gen p c lo m g K (visit_cond c) (fun y => y) (info_visit_cond c) (fun y => eq_refl) H Hlo Hp).
  - apply (sim_while_gen p c lo m g K (fun y => y) (visit_cond c) (fun y => eq_refl) (info_visit_cond c) H Hlo Hp).
Qed.

Lemma info_dowhile_test prev c x : info (dowhile_test fx prev c x) = info x.
Proof. unfold dowhile_test. destruct (fixF fx); cbn [set_end with_sc info]; rewrite info_visit_cond; reflexivity. Qed.

Lemma dowhile_post_end r c lo a : s_end (sc (dowhile_post_r fx r c lo a)) <> None \/ panic (dowhile_post_r fx r c lo a) = true.
Proof.
  unfold dowhile_post_r.
  destruct (oend_forced r && negb (fb_unlabelled (s_fb (sc a))) && negb (fixA fx && s_fc (sc a))) eqn:C.
  - destruct r as [e|]; [left; discriminate | right; reflexivity].
  - destruct (known_true c && fb_none (s_fb (sc a))); left; discriminate.
Qed.

Lemma sim_do_while p c lo m g K :
  sim K lo m g -> In lo K -> ~ In p K ->
  sim (p :: K) p (visit_do_while fx p c lo m) (visit_do_whileG fx p c lo g).
Proof.
  intros H Hlo Hp x Hf. unfold visit_do_while, visit_do_whileG, with_child.
  assert (Hf1 : fresh (child_enter KLoop x) K).
  { eapply fresh_info; [reflexivity|]. eapply fresh_incl; [exact Hf | apply incl_tl, incl_refl]. }
  destruct (H _ Hf1) as [E1 [E2 F]]. rewrite E1. unfold dowhile_post. fold (E (g_st (g (child_enter KLoop x))) lo). rewrite E2.
  destruct (g (child_enter KLoop x)) as [[a r] lg]. cbn [g_st g_rs fst snd] in *.
  set (a2 := dowhile_post_r fx r c lo a). set (x1 := child_exit fx KLoop lo x a2).
  assert (Fx1 : frame x x1 K).
  { eapply frame_trans; [exact F|]. eapply frame_trans; [apply frame_dowhile_post; exact Hlo | apply frame_child_exit; exact Hlo]. }
  assert (R2 : get_end_reason x1 lo = match s_end (sc a2) with Some e => mark_val (s_end (sc x)) e | None => None end).
  { fold (E x1 lo). unfold x1. rewrite E_child_exit_loop. destruct (s_end (sc a2)) eqn:Ea; [reflexivity|].
    (* the child's end is never None: only reachable through the (impossible) panic branch *)
    unfold a2, dowhile_post_r in Ea |- *.
    destruct (oend_forced r && negb (fb_unlabelled (s_fb (sc a))) && negb (fixA fx && s_fc (sc a))) eqn:C.
    - destruct r as [e|]; [discriminate Ea|]. rewrite !andb_false_l in C. discriminate C.
    - destruct (known_true c && fb_none (s_fb (sc a))); discriminate Ea. }
  rewrite R2.
  set (r2 := match s_end (sc a2) with Some e => mark_val (s_end (sc x)) e | None => None end).
  assert (Ex1p : E x1 p = None) by (rewrite (E_frame _ _ _ p Fx1 Hp); apply Hf; left; reflexivity).
  dsplit; [reflexivity | |].
  - unfold dowhile_tail. unfold E, get_end_reason. rewrite info_dowhile_test. fold (get_end_reason (match r2 with Some e => if is_forced e then mark_as_end p e x1 else x1 | None => x1 end) p).
    destruct r2 as [e|]; [destruct (is_forced e); [apply E_mark_eq | exact Ex1p] | exact Ex1p].
  - eapply frame_trans; [eapply frame_weak; [exact Fx1 | apply incl_tl, incl_refl]|]. unfold dowhile_tail.
    eapply frame_trans; [|apply frame_info; apply info_dowhile_test].
    destruct r2 as [e|]; [destruct (is_forced e); [apply frame_mark; left; reflexivity | apply frame_refl] | apply frame_refl].
Qed.

Lemma sim_for p c lo m g K :
  sim K lo m g -> In lo K -> ~ In p K -> lo <> p ->
  sim (p :: K) p (visit_for fx p c lo m) (visit_forG fx p c lo g).
Proof.
  intros H Hlo Hp Hne x Hf. unfold visit_for, visit_forG, with_child.
  set (x' := match c with Some c0 => visit_cond c0 x | None => x end).
  assert (Ix' : info x' = info x) by (unfold x'; destruct c; [apply info_visit_cond | reflexivity]).
  assert (Hf1 : fresh (child_enter KLoop x') K).
  { eapply fresh_info; [exact Ix'|]. eapply fresh_incl; [exact Hf | apply incl_tl, incl_refl]. }
  destruct (H _ Hf1) as [E1 [E2 F]]. rewrite E1. unfold for_post. fold (E (g_st (g (child_enter KLoop x'))) lo). rewrite E2.
  destruct (g (child_enter KLoop x')) as [[a r] lg]. cbn [g_st g_rs fst snd] in *.
  assert (Fa : frame x a K) by (eapply frame_trans; [apply (frame_info x (child_enter KLoop x')); exact Ix' | exact F]).
  assert (Eap : E a p = None) by (rewrite (E_frame _ _ _ p Fa Hp); apply Hf; left; reflexivity).
  dsplit; [reflexivity | |].
  - unfold E, get_end_reason. rewrite iget_child_exit_neq; [|intros Eq; apply Hne; symmetry; exact Eq].
    fold (get_end_reason (for_post_r r p c lo a) p). fold (E (for_post_r r p c lo a) p).
    unfold for_post_r. destruct (for_forced c a) eqn:Ef; cbn [negb orb].
    + assert (Hb : fb_unlabelled (s_fb (sc a)) = false) by (unfold for_forced in Ef; destruct (fb_unlabelled (s_fb (sc a))); [discriminate | reflexivity]).
      rewrite Hb. apply E_mark_eq.
    + unfold E, get_end_reason. cbn [set_end with_sc info]. rewrite iget_mark_neq; [exact Eap | intros Eq; apply Hne; symmetry; exact Eq].
  - eapply frame_trans; [eapply frame_weak; [exact Fa | apply incl_tl, incl_refl]|].
    eapply frame_trans; [apply frame_for_post; [right; exact Hlo | left; reflexivity] | apply frame_child_exit; right; exact Hlo].
Qed.

Lemma sim_for_in p lo m g K :
  sim K lo m g -> In lo K -> ~ In p K ->
  sim (p :: K) p (visit_for_in fx lo m) (visit_for_inG fx lo g).
Proof.
  intros H Hlo Hp x Hf. unfold visit_for_in, visit_for_inG, with_child.
  assert (Hf1 : fresh (child_enter KLoop x) K).
  { eapply fresh_info; [reflexivity|]. eapply fresh_incl; [exact Hf | apply incl_tl, incl_refl]. }
  destruct (H _ Hf1) as [E1 [E2 F]]. rewrite E1.
  destruct (g (child_enter KLoop x)) as [[a r] lg]. cbn [g_st g_rs fst snd] in *.
  assert (Fr : frame x (child_exit fx KLoop lo x (forin_post lo a)) K).
  { eapply frame_trans; [exact F|]. eapply frame_trans; [|apply frame_child_exit; exact Hlo].
    unfold forin_post. eapply frame_trans; [apply frame_mark; exact Hlo | apply frame_info; reflexivity]. }
  dsplit; [reflexivity | | eapply frame_weak; [exact Fr | apply incl_tl, incl_refl]].
  rewrite (E_frame _ _ _ p Fr Hp). apply Hf. left. reflexivity.
Qed.

Lemma sim_label p l m g K pb :
  sim K pb m g -> ~ In p K ->
  sim (p :: K) p (with_child fx (KLabel l) p m) (fun x => let '(y, _, lg) := with_childG fx (KLabel l) p g x in (y, None, lg)).
Proof.
  intros H Hp x Hf.
  assert (Hf1 : fresh x K) by (eapply fresh_incl; [exact Hf | apply incl_tl, incl_refl]).
  destruct (sim_child (KLabel l) p _ _ _ pb _ H Hf1) as [c1 [r1 [lg1 [Eg [Em [Er [F [W1 W2]]]]]]]].
  rewrite W1, W2. cbn [g_st g_rs fst snd].
  assert (Fr : frame x (child_exit fx (KLabel l) p x c1) K).
  { eapply frame_trans; [exact F | apply frame_info; apply info_child_exit_label]. }
  dsplit; [reflexivity | | eapply frame_weak; [exact Fr | apply incl_tl, incl_refl]].
  rewrite (E_frame _ _ _ p Fr Hp). apply Hf. left. reflexivity.
Qed.


(* statement lists *)
Lemma sim_nil : sim_l [] (fun y => y) (fun y => (y, [], [])).
Proof. intros x _. cbn [l_st fst snd]. split; [reflexivity | apply frame_refl]. Qed.

Lemma sim_cons s m1 g1 m2 g2 K1 K2 p1 :
  sim K1 p1 m1 g1 -> sim_l K2 m2 g2 -> (forall k, In k K2 -> ~ In k K1) ->
  sim_l (K1 ++ K2) (fun y => m2 (m1 y)) (consG s g1 g2).
Proof.
  intros H1 H2 Hd x Hf. unfold consG.
  destruct (H1 x (fresh_incl _ _ _ Hf (incl_appl _ (incl_refl _)))) as [E1 [_ F1]]. rewrite E1.
  destruct (g1 x) as [[y1 r1] lg1]. cbn [g_st fst snd] in *.
  assert (Hf2 : fresh y1 K2).
  { eapply fresh_frame; [|exact F1 | exact Hd]. eapply fresh_incl; [exact Hf | apply incl_appr, incl_refl]. }
  destruct (H2 y1 Hf2) as [E2 F2]. rewrite E2. destruct (g2 y1) as [[y2 tops] lg2]. cbn [l_st fst snd] in *.
  split; [reflexivity|]. eapply frame_trans; eapply frame_weak; [exact F1 | apply incl_appl, incl_refl | exact F2 | apply incl_appr, incl_refl].
Qed.

(* switch *)
Fixpoint case_keys (cs : cases) : list N := match cs with CNil => [] | CCons cp _ _ _ r => cp :: case_keys r end.

Lemma switch_forced_eq cs x acc : switch_forced cs x acc = switch_forcedG (map (E x) (case_keys cs)) acc.
Proof. revert acc. induction cs as [|cp d ft b r IH]; intros acc; cbn [switch_forced case_keys map switch_forcedG]; [reflexivity | apply IH]. Qed.

Definition sim_c (K : list N) (cps : list N) (m : st -> st) (g : st -> gres_c) : Prop :=
  forall x, fresh x K -> m x = c_st (g x) /\ frame x (c_st (g x)) K /\ map (E (c_st (g x))) cps = c_rs (g x).

Lemma sim_case cp b m g Kb :
  sim_l Kb m g -> sim (cp :: Kb) cp (visit_case fx cp m) (visit_caseG fx cp b g).
Proof.
  intros H y Hf. unfold visit_case, visit_caseG.
  assert (Hf1 : fresh (child_enter KCase y) Kb).
  { eapply fresh_info; [reflexivity|]. eapply fresh_incl; [exact Hf | apply incl_tl, incl_refl]. }
  destruct (H _ Hf1) as [E1 F]. rewrite E1. destruct (g (child_enter KCase y)) as [[c tops] lg]. cbn [g_st g_rs l_st fst snd] in *.
  dsplit; [reflexivity | |].
  - unfold E, get_end_reason. cbn [set_end with_sc info]. fold (get_end_reason (mark_as_end cp (case_end_of (sc c)) (child_exit fx KCase cp y c)) cp). apply E_mark_eq.
  - eapply frame_trans; [eapply (frame_weak y c Kb); [exact F | apply incl_tl, incl_refl]|].
    eapply frame_trans; [apply frame_info; apply info_child_exit_case|].
    eapply frame_trans; [apply frame_mark; left; reflexivity | apply frame_info; reflexivity].
Qed.

Lemma info_visit_test t x : info (visit_test t x) = info x.
Proof. destruct t; [apply info_visit_e | reflexivity]. Qed.
(* a step that leaves the map alone, before a simulated closure *)
Lemma sim_pre K p m g (f : st -> st) : sim K p m g -> (forall x, info (f x) = info x) -> sim K p (fun x => m (f x)) (fun x => g (f x)).
Proof.
  intros H Hi x Hf. destruct (H (f x) (fresh_info _ _ _ (Hi x) Hf)) as [E1 [E2 F]].
  dsplit; [exact E1 | exact E2 | eapply frame_trans; [apply (frame_info x (f x)); apply Hi | exact F]].
Qed.

Lemma sim_nilC : sim_c [] [] (fun y => y) (fun y => (y, [], [])).
Proof. intros x _. cbn [c_st c_rs fst snd map]. dsplit; [reflexivity | apply frame_refl | reflexivity]. Qed.

Lemma sim_consC cp m1 g1 m2 g2 K1 K2 cps :
  sim K1 cp m1 g1 -> sim_c K2 cps m2 g2 -> (forall k, In k K2 -> ~ In k K1) -> ~ In cp K2 ->
  sim_c (K1 ++ K2) (cp :: cps) (fun y => m2 (m1 y)) (consC g1 g2).
Proof.
  intros H1 H2 Hd Hcp x Hf. unfold consC.
  destruct (H1 x (fresh_incl _ _ _ Hf (incl_appl _ (incl_refl _)))) as [E1 [R1 F1]]. rewrite E1.
  destruct (g1 x) as [[y1 r1] lg1]. cbn [g_st g_rs fst snd] in *.
  assert (Hf2 : fresh y1 K2).
  { eapply fresh_frame; [|exact F1 | exact Hd]. eapply fresh_incl; [exact Hf | apply incl_appr, incl_refl]. }
  destruct (H2 y1 Hf2) as [E2 [F2 R2]]. rewrite E2. destruct (g2 y1) as [[y2 rs] lg2]. cbn [c_st c_rs fst snd] in *.
  dsplit; [reflexivity | |].
  - eapply frame_trans; eapply frame_weak; [exact F1 | apply incl_appl, incl_refl | exact F2 | apply incl_appr, incl_refl].
  - cbn [map]. rewrite R2. f_equal. rewrite (E_frame _ _ _ cp F2 Hcp). exact R1.
Qed.

Lemma sim_switch p cs m g K :
  sim_c K (case_keys cs) m g -> ~ In p K ->
  sim (p :: K) p (visit_switch p cs m) (visit_switchG p cs g).
Proof.
  intros H Hp x Hf. unfold visit_switch, visit_switchG.
  destruct (H x (fresh_incl _ _ _ Hf (incl_tl _ (incl_refl _)))) as [E1 [F R]]. rewrite E1.
  rewrite switch_forced_eq, R. destruct (g x) as [[x1 rs] lg]. cbn [c_st c_rs g_st g_rs fst snd] in *.
  dsplit; [reflexivity | |].
  - unfold switch_tail. match goal with |- E (if ?b then _ else _) p = _ => destruct b end; [apply E_mark_eq|].
    unfold E, get_end_reason. cbn [set_end with_sc info]. fold (get_end_reason (mark_as_end p (switch_end (switch_forcedG rs (Some (Forced false false false))) (has_default cs)) x1) p). apply E_mark_eq.
  - eapply frame_trans; [eapply frame_weak; [exact F | apply incl_tl, incl_refl]|]. unfold switch_tail.
    match goal with |- frame _ (if ?b then _ else _) _ => destruct b end;
      [apply frame_mark; left; reflexivity | eapply frame_trans; [apply frame_mark; left; reflexivity | apply frame_info; reflexivity]].
Qed.

(* try *)
Lemma info_tcm e x : info (try_catch_merge e x) = info x.
Proof.
  unfold try_catch_merge. destruct (only_throw e); [reflexivity|].
  destruct e as [a|]; destruct (s_end (sc x)) as [b|]; try reflexivity.
  - destruct a, b; cbn [is_forced andb merge_forced]; reflexivity.
  - destruct b; cbn [is_forced]; reflexivity.
Qed.
Lemma info_tfm e x : info (try_finally_merge e x) = info x.
Proof.
  unfold try_finally_merge. destruct e as [a|]; [|reflexivity].
  destruct (s_end (sc x)) as [[r t i| |]|]; try reflexivity. destruct (is_forced a); reflexivity.
Qed.

Lemma sim_handler cp hbp prev m g Kh x :
  sim_l Kh m g -> fresh x (hbp :: Kh) ->
  try_handler fx cp hbp prev m x = fst (try_handlerG fx cp hbp prev g x) /\
  frame x (fst (try_handlerG fx cp hbp prev g x)) (cp :: hbp :: Kh).
Proof.
  intros H Hf. unfold try_handler, try_handlerG.
  set (xa := set_mt (if s_mt (sc x) then set_end x prev else x) false).
  assert (Ixa : info xa = info x) by (unfold xa; destruct (s_mt (sc x)); reflexivity).
  assert (Hfa : fresh xa (hbp :: Kh)) by (eapply fresh_info; [exact Ixa | exact Hf]).
  destruct (sim_child KCatch cp _ _ _ hbp xa (sim_block_end hbp m g Kh H) Hfa) as [c [r [lg [Eg [Em [Er [F [W1 W2]]]]]]]].
  rewrite W1, W2. cbn [fst].
  assert (Fr : frame x (child_exit fx KCatch cp xa c) (cp :: hbp :: Kh)).
  { eapply frame_trans; [apply (frame_info x xa); exact Ixa|]. eapply frame_child; [exact F | apply incl_tl, incl_refl | left; reflexivity]. }
  split; [reflexivity|].
  destruct (s_mt (sc x)); [eapply frame_trans; [exact Fr | apply frame_info; apply info_tcm] | eapply frame_trans; [exact Fr | apply frame_info; reflexivity]].
Qed.

Lemma sim_finalizer fp prev m g Kf x :
  sim_l Kf m g -> fresh x (fp :: Kf) ->
  try_finalizer fx fp prev m x = fst (try_finalizerG fx fp prev g x) /\
  frame x (fst (try_finalizerG fx fp prev g x)) (fp :: Kf).
Proof.
  intros H Hf. unfold try_finalizer, try_finalizerG.
  assert (Hfa : fresh (set_end x prev) (fp :: Kf)) by (eapply fresh_info; [reflexivity | exact Hf]).
  destruct (sim_child KFinally fp _ _ _ fp _ (sim_block_end fp m g Kf H) Hfa) as [c [r [lg [Eg [Em [Er [F [W1 W2]]]]]]]].
  rewrite W1, W2. cbn [fst]. split; [reflexivity|].
  eapply frame_trans; [|apply frame_info; apply info_tfm].
  eapply frame_trans; [apply (frame_info x (set_end x prev)); reflexivity|].
  eapply frame_child; [exact F | apply incl_refl | left; reflexivity].
Qed.

Definition try_hkeys (h : option (N * N)) (Kh : list N) : list N := match h with Some (cp, hbp) => cp :: hbp :: Kh | None => [] end.
Definition try_fkeys (f : option N) (Kf : list N) : list N := match f with Some fp => fp :: Kf | None => [] end.

Lemma sim_try p bp mb gb Kb h mh gh Kh f mf gf Kf :
  sim_l Kb mb gb -> (h <> None -> sim_l Kh mh gh) -> (f <> None -> sim_l Kf mf gf) ->
  NoDup (p :: bp :: Kb ++ try_hkeys h Kh ++ try_fkeys f Kf) ->
  sim (p :: bp :: Kb ++ try_hkeys h Kh ++ try_fkeys f Kf) p
      (visit_try fx p bp mb h mh f mf) (visit_tryG fx p bp gb h gh f gf).
Proof.
  intros Hb Hh Hff Hn x Hf. unfold visit_try, visit_tryG.
  apply NoDup_cons_inv in Hn. destruct Hn as [Hp Hn]. apply NoDup_cons_inv in Hn. destruct Hn as [Hbp Hn].
  apply NoDup_app_inv in Hn. destruct Hn as [_ [Hn D1]]. apply NoDup_app_inv in Hn. destruct Hn as [_ [_ D2]].
  set (KK := p :: bp :: Kb ++ try_hkeys h Kh ++ try_fkeys f Kf) in *.
  assert (I1 : incl (bp :: Kb) KK) by (unfold KK; apply incl_tl; intros k [<-|Hk]; [left; reflexivity | right; apply in_or_app; left; exact Hk]).
  assert (I2 : incl (try_hkeys h Kh) KK) by (unfold KK; apply incl_tl, incl_tl, incl_appr, incl_appl, incl_refl).
  assert (I3 : incl (try_fkeys f Kf) KK) by (unfold KK; apply incl_tl, incl_tl, incl_appr, incl_appr, incl_refl).
  (* block *)
  assert (Hf0 : fresh (set_mt x false) (bp :: Kb)) by (eapply fresh_info; [reflexivity|]; eapply fresh_incl; [exact Hf | exact I1]).
  destruct (sim_block_end bp mb gb Kb Hb _ Hf0) as [E1 [_ F1]]. rewrite E1.
  destruct (block_endG bp (gb (set_mt x false))) as [[x1 r1] lg1]. cbn [g_st fst snd] in *.
  assert (Fx1 : frame x x1 (bp :: Kb)) by (eapply frame_trans; [apply (frame_info x (set_mt x false)); reflexivity | exact F1]).
  (* handler *)
  assert (H2 : exists x2 lg2, (match h with Some (cp, hbp) => try_handlerG fx cp hbp (s_end (sc x)) gh x1 | None => (x1, []) end) = (x2, lg2) /\
              (match h with Some (cp, hbp) => try_handler fx cp hbp (s_end (sc x)) mh x1 | None => x1 end) = x2 /\
              frame x1 x2 (try_hkeys h Kh)).
  { destruct h as [[cp hbp]|].
    - assert (Hfh : fresh x1 (hbp :: Kh)).
      { eapply fresh_frame; [|exact Fx1|].
        - eapply fresh_incl; [exact Hf|]. eapply incl_tran; [|exact I2]. cbn [try_hkeys]. apply incl_tl, incl_refl.
        - intros k Hk Hk'. destruct Hk' as [<-|Hk']; [apply Hbp; apply in_or_app; right; apply in_or_app; left; right; exact Hk|].
          apply (D1 k Hk'). apply in_or_app. left. right. exact Hk. }
      destruct (sim_handler cp hbp (s_end (sc x)) mh gh Kh x1 (Hh ltac:(discriminate)) Hfh) as [Eh Fh].
      destruct (try_handlerG fx cp hbp (s_end (sc x)) gh x1) as [x2 lg2]. exists x2, lg2. cbn [fst] in *. dsplit; [reflexivity | exact Eh | exact Fh].
    - exists x1, []. dsplit; [reflexivity | reflexivity | apply frame_refl]. }
  destruct H2 as [x2 [lg2 [G2 [M2 F2]]]]. rewrite G2, M2.
  (* finalizer *)
  assert (H3 : exists x3 lg3, (match f with Some fp => try_finalizerG fx fp (s_end (sc x)) gf x2 | None => (x2, []) end) = (x3, lg3) /\
              (match f with Some fp => try_finalizer fx fp (s_end (sc x)) mf x2 | None => x2 end) = x3 /\
              frame x2 x3 (try_fkeys f Kf)).
  { destruct f as [fp|].
    - assert (Hff' : fresh x2 (fp :: Kf)).
      { eapply fresh_frame; [|exact F2|].
        + eapply fresh_frame; [|exact Fx1|].
          * eapply fresh_incl; [exact Hf | exact I3].
          * intros k Hk Hk'. destruct Hk' as [<-|Hk']; [apply Hbp; apply in_or_app; right; apply in_or_app; right; exact Hk|].
            apply (D1 k Hk'). apply in_or_app. right. exact Hk.
        + intros k Hk Hk'. exact (D2 k Hk' Hk). }
      destruct (sim_finalizer fp (s_end (sc x)) mf gf Kf x2 (Hff ltac:(discriminate)) Hff') as [Ef Ff].
      destruct (try_finalizerG fx fp (s_end (sc x)) gf x2) as [x3 lg3]. exists x3, lg3. cbn [fst] in *. dsplit; [reflexivity | exact Ef | exact Ff].
    - exists x2, []. dsplit; [reflexivity | reflexivity | apply frame_refl]. }
  destruct H3 as [x3 [lg3 [G3 [M3 F3]]]]. rewrite G3, M3. cbn [g_st g_rs fst snd].
  assert (Fx3 : frame x x3 KK).
  { eapply frame_trans; [eapply frame_weak; [exact Fx1 | exact I1]|].
    eapply frame_trans; eapply frame_weak; [exact F2 | exact I2 | exact F3 | exact I3]. }
  assert (Ex3p : E x3 p = None).
  { unfold E, get_end_reason.
    rewrite (F3 p); [rewrite (F2 p); [rewrite (Fx1 p); [apply Hf; left; reflexivity|]|]|].
    - intros [<-|Hk]; apply Hp; [left; reflexivity | right; apply in_or_app; left; exact Hk].
    - intros Hk. apply Hp. right. apply in_or_app. right. apply in_or_app. left. exact Hk.
    - intros Hk. apply Hp. right. apply in_or_app. right. apply in_or_app. right. exact Hk. }
  dsplit; [reflexivity | |].
  - unfold try_finish. unfold E, get_end_reason. cbn [set_mt with_sc info].
    destruct (s_end (sc x3)) as [e|] eqn:Ee; [|exact Ex3p].
    fold (get_end_reason (mark_as_end p e x3) p). fold (E (mark_as_end p e x3) p). rewrite E_mark_eq, Ee. reflexivity.
  - eapply frame_trans; [exact Fx3|]. unfold try_finish. destruct (s_end (sc x3)) as [e|].
    + eapply frame_trans; [apply frame_mark; left; reflexivity | apply frame_info; reflexivity].
    + apply frame_info; reflexivity.
Qed.


(* ------------------------------------------------------------------ *)
(* the induction *)
Lemma sim_ext K p m m' g g' : (forall x, m x = m' x) -> (forall x, g x = g' x) -> sim K p m' g' -> sim K p m g.
Proof. intros Em Eg H x Hf. rewrite Em, Eg. apply H. exact Hf. Qed.
Lemma sim_l_ext K m m' g g' : (forall x, m x = m' x) -> (forall x, g x = g' x) -> sim_l K m' g' -> sim_l K m g.
Proof. intros Em Eg H x Hf. rewrite Em, Eg. apply H. exact Hf. Qed.
Lemma sim_c_ext K cps m m' g g' : (forall x, m x = m' x) -> (forall x, g x = g' x) -> sim_c K cps m' g' -> sim_c K cps m g.
Proof. intros Em Eg H x Hf. rewrite Em, Eg. apply H. exact Hf. Qed.

Definition simS (s : stmt) : Prop := NoDup (keys s) -> sim (keys s) (pos s) (an fx s) (anG fx s).
Definition simL (l : stmts) : Prop := NoDup (keys_l l) -> sim_l (keys_l l) (an_list fx l) (anG_list fx l).
Definition simC (cs : cases) : Prop := NoDup (keys_c cs) -> sim_c (keys_c cs) (case_keys cs) (an_cases fx cs) (anG_cases fx cs).

Lemma simS_orb s : simS s -> NoDup (keys s) ->
  sim (keys s) (pos s) (fun a => orb_mark s (an fx s a)) (fun a => orbG s (anG fx s a)).
Proof. intros H Hn. apply sim_orb; [apply H; exact Hn | apply pos_in_keys]. Qed.

Ltac wrap_case s V Vg HS :=
  eapply sim_ext; [intros x; reflexivity | intros x; reflexivity |];
  apply (sim_wrap s V Vg _ HS); left; reflexivity.

Theorem an_anG : (forall s, simS s) /\ (forall l, simL l) /\ (forall cs, simC cs).
Proof.
  apply stmt_mutind.
  - intros p e Hn. wrap_case (SExpr p e) (visit_e e) (fun x => (visit_e e x, @None End, @nil gent))
      (sim_leaf (visit_e e) [p] p (info_visit_e e) (or_introl eq_refl)).
  - intros p Hn. wrap_case (SEmpty p) (fun x : st => x) (fun x : st => (x, @None End, @nil gent))
      (sim_leaf (fun x : st => x) [p] p (fun x => eq_refl) (or_introl eq_refl)).
  - intros p v i Hn.
    wrap_case (SVar p v i) (fun x => match i with Some e => visit_e e x | None => x end)
      (fun x => (match i with Some e => visit_e e x | None => x end, @None End, @nil gent))
      (sim_leaf (fun x => match i with Some e => visit_e e x | None => x end) [p] p
         (fun x => match i as i0 return info (match i0 with Some e => visit_e e x | None => x end) = info x with Some e => info_visit_e e x | None => eq_refl end)
         (or_introl eq_refl)).
  - intros p n pb b IHb Hn. cbn [keys] in Hn. destruct (NoDup_cons_inv _ _ Hn) as [Hp Hn']. destruct (NoDup_cons_inv _ _ Hn') as [Hpb Hnb].
    wrap_case (SFnDecl p n pb b) (visit_fn_like fx p pb (an_list fx b)) (fn_likeG fx p pb (anG_list fx b))
      (sim_fn_like p pb _ _ _ (IHb Hnb) Hp).
  - intros p pb b IHb Hn. cbn [keys] in Hn. destruct (NoDup_cons_inv _ _ Hn) as [Hp Hn']. destruct (NoDup_cons_inv _ _ Hn') as [Hpb Hnb].
    wrap_case (SArrowStmt p pb b) (fun x => visit_lit (visit_fn_like fx p pb (an_list fx b) x))
      (fun x => let '(y, r, lg) := fn_likeG fx p pb (anG_list fx b) x in (visit_lit y, r, lg))
      (sim_arrow p pb _ _ _ (IHb Hnb) Hp).
  - intros p gp pb b IHb Hn. cbn [keys] in Hn. destruct (NoDup_cons_inv _ _ Hn) as [Hp Hn']. destruct (NoDup_cons_inv _ _ Hn') as [Hgp Hn''].
    destruct (NoDup_cons_inv _ _ Hn'') as [Hpb Hnb].
    wrap_case (SGetterStmt p gp pb b) (visit_fn_expr fx gp pb (an_list fx b)) (fn_exprG fx gp pb (anG_list fx b))
      (sim0_own _ p _ _ (sim0_fn_expr gp pb _ _ _ (IHb Hnb) Hgp) (rs_fn_expr gp pb (anG_list fx b)) Hp).
  - intros p a Hn. wrap_case (SRet p a) (visit_return p a) (fun x => let '(y, r) := visit_returnG p a x in (y, r, @nil gent))
      (sim_return p a [p] (or_introl eq_refl)).
  - intros p e Hn. wrap_case (SThrow p e) (visit_throw fx p e) (fun x => let '(y, r) := visit_throwG fx p e x in (y, r, @nil gent))
      (sim_throw p e [p] (or_introl eq_refl)).
  - intros p l Hn. wrap_case (SBrk p l) (visit_break fx l) (fun x => (visit_break fx l x, @None End, @nil gent))
      (sim_leaf (visit_break fx l) [p] p (info_visit_break l) (or_introl eq_refl)).
  - intros p l Hn. wrap_case (SCont p l) (fun x => set_fc x true) (fun x => (set_fc x true, @None End, @nil gent))
      (sim_leaf (fun x => set_fc x true) [p] p (fun x => eq_refl) (or_introl eq_refl)).
  - intros p b IHb Hn. cbn [keys] in Hn. destruct (NoDup_cons_inv _ _ Hn) as [Hp Hnb].
    wrap_case (SBlock p b) (fun a => block_end p (an_list fx b a)) (fun a => block_endG p (anG_list fx b a))
      (sim_block_end p _ _ _ (IHb Hnb)).
  - intros p c a IHa Hn. cbn [keys] in Hn. destruct (NoDup_cons_inv _ _ Hn) as [Hp Hna].
    wrap_case (SIf p c a) (visit_if fx p c (pos a) (fun y => orb_mark a (an fx a y))) (visit_ifG fx p c (pos a) (fun y => orbG a (anG fx a y)))
      (sim_if p c _ _ _ (pos a) (simS_orb a IHa Hna) Hp).
  - intros p c a IHa b IHb Hn. cbn [keys] in Hn. destruct (NoDup_cons_inv _ _ Hn) as [Hp Hn'].
    destruct (NoDup_app_inv _ _ Hn') as [Hna [Hnb Hd]].
    wrap_case (SIfElse p c a b)
      (visit_if_else fx p c (pos a) (fun y => orb_mark a (an fx a y)) (pos b) (fun y => orb_mark b (an fx b y)))
      (visit_if_elseG fx p c (pos a) (fun y => orbG a (anG fx a y)) (pos b) (fun y => orbG b (anG fx b y)))
      (sim_if_else p c _ _ _ (pos a) _ _ _ (pos b) (simS_orb a IHa Hna) (simS_orb b IHb Hnb) Hp (fun k Hk Hk' => Hd k Hk' Hk)).
  - intros p c b IHb Hn. cbn [keys] in Hn. destruct (NoDup_cons_inv _ _ Hn) as [Hp Hnb].
    wrap_case (SWhile p c b) (visit_while fx c (pos b) (an fx b)) (visit_whileG fx c (pos b) (anG fx b))
      (sim_while p c (pos b) _ _ _ (IHb Hnb) (pos_in_keys b) Hp).
  - intros p b IHb c Hn. cbn [keys] in Hn. destruct (NoDup_cons_inv _ _ Hn) as [Hp Hnb].
    wrap_case (SDoWhile p b c) (visit_do_while fx p c (pos b) (an fx b)) (visit_do_whileG fx p c (pos b) (anG fx b))
      (sim_do_while p c (pos b) _ _ _ (IHb Hnb) (pos_in_keys b) Hp).
  - intros p i c u b IHb Hn. cbn [keys] in Hn. destruct (NoDup_cons_inv _ _ Hn) as [Hp Hnb].
    assert (Hne : pos b <> p) by (intros Eq; apply Hp; rewrite <- Eq; apply pos_in_keys).
    wrap_case (SFor p i c u b) (fun x => visit_for fx p c (pos b) (an fx b) (visit_oe u (visit_oe i x)))
      (fun x => visit_forG fx p c (pos b) (anG fx b) (visit_oe u (visit_oe i x)))
      (sim_pre _ _ _ _ (fun x => visit_oe u (visit_oe i x)) (sim_for p c (pos b) _ _ _ (IHb Hnb) (pos_in_keys b) Hp Hne)
         (fun x => eq_trans (info_visit_oe u _) (info_visit_oe i x))).
  - intros p b IHb Hn. cbn [keys] in Hn. destruct (NoDup_cons_inv _ _ Hn) as [Hp Hnb].
    wrap_case (SForIn p b) (visit_for_in fx (pos b) (an fx b)) (visit_for_inG fx (pos b) (anG fx b))
      (sim_for_in p (pos b) _ _ _ (IHb Hnb) (pos_in_keys b) Hp).
  - intros p b IHb Hn. cbn [keys] in Hn. destruct (NoDup_cons_inv _ _ Hn) as [Hp Hnb].
    wrap_case (SForOf p b) (visit_for_in fx (pos b) (an fx b)) (visit_for_inG fx (pos b) (anG fx b))
      (sim_for_in p (pos b) _ _ _ (IHb Hnb) (pos_in_keys b) Hp).
  - intros p g fp pb hb IHh b IHb Hn. cbn [keys] in Hn. destruct (NoDup_cons_inv _ _ Hn) as [Hp Hn'].
    destruct (NoDup_app_inv _ _ Hn') as [Hnh [Hnb Hd]].
    destruct (NoDup_cons_inv _ _ Hnh) as [Hfp Hnh']. destruct (NoDup_cons_inv _ _ Hnh') as [Hpb Hnhb].
    assert (Hpb' : ~ In p (keys b)) by (intros Hk; apply Hp; apply in_or_app; right; exact Hk).
    assert (Hdis : forall k, In k (p :: keys b) -> ~ In k (fp :: pb :: keys_l hb)).
    { intros k [<- | Hk] Hk'; [apply Hp; apply in_or_app; left; exact Hk' | exact (Hd k Hk' Hk)]. }
    assert (Heq : forall k, In k ((fp :: pb :: keys_l hb) ++ p :: keys b) <-> In k (p :: (fp :: pb :: keys_l hb) ++ keys b)).
    { intros k. split; intros H.
      - apply in_app_or in H. destruct H as [H | [H | H]]; [right; apply in_or_app; left; exact H | left; exact H | right; apply in_or_app; right; exact H].
      - destruct H as [H | H]; [apply in_or_app; right; left; exact H|].
        apply in_app_or in H. apply in_or_app. destruct H as [H | H]; [left; exact H | right; right; exact H]. }
    wrap_case (SForHead p g fp pb hb b) (fun x => visit_for_in fx (pos b) (an fx b) (visit_for_head fx fp pb (an_list fx hb) x))
      (seqG (for_headG fx fp pb (anG_list fx hb)) (visit_for_inG fx (pos b) (anG fx b)))
      (sim_equiv _ (p :: (fp :: pb :: keys_l hb) ++ keys b) _ _ _
         (sim_seq _ _ _ _ (fp :: pb :: keys_l hb) (p :: keys b) p
            (sim0_for_head fp pb _ _ _ (IHh Hnhb) Hfp)
            (sim_for_in p (pos b) _ _ _ (IHb Hnb) (pos_in_keys b) Hpb') Hdis) Heq).
  - intros p cs IHc Hn. cbn [keys] in Hn. destruct (NoDup_cons_inv _ _ Hn) as [Hp Hnc].
    wrap_case (SSwitch p cs) (visit_switch p cs (an_cases fx cs)) (visit_switchG p cs (anG_cases fx cs))
      (sim_switch p cs _ _ _ (IHc Hnc) Hp).
  - intros p l b IHb Hn. cbn [keys] in Hn. destruct (NoDup_cons_inv _ _ Hn) as [Hp Hnb].
    wrap_case (SLabel p l b) (with_child fx (KLabel l) p (fun a => orb_mark b (an fx b a)))
      (fun x => let '(y, _, lg) := with_childG fx (KLabel l) p (fun a => orbG b (anG fx b a)) x in (y, @None End, lg))
      (sim_label p l _ _ _ (pos b) (simS_orb b IHb Hnb) Hp).
  - intros p bp blk IHb h hb IHh f fb IHf Hn.
    assert (Hk : keys (STry p bp blk h hb f fb) = p :: bp :: keys_l blk ++ try_hkeys h (keys_l hb) ++ try_fkeys f (keys_l fb)).
    { cbn [keys]. destruct h as [[cp hbp]|], f; reflexivity. }
    unfold simS in *. rewrite Hk in Hn |- *.
    assert (Hn0 := Hn).
    apply NoDup_cons_inv in Hn. destruct Hn as [_ Hn]. apply NoDup_cons_inv in Hn. destruct Hn as [_ Hn].
    apply NoDup_app_inv in Hn. destruct Hn as [Nb [Hn _]]. apply NoDup_app_inv in Hn. destruct Hn as [Nh [Nf _]].
    wrap_case (STry p bp blk h hb f fb) (visit_try fx p bp (an_list fx blk) h (an_list fx hb) f (an_list fx fb))
      (visit_tryG fx p bp (anG_list fx blk) h (anG_list fx hb) f (anG_list fx fb))
      (sim_try p bp _ _ _ h _ _ _ f _ _ _ (IHb Nb)
         (fun Hh => IHh (match h as h0 return h0 <> None -> NoDup (try_hkeys h0 (keys_l hb)) -> NoDup (keys_l hb) with
                         | Some (cp, hbp) => fun _ N => proj2 (NoDup_cons_inv _ _ (proj2 (NoDup_cons_inv _ _ N)))
                         | None => fun Hx _ => False_ind _ (Hx eq_refl) end Hh Nh))
         (fun Hf' => IHf (match f as f0 return f0 <> None -> NoDup (try_fkeys f0 (keys_l fb)) -> NoDup (keys_l fb) with
                         | Some fp => fun _ N => proj2 (NoDup_cons_inv _ _ N)
                         | None => fun Hx _ => False_ind _ (Hx eq_refl) end Hf' Nf))
         Hn0).
  - intros _. exact sim_nil.
  - intros s IHs r IHr Hn. cbn [keys_l] in Hn. destruct (NoDup_app_inv _ _ Hn) as [Hns [Hnr Hd]].
    eapply sim_l_ext; [| |apply (sim_cons s _ _ _ _ _ _ (pos s) (simS_orb s IHs Hns) (IHr Hnr) (fun k Hk Hk' => Hd k Hk' Hk))].
    + intros x. reflexivity.
    + intros x. cbn [anG_list]. unfold consG. reflexivity.
  - intros _. exact sim_nilC.
  - intros cp d ft b IHb r IHr Hn. cbn [keys_c] in Hn. destruct (NoDup_cons_inv _ _ Hn) as [Hp Hn'].
    destruct (NoDup_app_inv _ _ Hn') as [Hnb [Hnr Hd]].
    eapply sim_c_ext; [| |apply (sim_consC cp _ _ _ _ (cp :: keys_l b) (keys_c r) (case_keys r)
                                    (sim_pre _ _ _ _ (visit_test d) (sim_case cp b _ _ _ (IHb Hnb)) (info_visit_test d)) (IHr Hnr))].
    + intros x. reflexivity.
    + intros x. cbn [anG_cases]. unfold consC. reflexivity.
    + intros k Hk [<-|Hk']; [apply Hp; apply in_or_app; right; exact Hk | exact (Hd k Hk' Hk)].
    + intros Hk. apply Hp. apply in_or_app. right. exact Hk.
Qed.


(* ------------------------------------------------------------------ *)
(* every `unreachable = true` in the map was logged *)
Lemma U_info x y k : info y = info x -> U y k = U x k.
Proof. intros H. unfold U. rewrite H. reflexivity. Qed.
Lemma U_visit_lit x k : U (visit_lit x) k = U x k. Proof. apply U_info, info_visit_lit. Qed.
Lemma U_visit_e e x k : U (visit_e e x) k = U x k. Proof. apply U_info, info_visit_e. Qed.
Lemma U_visit_cond c x k : U (visit_cond c x) k = U x k. Proof. apply U_info, info_visit_cond. Qed.
Lemma U_visit_break l x k : U (visit_break fx l x) k = U x k. Proof. apply U_info, info_visit_break. Qed.
Lemma U_set_end x e k : U (set_end x e) k = U x k. Proof. reflexivity. Qed.
Lemma U_set_mt x b k : U (set_mt x b) k = U x k. Proof. reflexivity. Qed.
Lemma U_block_end p y k : U (block_end p y) k = U y k.
Proof. unfold block_end. destruct (s_end (sc y)); apply U_mark. Qed.
Lemma U_child_exit kd start x c k : U (child_exit fx kd start x c) k = U c k.
Proof.
  unfold child_exit. destruct (s_end (sc c)) as [e|]; [|reflexivity].
  destruct kd; try reflexivity.
  - destruct e; try reflexivity; destruct (fixC fx); try reflexivity; rewrite U_set_end, U_mark; reflexivity.
  - destruct e; rewrite U_set_end, U_mark; reflexivity.
  - cbv zeta. cbn [sc s_fb]. match goal with |- context [match ?o with _ => _ end] => destruct o as [[id|]|] end; try reflexivity.
    destruct (N.eqb id l); reflexivity.
  - rewrite U_mark. reflexivity.
  - rewrite U_mark. reflexivity.
Qed.
Lemma U_while_post r c lo a k : U (while_post_r r c lo a) k = U a k.
Proof.
  unfold while_post_r. destruct (known_true c && oend_forced r && negb (fb_unlabelled (s_fb (sc a)))).
  - destruct r; [rewrite U_set_end, U_mark|]; reflexivity.
  - destruct (known_true c && negb (fb_unlabelled (s_fb (sc a)))); rewrite U_set_end, U_mark; reflexivity.
Qed.
Lemma U_dowhile_post r c lo a k : U (dowhile_post_r fx r c lo a) k = U a k.
Proof.
  unfold dowhile_post_r. destruct (oend_forced r && negb (fb_unlabelled (s_fb (sc a))) && negb (fixA fx && s_fc (sc a))).
  - destruct r; [rewrite U_set_end, U_mark|]; reflexivity.
  - destruct (known_true c && fb_none (s_fb (sc a))); rewrite U_set_end, U_mark; reflexivity.
Qed.
Lemma U_for_post r p c lo a k : U (for_post_r r p c lo a) k = U a k.
Proof.
  unfold for_post_r. destruct (for_forced c a); cbn [negb orb].
  - destruct (fb_unlabelled (s_fb (sc a))); rewrite ?U_set_end, ?U_mark; reflexivity.
  - rewrite U_set_end, U_mark. reflexivity.
Qed.
Lemma U_forin_post lo a k : U (forin_post lo a) k = U a k.
Proof. unfold forin_post. rewrite U_set_end, U_mark. reflexivity. Qed.
Lemma U_if_else_end p r1 r2 x k : U (if_else_end p r1 r2 x) k = U x k.
Proof. unfold if_else_end. destruct (if_else_mark r1 r2); [apply U_mark | reflexivity]. Qed.
Lemma U_tcm e x k : U (try_catch_merge e x) k = U x k. Proof. apply U_info, info_tcm. Qed.
Lemma U_tfm e x k : U (try_finally_merge e x) k = U x k. Proof. apply U_info, info_tfm. Qed.
Lemma U_dowhile_tail prev r p c x k : U (dowhile_tail fx prev r p c x) k = U x k.
Proof. unfold dowhile_tail. rewrite (U_info _ _ k (info_dowhile_test prev c _)). destruct r as [e|]; [destruct (is_forced e); [apply U_mark|]|]; reflexivity. Qed.
Lemma U_switch_tail e p prev x k : U (switch_tail e p prev x) k = U x k.
Proof. unfold switch_tail. destruct (is_forced e); rewrite ?U_set_end, U_mark; reflexivity. Qed.
Lemma U_try_finish p old x k : U (try_finish p old x) k = U x k.
Proof. unfold try_finish. rewrite U_set_mt. destruct (s_end (sc x)); [apply U_mark | reflexivity]. Qed.

Definition logged (k : N) (lg : list gent) : Prop := In (GStmt k true true) lg.
Definition ulog (g : st -> gres) : Prop := forall x k, U (g_st (g x)) k = true -> U x k = true \/ logged k (g_lg (g x)).
Definition ulog_l (g : st -> gres_l) : Prop := forall x k, U (l_st (g x)) k = true -> U x k = true \/ logged k (l_lg (g x)).
Definition ulog_c (g : st -> gres_c) : Prop := forall x k, U (c_st (g x)) k = true -> U x k = true \/ logged k (c_lg (g x)).

Lemma logged_app_l k a b : logged k a -> logged k (a ++ b).
Proof. intros H. apply in_or_app. left. exact H. Qed.
Lemma logged_app_r k a b : logged k b -> logged k (a ++ b).
Proof. intros H. apply in_or_app. right. exact H. Qed.
Lemma logged_cons k g a : logged k a -> logged k (g :: a).
Proof. intros H. right. exact H. Qed.

Lemma ulog_wrap s V : ulog V -> ulog (wrap s V).
Proof.
  intros H x0 k. unfold wrap. rewrite g_st_gcons, g_lg_gcons. intros Hu.
  destruct (H _ _ Hu) as [Hx | Hl]; [|right; apply logged_cons; exact Hl].
  destruct (N.eq_dec k (pos s)) as [->|Hne].
  - rewrite U_set_unreach_eq in Hx. right. left. rewrite Hx, (stmt_unreachable_dead _ _ Hx). reflexivity.
  - rewrite U_set_unreach_neq in Hx; [left; exact Hx | exact Hne].
Qed.

Lemma ulog_leaf (f : st -> st) : (forall x, info (f x) = info x) -> ulog (fun x => (f x, None, [])).
Proof. intros Hi x k. cbn [g_st g_lg fst snd]. rewrite (U_info x (f x) k (Hi x)). intros H. left. exact H. Qed.

Lemma ulog_orb s g : ulog g -> ulog (fun a => orbG s (g a)).
Proof.
  intros H x k. unfold orbG. specialize (H x k). destruct (g x) as [[y r] lg]. cbn [g_st g_lg fst snd] in *.
  destruct (is_brk_or_cont s); cbn [g_st g_lg fst snd]; [rewrite U_mark|]; exact H.
Qed.

Lemma ulog_block_end p g : ulog_l g -> ulog (fun a => block_endG p (g a)).
Proof.
  intros H x k. unfold block_endG. specialize (H x k). destruct (g x) as [[y tops] lg]. cbn [g_st g_lg l_st l_lg fst snd] in *.
  rewrite U_block_end. exact H.
Qed.

Lemma ulog_with_child kd start g : ulog g -> ulog (with_childG fx kd start g).
Proof.
  intros H x k. unfold with_childG. specialize (H (child_enter kd x) k). destruct (g (child_enter kd x)) as [[c r] lg].
  cbn [g_st g_lg fst snd] in *. rewrite U_child_exit. exact H.
Qed.

Lemma ulog_fn p pb g : ulog_l g -> ulog (fn_likeG fx p pb g).
Proof.
  intros H x k. unfold fn_likeG. pose proof (ulog_block_end pb g H (child_enter KFunction x) k) as H'.
  destruct (block_endG pb (g (child_enter KFunction x))) as [[c r] lg]. cbn [g_st g_lg fst snd] in *. rewrite U_child_exit. exact H'.
Qed.

Lemma ulog_arrow p pb g : ulog_l g -> ulog (fun x => let '(y, r, lg) := fn_likeG fx p pb g x in (visit_lit y, r, lg)).
Proof.
  intros H x k. pose proof (ulog_fn p pb g H x k) as H'. destruct (fn_likeG fx p pb g x) as [[y r] lg]. cbn [g_st g_lg fst snd] in *.
  rewrite U_visit_lit. exact H'.
Qed.

Lemma ulog_fn_expr fp pb g : ulog_l g -> ulog (fn_exprG fx fp pb g).
Proof.
  intros H x k. unfold fn_exprG. pose proof (ulog_fn fp pb g H x k) as H'. destruct (fn_likeG fx fp pb g x) as [[y r] lg]. cbn [g_st g_lg fst snd] in *.
  rewrite U_visit_lit. exact H'.
Qed.
Lemma ulog_for_head fp pb g : ulog_l g -> ulog (for_headG fx fp pb g).
Proof. intros H. unfold for_headG. destruct (fixE fx); [apply ulog_fn_expr; exact H | intros x k Hu; left; exact Hu]. Qed.
Lemma ulog_seq g1 g2 : ulog g1 -> ulog g2 -> ulog (seqG g1 g2).
Proof.
  intros H1 H2 x k. unfold seqG. specialize (H1 x k). destruct (g1 x) as [[y r1] lg1]. cbn [g_st g_lg fst snd] in *.
  specialize (H2 y k). destruct (g2 y) as [[z r] lg2]. cbn [g_st g_lg fst snd] in *. intros Hu.
  destruct (H2 Hu) as [H2' | Hl]; [|right; apply logged_app_r; exact Hl].
  destruct (H1 H2') as [H1' | Hl]; [left; exact H1' | right; apply logged_app_l; exact Hl].
Qed.

Lemma ulog_if p c p1 g1 : ulog g1 -> ulog (visit_ifG fx p c p1 g1).
Proof.
  intros H x k. unfold visit_ifG. pose proof (ulog_with_child KIf p1 g1 H (visit_cond c x) k) as H'.
  destruct (with_childG fx KIf p1 g1 (visit_cond c x)) as [[y r] lg]. cbn [g_st g_lg fst snd] in *.
  rewrite U_set_end, U_mark. rewrite U_visit_cond in H'. exact H'.
Qed.

Lemma ulog_if_else p c p1 g1 p2 g2 : ulog g1 -> ulog g2 -> ulog (visit_if_elseG fx p c p1 g1 p2 g2).
Proof.
  intros H1 H2 x k. unfold visit_if_elseG. pose proof (ulog_with_child KIf p1 g1 H1 (visit_cond c x) k) as H1'.
  destruct (with_childG fx KIf p1 g1 (visit_cond c x)) as [[y1 r1] lg1]. cbn [g_st g_lg fst snd] in *.
  pose proof (ulog_with_child KIf p2 g2 H2 y1 k) as H2'.
  destruct (with_childG fx KIf p2 g2 y1) as [[y2 r2] lg2]. cbn [g_st g_lg fst snd] in *.
  rewrite U_if_else_end. rewrite U_visit_cond in H1'. intros Hu.
  destruct (H2' Hu) as [Hy | Hl]; [|right; apply logged_app_r; exact Hl].
  destruct (H1' Hy) as [Hx | Hl]; [left; exact Hx | right; apply logged_app_l; exact Hl].
Qed.

Lemma ulog_while c lo g : ulog g -> ulog (visit_whileG fx c lo g).
Proof.
  intros H x k. unfold visit_whileG.
  set (x0 := if fixF fx then visit_cond c x else x).
  assert (Ux : U x0 k = U x k) by (unfold x0; destruct (fixF fx); [apply U_visit_cond | reflexivity]).
  specialize (H (child_enter KLoop x0) k). destruct (g (child_enter KLoop x0)) as [[a r] lg].
  cbn [g_st g_lg fst snd] in *. change (U (child_enter KLoop x0) k) with (U x0 k) in H. rewrite Ux in H.
  destruct (fixF fx); rewrite ?U_visit_cond, U_child_exit, U_while_post; exact H.
Qed.
Lemma ulog_do_while p c lo g : ulog g -> ulog (visit_do_whileG fx p c lo g).
Proof.
  intros H x k. unfold visit_do_whileG. specialize (H (child_enter KLoop x) k). destruct (g (child_enter KLoop x)) as [[a r] lg].
  cbn [g_st g_lg fst snd] in *. rewrite U_dowhile_tail, U_child_exit, U_dowhile_post. exact H.
Qed.
Lemma ulog_for p c lo g : ulog g -> ulog (visit_forG fx p c lo g).
Proof.
  intros H x k. unfold visit_forG.
  set (x' := match c with Some c0 => visit_cond c0 x | None => x end).
  assert (Ux : U x' k = U x k) by (unfold x'; destruct c; [apply U_visit_cond | reflexivity]).
  specialize (H (child_enter KLoop x') k). destruct (g (child_enter KLoop x')) as [[a r] lg].
  cbn [g_st g_lg fst snd] in *. rewrite U_child_exit, U_for_post. change (U (child_enter KLoop x') k) with (U x' k) in H. rewrite Ux in H. exact H.
Qed.
Lemma ulog_for_in lo g : ulog g -> ulog (visit_for_inG fx lo g).
Proof.
  intros H x k. unfold visit_for_inG. specialize (H (child_enter KLoop x) k). destruct (g (child_enter KLoop x)) as [[a r] lg].
  cbn [g_st g_lg fst snd] in *. rewrite U_child_exit, U_forin_post. exact H.
Qed.
Lemma ulog_label l p g : ulog g -> ulog (fun x => let '(y, _, lg) := with_childG fx (KLabel l) p g x in (y, None, lg)).
Proof.
  intros H x k. pose proof (ulog_with_child (KLabel l) p g H x k) as H'.
  destruct (with_childG fx (KLabel l) p g x) as [[y r] lg]. cbn [g_st g_lg fst snd] in *. exact H'.
Qed.

Lemma ulog_cons s g1 g2 : ulog g1 -> ulog_l g2 -> ulog_l (consG s g1 g2).
Proof.
  intros H1 H2 x k. unfold consG. specialize (H1 x k). destruct (g1 x) as [[y1 r1] lg1]. cbn [g_st g_lg fst snd] in *.
  specialize (H2 y1 k). destruct (g2 y1) as [[y2 tops] lg2]. cbn [l_st l_lg fst snd] in *. intros Hu.
  destruct (H2 Hu) as [Hy | Hl]; [|right; apply logged_app_r; exact Hl].
  destruct (H1 Hy) as [Hx | Hl]; [left; exact Hx | right; apply logged_app_l; exact Hl].
Qed.

Lemma ulog_case cp b g : ulog_l g -> ulog (visit_caseG fx cp b g).
Proof.
  intros H y k. unfold visit_caseG. specialize (H (child_enter KCase y) k). destruct (g (child_enter KCase y)) as [[c tops] lg].
  cbn [g_st g_lg l_st l_lg fst snd] in *. rewrite U_set_end, U_mark, U_child_exit. intros Hu.
  destruct (H Hu) as [Hx | Hl]; [left; exact Hx | right; apply logged_cons; exact Hl].
Qed.
Lemma ulog_consC g1 g2 : ulog g1 -> ulog_c g2 -> ulog_c (consC g1 g2).
Proof.
  intros H1 H2 x k. unfold consC. specialize (H1 x k). destruct (g1 x) as [[y1 r1] lg1]. cbn [g_st g_lg fst snd] in *.
  specialize (H2 y1 k). destruct (g2 y1) as [[y2 rs] lg2]. cbn [c_st c_lg fst snd] in *. intros Hu.
  destruct (H2 Hu) as [Hy | Hl]; [|right; apply logged_app_r; exact Hl].
  destruct (H1 Hy) as [Hx | Hl]; [left; exact Hx | right; apply logged_app_l; exact Hl].
Qed.
Lemma ulog_switch p cs g : ulog_c g -> ulog (visit_switchG p cs g).
Proof.
  intros H x k. unfold visit_switchG. specialize (H x k). destruct (g x) as [[x1 rs] lg]. cbn [g_st g_lg c_st c_lg fst snd] in *.
  rewrite U_switch_tail. exact H.
Qed.

Lemma ulog_handler cp hbp prev g x k :
  ulog_l g -> U (fst (try_handlerG fx cp hbp prev g x)) k = true -> U x k = true \/ logged k (snd (try_handlerG fx cp hbp prev g x)).
Proof.
  intros H. unfold try_handlerG.
  set (xa := set_mt (if s_mt (sc x) then set_end x prev else x) false).
  assert (Ux : U xa k = U x k) by (unfold xa; destruct (s_mt (sc x)); reflexivity).
  pose proof (ulog_with_child KCatch cp _ (ulog_block_end hbp g H) xa k) as H'.
  destruct (with_childG fx KCatch cp (fun a => block_endG hbp (g a)) xa) as [[xb r] lg]. cbn [g_st g_lg fst snd] in *.
  rewrite Ux in H'. destruct (s_mt (sc x)); [rewrite U_tcm | rewrite U_set_end]; exact H'.
Qed.
Lemma ulog_finalizer fp prev g x k :
  ulog_l g -> U (fst (try_finalizerG fx fp prev g x)) k = true -> U x k = true \/ logged k (snd (try_finalizerG fx fp prev g x)).
Proof.
  intros H. unfold try_finalizerG.
  pose proof (ulog_with_child KFinally fp _ (ulog_block_end fp g H) (set_end x prev) k) as H'.
  destruct (with_childG fx KFinally fp (fun a => block_endG fp (g a)) (set_end x prev)) as [[xb r] lg]. cbn [g_st g_lg fst snd] in *.
  rewrite U_tfm. exact H'.
Qed.

Lemma ulog_try p bp gb h gh f gf : ulog_l gb -> (h <> None -> ulog_l gh) -> (f <> None -> ulog_l gf) -> ulog (visit_tryG fx p bp gb h gh f gf).
Proof.
  intros Hb Hh Hf x k. unfold visit_tryG.
  pose proof (ulog_block_end bp gb Hb (set_mt x false) k) as H1.
  destruct (block_endG bp (gb (set_mt x false))) as [[x1 r1] lg1]. cbn [g_st g_lg fst snd] in *.
  assert (H2 : forall x2 lg2, (match h with Some (cp, hbp) => try_handlerG fx cp hbp (s_end (sc x)) gh x1 | None => (x1, []) end) = (x2, lg2) ->
               U x2 k = true -> U x1 k = true \/ logged k lg2).
  { intros x2 lg2 Eq. destruct h as [[cp hbp]|].
    - pose proof (ulog_handler cp hbp (s_end (sc x)) gh x1 k (Hh ltac:(discriminate))) as Hq. rewrite Eq in Hq. exact Hq.
    - injection Eq as <- <-. intros Hu. left. exact Hu. }
  destruct (match h with Some (cp, hbp) => try_handlerG fx cp hbp (s_end (sc x)) gh x1 | None => (x1, []) end) as [x2 lg2].
  specialize (H2 x2 lg2 eq_refl).
  assert (H3 : forall x3 lg3, (match f with Some fp => try_finalizerG fx fp (s_end (sc x)) gf x2 | None => (x2, []) end) = (x3, lg3) ->
               U x3 k = true -> U x2 k = true \/ logged k lg3).
  { intros x3 lg3 Eq. destruct f as [fp|].
    - pose proof (ulog_finalizer fp (s_end (sc x)) gf x2 k (Hf ltac:(discriminate))) as Hq. rewrite Eq in Hq. exact Hq.
    - injection Eq as <- <-. intros Hu. left. exact Hu. }
  destruct (match f with Some fp => try_finalizerG fx fp (s_end (sc x)) gf x2 | None => (x2, []) end) as [x3 lg3].
  specialize (H3 x3 lg3 eq_refl). cbn [g_st g_lg fst snd]. rewrite U_try_finish. intros Hu.
  destruct (H3 Hu) as [H3'|Hl]; [|right; apply logged_app_r, logged_app_r; exact Hl].
  destruct (H2 H3') as [H2'|Hl]; [|right; apply logged_app_r, logged_app_l; exact Hl].
  destruct (H1 H2') as [H1'|Hl]; [left; exact H1' | right; apply logged_app_l; exact Hl].
Qed.

Lemma ulog_ext g g' : (forall x, g x = g' x) -> ulog g' -> ulog g.
Proof. intros Eg H x k. rewrite Eg. apply H. Qed.

Theorem anG_ulog : (forall s, ulog (anG fx s)) /\ (forall l, ulog_l (anG_list fx l)) /\ (forall cs, ulog_c (anG_cases fx cs)).
Proof.
  apply stmt_mutind.
  - intros p e. apply (ulog_wrap (SExpr p e) (fun x => (visit_e e x, None, []))). apply ulog_leaf. apply info_visit_e.
  - intros p. apply (ulog_wrap (SEmpty p) (fun x => (x, None, []))). apply (ulog_leaf (fun x => x)). reflexivity.
  - intros p v i. apply (ulog_wrap (SVar p v i) (fun x => (match i with Some e => visit_e e x | None => x end, None, []))).
    apply (ulog_leaf (fun x => match i with Some e => visit_e e x | None => x end)). intros x. destruct i; [apply info_visit_e | reflexivity].
  - intros p n pb b IHb. apply (ulog_wrap (SFnDecl p n pb b) (fn_likeG fx p pb (anG_list fx b))). apply ulog_fn. exact IHb.
  - intros p pb b IHb. apply (ulog_wrap (SArrowStmt p pb b) (fun x => let '(y, r, lg) := fn_likeG fx p pb (anG_list fx b) x in (visit_lit y, r, lg))).
    apply ulog_arrow. exact IHb.
  - intros p gp pb b IHb. apply (ulog_wrap (SGetterStmt p gp pb b) (fn_exprG fx gp pb (anG_list fx b))). apply ulog_fn_expr. exact IHb.
  - intros p a. apply (ulog_wrap (SRet p a) (fun x => let '(y, r) := visit_returnG p a x in (y, r, []))).
    intros x k. unfold visit_returnG. cbn [g_st g_lg fst snd]. rewrite U_mark. destruct a; [rewrite U_visit_e|]; intros H; left; exact H.
  - intros p e. apply (ulog_wrap (SThrow p e) (fun x => let '(y, r) := visit_throwG fx p e x in (y, r, []))).
    intros x k. unfold visit_throwG. cbn [g_st g_lg fst snd]. rewrite U_mark. destruct (fixD fx); rewrite ?U_visit_lit, U_visit_e; intros H; left; exact H.
  - intros p l. apply (ulog_wrap (SBrk p l) (fun x => (visit_break fx l x, None, []))). apply ulog_leaf. apply info_visit_break.
  - intros p l. apply (ulog_wrap (SCont p l) (fun x => (set_fc x true, None, []))). apply (ulog_leaf (fun x => set_fc x true)). reflexivity.
  - intros p b IHb. apply (ulog_wrap (SBlock p b) (fun a => block_endG p (anG_list fx b a))). apply ulog_block_end. exact IHb.
  - intros p c a IHa. apply (ulog_wrap (SIf p c a) (visit_ifG fx p c (pos a) (fun y => orbG a (anG fx a y)))). apply ulog_if, ulog_orb. exact IHa.
  - intros p c a IHa b IHb.
    apply (ulog_wrap (SIfElse p c a b) (visit_if_elseG fx p c (pos a) (fun y => orbG a (anG fx a y)) (pos b) (fun y => orbG b (anG fx b y)))).
    apply ulog_if_else; apply ulog_orb; assumption.
  - intros p c b IHb. apply (ulog_wrap (SWhile p c b) (visit_whileG fx c (pos b) (anG fx b))). apply ulog_while. exact IHb.
  - intros p b IHb c. apply (ulog_wrap (SDoWhile p b c) (visit_do_whileG fx p c (pos b) (anG fx b))). apply ulog_do_while. exact IHb.
  - intros p i c u b IHb. apply (ulog_wrap (SFor p i c u b) (fun x => visit_forG fx p c (pos b) (anG fx b) (visit_oe u (visit_oe i x)))).
    intros x k Hu. destruct (ulog_for p c (pos b) _ IHb _ k Hu) as [H | H]; [left | right; exact H].
    rewrite (U_info x _ k (eq_trans (info_visit_oe u _) (info_visit_oe i x))) in H. exact H.
  - intros p b IHb. apply (ulog_wrap (SForIn p b) (visit_for_inG fx (pos b) (anG fx b))). apply ulog_for_in. exact IHb.
  - intros p b IHb. apply (ulog_wrap (SForOf p b) (visit_for_inG fx (pos b) (anG fx b))). apply ulog_for_in. exact IHb.
  - intros p g fp pb hb IHh b IHb.
    apply (ulog_wrap (SForHead p g fp pb hb b) (seqG (for_headG fx fp pb (anG_list fx hb)) (visit_for_inG fx (pos b) (anG fx b)))).
    apply ulog_seq; [apply ulog_for_head; exact IHh | apply ulog_for_in; exact IHb].
  - intros p cs IHc. apply (ulog_wrap (SSwitch p cs) (visit_switchG p cs (anG_cases fx cs))). apply ulog_switch. exact IHc.
  - intros p l b IHb.
    apply (ulog_wrap (SLabel p l b) (fun x => let '(y, _, lg) := with_childG fx (KLabel l) p (fun a => orbG b (anG fx b a)) x in (y, None, lg))).
    apply ulog_label, ulog_orb. exact IHb.
  - intros p bp blk IHb h hb IHh f fb IHf.
    apply (ulog_wrap (STry p bp blk h hb f fb) (visit_tryG fx p bp (anG_list fx blk) h (anG_list fx hb) f (anG_list fx fb))).
    apply ulog_try; [exact IHb | intros _; exact IHh | intros _; exact IHf].
  - intros x k H. left. exact H.
  - intros s IHs r IHr. eapply (ulog_cons s (fun a => orbG s (anG fx s a)) (anG_list fx r)); [apply ulog_orb; exact IHs | exact IHr].
  - intros x k H. left. exact H.
  - intros cp d ft b IHb r IHr.
    apply (ulog_consC (fun y => visit_caseG fx cp b (anG_list fx b) (visit_test d y)) (anG_cases fx r)); [|exact IHr].
    intros x k Hu. destruct (ulog_case cp b _ IHb (visit_test d x) k Hu) as [H|H]; [left | right; exact H].
    rewrite (U_info x (visit_test d x) k (info_visit_test d x)) in H. exact H.
Qed.

End Map.
