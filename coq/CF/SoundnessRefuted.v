(* C10/C11 are FALSE of the faithful model of /repo/src/control_flow/mod.rs: witnesses for the
   defect classes A (do-while + continue), B (single found_break slot), C (function-start key
   collision) and D (`throw <identifier>` does not record may_throw).  Each witness is well
   formed, violates the property on the faithful model, and stops violating it when ONLY the
   repair of its class is switched on. *)
From V Require Import CF.Soundness CF.SemDecide CF.SemDecideProofs CF.Oracle.

Definition only_A := {| fixA := true; fixB := false; fixC := false; fixD := false; fixE := false; fixF := false |}.
Definition only_B := {| fixA := false; fixB := true; fixC := false; fixD := false; fixE := false; fixF := false |}.
Definition only_C := {| fixA := false; fixB := false; fixC := true; fixD := false; fixE := false; fixF := false |}.
Definition only_D := {| fixA := false; fixB := false; fixC := false; fixD := true; fixE := false; fixF := false |}.

(* function f() { do try { throw 1; } finally { continue; } while (v2); v1; } *)
Definition wA_c10 : program :=
  {| p_getter := false; p_start := 0; p_pb := 13; p_body := (SCons (SDoWhile 15 (STry 18 22 (SCons (SThrow 24 ELit) SNil) None SNil (Some 43) (SCons (SCont 45 None) SNil)) (COpaque (EIdent 2))) (SCons (SExpr 69 (EIdent 1)) SNil)) |}.
(* ({get a() { do try { return 1; } finally { continue; } while (v2); }}) *)
Definition wA_getter : program :=
  {| p_getter := true; p_start := 2; p_pb := 10; p_body := (SCons (SDoWhile 12 (STry 15 19 (SCons (SRet 21 (Some ELit)) SNil) None SNil (Some 41) (SCons (SCont 43 None) SNil)) (COpaque (EIdent 2))) SNil) |}.
(* function f() { L1: { for (;;) { if (v1) break L1; if (v2) break; } v3(); } } *)
Definition wB_c10 : program :=
  {| p_getter := false; p_start := 0; p_pb := 13; p_body := (SCons (SLabel 15 1 (SBlock 19 (SCons (SFor 21 None None None (SBlock 30 (SCons (SIf 32 (COpaque (EIdent 1)) (SBrk 40 (Some 1))) (SCons (SIf 50 (COpaque (EIdent 2)) (SBrk 58 None)) SNil)))) (SCons (SExpr 67 (ECall 3)) SNil)))) SNil) |}.
(* ({get a() { do L1: if (v2) break L1; else break; while (true); }}) *)
Definition wB_getter : program :=
  {| p_getter := true; p_start := 2; p_pb := 10; p_body := (SCons (SDoWhile 12 (SLabel 15 1 (SIfElse 19 (COpaque (EIdent 2)) (SBrk 27 (Some 1)) (SBrk 42 None))) CTrue) SNil) |}.
(* function f() { if (v1) () => { throw 1; }; else () => { throw 1; }; v3(); } *)
Definition wC_c10 : program :=
  {| p_getter := false; p_start := 0; p_pb := 13; p_body := (SCons (SIfElse 15 (COpaque (EIdent 1)) (SArrowStmt 23 29 (SCons (SThrow 31 ELit) SNil)) (SArrowStmt 48 54 (SCons (SThrow 56 ELit) SNil))) (SCons (SExpr 68 (ECall 3)) SNil)) |}.
(* function f() { switch (d) { case 0: function v5() { return 1; } case 1: v999(); } } *)
Definition wC_case_body := SCons (SFnDecl 36 5 50 (SCons (SRet 52 (Some ELit)) SNil)) SNil.
Definition wC_case_cases := CCons 28 (Some ELit) false wC_case_body (CCons 64 (Some ELit) false (SCons (SExpr 72 (ECall 999)) SNil) CNil).
Definition wC_case : program :=
  {| p_getter := false; p_start := 0; p_pb := 13; p_body := SCons (SSwitch 15 wC_case_cases) SNil |}.
(* function f() { try { throw v1; } catch (e) { } v1; } *)
Definition wD_c10 : program :=
  {| p_getter := false; p_start := 0; p_pb := 13; p_body := (SCons (STry 15 19 (SCons (SThrow 21 (EIdent 1)) SNil) (Some (33, 43)) SNil None SNil) (SCons (SExpr 47 (EIdent 1)) SNil)) |}.
(* ({get a() { try { throw v3; } catch (e) { } }}) *)
Definition wD_getter : program :=
  {| p_getter := true; p_start := 2; p_pb := 10; p_body := (SCons (STry 12 16 (SCons (SThrow 18 (EIdent 3)) SNil) (Some (30, 40)) SNil None SNil) SNil) |}.
(* function f() { switch (d) { case 0: try { throw v3; } catch (e) { } case 1: v999(); } } *)
Definition wD_case_body := SCons (STry 36 40 (SCons (SThrow 42 (EIdent 3)) SNil) (Some (54, 64)) SNil None SNil) SNil.
Definition wD_case_cases := CCons 28 (Some ELit) false wD_case_body (CCons 68 (Some ELit) false (SCons (SExpr 76 (ECall 999)) SNil) CNil).
Definition wD_case : program :=
  {| p_getter := false; p_start := 0; p_pb := 13; p_body := SCons (SSwitch 15 wD_case_cases) SNil |}.

Definition only_F := {| fixA := false; fixB := false; fixC := false; fixD := false; fixE := false; fixF := true |}.
(* function f() { try { while ((v1(), true)) { } } catch (e) { v2; } } *)
Definition wF_c10 : program :=
  {| p_getter := false; p_start := 0; p_pb := 13; p_body := (SCons (STry 15 19 (SCons (SWhile 21 (CSeq (ECall 1) true) (SBlock 42 SNil)) SNil) (Some (48, 58)) (SCons (SExpr 60 (EIdent 2)) SNil) None SNil) SNil) |}.
(* function f() { try { do { } while ((v1(), true)); } catch (e) { v2; } } *)
Definition wF_c10_do : program :=
  {| p_getter := false; p_start := 0; p_pb := 13; p_body := (SCons (STry 15 19 (SCons (SDoWhile 21 (SBlock 24 SNil) (CSeq (ECall 1) true)) SNil) (Some (52, 62)) (SCons (SExpr 64 (EIdent 2)) SNil) None SNil) SNil) |}.
(* ({get a() { try { while ((v1(), true)) { } } catch (e) { } }}) *)
Definition wF_getter : program :=
  {| p_getter := true; p_start := 2; p_pb := 10; p_body := (SCons (STry 12 16 (SCons (SWhile 18 (CSeq (ECall 1) true) (SBlock 39 SNil)) SNil) (Some (45, 55)) SNil None SNil) SNil) |}.
(* function f() { switch (d) { case 0: try { while ((v1(), true)) { } } catch (e) { } case 1: v999(); } } *)
Definition wF_case_body := SCons (STry 36 40 (SCons (SWhile 42 (CSeq (ECall 1) true) (SBlock 63 SNil)) SNil) (Some (69, 79)) SNil None SNil) SNil.
Definition wF_case_cases := CCons 28 (Some ELit) false wF_case_body (CCons 83 (Some ELit) false (SCons (SExpr 91 (ECall 999)) SNil) CNil).
Definition wF_case : program :=
  {| p_getter := false; p_start := 0; p_pb := 13; p_body := SCons (SSwitch 15 wF_case_cases) SNil |}.

Definition c10_witness (p : program) (pi : N) (only : fixes) : Prop :=
  wf p /\ In pi (no_unreachable faithful p) /\ prog_enters p pi /\ c10_violations only p = [].
Definition getter_witness (p : program) (only : fixes) : Prop :=
  wf p /\ p_getter p = true /\ prog_falls_off_end p /\ ~ In (p_start p) (getter_return faithful p)
  /\ c11_getter_violation only p = false.
Definition case_witness (p : program) (sw : N) (cs : cases) (b : stmts) (only : fixes) : Prop :=
  wf p /\ sub_stmts (SSwitch sw cs) (p_body p) /\ prog_enters p sw /\ case_in b cs
  /\ any_stops (analyze faithful p) b = true /\ exec_l b Normal /\ c11_case_violations only p = [].

Ltac c10_wit :=
  unfold c10_witness; split; [vm_compute; reflexivity|]; split; [vm_compute; tauto|];
  split; [apply prog_enters_iff; vm_compute; reflexivity | vm_compute; reflexivity].
Ltac getter_wit :=
  unfold getter_witness; split; [vm_compute; reflexivity|]; split; [reflexivity|];
  split; [apply prog_falls_off_iff; vm_compute; reflexivity|];
  split; [vm_compute; tauto | vm_compute; reflexivity].
Ltac case_wit :=
  unfold case_witness; split; [vm_compute; reflexivity|];
  split; [cbn [p_body]; apply SubL_here; apply Sub_self|];
  split; [apply prog_enters_iff; vm_compute; reflexivity|];
  split; [apply CI_here|];
  split; [vm_compute; reflexivity|];
  split; [apply exec_l_iff_csem; vm_compute; reflexivity | vm_compute; reflexivity].

Theorem C10_refuted_A : c10_witness wA_c10 69 only_A. Proof. c10_wit. Qed.
Theorem C10_refuted_B : c10_witness wB_c10 67 only_B. Proof. c10_wit. Qed.
Theorem C10_refuted_C : c10_witness wC_c10 68 only_C. Proof. c10_wit. Qed.
Theorem C10_refuted_D : c10_witness wD_c10 47 only_D. Proof. c10_wit. Qed.
Theorem C11_getter_refuted_A : getter_witness wA_getter only_A. Proof. getter_wit. Qed.
Theorem C11_getter_refuted_B : getter_witness wB_getter only_B. Proof. getter_wit. Qed.
Theorem C11_getter_refuted_D : getter_witness wD_getter only_D. Proof. getter_wit. Qed.
Theorem C11_case_refuted_C : case_witness wC_case 15 wC_case_cases wC_case_body only_C. Proof. case_wit. Qed.
Theorem C11_case_refuted_D : case_witness wD_case 15 wD_case_cases wD_case_body only_D. Proof. case_wit. Qed.

Theorem C10_refuted_F : c10_witness wF_c10 60 only_F. Proof. c10_wit. Qed.
Theorem C10_refuted_F_do : c10_witness wF_c10_do 64 only_F. Proof. c10_wit. Qed.
Theorem C11_getter_refuted_F : getter_witness wF_getter only_F. Proof. getter_wit. Qed.
Theorem C11_case_refuted_F : case_witness wF_case 15 wF_case_cases wF_case_body only_F. Proof. case_wit. Qed.

(* the same witnesses against the code as it was right before the fix commit F (A, B, D, E applied) *)
Definition before_F := {| fixA := true; fixB := true; fixC := false; fixD := true; fixE := true; fixF := false |}.
Theorem C10_refuted_right_before_fix_F :
  wf wF_c10 /\ fn_stmt_safe wF_c10 /\ In 60 (no_unreachable before_F wF_c10) /\ prog_enters wF_c10 60 /\ no_unreachable current wF_c10 = [].
Proof.
  split; [vm_compute; reflexivity|]. split; [vm_compute; reflexivity|]. split; [vm_compute; tauto|].
  split; [apply prog_enters_iff; vm_compute; reflexivity | vm_compute; reflexivity].
Qed.

Theorem C10_refuted : ~ C10_holds faithful.
Proof.
  intros H. destruct C10_refuted_A as [Hwf [Hin [Hent _]]]. exact (H _ _ Hwf Hin Hent).
Qed.

Theorem C11_getter_refuted : ~ C11_getter_holds faithful.
Proof.
  intros H. destruct C11_getter_refuted_A as [Hwf [Hg [Hfall [Hnot _]]]]. exact (Hnot (H _ Hwf Hg Hfall)).
Qed.

Theorem C11_case_refuted : ~ C11_case_holds faithful.
Proof.
  intros H. destruct C11_case_refuted_C as [Hwf [Hsub [Hent [Hin [Hstop [Hex _]]]]]].
  exact (H _ _ _ _ Hwf Hsub Hent Hin Hstop Hex).
Qed.

Print Assumptions C10_refuted.
Print Assumptions C11_getter_refuted.
Print Assumptions C11_case_refuted.
Print Assumptions C10_refuted_B.
Print Assumptions C10_refuted_C.
Print Assumptions C10_refuted_D.
Print Assumptions C11_case_refuted_D.
Print Assumptions C10_refuted_F.
Print Assumptions C11_getter_refuted_F.
Print Assumptions C11_case_refuted_F.
Print Assumptions C10_refuted_right_before_fix_F.
