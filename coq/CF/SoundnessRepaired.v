(* C10/C11 - soundness of the analyzer model with the candidate repairs switched on.

   Layers (DESIGN.md, C10/C11):
     (1) SoundnessMap.v   the ghost analyzer `anG` (no reads of the result map) computes the same state
                          as the map-based `an` when all keys are pairwise distinct (`wf`);
     (2) SoundnessInv.v   invariants P1-P6 of `anG` against the executable semantics;
     (3) SemDecideProofs.v  executable semantics <-> inductive specification (Semantics.v). *)
From V Require Import CF.Soundness CF.AnalyzerG CF.SemDecide CF.SemDecideProofs CF.SoundnessInv CF.SoundnessMap.

Lemma nodupb_NoDup l : nodupb l = true -> NoDup l.
Proof.
  induction l as [|x r IH]; cbn [nodupb]; [constructor|]. intros H. apply andb_true_iff in H. destruct H as [H1 H2].
  constructor; [|apply IH; exact H2]. intros Hin. apply memN_In in Hin. rewrite Hin in H1. discriminate.
Qed.

Lemma wf_keys p : wf p -> NoDup (p_pb p :: keys_l (p_body p)).
Proof.
  unfold wf, wfb. intros H. apply andb_true_iff in H. destruct H as [H _]. apply nodupb_NoDup in H.
  inversion H; subst. assumption.
Qed.

Lemma fresh_init K : fresh init_st K.
Proof. intros k _. reflexivity. Qed.

(* layer 1 at program level: the map-based analysis is the ghost analysis *)
Lemma analyze_ghost fxs p : wf p ->
  analyze_st fxs p = g_st (analyzeG fxs p) /\
  E (analyze_st fxs p) (p_pb p) = g_rs (analyzeG fxs p).
Proof.
  intros Hwf. pose proof (wf_keys p Hwf) as Hn. apply NoDup_cons_inv in Hn. destruct Hn as [Hpb Hnb].
  destruct (an_anG fxs) as [_ [HL _]].
  destruct (sim_block_end (p_pb p) _ _ _ (HL (p_body p) Hnb) init_st (fresh_init _)) as [E1 [E2 _]].
  unfold analyze_st, analyzeG. rewrite E1. split; [reflexivity | exact E2].
Qed.

Theorem C10_sound_repaired : C10_holds repaired.
Proof.
  intros p pi Hwf Hin Hent.
  unfold no_unreachable, no_unreachable_on in Hin. apply in_map_iff in Hin. destruct Hin as [t [Ept Hin]].
  apply filter_In in Hin. destruct Hin as [_ Hfl]. unfold flagged_unreachable in Hfl. apply andb_true_iff in Hfl. destruct Hfl as [_ Hu].
  destruct (analyze_ghost repaired p Hwf) as [Est _].
  assert (HU : U (g_st (analyzeG repaired p)) pi = true).
  { unfold U. rewrite <- Est. unfold analyze in Hu. rewrite Ept in Hu. exact Hu. }
  destruct (anG_ulog repaired) as [_ [HL _]].
  pose proof (ulog_block_end (p_pb p) _ (HL (p_body p)) init_st pi HU) as Hlog.
  destruct Hlog as [Hbad | Hlog]; [discriminate Hbad|].
  pose proof (wf_keys p Hwf) as Hn. apply NoDup_cons_inv in Hn. destruct Hn as [Hpb Hnb].
  destruct (ghost_sound p Hnb) as [HC10 _].
  apply (HC10 pi true Hlog). apply memN_In. apply prog_enters_iff. exact Hent.
Qed.

Theorem C11_getter_sound_repaired : C11_getter_holds repaired.
Proof.
  intros p Hwf Hg Hfall. unfold getter_return, getter_return_on. rewrite Hg. apply in_or_app. left.
  assert (Hc : getter_body_continues (analyze repaired p) p = true).
  { unfold getter_body_continues. destruct (iget (analyze repaired p) (p_pb p)) as [m|] eqn:Em; [|reflexivity].
    destruct (analyze_ghost repaired p Hwf) as [_ Er].
    pose proof (wf_keys p Hwf) as Hn. apply NoDup_cons_inv in Hn. destruct Hn as [Hpb Hnb].
    destruct (ghost_sound p Hnb) as [_ [HG _]].
    unfold continues_execution. unfold E, get_end_reason in Er. unfold analyze in Em. rewrite Em in Er. rewrite Er.
    apply HG. apply prog_falls_off_iff. exact Hfall. }
  rewrite Hc. left. reflexivity.
Qed.

Print Assumptions C10_sound_repaired.
Print Assumptions C11_getter_sound_repaired.

(* ------------------------------------------------------------------ *)
(* C11, no-fallthrough.  Proved so far, for every well-formed program (`ghost_sound`, third part, together
   with `analyze_ghost`): the ghost analysis computes the same state as the map-based one, and every case
   whose switch was analysed live and whose "stops" flag (computed from the ghost end reasons of its
   top-level statements) is set cannot complete normally.  What is NOT yet proved is the last link of
   layer 1 for this rule (SoundnessCases.v has the first half): that the "stops" flag in the ghost log equals
   `any_stops` evaluated on the FINAL map (no later write touches the keys of the top-level statements of a
   case) and that every switch/case has its log entries.  Both are checked on every generated program by `tools/cf.py`
   (sub-command `ghost` of the extracted driver: states equal, logged flags = map, logged stops = any_stops).
   The full statement, to be proved:

     Theorem C11_case_sound_repaired : C11_case_holds repaired.

   i.e.  forall p sw cs b, wf p -> sub_stmts (SSwitch sw cs) (p_body p) -> prog_enters p sw -> case_in b cs ->
         any_stops (analyze repaired p) b = true -> ~ exec_l b Normal.                                        *)
Theorem C11_case_sound_ghost (p : program) :
  wf p -> forall b, In (GCase b true true) (g_lg (analyzeG repaired p)) -> ~ exec_l b Normal.
Proof.
  intros Hwf b Hin Hex. pose proof (wf_keys p Hwf) as Hn. apply NoDup_cons_inv in Hn. destruct Hn as [_ Hnb].
  destruct (ghost_sound p Hnb) as [_ [_ HC]]. apply exec_l_iff_csem in Hex. cbn [cin] in Hex.
  rewrite (HC b Hin) in Hex. discriminate.
Qed.

Print Assumptions C11_case_sound_ghost.
