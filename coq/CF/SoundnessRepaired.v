(* C10/C11 - soundness of the analyzer model with the candidate repairs switched on.

   Layers (DESIGN.md, C10/C11):
     (1) SoundnessMap.v   the ghost analyzer `anG` (no reads of the result map) computes the same state
                          as the map-based `an` when all keys are pairwise distinct (`wf`);
     (2) SoundnessInv.v   invariants P1-P6 of `anG` against the executable semantics;
     (3) SemDecideProofs.v  executable semantics <-> inductive specification (Semantics.v). *)
From V Require Import CF.Soundness CF.AnalyzerG CF.SemDecide CF.SemDecideProofs CF.SoundnessInv CF.SoundnessMap CF.SoundnessCases.

Lemma nodupb_NoDup l : nodupb l = true -> NoDup l.
Proof.
  induction l as [|x r IH]; cbn [nodupb]; [constructor|]. intros H. apply andb_true_iff in H. destruct H as [H1 H2].
  constructor; [|apply IH; exact H2]. intros Hin. apply memN_In in Hin. rewrite Hin in H1. discriminate.
Qed.

Lemma wf_keys p : wf p -> NoDup (p_pb p :: keys_l (p_body p)).
Proof.
  unfold wf, wfb. intros H. apply andb_true_iff in H. destruct H as [H _]. apply nodupb_NoDup in H.
  inversion H; subst. assumption.
Qed.

Lemma fresh_init K : fresh init_st K.
Proof. intros k _. reflexivity. Qed.

(* layer 1 at program level: the map-based analysis is the ghost analysis *)
Lemma analyze_ghost fxs p : wf p ->
  analyze_st fxs p = g_st (analyzeG fxs p) /\
  E (analyze_st fxs p) (p_pb p) = g_rs (analyzeG fxs p).
Proof.
  intros Hwf. pose proof (wf_keys p Hwf) as Hn. apply NoDup_cons_inv in Hn. destruct Hn as [Hpb Hnb].
  destruct (an_anG fxs) as [_ [HL _]].
  destruct (sim_block_end (p_pb p) _ _ _ (HL (p_body p) Hnb) init_st (fresh_init _)) as [E1 [E2 _]].
  unfold analyze_st, analyzeG. rewrite E1. split; [reflexivity | exact E2].
Qed.

Theorem C10_sound_repaired : C10_holds repaired.
Proof.
  intros p pi Hwf Hin Hent.
  unfold no_unreachable, no_unreachable_on in Hin. apply in_map_iff in Hin. destruct Hin as [t [Ept Hin]].
  apply filter_In in Hin. destruct Hin as [_ Hfl]. unfold flagged_unreachable in Hfl. apply andb_true_iff in Hfl. destruct Hfl as [_ Hu].
  destruct (analyze_ghost repaired p Hwf) as [Est _].
  assert (HU : U (g_st (analyzeG repaired p)) pi = true).
  { unfold U. rewrite <- Est. unfold analyze in Hu. rewrite Ept in Hu. exact Hu. }
  destruct (anG_ulog repaired) as [_ [HL _]].
  pose proof (ulog_block_end (p_pb p) _ (HL (p_body p)) init_st pi HU) as Hlog.
  destruct Hlog as [Hbad | Hlog]; [discriminate Hbad|].
  pose proof (wf_keys p Hwf) as Hn. apply NoDup_cons_inv in Hn. destruct Hn as [Hpb Hnb].
  destruct (ghost_sound p Hnb) as [HC10 _].
  apply (HC10 pi true Hlog). apply memN_In. apply prog_enters_iff. exact Hent.
Qed.

Theorem C11_getter_sound_repaired : C11_getter_holds repaired.
Proof.
  intros p Hwf Hg Hfall. unfold getter_return, getter_return_on, all_getters. rewrite Hg. cbn [app flat_map].
  apply in_or_app. left. unfold getter_diags. cbn [fst snd]. apply in_or_app. left.
  change (getter_entry_continues (analyze repaired p) (p_pb p)) with (getter_body_continues (analyze repaired p) p).
  assert (Hc : getter_body_continues (analyze repaired p) p = true).
  { unfold getter_body_continues, getter_entry_continues. destruct (iget (analyze repaired p) (p_pb p)) as [m|] eqn:Em; [|reflexivity].
    destruct (analyze_ghost repaired p Hwf) as [_ Er].
    pose proof (wf_keys p Hwf) as Hn. apply NoDup_cons_inv in Hn. destruct Hn as [Hpb Hnb].
    destruct (ghost_sound p Hnb) as [_ [HG _]].
    unfold continues_execution. unfold E, get_end_reason in Er. unfold analyze in Em. rewrite Em in Er. rewrite Er.
    apply HG. apply prog_falls_off_iff. exact Hfall. }
  rewrite Hc. left. reflexivity.
Qed.

Print Assumptions C10_sound_repaired.
Print Assumptions C11_getter_sound_repaired.

(* ------------------------------------------------------------------ *)
(* C11, no-fallthrough: layer 1 for this rule is SoundnessCases.v (the logged "stops" flag of a case is
   `any_stops` on the FINAL map; every switch/case has its log entries). *)
Theorem C11_case_sound_ghost (p : program) :
  wf p -> forall b, In (GCase b true true) (g_lg (analyzeG repaired p)) -> ~ exec_l b Normal.
Proof.
  intros Hwf b Hin Hex. pose proof (wf_keys p Hwf) as Hn. apply NoDup_cons_inv in Hn. destruct Hn as [_ Hnb].
  destruct (ghost_sound p Hnb) as [_ [_ HC]]. apply exec_l_iff_csem in Hex. cbn [cin] in Hex.
  rewrite (HC b Hin) in Hex. discriminate.
Qed.

Theorem C11_case_sound_repaired : C11_case_holds repaired.
Proof.
  intros p sw cs b Hwf Hsub Hent Hcase Hstops Hex.
  pose proof (wf_keys p Hwf) as Hn. apply NoDup_cons_inv in Hn. destruct Hn as [Hpb Hnb].
  destruct (analyze_ghost repaired p Hwf) as [Est _].
  (* the log entries of the switch and of the case *)
  destruct (switch_entries repaired eq_refl) as [_ [HE _]].
  destruct (HE _ _ Hsub sw cs eq_refl init_st) as [d [fl [Hsw Hcs]]]. destruct (Hcs b Hcase) as [stops Hb].
  (* the logged flag is any_stops on the final map *)
  destruct (case_flags_stable repaired) as [_ [HS _]].
  pose proof (HS (p_body p) Hnb init_st (fresh_init _)) as Hcl.
  assert (Hfinal : any_stops (analyze repaired p) b = stops).
  { unfold analyze. rewrite Est. unfold analyzeG, block_endG.
    destruct (anG_list repaired (p_body p) init_st) as [[y tops] lg] eqn:Eg. cbn [l_lg l_st g_st fst snd] in *.
    destruct (Hcl b (negb d) stops Hb) as [Hin Hs]. rewrite <- Hs. apply any_stops_stable. intros t Ht.
    unfold block_end. destruct (s_end (sc y)); apply iget_mark_neq; intros Eq; apply Hpb; rewrite <- Eq; apply (Hin t Ht). }
  rewrite Hfinal in Hstops. subst stops.
  (* an entered switch was analysed live *)
  destruct (ghost_sound p Hnb) as [HC10 [_ HC]].
  assert (Hlg : g_lg (analyzeG repaired p) = l_lg (anG_list repaired (p_body p) init_st)) by (unfold analyzeG; apply lg_block_end).
  destruct d.
  - assert (Hsw' : In (GStmt sw true fl) (g_lg (analyzeG repaired p))) by (rewrite Hlg; exact Hsw).
    exfalso. apply (HC10 sw fl Hsw'). apply memN_In. apply prog_enters_iff. exact Hent.
  - cbn [negb] in Hb. assert (Hb' : In (GCase b true true) (g_lg (analyzeG repaired p))) by (rewrite Hlg; exact Hb).
    apply exec_l_iff_csem in Hex. cbn [cin] in Hex. rewrite (HC b Hb') in Hex. discriminate.
Qed.

Print Assumptions C11_case_sound_ghost.
Print Assumptions C11_case_sound_repaired.
