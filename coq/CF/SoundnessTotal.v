(* C10/C11 - `analyzer_total`: the `unwrap`s of the analyzer (modelled as the `panic` flag)
   never fail, and the entry of the function body that getter-return unwraps exists.
   Holds for every program (well formed or not) and every combination of repairs. *)
From V Require Import CF.Soundness.

Section Total.
Variable fx : fixes.

Lemma panic_set_unreach k b x : panic (set_unreach k b x) = panic x.
Proof. reflexivity. Qed.
Lemma panic_mark k e x : panic (mark_as_end k e x) = panic x.
Proof. unfold mark_as_end. destruct (s_end (sc x)) as [[r t i| |]|]; reflexivity. Qed.
Lemma panic_visit_lit x : panic (visit_lit x) = panic x.
Proof. unfold visit_lit. destruct (live_now x); reflexivity. Qed.
Lemma panic_visit_ident id x : panic (visit_ident id x) = panic x.
Proof. unfold visit_ident. destruct (live_now x); reflexivity. Qed.
Lemma panic_visit_e e x : panic (visit_e e x) = panic x.
Proof. destruct e; cbn [visit_e]; rewrite ?panic_visit_lit, ?panic_visit_ident; reflexivity. Qed.
Lemma panic_visit_cond c x : panic (visit_cond c x) = panic x.
Proof. destruct c; cbn [visit_cond]; rewrite ?panic_visit_lit, ?panic_visit_e; reflexivity. Qed.
Lemma panic_orb_mark s x : panic (orb_mark s x) = panic x.
Proof. unfold orb_mark. destruct (is_brk_or_cont s); rewrite ?panic_mark; reflexivity. Qed.
Lemma panic_block_end p x : panic (block_end p x) = panic x.
Proof. unfold block_end. destruct (s_end (sc x)); apply panic_mark. Qed.
Lemma panic_child_enter k x : panic (child_enter k x) = panic x.
Proof. reflexivity. Qed.
Lemma panic_visit_break l x : panic (visit_break fx l x) = panic x.
Proof. unfold visit_break. destruct (fixB fx); [destruct l; [destruct (s_fb (sc x))|]|]; reflexivity. Qed.

Lemma panic_child_exit k start x c : panic (child_exit fx k start x c) = panic c.
Proof.
  unfold child_exit. destruct (s_end (sc c)) as [e|]; [|reflexivity].
  destruct k.
  - destruct e; destruct (fixC fx); cbn [set_end with_sc panic]; rewrite ?panic_mark; reflexivity.
  - reflexivity.
  - reflexivity.
  - destruct e; cbn [set_end with_sc panic]; rewrite panic_mark; reflexivity.
  - cbv zeta. cbn [sc s_fb].
    match goal with |- panic (match ?o with _ => _ end) = _ => destruct o as [[id|]|] end; try reflexivity.
    destruct (N.eqb id l); reflexivity.
  - rewrite panic_mark. reflexivity.
  - rewrite panic_mark. reflexivity.
Qed.

Lemma panic_while_post c body_lo a : panic (while_post c body_lo a) = panic a.
Proof.
  unfold while_post. destruct (get_end_reason a body_lo) as [e|]; cbn [oend_forced].
  - destruct (known_true c && is_forced e && negb (fb_unlabelled (s_fb (sc a)))); [cbn [set_end with_sc panic]; apply panic_mark|].
    destruct (known_true c && negb (fb_unlabelled (s_fb (sc a)))); cbn [set_end with_sc panic]; apply panic_mark.
  - rewrite andb_false_r. cbn [andb].
    destruct (known_true c && negb (fb_unlabelled (s_fb (sc a)))); cbn [set_end with_sc panic]; apply panic_mark.
Qed.

Lemma panic_dowhile_post c body_lo a : panic (dowhile_post fx c body_lo a) = panic a.
Proof.
  unfold dowhile_post. destruct (get_end_reason a body_lo) as [e|]; cbn [oend_forced].
  - destruct (is_forced e && negb (fb_unlabelled (s_fb (sc a))) && negb (fixA fx && s_fc (sc a))); [cbn [set_end with_sc panic]; apply panic_mark|].
    destruct (known_true c && fb_none (s_fb (sc a))); cbn [set_end with_sc panic]; apply panic_mark.
  - cbn [andb].
    destruct (known_true c && fb_none (s_fb (sc a))); cbn [set_end with_sc panic]; apply panic_mark.
Qed.

Lemma panic_for_post p c body_lo a : panic (for_post p c body_lo a) = panic a.
Proof.
  unfold for_post.
  match goal with |- context [if ?b then mark_as_end p ?e a else a] =>
    destruct b; cbn [negb orb] end.
  - destruct (fb_unlabelled (s_fb (sc a))); cbn [set_end with_sc panic]; rewrite ?panic_mark; reflexivity.
  - cbn [set_end with_sc panic]. rewrite panic_mark. reflexivity.
Qed.

Lemma panic_forin_post body_lo a : panic (forin_post body_lo a) = panic a.
Proof. unfold forin_post. cbn [set_end with_sc panic]. apply panic_mark. Qed.

Lemma panic_if_else_end p a b x : panic (if_else_end p a b x) = panic x.
Proof.
  unfold if_else_end. destruct a as [a|]; [|apply panic_mark]. destruct b as [b|]; [|apply panic_mark].
  destruct a, b; cbn [is_forced andb merge_forced]; apply panic_mark.
Qed.

Lemma panic_try_catch_merge e x : panic (try_catch_merge e x) = panic x.
Proof.
  unfold try_catch_merge. destruct (only_throw e); [reflexivity|].
  destruct e as [a|]; destruct (s_end (sc x)) as [b|]; try reflexivity.
  - destruct a, b; cbn [is_forced andb merge_forced]; reflexivity.
  - destruct b; cbn [is_forced]; reflexivity.
Qed.

Lemma panic_try_finally_merge e x : panic (try_finally_merge e x) = panic x.
Proof.
  unfold try_finally_merge. destruct e as [a|]; [|reflexivity].
  destruct (s_end (sc x)) as [[r t i| |]|]; try reflexivity. destruct (is_forced a); reflexivity.
Qed.

Ltac pn :=
  repeat (rewrite ?panic_child_exit, ?panic_while_post, ?panic_dowhile_post, ?panic_for_post, ?panic_forin_post,
            ?panic_if_else_end, ?panic_try_catch_merge, ?panic_try_finally_merge, ?panic_mark, ?panic_block_end,
            ?panic_orb_mark, ?panic_visit_cond, ?panic_visit_e, ?panic_visit_lit, ?panic_visit_break,
            ?panic_child_enter, ?panic_set_unreach;
          cbn [set_end set_mt set_fc set_fb with_sc panic]).

Lemma an_no_panic :
  (forall s x, panic x = false -> panic (an fx s x) = false) /\
  (forall l x, panic x = false -> panic (an_list fx l x) = false) /\
  (forall cs x, panic x = false -> panic (an_cases fx cs x) = false).
Proof.
  apply stmt_mutind.
  - intros p e x Hx. cbn [an]. pn. exact Hx.
  - intros p x Hx. cbn [an]. exact Hx.
  - intros p v i x Hx. cbn [an]. destruct i; pn; exact Hx.
  - intros p n pb b IHb x Hx. cbn [an]. pn. apply IHb. exact Hx.
  - intros p pb b IHb x Hx. cbn [an]. pn. apply IHb. exact Hx.
  - intros p a x Hx. cbn [an]. pn. destruct a; pn; exact Hx.
  - intros p e x Hx. cbn [an]. pn. destruct (fixD fx); pn; exact Hx.
  - intros p l x Hx. cbn [an]. pn. exact Hx.
  - intros p l x Hx. cbn [an]. pn. exact Hx.
  - intros p b IHb x Hx. cbn [an]. pn. apply IHb. exact Hx.
  - intros p c a IHa x Hx. cbn [an]. pn. apply IHa. pn. exact Hx.
  - intros p c a IHa b IHb x Hx. cbn [an]. pn. apply IHb. pn. apply IHa. pn. exact Hx.
  - intros p c b IHb x Hx. cbn [an]. pn. apply IHb. exact Hx.
  - intros p b IHb c x Hx. cbn [an].
    match goal with |- panic (visit_cond c (match ?o with _ => _ end)) = false => destruct o as [e|] end.
    + destruct (is_forced e); pn; apply IHb; exact Hx.
    + pn. apply IHb. exact Hx.
  - intros p c b IHb x Hx. cbn [an]. pn. apply IHb. destruct c; pn; exact Hx.
  - intros p b IHb x Hx. cbn [an]. pn. apply IHb. exact Hx.
  - intros p b IHb x Hx. cbn [an]. pn. apply IHb. exact Hx.
  - intros p cs IH x Hx. cbn [an].
    match goal with |- panic (if ?b then _ else _) = false => destruct b end; pn; apply IH; exact Hx.
  - intros p l b IHb x Hx. cbn [an]. pn. apply IHb. exact Hx.
  - intros p bp blk IHb h hb IHh f fb IHf x Hx. cbn [an]. pn.
    set (x1 := block_end bp (an_list fx blk (set_mt (set_unreach p (dead_now x) x) false))).
    assert (H1 : panic x1 = false) by (unfold x1; pn; apply IHb; exact Hx).
    set (x2 := match h with None => x1 | Some (cp, hbp) => _ end).
    assert (H2 : panic x2 = false).
    { unfold x2. destruct h as [[cp hbp]|]; [|exact H1].
      destruct (s_mt (sc x1)); pn; apply IHh; exact H1. }
    set (x3 := match f with None => x2 | Some fp => _ end).
    assert (H3 : panic x3 = false).
    { unfold x3. destruct f as [fp|]; [|exact H2]. pn. apply IHf. exact H2. }
    destruct (s_end (sc x3)); pn; exact H3.
  - intros x Hx. exact Hx.
  - intros s IHs r IHr x Hx. cbn [an_list]. apply IHr. pn. apply IHs. exact Hx.
  - intros x Hx. exact Hx.
  - intros cp d ft b IHb r IHr x Hx. cbn [an_cases]. apply IHr. pn. apply IHb. exact Hx.
Qed.

Lemma iget_iset_same m k f : iget (iset m k f) k <> None.
Proof.
  induction m as [|[k' v] r IH]; cbn [iset iget].
  - rewrite N.eqb_refl. discriminate.
  - destruct (N.eqb k k') eqn:E; cbn [iget]; rewrite E; [discriminate | exact IH].
Qed.

Lemma iget_mark k e x : iget (info (mark_as_end k e x)) k <> None.
Proof. unfold mark_as_end. destruct (s_end (sc x)) as [[r t i| |]|]; cbn [set_info set_end with_sc info]; apply iget_iset_same. Qed.

Theorem analyzer_total : analyzer_total_holds fx.
Proof.
  intros p. split.
  - unfold analyze_st. rewrite panic_block_end. apply an_no_panic. reflexivity.
  - unfold analyze, analyze_st, block_end. destruct (s_end (sc (an_list fx (p_body p) init_st))); apply iget_mark.
Qed.

End Total.

Print Assumptions analyzer_total.
