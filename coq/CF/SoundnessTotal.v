(* C10/C11 - `analyzer_total`: the `unwrap`s of the analyzer (modelled as the `panic` flag)
   never fail, and the entry of the function body that getter-return unwraps exists.
   Holds for every program (well formed or not) and every combination of repairs. *)
From V Require Import CF.Soundness.

Section Total.
Variable fx : fixes.

Lemma panic_set_unreach k b x : panic (set_unreach k b x) = panic x.
Proof. reflexivity. Qed.
Lemma panic_mark k e x : panic (mark_as_end k e x) = panic x.
Proof. unfold mark_as_end. destruct (s_end (sc x)) as [[r t i| |]|]; reflexivity. Qed.
Lemma panic_visit_lit x : panic (visit_lit x) = panic x.
Proof. unfold visit_lit. destruct (live_now x); reflexivity. Qed.
Lemma panic_visit_ident id x : panic (visit_ident id x) = panic x.
Proof. unfold visit_ident. destruct (live_now x); reflexivity. Qed.
Lemma panic_visit_e e x : panic (visit_e e x) = panic x.
Proof. destruct e; cbn [visit_e]; rewrite ?panic_visit_lit, ?panic_visit_ident; reflexivity. Qed.
Lemma panic_visit_oe o x : panic (visit_oe o x) = panic x.
Proof. destruct o; cbn [visit_oe]; rewrite ?panic_visit_e; reflexivity. Qed.
Lemma panic_visit_cond c x : panic (visit_cond c x) = panic x.
Proof. destruct c; cbn [visit_cond]; rewrite ?panic_visit_lit, ?panic_visit_e; reflexivity. Qed.
Lemma panic_orb_mark s x : panic (orb_mark s x) = panic x.
Proof. unfold orb_mark. destruct (is_brk_or_cont s); rewrite ?panic_mark; reflexivity. Qed.
Lemma panic_block_end p x : panic (block_end p x) = panic x.
Proof. unfold block_end. destruct (s_end (sc x)); apply panic_mark. Qed.
Lemma panic_child_enter k x : panic (child_enter k x) = panic x.
Proof. reflexivity. Qed.
Lemma panic_visit_break l x : panic (visit_break fx l x) = panic x.
Proof. unfold visit_break. destruct (fixB fx); [destruct l; [destruct (s_fb (sc x))|]|]; reflexivity. Qed.

Lemma panic_child_exit k start x c : panic (child_exit fx k start x c) = panic c.
Proof.
  unfold child_exit. destruct (s_end (sc c)) as [e|]; [|reflexivity].
  destruct k.
  - destruct e; destruct (fixC fx); cbn [set_end with_sc panic]; rewrite ?panic_mark; reflexivity.
  - reflexivity.
  - reflexivity.
  - destruct e; cbn [set_end with_sc panic]; rewrite panic_mark; reflexivity.
  - cbv zeta. cbn [sc s_fb].
    match goal with |- panic (match ?o with _ => _ end) = _ => destruct o as [[id|]|] end; try reflexivity.
    destruct (N.eqb id l); reflexivity.
  - rewrite panic_mark. reflexivity.
  - rewrite panic_mark. reflexivity.
Qed.

Lemma panic_while_post c body_lo a : panic (while_post c body_lo a) = panic a.
Proof.
  unfold while_post, while_post_r. destruct (get_end_reason a body_lo) as [e|]; cbn [oend_forced].
  - destruct (known_true c && is_forced e && negb (fb_unlabelled (s_fb (sc a)))); [cbn [set_end with_sc panic]; apply panic_mark|].
    destruct (known_true c && negb (fb_unlabelled (s_fb (sc a)))); cbn [set_end with_sc panic]; apply panic_mark.
  - rewrite andb_false_r. cbn [andb].
    destruct (known_true c && negb (fb_unlabelled (s_fb (sc a)))); cbn [set_end with_sc panic]; apply panic_mark.
Qed.

Lemma panic_dowhile_post c body_lo a : panic (dowhile_post fx c body_lo a) = panic a.
Proof.
  unfold dowhile_post, dowhile_post_r. destruct (get_end_reason a body_lo) as [e|]; cbn [oend_forced].
  - destruct (is_forced e && negb (fb_unlabelled (s_fb (sc a))) && negb (fixA fx && s_fc (sc a))); [cbn [set_end with_sc panic]; apply panic_mark|].
    destruct (known_true c && fb_none (s_fb (sc a))); cbn [set_end with_sc panic]; apply panic_mark.
  - cbn [andb].
    destruct (known_true c && fb_none (s_fb (sc a))); cbn [set_end with_sc panic]; apply panic_mark.
Qed.

Lemma panic_for_post p c body_lo a : panic (for_post p c body_lo a) = panic a.
Proof.
  unfold for_post, for_post_r. destruct (for_forced c a); cbn [negb orb].
  - destruct (fb_unlabelled (s_fb (sc a))); cbn [set_end with_sc panic]; rewrite ?panic_mark; reflexivity.
  - cbn [set_end with_sc panic]. rewrite panic_mark. reflexivity.
Qed.

Lemma panic_forin_post body_lo a : panic (forin_post body_lo a) = panic a.
Proof. unfold forin_post. cbn [set_end with_sc panic]. apply panic_mark. Qed.

Lemma panic_if_else_end p a b x : panic (if_else_end p a b x) = panic x.
Proof.
  unfold if_else_end, if_else_mark. destruct a as [a|]; [|apply panic_mark]. destruct b as [b|]; [|apply panic_mark].
  destruct a, b; cbn [is_forced andb merge_forced]; apply panic_mark.
Qed.

Lemma panic_try_catch_merge e x : panic (try_catch_merge e x) = panic x.
Proof.
  unfold try_catch_merge. destruct (only_throw e); [reflexivity|].
  destruct e as [a|]; destruct (s_end (sc x)) as [b|]; try reflexivity.
  - destruct a, b; cbn [is_forced andb merge_forced]; reflexivity.
  - destruct b; cbn [is_forced]; reflexivity.
Qed.

Lemma panic_try_finally_merge e x : panic (try_finally_merge e x) = panic x.
Proof.
  unfold try_finally_merge. destruct e as [a|]; [|reflexivity].
  destruct (s_end (sc x)) as [[r t i| |]|]; try reflexivity. destruct (is_forced a); reflexivity.
Qed.

Ltac pn :=
  repeat (rewrite ?panic_child_exit, ?panic_while_post, ?panic_dowhile_post, ?panic_for_post, ?panic_forin_post,
            ?panic_if_else_end, ?panic_try_catch_merge, ?panic_try_finally_merge, ?panic_mark, ?panic_block_end,
            ?panic_orb_mark, ?panic_visit_cond, ?panic_visit_e, ?panic_visit_lit, ?panic_visit_break,
            ?panic_child_enter, ?panic_set_unreach;
          cbn [set_end set_mt set_fc set_fb with_sc panic]).

(* `op` keeps the panic flag down *)
Definition quiet (op : st -> st) : Prop := forall y, panic y = false -> panic (op y) = false.

Lemma quiet_with_child k start op x : quiet op -> panic x = false -> panic (with_child fx k start op x) = false.
Proof. intros Hop Hx. unfold with_child. pn. apply Hop. pn. exact Hx. Qed.

Lemma quiet_block_end p op : quiet op -> quiet (fun a => block_end p (op a)).
Proof. intros Hop y Hy. pn. apply Hop. exact Hy. Qed.

Lemma quiet_orb_mark s op : quiet op -> quiet (fun a => orb_mark s (op a)).
Proof. intros Hop y Hy. pn. apply Hop. exact Hy. Qed.

Lemma quiet_visit_if p c p1 op1 x : quiet op1 -> panic x = false -> panic (visit_if fx p c p1 op1 x) = false.
Proof. intros H1 Hx. unfold visit_if. pn. apply quiet_with_child; [exact H1 | pn; exact Hx]. Qed.

Lemma quiet_visit_if_else p c p1 op1 p2 op2 x :
  quiet op1 -> quiet op2 -> panic x = false -> panic (visit_if_else fx p c p1 op1 p2 op2 x) = false.
Proof.
  intros H1 H2 Hx. unfold visit_if_else. pn.
  apply quiet_with_child; [exact H2|]. apply quiet_with_child; [exact H1 | pn; exact Hx].
Qed.

Lemma quiet_visit_while c lo op x : quiet op -> panic x = false -> panic (visit_while fx c lo op x) = false.
Proof.
  intros H1 Hx. unfold visit_while.
  assert (Hq : quiet (fun a => while_post c lo (op a))) by (intros y Hy; pn; apply H1; exact Hy).
  destruct (fixF fx); [apply quiet_with_child; [exact Hq | pn; exact Hx] | pn; apply quiet_with_child; [exact Hq | exact Hx]].
Qed.

Lemma panic_dowhile_test prev c x : panic (dowhile_test fx prev c x) = panic x.
Proof. unfold dowhile_test. destruct (fixF fx); pn; reflexivity. Qed.

Lemma quiet_visit_do_while p c lo op x : quiet op -> panic x = false -> panic (visit_do_while fx p c lo op x) = false.
Proof.
  intros H1 Hx. unfold visit_do_while.
  assert (H : panic (with_child fx KLoop lo (fun a => dowhile_post fx c lo (op a)) x) = false).
  { apply quiet_with_child; [|exact Hx]. intros y Hy. pn. apply H1. exact Hy. }
  cbv zeta. unfold dowhile_tail. rewrite panic_dowhile_test. destruct (get_end_reason _ lo) as [e|]; [destruct (is_forced e)|]; pn; exact H.
Qed.

Lemma quiet_visit_for p c lo op x : quiet op -> panic x = false -> panic (visit_for fx p c lo op x) = false.
Proof.
  intros H1 Hx. unfold visit_for. apply quiet_with_child.
  - intros y Hy. pn. apply H1. exact Hy.
  - destruct c; pn; exact Hx.
Qed.

Lemma quiet_visit_for_in lo op x : quiet op -> panic x = false -> panic (visit_for_in fx lo op x) = false.
Proof.
  intros H1 Hx. unfold visit_for_in. apply quiet_with_child; [|exact Hx].
  intros y Hy. pn. apply H1. exact Hy.
Qed.

Lemma quiet_fn_expr fp pb op x : quiet op -> panic x = false -> panic (visit_fn_expr fx fp pb op x) = false.
Proof.
  intros H1 Hx. unfold visit_fn_expr, visit_fn_like. pn. apply quiet_with_child; [apply quiet_block_end; exact H1 | exact Hx].
Qed.

Lemma quiet_for_head fp pb op x : quiet op -> panic x = false -> panic (visit_for_head fx fp pb op x) = false.
Proof. intros H1 Hx. unfold visit_for_head. destruct (fixE fx); [apply quiet_fn_expr; assumption | exact Hx]. Qed.

Lemma quiet_visit_switch p cs opc x : quiet opc -> panic x = false -> panic (visit_switch p cs opc x) = false.
Proof.
  intros H1 Hx. unfold visit_switch, switch_tail. cbv zeta.
  match goal with |- panic (if ?b then _ else _) = false => destruct b end; pn; apply H1; exact Hx.
Qed.

Lemma quiet_visit_case cp op y : quiet op -> panic y = false -> panic (visit_case fx cp op y) = false.
Proof. intros H1 Hy. unfold visit_case. pn. apply H1. pn. exact Hy. Qed.

Lemma quiet_try_handler cp hbp prev op x : quiet op -> panic x = false -> panic (try_handler fx cp hbp prev op x) = false.
Proof.
  intros H1 Hx. unfold try_handler. cbv zeta.
  assert (H : forall y, panic y = false -> panic (with_child fx KCatch cp (fun a => block_end hbp (op a)) y) = false).
  { intros y Hy. apply quiet_with_child; [apply quiet_block_end; exact H1 | exact Hy]. }
  destruct (s_mt (sc x)); pn; apply H; pn; exact Hx.
Qed.

Lemma quiet_try_finalizer fp prev op x : quiet op -> panic x = false -> panic (try_finalizer fx fp prev op x) = false.
Proof.
  intros H1 Hx. unfold try_finalizer. pn.
  apply quiet_with_child; [apply quiet_block_end; exact H1 | pn; exact Hx].
Qed.

Lemma quiet_try_finish p old x : panic x = false -> panic (try_finish p old x) = false.
Proof. intros Hx. unfold try_finish. destruct (s_end (sc x)); pn; exact Hx. Qed.

Lemma quiet_visit_try p bp blk h hb f fb x :
  quiet blk -> quiet hb -> quiet fb -> panic x = false -> panic (visit_try fx p bp blk h hb f fb x) = false.
Proof.
  intros Hb Hh Hf Hx. unfold visit_try. cbv zeta. apply quiet_try_finish.
  assert (H1 : panic (block_end bp (blk (set_mt x false))) = false) by (pn; apply Hb; pn; exact Hx).
  assert (H2 : panic (match h with Some (cp, hbp) => try_handler fx cp hbp (s_end (sc x)) hb (block_end bp (blk (set_mt x false)))
                               | None => block_end bp (blk (set_mt x false)) end) = false).
  { destruct h as [[cp hbp]|]; [apply quiet_try_handler; assumption | exact H1]. }
  destruct f as [fp|]; [apply quiet_try_finalizer; assumption | exact H2].
Qed.

Lemma an_no_panic :
  (forall s, quiet (an fx s)) /\ (forall l, quiet (an_list fx l)) /\ (forall cs, quiet (an_cases fx cs)).
Proof.
  apply stmt_mutind.
  - intros p e x Hx. cbn [an]. pn. exact Hx.
  - intros p x Hx. cbn [an]. exact Hx.
  - intros p v i x Hx. cbn [an]. destruct i; pn; exact Hx.
  - intros p n pb b IHb x Hx. cbn [an]. unfold visit_fn_like. apply quiet_with_child; [apply quiet_block_end; exact IHb | exact Hx].
  - intros p pb b IHb x Hx. cbn [an]. pn. unfold visit_fn_like. apply quiet_with_child; [apply quiet_block_end; exact IHb | exact Hx].
  - intros p gp pb b IHb x Hx. cbn [an]. apply quiet_fn_expr; [exact IHb | exact Hx].
  - intros p a x Hx. cbn [an]. unfold visit_return. destruct a; pn; exact Hx.
  - intros p e x Hx. cbn [an]. unfold visit_throw. destruct (fixD fx); pn; exact Hx.
  - intros p l x Hx. cbn [an]. pn. exact Hx.
  - intros p l x Hx. cbn [an]. pn. exact Hx.
  - intros p b IHb x Hx. cbn [an]. pn. apply IHb. exact Hx.
  - intros p c a IHa x Hx. cbn [an]. apply quiet_visit_if; [apply quiet_orb_mark; exact IHa | exact Hx].
  - intros p c a IHa b IHb x Hx. cbn [an].
    apply quiet_visit_if_else; [apply quiet_orb_mark; exact IHa | apply quiet_orb_mark; exact IHb | exact Hx].
  - intros p c b IHb x Hx. cbn [an]. apply quiet_visit_while; [exact IHb | exact Hx].
  - intros p b IHb c x Hx. cbn [an]. apply quiet_visit_do_while; [exact IHb | exact Hx].
  - intros p i c u b IHb x Hx. cbn [an]. apply quiet_visit_for; [exact IHb | rewrite !panic_visit_oe; exact Hx].
  - intros p b IHb x Hx. cbn [an]. apply quiet_visit_for_in; [exact IHb | exact Hx].
  - intros p b IHb x Hx. cbn [an]. apply quiet_visit_for_in; [exact IHb | exact Hx].
  - intros p g fp pb hb IHh b IHb x Hx. cbn [an]. apply quiet_visit_for_in; [exact IHb|]. apply quiet_for_head; [exact IHh | exact Hx].
  - intros p cs IH x Hx. cbn [an]. apply quiet_visit_switch; [exact IH | exact Hx].
  - intros p l b IHb x Hx. cbn [an]. apply quiet_with_child; [apply quiet_orb_mark; exact IHb | exact Hx].
  - intros p bp blk IHb h hb IHh f fb IHf x Hx. cbn [an]. apply quiet_visit_try; assumption.
  - intros x Hx. exact Hx.
  - intros s IHs r IHr x Hx. cbn [an_list]. apply IHr. pn. apply IHs. exact Hx.
  - intros x Hx. exact Hx.
  - intros cp d ft b IHb r IHr x Hx. cbn [an_cases]. apply IHr. apply quiet_visit_case; [exact IHb|].
    unfold visit_test. destruct d; pn; exact Hx.
Qed.

Lemma iget_iset_same m k f : iget (iset m k f) k <> None.
Proof.
  induction m as [|[k' v] r IH]; cbn [iset iget].
  - rewrite N.eqb_refl. discriminate.
  - destruct (N.eqb k k') eqn:E; cbn [iget]; rewrite E; [discriminate | exact IH].
Qed.

Lemma iget_mark k e x : iget (info (mark_as_end k e x)) k <> None.
Proof. unfold mark_as_end. destruct (s_end (sc x)) as [[r t i| |]|]; cbn [set_info set_end with_sc info]; apply iget_iset_same. Qed.

Theorem analyzer_total : analyzer_total_holds fx.
Proof.
  intros p. split.
  - unfold analyze_st. rewrite panic_block_end. apply an_no_panic. reflexivity.
  - unfold analyze, analyze_st, block_end. destruct (s_end (sc (an_list fx (p_body p) init_st))); apply iget_mark.
Qed.

End Total.

Print Assumptions analyzer_total.
