(* C10/C11 - statement language of the control-flow analyzer model.

   Every node carries the byte offset that swc's `start()` gives it, because the
   analyzer's result map is keyed by that offset (key collisions are modelled,
   not assumed away).  Position conventions (the printer in tools/cf.py
   reproduces them):
     - a statement's `p` is the offset of its first byte;
     - `STry p bp blk h hb f fb`: `bp` is the `{` of the try block; the handler
       `h = Some (cp, hbp)` gives the offset of the `catch` keyword and of the
       `{` of its body `hb`; the finalizer `f = Some fp` the `{` of its body `fb`
       (`hb` / `fb` are ignored when the option is `None`);
     - a switch case carries the offset of `case` / `default`;
     - `SFnDecl p name pb body`: `function gNAME(){...}` as a statement; `p` is the
       offset of `function` (= start of the statement AND of the swc `Function`
       node), `pb` the `{` of the body;
     - `SArrowStmt p pb body`: the expression statement `() => {...};`; `p` is
       the start of the statement AND of the arrow expression;
     - `SGetterStmt p gp pb body`: the expression statement `({get a() {...}});`; `p` is
       the offset of `(`, `gp` the offset of `get` (the swc `GetterProp` node), `pb` the
       `{` of the getter's body;
     - `SForHead p g fp pb hbody b`: `for (const [k = FN] of o) b` (or `in`), a for-in/of
       loop whose HEAD contains a function-like as the default value of a binding
       pattern: FN = `() => {hbody}` (`g = false`, `fp` = start of the arrow) or
       FN = `{get a() {hbody}}` (`g = true`, `fp` = offset of `get`); `pb` the `{` of
       the function body.

   Statement lists and switch cases are separate mutual inductive types (rather
   than `list`) so that `Scheme` gives the induction principles used in the
   proofs and all recursive functions are plain mutual fixpoints. *)
From Coq Require Export List NArith Bool.
Export ListNotations.
Open Scope N_scope.

(* expressions, as far as the analyzer distinguishes them *)
Inductive expr :=
| EIdent (id : N)      (* `xID`  (or `gID` when a function of that name is declared): pure *)
| ECall (id : N)       (* `xID()` / `gID()`: may throw *)
| ELit                 (* `1`, `[1]`, `({a: 1})`: pure (the analyzer nevertheless records may_throw) *)
| EThis                (* `this`: pure, no effect on the analysis *)
| ESpread (id : N)     (* `[...xID]`: an array literal with a spread of an identifier - throws when xID is not iterable *)
| EComputed (id : N).  (* `({[xID]: 1})`: an object literal with a computed key - ToPropertyKey(xID) may throw *)

(* evaluating the expression may throw (for the analyzer every expression except an identifier / `this` "may throw") *)
Definition e_throws (e : expr) : bool := match e with ECall _ | ESpread _ | EComputed _ => true | _ => false end.

(* the tests of if / while / do-while / for, as far as mod.rs and the semantics distinguish them.  mod.rs asks swc's
   `cast_to_bool` whether the test of a LOOP is `Known(true)` (nothing else), and visits the test as an expression *)
Inductive cond :=
| CTrue                (* `true`, `1`, `!0`, `"a"`, `[]`, `((1))`, `1 - 2` ..: pure, always truthy, cast_to_bool = Known(true) *)
| CFalse               (* `false`, `0`, `!1`, `null`, `void 0`, `` `` ``, `!!!!0` ..: pure, always falsy, cast_to_bool is not Known(true) *)
| COpaque (e : expr)   (* identifier (pure) or call (may throw); value unknown *)
| CSeq (e : expr) (b : bool)
                       (* `(e, true)`, `e || true` / `(e, false)`, `e && false`: evaluates e (may throw), then the
                          value is the constant b; cast_to_bool = Known(b) *)
| CUnkTrue.            (* `` `a` ``, `!!!!1` (deeper than swc looks), `1 ? 1 : 1`: pure, always truthy, cast_to_bool = Unknown *)

Inductive stmt :=
| SExpr (p : N) (e : expr)
| SEmpty (p : N)
| SVar (p : N) (is_var : bool) (init : option expr)   (* `var v;` `var v = e;` `let v = e;` *)
| SFnDecl (p : N) (name : N) (pb : N) (body : stmts)
| SArrowStmt (p : N) (pb : N) (body : stmts)
| SGetterStmt (p : N) (gp : N) (pb : N) (body : stmts)       (* `({get a() {...}});` *)
| SRet (p : N) (arg : option expr)
| SThrow (p : N) (arg : expr)
| SBrk (p : N) (l : option N)
| SCont (p : N) (l : option N)
| SBlock (p : N) (b : stmts)
| SIf (p : N) (c : cond) (s1 : stmt)
| SIfElse (p : N) (c : cond) (s1 s2 : stmt)
| SWhile (p : N) (c : cond) (b : stmt)
| SDoWhile (p : N) (b : stmt) (c : cond)
| SFor (p : N) (i : option expr) (c : option cond) (u : option expr) (b : stmt)
                                                        (* `for (i; c; u) b`, each part optional: init, test, update *)
| SForIn (p : N) (b : stmt)                            (* `for (var k in o) b` *)
| SForOf (p : N) (b : stmt)                            (* `for (var k of o) b` *)
| SForHead (p : N) (g : bool) (fp : N) (pb : N) (hbody : stmts) (b : stmt)   (* `for (const [k = FN] of o) b` *)
| SSwitch (p : N) (cs : cases)                         (* `switch (d) { ... }` *)
| SLabel (p : N) (l : N) (b : stmt)
| STry (p : N) (bp : N) (blk : stmts) (h : option (N * N)) (hb : stmts) (f : option N) (fb : stmts)
with stmts :=
| SNil
| SCons (s : stmt) (r : stmts)
with cases :=
| CNil
| CCons (cp : N) (test : option expr) (ft_comment : bool) (body : stmts) (r : cases).
(* `test`: the expression of `case e:`; `None` = the `default:` clause. *)
(* `ft_comment`: a "falls through" comment follows the last statement of the case
   (or precedes the next `case`) - the escape hatch of no-fallthrough. *)

Scheme stmt_mind := Induction for stmt Sort Prop
  with stmts_mind := Induction for stmts Sort Prop
  with cases_mind := Induction for cases Sort Prop.
Combined Scheme stmt_mutind from stmt_mind, stmts_mind, cases_mind.

Definition pos (s : stmt) : N :=
  match s with
  | SExpr p _ | SEmpty p | SVar p _ _ | SFnDecl p _ _ _ | SArrowStmt p _ _ | SGetterStmt p _ _ _ | SRet p _ | SThrow p _
  | SBrk p _ | SCont p _ | SBlock p _ | SIf p _ _ | SIfElse p _ _ _ | SWhile p _ _ | SDoWhile p _ _
  | SFor p _ _ _ _ | SForIn p _ | SForOf p _ | SForHead p _ _ _ _ _ | SSwitch p _ | SLabel p _ _ | STry p _ _ _ _ _ _ => p
  end.

Fixpoint stmts_to_list (l : stmts) : list stmt :=
  match l with SNil => [] | SCons s r => s :: stmts_to_list r end.
Fixpoint stmts_of_list (l : list stmt) : stmts :=
  match l with [] => SNil | s :: r => SCons s (stmts_of_list r) end.

(* A program = one function-like body analysed in a fresh Function scope:
   `function f(){BODY}` (p_getter = false) or `({get a(){BODY}})` (p_getter = true).
   `p_pb` is the offset of the body's `{`, `p_start` the key of the function node. *)
Record program := { p_getter : bool; p_start : N; p_pb : N; p_body : stmts }.

(* ------------------------------------------------------------------ *)
(* Well-formedness (executable): what the generator guarantees and what
   the soundness theorems assume.                                      *)

(* all map keys written by the analyzer while it visits a statement *)
Fixpoint keys (s : stmt) : list N :=
  match s with
  | SExpr p _ | SEmpty p | SVar p _ _ | SRet p _ | SThrow p _ | SBrk p _ | SCont p _ => [p]
  | SFnDecl p _ pb b | SArrowStmt p pb b => p :: pb :: keys_l b
  | SGetterStmt p gp pb b => p :: gp :: pb :: keys_l b
  | SForHead p _ fp pb hb b => p :: (fp :: pb :: keys_l hb) ++ keys b
  | SBlock p b => p :: keys_l b
  | SIf p _ a => p :: keys a
  | SIfElse p _ a b => p :: keys a ++ keys b
  | SWhile p _ b | SDoWhile p b _ | SFor p _ _ _ b | SForIn p b | SForOf p b | SLabel p _ b => p :: keys b
  | SSwitch p cs => p :: keys_c cs
  | STry p bp blk h hb f fb =>
      p :: bp :: keys_l blk
        ++ match h with Some (cp, hbp) => cp :: hbp :: keys_l hb | None => [] end
        ++ match f with Some fp => fp :: keys_l fb | None => [] end
  end
with keys_l (l : stmts) : list N :=
  match l with SNil => [] | SCons s r => keys s ++ keys_l r end
with keys_c (cs : cases) : list N :=
  match cs with CNil => [] | CCons cp _ _ b r => cp :: keys_l b ++ keys_c r end.

(* the keys that a RULE can look up in the result (`ControlFlow::meta`): every statement offset
   (no-unreachable, no-fallthrough), the `{` of every function / getter body (getter-return), plus the
   other block and `case` / `catch` offsets; i.e. all of `keys` except the start offsets of function-likes
   in expression position (`gp` of `({get a(){}})`, `fp` of a loop head), which only the analyzer writes *)
Fixpoint qkeys (s : stmt) : list N :=
  match s with
  | SExpr p _ | SEmpty p | SVar p _ _ | SRet p _ | SThrow p _ | SBrk p _ | SCont p _ => [p]
  | SFnDecl p _ pb b | SArrowStmt p pb b | SGetterStmt p _ pb b => p :: pb :: qkeys_l b
  | SForHead p _ _ pb hb b => p :: (pb :: qkeys_l hb) ++ qkeys b
  | SBlock p b => p :: qkeys_l b
  | SIf p _ a => p :: qkeys a
  | SIfElse p _ a b => p :: qkeys a ++ qkeys b
  | SWhile p _ b | SDoWhile p b _ | SFor p _ _ _ b | SForIn p b | SForOf p b | SLabel p _ b => p :: qkeys b
  | SSwitch p cs => p :: qkeys_c cs
  | STry p bp blk h hb f fb =>
      p :: bp :: qkeys_l blk
        ++ match h with Some (cp, hbp) => cp :: hbp :: qkeys_l hb | None => [] end
        ++ match f with Some fp => fp :: qkeys_l fb | None => [] end
  end
with qkeys_l (l : stmts) : list N :=
  match l with SNil => [] | SCons s r => qkeys s ++ qkeys_l r end
with qkeys_c (cs : cases) : list N :=
  match cs with CNil => [] | CCons cp _ _ b r => cp :: qkeys_l b ++ qkeys_c r end.

Fixpoint memN (x : N) (l : list N) : bool :=
  match l with [] => false | y :: r => N.eqb x y || memN x r end.
Fixpoint nodupb (l : list N) : bool :=
  match l with [] => true | x :: r => negb (memN x r) && nodupb r end.

Definition is_loop (s : stmt) : bool :=
  match s with SWhile _ _ _ | SDoWhile _ _ _ | SFor _ _ _ _ _ | SForIn _ _ | SForOf _ _ | SForHead _ _ _ _ _ _ => true | _ => false end.
Definition is_fndecl (s : stmt) : bool := match s with SFnDecl _ _ _ _ => true | _ => false end.
(* an opaque test is an identifier, a call or `this` (a literal / array / object as a test has a known value) *)
Definition cond_ok (c : cond) : bool := match c with COpaque (ELit | ESpread _ | EComputed _) => false | _ => true end.
(* (a swc defect is NOT modelled: for NaN-valued arithmetic such as `"a" - 1` cast_to_bool answers Known(true);
   the generator does not produce such tests as `CTrue`, they are a known finding of their own) *)

(* jump context: may `break;` / `continue;` appear, labels in scope (all / those of loops) *)
Record jctx := { j_brk : bool; j_cont : bool; j_labels : list N; j_loop_labels : list N }.
Definition jtop := {| j_brk := false; j_cont := false; j_labels := []; j_loop_labels := [] |}.
Definition j_in_loop (j : jctx) (mine : list N) :=
  {| j_brk := true; j_cont := true; j_labels := j_labels j; j_loop_labels := mine ++ j_loop_labels j |}.
Definition j_in_switch (j : jctx) :=
  {| j_brk := true; j_cont := j_cont j; j_labels := j_labels j; j_loop_labels := j_loop_labels j |}.
Definition j_in_label (j : jctx) (l : N) :=
  {| j_brk := j_brk j; j_cont := j_cont j; j_labels := l :: j_labels j; j_loop_labels := j_loop_labels j |}.

(* `mine`: labels that directly wrap the statement (they become loop labels if it is a loop) *)
Fixpoint jump_ok (j : jctx) (mine : list N) (s : stmt) : bool :=
  match s with
  | SExpr _ _ | SEmpty _ | SVar _ _ _ | SRet _ _ | SThrow _ _ => true
  | SFnDecl _ _ _ b | SArrowStmt _ _ b | SGetterStmt _ _ _ b => jump_ok_l jtop b
  | SBrk _ None => j_brk j
  | SBrk _ (Some l) => memN l (j_labels j)
  | SCont _ None => j_cont j
  | SCont _ (Some l) => memN l (j_loop_labels j)
  | SBlock _ b => jump_ok_l j b
  | SIf _ c a => cond_ok c && negb (is_fndecl a) && jump_ok j [] a
  | SIfElse _ c a b => cond_ok c && negb (is_fndecl a) && negb (is_fndecl b) && jump_ok j [] a && jump_ok j [] b
  | SWhile _ c b | SDoWhile _ b c => cond_ok c && negb (is_fndecl b) && jump_ok (j_in_loop j mine) [] b
  | SFor _ _ c _ b => match c with Some c => cond_ok c | None => true end && negb (is_fndecl b) && jump_ok (j_in_loop j mine) [] b
  | SForIn _ b | SForOf _ b => negb (is_fndecl b) && jump_ok (j_in_loop j mine) [] b
  | SForHead _ _ _ _ hb b => jump_ok_l jtop hb && negb (is_fndecl b) && jump_ok (j_in_loop j mine) [] b
  | SSwitch _ cs => jump_ok_c (j_in_switch j) cs
  | SLabel _ l b => negb (memN l (j_labels j)) && negb (is_fndecl b) && jump_ok (j_in_label j l) (l :: mine) b
  | STry _ _ blk h hb f fb =>
      jump_ok_l j blk
      && match h with Some _ => jump_ok_l j hb | None => match hb with SNil => true | _ => false end end
      && match f with Some _ => jump_ok_l j fb | None => match fb with SNil => true | _ => false end end
      && match h, f with None, None => false | _, _ => true end
  end
with jump_ok_l (j : jctx) (l : stmts) : bool :=
  match l with SNil => true | SCons s r => jump_ok j [] s && jump_ok_l j r end
with jump_ok_c (j : jctx) (cs : cases) : bool :=
  match cs with CNil => true | CCons _ _ _ b r => jump_ok_l j b && jump_ok_c j r end.

(* no statement starts with or contains a function-like in expression position (function declaration /
   arrow-expression statement / object-literal getter statement / function-like in a loop head): the
   programs on which the end of a function is never recorded under the function's start key (known
   finding, class C: for a statement that starts with the function this is the statement's own key) *)
Fixpoint nofn (s : stmt) : bool :=
  match s with
  | SFnDecl _ _ _ _ | SArrowStmt _ _ _ | SGetterStmt _ _ _ _ | SForHead _ _ _ _ _ _ => false
  | SBlock _ b => nofn_l b
  | SIf _ _ a => nofn a
  | SIfElse _ _ a b => nofn a && nofn b
  | SWhile _ _ b | SDoWhile _ b _ | SFor _ _ _ _ b | SForIn _ b | SForOf _ b | SLabel _ _ b => nofn b
  | SSwitch _ cs => nofn_c cs
  | STry _ _ blk _ hb _ fb => nofn_l blk && nofn_l hb && nofn_l fb
  | _ => true
  end
with nofn_l (l : stmts) : bool :=
  match l with SNil => true | SCons s r => nofn s && nofn_l r end
with nofn_c (cs : cases) : bool :=
  match cs with CNil => true | CCons _ _ _ b r => nofn_l b && nofn_c r end.
Definition no_fn_stmtb (p : program) : bool := nofn_l (p_body p).
Definition no_fn_stmt (p : program) : Prop := no_fn_stmtb p = true.

(* A finer condition than `no_fn_stmt`: the places where the current code can go wrong through the function-start key.
   A statement that STARTS with a function (`function g(){}`, `() => {};`) gets the function's end recorded under its
   own key; that entry is read back by `if .. else ..` about its branches, by `while` / `do-while` / `for(;;)` about
   the loop body, and by no-fallthrough about the top-level statements of a switch case.  `fnsafe`: no such statement
   stands in one of these positions (function declarations in ordinary statement lists are fine). *)
Definition is_fnstart (s : stmt) : bool :=
  match s with SFnDecl _ _ _ _ | SArrowStmt _ _ _ => true | _ => false end.
Fixpoint no_fnstart_top (l : stmts) : bool :=
  match l with SNil => true | SCons s r => negb (is_fnstart s) && no_fnstart_top r end.
Fixpoint fnsafe (s : stmt) : bool :=
  match s with
  | SFnDecl _ _ _ b | SArrowStmt _ _ b | SGetterStmt _ _ _ b | SBlock _ b => fnsafe_l b
  | SIf _ _ a => fnsafe a
  | SIfElse _ _ a b => negb (is_fnstart a) && negb (is_fnstart b) && fnsafe a && fnsafe b
  | SWhile _ _ b | SDoWhile _ b _ | SFor _ _ _ _ b => negb (is_fnstart b) && fnsafe b
  | SForIn _ b | SForOf _ b | SLabel _ _ b => fnsafe b
  | SForHead _ _ _ _ hb b => fnsafe_l hb && fnsafe b
  | SSwitch _ cs => fnsafe_c cs
  | STry _ _ blk _ hb _ fb => fnsafe_l blk && fnsafe_l hb && fnsafe_l fb
  | _ => true
  end
with fnsafe_l (l : stmts) : bool :=
  match l with SNil => true | SCons s r => fnsafe s && fnsafe_l r end
with fnsafe_c (cs : cases) : bool :=
  match cs with CNil => true | CCons _ _ _ b r => no_fnstart_top b && fnsafe_l b && fnsafe_c r end.
Definition fn_stmt_safeb (p : program) : bool := fnsafe_l (p_body p).
Definition fn_stmt_safe (p : program) : Prop := fn_stmt_safeb p = true.

Definition is_none {A} (o : option A) : bool := match o with None => true | Some _ => false end.
Fixpoint has_default (cs : cases) : bool :=
  match cs with CNil => false | CCons _ t _ _ r => is_none t || has_default r end.
(* some case test is a call (so evaluating the tests may throw) *)
Fixpoint tests_throw (cs : cases) : bool :=
  match cs with
  | CNil => false
  | CCons _ t _ _ r => match t with Some e => e_throws e | None => false end || tests_throw r
  end.

Definition wfb (p : program) : bool :=
  nodupb (p_start p :: p_pb p :: keys_l (p_body p)) && jump_ok_l jtop (p_body p).
Definition wf (p : program) : Prop := wfb p = true.
