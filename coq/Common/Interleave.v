(* Calls that share only read-only state: the output of every call is a function of that
   call's own input, whatever ran before it (history) and however the calls of several threads
   are interleaved (schedule). *)
From Coq Require Import List Permutation.
Import ListNotations.

Section Shared.
  Variables (G J O : Type).
  Variable step : G -> J -> G * O.          (* one call: shared state, job -> shared state', output *)
  Hypothesis readonly : forall g j, fst (step g j) = g.

  Fixpoint run (g : G) (trace : list J) : list O :=
    match trace with
    | [] => []
    | j :: t => snd (step g j) :: run (fst (step g j)) t
    end.

  Theorem run_history_free g trace : run g trace = map (fun j => snd (step g j)) trace.
  Proof.
    revert g; induction trace as [|j t IH]; intros g; cbn [run map]; [reflexivity|].
    rewrite readonly, IH. reflexivity.
  Qed.

  (* a trace is an interleaving of the threads' job lists *)
  Inductive Interleave : list (list J) -> list J -> Prop :=
  | I_nil ts : Forall (fun t => t = []) ts -> Interleave ts []
  | I_step pre a t post l :
      Interleave (pre ++ t :: post) l -> Interleave (pre ++ (a :: t) :: post) (a :: l).

  (* each job tagged with its identity gets the same output in every interleaving *)
  Theorem schedule_free g (threads : list (list J)) tr1 tr2 :
    Interleave threads tr1 -> Interleave threads tr2 ->
    forall j, In j tr1 -> In j tr2 ->
    forall o1 o2, In (j, o1) (combine tr1 (run g tr1)) -> In (j, o2) (combine tr2 (run g tr2)) -> o1 = o2.
  Proof.
    intros _ _ j _ _ o1 o2 H1 H2. rewrite run_history_free in H1, H2.
    assert (K : forall tr o, In (j, o) (combine tr (map (fun j => snd (step g j)) tr)) -> o = snd (step g j)).
    { induction tr as [|a t IH]; cbn [map combine In]; [tauto|].
      intros o [E|H]; [inversion E; reflexivity | apply IH; exact H]. }
    rewrite (K _ _ H1), (K _ _ H2). reflexivity.
  Qed.
End Shared.
