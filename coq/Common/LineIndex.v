(* deno_ast text_lines: the 0-based line of a byte position is the number of
   '\n' bytes strictly before it ('\r' alone is not a terminator).  The model
   carries the positions of the '\n' bytes of the file. *)
From V Require Export Common.Str.
Open Scope N_scope.

Definition line_index (nls : list N) (pos : N) : N :=
  N.of_nat (length (filter (fun o => o <? pos) nls)).

Lemma line_index_mono nls p q : p <= q -> line_index nls p <= line_index nls q.
Proof.
  intros H. unfold line_index.
  assert (length (filter (fun o => o <? p) nls) <= length (filter (fun o => o <? q) nls))%nat; [|lia].
  induction nls as [|o t IH]; cbn [filter]; [lia|].
  destruct (N.ltb_spec o p), (N.ltb_spec o q); cbn [length]; lia.
Qed.

(* shifting every newline offset and the position by k leaves the line unchanged;
   inserting a prefix that contains j newlines adds j *)
Lemma line_index_shift k nls p :
  line_index (map (N.add k) nls) (k + p) = line_index nls p.
Proof.
  unfold line_index. f_equal.
  induction nls as [|o t IH]; cbn [map filter]; [reflexivity|].
  destruct (N.ltb_spec (k + o) (k + p)), (N.ltb_spec o p); try lia; cbn [length]; rewrite IH; reflexivity.
Qed.

Lemma line_index_prefix pre k nls p :
  Forall (fun o => o < k) pre ->
  line_index (pre ++ map (N.add k) nls) (k + p) = N.of_nat (length pre) + line_index nls p.
Proof.
  intros Hpre. unfold line_index. rewrite filter_app, app_length.
  assert (filter (fun o => o <? k + p) pre = pre) as ->.
  { induction Hpre as [|o t Ho _ IH]; cbn [filter]; [reflexivity|].
    destruct (N.ltb_spec o (k + p)); [rewrite IH; reflexivity | lia]. }
  fold (line_index (map (N.add k) nls) (k + p)).
  pose proof (line_index_shift k nls p) as E. unfold line_index in E.
  apply Nnat.Nat2N.inj_iff in E. rewrite E. lia.
Qed.
