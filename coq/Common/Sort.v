(* A stable insertion sort and the facts that make it a model of Rust's
   (stable) `sort_by`: it returns THE stable sorted permutation, which is
   unique; it commutes with filters. *)
From Coq Require Import List Bool Permutation Sorted Lia.
Import ListNotations.

Section Sort.
  Variable A : Type.
  Variable leb : A -> A -> bool.
  Hypothesis leb_total : forall a b, leb a b = true \/ leb b a = true.
  Hypothesis leb_trans : forall a b c, leb a b = true -> leb b c = true -> leb a c = true.

  Definition le (a b : A) : Prop := leb a b = true.
  Definition eqv (a b : A) : bool := leb a b && leb b a.

  Fixpoint insert (x : A) (l : list A) : list A :=
    match l with
    | [] => [x]
    | y :: t => if leb x y then x :: y :: t else y :: insert x t
    end.

  Fixpoint ssort (l : list A) : list A :=
    match l with
    | [] => []
    | x :: t => insert x (ssort t)
    end.

  Lemma leb_refl a : leb a a = true.
  Proof. destruct (leb_total a a); assumption. Qed.

  Lemma insert_perm x l : Permutation (insert x l) (x :: l).
  Proof.
    induction l as [|y t IH]; cbn [insert]; [reflexivity|].
    destruct (leb x y); [reflexivity|].
    rewrite IH. apply perm_swap.
  Qed.

  Lemma ssort_perm l : Permutation (ssort l) l.
  Proof.
    induction l as [|x t IH]; cbn [ssort]; [reflexivity|].
    rewrite insert_perm. constructor. assumption.
  Qed.

  Lemma ssort_In x l : In x (ssort l) <-> In x l.
  Proof.
    split; intros H.
    - eapply Permutation_in; [apply ssort_perm | exact H].
    - eapply Permutation_in; [apply Permutation_sym, ssort_perm | exact H].
  Qed.

  Lemma ssort_length l : length (ssort l) = length l.
  Proof. apply Permutation_length, ssort_perm. Qed.

  Lemma insert_sorted x l : StronglySorted le l -> StronglySorted le (insert x l).
  Proof.
    induction l as [|y t IH]; intros Hs; cbn [insert].
    - constructor; constructor.
    - destruct (leb x y) eqn:E.
      + constructor; [assumption|]. constructor; [exact E|].
        inversion Hs as [|? ? _ Hall]; subst.
        rewrite Forall_forall in *. intros z Hz. eapply leb_trans; [exact E | apply Hall; assumption].
      + inversion Hs as [|? ? Hst Hall]; subst.
        constructor; [apply IH; assumption|].
        rewrite Forall_forall in *. intros z Hz.
        apply (Permutation_in _ (insert_perm x t)) in Hz. destruct Hz as [<-|Hz].
        * destruct (leb_total x y) as [H|H]; [congruence | exact H].
        * apply Hall; assumption.
  Qed.

  Lemma ssort_sorted l : StronglySorted le (ssort l).
  Proof.
    induction l as [|x t IH]; cbn [ssort]; [constructor | apply insert_sorted; assumption].
  Qed.

  (* filters commute with the stable sort *)
  Lemma filter_insert p x l :
    StronglySorted le l ->
    filter p (insert x l) = if p x then insert x (filter p l) else filter p l.
  Proof.
    induction l as [|y t IH]; intros Hs; cbn [insert filter].
    - destruct (p x); reflexivity.
    - inversion Hs as [|? ? Hst Hall]; subst.
      destruct (leb x y) eqn:E.
      + cbn [filter]. destruct (p x) eqn:Px; [|reflexivity].
        destruct (p y) eqn:Py.
        * cbn [insert]. rewrite E. reflexivity.
        * (* x goes in front of the first kept element, which is >= y >= x *)
          clear IH. induction t as [|z t IHt]; cbn [filter insert]; [reflexivity|].
          inversion Hall as [|? ? Hyz Hall']; subst.
          inversion Hst as [|? ? Hst' Hallz]; subst.
          destruct (p z) eqn:Pz.
          -- cbn [insert]. rewrite (leb_trans _ _ _ E Hyz). reflexivity.
          -- apply IHt; try assumption. constructor; assumption.
      + cbn [filter]. rewrite (IH Hst).
        destruct (p y) eqn:Py; destruct (p x) eqn:Px; try reflexivity.
        cbn [insert]. rewrite E. reflexivity.
  Qed.

  Lemma filter_ssort p l : filter p (ssort l) = ssort (filter p l).
  Proof.
    induction l as [|x t IH]; cbn [ssort filter]; [reflexivity|].
    rewrite filter_insert by apply ssort_sorted.
    destruct (p x); cbn [ssort]; rewrite IH; reflexivity.
  Qed.

  (* a list of pairwise-equivalent elements is left alone *)
  Lemma ssort_all_eqv l :
    (forall a b, In a l -> In b l -> leb a b = true) -> ssort l = l.
  Proof.
    induction l as [|x t IH]; intros H; cbn [ssort]; [reflexivity|].
    rewrite IH by (intros; apply H; right; assumption).
    destruct t as [|y t']; cbn [insert]; [reflexivity|].
    rewrite H by (cbn; auto). reflexivity.
  Qed.

  Lemma eqv_sym a b : eqv a b = eqv b a.
  Proof. unfold eqv. apply andb_comm. Qed.

  Lemma eqv_trans a b c : eqv a b = true -> eqv b c = true -> eqv a c = true.
  Proof.
    unfold eqv. rewrite !andb_true_iff. intros [H1 H2] [H3 H4]; split; eapply leb_trans; eassumption.
  Qed.

  (* two sorted permutations with the same per-class subsequences are equal *)
  Lemma sorted_stable_unique l1 : forall l2,
    StronglySorted le l1 -> StronglySorted le l2 ->
    Permutation l1 l2 ->
    (forall x, filter (eqv x) l1 = filter (eqv x) l2) ->
    l1 = l2.
  Proof.
    induction l1 as [|a t1 IH]; intros l2 S1 S2 P F.
    - apply Permutation_nil in P. congruence.
    - destruct l2 as [|b t2]; [apply Permutation_sym, Permutation_nil in P; discriminate|].
      inversion S1 as [|? ? S1' A1]; subst. inversion S2 as [|? ? S2' A2]; subst.
      rewrite Forall_forall in A1, A2.
      assert (Hab : leb a b = true).
      { assert (In b (a :: t1)) as [->|Hb] by (eapply Permutation_in; [apply Permutation_sym; exact P | left; reflexivity]).
        - apply leb_refl. - apply A1; assumption. }
      assert (Hba : leb b a = true).
      { assert (In a (b :: t2)) as [->|Ha] by (eapply Permutation_in; [exact P | left; reflexivity]).
        - apply leb_refl. - apply A2; assumption. }
      assert (a = b).
      { pose proof (F a) as Fa. cbn [filter] in Fa.
        assert (Eaa : eqv a a = true) by (unfold eqv; rewrite leb_refl; reflexivity).
        assert (Eab : eqv a b = true) by (unfold eqv; rewrite Hab, Hba; reflexivity).
        rewrite Eaa, Eab in Fa. congruence. }
      subst b. f_equal. apply IH; try assumption.
      + eapply Permutation_cons_inv; exact P.
      + intros x. pose proof (F x) as Fx. cbn [filter] in Fx.
        destruct (eqv x a); congruence.
  Qed.

  (* THE characterisation: any stable sorting function agrees with ssort *)
  Theorem ssort_unique l l' :
    StronglySorted le l' -> Permutation l' l ->
    (forall x, filter (eqv x) l' = filter (eqv x) l) ->
    l' = ssort l.
  Proof.
    intros S P F. apply sorted_stable_unique; try assumption.
    - apply ssort_sorted.
    - rewrite P. apply Permutation_sym, ssort_perm.
    - intros x. rewrite filter_ssort, F.
      symmetry. apply ssort_all_eqv.
      intros a b Ha Hb. apply filter_In in Ha, Hb. destruct Ha as [_ Ha], Hb as [_ Hb].
      rewrite eqv_sym in Ha. pose proof (eqv_trans _ _ _ Ha Hb) as E.
      unfold eqv in E. apply andb_true_iff in E. tauto.
  Qed.

  Theorem ssort_stable_perm l l' :
    Permutation l l' ->
    (forall x, filter (eqv x) l = filter (eqv x) l') ->
    ssort l = ssort l'.
  Proof.
    intros P F. apply ssort_unique.
    - apply ssort_sorted.
    - rewrite ssort_perm. exact P.
    - intros x. rewrite filter_ssort, F.
      apply ssort_all_eqv.
      intros a b Ha Hb. apply filter_In in Ha, Hb. destruct Ha as [_ Ha], Hb as [_ Hb].
      rewrite eqv_sym in Ha. pose proof (eqv_trans _ _ _ Ha Hb) as E.
      unfold eqv in E. apply andb_true_iff in E. tauto.
  Qed.

  Lemma ssort_idem l : ssort (ssort l) = ssort l.
  Proof.
    symmetry. apply ssort_unique.
    - apply ssort_sorted.
    - reflexivity.
    - reflexivity.
  Qed.

  Lemma ssort_sorted_id l : StronglySorted le l -> ssort l = l.
  Proof.
    intros S. symmetry. apply ssort_unique; [assumption | reflexivity | reflexivity].
  Qed.

  (* with an antisymmetric order the sorted permutation is unique outright *)
  Theorem ssort_perm_antisym l l' :
    (forall a b, leb a b = true -> leb b a = true -> a = b) ->
    Permutation l l' -> ssort l = ssort l'.
  Proof.
    intros anti P.
    assert (G : forall l1 l2, StronglySorted le l1 -> StronglySorted le l2 -> Permutation l1 l2 -> l1 = l2).
    { induction l1 as [|a t1 IH]; intros l2 S1 S2 P'.
      - apply Permutation_nil in P'. congruence.
      - destruct l2 as [|b t2]; [apply Permutation_sym, Permutation_nil in P'; discriminate|].
        inversion S1 as [|? ? S1' A1]; subst. inversion S2 as [|? ? S2' A2]; subst.
        rewrite Forall_forall in A1, A2.
        assert (a = b).
        { apply anti.
          - assert (In b (a :: t1)) as [->|Hb] by (eapply Permutation_in; [apply Permutation_sym; exact P' | left; reflexivity]);
              [apply leb_refl | apply A1; assumption].
          - assert (In a (b :: t2)) as [->|Ha] by (eapply Permutation_in; [exact P' | left; reflexivity]);
              [apply leb_refl | apply A2; assumption]. }
        subst b. f_equal. apply IH; try assumption. eapply Permutation_cons_inv; exact P'. }
    apply G; try apply ssort_sorted.
    rewrite !ssort_perm. exact P.
  Qed.

End Sort.

Arguments insert {A}.
Arguments ssort {A}.
Arguments eqv {A}.
Arguments le {A}.
