(* Strings as lists of code points (N).  Rust's `str` ordering is bytewise on
   UTF-8, which coincides with code-point lexicographic order. *)
From Coq Require Export List NArith Bool Lia.
From Coq Require Import String Ascii.
Export ListNotations.
Open Scope N_scope.

Definition str := list N.

Definition s2l (s : string) : str := List.map N_of_ascii (list_ascii_of_string s).

Fixpoint str_eqb (a b : str) : bool :=
  match a, b with
  | [], [] => true
  | x :: a', y :: b' => N.eqb x y && str_eqb a' b'
  | _, _ => false
  end.

Lemma str_eqb_spec a b : reflect (a = b) (str_eqb a b).
Proof.
  revert b; induction a as [|x a IH]; intros [|y b]; cbn [str_eqb]; try (constructor; congruence).
  destruct (N.eqb_spec x y) as [->|Hne]; cbn [andb].
  - destruct (IH b) as [->|Hne]; constructor; congruence.
  - constructor; congruence.
Qed.

Lemma str_eqb_refl a : str_eqb a a = true.
Proof. destruct (str_eqb_spec a a); congruence. Qed.

Lemma str_eqb_eq a b : str_eqb a b = true <-> a = b.
Proof. destruct (str_eqb_spec a b); split; congruence. Qed.

Lemma str_eqb_neq a b : str_eqb a b = false <-> a <> b.
Proof. destruct (str_eqb_spec a b); split; congruence. Qed.

Lemma str_eqb_sym a b : str_eqb a b = str_eqb b a.
Proof. destruct (str_eqb_spec a b), (str_eqb_spec b a); congruence. Qed.

Definition str_eq_dec (a b : str) : {a = b} + {a <> b}.
Proof. destruct (str_eqb_spec a b); [left|right]; assumption. Defined.

Definition mem (c : str) (l : list str) : bool := existsb (str_eqb c) l.

Lemma mem_In c l : mem c l = true <-> In c l.
Proof.
  unfold mem; rewrite existsb_exists; split.
  - intros [x [Hx He]]. apply str_eqb_eq in He. subst; assumption.
  - intros H; exists c; split; [assumption | apply str_eqb_refl].
Qed.

Lemma mem_not_In c l : mem c l = false <-> ~ In c l.
Proof. rewrite <- mem_In. destruct (mem c l); split; congruence. Qed.

(* lexicographic comparison *)
Fixpoint str_cmp (a b : str) : comparison :=
  match a, b with
  | [], [] => Eq
  | [], _ :: _ => Lt
  | _ :: _, [] => Gt
  | x :: a', y :: b' =>
      match N.compare x y with
      | Eq => str_cmp a' b'
      | c => c
      end
  end.

Lemma str_cmp_eq a b : str_cmp a b = Eq <-> a = b.
Proof.
  revert b; induction a as [|x a IH]; intros [|y b]; cbn [str_cmp]; try (split; congruence).
  destruct (N.compare_spec x y) as [->|H|H].
  - rewrite IH; split; congruence.
  - split; [congruence | intros E; inversion E; lia].
  - split; [congruence | intros E; inversion E; lia].
Qed.

Lemma str_cmp_antisym a b : str_cmp b a = CompOpp (str_cmp a b).
Proof.
  revert b; induction a as [|x a IH]; intros [|y b]; cbn [str_cmp CompOpp]; try reflexivity.
  rewrite (N.compare_antisym x y).
  destruct (N.compare x y); cbn [CompOpp]; auto.
Qed.

Lemma str_cmp_trans c a b d : str_cmp a b = c -> str_cmp b d = c -> str_cmp a d = c.
Proof.
  revert b d; induction a as [|x a IH]; intros [|y b] [|z d]; cbn [str_cmp]; try congruence.
  destruct (N.compare_spec x y) as [->|Hxy|Hxy].
  - destruct (N.compare_spec y z) as [->|Hyz|Hyz]; [apply IH | congruence | congruence].
  - intros <-. destruct (N.compare_spec y z) as [->|Hyz|Hyz]; try congruence.
    + intros _. destruct (N.compare_spec x z); try lia; reflexivity.
    + intros _. destruct (N.compare_spec x z); try lia; reflexivity.
  - intros <-. destruct (N.compare_spec y z) as [->|Hyz|Hyz]; try congruence.
    + intros _. destruct (N.compare_spec x z); try lia; reflexivity.
    + intros _. destruct (N.compare_spec x z); try lia; reflexivity.
Qed.

Definition str_leb (a b : str) : bool :=
  match str_cmp a b with Gt => false | _ => true end.

Lemma str_leb_total a b : str_leb a b = true \/ str_leb b a = true.
Proof.
  unfold str_leb. rewrite (str_cmp_antisym a b).
  destruct (str_cmp a b); cbn; auto.
Qed.

Lemma str_leb_refl a : str_leb a a = true.
Proof. unfold str_leb. assert (str_cmp a a = Eq) as -> by (apply str_cmp_eq; reflexivity). reflexivity. Qed.

Lemma str_leb_antisym a b : str_leb a b = true -> str_leb b a = true -> a = b.
Proof.
  unfold str_leb. rewrite (str_cmp_antisym a b).
  destruct (str_cmp a b) eqn:E; cbn; try congruence.
  intros _ _. apply str_cmp_eq; assumption.
Qed.

Lemma str_leb_trans a b c : str_leb a b = true -> str_leb b c = true -> str_leb a c = true.
Proof.
  unfold str_leb.
  destruct (str_cmp a b) eqn:E1; try congruence;
  destruct (str_cmp b c) eqn:E2; try congruence; intros _ _.
  - apply str_cmp_eq in E1; subst. rewrite E2; reflexivity.
  - apply str_cmp_eq in E1; subst. rewrite E2; reflexivity.
  - apply str_cmp_eq in E2; subst. rewrite E1; reflexivity.
  - rewrite (str_cmp_trans Lt a b c E1 E2); reflexivity.
Qed.
