(* UTF-8 arithmetic over strings-as-code-point-lists.

   `utf8_len c`      = Rust `char::len_utf8`
   `utf8_enc c`      = the bytes of one scalar value
   `utf8 cs`         = the bytes of a `str` whose chars are `cs`
   `bytes cs`        = `str::len` (sum of utf8_len)
   `utf8_offsets cs` = the byte offsets `char_indices` yields, plus the total length (prefix sums)
   `is_char_boundary bs i` = Rust `str::is_char_boundary` on the byte level
   `boundary cs i`   = byte offset i is a char boundary of the UTF-8 encoding of cs

   Main lemma: the boundaries of `utf8 cs` are exactly the prefix sums of utf8_len
   (`boundary_iff_prefix`, `boundary_iff_offsets`); 0 and the total length are boundaries.
   No validity assumption on the code points is needed (a value >= 0x10000 is given 4 bytes). *)
From V Require Export Common.Str.
From Coq Require Import PeanoNat.
Open Scope N_scope.

Definition len {A : Type} (l : list A) : N := N.of_nat (length l).

Definition utf8_len (c : N) : N :=
  if c <? 128 then 1 else if c <? 2048 then 2 else if c <? 65536 then 3 else 4.

Definition utf8_enc (c : N) : list N :=
  if c <? 128 then [c]
  else if c <? 2048 then [192 + c / 64; 128 + c mod 64]
  else if c <? 65536 then [224 + c / 4096; 128 + (c / 64) mod 64; 128 + c mod 64]
  else [240 + c / 262144; 128 + (c / 4096) mod 64; 128 + (c / 64) mod 64; 128 + c mod 64].

Definition utf8 (cs : list N) : list N := flat_map utf8_enc cs.

Fixpoint bytes (cs : list N) : N :=
  match cs with
  | [] => 0
  | c :: r => utf8_len c + bytes r
  end.

Fixpoint offsets_from (o : N) (cs : list N) : list N :=
  o :: match cs with
       | [] => []
       | c :: r => offsets_from (o + utf8_len c) r
       end.

Definition utf8_offsets (cs : list N) : list N := offsets_from 0 cs.

Definition is_ascii (c : N) : bool := c <? 128.

(* continuation byte 10xxxxxx *)
Definition is_cont (b : N) : bool := (128 <=? b) && (b <? 192).

Definition bnd (bs : list N) (n : nat) : bool :=
  Nat.eqb n 0 ||
  match nth_error bs n with
  | None => Nat.eqb n (length bs)
  | Some b => negb (is_cont b)
  end.

(* Rust: index == 0 || (index >= len ? index == len : (bytes[index] as i8) >= -0x40) *)
Definition is_char_boundary (bs : list N) (i : N) : bool := bnd bs (N.to_nat i).

Definition boundary (cs : list N) (i : N) : Prop := is_char_boundary (utf8 cs) i = true.

(* ------------------------------------------------------------------ lengths *)
Lemma len_nil {A} : len (@nil A) = 0.
Proof. reflexivity. Qed.

Lemma len_cons {A} (x : A) l : len (x :: l) = 1 + len l.
Proof. unfold len. cbn [length]. lia. Qed.

Lemma len_app {A} (a b : list A) : len (a ++ b) = len a + len b.
Proof. unfold len. rewrite app_length. lia. Qed.

Lemma utf8_len_range c : 1 <= utf8_len c <= 4.
Proof. unfold utf8_len. destruct (c <? 128), (c <? 2048), (c <? 65536); lia. Qed.

Lemma utf8_len_pos c : 0 < utf8_len c.
Proof. pose proof (utf8_len_range c). lia. Qed.

Lemma utf8_len_ascii c : is_ascii c = true <-> utf8_len c = 1.
Proof.
  unfold is_ascii, utf8_len. destruct (N.ltb_spec c 128) as [H|H].
  - split; reflexivity.
  - destruct (c <? 2048), (c <? 65536); split; intros E; try discriminate; lia.
Qed.

(* the test `pi > i + 1` of prefer_ascii.rs is the same test as `!c.is_ascii()` *)
Lemma utf8_len_gt1 c : (1 <? utf8_len c) = negb (is_ascii c).
Proof.
  unfold is_ascii, utf8_len. destruct (c <? 128); [reflexivity|].
  destruct (c <? 2048); [reflexivity|]. destruct (c <? 65536); reflexivity.
Qed.

Lemma utf8_enc_length c : len (utf8_enc c) = utf8_len c.
Proof. unfold utf8_enc, utf8_len. destruct (c <? 128), (c <? 2048), (c <? 65536); reflexivity. Qed.

Lemma utf8_app a b : utf8 (a ++ b) = utf8 a ++ utf8 b.
Proof. unfold utf8. apply flat_map_app. Qed.

Lemma bytes_app a b : bytes (a ++ b) = bytes a + bytes b.
Proof. induction a as [|c a IH]; cbn [bytes app]; [reflexivity | rewrite IH; lia]. Qed.

Lemma utf8_length cs : len (utf8 cs) = bytes cs.
Proof.
  induction cs as [|c cs IH]; [reflexivity|].
  change (utf8 (c :: cs)) with (utf8_enc c ++ utf8 cs).
  rewrite len_app, utf8_enc_length, IH. reflexivity.
Qed.

Lemma utf8_length_nat cs : length (utf8 cs) = N.to_nat (bytes cs).
Proof. rewrite <- utf8_length. unfold len. lia. Qed.

Lemma bytes_ascii cs : forallb is_ascii cs = true -> bytes cs = len cs.
Proof.
  induction cs as [|c cs IH]; cbn [forallb bytes]; [reflexivity|].
  intros H. apply andb_true_iff in H as [Hc Hr].
  apply utf8_len_ascii in Hc. rewrite Hc, IH, len_cons by assumption. reflexivity.
Qed.

Lemma bytes_firstn_le k cs : bytes (firstn k cs) <= bytes cs.
Proof.
  rewrite <- (firstn_skipn k cs) at 2. rewrite bytes_app. lia.
Qed.

(* ------------------------------------------------------------------ shape of one encoded scalar *)
Lemma enc_shape c :
  exists h tl, utf8_enc c = h :: tl /\ is_cont h = false /\ Forall (fun b => is_cont b = true) tl.
Proof.
  unfold utf8_enc, is_cont.
  destruct (N.ltb_spec c 128) as [H1|H1].
  { exists c, []. repeat split; [|constructor].
    destruct (N.leb_spec 128 c); [lia | reflexivity]. }
  assert (Hm : forall y, (128 <=? 128 + y mod 64) && (128 + y mod 64 <? 192) = true).
  { intros y. assert (Hy : y mod 64 < 64) by (apply N.mod_lt; discriminate).
    generalize dependent (y mod 64). intros m Hy.
    destruct (N.leb_spec 128 (128 + m)); destruct (N.ltb_spec (128 + m) 192); try lia; reflexivity. }
  assert (Hh : forall k y, 192 <= k -> (128 <=? k + y) && (k + y <? 192) = false).
  { intros k y Hk. destruct (N.leb_spec 128 (k + y)); destruct (N.ltb_spec (k + y) 192); try lia; reflexivity. }
  destruct (c <? 2048).
  { eexists _, _. repeat split; [apply Hh; lia|]. repeat constructor; apply Hm. }
  destruct (c <? 65536).
  { eexists _, _. repeat split; [apply Hh; lia|]. repeat constructor; apply Hm. }
  eexists _, _. repeat split; [apply Hh; lia|]. repeat constructor; apply Hm.
Qed.

Lemma utf8_head cs : utf8 cs = [] \/ exists b r, utf8 cs = b :: r /\ is_cont b = false.
Proof.
  destruct cs as [|c cs]; [left; reflexivity | right].
  change (utf8 (c :: cs)) with (utf8_enc c ++ utf8 cs).
  destruct (enc_shape c) as (h & tl & E & Hh & _). rewrite E.
  exists h, (tl ++ utf8 cs). split; [reflexivity | assumption].
Qed.

(* ------------------------------------------------------------------ boundaries, nat level *)
Lemma bnd_0 bs : bnd bs 0 = true.
Proof. reflexivity. Qed.

Lemma bnd_length bs : bnd bs (length bs) = true.
Proof.
  unfold bnd. destruct (Nat.eqb (length bs) 0); [reflexivity|].
  assert (nth_error bs (length bs) = None) as -> by (apply nth_error_None; lia).
  cbn [orb]. apply Nat.eqb_refl.
Qed.

Lemma bnd_enc_app c rest n :
  (rest = [] \/ exists b r, rest = b :: r /\ is_cont b = false) ->
  (bnd (utf8_enc c ++ rest) n = true <->
   n = 0%nat \/ (length (utf8_enc c) <= n)%nat /\ bnd rest (n - length (utf8_enc c)) = true).
Proof.
  intros Hrest.
  destruct (enc_shape c) as (h & tl & E & Hh & Htl). rewrite E.
  destruct n as [|n]; [split; auto|].
  unfold bnd at 1. change (Nat.eqb (S n) 0) with false. cbn [orb].
  destruct (Nat.lt_ge_cases n (length tl)) as [Hlt|Hge].
  - (* strictly inside the encoded scalar: a continuation byte *)
    cbn [app nth_error]. rewrite nth_error_app1 by assumption.
    destruct (nth_error tl n) as [b|] eqn:En.
    + apply nth_error_In in En. rewrite Forall_forall in Htl. rewrite (Htl b En).
      cbn [negb length]. split; [discriminate | intros [H|[H _]]; lia].
    + apply nth_error_None in En. lia.
  - cbn [app nth_error]. rewrite nth_error_app2 by assumption.
    assert (EL : length (h :: tl ++ rest) = (S (length tl) + length rest)%nat)
      by (cbn [length]; rewrite app_length; lia).
    rewrite EL. cbn [length].
    replace (S n - S (length tl))%nat with (n - length tl)%nat by lia.
    split.
    + intros H. right. split; [lia|].
      unfold bnd. destruct (n - length tl)%nat as [|j] eqn:Ej; [reflexivity|].
      change (Nat.eqb (S j) 0) with false. cbn [orb].
      destruct (nth_error rest (S j)) as [b|]; [assumption|].
      apply Nat.eqb_eq in H. apply Nat.eqb_eq. lia.
    + intros [H|[_ H]]; [discriminate|].
      unfold bnd in H. destruct (n - length tl)%nat as [|j] eqn:Ej.
      * (* the first byte of the rest: end of text or a leading byte *)
        destruct Hrest as [->|(b & r & -> & Hb)]; cbn [nth_error].
        -- apply Nat.eqb_eq. cbn [length]. lia.
        -- rewrite Hb. reflexivity.
      * change (Nat.eqb (S j) 0) with false in H. cbn [orb] in H.
        destruct (nth_error rest (S j)) as [b|]; [assumption|].
        apply Nat.eqb_eq in H. apply Nat.eqb_eq. lia.
Qed.

Lemma bnd_utf8_iff cs n :
  bnd (utf8 cs) n = true <-> exists k, n = length (utf8 (firstn k cs)).
Proof.
  revert n. induction cs as [|c cs IH]; intros n.
  - cbn [utf8 flat_map]. split.
    + intros H. exists 0%nat. destruct n as [|n]; [reflexivity|]. discriminate H.
    + intros [k ->]. rewrite firstn_nil. reflexivity.
  - change (utf8 (c :: cs)) with (utf8_enc c ++ utf8 cs).
    rewrite (bnd_enc_app c (utf8 cs) n (utf8_head cs)). split.
    + intros [->|[Hle H]].
      * exists 0%nat. reflexivity.
      * apply IH in H as [k Hk]. exists (S k). cbn [firstn].
        change (utf8 (c :: firstn k cs)) with (utf8_enc c ++ utf8 (firstn k cs)).
        rewrite app_length. lia.
    + intros [k ->]. destruct k as [|k]; [left; reflexivity | right].
      cbn [firstn]. change (utf8 (c :: firstn k cs)) with (utf8_enc c ++ utf8 (firstn k cs)).
      rewrite app_length. split; [lia|].
      apply IH. exists k. lia.
Qed.

(* ------------------------------------------------------------------ boundaries, N level *)
Theorem boundary_iff_prefix cs i : boundary cs i <-> exists k, i = bytes (firstn k cs).
Proof.
  unfold boundary, is_char_boundary. rewrite bnd_utf8_iff. split; intros [k H]; exists k.
  - rewrite utf8_length_nat in H. lia.
  - rewrite utf8_length_nat. lia.
Qed.

Lemma offsets_from_shift o cs : offsets_from o cs = map (N.add o) (offsets_from 0 cs).
Proof.
  revert o. induction cs as [|c cs IH]; intros o; cbn [offsets_from map].
  - f_equal. lia.
  - rewrite (IH (o + utf8_len c)), (IH (0 + utf8_len c)). rewrite map_map. f_equal; [lia|].
    apply map_ext. intros x. lia.
Qed.

Lemma offsets_iff_prefix cs i : In i (utf8_offsets cs) <-> exists k, i = bytes (firstn k cs).
Proof.
  unfold utf8_offsets. revert i. induction cs as [|c cs IH]; intros i; cbn [offsets_from In].
  - split.
    + intros [<-|[]]. exists 0%nat. reflexivity.
    + intros [k ->]. rewrite firstn_nil. left. reflexivity.
  - rewrite offsets_from_shift, in_map_iff. split.
    + intros [<-|(j & <- & Hj)].
      * exists 0%nat. reflexivity.
      * apply IH in Hj as [k ->]. exists (S k). cbn [firstn bytes]. lia.
    + intros [k ->]. destruct k as [|k]; [left; reflexivity | right].
      exists (bytes (firstn k cs)). cbn [firstn bytes]. split; [lia|].
      apply IH. exists k. reflexivity.
Qed.

Theorem boundary_iff_offsets cs i : boundary cs i <-> In i (utf8_offsets cs).
Proof. rewrite boundary_iff_prefix, offsets_iff_prefix. reflexivity. Qed.

Theorem boundary_0 cs : boundary cs 0.
Proof. apply boundary_iff_prefix. exists 0%nat. reflexivity. Qed.

Theorem boundary_total cs : boundary cs (bytes cs).
Proof. apply boundary_iff_prefix. exists (length cs). rewrite firstn_all. reflexivity. Qed.

Lemma boundary_le cs i : boundary cs i -> i <= bytes cs.
Proof. intros H. apply boundary_iff_prefix in H as [k ->]. apply bytes_firstn_le. Qed.

(* the end of a prefix is a boundary of the whole *)
Lemma boundary_prefix p t : boundary (p ++ t) (bytes p).
Proof.
  apply boundary_iff_prefix. exists (length p).
  rewrite firstn_app, firstn_all, Nat.sub_diag, firstn_O, app_nil_r. reflexivity.
Qed.

Lemma boundary_app_l p t i : boundary p i -> boundary (p ++ t) i.
Proof.
  rewrite !boundary_iff_prefix. intros [k ->].
  exists (Nat.min k (length p)). rewrite firstn_app.
  replace (Nat.min k (length p) - length p)%nat with 0%nat by lia.
  rewrite firstn_O, app_nil_r.
  destruct (Nat.le_ge_cases k (length p)) as [H|H].
  - rewrite Nat.min_l by assumption. reflexivity.
  - rewrite Nat.min_r by assumption. rewrite !firstn_all2 by lia. reflexivity.
Qed.

Lemma boundary_app_r p t i : boundary t i -> boundary (p ++ t) (bytes p + i).
Proof.
  rewrite !boundary_iff_prefix. intros [k ->].
  exists (length p + k)%nat. rewrite firstn_app.
  rewrite (@firstn_all2 _ (length p + k) p) by lia. replace (length p + k - length p)%nat with k by lia.
  rewrite bytes_app. reflexivity.
Qed.

(* a boundary of p ++ t is a boundary of p or (shifted) one of t *)
Lemma boundary_app_inv p t i :
  boundary (p ++ t) i -> boundary p i \/ exists j, i = bytes p + j /\ boundary t j.
Proof.
  rewrite !boundary_iff_prefix. intros [k ->]. rewrite firstn_app.
  destruct (Nat.le_ge_cases k (length p)) as [H|H].
  - left. exists k. replace (k - length p)%nat with 0%nat by lia.
    rewrite firstn_O, app_nil_r. reflexivity.
  - right. exists (bytes (firstn (k - length p) t)). split.
    + rewrite bytes_app, (@firstn_all2 _ k p) by lia. reflexivity.
    + apply boundary_iff_prefix. exists (k - length p)%nat. reflexivity.
Qed.

(* one ASCII character before an offset that is a boundary: also a boundary *)
Lemma boundary_after_char p c t : boundary (p ++ c :: t) (bytes p + utf8_len c).
Proof.
  replace (p ++ c :: t) with ((p ++ [c]) ++ t) by (rewrite <- app_assoc; reflexivity).
  replace (bytes p + utf8_len c) with (bytes (p ++ [c])) by (rewrite bytes_app; cbn [bytes]; lia).
  apply boundary_prefix.
Qed.

(* strictly inside a multi-byte character: not a boundary *)
Lemma not_boundary_inside p c t j : 0 < j < utf8_len c -> ~ boundary (p ++ c :: t) (bytes p + j).
Proof.
  intros Hj H. apply boundary_app_inv in H as [H|(j' & E & H)].
  - apply boundary_le in H. lia.
  - assert (j' = j) as -> by lia. clear E.
    apply boundary_iff_prefix in H as [k E]. destruct k as [|k]; cbn [firstn bytes] in E; lia.
Qed.
