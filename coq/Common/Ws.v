(* Unicode White_Space (= Rust char::is_whitespace = regex-crate \s), trimming,
   first word. *)
From V Require Export Common.Str.
Open Scope N_scope.

Definition is_ws (c : N) : bool :=
  ((9 <=? c) && (c <=? 13)) || (c =? 32) || (c =? 133) || (c =? 160) || (c =? 5760)
  || ((8192 <=? c) && (c <=? 8202)) || (c =? 8232) || (c =? 8233) || (c =? 8239)
  || (c =? 8287) || (c =? 12288).

Fixpoint dropws (s : str) : str :=
  match s with
  | [] => []
  | c :: t => if is_ws c then dropws t else s
  end.

Definition trim_start (s : str) : str := dropws s.
Definition trim_end (s : str) : str := rev (dropws (rev s)).
Definition trim (s : str) : str := trim_end (trim_start s).

Fixpoint take_word (s : str) : str :=
  match s with
  | [] => []
  | c :: t => if is_ws c then [] else c :: take_word t
  end.

(* `s.split_whitespace().next()` *)
Definition first_word (s : str) : option str :=
  match take_word (dropws s) with
  | [] => None
  | w => Some w
  end.

Fixpoint strip_prefix (p s : str) : option str :=
  match p, s with
  | [], _ => Some s
  | x :: p', y :: s' => if N.eqb x y then strip_prefix p' s' else None
  | _ :: _, [] => None
  end.

Definition no_ws (s : str) : Prop := forallb (fun c => negb (is_ws c)) s = true.
