(* Model of examples/dlint/main.rs::run_linter.  Every worker (one per file, run by a rayon
   pool) performs atomic actions on the shared state: an atomic counter and a mutex-protected
   BTreeMap keyed by path.  After all workers finished, the sequential epilogue prints the map's
   values in key order, then the problem count, and picks the exit status. *)
From V Require Export Common.Str Common.Sort.
From Coq Require Import Permutation.
Open Scope N_scope.

Definition line := str.                       (* one printed line / block, opaque *)

Record fileres := mkRes {
  fr_path : str;                              (* key of the BTreeMap *)
  fr_fatal : bool;                            (* the file does not parse: the worker returns Err *)
  fr_parse : list line;                       (* recoverable parse diagnostics, rendered *)
  fr_lint : list line }.                      (* lint diagnostics, rendered *)

Inductive action :=
| Add (n : N)                                 (* error_counts.fetch_add(n) *)
| Insert (k : str) (v : list line * list line).  (* lock.insert(path, (parse diags, lint diags)) *)

(* the actions of one worker, in program order (a fatal file performs none: `?` returns early) *)
Definition worker (r : fileres) : list action :=
  if fr_fatal r then []
  else [ Add (N.of_nat (length (fr_lint r)) + N.of_nat (length (fr_parse r)));
         Insert (fr_path r) (fr_parse r, fr_lint r) ].

Record shared := mkShared { counter : N; fmap : list (str * (list line * list line)) }.

Definition key_leb (a b : str * (list line * list line)) : bool := str_leb (fst a) (fst b).

(* BTreeMap::insert: replace on equal key, else insert in key order *)
Fixpoint bt_insert (k : str) (v : list line * list line) (m : list (str * (list line * list line))) :=
  match m with
  | [] => [(k, v)]
  | (k', v') :: t =>
      if str_eqb k k' then (k, v) :: t
      else if str_leb k k' then (k, v) :: (k', v') :: t
      else (k', v') :: bt_insert k v t
  end.

Definition step (s : shared) (a : action) : shared :=
  match a with
  | Add n => mkShared (counter s + n) (fmap s)
  | Insert k v => mkShared (counter s) (bt_insert k v (fmap s))
  end.

Definition run_actions (tr : list action) : shared := fold_left step tr (mkShared 0 []).

(* epilogue *)
Definition count_line (n : N) : list line := if n =? 0 then [] else [ [n] ].   (* "Found n problem(s)": opaque line carrying n *)
Definition epilogue (s : shared) : list line * N :=
  (flat_map (fun kv => fst (snd kv) ++ snd (snd kv)) (fmap s) ++ count_line (counter s),
   if counter s =? 0 then 0 else 1).

(* a complete run under a schedule = an interleaving `tr` of the workers' action lists *)
Definition dlint_run (files : list fileres) (tr : list action) : option (list line) * N :=
  if existsb fr_fatal files then (None, 1)              (* Err propagated out of main: status 1, output unspecified *)
  else let '(out, code) := epilogue (run_actions tr) in (Some out, code).
