From V Require Import Dlint.Dlint Common.Interleave.
From Coq Require Import Permutation Sorted.
Open Scope N_scope.

(* ---------- the counter ---------- *)
Definition adds (tr : list action) : N :=
  fold_right (fun a acc => match a with Add n => n + acc | _ => acc end) 0 tr.

Lemma adds_cons a t : adds (a :: t) = match a with Add n => n + adds t | _ => adds t end.
Proof. reflexivity. Qed.

Lemma counter_fold tr s : counter (fold_left step tr s) = counter s + adds tr.
Proof.
  revert s; induction tr as [|a t IH]; intros s; cbn [fold_left]; [cbn; lia|].
  rewrite IH, adds_cons. destruct a; cbn [step counter]; lia.
Qed.

Lemma adds_perm tr tr' : Permutation tr tr' -> adds tr = adds tr'.
Proof.
  intros P; induction P as [|a l l' P IH|a b l|l l' l'' P1 IH1 P2 IH2].
  - reflexivity.
  - rewrite !adds_cons, IH. reflexivity.
  - rewrite !adds_cons. destruct a, b; lia.
  - congruence.
Qed.

(* ---------- the map ---------- *)
Definition inserts (tr : list action) : list (str * (list line * list line)) :=
  flat_map (fun a => match a with Insert k v => [(k, v)] | _ => [] end) tr.

Definition sorted_keys (m : list (str * (list line * list line))) : Prop :=
  StronglySorted (fun a b => str_leb (fst a) (fst b) = true /\ fst a <> fst b) m.

Lemma bt_insert_In k v m x : In x (bt_insert k v m) -> x = (k, v) \/ In x m.
Proof.
  induction m as [|[k' v'] t IH]; cbn [bt_insert].
  - intros [H|[]]; auto.
  - destruct (str_eqb k k'); [intros [H|H]; [auto | right; right; exact H]|].
    destruct (str_leb k k'); [intros [H|H]; auto|].
    intros [H|H]; [right; left; exact H|]. destruct (IH H); [auto | right; right; assumption].
Qed.

Lemma bt_insert_sorted k v m : sorted_keys m -> ~ In k (map fst m) -> sorted_keys (bt_insert k v m).
Proof.
  unfold sorted_keys. induction m as [|[k' v'] t IH]; intros Hs Hnin; cbn [bt_insert].
  - constructor; constructor.
  - destruct (str_eqb_spec k k') as [->|Hne]; [exfalso; apply Hnin; left; reflexivity|].
    inversion Hs as [|? ? Hst Hall]; subst. rewrite Forall_forall in Hall.
    destruct (str_leb k k') eqn:El.
    + constructor; [exact Hs|]. apply Forall_forall. intros x [<-|Hx]; cbn [fst]; [auto|].
      destruct (Hall x Hx) as [H1 H2]. cbn [fst] in *. split; [eapply str_leb_trans; eassumption|].
      intros ->. apply Hne. apply str_leb_antisym; assumption.
    + constructor.
      * apply IH; [assumption | intros H; apply Hnin; right; exact H].
      * apply Forall_forall. intros x Hx. apply bt_insert_In in Hx. destruct Hx as [->|Hx]; [|apply Hall; exact Hx].
        cbn [fst]. split; [|congruence]. destruct (str_leb_total k k'); congruence.
Qed.

(* two key-sorted lists with the same elements are equal *)
Lemma sorted_keys_unique m1 : forall m2,
  sorted_keys m1 -> sorted_keys m2 -> (forall x, In x m1 <-> In x m2) -> m1 = m2.
Proof.
  unfold sorted_keys. induction m1 as [|a t1 IH]; intros m2 S1 S2 E.
  - destruct m2 as [|b t2]; [reflexivity|]. exfalso. apply (E b). left. reflexivity.
  - destruct m2 as [|b t2]; [exfalso; apply (E a); left; reflexivity|].
    inversion S1 as [|? ? S1' A1]; inversion S2 as [|? ? S2' A2]; subst. rewrite Forall_forall in A1, A2.
    assert (a = b).
    { assert (Hb : In b (a :: t1)) by (apply E; left; reflexivity).
      assert (Ha : In a (b :: t2)) by (apply E; left; reflexivity).
      destruct Hb as [Hb|Hb]; [exact Hb|]. destruct Ha as [Ha|Ha]; [symmetry; exact Ha|].
      destruct (A1 b Hb) as [L1 N1], (A2 a Ha) as [L2 N2]. exfalso. apply N1. apply str_leb_antisym; assumption. }
    subst b. f_equal. apply IH; try assumption.
    intros x. split; intros Hx.
    + assert (Hx' : In x (a :: t2)) by (apply E; right; exact Hx). destruct Hx' as [<-|Hx']; [|exact Hx'].
      exfalso. destruct (A1 a Hx) as [_ N]. apply N. reflexivity.
    + assert (Hx' : In x (a :: t1)) by (apply E; right; exact Hx). destruct Hx' as [<-|Hx']; [|exact Hx'].
      exfalso. destruct (A2 a Hx) as [_ N]. apply N. reflexivity.
Qed.

Lemma bt_insert_In_rev k v m x : ~ In k (map fst m) -> (x = (k, v) \/ In x m) -> In x (bt_insert k v m).
Proof.
  induction m as [|[k' v'] t IH]; intros Hnin; cbn [bt_insert].
  - intros [->|[]]; left; reflexivity.
  - destruct (str_eqb_spec k k') as [->|Hne]; [exfalso; apply Hnin; left; reflexivity|].
    destruct (str_leb k k'); [intros [->|H]; [left; reflexivity | right; exact H]|].
    intros [->|[H|H]].
    + right. apply IH; [intros H; apply Hnin; right; exact H | left; reflexivity].
    + left. exact H.
    + right. apply IH; [intros H'; apply Hnin; right; exact H' | right; exact H].
Qed.

Lemma bt_insert_keys_perm k v m :
  ~ In k (map fst m) -> Permutation (map fst (bt_insert k v m)) (k :: map fst m).
Proof.
  induction m as [|[k' v'] t IH]; intros Hnin; cbn [bt_insert map fst]; [reflexivity|].
  destruct (str_eqb_spec k k') as [->|Hne]; [exfalso; apply Hnin; left; reflexivity|].
  destruct (str_leb k k'); cbn [map fst]; [reflexivity|].
  rewrite IH by (intros H; apply Hnin; right; exact H). apply perm_swap.
Qed.

Lemma inserts_cons a t : inserts (a :: t) = match a with Insert k v => (k, v) :: inserts t | _ => inserts t end.
Proof. destruct a; reflexivity. Qed.

(* the state of the map after a trace whose inserted keys are pairwise distinct *)
Lemma fmap_fold tr : forall s,
  sorted_keys (fmap s) -> NoDup (map fst (fmap s) ++ map fst (inserts tr)) ->
  sorted_keys (fmap (fold_left step tr s)) /\
  (forall x, In x (fmap (fold_left step tr s)) <-> In x (fmap s) \/ In x (inserts tr)).
Proof.
  induction tr as [|a t IH]; intros s Hs Hnd; cbn [fold_left].
  - split; [exact Hs | intros x; cbn; tauto].
  - rewrite inserts_cons in *. destruct a as [n|k v]; cbn [step].
    + destruct (IH (mkShared (counter s + n) (fmap s)) Hs Hnd) as [H1 H2]. split; [exact H1 | exact H2].
    + cbn [map fst] in Hnd.
      assert (Hk : ~ In k (map fst (fmap s))).
      { apply NoDup_remove_2 in Hnd. intros H. apply Hnd. apply in_or_app. left. exact H. }
      assert (Hs' : sorted_keys (bt_insert k v (fmap s))) by (apply bt_insert_sorted; assumption).
      assert (Hnd' : NoDup (map fst (bt_insert k v (fmap s)) ++ map fst (inserts t))).
      { eapply Permutation_NoDup; [|exact Hnd].
        rewrite (bt_insert_keys_perm k v (fmap s) Hk). cbn [app]. apply Permutation_sym, Permutation_middle. }
      destruct (IH (mkShared (counter s) (bt_insert k v (fmap s))) Hs' Hnd') as [H1 H2].
      split; [exact H1|]. intros x. rewrite H2. cbn [fmap In]. split.
      * intros [H|H]; [apply bt_insert_In in H; destruct H as [->|H]; [right; left; reflexivity | left; exact H] | right; right; exact H].
      * intros [H|[<-|H]]; [left; apply bt_insert_In_rev; auto | left; apply bt_insert_In_rev; auto | right; exact H].
Qed.

Lemma inserts_perm tr tr' : Permutation tr tr' -> Permutation (inserts tr) (inserts tr').
Proof.
  intros P. unfold inserts. induction P as [|a l l' P IH|a b l|l l' l'' P1 IH1 P2 IH2]; cbn [flat_map].
  - reflexivity.
  - apply Permutation_app_head. exact IH.
  - rewrite !app_assoc. apply Permutation_app_tail. apply Permutation_app_comm.
  - etransitivity; eassumption.
Qed.

(* THE schedule-freedom theorem: any two orders of the same atomic actions (in particular any two
   interleavings of the workers) leave the same shared state, provided the inserted paths are distinct *)
Theorem shared_state_schedule_free tr tr' :
  Permutation tr tr' -> NoDup (map fst (inserts tr)) -> run_actions tr = run_actions tr'.
Proof.
  intros P Hnd. unfold run_actions.
  assert (Hnd' : NoDup (map fst (inserts tr'))).
  { eapply Permutation_NoDup; [apply Permutation_map, inserts_perm; exact P | exact Hnd]. }
  destruct (fmap_fold tr (mkShared 0 [])) as [S1 E1]; [constructor | exact Hnd|].
  destruct (fmap_fold tr' (mkShared 0 [])) as [S2 E2]; [constructor | exact Hnd'|].
  assert (C : counter (fold_left step tr (mkShared 0 [])) = counter (fold_left step tr' (mkShared 0 []))).
  { rewrite !counter_fold. rewrite (adds_perm _ _ P). reflexivity. }
  assert (M : fmap (fold_left step tr (mkShared 0 [])) = fmap (fold_left step tr' (mkShared 0 []))).
  { apply sorted_keys_unique; try assumption. intros x. rewrite E1, E2. cbn [fmap In].
    split; intros [[]|H]; right; (eapply Permutation_in; [|exact H]); [apply inserts_perm; exact P | apply Permutation_sym, inserts_perm; exact P]. }
  destruct (fold_left step tr (mkShared 0 [])), (fold_left step tr' (mkShared 0 [])). cbn in *. congruence.
Qed.

(* an interleaving of the workers' action lists is a permutation of their concatenation *)
Lemma interleave_perm (threads : list (list action)) tr :
  Interleave action threads tr -> Permutation tr (concat threads).
Proof.
  intros H; induction H as [ts Hall|pre a t post l H IH].
  - assert (concat ts = []) as ->; [|reflexivity].
    induction Hall as [|x l Hx _ IHl]; cbn [concat]; [reflexivity|]. rewrite Hx, IHl. reflexivity.
  - rewrite concat_app in *. cbn [concat] in *. cbn [app].
    rewrite IH. rewrite <- Permutation_middle. reflexivity.
Qed.

Definition total_count (files : list fileres) : N :=
  fold_right (fun r acc => (if fr_fatal r then 0 else N.of_nat (length (fr_lint r)) + N.of_nat (length (fr_parse r))) + acc) 0 files.

Lemma adds_concat_workers files : adds (concat (map worker files)) = total_count files.
Proof.
  induction files as [|r t IH]; cbn [map concat adds total_count fold_right]; [reflexivity|].
  fold (total_count t). unfold worker at 1. destruct (fr_fatal r); cbn [app].
  - fold (adds (concat (map worker t))). rewrite IH. lia.
  - cbn [fold_right]. fold (adds (concat (map worker t))). rewrite IH. lia.
Qed.

Lemma inserts_concat_workers files :
  map fst (inserts (concat (map worker files))) = map fr_path (filter (fun r => negb (fr_fatal r)) files).
Proof.
  induction files as [|r t IH]; cbn [map concat inserts flat_map filter]; [reflexivity|].
  unfold worker at 1. destruct (fr_fatal r); cbn [negb app flat_map map fst]; fold (inserts (concat (map worker t))); rewrite IH; reflexivity.
Qed.

(* the whole report and the exit status are the same under every schedule *)
Theorem dlint_schedule_free files tr1 tr2 :
  NoDup (map fr_path files) ->
  Interleave action (map worker files) tr1 -> Interleave action (map worker files) tr2 ->
  dlint_run files tr1 = dlint_run files tr2.
Proof.
  intros Hnd I1 I2. unfold dlint_run. destruct (existsb fr_fatal files); [reflexivity|].
  rewrite (shared_state_schedule_free tr1 tr2); [reflexivity | |].
  - rewrite (interleave_perm _ _ I1). apply Permutation_sym, interleave_perm. exact I2.
  - eapply Permutation_NoDup; [apply Permutation_map, Permutation_sym, inserts_perm, interleave_perm; exact I1|].
    rewrite inserts_concat_workers. clear -Hnd. induction files as [|r t IH]; cbn [filter map]; [constructor|].
    cbn [map] in Hnd. inversion Hnd as [|? ? Hnin Hnd']; subst.
    destruct (negb (fr_fatal r)); cbn [map]; [|apply IH; exact Hnd'].
    constructor; [|apply IH; exact Hnd']. intros H. apply Hnin. apply in_map_iff in H. destruct H as [x [E Hx]].
    apply filter_In in Hx. apply in_map_iff. exists x. tauto.
Qed.

(* the problem count and the exit status *)
Theorem dlint_count_spec files tr :
  Interleave action (map worker files) tr -> counter (run_actions tr) = total_count files.
Proof.
  intros I. unfold run_actions. rewrite counter_fold. cbn [counter].
  rewrite (adds_perm _ _ (interleave_perm _ _ I)). apply adds_concat_workers.
Qed.

Theorem dlint_exit_spec files tr :
  Interleave action (map worker files) tr ->
  snd (dlint_run files tr) = if existsb fr_fatal files || negb (total_count files =? 0) then 1 else 0.
Proof.
  intros I. unfold dlint_run. destruct (existsb fr_fatal files); [reflexivity|].
  cbn [orb]. unfold epilogue. cbn [snd]. rewrite (dlint_count_spec files tr I).
  destruct (total_count files =? 0); reflexivity.
Qed.

(* the order in which the files are given is irrelevant *)
Theorem dlint_argument_order_irrelevant files files' tr tr' :
  NoDup (map fr_path files) -> Permutation files files' ->
  Interleave action (map worker files) tr -> Interleave action (map worker files') tr' ->
  dlint_run files tr = dlint_run files' tr'.
Proof.
  intros Hnd P I1 I2. unfold dlint_run.
  assert (existsb fr_fatal files = existsb fr_fatal files') as <-.
  { destruct (existsb fr_fatal files) eqn:E1, (existsb fr_fatal files') eqn:E2; try reflexivity.
    - apply existsb_exists in E1. destruct E1 as [x [Hx Hf]]. assert (existsb fr_fatal files' = true); [|congruence].
      apply existsb_exists. exists x. split; [eapply Permutation_in; eassumption | exact Hf].
    - apply existsb_exists in E2. destruct E2 as [x [Hx Hf]]. assert (existsb fr_fatal files = true); [|congruence].
      apply existsb_exists. exists x. split; [eapply Permutation_in; [apply Permutation_sym|]; eassumption | exact Hf]. }
  destruct (existsb fr_fatal files); [reflexivity|].
  assert (Pc : Permutation (concat (map worker files)) (concat (map worker files'))).
  { clear -P. induction P as [|a l l' P IH|a b l|l l' l'' P1 IH1 P2 IH2]; cbn [map concat].
    - reflexivity.
    - apply Permutation_app_head. exact IH.
    - rewrite !app_assoc. apply Permutation_app_tail. apply Permutation_app_comm.
    - etransitivity; eassumption. }
  rewrite (shared_state_schedule_free tr tr'); [reflexivity | |].
  - rewrite (interleave_perm _ _ I1), Pc. apply Permutation_sym, interleave_perm. exact I2.
  - eapply Permutation_NoDup; [apply Permutation_map, Permutation_sym, inserts_perm, interleave_perm; exact I1|].
    rewrite inserts_concat_workers. clear -Hnd. induction files as [|r t IH]; cbn [filter map]; [constructor|].
    cbn [map] in Hnd. inversion Hnd as [|? ? Hnin Hnd']; subst.
    destruct (negb (fr_fatal r)); cbn [map]; [|apply IH; exact Hnd'].
    constructor; [|apply IH; exact Hnd']. intros H. apply Hnin. apply in_map_iff in H. destruct H as [x [E Hx]].
    apply filter_In in Hx. apply in_map_iff. exists x. tauto.
Qed.
