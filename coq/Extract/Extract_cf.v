(* Extraction of the control-flow models (C10/C11) for the correspondence stage.
   Directives in force: exactly those of ExtrOcamlBasic. *)
Require Extraction.
Require Import ExtrOcamlBasic.
From V Require Import CF.Oracle CF.AnalyzerG.
Extraction Language OCaml.

Separate Extraction
  Syntax.wfb Analyzer.analyze_st Analyzer.no_unreachable_on Analyzer.getter_return_on Analyzer.no_fallthrough_on
  Analyzer.faithful Analyzer.repaired
  SemDecide.prog_reach SemDecide.prog_can_fall_off
  AnalyzerG.analyzeG Analyzer.any_stops
  Oracle.sem_fallthrough_cases Syntax.no_fn_stmtb Analyzer.current
  Oracle.c10_violations Oracle.c11_getter_violation Oracle.c11_case_violations
  Analyzer.getter_return_panics_on Oracle.c11_getter_violations_all Oracle.sem_falling_getters Syntax.fn_stmt_safeb.
