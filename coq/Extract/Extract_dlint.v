Require Extraction.
Require Import ExtrOcamlBasic.
From V Require Import Dlint.Dlint.
Extraction Language OCaml.
Separate Extraction Dlint.dlint_run Dlint.run_actions Dlint.worker Dlint.epilogue.
