Require Extraction.
Require Import ExtrOcamlBasic.
From V Require Import Jsx.Factory.
Extraction Language OCaml.
Separate Extraction Factory.unused Factory.no_config.
