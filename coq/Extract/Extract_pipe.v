(* Extraction of the executable models for the correspondence stage.
   Directives in force: exactly those of ExtrOcamlBasic (bool, option, unit,
   list, prod, sumbool, sumor as OCaml datatypes; andb/orb/negb/fst/snd inlined).
   N, Z, positive, nat, ascii, string stay the extracted inductive types. *)
Require Extraction.
Require Import ExtrOcamlBasic.
From V Require Import Pipeline.Pipeline.
Extraction Language OCaml.

Separate Extraction
  Pipeline.lint_inner Pipeline.id_oracle Pipeline.rev_oracle Directive.parse_comment.

