(* Extraction of the executable regex-validator model for the correspondence stage (same directives as
   Extract_pipe.v: ExtrOcamlBasic only; N, Z, positive, nat stay the extracted inductive types). *)
Require Extraction.
Require Import ExtrOcamlBasic.
From V Require Import Regex.Validator Regex.RuleDecision Regex.FragParser.
Extraction Language OCaml.

Separate Extraction
  Validator.init_vst Validator.validate_pattern
  RuleDecision.validate_flags RuleDecision.check_regex RuleDecision.check_file RuleDecision.validate_seq
  RuleDecision.dirty_vst
  FragParser.recognises FragParser.in_fragment FragParser.in_grammar.
