Require Extraction.
Require Import ExtrOcamlBasic.
From V Require Import Select.Select.
Extraction Language OCaml.
Separate Extraction Select.filtered_rules Select.recommended_rules Select.sort_rules_by_priority.
