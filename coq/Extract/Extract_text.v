(* Extraction of the text-rule models (C03/C09 text part) and the fix builders / fix application (C13)
   for the correspondence stage.  Directives in force: exactly those of ExtrOcamlBasic. *)
Require Extraction.
Require Import ExtrOcamlBasic.
From V Require Import Common.Utf Text.FixApply Text.FixBuilders Text.PreferAscii Text.Irregular.
Extraction Language OCaml.

Separate Extraction
  Utf.utf8 Utf.bytes Utf.utf8_offsets Utf.is_char_boundary
  FixApply.apply_sorted FixApply.valid_changes FixApply.ch_sort
  PreferAscii.prefer_ascii Irregular.irregular
  FixBuilders.ch_bytes
  FixBuilders.curly_attr_change FixBuilders.curly_child_fix FixBuilders.missing_curly_fix
  FixBuilders.escape FixBuilders.entities_reported
  FixBuilders.boolean_change FixBuilders.spread_change
  FixBuilders.rename_change FixBuilders.process_change FixBuilders.node_global_change
  FixBuilders.vms_all_changes FixBuilders.vms_spec_change
  FixBuilders.curly_attr_fix_before_fix FixBuilders.boolean_change_before_fix FixBuilders.spread_change_before_fix
  FixBuilders.vms_spec_change_before_fix FixBuilders.global_change_before_fix
  FixBuilders.jsx_attr_stringb FixBuilders.jsx_textb FixBuilders.identb FixBuilders.import_line_ok FixBuilders.braces_balanced.
