(* C18: model of the JSX-factory plumbing (src/context.rs Context::new) and of the only place
   where it is read (src/rules/no_unused_vars.rs Collector::visit_jsx_element_name /
   visit_jsx_fragment).  A factory expression is represented by the identifiers that occur in it
   as expressions (`React` for `React.createElement`; member names are not expressions). *)
From V Require Export Common.Str.
Open Scope N_scope.

Record lint_config := mkCfg {
  default_factory : option (list str);       (* idents of default_jsx_factory, if configured *)
  default_fragment : option (list str) }.    (* idents of default_jsx_fragment_factory *)

Record jsx_file := mkJsxFile {
  pragma_factory : option (list str);        (* in-file @jsx pragma (leading comments) *)
  pragma_fragment : option (list str);       (* in-file @jsxFrag pragma *)
  has_element : bool;                        (* the file contains a JSX element (an element NAME is visited) *)
  has_fragment : bool;                       (* the file contains a JSX fragment *)
  declared : list str;                       (* top-level declared names, in report order *)
  used : list str }.                         (* names used by ordinary code *)

(* Context::new: the pragma wins, else the configured default *)
Definition effective (pragma dflt : option (list str)) : option (list str) :=
  match pragma with Some p => Some p | None => dflt end.

Definition opt_idents (o : option (list str)) : list str := match o with Some l => l | None => [] end.

(* what the Collector marks as used because of the configuration *)
Definition factory_usages (c : lint_config) (f : jsx_file) : list str :=
  (if has_element f then opt_idents (effective (pragma_factory f) (default_factory c)) else [])
  ++ (if has_fragment f then opt_idents (effective (pragma_fragment f) (default_fragment c)) else []).

(* the names no-unused-vars reports *)
Definition unused (c : lint_config) (f : jsx_file) : list str :=
  filter (fun d => negb (mem d (used f ++ factory_usages c f))) (declared f).

Definition no_config : lint_config := mkCfg None None.
