From V Require Import Jsx.Factory.
Open Scope N_scope.

Theorem pragma_wins p d : effective (Some p) d = Some p.
Proof. reflexivity. Qed.

Theorem default_used_without_pragma d : effective None d = d.
Proof. reflexivity. Qed.

Lemma mem_app c l1 l2 : mem c (l1 ++ l2) = mem c l1 || mem c l2.
Proof. unfold mem. apply existsb_app. Qed.

(* everything the pragmas alone mark is also marked under any configuration *)
Lemma usages_monotone c f x : In x (factory_usages no_config f) -> In x (factory_usages c f).
Proof.
  unfold factory_usages, no_config, effective. cbn [default_factory default_fragment].
  rewrite !in_app_iff. intros [H|H]; [left | right].
  - destruct (has_element f); [|exact H]. destruct (pragma_factory f); [exact H | contradiction].
  - destruct (has_fragment f); [|exact H]. destruct (pragma_fragment f); [exact H | contradiction].
Qed.

(* the configuration can only remove reports ... *)
Theorem config_only_removes c f x : In x (unused c f) -> In x (unused no_config f).
Proof.
  unfold unused. rewrite !filter_In. intros [Hd Hn]. split; [exact Hd|].
  apply negb_true_iff in Hn. apply negb_true_iff. apply mem_not_In. apply mem_not_In in Hn.
  intros H. apply Hn. apply in_app_or in H. apply in_or_app. destruct H as [H|H]; [left; exact H | right; apply usages_monotone; exact H].
Qed.

(* ... only identifiers of the effective factory expressions, only in files that contain the
   corresponding JSX construct, and only where no pragma overrides the default *)
Theorem removed_are_factory_idents c f x :
  In x (unused no_config f) -> ~ In x (unused c f) ->
  (has_element f = true /\ pragma_factory f = None /\ In x (opt_idents (default_factory c)))
  \/ (has_fragment f = true /\ pragma_fragment f = None /\ In x (opt_idents (default_fragment c))).
Proof.
  unfold unused. rewrite !filter_In. intros [Hd Hn] Hc.
  assert (Hin : In x (used f ++ factory_usages c f)).
  { destruct (mem x (used f ++ factory_usages c f)) eqn:E; [apply mem_In; exact E|].
    exfalso. apply Hc. split; [exact Hd | reflexivity]. }
  apply negb_true_iff in Hn. apply mem_not_In in Hn.
  apply in_app_or in Hin. destruct Hin as [Hin|Hin]; [exfalso; apply Hn; apply in_or_app; left; exact Hin|].
  assert (Hnp : ~ In x (factory_usages no_config f)) by (intros H; apply Hn; apply in_or_app; right; exact H).
  unfold factory_usages, no_config, effective in *. cbn [default_factory default_fragment] in *.
  rewrite in_app_iff in Hin, Hnp. destruct Hin as [Hin|Hin]; [left | right].
  - destruct (has_element f); [|contradiction]. destruct (pragma_factory f); [exfalso; apply Hnp; left; exact Hin|]. auto.
  - destruct (has_fragment f); [|contradiction]. destruct (pragma_fragment f); [exfalso; apply Hnp; right; exact Hin|]. auto.
Qed.

(* a file without JSX is unaffected *)
Theorem no_jsx_no_effect c f :
  has_element f = false -> has_fragment f = false -> unused c f = unused no_config f.
Proof. intros H1 H2. unfold unused, factory_usages. rewrite H1, H2. reflexivity. Qed.

(* a file whose pragmas define both factories is unaffected by the configured defaults *)
Theorem pragmas_make_config_irrelevant c c' f p q :
  pragma_factory f = Some p -> pragma_fragment f = Some q -> unused c f = unused c' f.
Proof. intros H1 H2. unfold unused, factory_usages. rewrite H1, H2. reflexivity. Qed.

(* exact description of the result *)
Theorem unused_spec c f x :
  In x (unused c f) <-> In x (declared f) /\ ~ In x (used f) /\ ~ In x (factory_usages c f).
Proof.
  unfold unused. rewrite filter_In, negb_true_iff, mem_not_In, in_app_iff. tauto.
Qed.

Example config_removes_something :
  unused (mkCfg (Some [[82]]) None) (mkJsxFile None None true false [[82]; [120]] []) = [[120]]
  /\ unused no_config (mkJsxFile None None true false [[82]; [120]] []) = [[82]; [120]].
Proof. split; reflexivity. Qed.
