(* Generated-table obligation: the JSX factory configuration is read by no-unused-vars only. *)
From V Require Import Common.Str Gen.FactoryReaders.
From Coq Require Import String.
Open Scope N_scope.

Theorem only_no_unused_vars_reads_the_factories :
  factory_readers = [s2l "rules/no_unused_vars.rs"%string].
Proof. vm_compute. reflexivity. Qed.
