(* C07: every code of every directive is accounted for exactly once. *)
From V Require Import Common.Sort Pipeline.Directive Pipeline.Pipeline
  Pipeline.DirectiveProofs Pipeline.PipelineProofs Pipeline.PipelineTheorems.
From Coq Require Import Permutation Sorted Arith.
Open Scope N_scope.

(* ---------- counting by boolean equality ---------- *)
Definition optrange_eqb (a b : option (N * N)) : bool :=
  match a, b with
  | None, None => true
  | Some (x, y), Some (x', y') => (x =? x') && (y =? y')
  | _, _ => false
  end.

Definition diag_eqb (a b : diag) : bool :=
  str_eqb (d_code a) (d_code b) && optrange_eqb (d_range a) (d_range b) && str_eqb (d_msg a) (d_msg b).

Lemma diag_eqb_eq a b : diag_eqb a b = true <-> a = b.
Proof.
  destruct a as [c1 r1 m1], b as [c2 r2 m2]. unfold diag_eqb. cbn [d_code d_range d_msg].
  rewrite !andb_true_iff, !str_eqb_eq. split.
  - intros [[-> Hr] ->]. f_equal.
    destruct r1 as [[x y]|], r2 as [[x' y']|]; cbn in Hr; try discriminate; [|reflexivity].
    apply andb_true_iff in Hr. destruct Hr as [H1 H2]. apply N.eqb_eq in H1, H2. subst. reflexivity.
  - intros H; inversion H; subst. repeat split.
    destruct r2 as [[x y]|]; cbn; [rewrite !N.eqb_refl|]; reflexivity.
Qed.

Definition count (x : diag) (l : list diag) : nat := length (filter (diag_eqb x) l).

Lemma count_app x l1 l2 : count x (l1 ++ l2) = (count x l1 + count x l2)%nat.
Proof. unfold count. rewrite filter_app, app_length. reflexivity. Qed.

Lemma count_perm x l1 l2 : Permutation l1 l2 -> count x l1 = count x l2.
Proof.
  intros P. unfold count. induction P as [|a l l' P IH|a b l|l l' l'' P1 IH1 P2 IH2]; cbn [filter].
  - reflexivity.
  - destruct (diag_eqb x a); cbn [length]; congruence.
  - destruct (diag_eqb x b), (diag_eqb x a); reflexivity.
  - congruence.
Qed.

Lemma count_zero x l : ~ In x l -> count x l = 0%nat.
Proof.
  intros H. unfold count. induction l as [|a t IH]; cbn [filter]; [reflexivity|].
  destruct (diag_eqb x a) eqn:E.
  - apply diag_eqb_eq in E. subst. exfalso. apply H. left. reflexivity.
  - apply IH. intros Hin. apply H. right. assumption.
Qed.

Lemma count_flat_map_zero {X} x (g : X -> list diag) l :
  (forall y, In y l -> ~ In x (g y)) -> count x (flat_map g l) = 0%nat.
Proof.
  intros H. apply count_zero. rewrite in_flat_map. intros [y [Hy Hx]]. exact (H y Hy Hx).
Qed.

(* exactly one element of l can produce x *)
Lemma count_flat_map_one {X} x (g : X -> list diag) (l1 l2 : list X) y :
  (forall z, In z (l1 ++ l2) -> ~ In x (g z)) ->
  count x (flat_map g (l1 ++ y :: l2)) = count x (g y).
Proof.
  intros H. rewrite flat_map_app. cbn [flat_map]. rewrite !count_app.
  rewrite !count_flat_map_zero; [lia | |]; intros z Hz; apply H; apply in_or_app; auto.
Qed.

(* mapping an injective function over a duplicate-free list *)
Lemma count_map_inj (g : str -> diag) c l :
  (forall a b, g a = g b -> a = b) -> NoDup l ->
  count (g c) (map g l) = if mem c l then 1%nat else 0%nat.
Proof.
  intros Hinj Hnd. induction Hnd as [|a t Hnin Hnd IH]; [reflexivity|].
  unfold count in *. cbn [map filter mem existsb]. fold (mem c t).
  destruct (str_eqb_spec c a) as [->|Hne].
  - assert (diag_eqb (g a) (g a) = true) as -> by (apply diag_eqb_eq; reflexivity).
    cbn [length orb]. rewrite IH. apply mem_not_In in Hnin. rewrite Hnin. reflexivity.
  - destruct (diag_eqb (g c) (g a)) eqn:E.
    + apply diag_eqb_eq in E. apply Hinj in E. contradiction.
    + cbn [orb]. exact IH.
Qed.

(* ---------- messages are injective in the code ---------- *)
Lemma msg_unknown_inj a b : msg_unknown a = msg_unknown b -> a = b.
Proof.
  unfold msg_unknown. intros H. apply app_inv_head in H. apply app_inv_tail in H. exact H.
Qed.

Lemma msg_unused_inj a b : msg_unused a = msg_unused b -> a = b.
Proof.
  unfold msg_unused. intros H. apply app_inv_head in H. apply app_inv_tail in H. exact H.
Qed.

(* ---------- emit order ---------- *)
Lemma emit_order_perm orc d : oracle_ok orc -> Permutation (emit_order orc d) (dir_codes d).
Proof.
  intros [_ Hc]. unfold emit_order. rewrite ssort_perm. apply Hc.
Qed.

Lemma emit_order_NoDup orc d : oracle_ok orc -> NoDup (dir_codes d) -> NoDup (emit_order orc d).
Proof.
  intros Hok Hnd. eapply Permutation_NoDup; [apply Permutation_sym, emit_order_perm; assumption | assumption].
Qed.

Lemma mem_perm c l l' : Permutation l l' -> mem c l = mem c l'.
Proof.
  intros P. destruct (mem c l') eqn:E.
  - apply mem_In. apply mem_In in E. eapply Permutation_in; [apply Permutation_sym; exact P | exact E].
  - apply mem_not_In. apply mem_not_In in E. intros H. apply E. eapply Permutation_in; eassumption.
Qed.

Lemma mem_filter c p l : mem c (filter p l) = mem c l && p c.
Proof.
  destruct (mem c l) eqn:E1; destruct (p c) eqn:E2; cbn [andb].
  - apply mem_In. apply filter_In. apply mem_In in E1. auto.
  - apply mem_not_In. rewrite filter_In. intros [_ H]. congruence.
  - apply mem_not_In. rewrite filter_In. apply mem_not_In in E1. tauto.
  - apply mem_not_In. rewrite filter_In. apply mem_not_In in E1. tauto.
Qed.

(* ---------- reports of one directive ---------- *)
Section OneDir.
  Variables (orc : oracle) (d : directive).
  Hypothesis Hok : oracle_ok orc.
  Hypothesis Hnd : NoDup (dir_codes d).

  Lemma count_unknown_of_dir all c :
    count (diag_at d BAN_UNKNOWN (msg_unknown c)) (unknown_of_dir orc all d)
    = if mem c (dir_codes d) && negb (mem c all) then 1%nat else 0%nat.
  Proof.
    unfold unknown_of_dir.
    rewrite (count_map_inj (fun c => diag_at d BAN_UNKNOWN (msg_unknown c))).
    - rewrite mem_filter, (mem_perm c _ _ (emit_order_perm orc d Hok)). reflexivity.
    - intros a b H. apply (f_equal d_msg) in H. unfold diag_at in H. cbn [d_msg] in H. apply msg_unknown_inj. exact H.
    - apply NoDup_filter, emit_order_NoDup; assumption.
  Qed.

  Lemma count_unused_of_dir enabled u k c :
    count (diag_at d BAN_UNUSED (msg_unused c)) (unused_of_dir orc enabled u (k, d))
    = if mem c (dir_codes d) && (negb (is_used u k c) && mem c enabled) then 1%nat else 0%nat.
  Proof.
    unfold unused_of_dir. cbn [fst snd].
    rewrite (count_map_inj (fun c => diag_at d BAN_UNUSED (msg_unused c))).
    - rewrite mem_filter, (mem_perm c _ _ (emit_order_perm orc d Hok)). reflexivity.
    - intros a b H. apply (f_equal d_msg) in H. unfold diag_at in H. cbn [d_msg] in H. apply msg_unused_inj. exact H.
    - apply NoDup_filter, emit_order_NoDup; assumption.
  Qed.
End OneDir.

(* a report of another directive (different start) is a different diagnostic *)
Lemma diag_at_other_dir d d' code msg code' msg' :
  dir_start d <> dir_start d' -> diag_at d code msg <> diag_at d' code' msg'.
Proof. intros H E. unfold diag_at in E. inversion E. contradiction. Qed.

Lemma diag_at_other_code d d' code msg code' msg' :
  code <> code' -> diag_at d code msg <> diag_at d' code' msg'.
Proof. intros H E. apply (f_equal d_code) in E. cbn [d_code diag_at] in E. contradiction. Qed.

Lemma BAN_codes_differ : BAN_UNKNOWN <> BAN_UNUSED.
Proof. intros H. apply str_eqb_eq in H. vm_compute in H. discriminate. Qed.

(* ---------- the whole accounting ---------- *)
Section Account.
  Variables (o : options) (orc : oracle) (f : file) (fd : option directive)
            (raw : list diag) (ec : list str).
  Hypothesis Hok : oracle_ok orc.

  Let dirs := c_dirs o orc f fd.
  (* directives sit on pairwise different comments *)
  Hypothesis Hdistinct : NoDup (map (fun p => dir_start (snd p)) dirs).
  Hypothesis Hcodes_nodup : forall k d, In (k, d) dirs -> NoDup (dir_codes d).

  Lemma dirs_split k d : In (k, d) dirs ->
    exists l1 l2, dirs = l1 ++ (k, d) :: l2 /\
      forall z, In z (l1 ++ l2) -> dir_start (snd z) <> dir_start d.
  Proof.
    intros Hin. apply in_split in Hin. destruct Hin as [l1 [l2 E]]. exists l1, l2. split; [exact E|].
    intros z Hz. rewrite E, map_app in Hdistinct. cbn [map snd] in Hdistinct.
    apply NoDup_remove_2 in Hdistinct. intros Heq. apply Hdistinct. rewrite <- Heq.
    rewrite <- map_app. apply in_map_iff. exists z. auto.
  Qed.

  Definition known (c : str) : bool := mem c (c_all o ec).
  Definition enabled (c : str) : bool := mem c (c_enabled o ec).
  Definition unknown_switch : bool := file_has fd BAN_UNKNOWN.      (* file-level `ban-unknown-rule-code` *)
  Definition unused_switch : bool := file_has fd BAN_UNUSED.        (* file-level `ban-unused-ignore` *)
  (* "it suppressed at least one diagnostic" (the file-level ban-unknown-rule-code code counts as used
     when it switched off at least one unknown-code report) *)
  Definition used (k : dkey) (c : str) : bool := is_used (c_used' o orc f fd raw ec) k c.

  Theorem count_unknown_report k d c :
    In (k, d) dirs -> In c (dir_codes d) ->
    count (diag_at d BAN_UNKNOWN (msg_unknown c)) (c_accounting o orc f fd raw ec)
    = if negb (known c) && check_unknown o && negb unknown_switch then 1%nat else 0%nat.
  Proof.
    intros Hin Hc. unfold c_accounting. rewrite count_app.
    assert (count (diag_at d BAN_UNKNOWN (msg_unknown c)) (c_unused o orc f fd raw ec) = 0%nat) as ->.
    { apply count_zero. unfold c_unused. destruct (file_has fd BAN_UNUSED); [intros []|].
      rewrite in_flat_map. intros [[k' d'] [_ H]]. unfold unused_of_dir in H. apply in_map_iff in H.
      destruct H as [c' [H _]]. revert H. apply diag_at_other_code. intros E. apply BAN_codes_differ. symmetry. exact E. }
    rewrite Nat.add_0_r. unfold c_unk_out, unknown_switch.
    destruct (check_unknown o && negb (file_has fd BAN_UNKNOWN)) eqn:Eg.
    - unfold c_unk, unknown_raw. fold dirs.
      destruct (dirs_split k d Hin) as [l1 [l2 [E Hother]]]. rewrite E.
      rewrite count_flat_map_one.
      + cbn [snd]. rewrite count_unknown_of_dir by (try assumption; eapply Hcodes_nodup; eassumption).
        apply mem_In in Hc. rewrite Hc. cbn [andb]. unfold known.
        apply andb_true_iff in Eg. destruct Eg as [-> ->]. rewrite !andb_true_r. reflexivity.
      + intros z Hz Hx. unfold unknown_of_dir in Hx. apply in_map_iff in Hx. destruct Hx as [c' [Hx _]].
        symmetry in Hx. revert Hx. apply diag_at_other_dir. intros Heq. apply (Hother z Hz). congruence.
    - unfold count. cbn [filter length].
      destruct (negb (known c)), (check_unknown o), (file_has fd BAN_UNKNOWN); cbn in *; congruence.
  Qed.

  Theorem count_unused_report k d c :
    In (k, d) dirs -> In c (dir_codes d) ->
    count (diag_at d BAN_UNUSED (msg_unused c)) (c_accounting o orc f fd raw ec)
    = if negb (used k c) && enabled c && negb unused_switch then 1%nat else 0%nat.
  Proof.
    intros Hin Hc. unfold c_accounting. rewrite count_app.
    assert (count (diag_at d BAN_UNUSED (msg_unused c)) (c_unk_out o orc f fd ec) = 0%nat) as ->.
    { apply count_zero. unfold c_unk_out. destruct (check_unknown o && negb (file_has fd BAN_UNKNOWN)); [|intros []].
      unfold c_unk, unknown_raw. rewrite in_flat_map. intros [[k' d'] [_ H]]. unfold unknown_of_dir in H.
      apply in_map_iff in H. destruct H as [c' [H _]]. revert H. apply diag_at_other_code. exact BAN_codes_differ. }
    cbn [Nat.add]. unfold c_unused, unused_switch.
    destruct (file_has fd BAN_UNUSED) eqn:Esw.
    - rewrite andb_false_r. reflexivity.
    - fold dirs. destruct (dirs_split k d Hin) as [l1 [l2 [E Hother]]]. rewrite E.
      rewrite count_flat_map_one.
      + rewrite count_unused_of_dir by (try assumption; eapply Hcodes_nodup; eassumption).
        apply mem_In in Hc. rewrite Hc. cbn [andb]. unfold used, enabled. rewrite andb_true_r. reflexivity.
      + intros [k' d'] Hz Hx. unfold unused_of_dir in Hx. apply in_map_iff in Hx. destruct Hx as [c' [Hx _]].
        symmetry in Hx. revert Hx. apply diag_at_other_dir. intros Heq. apply (Hother (k', d') Hz). cbn [snd] in *. congruence.
  Qed.

  (* THE accounting theorem: with a well-formed configuration (every enabled code is a known code)
     exactly one of  used / reported-unused-once / reported-unknown-once / silent  holds, and `silent`
     is characterised exactly. *)
  Hypothesis Hwf : forall c, enabled c = true -> known c = true.

  Definition n_unused (k : dkey) d c := count (diag_at d BAN_UNUSED (msg_unused c)) (c_accounting o orc f fd raw ec).
  Definition n_unknown (k : dkey) d c := count (diag_at d BAN_UNKNOWN (msg_unknown c)) (c_accounting o orc f fd raw ec).
  Definition silent (k : dkey) (c : str) : bool :=
    (known c && negb (enabled c))                                   (* the rule it names is not enabled *)
    || (negb (known c) && (negb (check_unknown o) || unknown_switch))  (* unknown, checking off / switched off *)
    || (enabled c && unused_switch).                                (* unused reports switched off for the file *)

  Theorem accounting_exactly_one k d c :
    In (k, d) dirs -> In c (dir_codes d) ->
    (used k c = true /\ n_unused k d c = 0%nat /\ n_unknown k d c = 0%nat /\ known c = true)
    \/ (used k c = false /\ n_unused k d c = 1%nat /\ n_unknown k d c = 0%nat /\ silent k c = false)
    \/ (used k c = false /\ n_unused k d c = 0%nat /\ n_unknown k d c = 1%nat /\ silent k c = false)
    \/ (used k c = false /\ n_unused k d c = 0%nat /\ n_unknown k d c = 0%nat /\ silent k c = true)
    \/ (used k c = true /\ known c = false /\ n_unused k d c = 0%nat).
  Proof.
    intros Hin Hc. unfold n_unused, n_unknown.
    rewrite (count_unused_report k d c Hin Hc), (count_unknown_report k d c Hin Hc).
    unfold silent. pose proof (Hwf c) as Hw.
    destruct (used k c), (known c), (enabled c), (check_unknown o), unknown_switch, unused_switch;
      cbn; try (specialize (Hw eq_refl); discriminate); tauto.
  Qed.
End Account.
