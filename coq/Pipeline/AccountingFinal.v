(* C07, assembled: hypotheses of Accounting.v discharged from well-formedness. *)
From V Require Import Common.Sort Pipeline.Directive Pipeline.Pipeline
  Pipeline.DirectiveProofs Pipeline.PipelineProofs Pipeline.PipelineTheorems
  Pipeline.Accounting Pipeline.WellFormed.
From Coq Require Import Permutation Sorted Arith String.
Open Scope N_scope.

(* every enabled code (rule of the run or externally declared) is a known code *)
Definition wf_config (o : options) (ec : list str) : Prop :=
  forall c, mem c (ec ++ o_rules o) = true -> mem c (o_all_codes o ++ ec) = true.

Section Final.
  Variables (o : options) (orc : oracle) (f : file) (raw : list diag) (ec : list str).
  Hypothesis Hok : oracle_ok orc.
  Hypothesis Hwf : wf_file f.
  Hypothesis Hwords : file_word o <> line_word o.
  Hypothesis Hcfg : wf_config o ec.
  Let fd := find_file_dir (file_word o) (f_leading f).

  Theorem accounting_final k d c :
    In (k, d) (c_dirs o orc f fd) -> In c (dir_codes d) ->
    (used o orc f fd raw ec k c = true /\ n_unused o orc f fd raw ec k d c = 0%nat /\
     n_unknown o orc f fd raw ec k d c = 0%nat /\ known o ec c = true)
    \/ (used o orc f fd raw ec k c = false /\ n_unused o orc f fd raw ec k d c = 1%nat /\
        n_unknown o orc f fd raw ec k d c = 0%nat /\ silent o fd ec k c = false)
    \/ (used o orc f fd raw ec k c = false /\ n_unused o orc f fd raw ec k d c = 0%nat /\
        n_unknown o orc f fd raw ec k d c = 1%nat /\ silent o fd ec k c = false)
    \/ (used o orc f fd raw ec k c = false /\ n_unused o orc f fd raw ec k d c = 0%nat /\
        n_unknown o orc f fd raw ec k d c = 0%nat /\ silent o fd ec k c = true)
    \/ (used o orc f fd raw ec k c = true /\ known o ec c = false /\ n_unused o orc f fd raw ec k d c = 0%nat).
  Proof.
    apply accounting_exactly_one; try assumption.
    - apply dirs_distinct; assumption.
    - intros k' d'. apply dirs_codes_NoDup; assumption.
  Qed.

  (* what "used" means *)
  Theorem used_iff k c :
    used o orc f fd raw ec k c = true <->
    (exists d, In d raw /\ suppressor fd (c_ld o f) (f_nls f) d = Some k /\ d_code d = c)
    \/ (k = KFile /\ c = BAN_UNKNOWN /\ nonempty_diags (c_unk o orc f fd ec) = true /\ file_has fd BAN_UNKNOWN = true).
  Proof.
    unfold used, c_used'. rewrite is_used_In.
    destruct (nonempty_diags (c_unk o orc f fd ec) && file_has fd BAN_UNKNOWN) eqn:E.
    - apply andb_true_iff in E. destruct E as [E1 E2]. cbn [In]. unfold c_used. rewrite check_usage_snd.
      split.
      + intros [H|H]; [right; inversion H; auto | left; exact H].
      + intros [H|[-> [-> _]]]; [right; exact H | left; reflexivity].
    - unfold c_used. rewrite check_usage_snd. split; [auto|].
      intros [H|[_ [_ [H1 H2]]]]; [exact H|]. rewrite H1, H2 in E. discriminate.
  Qed.

  (* the two file-level switches *)
  Theorem file_switch_unused : file_has fd BAN_UNUSED = true -> c_unused o orc f fd raw ec = [].
  Proof. intros H. unfold c_unused. rewrite H. reflexivity. Qed.

  Theorem file_switch_unknown : file_has fd BAN_UNKNOWN = true -> c_unk_out o orc f fd ec = [].
  Proof. intros H. unfold c_unk_out. rewrite H, andb_false_r. reflexivity. Qed.

  Theorem unknown_checking_off : check_unknown o = false -> c_unk_out o orc f fd ec = [].
  Proof. intros H. unfold c_unk_out. rewrite H. reflexivity. Qed.
End Final.

(* the counts in the final output: survivors plus accounting *)
Theorem count_output o orc f raw ec x :
  ignore_all (find_file_dir (file_word o) (f_leading f)) = false ->
  forall rd ext, raw = rd ++ ext_diags ext -> ec = ext_codes ext ->
  count x (lint_inner o orc f rd ext)
  = (count x (filter (fun d => negb (suppressed (find_file_dir (file_word o) (f_leading f)) (c_ld o f) (f_nls f) d)) raw)
     + count x (c_accounting o orc f (find_file_dir (file_word o) (f_leading f)) raw ec))%nat.
Proof.
  intros Hna rd ext -> ->. rewrite <- count_app. apply count_perm.
  apply output_is_perm. exact Hna.
Qed.

(* why wf_config is needed: a configured rule missing from all_rule_codes is reported twice *)
Example double_report_needs_wf :
  exists o f, ~ wf_config o [] /\
    lint_inner o id_oracle f [] NoCallback =
      [ mkDiag BAN_UNKNOWN (Some (0, 20)) (msg_unknown (s2l "zz"%string));
        mkDiag BAN_UNUSED (Some (0, 20)) (msg_unused (s2l "zz"%string)) ].
Proof.
  exists (mkOpts None None [s2l "zz"%string; BAN_UNKNOWN] [BAN_UNKNOWN]).
  exists (mkFile [] [mkComment true (s2l " deno-lint-ignore zz"%string) 0 20] []).
  split.
  - intros H. specialize (H (s2l "zz"%string) eq_refl). vm_compute in H. discriminate.
  - vm_compute. reflexivity.
Qed.

(* C16: rule codes declared by the external linter count as known and as enabled *)
Theorem external_codes_known o ec c : In c ec -> known o ec c = true.
Proof. intros H. unfold known, c_all. apply mem_In. apply in_or_app. right. exact H. Qed.

Theorem external_codes_enabled o ec c : In c ec -> enabled o ec c = true.
Proof. intros H. unfold enabled, c_enabled. apply mem_In. apply in_or_app. left. exact H. Qed.

(* hence a directive naming a declared external code is never reported as unknown, and is reported as unused
   exactly when it suppressed nothing (and unused reports are not switched off for the file) *)
Theorem external_code_accounting o orc f raw ec k d c :
  oracle_ok orc -> wf_file f -> file_word o <> line_word o ->
  let fd := find_file_dir (file_word o) (f_leading f) in
  In (k, d) (c_dirs o orc f fd) -> In c (dir_codes d) -> In c ec ->
  n_unknown o orc f fd raw ec k d c = 0%nat /\
  n_unused o orc f fd raw ec k d c = (if negb (used o orc f fd raw ec k c) && negb (unused_switch fd) then 1%nat else 0%nat).
Proof.
  intros Hok Hwf Hw fd Hin Hc Hec. unfold n_unknown, n_unused.
  assert (Hd : NoDup (map (fun p => dir_start (snd p)) (c_dirs o orc f fd))) by (apply dirs_distinct; assumption).
  assert (Hn : forall k' d', In (k', d') (c_dirs o orc f fd) -> NoDup (dir_codes d')) by (intros k' d'; apply dirs_codes_NoDup; assumption).
  rewrite (count_unknown_report o orc f fd raw ec Hok Hd Hn k d c Hin Hc).
  rewrite (count_unused_report o orc f fd raw ec Hok Hd Hn k d c Hin Hc).
  rewrite (external_codes_known o ec c Hec), (external_codes_enabled o ec c Hec). cbn [negb andb]. rewrite andb_true_r. split; reflexivity.
Qed.
