(* Generated-table obligations (coq/Gen/CodeTable.v is rewritten from /repo/src/rules/*.rs on every
   run): every rule emits only its own code and reads no other rule's diagnostics.  These support the
   hypothesis `raw codes are enabled` of C04's theorems. *)
From V Require Import Common.Str Gen.CodeTable.
Open Scope N_scope.

Definition nonempty_code (c : str) : bool := match c with [] => false | _ => true end.

Definition row_ok (r : str * str * bool * N * N * bool) : bool :=
  let '(file, code, code_fn_ok, sites, ok, reads) := r in
  nonempty_code code && code_fn_ok && (sites =? ok) && negb reads.

Theorem every_rule_emits_only_its_own_code : forallb row_ok code_table = true.
Proof. vm_compute. reflexivity. Qed.

Fixpoint nodupb (l : list str) : bool :=
  match l with [] => true | x :: t => negb (mem x t) && nodupb t end.

Theorem rule_codes_distinct : nodupb (map (fun r => snd (fst (fst (fst (fst r))))) code_table) = true.
Proof. vm_compute. reflexivity. Qed.
