(* C04 (pipeline part): which codes can appear; per-code projections are independent. *)
From V Require Import Common.Sort Pipeline.Directive Pipeline.Pipeline
  Pipeline.DirectiveProofs Pipeline.PipelineProofs Pipeline.PipelineTheorems.
From Coq Require Import Permutation Sorted.
Open Scope N_scope.

Lemma unk_out_code o orc f fd ec d :
  In d (c_unk_out o orc f fd ec) -> d_code d = BAN_UNKNOWN /\ check_unknown o = true.
Proof.
  unfold c_unk_out. destruct (check_unknown o); cbn [andb]; [|intros []].
  destruct (negb (file_has fd BAN_UNKNOWN)); [|intros []].
  unfold c_unk, unknown_raw. rewrite in_flat_map. intros [p [_ H]].
  unfold unknown_of_dir in H. apply in_map_iff in H. destruct H as [c [<- _]]. auto.
Qed.

Lemma unused_code o orc f fd raw ec d :
  In d (c_unused o orc f fd raw ec) -> d_code d = BAN_UNUSED.
Proof.
  unfold c_unused. destruct (file_has fd BAN_UNUSED); [intros []|].
  rewrite in_flat_map. intros [p [_ H]].
  unfold unused_of_dir in H. apply in_map_iff in H. destruct H as [c [<- _]]. reflexivity.
Qed.

(* every output diagnostic is a raw one, or a ban-unknown-rule-code report (only when that rule
   is enabled), or a ban-unused-ignore report *)
Theorem codes_of_output o orc f rd ext d :
  In d (lint_inner o orc f rd ext) ->
  In d (rd ++ ext_diags ext)
  \/ (d_code d = BAN_UNKNOWN /\ mem BAN_UNKNOWN (o_rules o) = true)
  \/ d_code d = BAN_UNUSED.
Proof.
  destruct (ignore_all (find_file_dir (file_word o) (f_leading f))) eqn:E.
  - unfold lint_inner. rewrite E. intros [].
  - intros H. apply output_origin in H; [|exact E]. destruct H as [[H _]|H]; [left; exact H|].
    unfold c_accounting in H. apply in_app_or in H. destruct H as [H|H].
    + right. left. apply unk_out_code in H. exact H.
    + right. right. eapply unused_code. exact H.
Qed.

(* if every rule emits only its own code and external diagnostics carry declared codes, every
   code in the output is enabled for the run -- except ban-unused-ignore, which is reported
   whether or not that rule is enabled (known finding of C04; C07 requires the report) *)
Theorem codes_enabled o orc f rd ext :
  (forall d, In d (rd ++ ext_diags ext) -> mem (d_code d) (ext_codes ext ++ o_rules o) = true) ->
  forall d, In d (lint_inner o orc f rd ext) ->
  mem (d_code d) (ext_codes ext ++ o_rules o) = true \/ d_code d = BAN_UNUSED.
Proof.
  intros Hraw d H. apply codes_of_output in H. destruct H as [H|[[Hc Hm]|H]].
  - left. apply Hraw. exact H.
  - left. rewrite Hc. apply mem_In. apply in_or_app. right. apply mem_In. exact Hm.
  - right. exact H.
Qed.

(* projections: the diagnostics of one ordinary code in the output depend only on the raw
   diagnostics of that code *)
Definition has_code (c : str) (d : diag) : bool := str_eqb (d_code d) c.

Lemma filter_filter_comm {X} (p q : X -> bool) l : filter p (filter q l) = filter q (filter p l).
Proof.
  induction l as [|a t IH]; cbn [filter]; [reflexivity|].
  destruct (q a) eqn:Eq, (p a) eqn:Ep; cbn [filter]; rewrite ?Eq, ?Ep, IH; reflexivity.
Qed.

Lemma filter_none {X} (p : X -> bool) l : (forall x, In x l -> p x = false) -> filter p l = [].
Proof.
  induction l as [|a t IH]; intros H; cbn [filter]; [reflexivity|].
  rewrite (H a) by (left; reflexivity). apply IH. intros x Hx. apply H. right. exact Hx.
Qed.

Theorem projection o orc f rd ext c :
  c <> BAN_UNKNOWN -> c <> BAN_UNUSED ->
  ignore_all (find_file_dir (file_word o) (f_leading f)) = false ->
  filter (has_code c) (lint_inner o orc f rd ext)
  = ssort diag_leb
      (filter (fun d => negb (suppressed (find_file_dir (file_word o) (f_leading f))
                                        (line_dirs (line_word o) (f_nls f) (f_comments f)) (f_nls f) d))
              (filter (has_code c) (rd ++ ext_diags ext))).
Proof.
  intros H1 H2 Hna. rewrite not_silenced_otherwise by exact Hna.
  rewrite collect_eq. rewrite filter_ssort by (apply diag_leb_total || apply diag_leb_trans).
  rewrite filter_app. unfold c_filtered, c_ld. rewrite filter_filter_comm.
  assert (filter (has_code c) (c_accounting o orc f (find_file_dir (file_word o) (f_leading f)) (rd ++ ext_diags ext) (ext_codes ext)) = []) as ->.
  { apply filter_none. intros x Hx. unfold c_accounting in Hx. apply in_app_or in Hx.
    unfold has_code. apply str_eqb_neq. destruct Hx as [Hx|Hx].
    - apply unk_out_code in Hx. destruct Hx as [-> _]. congruence.
    - apply unused_code in Hx. rewrite Hx. congruence. }
  rewrite app_nil_r. reflexivity.
Qed.

(* hence: two runs whose raw lists agree on code c agree on code c in the output, whatever the
   other rules contributed *)
Theorem projection_independent o orc f rd1 rd2 ext1 ext2 c :
  c <> BAN_UNKNOWN -> c <> BAN_UNUSED ->
  filter (has_code c) (rd1 ++ ext_diags ext1) = filter (has_code c) (rd2 ++ ext_diags ext2) ->
  filter (has_code c) (lint_inner o orc f rd1 ext1) = filter (has_code c) (lint_inner o orc f rd2 ext2).
Proof.
  intros H1 H2 E.
  destruct (ignore_all (find_file_dir (file_word o) (f_leading f))) eqn:Hna.
  - unfold lint_inner. rewrite Hna. reflexivity.
  - rewrite !projection by assumption. rewrite E. reflexivity.
Qed.

(* known finding of C04, as a theorem about the faithful model: a ban-unused-ignore report although that rule is absent *)
Theorem unused_reported_when_rule_absent :
  exists o f, mem BAN_UNUSED (o_rules o) = false /\
    exists d, In d (lint_inner o id_oracle f [] NoCallback) /\ d_code d = BAN_UNUSED.
Proof.
  exists (mkOpts None None [[110; 111]] [[110; 111]]).
  exists (mkFile [] [mkComment true (W_LINE ++ [32; 110; 111]) 0 22] []).
  split; [reflexivity|]. eexists. split; [vm_compute; left; reflexivity | reflexivity].
Qed.

(* known finding of C05 (literal reading): a bare file directive that follows a coded one does not silence the file *)
Theorem bare_after_coded_not_silenced :
  exists o f rd c d,
    In c (f_leading f) /\ parse_dir (file_word o) c = Some d /\ dir_codes d = [] /\
    lint_inner o id_oracle f rd NoCallback <> [].
Proof.
  exists (mkOpts None None [] []).
  exists (mkFile [mkComment true (W_FILE ++ [32; 120]) 0 10; mkComment true W_FILE 20 30] [] []).
  exists [mkDiag [121] (Some (40, 41)) []].
  exists (mkComment true W_FILE 20 30). eexists.
  split; [right; left; reflexivity|]. split; [vm_compute; reflexivity|]. split; [reflexivity|].
  vm_compute. discriminate.
Qed.
