(* Model of src/ignore_directives.rs: parse_ignore_comment and the two directive
   collectors.  Strings are code-point lists.  Hash-map iteration order is an
   explicit oracle (see Pipeline.v). *)
From V Require Export Common.Str Common.Ws Common.LineIndex.
Open Scope N_scope.

Record comment := mkComment {
  c_line : bool;        (* CommentKind::Line *)
  c_text : str;         (* comment text without the // or /* */ markers *)
  c_start : N;          (* byte offset of the comment (its `//`) *)
  c_end : N }.

Record directive := mkDir {
  dir_start : N;
  dir_end : N;
  dir_codes : list str  (* the keys of the code map: no duplicates *) }.

Definition DASH : N := 45.
Definition COMMA : N := 44.
Definition NL : N := 10.

(* does the regex  \s*--  match at the head of s ? *)
Definition starts_reason (s : str) : bool :=
  match dropws s with
  | a :: b :: _ => (a =? DASH) && (b =? DASH)
  | _ => false
  end.

(* IGNORE_COMMENT_REASON_RE = \s*--.*  replaced by "" (replace_all).
   state 0: scanning; 1: inside the \s* of a match; 2: inside the .* of a match
   ('.' does not match '\n'). *)
Fixpoint cut_reason (st : N) (s : str) : str :=
  match s with
  | [] => []
  | c :: t =>
      if st =? 1 then (if is_ws c then cut_reason 1 t else cut_reason 2 t)
      else if (st =? 2) && negb (c =? NL) then cut_reason 2 t
      else if starts_reason s then (if is_ws c then cut_reason 1 t else cut_reason 2 t)
      else c :: cut_reason 0 t
  end.

(* IGNORE_COMMENT_CODE_RE = ,\s*|\s  replaced by ","  (afterc: inside the \s* after a comma) *)
Fixpoint norm_seps (afterc : bool) (s : str) : str :=
  match s with
  | [] => []
  | c :: t =>
      if is_ws c then (if afterc then norm_seps true t else COMMA :: norm_seps false t)
      else if c =? COMMA then COMMA :: norm_seps true t
      else c :: norm_seps false t
  end.

(* str::split(',') : always at least one piece *)
Fixpoint split_comma_aux (cur : str) (s : str) : list str :=
  match s with
  | [] => [rev cur]
  | c :: t => if c =? COMMA then rev cur :: split_comma_aux [] t else split_comma_aux (c :: cur) t
  end.
Definition split_comma (s : str) : list str := split_comma_aux [] s.

Definition nonempty (s : str) : bool := match s with [] => false | _ => true end.

(* keys of a HashMap built by collect(): first occurrence kept *)
Fixpoint dedup (l : list str) : list str :=
  match l with
  | [] => []
  | x :: t => x :: filter (fun y => negb (str_eqb x y)) (dedup t)
  end.

Definition codes_of_text (rest : str) : list str :=
  dedup (map trim (filter nonempty (split_comma (norm_seps false (cut_reason 0 rest))))).

Inductive presult (A : Type) := POk (a : A) | PPanic.
Arguments POk {A}. Arguments PPanic {A}.

(* parse_ignore_comment, with the `.strip_prefix(..).unwrap()` made explicit *)
Definition parse_comment (w : str) (c : comment) : presult (option directive) :=
  if negb (c_line c) then POk None
  else
    let t := trim (c_text c) in
    match first_word t with
    | None => POk None
    | Some fw =>
        if str_eqb fw w then
          match strip_prefix w t with
          | None => PPanic
          | Some rest => POk (Some (mkDir (c_start c) (c_end c) (codes_of_text rest)))
          end
        else POk None
    end.

Definition parse_dir (w : str) (c : comment) : option directive :=
  match parse_comment w c with POk r => r | PPanic => None end.

(* parse_file_ignore_directives: the first leading comment that parses wins *)
Fixpoint find_file_dir (w : str) (leading : list comment) : option directive :=
  match leading with
  | [] => None
  | c :: t => match parse_dir w c with Some d => Some d | None => find_file_dir w t end
  end.

(* parse_line_ignore_directives: collect() into a HashMap keyed by the line of the
   comment start; a later comment with the same key replaces the earlier one *)
Fixpoint remove_key (k : N) (m : list (N * directive)) : list (N * directive) :=
  match m with
  | [] => []
  | (k', d) :: t => if k' =? k then remove_key k t else (k', d) :: remove_key k t
  end.

Definition map_insert (k : N) (d : directive) (m : list (N * directive)) : list (N * directive) :=
  remove_key k m ++ [(k, d)].

Fixpoint line_dirs_aux (w : str) (nls : list N) (cs : list comment) (m : list (N * directive)) : list (N * directive) :=
  match cs with
  | [] => m
  | c :: t =>
      match parse_dir w c with
      | Some d => line_dirs_aux w nls t (map_insert (line_index nls (dir_start d)) d m)
      | None => line_dirs_aux w nls t m
      end
  end.

Definition line_dirs (w : str) (nls : list N) (cs : list comment) : list (N * directive) :=
  line_dirs_aux w nls cs [].

Fixpoint lookup (k : N) (m : list (N * directive)) : option directive :=
  match m with
  | [] => None
  | (k', d) :: t => if k' =? k then Some d else lookup k t
  end.
