(* Facts about the directive parser model. *)
From V Require Import Common.Sort Pipeline.Directive.
From Coq Require Import Permutation.
Open Scope N_scope.

(* ---------- trimming ---------- *)
Lemma dropws_app_nonws l c : is_ws c = false -> dropws (l ++ [c]) = dropws l ++ [c].
Proof.
  intros Hc. induction l as [|x t IH]; cbn [dropws app].
  - rewrite Hc. reflexivity.
  - destruct (is_ws x); [exact IH | reflexivity].
Qed.

Lemma trim_end_cons_nonws c t : is_ws c = false -> trim_end (c :: t) = c :: trim_end t.
Proof.
  intros Hc. unfold trim_end. cbn [rev]. rewrite dropws_app_nonws by assumption.
  rewrite rev_app_distr. reflexivity.
Qed.

Lemma dropws_head s : match dropws s with [] => True | c :: _ => is_ws c = false end.
Proof.
  induction s as [|x t IH]; cbn [dropws]; [exact I|].
  destruct (is_ws x) eqn:E; [exact IH | exact E].
Qed.

(* a trimmed string is empty or starts with a non-white-space character *)
Lemma trim_head s : match trim s with [] => True | c :: _ => is_ws c = false end.
Proof.
  unfold trim, trim_start. pose proof (dropws_head s) as H.
  destruct (dropws s) as [|c t]; [exact I|].
  rewrite trim_end_cons_nonws by assumption. exact H.
Qed.

Lemma dropws_trim s : dropws (trim s) = trim s.
Proof.
  pose proof (trim_head s) as H. destruct (trim s) as [|c t]; [reflexivity|].
  cbn [dropws]. rewrite H. reflexivity.
Qed.

Lemma take_word_prefix s : exists r, s = take_word s ++ r.
Proof.
  induction s as [|c t [r IH]]; cbn [take_word].
  - exists []. reflexivity.
  - destruct (is_ws c).
    + exists (c :: t). reflexivity.
    + exists r. cbn [app]. f_equal. exact IH.
Qed.

Lemma strip_prefix_app p r : strip_prefix p (p ++ r) = Some r.
Proof.
  induction p as [|x p IH]; cbn [strip_prefix app]; [reflexivity|].
  rewrite N.eqb_refl. exact IH.
Qed.

Lemma strip_prefix_some p s r : strip_prefix p s = Some r -> s = p ++ r.
Proof.
  revert s; induction p as [|x p IH]; intros s; cbn [strip_prefix].
  - intros H; inversion H; reflexivity.
  - destruct s as [|y s]; [discriminate|].
    destruct (N.eqb_spec x y) as [->|]; [|discriminate].
    intros H. cbn [app]. f_equal. apply IH; assumption.
Qed.

(* ---------- the `.unwrap()` of strip_prefix never fails ---------- *)
Theorem parse_comment_total w c : parse_comment w c <> PPanic.
Proof.
  unfold parse_comment. destruct (c_line c); cbn [negb]; [|discriminate].
  destruct (first_word (trim (c_text c))) as [fw|] eqn:Efw; [|discriminate].
  destruct (str_eqb_spec fw w) as [->|]; [|discriminate].
  unfold first_word in Efw. rewrite dropws_trim in Efw.
  destruct (take_word_prefix (trim (c_text c))) as [r Hr].
  destruct (take_word (trim (c_text c))) as [|x tw] eqn:Etw; [discriminate|].
  inversion Efw; subst w. rewrite Hr, strip_prefix_app. discriminate.
Qed.

(* ---------- what a successful parse tells ---------- *)
Lemma parse_dir_some w c d :
  parse_dir w c = Some d ->
  c_line c = true /\ first_word (trim (c_text c)) = Some w /\
  dir_start d = c_start c /\ dir_end d = c_end c /\
  exists rest, trim (c_text c) = w ++ rest /\ dir_codes d = codes_of_text rest.
Proof.
  unfold parse_dir, parse_comment.
  destruct (c_line c); cbn [negb]; [|discriminate].
  destruct (first_word (trim (c_text c))) as [fw|]; [|discriminate].
  destruct (str_eqb_spec fw w) as [->|]; [|discriminate].
  destruct (strip_prefix w (trim (c_text c))) as [rest|] eqn:E; [|discriminate].
  intros H; inversion H; subst d; cbn.
  repeat split; try reflexivity.
  exists rest. split; [apply strip_prefix_some; assumption | reflexivity].
Qed.

Lemma parse_dir_none_iff w c :
  parse_dir w c = None <-> (c_line c = false \/ first_word (trim (c_text c)) <> Some w).
Proof.
  pose proof (parse_comment_total w c) as Ht.
  unfold parse_dir, parse_comment in *.
  destruct (c_line c); cbn [negb] in *; [|split; auto].
  destruct (first_word (trim (c_text c))) as [fw|]; [|split; [right; discriminate | reflexivity]].
  destruct (str_eqb_spec fw w) as [E|Hne]; [subst fw|].
  - destruct (strip_prefix w (trim (c_text c))); [|congruence].
    split; [discriminate | intros [H|H]; congruence].
  - split; [intros _; right; congruence | reflexivity].
Qed.

(* "exactly those words act as directives" *)
Theorem is_directive_iff w c :
  (exists d, parse_dir w c = Some d) <-> (c_line c = true /\ first_word (trim (c_text c)) = Some w).
Proof.
  split.
  - intros [d H]. apply parse_dir_some in H. tauto.
  - intros [Hl Hw]. destruct (parse_dir w c) as [d|] eqn:E; [eauto|].
    apply parse_dir_none_iff in E. destruct E; congruence.
Qed.

(* a comment is a directive for at most one word *)
Lemma directive_word_unique w1 w2 c d1 d2 :
  parse_dir w1 c = Some d1 -> parse_dir w2 c = Some d2 -> w1 = w2.
Proof.
  intros H1 H2. apply parse_dir_some in H1, H2.
  destruct H1 as [_ [H1 _]], H2 as [_ [H2 _]]. congruence.
Qed.

(* ---------- file directive: first leading comment that parses ---------- *)
Lemma find_file_dir_some w l d :
  find_file_dir w l = Some d ->
  exists pre c post, l = pre ++ c :: post /\ parse_dir w c = Some d /\
                     Forall (fun c' => parse_dir w c' = None) pre.
Proof.
  induction l as [|c t IH]; cbn [find_file_dir]; [discriminate|].
  destruct (parse_dir w c) as [d'|] eqn:E.
  - intros H; inversion H; subst. exists [], c, t. auto.
  - intros H. destruct (IH H) as [pre [c' [post [-> [Hp Hall]]]]].
    exists (c :: pre), c', post. repeat split; auto.
Qed.

Lemma find_file_dir_none w l :
  find_file_dir w l = None <-> Forall (fun c => parse_dir w c = None) l.
Proof.
  induction l as [|c t IH]; cbn [find_file_dir]; [split; auto|].
  destruct (parse_dir w c) eqn:E.
  - split; [discriminate | intros H; inversion H; congruence].
  - rewrite IH. split; [auto | intros H; inversion H; assumption].
Qed.

(* ---------- dedup ---------- *)
Lemma dedup_In x l : In x (dedup l) <-> In x l.
Proof.
  induction l as [|y t IH]; cbn [dedup In]; [tauto|].
  rewrite filter_In, IH.
  destruct (str_eqb_spec y x) as [->|Hne]; cbn [negb]; [tauto|].
  split; [tauto|]. intros [H|H]; [congruence | auto].
Qed.

Lemma dedup_NoDup l : NoDup (dedup l).
Proof.
  induction l as [|y t IH]; cbn [dedup]; constructor.
  - rewrite filter_In. intros [_ H]. rewrite str_eqb_refl in H. discriminate.
  - apply NoDup_filter. assumption.
Qed.

Lemma dedup_nil l : dedup l = [] <-> l = [].
Proof. destruct l; cbn [dedup]; split; congruence. Qed.

(* ---------- line directives ---------- *)
Lemma lookup_remove_key k k' m :
  lookup k (remove_key k' m) = if k =? k' then None else lookup k m.
Proof.
  induction m as [|[k0 d] t IH]; cbn [remove_key lookup].
  - destruct (k =? k'); reflexivity.
  - destruct (N.eqb_spec k0 k') as [->|Hne]; cbn [lookup].
    + rewrite IH. destruct (N.eqb_spec k k') as [->|Hne2]; [reflexivity|].
      destruct (N.eqb_spec k' k); [congruence | reflexivity].
    + rewrite IH. destruct (N.eqb_spec k0 k) as [->|Hne2].
      * destruct (N.eqb_spec k k'); [congruence | reflexivity].
      * reflexivity.
Qed.

Lemma lookup_app k m1 m2 :
  lookup k (m1 ++ m2) = match lookup k m1 with Some d => Some d | None => lookup k m2 end.
Proof.
  induction m1 as [|[k0 d] t IH]; cbn [app lookup]; [reflexivity|].
  destruct (k0 =? k); [reflexivity | exact IH].
Qed.

Lemma lookup_insert k k' d m :
  lookup k (map_insert k' d m) = if k =? k' then Some d else lookup k m.
Proof.
  unfold map_insert. rewrite lookup_app, lookup_remove_key. cbn [lookup].
  destruct (N.eqb_spec k k') as [->|Hne].
  - rewrite N.eqb_refl. reflexivity.
  - destruct (lookup k m); [reflexivity|].
    destruct (N.eqb_spec k' k); [congruence | reflexivity].
Qed.

(* the keys of the map are pairwise distinct *)
Definition keys (m : list (N * directive)) : list N := map fst m.

Lemma remove_key_keys k m : ~ In k (keys (remove_key k m)) /\ (forall x, In x (keys (remove_key k m)) -> In x (keys m)).
Proof.
  induction m as [|[k0 d] t [IH1 IH2]]; cbn [remove_key keys map In]; [tauto|].
  destruct (N.eqb_spec k0 k) as [->|Hne]; cbn [keys map In]; fold (keys t) (keys (remove_key k t)).
  - split; [assumption | intros x Hx; right; auto].
  - cbn [fst]. split; [intros [H|H]; [congruence | tauto] | intros x [H|H]; [left; assumption | right; auto]].
Qed.

Lemma remove_key_NoDup k m : NoDup (keys m) -> NoDup (keys (remove_key k m)).
Proof.
  induction m as [|[k0 d] t IH]; cbn [remove_key keys map]; [auto|].
  intros H. inversion H as [|? ? Hnin Hnd]; subst.
  destruct (N.eqb_spec k0 k) as [->|Hne]; [apply IH; assumption|].
  cbn [keys map]. constructor; [|apply IH; assumption].
  intros Hin. apply Hnin. apply (proj2 (remove_key_keys k t)). exact Hin.
Qed.

Lemma map_insert_NoDup k d m : NoDup (keys m) -> NoDup (keys (map_insert k d m)).
Proof.
  intros H. unfold map_insert, keys. rewrite map_app. cbn [map fst].
  fold (keys (remove_key k m)).
  assert (P : Permutation (keys (remove_key k m) ++ [k]) (k :: keys (remove_key k m))).
  { rewrite Permutation_app_comm. reflexivity. }
  eapply Permutation_NoDup; [apply Permutation_sym; exact P|].
  constructor; [apply (proj1 (remove_key_keys k m)) | apply remove_key_NoDup; assumption].
Qed.

Lemma line_dirs_aux_NoDup w nls cs m : NoDup (keys m) -> NoDup (keys (line_dirs_aux w nls cs m)).
Proof.
  revert m; induction cs as [|c t IH]; intros m H; cbn [line_dirs_aux]; [assumption|].
  destruct (parse_dir w c); apply IH; [apply map_insert_NoDup|]; assumption.
Qed.

Lemma line_dirs_NoDup w nls cs : NoDup (keys (line_dirs w nls cs)).
Proof. apply line_dirs_aux_NoDup. constructor. Qed.

Lemma lookup_In k d m : lookup k m = Some d -> In (k, d) m.
Proof.
  induction m as [|[k0 d0] t IH]; cbn [lookup]; [discriminate|].
  destruct (N.eqb_spec k0 k) as [->|Hne]; [intros H; inversion H; left; reflexivity | intros H; right; auto].
Qed.

Lemma In_lookup k d m : NoDup (keys m) -> In (k, d) m -> lookup k m = Some d.
Proof.
  induction m as [|[k0 d0] t IH]; cbn [lookup keys map In]; [tauto|].
  intros Hnd [Heq|Hin].
  - inversion Heq; subst. rewrite N.eqb_refl. reflexivity.
  - inversion Hnd as [|? ? Hnin Hnd']; subst. cbn [fst] in Hnin.
    destruct (N.eqb_spec k0 k) as [->|Hne]; [|apply IH; assumption].
    exfalso. apply Hnin. change (In k (keys t)). apply in_map_iff. exists (k, d). auto.
Qed.

(* every entry of the map comes from a comment that parses, keyed by its line; and a
   comment that parses is in the map unless a later comment of the same line replaced it *)
Lemma line_dirs_aux_entries w nls cs m k d :
  In (k, d) (line_dirs_aux w nls cs m) ->
  In (k, d) m \/ exists c, In c cs /\ parse_dir w c = Some d /\ k = line_index nls (dir_start d).
Proof.
  revert m; induction cs as [|c t IH]; intros m; cbn [line_dirs_aux]; [auto|].
  destruct (parse_dir w c) as [d'|] eqn:E; intros H; apply IH in H.
  - destruct H as [H|[c' [Hin Hc]]].
    + unfold map_insert in H. apply in_app_or in H. destruct H as [H|[H|[]]].
      * left. clear -H. induction m as [|[k0 d0] m IHm]; cbn [remove_key] in H; [contradiction|].
        destruct (k0 =? line_index nls (dir_start d')); [right; auto|].
        destruct H as [H|H]; [left; assumption | right; auto].
      * inversion H; subst. right. exists c. cbn. auto.
    + right. exists c'. cbn. tauto.
  - destruct H as [H|[c' [Hin Hc]]]; [auto|]. right. exists c'. cbn. tauto.
Qed.

Lemma line_dirs_entries w nls cs k d :
  In (k, d) (line_dirs w nls cs) ->
  exists c, In c cs /\ parse_dir w c = Some d /\ k = line_index nls (dir_start d).
Proof.
  intros H. apply line_dirs_aux_entries in H. destruct H as [[]|H]. exact H.
Qed.
