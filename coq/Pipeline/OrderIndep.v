(* C02 (pipeline part): the result does not depend on hash-map iteration order. *)
From V Require Import Common.Sort Pipeline.Directive Pipeline.Pipeline
  Pipeline.DirectiveProofs Pipeline.PipelineProofs Pipeline.PipelineTheorems Pipeline.WellFormed Pipeline.Codes.
From Coq Require Import Permutation Sorted.
Open Scope N_scope.

Lemma flat_map_perm_sparse {X Y} (h : X -> list Y) (key : X -> N) (s : N) l l' :
  Permutation l l' -> NoDup (map key l) -> (forall p, key p <> s -> h p = []) ->
  flat_map h l = flat_map h l'.
Proof.
  intros P; induction P as [|x l l' P IH|x y l|l l' l'' P1 IH1 P2 IH2]; intros Hnd Hs.
  - reflexivity.
  - cbn [flat_map]. f_equal. apply IH; [|assumption]. inversion Hnd; assumption.
  - cbn [flat_map map] in *. inversion Hnd as [|? ? Hnin _]; subst.
    destruct (N.eq_dec (key y) s) as [Ey|Ny].
    + assert (key x <> s) as Nx by (intros Ex; apply Hnin; left; congruence).
      rewrite (Hs x Nx). cbn [app]. reflexivity.
    + rewrite (Hs y Ny). cbn [app]. reflexivity.
  - rewrite IH1 by assumption. apply IH2; [|assumption].
    eapply Permutation_NoDup; [apply Permutation_map; exact P1 | exact Hnd].
Qed.

Lemma flat_map_all_nil {X Y} (h : X -> list Y) l : (forall p, h p = []) -> flat_map h l = [].
Proof. intros H. induction l as [|a t IH]; cbn [flat_map]; [reflexivity|]. rewrite H, IH. reflexivity. Qed.

Lemma filter_flat_map {X Y} (p : Y -> bool) (g : X -> list Y) l :
  filter p (flat_map g l) = flat_map (fun x => filter p (g x)) l.
Proof.
  induction l as [|a t IH]; cbn [flat_map]; [reflexivity|]. rewrite filter_app, IH. reflexivity.
Qed.

Lemma Permutation_flat_map_l {X Y} (g : X -> list Y) l l' :
  Permutation l l' -> Permutation (flat_map g l) (flat_map g l').
Proof.
  intros P; induction P as [|x l l' P IH|x y l|l l' l'' P1 IH1 P2 IH2]; cbn [flat_map].
  - reflexivity.
  - apply Permutation_app_head. exact IH.
  - rewrite !app_assoc. apply Permutation_app_tail. apply Permutation_app_comm.
  - etransitivity; eassumption.
Qed.

Lemma emit_order_indep orc1 orc2 d :
  oracle_ok orc1 -> oracle_ok orc2 -> emit_order orc1 d = emit_order orc2 d.
Proof.
  intros [_ H1] [_ H2]. unfold emit_order.
  apply ssort_perm_antisym.
  - apply str_leb_total.
  - apply str_leb_trans.
  - apply str_leb_antisym.
  - rewrite H1, H2. reflexivity.
Qed.

(* all reports generated for a directive start at the directive *)
Lemma eqv_start x y : eqv diag_leb x y = true -> start_of x = start_of y.
Proof. intros H. apply diag_eqv_iff in H. tauto. Qed.

Section Indep.
  Variables (o : options) (orc1 orc2 : oracle) (f : file) (raw : list diag) (ec : list str).
  Hypothesis Hok1 : oracle_ok orc1.
  Hypothesis Hok2 : oracle_ok orc2.
  Hypothesis Hwf : wf_file f.
  Hypothesis Hwords : file_word o <> line_word o.
  Let fd := find_file_dir (file_word o) (f_leading f).
  Let ld := c_ld o f.
  Let dirs1 := c_dirs o orc1 f fd.
  Let dirs2 := c_dirs o orc2 f fd.

  Lemma dirs_perm : Permutation dirs1 dirs2.
  Proof.
    unfold dirs1, dirs2, c_dirs, all_dirs. apply Permutation_app_head. apply Permutation_map.
    rewrite (proj1 Hok1), (proj1 Hok2). reflexivity.
  Qed.

  Lemma dirs1_distinct : NoDup (map (fun p => dir_start (snd p)) dirs1).
  Proof. apply dirs_distinct; assumption. Qed.

  (* a generator all of whose outputs sit on its directive *)
  Lemma gen_indep (G : dkey * directive -> list diag) :
    (forall p d, In d (G p) -> start_of d = Some (dir_start (snd p))) ->
    forall x, filter (eqv diag_leb x) (flat_map G dirs1) = filter (eqv diag_leb x) (flat_map G dirs2).
  Proof.
    intros HG x. rewrite !filter_flat_map.
    destruct (start_of x) as [s|] eqn:Ex.
    - apply (flat_map_perm_sparse _ (fun p => dir_start (snd p)) s).
      + apply dirs_perm.
      + apply dirs1_distinct.
      + intros p Hp. apply filter_none. intros d Hd.
        destruct (eqv diag_leb x d) eqn:E; [|reflexivity].
        apply eqv_start in E. rewrite Ex, (HG p d Hd) in E. congruence.
    - rewrite !flat_map_all_nil; [reflexivity | |]; intros p; apply filter_none; intros d Hd;
        (destruct (eqv diag_leb x d) eqn:E; [|reflexivity]);
        apply eqv_start in E; rewrite Ex, (HG p d Hd) in E; discriminate.
  Qed.

  Lemma unknown_gen_eq all : forall p : dkey * directive, unknown_of_dir orc1 all (snd p) = unknown_of_dir orc2 all (snd p).
  Proof. intros p. unfold unknown_of_dir. rewrite (emit_order_indep orc1 orc2) by assumption. reflexivity. Qed.

  Lemma unused_gen_eq en u : forall p, unused_of_dir orc1 en u p = unused_of_dir orc2 en u p.
  Proof. intros p. unfold unused_of_dir. rewrite (emit_order_indep orc1 orc2) by assumption. reflexivity. Qed.

  Lemma unk_perm : Permutation (c_unk o orc1 f fd ec) (c_unk o orc2 f fd ec).
  Proof.
    unfold c_unk, unknown_raw. fold dirs1 dirs2.
    rewrite (flat_map_ext _ _ (unknown_gen_eq (c_all o ec))).
    apply Permutation_flat_map_l, dirs_perm.
  Qed.

  Lemma used'_eq : c_used' o orc1 f fd raw ec = c_used' o orc2 f fd raw ec.
  Proof.
    unfold c_used'. assert (nonempty_diags (c_unk o orc1 f fd ec) = nonempty_diags (c_unk o orc2 f fd ec)) as ->; [|reflexivity].
    pose proof unk_perm as P. destruct (c_unk o orc1 f fd ec) as [|a t], (c_unk o orc2 f fd ec) as [|b t']; try reflexivity.
    - apply Permutation_nil in P. discriminate.
    - apply Permutation_sym, Permutation_nil in P. discriminate.
  Qed.

  Lemma unk_out_class x :
    filter (eqv diag_leb x) (c_unk_out o orc1 f fd ec) = filter (eqv diag_leb x) (c_unk_out o orc2 f fd ec).
  Proof.
    unfold c_unk_out. destruct (check_unknown o && negb (file_has fd BAN_UNKNOWN)); [|reflexivity].
    unfold c_unk, unknown_raw. fold dirs1 dirs2.
    rewrite (flat_map_ext _ _ (unknown_gen_eq (c_all o ec))).
    apply gen_indep. intros p d Hd. unfold unknown_of_dir in Hd. apply in_map_iff in Hd.
    destruct Hd as [c [<- _]]. reflexivity.
  Qed.

  Lemma unused_class x :
    filter (eqv diag_leb x) (c_unused o orc1 f fd raw ec) = filter (eqv diag_leb x) (c_unused o orc2 f fd raw ec).
  Proof.
    unfold c_unused. destruct (file_has fd BAN_UNUSED); [reflexivity|].
    fold dirs1 dirs2. rewrite used'_eq.
    rewrite (flat_map_ext _ _ (unused_gen_eq (c_enabled o ec) (c_used' o orc2 f fd raw ec))).
    apply gen_indep. intros p d Hd. unfold unused_of_dir in Hd. apply in_map_iff in Hd.
    destruct Hd as [c [<- _]]. reflexivity.
  Qed.

  Lemma accounting_perm :
    Permutation (c_accounting o orc1 f fd raw ec) (c_accounting o orc2 f fd raw ec).
  Proof.
    unfold c_accounting. apply Permutation_app.
    - unfold c_unk_out. destruct (check_unknown o && negb (file_has fd BAN_UNKNOWN)); [apply unk_perm | reflexivity].
    - unfold c_unused. destruct (file_has fd BAN_UNUSED); [reflexivity|].
      fold dirs1 dirs2. rewrite used'_eq.
      rewrite (flat_map_ext _ _ (unused_gen_eq (c_enabled o ec) (c_used' o orc2 f fd raw ec))).
      apply Permutation_flat_map_l, dirs_perm.
  Qed.

  Theorem collect_order_independent :
    collect o orc1 f fd raw ec = collect o orc2 f fd raw ec.
  Proof.
    rewrite !collect_eq. apply ssort_stable_perm.
    - apply diag_leb_total.
    - apply diag_leb_trans.
    - apply Permutation_app_head, accounting_perm.
    - intros x. rewrite !filter_app. f_equal. unfold c_accounting. rewrite !filter_app.
      rewrite unk_out_class, unused_class. reflexivity.
  Qed.
End Indep.

Theorem pipeline_order_independent o orc1 orc2 f rd ext :
  oracle_ok orc1 -> oracle_ok orc2 -> wf_file f -> file_word o <> line_word o ->
  lint_inner o orc1 f rd ext = lint_inner o orc2 f rd ext.
Proof.
  intros H1 H2 Hwf Hw. unfold lint_inner.
  destruct (ignore_all (find_file_dir (file_word o) (f_leading f))); [reflexivity|].
  destruct ext; apply collect_order_independent; assumption.
Qed.
