(* Model of Linter::lint_inner / collect_diagnostics (src/linter.rs) and of
   Context::{check_ignore_directive_usage, ban_unknown_rule_code, ban_unused_ignore}
   (src/context.rs).  The rules' own output and the external linter's result are
   inputs. *)
From V Require Export Common.Sort Pipeline.Directive.
From Coq Require Import String.
Open Scope N_scope.

Record diag := mkDiag {
  d_code : str;
  d_range : option (N * N);    (* byte offsets; None = whole-file diagnostic *)
  d_msg : str }.               (* stands for message+hint+fixes: carried unchanged *)

Record file := mkFile {
  f_leading : list comment;    (* leading comments of the file (after an optional shebang) *)
  f_comments : list comment;   (* all comments, in source order *)
  f_nls : list N }.            (* offsets of the '\n' bytes *)

Record options := mkOpts {
  o_file_word : option str;    (* custom_ignore_file_directive *)
  o_line_word : option str;    (* custom_ignore_diagnostic_directive *)
  o_rules : list str;          (* codes of the rules the linter was built with *)
  o_all_codes : list str }.    (* all_rule_codes *)

(* iteration order of the hash maps: arbitrary permutations *)
Record oracle := mkOracle {
  perm_dirs : list (N * directive) -> list (N * directive);
  perm_codes : list str -> list str }.

Definition W_FILE : str := s2l "deno-lint-ignore-file".
Definition W_LINE : str := s2l "deno-lint-ignore".
Definition BAN_UNUSED : str := s2l "ban-unused-ignore".
Definition BAN_UNKNOWN : str := s2l "ban-unknown-rule-code".

(* LinterContext::new *)
Definition file_word (o : options) : str :=
  match o_file_word o with Some w => w | None => W_FILE end.
Definition line_word (o : options) : str :=
  match o_line_word o with Some w => w | None => W_LINE end.
Definition check_unknown (o : options) : bool := mem BAN_UNKNOWN (o_rules o).

Inductive dkey := KFile | KLine (l : N).
Definition dkey_eqb (a b : dkey) : bool :=
  match a, b with KFile, KFile => true | KLine x, KLine y => x =? y | _, _ => false end.

Definition file_has (fd : option directive) (c : str) : bool :=
  match fd with Some d => mem c (dir_codes d) | None => false end.

Definition line_has (ld : list (N * directive)) (l : N) (c : str) : bool :=
  match lookup l ld with Some d => mem c (dir_codes d) | None => false end.

(* which directive (if any) swallows a diagnostic *)
Definition suppressor (fd : option directive) (ld : list (N * directive)) (nls : list N) (d : diag) : option dkey :=
  if file_has fd (d_code d) then Some KFile
  else match d_range d with
       | None => None
       | Some (s, _) =>
           let l := line_index nls s in
           if (0 <? l) && line_has ld (l - 1) (d_code d) then Some (KLine (l - 1)) else None
       end.

(* check_ignore_directive_usage: the surviving diagnostics (in order) and the
   (directive, code) pairs marked as used *)
Fixpoint check_usage (fd : option directive) (ld : list (N * directive)) (nls : list N) (raw : list diag)
  : list diag * list (dkey * str) :=
  match raw with
  | [] => ([], [])
  | d :: r =>
      let (f, u) := check_usage fd ld nls r in
      match suppressor fd ld nls d with
      | Some k => (f, (k, d_code d) :: u)
      | None => (d :: f, u)
      end
  end.

Definition is_used (u : list (dkey * str)) (k : dkey) (c : str) : bool :=
  existsb (fun p => dkey_eqb (fst p) k && str_eqb (snd p) c) u.

Definition QUOTE : N := 34.
Definition msg_unknown (c : str) : str := s2l "Unknown rule for code """ ++ c ++ [QUOTE].
Definition msg_unused (c : str) : str := s2l "Ignore for code """ ++ c ++ s2l """ was not used.".

Definition diag_at (d : directive) (code msg : str) : diag :=
  mkDiag code (Some (dir_start d, dir_end d)) msg.

(* the codes of one directive in the order in which the accounting rules report
   them: hash order, then sorted (the sort is what makes the order observable-free) *)
Definition emit_order (orc : oracle) (d : directive) : list str :=
  ssort str_leb (perm_codes orc (dir_codes d)).

Definition all_dirs (orc : oracle) (fd : option directive) (ld : list (N * directive)) : list (dkey * directive) :=
  (match fd with Some d => [(KFile, d)] | None => [] end)
  ++ map (fun p => (KLine (fst p), snd p)) (perm_dirs orc ld).

(* ban_unknown_rule_code: the raw list (before the enabling gate) *)
Definition unknown_of_dir (orc : oracle) (all : list str) (d : directive) : list diag :=
  map (fun c => diag_at d BAN_UNKNOWN (msg_unknown c))
      (filter (fun c => negb (mem c all)) (emit_order orc d)).

Definition unknown_raw (orc : oracle) (all : list str) (dirs : list (dkey * directive)) : list diag :=
  flat_map (fun p => unknown_of_dir orc all (snd p)) dirs.

Definition unused_of_dir (orc : oracle) (enabled : list str) (u : list (dkey * str)) (p : dkey * directive) : list diag :=
  map (fun c => diag_at (snd p) BAN_UNUSED (msg_unused c))
      (filter (fun c => negb (is_used u (fst p) c) && mem c enabled) (emit_order orc (snd p))).

(* sort key of collect_diagnostics: (Option<start>, code) *)
Definition start_of (d : diag) : option N := option_map fst (d_range d).
Definition opt_cmp (a b : option N) : comparison :=
  match a, b with
  | None, None => Eq | None, Some _ => Lt | Some _, None => Gt
  | Some x, Some y => N.compare x y
  end.
Definition diag_leb (a b : diag) : bool :=
  match opt_cmp (start_of a) (start_of b) with
  | Lt => true | Gt => false
  | Eq => str_leb (d_code a) (d_code b)
  end.

Definition nonempty_diags (l : list diag) : bool := match l with [] => false | _ => true end.

(* collect_diagnostics *)
Definition collect (o : options) (orc : oracle) (f : file) (fd : option directive)
  (raw : list diag) (ext_codes : list str) : list diag :=
  let ld := line_dirs (line_word o) (f_nls f) (f_comments f) in
  let fu := check_usage fd ld (f_nls f) raw in
  let filtered := fst fu in
  let used := snd fu in
  let all := o_all_codes o ++ ext_codes in
  let enabled := ext_codes ++ o_rules o in
  let dirs := all_dirs orc fd ld in
  let unk := unknown_raw orc all dirs in
  let used' := if nonempty_diags unk && file_has fd BAN_UNKNOWN then (KFile, BAN_UNKNOWN) :: used else used in
  let unk_out := if check_unknown o && negb (file_has fd BAN_UNKNOWN) then unk else [] in
  let unused := if file_has fd BAN_UNUSED then [] else flat_map (unused_of_dir orc enabled used') dirs in
  ssort diag_leb (filtered ++ unk_out ++ unused).

Definition ignore_all (fd : option directive) : bool :=
  match fd with
  | Some d => match dir_codes d with [] => true | _ => false end
  | None => false
  end.

(* what the external-linter callback produced *)
Inductive ext_result :=
| NoCallback                                   (* no callback was supplied *)
| Declined                                     (* the callback returned None *)
| ExtResult (ds : list diag) (codes : list str).

Definition ext_diags (e : ext_result) : list diag :=
  match e with ExtResult ds _ => ds | _ => [] end.
Definition ext_codes (e : ext_result) : list str :=
  match e with ExtResult _ cs => cs | _ => [] end.

(* lint_inner.  rule_diags: what the configured rules pushed, in execution order. *)
Definition lint_inner (o : options) (orc : oracle) (f : file) (rule_diags : list diag)
  (ext : ext_result) : list diag :=
  let fd := find_file_dir (file_word o) (f_leading f) in
  if ignore_all fd then []
  else
    match ext with
    | ExtResult ed ec => collect o orc f fd (rule_diags ++ ed) ec
    | _ => collect o orc f fd rule_diags []
    end.

Definition id_oracle : oracle := mkOracle (fun l => l) (fun l => l).
Definition rev_oracle : oracle := mkOracle (@rev _) (@rev _).
