(* Proofs about the pipeline model: the loop equals its declarative
   specification; sortedness; permutation; origin of every output diagnostic. *)
From V Require Import Common.Sort Pipeline.Directive Pipeline.Pipeline.
From Coq Require Import Permutation Sorted.
Open Scope N_scope.

(* ---------- the sort key is a total preorder ---------- *)
Lemma opt_cmp_antisym a b : opt_cmp b a = CompOpp (opt_cmp a b).
Proof. destruct a, b; cbn; auto. apply N.compare_antisym. Qed.

Lemma opt_cmp_eq a b : opt_cmp a b = Eq <-> a = b.
Proof.
  destruct a, b; cbn; try (split; congruence).
  rewrite N.compare_eq_iff. split; congruence.
Qed.

Lemma opt_cmp_trans c x y z : opt_cmp x y = c -> opt_cmp y z = c -> opt_cmp x z = c.
Proof.
  destruct x as [x|], y as [y|], z as [z|]; cbn; try congruence.
  destruct c.
  - rewrite !N.compare_eq_iff. congruence.
  - rewrite !N.compare_lt_iff. lia.
  - rewrite !N.compare_gt_iff. lia.
Qed.

Lemma diag_leb_total a b : diag_leb a b = true \/ diag_leb b a = true.
Proof.
  unfold diag_leb. rewrite (opt_cmp_antisym (start_of a) (start_of b)).
  destruct (opt_cmp (start_of a) (start_of b)); cbn; auto.
  apply str_leb_total.
Qed.

Lemma diag_leb_trans a b c : diag_leb a b = true -> diag_leb b c = true -> diag_leb a c = true.
Proof.
  unfold diag_leb.
  destruct (opt_cmp (start_of a) (start_of b)) eqn:E1; try congruence;
  destruct (opt_cmp (start_of b) (start_of c)) eqn:E2; try congruence; intros H1 H2.
  - rewrite (opt_cmp_trans Eq _ _ _ E1 E2). eapply str_leb_trans; eassumption.
  - apply opt_cmp_eq in E1. rewrite E1, E2. reflexivity.
  - apply opt_cmp_eq in E2. rewrite <- E2, E1. reflexivity.
  - rewrite (opt_cmp_trans Lt _ _ _ E1 E2). reflexivity.
Qed.

Definition diag_le := le diag_leb.

(* diag_leb equivalence = same start and same code *)
Lemma diag_eqv_iff a b :
  eqv diag_leb a b = true <-> start_of a = start_of b /\ d_code a = d_code b.
Proof.
  unfold eqv, diag_leb. rewrite (opt_cmp_antisym (start_of a) (start_of b)).
  destruct (opt_cmp (start_of a) (start_of b)) eqn:E; cbn.
  - apply opt_cmp_eq in E. rewrite andb_true_iff. split.
    + intros [H1 H2]. split; [assumption | apply str_leb_antisym; assumption].
    + intros [_ ->]. rewrite str_leb_refl. auto.
  - split; [discriminate|]. intros [H _]. apply opt_cmp_eq in H. congruence.
  - split; [discriminate|]. intros [H _]. apply opt_cmp_eq in H. congruence.
Qed.

(* ---------- check_usage = filter + used marks ---------- *)
Definition suppressed fd ld nls (d : diag) : bool :=
  match suppressor fd ld nls d with Some _ => true | None => false end.

Lemma check_usage_fst fd ld nls raw :
  fst (check_usage fd ld nls raw) = filter (fun d => negb (suppressed fd ld nls d)) raw.
Proof.
  induction raw as [|d r IH]; cbn [check_usage filter]; [reflexivity|].
  destruct (check_usage fd ld nls r) as [f u]. cbn [fst] in IH. unfold suppressed at 1.
  destruct (suppressor fd ld nls d); cbn [fst negb]; rewrite IH; reflexivity.
Qed.

Lemma check_usage_snd fd ld nls raw k c :
  In (k, c) (snd (check_usage fd ld nls raw)) <->
  exists d, In d raw /\ suppressor fd ld nls d = Some k /\ d_code d = c.
Proof.
  induction raw as [|d r IH]; cbn [check_usage].
  - cbn. split; [tauto | intros [d [[] _]]].
  - destruct (check_usage fd ld nls r) as [f u]. cbn [snd] in IH.
    destruct (suppressor fd ld nls d) as [k'|] eqn:E; cbn [snd In].
    + rewrite IH. split.
      * intros [H|[d' [Hin H]]].
        -- inversion H; subst. exists d. auto.
        -- exists d'. auto.
      * intros [d' [[<-|Hin] [Hs Hc]]].
        -- left. congruence.
        -- right. exists d'. auto.
    + rewrite IH. split.
      * intros [d' [Hin H]]. exists d'. auto.
      * intros [d' [[<-|Hin] [Hs Hc]]]; [congruence|]. exists d'. auto.
Qed.

Lemma dkey_eqb_eq a b : dkey_eqb a b = true <-> a = b.
Proof.
  destruct a, b; cbn; try (split; congruence).
  rewrite N.eqb_eq. split; congruence.
Qed.

Lemma is_used_In u k c : is_used u k c = true <-> In (k, c) u.
Proof.
  unfold is_used. rewrite existsb_exists. split.
  - intros [[k' c'] [Hin H]]. cbn in H. apply andb_true_iff in H. destruct H as [H1 H2].
    apply dkey_eqb_eq in H1. apply str_eqb_eq in H2. subst. assumption.
  - intros H. exists (k, c). split; [assumption|]. cbn.
    rewrite str_eqb_refl. replace (dkey_eqb k k) with true; [reflexivity|].
    symmetry. apply dkey_eqb_eq. reflexivity.
Qed.

(* ---------- the pieces of collect, named ---------- *)
Section Collect.
  Variables (o : options) (orc : oracle) (f : file) (fd : option directive)
            (raw : list diag) (ec : list str).

  Definition c_ld := line_dirs (line_word o) (f_nls f) (f_comments f).
  Definition c_filtered := filter (fun d => negb (suppressed fd c_ld (f_nls f) d)) raw.
  Definition c_used := snd (check_usage fd c_ld (f_nls f) raw).
  Definition c_all := o_all_codes o ++ ec.
  Definition c_enabled := ec ++ o_rules o.
  Definition c_dirs := all_dirs orc fd c_ld.
  Definition c_unk := unknown_raw orc c_all c_dirs.
  Definition c_used' :=
    if nonempty_diags c_unk && file_has fd BAN_UNKNOWN then (KFile, BAN_UNKNOWN) :: c_used else c_used.
  Definition c_unk_out := if check_unknown o && negb (file_has fd BAN_UNKNOWN) then c_unk else [].
  Definition c_unused :=
    if file_has fd BAN_UNUSED then [] else flat_map (unused_of_dir orc c_enabled c_used') c_dirs.
  Definition c_accounting := c_unk_out ++ c_unused.

  Lemma collect_eq :
    collect o orc f fd raw ec = ssort diag_leb (c_filtered ++ c_accounting).
  Proof.
    unfold collect, c_accounting, c_unused, c_unk_out, c_used', c_unk, c_dirs, c_enabled, c_all, c_used, c_filtered, c_ld.
    rewrite check_usage_fst. reflexivity.
  Qed.

  Theorem collect_perm : Permutation (collect o orc f fd raw ec) (c_filtered ++ c_accounting).
  Proof. rewrite collect_eq. apply ssort_perm. Qed.

  Theorem collect_sorted : StronglySorted diag_le (collect o orc f fd raw ec).
  Proof. rewrite collect_eq. apply ssort_sorted; [apply diag_leb_total | apply diag_leb_trans]. Qed.

  (* stability: inside every (start, code) class the survivors come first, in
     their original relative order, then the accounting diagnostics in emission order *)
  Theorem collect_stable x :
    filter (eqv diag_leb x) (collect o orc f fd raw ec)
    = filter (eqv diag_leb x) c_filtered ++ filter (eqv diag_leb x) c_accounting.
  Proof.
    rewrite collect_eq, filter_ssort by (apply diag_leb_total || apply diag_leb_trans).
    rewrite filter_app. apply ssort_all_eqv.
    intros a b Ha Hb. rewrite <- filter_app in Ha, Hb.
    apply filter_In in Ha, Hb. destruct Ha as [_ Ha], Hb as [_ Hb].
    rewrite eqv_sym in Ha. pose proof (eqv_trans _ diag_leb diag_leb_trans _ _ _ Ha Hb) as E.
    unfold eqv in E. apply andb_true_iff in E. tauto.
  Qed.

  (* every accounting diagnostic sits on a directive and carries one of the two codes *)
  Definition is_accounting (d : diag) : Prop :=
    exists k dir, In (k, dir) c_dirs /\ d_range d = Some (dir_start dir, dir_end dir) /\
      ((d_code d = BAN_UNKNOWN /\ exists c, In c (dir_codes dir) /\ d_msg d = msg_unknown c)
       \/ (d_code d = BAN_UNUSED /\ exists c, In c (dir_codes dir) /\ d_msg d = msg_unused c)).
End Collect.
