(* Property-level theorems about the pipeline model (used by Props/C0x.v). *)
From V Require Import Common.Sort Pipeline.Directive Pipeline.Pipeline
  Pipeline.DirectiveProofs Pipeline.PipelineProofs.
From Coq Require Import Permutation Sorted.
Open Scope N_scope.

Definition oracle_ok (orc : oracle) : Prop :=
  (forall l, Permutation (perm_dirs orc l) l) /\ (forall l, Permutation (perm_codes orc l) l).

Lemma id_oracle_ok : oracle_ok id_oracle.
Proof. split; intros l; reflexivity. Qed.

Lemma rev_oracle_ok : oracle_ok rev_oracle.
Proof. split; intros l; cbn; apply Permutation_sym, Permutation_rev. Qed.

(* ---------- declarative suppression ---------- *)
Definition suppressed_spec (fd : option directive) (ld : list (N * directive)) (nls : list N) (d : diag) : Prop :=
  (exists fdir, fd = Some fdir /\ In (d_code d) (dir_codes fdir)) \/
  (exists s e l dir, d_range d = Some (s, e) /\ line_index nls s = l + 1 /\
                     lookup l ld = Some dir /\ In (d_code d) (dir_codes dir)).

Lemma file_has_iff fd c : file_has fd c = true <-> exists fdir, fd = Some fdir /\ In c (dir_codes fdir).
Proof.
  unfold file_has. destruct fd as [fdir|].
  - rewrite mem_In. split; [intros H; exists fdir; auto | intros [x [E H]]; inversion E; subst; assumption].
  - split; [discriminate | intros [x [E _]]; discriminate].
Qed.

Lemma line_has_iff ld l c : line_has ld l c = true <-> exists dir, lookup l ld = Some dir /\ In c (dir_codes dir).
Proof.
  unfold line_has. destruct (lookup l ld) as [dir|].
  - rewrite mem_In. split; [intros H; exists dir; auto | intros [x [E H]]; inversion E; subst; assumption].
  - split; [discriminate | intros [x [E _]]; discriminate].
Qed.

Theorem suppressed_iff fd ld nls d :
  suppressed fd ld nls d = true <-> suppressed_spec fd ld nls d.
Proof.
  unfold suppressed, suppressor, suppressed_spec.
  destruct (file_has fd (d_code d)) eqn:Ef.
  - split; [intros _; left; apply file_has_iff; assumption | reflexivity].
  - assert (Hnf : ~ exists fdir, fd = Some fdir /\ In (d_code d) (dir_codes fdir)).
    { rewrite <- file_has_iff. congruence. }
    destruct (d_range d) as [[s e]|].
    + destruct (N.ltb_spec 0 (line_index nls s)) as [Hpos|Hz]; cbn [andb].
      * destruct (line_has ld (line_index nls s - 1) (d_code d)) eqn:El.
        -- split; [intros _|reflexivity]. right. apply line_has_iff in El. destruct El as [dir [H1 H2]].
           exists s, e, (line_index nls s - 1), dir. repeat split; try assumption. lia.
        -- split; [discriminate|]. intros [H|[s' [e' [l [dir [Hr [Hl [Hk Hin]]]]]]]]; [contradiction|].
           inversion Hr; subst s' e'. replace (line_index nls s - 1) with l in El by lia.
           assert (line_has ld l (d_code d) = true) by (apply line_has_iff; eauto). congruence.
      * split; [discriminate|]. intros [H|[s' [e' [l [dir [Hr [Hl _]]]]]]]; [contradiction|].
        inversion Hr; subst. lia.
    + split; [discriminate|]. intros [H|[s' [e' [l [dir [Hr _]]]]]]; [contradiction | discriminate].
Qed.

(* a diagnostic without a range can only be removed by the file-level directive *)
Corollary rangeless_only_file fd ld nls d :
  d_range d = None -> suppressed fd ld nls d = file_has fd (d_code d).
Proof.
  intros Hr. unfold suppressed, suppressor. rewrite Hr. destruct (file_has fd (d_code d)); reflexivity.
Qed.

(* a diagnostic starting on the first line has no predecessor line *)
Corollary first_line_only_file fd ld nls d s e :
  d_range d = Some (s, e) -> line_index nls s = 0 -> suppressed fd ld nls d = file_has fd (d_code d).
Proof.
  intros Hr Hl. unfold suppressed, suppressor. rewrite Hr, Hl. cbn. destruct (file_has fd (d_code d)); reflexivity.
Qed.

(* ---------- C05 ---------- *)
Theorem ignore_all_silences o orc f rd ext d :
  find_file_dir (file_word o) (f_leading f) = Some d -> dir_codes d = [] ->
  lint_inner o orc f rd ext = [].
Proof.
  intros Hf Hc. unfold lint_inner, ignore_all. rewrite Hf, Hc. reflexivity.
Qed.

Theorem file_directive_only_leading_line w leading d :
  find_file_dir w leading = Some d ->
  exists c, In c leading /\ c_line c = true /\ first_word (trim (c_text c)) = Some w /\
            dir_start d = c_start c /\ dir_end d = c_end c.
Proof.
  intros H. apply find_file_dir_some in H. destruct H as [pre [c [post [-> [Hp _]]]]].
  apply parse_dir_some in Hp. exists c. rewrite in_app_iff. cbn. tauto.
Qed.

Theorem not_silenced_otherwise o orc f rd ext :
  ignore_all (find_file_dir (file_word o) (f_leading f)) = false ->
  lint_inner o orc f rd ext =
  collect o orc f (find_file_dir (file_word o) (f_leading f)) (rd ++ ext_diags ext) (ext_codes ext).
Proof.
  intros H. unfold lint_inner. rewrite H. destruct ext; cbn [ext_diags ext_codes]; rewrite ?app_nil_r; reflexivity.
Qed.

Lemma line_dirs_aux_none w nls cs m :
  Forall (fun c => parse_dir w c = None) cs -> line_dirs_aux w nls cs m = m.
Proof.
  intros H; revert m; induction H as [|c t Hc _ IH]; intros m; cbn [line_dirs_aux]; [reflexivity|].
  rewrite Hc. apply IH.
Qed.

Lemma check_usage_nodirs nls raw : fst (check_usage None [] nls raw) = raw.
Proof.
  rewrite check_usage_fst. induction raw as [|d r IH]; cbn [filter]; [reflexivity|].
  unfold suppressed, suppressor. cbn [file_has].
  destruct (d_range d) as [[s e]|]; [unfold line_has; cbn [lookup]; destruct (0 <? line_index nls s)|]; cbn; f_equal; exact IH.
Qed.

(* a file without any directive comment: the result is the stably sorted raw list *)
Theorem no_directive_no_effect o orc f rd ext :
  oracle_ok orc ->
  Forall (fun c => parse_dir (file_word o) c = None) (f_leading f) ->
  Forall (fun c => parse_dir (line_word o) c = None) (f_comments f) ->
  lint_inner o orc f rd ext = ssort diag_leb (rd ++ ext_diags ext).
Proof.
  intros [Hpd _] Hf Hl. apply find_file_dir_none in Hf.
  rewrite not_silenced_otherwise by (rewrite Hf; reflexivity).
  rewrite Hf. unfold collect, line_dirs. rewrite line_dirs_aux_none by assumption.
  rewrite check_usage_nodirs. unfold all_dirs.
  assert (perm_dirs orc [] = []) as -> by (apply Permutation_nil, Permutation_sym, Hpd).
  cbn. destruct (check_unknown o); cbn; rewrite ?app_nil_r; reflexivity.
Qed.

(* ---------- C06 ---------- *)
Section Exact.
  Variables (o : options) (orc : oracle) (f : file) (rd : list diag) (ext : ext_result).
  Hypothesis Hok : oracle_ok orc.
  Let fd := find_file_dir (file_word o) (f_leading f).
  Let ld := line_dirs (line_word o) (f_nls f) (f_comments f).
  Let raw := rd ++ ext_diags ext.
  Let ec := ext_codes ext.
  Hypothesis Hnot_all : ignore_all fd = false.

  Theorem output_is_perm :
    Permutation (lint_inner o orc f rd ext)
      (filter (fun d => negb (suppressed fd ld (f_nls f) d)) raw ++ c_accounting o orc f fd raw ec).
  Proof.
    unfold lint_inner. fold fd. rewrite Hnot_all.
    destruct ext; cbn [ext_diags ext_codes] in *; subst raw ec; cbn [ext_diags ext_codes]; rewrite ?app_nil_r; apply collect_perm.
  Qed.

  Lemma lint_inner_collect : lint_inner o orc f rd ext = collect o orc f fd raw ec.
  Proof. apply not_silenced_otherwise. exact Hnot_all. Qed.

  (* a raw diagnostic is in the output iff it is not suppressed (or an identical accounting report exists) *)
  Theorem survivor_kept d : In d raw -> suppressed fd ld (f_nls f) d = false -> In d (lint_inner o orc f rd ext).
  Proof.
    intros Hin Hs. eapply Permutation_in; [apply Permutation_sym, output_is_perm|].
    apply in_or_app. left. apply filter_In. rewrite Hs. auto.
  Qed.

  Theorem output_origin d :
    In d (lint_inner o orc f rd ext) ->
    (In d raw /\ suppressed fd ld (f_nls f) d = false) \/ In d (c_accounting o orc f fd raw ec).
  Proof.
    intros H. apply (Permutation_in _ output_is_perm) in H. apply in_app_or in H.
    destruct H as [H|H]; [left | right; assumption].
    apply filter_In in H. destruct H as [H1 H2]. split; [assumption|]. destruct (suppressed _ _ _ d); [discriminate | reflexivity].
  Qed.

  (* nothing is duplicated or moved: within each (start, code) class the survivors appear in
     their original relative order, followed by the accounting reports *)
  Theorem output_stable x :
    filter (eqv diag_leb x) (lint_inner o orc f rd ext) =
    filter (eqv diag_leb x) (filter (fun d => negb (suppressed fd ld (f_nls f) d)) raw)
    ++ filter (eqv diag_leb x) (c_accounting o orc f fd raw ec).
  Proof. rewrite lint_inner_collect. apply collect_stable. Qed.

  Theorem output_sorted : StronglySorted diag_le (lint_inner o orc f rd ext).
  Proof. rewrite lint_inner_collect. apply collect_sorted. Qed.
End Exact.

Theorem output_sorted_always o orc f rd ext : StronglySorted diag_le (lint_inner o orc f rd ext).
Proof.
  destruct (ignore_all (find_file_dir (file_word o) (f_leading f))) eqn:E.
  - unfold lint_inner. rewrite E. constructor.
  - apply output_sorted. exact E.
Qed.

(* ---------- C16 ---------- *)
Theorem declining_callback_neutral o orc f rd :
  lint_inner o orc f rd Declined = lint_inner o orc f rd NoCallback.
Proof. reflexivity. Qed.

Theorem external_same_pipeline o orc f rd ed ec :
  lint_inner o orc f rd (ExtResult ed ec) =
  if ignore_all (find_file_dir (file_word o) (f_leading f)) then []
  else collect o orc f (find_file_dir (file_word o) (f_leading f)) (rd ++ ed) ec.
Proof. reflexivity. Qed.

(* external diagnostics without declared codes are indistinguishable from rule diagnostics *)
Theorem external_like_builtin o orc f rd ed :
  lint_inner o orc f rd (ExtResult ed []) = lint_inner o orc f (rd ++ ed) NoCallback.
Proof. reflexivity. Qed.

(* ---------- C17 ---------- *)
Theorem file_word_from_file_option fw lw lw' r a :
  file_word (mkOpts fw lw r a) = file_word (mkOpts fw lw' r a).
Proof. reflexivity. Qed.

Theorem line_word_from_line_option fw fw' lw r a :
  line_word (mkOpts fw lw r a) = line_word (mkOpts fw' lw r a).
Proof. reflexivity. Qed.

Theorem custom_file_word w lw r a : file_word (mkOpts (Some w) lw r a) = w.
Proof. reflexivity. Qed.
Theorem custom_line_word fw w r a : line_word (mkOpts fw (Some w) r a) = w.
Proof. reflexivity. Qed.
Theorem default_file_word lw r a : file_word (mkOpts None lw r a) = W_FILE.
Proof. reflexivity. Qed.
Theorem default_line_word fw r a : line_word (mkOpts fw None r a) = W_LINE.
Proof. reflexivity. Qed.

(* the default word of an overridden kind stops being recognised (and any other word too) *)
Theorem only_configured_word_recognised w w' c :
  w' <> w -> first_word (trim (c_text c)) = Some w' -> parse_dir w c = None.
Proof.
  intros Hne Hfw. apply parse_dir_none_iff. right. congruence.
Qed.

(* the sort key, spelled out *)
Lemma diag_leb_iff a b :
  diag_leb a b = true <->
  (opt_cmp (start_of a) (start_of b) = Lt \/
   (opt_cmp (start_of a) (start_of b) = Eq /\ str_leb (d_code a) (d_code b) = true)).
Proof.
  unfold diag_leb. destruct (opt_cmp (start_of a) (start_of b)) eqn:E.
  - split; [intros H; right; auto | intros [H|[_ H]]; [discriminate | exact H]].
  - split; [intros _; left; reflexivity | reflexivity].
  - split; [discriminate | intros [H|[H _]]; discriminate].
Qed.

(* C16: a whole-file (range-less) diagnostic is kept unless the file-level directive names its code *)
Theorem rangeless_kept o orc f rd ext :
  ignore_all (find_file_dir (file_word o) (f_leading f)) = false ->
  forall d, In d (rd ++ ext_diags ext) -> d_range d = None ->
  file_has (find_file_dir (file_word o) (f_leading f)) (d_code d) = false ->
  In d (lint_inner o orc f rd ext).
Proof.
  intros H d Hin Hr Hf. apply survivor_kept; try assumption.
  rewrite rangeless_only_file by assumption. exact Hf.
Qed.

Theorem configured_word_recognised w c :
  c_line c = true -> first_word (trim (c_text c)) = Some w -> exists d, parse_dir w c = Some d.
Proof. intros H1 H2. apply is_directive_iff. auto. Qed.

Theorem custom_bare_file_directive_silences w lw r a orc f rd ext d :
  find_file_dir w (f_leading f) = Some d -> dir_codes d = [] ->
  lint_inner (mkOpts (Some w) lw r a) orc f rd ext = [].
Proof. intros. eapply ignore_all_silences; eassumption. Qed.
