(* C05/C06: an appended `-- reason` does not change which codes are meant. *)
From V Require Import Common.Sort Pipeline.Directive Pipeline.DirectiveProofs Pipeline.Tokens.
Open Scope N_scope.

Definition head_dash (s : str) : bool := match s with b :: _ => b =? DASH | [] => false end.

Lemma starts_reason_cons_nonws c x : is_ws c = false -> starts_reason (c :: x) = (c =? DASH) && head_dash x.
Proof. intros H. unfold starts_reason. cbn [dropws]. rewrite H. destruct x; [rewrite andb_false_r|]; reflexivity. Qed.

Lemma starts_reason_cons_ws c x : is_ws c = true -> starts_reason (c :: x) = starts_reason x.
Proof. intros H. unfold starts_reason. cbn [dropws]. rewrite H. reflexivity. Qed.

(* no position of s (followed by rest) starts a reason *)
Fixpoint clean_before (s rest : str) : bool :=
  match s with [] => true | c :: t => negb (starts_reason (s ++ rest)) && clean_before t rest end.

Lemma cut_clean s rest : clean_before s rest = true -> cut_reason 0 (s ++ rest) = s ++ cut_reason 0 rest.
Proof.
  induction s as [|c t IH]; intros H; [reflexivity|].
  cbn [clean_before] in H. apply andb_true_iff in H. destruct H as [H1 H2].
  apply negb_true_iff in H1. cbn [app] in *. cbn [cut_reason].
  change (0 =? 1) with false. change (0 =? 2) with false. cbn [andb]. rewrite H1. f_equal. apply IH. exact H2.
Qed.

(* no two adjacent dashes *)
Fixpoint noddb (s : str) : bool :=
  match s with
  | a :: t => negb ((a =? DASH) && head_dash t) && noddb t
  | [] => true
  end.

(* the last character of s is not white space, and is not a dash glued to a dash of rest *)
Fixpoint last_ok (s rest : str) : bool :=
  match s with
  | [] => true
  | [c] => negb (is_ws c) && negb ((c =? DASH) && head_dash rest)
  | _ :: t => last_ok t rest
  end.

Lemma head_dash_app t rest : t <> [] -> head_dash (t ++ rest) = head_dash t.
Proof. destruct t; [contradiction | reflexivity]. Qed.

Lemma clean_intro s rest : noddb s = true -> last_ok s rest = true -> clean_before s rest = true.
Proof.
  induction s as [|c t IH]; intros Hn Hl; [reflexivity|].
  cbn [noddb] in Hn. apply andb_true_iff in Hn. destruct Hn as [Hn1 Hn2].
  cbn [clean_before]. destruct t as [|c2 t2].
  - cbn [last_ok] in Hl. apply andb_true_iff in Hl. destruct Hl as [Hw Hd].
    apply negb_true_iff in Hw. cbn [app clean_before]. rewrite andb_true_r.
    rewrite starts_reason_cons_nonws by exact Hw. exact Hd.
  - assert (IH' : clean_before (c2 :: t2) rest = true) by (apply IH; [exact Hn2 | exact Hl]).
    rewrite IH', andb_true_r. cbn [app].
    destruct (is_ws c) eqn:Ew.
    + rewrite starts_reason_cons_ws by exact Ew.
      cbn [clean_before] in IH'. apply andb_true_iff in IH'. destruct IH' as [H _]. exact H.
    + rewrite starts_reason_cons_nonws by exact Ew. cbn [head_dash app] in *. exact Hn1.
Qed.

Lemma clean_nil s : noddb s = true -> clean_before s [] = true.
Proof.
  induction s as [|c t IH]; intros Hn; [reflexivity|].
  cbn [noddb] in Hn. apply andb_true_iff in Hn. destruct Hn as [Hn1 Hn2].
  cbn [clean_before]. rewrite (IH Hn2), andb_true_r, app_nil_r.
  destruct (is_ws c) eqn:Ew.
  - rewrite starts_reason_cons_ws by exact Ew. destruct t as [|c2 t2]; [reflexivity|].
    specialize (IH Hn2). cbn [clean_before] in IH. apply andb_true_iff in IH. destruct IH as [H _].
    rewrite app_nil_r in H. exact H.
  - rewrite starts_reason_cons_nonws by exact Ew. exact Hn1.
Qed.

(* text without `--` is left alone *)
Theorem cut_reason_no_reason s : noddb s = true -> cut_reason 0 s = s.
Proof.
  intros H. rewrite <- (app_nil_r s) at 1. rewrite cut_clean by (apply clean_nil; exact H).
  cbn [cut_reason]. apply app_nil_r.
Qed.

(* inside a match *)
Definition no_nl (s : str) : Prop := forallb (fun c => negb (c =? NL)) s = true.
Definition all_ws (s : str) : Prop := forallb is_ws s = true.

Lemma cut_state2 r : no_nl r -> cut_reason 2 r = [].
Proof.
  unfold no_nl. induction r as [|c t IH]; intros H; [reflexivity|].
  cbn [forallb] in H. apply andb_true_iff in H. destruct H as [Hc Ht].
  cbn [cut_reason]. change (2 =? 1) with false. change (2 =? 2) with true. rewrite Hc. cbn [andb]. apply IH. exact Ht.
Qed.

Lemma cut_state1 ws c x : all_ws ws -> is_ws c = false -> cut_reason 1 (ws ++ c :: x) = cut_reason 2 x.
Proof.
  unfold all_ws. induction ws as [|w t IH]; intros H Hc; cbn [app cut_reason]; change (1 =? 1) with true.
  - rewrite Hc. reflexivity.
  - cbn [forallb] in H. apply andb_true_iff in H. destruct H as [Hw Ht]. rewrite Hw. apply IH; assumption.
Qed.

Lemma dash_not_ws : is_ws DASH = false. Proof. reflexivity. Qed.
Lemma dash_not_nl : (DASH =? NL) = false. Proof. reflexivity. Qed.

Lemma starts_reason_wsrun ws r : all_ws ws -> starts_reason (ws ++ DASH :: DASH :: r) = true.
Proof.
  unfold all_ws. induction ws as [|w t IH]; intros H; cbn [app].
  - reflexivity.
  - cbn [forallb] in H. apply andb_true_iff in H. destruct H as [Hw Ht].
    rewrite starts_reason_cons_ws by exact Hw. apply IH. exact Ht.
Qed.

Lemma cut_reason_match ws r : all_ws ws -> no_nl r -> cut_reason 0 (ws ++ DASH :: DASH :: r) = [].
Proof.
  intros Hws Hr. pose proof (starts_reason_wsrun ws r Hws) as Hs.
  assert (R2 : cut_reason 2 (DASH :: r) = []).
  { apply cut_state2. unfold no_nl. cbn [forallb]. rewrite dash_not_nl. exact Hr. }
  destruct ws as [|w t]; cbn [app] in *; cbn [cut_reason]; change (0 =? 1) with false; change (0 =? 2) with false; cbn [andb]; rewrite Hs.
  - rewrite dash_not_ws. exact R2.
  - unfold all_ws in Hws. cbn [forallb] in Hws. apply andb_true_iff in Hws. destruct Hws as [Hw Ht]. rewrite Hw.
    rewrite (cut_state1 t DASH (DASH :: r)); [exact R2 | exact Ht | exact dash_not_ws].
Qed.

(* THE reason lemma: everything from the white space before the first `--` on is cut *)
Theorem cut_reason_spec body ws r :
  noddb body = true -> last_ok body (ws ++ DASH :: DASH :: r) = true -> all_ws ws -> no_nl r ->
  cut_reason 0 (body ++ ws ++ DASH :: DASH :: r) = body.
Proof.
  intros Hn Hl Hws Hr. rewrite cut_clean by (apply clean_intro; assumption).
  rewrite cut_reason_match by assumption. apply app_nil_r.
Qed.

(* ---------- consequences for the code list ---------- *)
(* C05: the bare directive followed by a reason names no code *)
Theorem bare_with_reason ws r : all_ws ws -> no_nl r -> codes_of_text (ws ++ DASH :: DASH :: r) = [].
Proof.
  intros Hws Hr. rewrite codes_of_text_tokens. rewrite cut_reason_match by assumption. reflexivity.
Qed.

Lemma is_sep_not_dash c : is_sep c = true -> (c =? DASH) = false.
Proof.
  unfold is_sep. intros H. destruct (N.eqb_spec c DASH) as [->|]; [|reflexivity]. vm_compute in H. discriminate.
Qed.

Lemma noddb_sep_prefix sep x : all_sep sep -> noddb x = true -> noddb (sep ++ x) = true.
Proof.
  unfold all_sep. induction sep as [|c t IH]; intros H Hx; [exact Hx|].
  cbn [forallb] in H. apply andb_true_iff in H. destruct H as [Hc Ht].
  cbn [app noddb]. rewrite (is_sep_not_dash c Hc). cbn [andb negb]. apply IH; assumption.
Qed.

Lemma noddb_app_l a b : noddb a = true -> noddb b = true -> head_dash b = false -> noddb (a ++ b) = true.
Proof.
  induction a as [|x t IH]; intros Ha Hb Hh; [exact Hb|].
  cbn [noddb] in Ha. apply andb_true_iff in Ha. destruct Ha as [H1 H2].
  cbn [app noddb]. rewrite (IH H2 Hb Hh), andb_true_r.
  destruct t as [|y t']; [cbn [app]; rewrite Hh, andb_false_r; reflexivity | exact H1].
Qed.

Lemma starts_sep_head_dash s : starts_sep s -> head_dash s = false.
Proof. destruct s as [|c t]; cbn [starts_sep head_dash]; [reflexivity|]. apply is_sep_not_dash. Qed.

(* a code that is safe w.r.t. the reason marker: no `--` inside *)
Definition dash_safe (c : str) : Prop := noddb c = true.

Lemma noddb_render items tail :
  Forall good_item items -> Forall (fun it => dash_safe (snd it)) items -> all_sep tail ->
  noddb (render items ++ tail) = true.
Proof.
  intros Hg Hd Ht. induction Hg as [|[sep code] t [Hs [_ [Hc Hne]]] Hg IH]; cbn [render app].
  - rewrite <- (app_nil_r tail). apply noddb_sep_prefix; [exact Ht | reflexivity].
  - inversion Hd as [|? ? Hd1 Hd2]; subst. cbn [fst snd] in *. rewrite <- !app_assoc.
    apply noddb_sep_prefix; [exact Hs|]. apply noddb_app_l; [exact Hd1 | apply IH; exact Hd2|].
    apply starts_sep_head_dash. apply render_starts; assumption.
Qed.

(* C06: codes separated in any way, WITHOUT a reason *)
Theorem codes_any_separators items tail :
  Forall good_item items -> Forall (fun it => dash_safe (snd it)) items -> all_sep tail ->
  codes_of_text (render items ++ tail) = dedup (map snd items).
Proof.
  intros Hg Hd Ht. rewrite codes_of_text_tokens.
  rewrite cut_reason_no_reason by (apply noddb_render; assumption).
  rewrite tokens_render by assumption. reflexivity.
Qed.

(* C06: ... and WITH an appended reason: same codes *)
Theorem codes_with_reason items ws r :
  Forall good_item items -> Forall (fun it => dash_safe (snd it)) items ->
  last_ok (render items) (ws ++ DASH :: DASH :: r) = true ->
  all_ws ws -> no_nl r ->
  codes_of_text (render items ++ ws ++ DASH :: DASH :: r) = dedup (map snd items).
Proof.
  intros Hg Hd Hl Hws Hr. rewrite codes_of_text_tokens.
  rewrite cut_reason_spec; try assumption.
  - rewrite <- (app_nil_r (render items)). rewrite tokens_render; [reflexivity | exact Hg | reflexivity].
  - rewrite <- (app_nil_r (render items)). apply noddb_render; [exact Hg | exact Hd | reflexivity].
Qed.

(* non-vacuity: ` no-debugger,  eqeqeq -- why not` *)
Example reason_example :
  codes_of_text [32;110;111;45;100;101;98;117;103;103;101;114;44;32;32;101;113;101;113;101;113;32;45;45;32;119;104;121]
  = [[110;111;45;100;101;98;117;103;103;101;114]; [101;113;101;113;101;113]].
Proof. vm_compute. reflexivity. Qed.

(* ---------- at the level of the comment parser ---------- *)
Lemma dropws_no_ws_head s : (match s with c :: _ => is_ws c = false | [] => True end) -> dropws s = s.
Proof. destruct s as [|c t]; [reflexivity|]. intros H. cbn [dropws]. rewrite H. reflexivity. Qed.

Lemma take_word_app w x :
  forallb (fun c => negb (is_ws c)) w = true -> (match x with c :: _ => is_ws c = true | [] => True end) ->
  take_word (w ++ x) = w.
Proof.
  induction w as [|a t IH]; intros Hw Hx; cbn [app take_word].
  - destruct x as [|c x']; [reflexivity|]. cbn [take_word]. rewrite Hx. reflexivity.
  - cbn [forallb] in Hw. apply andb_true_iff in Hw. destruct Hw as [Ha Ht].
    apply negb_true_iff in Ha. rewrite Ha. f_equal. apply IH; assumption.
Qed.

Theorem parse_directive_text w c rest :
  c_line c = true -> trim (c_text c) = w ++ rest -> w <> [] ->
  forallb (fun c => negb (is_ws c)) w = true ->
  (match rest with x :: _ => is_ws x = true | [] => True end) ->
  parse_dir w c = Some (mkDir (c_start c) (c_end c) (codes_of_text rest)).
Proof.
  intros Hl Ht Hne Hw Hr. unfold parse_dir, parse_comment. rewrite Hl. cbn [negb]. rewrite Ht.
  assert (Hfw : first_word (w ++ rest) = Some w).
  { unfold first_word. rewrite dropws_no_ws_head.
    - rewrite take_word_app by assumption. destruct w; [contradiction | reflexivity].
    - destruct w as [|a t]; [contradiction|]. cbn [forallb] in Hw. apply andb_true_iff in Hw. destruct Hw as [Ha _].
      apply negb_true_iff in Ha. cbn [app]. exact Ha. }
  rewrite Hfw, str_eqb_refl, strip_prefix_app. reflexivity.
Qed.

(* C05: `// <word> -- reason` is the bare directive *)
Theorem parse_bare_with_reason w c ws r :
  c_line c = true -> trim (c_text c) = w ++ ws ++ DASH :: DASH :: r -> w <> [] ->
  forallb (fun c => negb (is_ws c)) w = true -> ws <> [] -> all_ws ws -> no_nl r ->
  exists d, parse_dir w c = Some d /\ dir_codes d = [].
Proof.
  intros Hl Ht Hne Hw Hwsne Hws Hr. eexists. split.
  - apply parse_directive_text; try eassumption.
    destruct ws as [|x t]; [contradiction|]. unfold all_ws in Hws. cbn [forallb] in Hws. apply andb_true_iff in Hws. cbn [app]. tauto.
  - cbn [dir_codes]. apply bare_with_reason; assumption.
Qed.
