(* C04 (mechanism): the linter runs the rules one after the other on one mutable Context.  If every
   rule only APPENDS diagnostics that are a function of the (immutable) parsed file and leaves the
   traverse flag clear -- which is what the regenerated code table (no rule reads ctx.diagnostics(),
   every site passes the rule's own CODE) and C08's flag invariant establish about the code -- then
   each rule's contribution is independent of which other rules run, and of their order. *)
From V Require Import Common.Sort Pipeline.Directive Pipeline.Pipeline Pipeline.Codes.
From Coq Require Import Permutation.
Open Scope N_scope.

Section Rules.
  Variable F : Type.                                   (* the parsed file *)
  Record rctx := mkRctx { rc_diags : list diag; rc_flag : bool }.
  Variable run_rule : str -> F -> rctx -> rctx.         (* LintRule::lint_program_with_ast_view *)
  Variable own : str -> F -> list diag.                 (* the rule's own findings *)
  Hypothesis rule_local : forall r f c, rc_flag c = false ->
    run_rule r f c = mkRctx (rc_diags c ++ own r f) false.
  Hypothesis own_code : forall r f d, In d (own r f) -> d_code d = r.

  Definition run_all (rules : list str) (f : F) : rctx :=
    fold_left (fun c r => run_rule r f c) rules (mkRctx [] false).

  Lemma run_from rules f c : rc_flag c = false ->
    fold_left (fun c r => run_rule r f c) rules c = mkRctx (rc_diags c ++ flat_map (fun r => own r f) rules) false.
  Proof.
    revert c; induction rules as [|r t IH]; intros c Hc; cbn [fold_left flat_map].
    - rewrite app_nil_r. destruct c; cbn in *; subst; reflexivity.
    - rewrite rule_local by exact Hc. rewrite IH by reflexivity. cbn [rc_diags]. rewrite app_assoc. reflexivity.
  Qed.

  Theorem run_all_spec rules f :
    run_all rules f = mkRctx (flat_map (fun r => own r f) rules) false.
  Proof. unfold run_all. rewrite run_from by reflexivity. reflexivity. Qed.

  (* the diagnostics of rule r in a run of any rule set that contains r once are exactly r's own *)
  Theorem contribution_independent rules f r :
    NoDup rules -> In r rules ->
    filter (has_code r) (rc_diags (run_all rules f)) = filter (has_code r) (own r f).
  Proof.
    intros Hnd Hin. rewrite run_all_spec. cbn [rc_diags].
    induction rules as [|a t IH]; [contradiction|].
    cbn [flat_map]. rewrite filter_app. inversion Hnd as [|? ? Hnin Hnd']; subst.
    assert (Hnil : forall l, ~ In r l -> filter (has_code r) (flat_map (fun r0 => own r0 f) l) = []).
    { intros l Hl. apply filter_none. intros d Hd. apply in_flat_map in Hd. destruct Hd as [r0 [Hr0 Hd]].
      unfold has_code. apply str_eqb_neq. rewrite (own_code r0 f d Hd). intros E. subst. contradiction. }
    destruct Hin as [<-|Hin].
    - rewrite (Hnil t Hnin), app_nil_r. reflexivity.
    - assert (a <> r) by (intros E; subst; contradiction).
      assert (filter (has_code r) (own a f) = []) as ->.
      { apply filter_none. intros d Hd. unfold has_code. apply str_eqb_neq. rewrite (own_code a f d Hd). assumption. }
      cbn [app]. apply IH; assumption.
  Qed.

  (* hence equal whether the rule runs alone or with any others, in any order *)
  Corollary alone_or_together rules f r :
    NoDup rules -> In r rules ->
    filter (has_code r) (rc_diags (run_all rules f)) = filter (has_code r) (rc_diags (run_all [r] f)).
  Proof.
    intros Hnd Hin. rewrite (contribution_independent rules f r Hnd Hin).
    rewrite (contribution_independent [r] f r); [reflexivity | constructor; [intros [] | constructor] | left; reflexivity].
  Qed.
End Rules.
