(* Generated-table obligation for C02 (coq/Gen/SharedState.v is rewritten from /repo/src on every run):
   the library's non-test code has no `static mut`, no thread-local, no static with interior
   mutability, no interior mutability in the Linter structs, and every rule is a unit struct.  The only
   statics are constant tables and `Lazy` values initialised once from constants.  This is what makes
   "a lint call reads only its own arguments and the immutable Linter" (the read-only-shared-state
   hypothesis of C02_history_free / C02_schedule_free) a fact about the code. *)
From V Require Import Common.Str Gen.SharedState.
From Coq Require Import String.
Open Scope N_scope.

Definition allowed_kinds : list str := [s2l "immutable"%string; s2l "lazy-immutable"%string].

Theorem no_shared_mutable_state :
  forallb (fun it => mem (snd it) allowed_kinds) shared_items = true.
Proof. vm_compute. reflexivity. Qed.
