(* C09 (pipeline part): prepending k bytes that contain j line breaks (and only comments that
   are not directives) translates every output range by k and changes nothing else. *)
From V Require Import Common.Sort Common.LineIndex Pipeline.Directive Pipeline.Pipeline
  Pipeline.DirectiveProofs Pipeline.PipelineProofs Pipeline.PipelineTheorems Pipeline.WellFormed
  Pipeline.OrderIndep.
From Coq Require Import Permutation Sorted.
Open Scope N_scope.

Definition shift_range (k : N) (r : option (N * N)) : option (N * N) :=
  match r with Some (s, e) => Some (k + s, k + e) | None => None end.
Definition shift_diag (k : N) (d : diag) : diag := mkDiag (d_code d) (shift_range k (d_range d)) (d_msg d).
Definition shift_comment (k : N) (c : comment) : comment := mkComment (c_line c) (c_text c) (k + c_start c) (k + c_end c).
Definition shift_dir (k : N) (d : directive) : directive := mkDir (k + dir_start d) (k + dir_end d) (dir_codes d).
Definition shift_ext (k : N) (e : ext_result) : ext_result :=
  match e with ExtResult ds cs => ExtResult (map (shift_diag k) ds) cs | x => x end.

(* the file after the insertion: `pre_c` are the comments of the inserted prefix, `pre_nls` its line breaks *)
Definition shift_file (k : N) (pre_c : list comment) (pre_nls : list N) (f : file) : file :=
  mkFile (pre_c ++ map (shift_comment k) (f_leading f))
         (pre_c ++ map (shift_comment k) (f_comments f))
         (pre_nls ++ map (N.add k) (f_nls f)).

Lemma parse_dir_shift w k c : parse_dir w (shift_comment k c) = option_map (shift_dir k) (parse_dir w c).
Proof.
  unfold parse_dir, parse_comment, shift_comment. cbn [c_line c_text c_start c_end].
  destruct (negb (c_line c)); [reflexivity|].
  destruct (first_word (trim (c_text c))) as [fw|]; [|reflexivity].
  destruct (str_eqb fw w); [|reflexivity].
  destruct (strip_prefix w (trim (c_text c))); reflexivity.
Qed.

Lemma find_file_dir_shift w k pre l :
  Forall (fun c => parse_dir w c = None) pre ->
  find_file_dir w (pre ++ map (shift_comment k) l) = option_map (shift_dir k) (find_file_dir w l).
Proof.
  intros Hpre. induction Hpre as [|c t Hc _ IH]; cbn [app find_file_dir].
  - induction l as [|c t IH]; cbn [map find_file_dir]; [reflexivity|].
    rewrite parse_dir_shift. destruct (parse_dir w c); cbn [option_map]; [reflexivity | exact IH].
  - rewrite Hc. exact IH.
Qed.

(* ---------- the line-directive map ---------- *)
Definition shift_entry (j k : N) (p : N * directive) : N * directive := (j + fst p, shift_dir k (snd p)).

Lemma remove_key_shift j k key m :
  remove_key (j + key) (map (shift_entry j k) m) = map (shift_entry j k) (remove_key key m).
Proof.
  induction m as [|[k0 d] t IH]; cbn [map remove_key shift_entry fst snd]; [reflexivity|].
  destruct (N.eqb_spec (j + k0) (j + key)) as [E|NE], (N.eqb_spec k0 key) as [E'|NE']; try lia.
  - exact IH.
  - cbn [map shift_entry fst snd]. rewrite IH. reflexivity.
Qed.

Lemma map_insert_shift j k key d m :
  map_insert (j + key) (shift_dir k d) (map (shift_entry j k) m) = map (shift_entry j k) (map_insert key d m).
Proof. unfold map_insert. rewrite remove_key_shift, map_app. reflexivity. Qed.

Lemma line_dirs_aux_shift w j k nls nls' cs m :
  (forall s, line_index nls' (k + s) = j + line_index nls s) ->
  line_dirs_aux w nls' (map (shift_comment k) cs) (map (shift_entry j k) m)
  = map (shift_entry j k) (line_dirs_aux w nls cs m).
Proof.
  intros Hli. revert m; induction cs as [|c t IH]; intros m; cbn [map line_dirs_aux]; [reflexivity|].
  rewrite parse_dir_shift. destruct (parse_dir w c) as [d|]; cbn [option_map]; [|apply IH].
  cbn [shift_dir dir_start]. rewrite Hli. rewrite map_insert_shift. apply IH.
Qed.

Lemma line_dirs_shift w j k pre_c nls nls' cs :
  Forall (fun c => parse_dir w c = None) pre_c ->
  (forall s, line_index nls' (k + s) = j + line_index nls s) ->
  line_dirs w nls' (pre_c ++ map (shift_comment k) cs) = map (shift_entry j k) (line_dirs w nls cs).
Proof.
  intros Hpre Hli. unfold line_dirs.
  assert (E : forall m, line_dirs_aux w nls' (pre_c ++ map (shift_comment k) cs) m
                      = line_dirs_aux w nls' (map (shift_comment k) cs) m).
  { induction Hpre as [|c t Hc _ IH]; intros m; cbn [app line_dirs_aux]; [reflexivity|]. rewrite Hc. apply IH. }
  rewrite E. apply (line_dirs_aux_shift w j k nls nls' cs []). exact Hli.
Qed.

Lemma lookup_shift j k key m :
  lookup (j + key) (map (shift_entry j k) m) = option_map (shift_dir k) (lookup key m).
Proof.
  induction m as [|[k0 d] t IH]; cbn [map lookup shift_entry fst snd]; [reflexivity|].
  destruct (N.eqb_spec (j + k0) (j + key)), (N.eqb_spec k0 key); try lia; [reflexivity | exact IH].
Qed.

Lemma lookup_below j k key m : key < j -> lookup key (map (shift_entry j k) m) = None.
Proof.
  intros H. induction m as [|[k0 d] t IH]; cbn [map lookup shift_entry fst snd]; [reflexivity|].
  destruct (N.eqb_spec (j + k0) key); [lia | exact IH].
Qed.

(* ---------- suppression ---------- *)
Definition shift_key (j : N) (k : dkey) : dkey := match k with KFile => KFile | KLine l => KLine (j + l) end.

Section Suppress.
  Variables (j k : N) (fd : option directive) (ld : list (N * directive)) (nls nls' : list N).
  Hypothesis Hli : forall s, line_index nls' (k + s) = j + line_index nls s.

  Lemma file_has_shift c : file_has (option_map (shift_dir k) fd) c = file_has fd c.
  Proof. destruct fd; reflexivity. Qed.

  Lemma suppressor_shift d :
    suppressor (option_map (shift_dir k) fd) (map (shift_entry j k) ld) nls' (shift_diag k d)
    = option_map (shift_key j) (suppressor fd ld nls d).
  Proof.
    unfold suppressor. cbn [shift_diag d_code d_range]. rewrite file_has_shift.
    destruct (file_has fd (d_code d)); [reflexivity|].
    destruct (d_range d) as [[s e]|]; cbn [shift_range]; [|reflexivity].
    rewrite Hli. unfold line_has.
    destruct (N.ltb_spec 0 (line_index nls s)) as [Hpos|Hz].
    - assert (0 <? j + line_index nls s = true) as -> by (apply N.ltb_lt; lia). cbn [andb].
      replace (j + line_index nls s - 1) with (j + (line_index nls s - 1)) by lia.
      rewrite lookup_shift. destruct (lookup (line_index nls s - 1) ld) as [dir|]; cbn [option_map]; [|reflexivity].
      cbn [shift_dir dir_codes]. destruct (mem (d_code d) (dir_codes dir)); reflexivity.
    - assert (line_index nls s = 0) as -> by lia. rewrite N.add_0_r. cbn [andb].
      destruct (N.ltb_spec 0 j) as [Hj|Hj]; cbn [andb]; [|reflexivity].
      rewrite lookup_below by lia. reflexivity.
  Qed.

  Lemma check_usage_shift raw :
    check_usage (option_map (shift_dir k) fd) (map (shift_entry j k) ld) nls' (map (shift_diag k) raw)
    = (map (shift_diag k) (fst (check_usage fd ld nls raw)),
       map (fun p => (shift_key j (fst p), snd p)) (snd (check_usage fd ld nls raw))).
  Proof.
    induction raw as [|d r IH]; cbn [map check_usage]; [reflexivity|].
    rewrite IH. destruct (check_usage fd ld nls r) as [f u]. cbn [fst snd].
    rewrite suppressor_shift. destruct (suppressor fd ld nls d); cbn [option_map fst snd map]; reflexivity.
  Qed.
End Suppress.

Lemma shift_key_inj j a b : shift_key j a = shift_key j b -> a = b.
Proof. destruct a, b; cbn; try congruence. intros H. inversion H. f_equal. lia. Qed.

Lemma is_used_shift j u kx c :
  is_used (map (fun p => (shift_key j (fst p), snd p)) u) (shift_key j kx) c = is_used u kx c.
Proof.
  unfold is_used. induction u as [|[k0 c0] t IH]; cbn [map existsb fst snd]; [reflexivity|].
  rewrite IH. f_equal. f_equal.
  destruct (dkey_eqb k0 kx) eqn:E.
  - apply dkey_eqb_eq in E. subst. apply dkey_eqb_eq. reflexivity.
  - destruct (dkey_eqb (shift_key j k0) (shift_key j kx)) eqn:E'; [|reflexivity].
    apply dkey_eqb_eq in E'. apply shift_key_inj in E'. subst. assert (dkey_eqb kx kx = true) by (apply dkey_eqb_eq; reflexivity). congruence.
Qed.

(* ---------- sorting commutes with an order-preserving map ---------- *)
Lemma insert_map_mono {X} (leb : X -> X -> bool) (g : X -> X) x l :
  (forall a b, leb (g a) (g b) = leb a b) -> insert leb (g x) (map g l) = map g (insert leb x l).
Proof.
  intros H. induction l as [|y t IH]; cbn [map insert]; [reflexivity|].
  rewrite H. destruct (leb x y); cbn [map]; [reflexivity | rewrite IH; reflexivity].
Qed.

Lemma ssort_map_mono {X} (leb : X -> X -> bool) (g : X -> X) l :
  (forall a b, leb (g a) (g b) = leb a b) -> ssort leb (map g l) = map g (ssort leb l).
Proof.
  intros H. induction l as [|x t IH]; cbn [map ssort]; [reflexivity|].
  rewrite IH. apply insert_map_mono. exact H.
Qed.

Lemma diag_leb_shift k a b : diag_leb (shift_diag k a) (shift_diag k b) = diag_leb a b.
Proof.
  unfold diag_leb, start_of, shift_diag. cbn [d_range d_code].
  destruct (d_range a) as [[s1 e1]|], (d_range b) as [[s2 e2]|]; cbn [shift_range option_map fst opt_cmp]; try reflexivity.
  destruct (N.compare_spec s1 s2), (N.compare_spec (k + s1) (k + s2)); try lia; reflexivity.
Qed.

(* ---------- accounting generators ---------- *)
Lemma diag_at_shift k d code msg : diag_at (shift_dir k d) code msg = shift_diag k (diag_at d code msg).
Proof. reflexivity. Qed.

Lemma unknown_of_dir_shift orc k all d :
  unknown_of_dir orc all (shift_dir k d) = map (shift_diag k) (unknown_of_dir orc all d).
Proof. unfold unknown_of_dir, emit_order. cbn [shift_dir dir_codes]. rewrite map_map. reflexivity. Qed.

Lemma unknown_raw_shift orc j k all (ds : list (dkey * directive)) :
  unknown_raw orc all (map (fun p => (shift_key j (fst p), shift_dir k (snd p))) ds)
  = map (shift_diag k) (unknown_raw orc all ds).
Proof.
  unfold unknown_raw. induction ds as [|p t IH]; cbn [map flat_map fst snd]; [reflexivity|].
  rewrite map_app, IH, unknown_of_dir_shift. reflexivity.
Qed.

Lemma unused_shift orc j k en u (ds : list (dkey * directive)) :
  flat_map (unused_of_dir orc en (map (fun p => (shift_key j (fst p), snd p)) u))
           (map (fun p => (shift_key j (fst p), shift_dir k (snd p))) ds)
  = map (shift_diag k) (flat_map (unused_of_dir orc en u) ds).
Proof.
  induction ds as [|[kx d] t IH]; cbn [map flat_map fst snd]; [reflexivity|].
  rewrite map_app, IH. f_equal. unfold unused_of_dir, emit_order. cbn [fst snd shift_dir dir_codes].
  rewrite map_map. cbn [diag_at]. f_equal.
  apply filter_ext. intros c. rewrite is_used_shift. reflexivity.
Qed.

(* ---------- the theorem, for the identity oracle ---------- *)
Section Main.
  Variables (o : options) (f : file) (k : N) (pre_c : list comment) (pre_nls : list N).
  Hypothesis Hpre_file : Forall (fun c => parse_dir (file_word o) c = None) pre_c.
  Hypothesis Hpre_line : Forall (fun c => parse_dir (line_word o) c = None) pre_c.
  Hypothesis Hpre_nls : Forall (fun x => x < k) pre_nls.
  Let j := N.of_nat (length pre_nls).
  Let f' := shift_file k pre_c pre_nls f.

  Lemma li_shift s : line_index (f_nls f') (k + s) = j + line_index (f_nls f) s.
  Proof. unfold f', shift_file. cbn [f_nls]. apply line_index_prefix. exact Hpre_nls. Qed.

  Theorem collect_shift_id fd raw ec :
    collect o id_oracle f' (option_map (shift_dir k) fd) (map (shift_diag k) raw) ec
    = map (shift_diag k) (collect o id_oracle f fd raw ec).
  Proof.
    unfold collect.
    assert (Eld : line_dirs (line_word o) (f_nls f') (f_comments f')
                  = map (shift_entry j k) (line_dirs (line_word o) (f_nls f) (f_comments f))).
    { unfold f' at 2, shift_file. cbn [f_comments]. apply line_dirs_shift; first [exact Hpre_line | exact li_shift]. }
    rewrite Eld. rewrite (check_usage_shift j k fd _ (f_nls f) (f_nls f') li_shift).
    set (ld := line_dirs (line_word o) (f_nls f) (f_comments f)).
    destruct (check_usage fd ld (f_nls f) raw) as [filtered used0] eqn:Ecu. cbn [fst snd].
    set (all := o_all_codes o ++ ec). set (en := ec ++ o_rules o).
    (* directives *)
    assert (Edirs : all_dirs id_oracle (option_map (shift_dir k) fd) (map (shift_entry j k) ld)
                    = map (fun p => (shift_key j (fst p), shift_dir k (snd p))) (all_dirs id_oracle fd ld)).
    { unfold all_dirs. cbn [perm_dirs id_oracle]. rewrite map_app, !map_map. apply f_equal2; [destruct fd; reflexivity|].
      apply map_ext. intros [l d]. reflexivity. }
    rewrite Edirs. set (dirs := all_dirs id_oracle fd ld).
    rewrite unknown_raw_shift. rewrite file_has_shift.
    assert (Ene : nonempty_diags (map (shift_diag k) (unknown_raw id_oracle all dirs)) = nonempty_diags (unknown_raw id_oracle all dirs))
      by (destruct (unknown_raw id_oracle all dirs); reflexivity).
    rewrite Ene. rewrite !file_has_shift.
    set (used1 := if nonempty_diags (unknown_raw id_oracle all dirs) && file_has fd BAN_UNKNOWN then (KFile, BAN_UNKNOWN) :: used0 else used0).
    assert (Eused : (if nonempty_diags (unknown_raw id_oracle all dirs) && file_has fd BAN_UNKNOWN
                     then (KFile, BAN_UNKNOWN) :: map (fun p => (shift_key j (fst p), snd p)) used0
                     else map (fun p => (shift_key j (fst p), snd p)) used0)
                    = map (fun p => (shift_key j (fst p), snd p)) used1).
    { unfold used1. destruct (nonempty_diags _ && file_has fd BAN_UNKNOWN); reflexivity. }
    rewrite Eused.
    rewrite unused_shift.
    rewrite <- ssort_map_mono by (intros a b; apply diag_leb_shift).
    f_equal. rewrite !map_app. f_equal. f_equal.
    - destruct (check_unknown o && negb (file_has fd BAN_UNKNOWN)); reflexivity.
    - destruct (file_has fd BAN_UNUSED); reflexivity.
  Qed.

  Theorem lint_inner_shift_id rd ext :
    lint_inner o id_oracle f' (map (shift_diag k) rd) (shift_ext k ext)
    = map (shift_diag k) (lint_inner o id_oracle f rd ext).
  Proof.
    unfold lint_inner.
    assert (Efd : find_file_dir (file_word o) (f_leading f')
                  = option_map (shift_dir k) (find_file_dir (file_word o) (f_leading f))).
    { unfold f', shift_file. cbn [f_leading]. apply find_file_dir_shift. exact Hpre_file. }
    rewrite Efd.
    assert (Eia : ignore_all (option_map (shift_dir k) (find_file_dir (file_word o) (f_leading f)))
                  = ignore_all (find_file_dir (file_word o) (f_leading f)))
      by (destruct (find_file_dir (file_word o) (f_leading f)); reflexivity).
    rewrite Eia. destruct (ignore_all (find_file_dir (file_word o) (f_leading f))); [reflexivity|].
    destruct ext as [| |ed ec]; cbn [shift_ext]; try apply collect_shift_id.
    rewrite <- map_app. apply collect_shift_id.
  Qed.
End Main.

(* ... and hence for arbitrary hash orders on both sides *)
Theorem pipeline_shift_equivariant o orc orc' f k pre_c pre_nls rd ext :
  oracle_ok orc -> oracle_ok orc' ->
  wf_file f -> wf_file (shift_file k pre_c pre_nls f) -> file_word o <> line_word o ->
  Forall (fun c => parse_dir (file_word o) c = None) pre_c ->
  Forall (fun c => parse_dir (line_word o) c = None) pre_c ->
  Forall (fun x => x < k) pre_nls ->
  lint_inner o orc' (shift_file k pre_c pre_nls f) (map (shift_diag k) rd) (shift_ext k ext)
  = map (shift_diag k) (lint_inner o orc f rd ext).
Proof.
  intros Hok Hok' Hwf Hwf' Hw H1 H2 H3.
  rewrite (pipeline_order_independent o orc' id_oracle) by (assumption || apply id_oracle_ok).
  rewrite (pipeline_order_independent o orc id_oracle f) by (assumption || apply id_oracle_ok).
  apply lint_inner_shift_id; assumption.
Qed.

Lemma NoDup_app_intro {X} (l1 l2 : list X) :
  NoDup l1 -> NoDup l2 -> (forall x, In x l1 -> In x l2 -> False) -> NoDup (l1 ++ l2).
Proof.
  intros H1 H2 Hd. induction H1 as [|a t Hnin _ IH]; cbn [app]; [exact H2|].
  constructor.
  - rewrite in_app_iff. intros [H|H]; [contradiction | apply (Hd a); [left; reflexivity | exact H]].
  - apply IH. intros x Hx. apply Hd. right. exact Hx.
Qed.

(* the insertion preserves well-formedness when the prefix comments start before k at distinct offsets *)
Lemma shift_file_wf k pre_c pre_nls f :
  wf_file f -> NoDup (map c_start pre_c) -> Forall (fun c => c_start c < k) pre_c ->
  wf_file (shift_file k pre_c pre_nls f).
Proof.
  intros [Hnd Hincl] Hpre Hlt. unfold wf_file, shift_file. cbn [f_comments f_leading]. split.
  - rewrite map_app, map_map. cbn [shift_comment c_start].
    apply NoDup_app_intro; [exact Hpre | |].
    + clear Hincl. induction (f_comments f) as [|c t IH]; cbn [map]; [constructor|].
      inversion Hnd as [|? ? Hnin Hnd']; subst. constructor; [|apply IH; exact Hnd'].
      intros Hin. apply Hnin. apply in_map_iff in Hin. destruct Hin as [x [E Hx]]. apply in_map_iff. exists x. split; [lia | exact Hx].
    + intros x Hx1 Hx2. apply in_map_iff in Hx1, Hx2. destruct Hx1 as [c1 [E1 H1]], Hx2 as [c2 [E2 H2]].
      rewrite Forall_forall in Hlt. specialize (Hlt c1 H1). lia.
  - intros c Hc. apply in_app_or in Hc. apply in_or_app. destruct Hc as [Hc|Hc]; [left; exact Hc|].
    right. apply in_map_iff in Hc. destruct Hc as [x [<- Hx]]. apply in_map. apply Hincl. exact Hx.
Qed.
