(* C06: the way codes are separated (spaces, tabs, any White_Space, commas, mixtures) or an
   appended `-- reason` does not change which codes are meant. *)
From V Require Import Common.Sort Pipeline.Directive Pipeline.DirectiveProofs.
Open Scope N_scope.

Definition is_sep (c : N) : bool := is_ws c || (c =? COMMA).

(* the codes, declaratively: maximal runs of non-separator characters *)
Fixpoint tokens_aux (cur : str) (s : str) : list str :=
  match s with
  | [] => if nonempty cur then [rev cur] else []
  | c :: t => if is_sep c then (if nonempty cur then rev cur :: tokens_aux [] t else tokens_aux [] t)
              else tokens_aux (c :: cur) t
  end.
Definition tokens (s : str) : list str := tokens_aux [] s.

Lemma nonempty_rev (s : str) : nonempty (rev s) = nonempty s.
Proof. destruct s as [|a t]; [reflexivity|]. cbn [rev]. destruct (rev t); reflexivity. Qed.

(* the two regex replacements + split + filter compute exactly the tokens *)
Lemma split_norm_tokens s : forall cur b,
  (b = true -> cur = []) ->
  filter nonempty (split_comma_aux cur (norm_seps b s)) = tokens_aux cur s.
Proof.
  induction s as [|c t IH]; intros cur b Hb; cbn [norm_seps split_comma_aux tokens_aux filter].
  - rewrite nonempty_rev. destruct (nonempty cur); reflexivity.
  - unfold is_sep. destruct (is_ws c) eqn:Ew; cbn [orb].
    + destruct b.
      * rewrite (Hb eq_refl). cbn [nonempty]. apply IH. auto.
      * cbn [split_comma_aux]. unfold COMMA at 1. rewrite N.eqb_refl. cbn [filter].
        rewrite nonempty_rev. rewrite (IH [] false) by discriminate. destruct (nonempty cur); reflexivity.
    + destruct (N.eqb_spec c COMMA) as [->|Hne].
      * cbn [split_comma_aux]. rewrite N.eqb_refl. cbn [filter].
        rewrite nonempty_rev. rewrite (IH [] true) by reflexivity. destruct (nonempty cur); reflexivity.
      * cbn [split_comma_aux]. destruct (N.eqb_spec c COMMA); [contradiction|].
        apply IH. discriminate.
Qed.

Lemma codes_pipeline_tokens s :
  filter nonempty (split_comma (norm_seps false s)) = tokens s.
Proof. apply split_norm_tokens. discriminate. Qed.

(* tokens contain no white space, so the final `.trim()` is the identity on them *)
Lemma tokens_aux_no_ws s : forall cur,
  forallb (fun c => negb (is_ws c)) cur = true ->
  Forall (fun t => forallb (fun c => negb (is_ws c)) t = true) (tokens_aux cur s).
Proof.
  induction s as [|c t IH]; intros cur Hc; cbn [tokens_aux].
  - destruct (nonempty cur); constructor; [|constructor].
    rewrite forallb_forall in *. intros x Hx. apply Hc. apply in_rev. exact Hx.
  - unfold is_sep. destruct (is_ws c) eqn:Ew; cbn [orb].
    + destruct (nonempty cur); [constructor|]; try (apply IH; reflexivity).
      rewrite forallb_forall in *. intros x Hx. apply Hc. apply in_rev. exact Hx.
    + destruct (c =? COMMA).
      * destruct (nonempty cur); [constructor|]; try (apply IH; reflexivity).
        rewrite forallb_forall in *. intros x Hx. apply Hc. apply in_rev. exact Hx.
      * apply IH. cbn [forallb]. rewrite Ew. exact Hc.
Qed.

Lemma dropws_no_ws s : forallb (fun c => negb (is_ws c)) s = true -> dropws s = s.
Proof. destruct s as [|c t]; [reflexivity|]. cbn [forallb dropws]. destruct (is_ws c); [discriminate | reflexivity]. Qed.

Lemma trim_no_ws s : forallb (fun c => negb (is_ws c)) s = true -> trim s = s.
Proof.
  intros H. unfold trim, trim_start, trim_end. rewrite (dropws_no_ws s H).
  rewrite dropws_no_ws; [apply rev_involutive|].
  rewrite forallb_forall in *. intros x Hx. apply H. apply in_rev. exact Hx.
Qed.

Lemma map_trim_tokens s : map trim (tokens s) = tokens s.
Proof.
  pose proof (tokens_aux_no_ws s [] eq_refl) as H. fold (tokens s) in H.
  induction H as [|t l Ht _ IH]; cbn [map]; [reflexivity|]. rewrite trim_no_ws by exact Ht. rewrite IH. reflexivity.
Qed.

(* the codes of a directive are the distinct tokens of the text before the reason *)
Theorem codes_of_text_tokens rest : codes_of_text rest = dedup (tokens (cut_reason 0 rest)).
Proof. unfold codes_of_text. rewrite codes_pipeline_tokens, map_trim_tokens. reflexivity. Qed.

(* ---------- separators are irrelevant ---------- *)
Definition all_sep (s : str) : Prop := forallb is_sep s = true.
Definition no_sep (s : str) : Prop := forallb (fun c => negb (is_sep c)) s = true.

Lemma tokens_skip_sep sep s : all_sep sep -> tokens (sep ++ s) = tokens s.
Proof.
  unfold all_sep, tokens. induction sep as [|c t IH]; intros H; [reflexivity|].
  cbn [forallb] in H. apply andb_true_iff in H. destruct H as [Hc Ht].
  cbn [app tokens_aux]. rewrite Hc. cbn [nonempty]. apply IH. exact Ht.
Qed.

Lemma tokens_aux_code code s cur : no_sep code ->
  tokens_aux cur (code ++ s) = tokens_aux (rev code ++ cur) s.
Proof.
  unfold no_sep. revert cur; induction code as [|c t IH]; intros cur H; [reflexivity|].
  cbn [forallb] in H. apply andb_true_iff in H. destruct H as [Hc Ht].
  cbn [app tokens_aux rev]. destruct (is_sep c); [discriminate|].
  rewrite IH by exact Ht. rewrite <- app_assoc. reflexivity.
Qed.

(* s is empty or starts with a separator *)
Definition starts_sep (s : str) : Prop := match s with [] => True | c :: _ => is_sep c = true end.

Lemma tokens_aux_flush cur s : starts_sep s -> nonempty cur = true -> tokens_aux cur s = rev cur :: tokens s.
Proof.
  unfold tokens. destruct s as [|c t]; cbn [starts_sep tokens_aux]; intros Hs Hc.
  - rewrite Hc. reflexivity.
  - rewrite Hs, Hc. cbn [nonempty]. reflexivity.
Qed.

Lemma tokens_item sep code rest :
  all_sep sep -> no_sep code -> code <> [] -> starts_sep rest ->
  tokens (sep ++ code ++ rest) = code :: tokens rest.
Proof.
  intros Hs Hc Hne Hr. rewrite tokens_skip_sep by exact Hs. unfold tokens at 1.
  rewrite tokens_aux_code by exact Hc. rewrite app_nil_r.
  rewrite tokens_aux_flush; [rewrite rev_involutive; reflexivity | exact Hr|].
  rewrite nonempty_rev. destruct code; [contradiction | reflexivity].
Qed.

(* a rendered code list: sep0 c1 sep1 c2 ... cn, every separator non-empty *)
Fixpoint render (items : list (str * str)) : str :=
  match items with [] => [] | (sep, code) :: t => sep ++ code ++ render t end.

Definition good_item (it : str * str) : Prop :=
  all_sep (fst it) /\ fst it <> [] /\ no_sep (snd it) /\ snd it <> [].

Lemma all_sep_starts s : all_sep s -> starts_sep s.
Proof. unfold all_sep. destruct s as [|c t]; cbn [forallb starts_sep]; [auto|]. intros H. apply andb_true_iff in H. tauto. Qed.

Lemma render_starts items tail : Forall good_item items -> all_sep tail -> starts_sep (render items ++ tail).
Proof.
  intros H Ht. destruct H as [|[sep code] t [Hs [Hne _]] _]; cbn [render app].
  - apply all_sep_starts. exact Ht.
  - cbn [fst] in *. destruct sep as [|c sep']; [contradiction|]. cbn [app starts_sep].
    unfold all_sep in Hs. cbn [forallb] in Hs. apply andb_true_iff in Hs. tauto.
Qed.

Lemma tokens_all_sep s : all_sep s -> tokens s = [].
Proof. intros H. rewrite <- (app_nil_r s). rewrite tokens_skip_sep by exact H. reflexivity. Qed.

(* whatever the (non-empty) separators are, the tokens are the codes, in order *)
Theorem tokens_render items tail :
  Forall good_item items -> all_sep tail -> tokens (render items ++ tail) = map snd items.
Proof.
  intros Hall Htail. induction Hall as [|[sep code] t Hg Hall IH]; cbn [render map snd app].
  - apply tokens_all_sep. exact Htail.
  - destruct Hg as [Hs [_ [Hc Hcne]]]. cbn [fst snd] in *. rewrite <- !app_assoc.
    rewrite tokens_item; try assumption; [rewrite IH; reflexivity|].
    apply render_starts; assumption.
Qed.
