(* Well-formedness of files/configurations and what it gives: directives sit on
   pairwise different comments, their code lists have no duplicates. *)
From V Require Import Common.Sort Pipeline.Directive Pipeline.Pipeline
  Pipeline.DirectiveProofs Pipeline.PipelineProofs Pipeline.PipelineTheorems.
From Coq Require Import Permutation Sorted.
Open Scope N_scope.

(* comments start at pairwise different offsets; the leading comments are comments of the file *)
Definition wf_file (f : file) : Prop :=
  NoDup (map c_start (f_comments f)) /\ incl (f_leading f) (f_comments f).

Lemma parse_dir_codes_NoDup w c d : parse_dir w c = Some d -> NoDup (dir_codes d).
Proof.
  intros H. apply parse_dir_some in H. destruct H as [_ [_ [_ [_ [rest [_ ->]]]]]].
  unfold codes_of_text. apply dedup_NoDup.
Qed.

Lemma NoDup_map_compose {X Y Z} (g : Y -> Z) (h : X -> Y) (l : list X) :
  NoDup (map (fun x => g (h x)) l) -> NoDup (map h l).
Proof.
  induction l as [|a t IH]; cbn [map]; intros H; constructor; inversion H as [|? ? Hnin Hnd]; subst.
  - intros Hin. apply Hnin. apply in_map_iff in Hin. destruct Hin as [x [Hx Hin]].
    apply in_map_iff. exists x. split; [congruence | assumption].
  - apply IH. assumption.
Qed.

Lemma c_start_inj f c1 c2 :
  NoDup (map c_start (f_comments f)) -> In c1 (f_comments f) -> In c2 (f_comments f) ->
  c_start c1 = c_start c2 -> c1 = c2.
Proof.
  intros Hnd. induction (f_comments f) as [|a t IH]; cbn [map In]; [tauto|].
  inversion Hnd as [|? ? Hnin Hnd']; subst.
  intros [<-|H1] [<-|H2] E; auto.
  - exfalso. apply Hnin. rewrite E. apply in_map. assumption.
  - exfalso. apply Hnin. rewrite <- E. apply in_map. assumption.
Qed.

Section Dirs.
  Variables (o : options) (orc : oracle) (f : file).
  Hypothesis Hok : oracle_ok orc.
  Hypothesis Hwf : wf_file f.
  Hypothesis Hwords : file_word o <> line_word o.
  Let fd := find_file_dir (file_word o) (f_leading f).
  Let ld := c_ld o f.

  Lemma ld_entry k d : In (k, d) ld ->
    exists c, In c (f_comments f) /\ parse_dir (line_word o) c = Some d /\ k = line_index (f_nls f) (dir_start d).
  Proof. intros H. apply line_dirs_entries in H. exact H. Qed.

  Lemma ld_starts_NoDup : NoDup (map (fun p => dir_start (snd p)) ld).
  Proof.
    apply (NoDup_map_compose (line_index (f_nls f)) (fun p : N * directive => dir_start (snd p))).
    assert (E : map (fun p : N * directive => line_index (f_nls f) (dir_start (snd p))) ld = keys ld).
    { unfold keys. apply map_ext_in. intros [k d] Hin. cbn [fst snd].
      destruct (ld_entry k d Hin) as [c [_ [_ ->]]]. reflexivity. }
    rewrite E. apply line_dirs_NoDup.
  Qed.

  Lemma dirs_In k d : In (k, d) (c_dirs o orc f fd) ->
    (k = KFile /\ fd = Some d) \/ (exists l, k = KLine l /\ In (l, d) ld).
  Proof.
    unfold c_dirs, all_dirs. fold ld. intros H. apply in_app_or in H. destruct H as [H|H].
    - left. destruct fd as [d0|]; [|contradiction]. destruct H as [H|[]]. inversion H; subst. auto.
    - right. apply in_map_iff in H. destruct H as [[l d'] [E Hin]]. cbn [fst snd] in E. inversion E; subst.
      exists l. split; [reflexivity|]. eapply Permutation_in; [apply (proj1 Hok) | exact Hin].
  Qed.

  Theorem dirs_codes_NoDup k d : In (k, d) (c_dirs o orc f fd) -> NoDup (dir_codes d).
  Proof.
    intros H. apply dirs_In in H. destruct H as [[_ H]|[l [_ H]]].
    - subst fd. apply find_file_dir_some in H. destruct H as [pre [c [post [_ [Hp _]]]]].
      eapply parse_dir_codes_NoDup; eassumption.
    - apply ld_entry in H. destruct H as [c [_ [Hp _]]]. eapply parse_dir_codes_NoDup; eassumption.
  Qed.

  Theorem dirs_distinct : NoDup (map (fun p => dir_start (snd p)) (c_dirs o orc f fd)).
  Proof.
    unfold c_dirs, all_dirs. fold ld. rewrite map_app, map_map. cbn [snd].
    assert (Hl : NoDup (map (fun p : N * directive => dir_start (snd p)) (perm_dirs orc ld))).
    { eapply Permutation_NoDup; [apply Permutation_map, Permutation_sym, (proj1 Hok) | apply ld_starts_NoDup]. }
    destruct fd as [d0|] eqn:Efd; cbn [map app]; [|exact Hl].
    constructor; [|exact Hl].
    intros Hin. apply in_map_iff in Hin. destruct Hin as [[l d] [Es Hin]]. cbn [snd] in Es.
    apply (Permutation_in _ (proj1 Hok ld)) in Hin. apply ld_entry in Hin.
    destruct Hin as [c [Hc [Hp _]]].
    subst fd. apply find_file_dir_some in Efd. destruct Efd as [pre [c0 [post [El [Hp0 _]]]]].
    assert (Hc0 : In c0 (f_comments f)).
    { apply (proj2 Hwf). rewrite El. apply in_or_app. right. left. reflexivity. }
    assert (c0 = c).
    { apply (c_start_inj f); try assumption; [apply (proj1 Hwf)|].
      apply parse_dir_some in Hp, Hp0. destruct Hp as [_ [_ [Hs _]]], Hp0 as [_ [_ [Hs0 _]]]. congruence. }
    subst c0. apply Hwords. eapply directive_word_unique; eassumption.
  Qed.
End Dirs.
