(* C01 — Linting is total (no panic, no hang): the parts that are PROVED, for the modelled cores.
   (The rule bodies and swc are explored, not proved; see DESIGN.md.) *)
From V Require Import Common.Sort Pipeline.Directive Pipeline.Pipeline Pipeline.DirectiveProofs
  Pipeline.PipelineProofs Pipeline.PipelineTheorems.
Open Scope N_scope.

(* ignore_directives.rs: `.strip_prefix(directive).unwrap()` cannot fail, for any word and comment *)
Theorem C01_directive_parse_total : forall w c, parse_comment w c <> PPanic.
Proof. exact parse_comment_total. Qed.
Print Assumptions C01_directive_parse_total.

(* context.rs: `diagnostic_line - 1` is evaluated only when diagnostic_line > 0 (usize underflow impossible):
   the model's suppressor consults line l-1 only under the guard 0 < l *)
Theorem C01_no_line_underflow : forall fd ld nls d s e,
  d_range d = Some (s, e) -> line_index nls s = 0 -> suppressed fd ld nls d = file_has fd (d_code d).
Proof. exact first_line_only_file. Qed.
Print Assumptions C01_no_line_underflow.
