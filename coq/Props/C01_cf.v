(* C01 — Linting never panics: the control-flow part (control_flow/mod.rs and the three rules that read its result).
   Model: CF/Syntax.v (programs; `qkeys` = the keys a rule can look up with `ControlFlow::meta`), CF/Analyzer.v (port of
   the analyzer and of the rules; `current` = the code as it is).  The Rust has three kinds of `unwrap` here:
     - `x.merge_forced(y).unwrap()` and `end_reason.unwrap()` in the analyzer        (model: the `panic` flag of the state)
     - `.meta(getter_body_range.start).unwrap()` in getter-return (fn check_getter)   (model: `getter_return_panics`)
   no-unreachable and no-fallthrough use `if let Some(..)` / `unwrap_or` on the same lookups.
   The theorems hold for EVERY program of the model's syntax, well formed or not, at any nesting depth (bodies of nested
   functions, arrow functions, object-literal getters, function-likes in the head of a for-in/of). *)
From V Require Import CF.Syntax CF.Analyzer CF.Semantics CF.Soundness CF.SoundnessTotal CF.Coverage.
Open Scope N_scope.

(* none of the `unwrap`s can fail *)
Theorem C01_cf_analyzer_never_panics : forall p,
  panic (analyze_st current p) = false /\ getter_return_panics current p = false.
Proof. exact analyzer_never_panics. Qed.
Print Assumptions C01_cf_analyzer_never_panics.

(* every key a rule can look up has an entry in the result map: the `{` of the program's body and every key in
   `qkeys` (statement offsets, function / getter / block / handler / finalizer body offsets, `catch` and `case` offsets) *)
Theorem C01_cf_every_queried_key_present : forall p k,
  In k (p_pb p :: qkeys_l (p_body p)) -> iget (analyze current p) k <> None.
Proof. exact every_queried_key_present. Qed.
Print Assumptions C01_cf_every_queried_key_present.

(* ... in terms of the syntax: every statement at any depth (no-unreachable, no-fallthrough: `.meta(stmt.start())`) *)
Theorem C01_cf_every_statement_has_entry : forall p t,
  sub_stmts t (p_body p) -> iget (analyze current p) (pos t) <> None.
Proof. exact every_statement_has_entry. Qed.
Print Assumptions C01_cf_every_statement_has_entry.

(* ... and the body of every getter, the program's own and the nested ones (getter-return: `.meta(body.start).unwrap()`);
   an element of `all_getters p` is (offset of the getter, offset of the `{` of its body, body) *)
Theorem C01_cf_every_getter_body_has_entry : forall p g,
  In g (all_getters p) -> iget (analyze current p) (snd (fst g)) <> None.
Proof. exact every_getter_body_has_entry. Qed.
Print Assumptions C01_cf_every_getter_body_has_entry.

(* the analyzer alone: for every variant of the code (before / after each fix) *)
Theorem C01_cf_analyzer_unwraps_total : forall fx p,
  panic (analyze_st fx p) = false /\ iget (analyze fx p) (p_pb p) <> None.
Proof. exact analyzer_total. Qed.
Print Assumptions C01_cf_analyzer_unwraps_total.

(* history: before the commit "fix: the control-flow analysis visits the head of for-in and for-of statements" the
   statement was FALSE: `function f() { for (const [k = {get a() { }}] of o) ; }` has no entry for the getter's body
   (offset 40) and getter-return panicked; with the fix alone it does not *)
Theorem C01_cf_refuted_before_fix_E :
  wf wE_getter /\ In 40 (qkeys_l (p_body wE_getter)) /\ iget (analyze before_E wE_getter) 40 = None /\
  getter_return_panics before_E wE_getter = true /\ getter_return_panics current wE_getter = false.
Proof. exact coverage_refuted_before_fix_E. Qed.
Print Assumptions C01_cf_refuted_before_fix_E.

(* non-vacuity, on a concrete nested program:
   function f() { return 1; function v1() { for (const [k = {get a() { try { ({get a() { return; }}); } catch (e) { } }}] of o) ; } }
   - a getter in the head of a for-of, inside a function declared after a `return`, with another getter nested in a `try` *)
Definition ex_nested : program :=
  {| p_getter := false; p_start := 0; p_pb := 13;
     p_body := SCons (SRet 15 (Some ELit))
              (SCons (SFnDecl 25 1 39
                 (SCons (SForHead 41 true 58 66
                           (SCons (STry 68 72 (SCons (SGetterStmt 74 76 84 (SCons (SRet 86 None) SNil)) SNil)
                                       (Some (101, 111)) SNil None SNil) SNil)
                           (SEmpty 125)) SNil)) SNil) |}.

Example C01_cf_nested_example :
  wf ex_nested /\
  (* the two nested getters and their body offsets *)
  all_getters ex_nested = [(58, 66, SCons (STry 68 72 (SCons (SGetterStmt 74 76 84 (SCons (SRet 86 None) SNil)) SNil) (Some (101, 111)) SNil None SNil) SNil);
                           (76, 84, SCons (SRet 86 None) SNil)] /\
  (* the keys the rules can look up ... *)
  p_pb ex_nested :: qkeys_l (p_body ex_nested) = [13; 15; 25; 39; 41; 66; 68; 72; 74; 84; 86; 101; 111; 125] /\
  (* ... all have entries; the entries of the two getter bodies: the outer one falls off its end, the inner one returns *)
  map (fun k => match iget (analyze current ex_nested) k with Some _ => true | None => false end)
      (p_pb ex_nested :: qkeys_l (p_body ex_nested)) = repeat true 14 /\
  iget (analyze current ex_nested) 66 = Some {| m_unreach := false; m_end := Some EContinue |} /\
  iget (analyze current ex_nested) 84 = Some {| m_unreach := false; m_end := Some (Forced true false false) |} /\
  getter_return current ex_nested = [58; 86] /\
  getter_return_panics current ex_nested = false /\
  (* the same program without the fix: no entries inside the loop head, getter-return panics *)
  iget (analyze before_E ex_nested) 66 = None /\ getter_return_panics before_E ex_nested = true.
Proof. vm_compute. repeat split; reflexivity. Qed.
