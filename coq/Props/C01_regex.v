(* C01 (regex part) — the validator model neither panics nor runs out of fuel, for every input and every state. *)
From Coq Require Import List NArith ZArith Bool.
From V Require Import Common.Str Regex.Reader Regex.Validator Regex.RuleDecision Regex.ValidatorTotal.
Import ListNotations.
Open Scope N_scope.

Theorem C01_validator_never_panics : forall st src u p, validate_pattern st src u <> Panic p.
Proof. exact validator_never_panics. Qed.
Print Assumptions C01_validator_never_panics.

(* the fuel is the one the model hands out itself: nesting depth S(remaining units), S(remaining units) per loop *)
Theorem C01_validator_fuel_sufficient : forall st src u, validate_pattern st src u <> OutOfFuel.
Proof. exact validator_fuel_sufficient. Qed.
Print Assumptions C01_validator_fuel_sufficient.

Theorem C01_validator_total : forall st src u,
  (exists s, validate_pattern st src u = Ok tt s) \/ (exists m s, validate_pattern st src u = SyntaxErr m s).
Proof. exact validator_total. Qed.
Print Assumptions C01_validator_total.

Theorem C01_check_regex_total : forall st pat fl,
  fst (check_regex st pat fl) = Report \/ fst (check_regex st pat fl) = NoReport.
Proof. exact check_regex_total. Qed.
Print Assumptions C01_check_regex_total.
