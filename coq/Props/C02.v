(* C02 — Results are deterministic and independent of history and threads. *)
From V Require Import Common.Sort Common.Interleave Pipeline.Directive Pipeline.Pipeline Pipeline.DirectiveProofs
  Pipeline.PipelineProofs Pipeline.PipelineTheorems Pipeline.WellFormed Pipeline.OrderIndep.
From Coq Require Import Permutation.
Open Scope N_scope.

(* hash-map iteration order (any permutation of the line-directive map, any permutation of each
   directive's code map) cannot be observed in the result *)
Theorem C02_pipeline_order_independent : forall o orc1 orc2 f rd ext,
  oracle_ok orc1 -> oracle_ok orc2 -> wf_file f -> file_word o <> line_word o ->
  lint_inner o orc1 f rd ext = lint_inner o orc2 f rd ext.
Proof. exact pipeline_order_independent. Qed.
Print Assumptions C02_pipeline_order_independent.

(* the hypotheses are satisfiable and the statement is not vacuous: two different oracles *)
Theorem C02_oracles_exist : oracle_ok id_oracle /\ oracle_ok rev_oracle.
Proof. exact (conj id_oracle_ok rev_oracle_ok). Qed.
Print Assumptions C02_oracles_exist.

(* calls that share only read-only state (the Linter): outputs are a function of the call's own
   input -- for every history of earlier calls ... *)
Theorem C02_history_free : forall (G J O : Type) (step : G -> J -> G * O),
  (forall g j, fst (step g j) = g) ->
  forall g trace, run G J O step g trace = map (fun j => snd (step g j)) trace.
Proof. exact run_history_free. Qed.
Print Assumptions C02_history_free.

(* ... and for every interleaving of the calls of several threads *)
Theorem C02_schedule_free : forall (G J O : Type) (step : G -> J -> G * O),
  (forall g j, fst (step g j) = g) ->
  forall g threads tr1 tr2,
  Interleave J threads tr1 -> Interleave J threads tr2 ->
  forall j, In j tr1 -> In j tr2 ->
  forall o1 o2, In (j, o1) (combine tr1 (run G J O step g tr1)) ->
                In (j, o2) (combine tr2 (run G J O step g tr2)) -> o1 = o2.
Proof. exact schedule_free. Qed.
Print Assumptions C02_schedule_free.

From V Require Import Gen.SharedState Pipeline.SharedStateFacts.
(* regenerated from /repo/src on every run: no static mut, no thread-local, no static or Linter field with interior
   mutability, every rule is a unit struct -- the read-only-shared-state hypothesis of the two theorems above *)
Theorem C02_no_shared_mutable_state :
  forallb (fun it => mem (snd it) allowed_kinds) shared_items = true.
Proof. exact no_shared_mutable_state. Qed.
Print Assumptions C02_no_shared_mutable_state.
