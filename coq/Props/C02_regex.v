(* C02 (regex part) — the validator object reused across all regexes of a file carries no history. *)
From Coq Require Import List NArith ZArith Bool.
From V Require Import Common.Str Regex.Reader Regex.Validator Regex.RuleDecision Regex.ValidatorReset.
Import ListNotations.
Open Scope N_scope.

Theorem C02_validator_history_independent : forall st1 st2 src u,
  verdict_of (validate_pattern st1 src u) = verdict_of (validate_pattern st2 src u).
Proof. exact validator_history_independent. Qed.
Print Assumptions C02_validator_history_independent.

Theorem C02_check_regex_history_independent : forall st1 st2 pat fl,
  fst (check_regex st1 pat fl) = fst (check_regex st2 pat fl).
Proof. exact check_regex_history_independent. Qed.
Print Assumptions C02_check_regex_history_independent.

Theorem C02_check_file_each_fresh : forall items st,
  check_file st items = stop_after (map (fun it => decide (fst it) (snd it)) items).
Proof. exact check_file_each_fresh. Qed.
Print Assumptions C02_check_file_each_fresh.

Theorem C02_validate_seq_history_independent : forall items st1 st2,
  validate_seq st1 items = validate_seq st2 items.
Proof. exact validate_seq_history_independent. Qed.
Print Assumptions C02_validate_seq_history_independent.
