(* C03 — Every diagnostic is well-formed and points at real source text (pipeline part). *)
From V Require Import Common.Sort Pipeline.Directive Pipeline.Pipeline Pipeline.DirectiveProofs
  Pipeline.PipelineProofs Pipeline.PipelineTheorems Pipeline.Codes.
From Coq Require Import Permutation Sorted.
Open Scope N_scope.

(* the list is ordered by start position (range-less first), then rule code *)
Theorem C03_output_sorted : forall o orc f rd ext,
  StronglySorted (le diag_leb) (lint_inner o orc f rd ext).
Proof. exact output_sorted_always. Qed.
Print Assumptions C03_output_sorted.

Theorem C03_sort_key : forall a b,
  diag_leb a b = true <->
  (opt_cmp (start_of a) (start_of b) = Lt \/
   (opt_cmp (start_of a) (start_of b) = Eq /\ str_leb (d_code a) (d_code b) = true)).
Proof. exact diag_leb_iff. Qed.
Print Assumptions C03_sort_key.

(* every output diagnostic is an untouched raw diagnostic (same code, range, payload) or an
   accounting report *)
Theorem C03_output_origin : forall o orc f rd ext d,
  In d (lint_inner o orc f rd ext) ->
  In d (rd ++ ext_diags ext)
  \/ (d_code d = BAN_UNKNOWN /\ mem BAN_UNKNOWN (o_rules o) = true)
  \/ d_code d = BAN_UNUSED.
Proof. exact codes_of_output. Qed.
Print Assumptions C03_output_origin.
