(* C03 (text-scanning rules) — every range computed by hand lies inside the text, on char boundaries,
   start < end; fix changes built as splices lie on char boundaries.  To be merged into the C03 check. *)
From V Require Import Common.Utf Text.PreferAscii Text.Irregular Text.FixApply Text.FixBuilders.
Open Scope N_scope.

(* char boundaries of the UTF-8 encoding = prefix sums of len_utf8 *)
Theorem C03_boundary_iff_offsets : forall cs i, boundary cs i <-> In i (utf8_offsets cs).
Proof. exact boundary_iff_offsets. Qed.
Print Assumptions C03_boundary_iff_offsets.

Theorem C03_boundary_iff_prefix : forall cs i, boundary cs i <-> exists k, i = bytes (firstn k cs).
Proof. exact boundary_iff_prefix. Qed.
Print Assumptions C03_boundary_iff_prefix.

Theorem C03_boundary_0 : forall cs, boundary cs 0.
Proof. exact boundary_0. Qed.
Print Assumptions C03_boundary_0.

Theorem C03_boundary_total : forall cs, boundary cs (bytes cs).
Proof. exact boundary_total. Qed.
Print Assumptions C03_boundary_total.

Theorem C03_prefer_ascii_ranges_in_text : forall cs c s e,
  In (c, s, e) (prefer_ascii cs) -> s < e /\ e <= bytes cs.
Proof. exact prefer_ascii_ranges_in_text. Qed.
Print Assumptions C03_prefer_ascii_ranges_in_text.

Theorem C03_prefer_ascii_ranges_on_boundaries : forall cs c s e,
  In (c, s, e) (prefer_ascii cs) -> boundary cs s /\ boundary cs e.
Proof. exact prefer_ascii_ranges_on_boundaries. Qed.
Print Assumptions C03_prefer_ascii_ranges_on_boundaries.

(* each range is exactly one non-ASCII character of the text *)
Theorem C03_prefer_ascii_char : forall cs c s e,
  In (c, s, e) (prefer_ascii cs) ->
  exists pre post, cs = pre ++ c :: post /\ s = bytes pre /\ e = s + utf8_len c /\ is_ascii c = false.
Proof. exact prefer_ascii_char. Qed.
Print Assumptions C03_prefer_ascii_char.

Theorem C03_irregular_ws_ranges : forall cs toks ds s e,
  irregular cs toks = IrrOk ds -> In (s, e) ds ->
  s < e /\ e <= bytes cs /\ boundary cs s /\ boundary cs e.
Proof. exact irregular_ranges. Qed.
Print Assumptions C03_irregular_ws_ranges.

(* no slice panic on a token list that is consistent with the text *)
Theorem C03_irregular_ws_total : forall l fin,
  irregular (lay_text l fin) (lay_toks 0 l) = IrrOk (lay_scan 0 l fin).
Proof. exact irregular_total. Qed.
Print Assumptions C03_irregular_ws_total.

(* fix changes built as splices of the code-point text are on char boundaries *)
Theorem C03_fix_changes_on_boundaries : forall pre segs fin s e n,
  In (s, e, n) (seg_changes_bytes (bytes pre) segs) ->
  boundary (pre ++ seg_text segs fin) s /\ boundary (pre ++ seg_text segs fin) e.
Proof. exact seg_changes_bytes_boundaries. Qed.
Print Assumptions C03_fix_changes_on_boundaries.

Theorem C03_apply_fix_defined : forall (text : list N) chs,
  apply_fix text chs <> None <-> valid_changes (len text) chs = true.
Proof. exact apply_fix_defined. Qed.
Print Assumptions C03_apply_fix_defined.

(* jsx-props-no-spread-multi (token-based range): always on char boundaries ... *)
Theorem C03_spread_fix_range_on_boundary : forall pre gap inner post oe cs,
  let text := pre ++ (gap ++ [LBRACE] ++ inner ++ [RBRACE]) ++ post in
  let open := Some (true, bytes (pre ++ gap), oe) in
  let close := Some (true, cs, bytes pre + bytes (gap ++ [LBRACE] ++ inner ++ [RBRACE])) in
  exists c, spread_change open close (Some (bytes pre)) = Some c /\
    apply_fix (utf8 text) [ch_bytes c] = Some (utf8 (pre ++ post)) /\
    boundary text (fst (fst c)) /\ boundary text (snd (fst c)).
Proof. exact spread_fix_range_ok. Qed.
Print Assumptions C03_spread_fix_range_on_boundary.

(* ... historic: the fixed offsets start-2 / end+1 of the code before the fix were not (start inside U+3000) *)
Theorem C03_spread_fix_range_before_fix_refuted :
  exists pre spread post c,
      let text := pre ++ [LBRACE] ++ spread ++ [RBRACE] ++ post in
      spread_change_before_fix (bytes pre + 1) (bytes pre + 1 + bytes spread) = Some c /\
      ~ boundary text (fst (fst c)).
Proof. exact spread_fix_range_before_fix_refuted. Qed.
Print Assumptions C03_spread_fix_range_before_fix_refuted.
