(* C04 — Only enabled rules report, and rules do not influence one another (pipeline part). *)
From V Require Import Common.Sort Pipeline.Directive Pipeline.Pipeline Pipeline.DirectiveProofs
  Pipeline.PipelineProofs Pipeline.PipelineTheorems Pipeline.Codes.
From Coq Require Import Permutation Sorted.
Open Scope N_scope.

(* given that every raw diagnostic carries an enabled or externally declared code, so does every
   output diagnostic -- except ban-unused-ignore, which the code reports whether or not that rule
   is enabled (recorded as a known finding of C04: C07 as given requires the report) *)
Theorem C04_codes_enabled : forall o orc f rd ext,
  (forall d, In d (rd ++ ext_diags ext) -> mem (d_code d) (ext_codes ext ++ o_rules o) = true) ->
  forall d, In d (lint_inner o orc f rd ext) ->
  mem (d_code d) (ext_codes ext ++ o_rules o) = true \/ d_code d = BAN_UNUSED.
Proof. exact codes_enabled. Qed.
Print Assumptions C04_codes_enabled.

(* ban-unknown-rule-code reports only if that rule is enabled *)
Theorem C04_unknown_only_if_enabled : forall o orc f fd ec d,
  In d (c_unk_out o orc f fd ec) -> d_code d = BAN_UNKNOWN /\ check_unknown o = true.
Proof. exact unk_out_code. Qed.
Print Assumptions C04_unknown_only_if_enabled.

(* the known finding, as a theorem about the faithful model: a ban-unused-ignore report with that rule absent *)
Theorem C04_unused_reported_when_rule_absent :
  exists o f, mem BAN_UNUSED (o_rules o) = false /\
    exists d, In d (lint_inner o id_oracle f [] NoCallback) /\ d_code d = BAN_UNUSED.
Proof. exact unused_reported_when_rule_absent. Qed.
Print Assumptions C04_unused_reported_when_rule_absent.

(* rules do not influence one another through the pipeline: the output diagnostics of an ordinary
   code c depend only on the raw diagnostics of code c *)
Theorem C04_projection_independent : forall o orc f rd1 rd2 ext1 ext2 c,
  c <> BAN_UNKNOWN -> c <> BAN_UNUSED ->
  filter (has_code c) (rd1 ++ ext_diags ext1) = filter (has_code c) (rd2 ++ ext_diags ext2) ->
  filter (has_code c) (lint_inner o orc f rd1 ext1) = filter (has_code c) (lint_inner o orc f rd2 ext2).
Proof. exact projection_independent. Qed.
Print Assumptions C04_projection_independent.

From V Require Import Gen.CodeTable Pipeline.CodeTableFacts.
(* generated from /repo/src/rules/*.rs on every run: every rule file has a CODE, `code()` returns it, every
   diagnostic call site passes that CODE, and no rule reads `ctx.diagnostics()` (other rules' output) *)
Theorem C04_every_rule_emits_only_its_own_code : forallb row_ok code_table = true.
Proof. exact every_rule_emits_only_its_own_code. Qed.
Print Assumptions C04_every_rule_emits_only_its_own_code.

Theorem C04_rule_codes_distinct :
  nodupb (map (fun r => snd (fst (fst (fst (fst r))))) code_table) = true.
Proof. exact rule_codes_distinct. Qed.
Print Assumptions C04_rule_codes_distinct.

From V Require Import Pipeline.Sequential.
(* the sequential rule loop: if every rule only appends its own findings (a function of the immutable parsed file,
   each carrying the rule's own code) and leaves the traverse flag clear, the context after all rules is the
   concatenation of the rules' own findings ... *)
Theorem C04_run_all_spec : forall (F : Type) (run_rule : str -> F -> rctx -> rctx) (own : str -> F -> list diag),
  (forall r f c, rc_flag c = false -> run_rule r f c = mkRctx (rc_diags c ++ own r f) false) ->
  forall rules f, run_all F run_rule rules f = mkRctx (flat_map (fun r => own r f) rules) false.
Proof. exact run_all_spec. Qed.
Print Assumptions C04_run_all_spec.

(* ... so a rule contributes exactly the same diagnostics alone or together with any other rules, in any order *)
Theorem C04_alone_or_together : forall (F : Type) (run_rule : str -> F -> rctx -> rctx) (own : str -> F -> list diag),
  (forall r f c, rc_flag c = false -> run_rule r f c = mkRctx (rc_diags c ++ own r f) false) ->
  (forall r f d, In d (own r f) -> d_code d = r) ->
  forall rules f r, NoDup rules -> In r rules ->
  filter (has_code r) (rc_diags (run_all F run_rule rules f)) = filter (has_code r) (rc_diags (run_all F run_rule [r] f)).
Proof. exact alone_or_together. Qed.
Print Assumptions C04_alone_or_together.
