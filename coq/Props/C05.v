(* C05 — A leading bare ignore-file directive silences the whole file, and only then.
   Only statements; every proof is `exact <lemma>`. *)
From V Require Import Common.Sort Pipeline.Directive Pipeline.Pipeline Pipeline.DirectiveProofs
  Pipeline.PipelineProofs Pipeline.PipelineTheorems.
Open Scope N_scope.

(* for every rule set, raw diagnostic list, external result, hash order *)
Theorem C05_ignore_all_silences : forall o orc f rd ext d,
  find_file_dir (file_word o) (f_leading f) = Some d -> dir_codes d = [] ->
  lint_inner o orc f rd ext = [].
Proof. exact ignore_all_silences. Qed.
Print Assumptions C05_ignore_all_silences.

(* only a LINE comment among the LEADING comments whose first word is the directive word qualifies *)
Theorem C05_file_directive_only_leading_line : forall w leading d,
  find_file_dir w leading = Some d ->
  exists c, In c leading /\ c_line c = true /\ first_word (trim (c_text c)) = Some w /\
            dir_start d = c_start c /\ dir_end d = c_end c.
Proof. exact file_directive_only_leading_line. Qed.
Print Assumptions C05_file_directive_only_leading_line.

Theorem C05_is_directive_iff : forall w c,
  (exists d, parse_dir w c = Some d) <-> (c_line c = true /\ first_word (trim (c_text c)) = Some w).
Proof. exact is_directive_iff. Qed.
Print Assumptions C05_is_directive_iff.

(* no spurious silence: without a bare file directive the result is the full pipeline result ... *)
Theorem C05_not_silenced_otherwise : forall o orc f rd ext,
  ignore_all (find_file_dir (file_word o) (f_leading f)) = false ->
  lint_inner o orc f rd ext =
  collect o orc f (find_file_dir (file_word o) (f_leading f)) (rd ++ ext_diags ext) (ext_codes ext).
Proof. exact not_silenced_otherwise. Qed.
Print Assumptions C05_not_silenced_otherwise.

(* ... and with no directive comment at all it is exactly the (stably sorted) raw list *)
Theorem C05_no_directive_no_effect : forall o orc f rd ext,
  oracle_ok orc ->
  Forall (fun c => parse_dir (file_word o) c = None) (f_leading f) ->
  Forall (fun c => parse_dir (line_word o) c = None) (f_comments f) ->
  lint_inner o orc f rd ext = ssort diag_leb (rd ++ ext_diags ext).
Proof. exact no_directive_no_effect. Qed.
Print Assumptions C05_no_directive_no_effect.

(* the `.strip_prefix(..).unwrap()` of the parser cannot fail *)
Theorem C05_parse_comment_total : forall w c, parse_comment w c <> PPanic.
Proof. exact parse_comment_total. Qed.
Print Assumptions C05_parse_comment_total.

From V Require Import Pipeline.Tokens Pipeline.Reason.

(* an appended `-- reason` is ignored: `// <word> <ws> -- reason` is the bare directive ... *)
Theorem C05_parse_bare_with_reason : forall w c ws r,
  c_line c = true -> trim (c_text c) = w ++ ws ++ DASH :: DASH :: r -> w <> [] ->
  forallb (fun c => negb (is_ws c)) w = true -> ws <> [] -> all_ws ws -> no_nl r ->
  exists d, parse_dir w c = Some d /\ dir_codes d = [].
Proof. exact parse_bare_with_reason. Qed.
Print Assumptions C05_parse_bare_with_reason.

(* ... hence silences the file when it is the first directive among the leading comments *)
Theorem C05_bare_with_reason_names_no_code : forall ws r,
  all_ws ws -> no_nl r -> codes_of_text (ws ++ DASH :: DASH :: r) = [].
Proof. exact bare_with_reason. Qed.
Print Assumptions C05_bare_with_reason_names_no_code.

From V Require Import Pipeline.Codes.
(* known finding (literal reading of the property), as a theorem about the faithful model: the FIRST
   file directive wins, so a bare directive that follows a coded one does not silence the file *)
Theorem C05_bare_after_coded_not_silenced :
  exists o f rd c d,
    In c (f_leading f) /\ parse_dir (file_word o) c = Some d /\ dir_codes d = [] /\
    lint_inner o id_oracle f rd NoCallback <> [].
Proof. exact bare_after_coded_not_silenced. Qed.
Print Assumptions C05_bare_after_coded_not_silenced.
