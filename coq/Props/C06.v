(* C06 — Ignore directives suppress exactly the diagnostics they name. *)
From V Require Import Common.Sort Pipeline.Directive Pipeline.Pipeline Pipeline.DirectiveProofs
  Pipeline.PipelineProofs Pipeline.PipelineTheorems.
From Coq Require Import Permutation Sorted.
Open Scope N_scope.

(* the loop's notion of "suppressed" is the declarative one of the property *)
Theorem C06_suppressed_iff : forall fd ld nls d,
  suppressed fd ld nls d = true <->
  ((exists fdir, fd = Some fdir /\ In (d_code d) (dir_codes fdir)) \/
   (exists s e l dir, d_range d = Some (s, e) /\ line_index nls s = l + 1 /\
                      lookup l ld = Some dir /\ In (d_code d) (dir_codes dir))).
Proof. exact suppressed_iff. Qed.
Print Assumptions C06_suppressed_iff.

(* a line directive in the map comes from a line comment with the line word, keyed by the line of its start *)
Theorem C06_line_directive_origin : forall w nls cs k d,
  In (k, d) (line_dirs w nls cs) ->
  exists c, In c cs /\ parse_dir w c = Some d /\ k = line_index nls (dir_start d).
Proof. exact line_dirs_entries. Qed.
Print Assumptions C06_line_directive_origin.

(* the output is a permutation of (un-suppressed raw diagnostics ++ accounting reports) ... *)
Theorem C06_output_is_perm : forall o orc f rd ext,
  ignore_all (find_file_dir (file_word o) (f_leading f)) = false ->
  Permutation (lint_inner o orc f rd ext)
    (filter (fun d => negb (suppressed (find_file_dir (file_word o) (f_leading f))
                                      (line_dirs (line_word o) (f_nls f) (f_comments f)) (f_nls f) d))
            (rd ++ ext_diags ext)
     ++ c_accounting o orc f (find_file_dir (file_word o) (f_leading f)) (rd ++ ext_diags ext) (ext_codes ext)).
Proof. exact output_is_perm. Qed.
Print Assumptions C06_output_is_perm.

(* ... in which nothing was moved: per (start, code) class, survivors first and in their original order *)
Theorem C06_output_stable : forall o orc f rd ext,
  ignore_all (find_file_dir (file_word o) (f_leading f)) = false ->
  forall x,
  filter (eqv diag_leb x) (lint_inner o orc f rd ext) =
  filter (eqv diag_leb x)
    (filter (fun d => negb (suppressed (find_file_dir (file_word o) (f_leading f))
                                      (line_dirs (line_word o) (f_nls f) (f_comments f)) (f_nls f) d))
            (rd ++ ext_diags ext))
  ++ filter (eqv diag_leb x)
       (c_accounting o orc f (find_file_dir (file_word o) (f_leading f)) (rd ++ ext_diags ext) (ext_codes ext)).
Proof. exact output_stable. Qed.
Print Assumptions C06_output_stable.

Theorem C06_survivor_kept : forall o orc f rd ext,
  ignore_all (find_file_dir (file_word o) (f_leading f)) = false ->
  forall d, In d (rd ++ ext_diags ext) ->
  suppressed (find_file_dir (file_word o) (f_leading f))
             (line_dirs (line_word o) (f_nls f) (f_comments f)) (f_nls f) d = false ->
  In d (lint_inner o orc f rd ext).
Proof. exact survivor_kept. Qed.
Print Assumptions C06_survivor_kept.

(* a diagnostic without a range, or on the first line, can only be removed by the file-level directive *)
Theorem C06_rangeless_only_file : forall fd ld nls d,
  d_range d = None -> suppressed fd ld nls d = file_has fd (d_code d).
Proof. exact rangeless_only_file. Qed.
Print Assumptions C06_rangeless_only_file.

Theorem C06_first_line_only_file : forall fd ld nls d s e,
  d_range d = Some (s, e) -> line_index nls s = 0 -> suppressed fd ld nls d = file_has fd (d_code d).
Proof. exact first_line_only_file. Qed.
Print Assumptions C06_first_line_only_file.

From V Require Import Pipeline.Tokens Pipeline.Reason.

(* the codes of a directive are the distinct maximal runs of non-separator characters before the reason *)
Theorem C06_codes_are_tokens : forall rest, codes_of_text rest = dedup (tokens (cut_reason 0 rest)).
Proof. exact codes_of_text_tokens. Qed.
Print Assumptions C06_codes_are_tokens.

(* the way codes are separated does not matter: whatever non-empty mixtures of white space
   (any Unicode White_Space) and commas separate them (and trail them), the codes are the same *)
Theorem C06_codes_any_separators : forall items tail,
  Forall good_item items -> Forall (fun it => dash_safe (snd it)) items -> all_sep tail ->
  codes_of_text (render items ++ tail) = dedup (map snd items).
Proof. exact codes_any_separators. Qed.
Print Assumptions C06_codes_any_separators.

(* an appended `-- reason` does not change which codes are meant *)
Theorem C06_codes_with_reason : forall items ws r,
  Forall good_item items -> Forall (fun it => dash_safe (snd it)) items ->
  last_ok (render items) (ws ++ DASH :: DASH :: r) = true ->
  all_ws ws -> no_nl r ->
  codes_of_text (render items ++ ws ++ DASH :: DASH :: r) = dedup (map snd items).
Proof. exact codes_with_reason. Qed.
Print Assumptions C06_codes_with_reason.

Theorem C06_reason_example :
  codes_of_text [32;110;111;45;100;101;98;117;103;103;101;114;44;32;32;101;113;101;113;101;113;32;45;45;32;119;104;121]
  = [[110;111;45;100;101;98;117;103;103;101;114]; [101;113;101;113;101;113]].
Proof. exact reason_example. Qed.
Print Assumptions C06_reason_example.
