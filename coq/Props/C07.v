(* C07 — Every code in every directive is accounted for exactly once. *)
From V Require Import Common.Sort Pipeline.Directive Pipeline.Pipeline Pipeline.DirectiveProofs
  Pipeline.PipelineProofs Pipeline.PipelineTheorems Pipeline.Accounting Pipeline.WellFormed
  Pipeline.AccountingFinal.
From Coq Require Import Permutation Sorted String.
Open Scope N_scope.

(* For every directive (k,d) of the file and every code c it names, exactly one of
     used / reported once as unused / reported once as unknown / silent
   holds (5th disjunct: an externally emitted code that is not declared as known is both used and
   unknown — excluded when raw codes are known, kept here so that the statement is unconditional on raw).
   n_unused / n_unknown count the report inside the accounting part; `count_output` relates them to the
   final output.  `silent` is characterised exactly by its definition (Accounting.silent):
     known ∧ ¬enabled  ∨  ¬known ∧ (unknown-checking off ∨ file-level ban-unknown-rule-code)
     ∨ enabled ∧ file-level ban-unused-ignore. *)
Theorem C07_accounting_exactly_one : forall o orc f raw ec,
  oracle_ok orc -> wf_file f -> file_word o <> line_word o -> wf_config o ec ->
  forall k d c,
  In (k, d) (c_dirs o orc f (find_file_dir (file_word o) (f_leading f))) -> In c (dir_codes d) ->
  let fd := find_file_dir (file_word o) (f_leading f) in
    (used o orc f fd raw ec k c = true /\ n_unused o orc f fd raw ec k d c = 0%nat /\
     n_unknown o orc f fd raw ec k d c = 0%nat /\ known o ec c = true)
    \/ (used o orc f fd raw ec k c = false /\ n_unused o orc f fd raw ec k d c = 1%nat /\
        n_unknown o orc f fd raw ec k d c = 0%nat /\ silent o fd ec k c = false)
    \/ (used o orc f fd raw ec k c = false /\ n_unused o orc f fd raw ec k d c = 0%nat /\
        n_unknown o orc f fd raw ec k d c = 1%nat /\ silent o fd ec k c = false)
    \/ (used o orc f fd raw ec k c = false /\ n_unused o orc f fd raw ec k d c = 0%nat /\
        n_unknown o orc f fd raw ec k d c = 0%nat /\ silent o fd ec k c = true)
    \/ (used o orc f fd raw ec k c = true /\ known o ec c = false /\ n_unused o orc f fd raw ec k d c = 0%nat).
Proof. exact accounting_final. Qed.
Print Assumptions C07_accounting_exactly_one.

Theorem C07_silent_characterised : forall o fd ec k c,
  silent o fd ec k c =
    (known o ec c && negb (enabled o ec c))
    || (negb (known o ec c) && (negb (check_unknown o) || unknown_switch fd))
    || (enabled o ec c && unused_switch fd).
Proof. reflexivity. Qed.
Print Assumptions C07_silent_characterised.

Theorem C07_used_iff : forall o orc f raw ec k c,
  let fd := find_file_dir (file_word o) (f_leading f) in
  used o orc f fd raw ec k c = true <->
  (exists d, In d raw /\ suppressor fd (c_ld o f) (f_nls f) d = Some k /\ d_code d = c)
  \/ (k = KFile /\ c = BAN_UNKNOWN /\ nonempty_diags (c_unk o orc f fd ec) = true /\ file_has fd BAN_UNKNOWN = true).
Proof. exact used_iff. Qed.
Print Assumptions C07_used_iff.

Theorem C07_count_output : forall o orc f raw ec x,
  ignore_all (find_file_dir (file_word o) (f_leading f)) = false ->
  forall rd ext, raw = rd ++ ext_diags ext -> ec = ext_codes ext ->
  count x (lint_inner o orc f rd ext)
  = (count x (filter (fun d => negb (suppressed (find_file_dir (file_word o) (f_leading f)) (c_ld o f) (f_nls f) d)) raw)
     + count x (c_accounting o orc f (find_file_dir (file_word o) (f_leading f)) raw ec))%nat.
Proof. exact count_output. Qed.
Print Assumptions C07_count_output.

(* file-level switches; a line-level directive naming the accounting codes is consulted nowhere:
   both switches are functions of the FILE directive only *)
Theorem C07_file_switch_unused : forall o orc f raw ec,
  file_has (find_file_dir (file_word o) (f_leading f)) BAN_UNUSED = true ->
  c_unused o orc f (find_file_dir (file_word o) (f_leading f)) raw ec = [].
Proof. exact file_switch_unused. Qed.
Print Assumptions C07_file_switch_unused.

Theorem C07_file_switch_unknown : forall o orc f ec,
  file_has (find_file_dir (file_word o) (f_leading f)) BAN_UNKNOWN = true ->
  c_unk_out o orc f (find_file_dir (file_word o) (f_leading f)) ec = [].
Proof. exact file_switch_unknown. Qed.
Print Assumptions C07_file_switch_unknown.

Theorem C07_switches_are_file_level : forall fd,
  unused_switch fd = file_has fd BAN_UNUSED /\ unknown_switch fd = file_has fd BAN_UNKNOWN.
Proof. intros fd. split; reflexivity. Qed.
Print Assumptions C07_switches_are_file_level.

(* the hypothesis wf_config is needed: witness of a double report without it *)
Theorem C07_double_report_needs_wf :
  exists o f, ~ wf_config o [] /\
    lint_inner o id_oracle f [] NoCallback =
      [ mkDiag BAN_UNKNOWN (Some (0, 20)) (msg_unknown (s2l "zz"%string));
        mkDiag BAN_UNUSED (Some (0, 20)) (msg_unused (s2l "zz"%string)) ].
Proof. exact double_report_needs_wf. Qed.
Print Assumptions C07_double_report_needs_wf.
