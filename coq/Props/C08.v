(* C08 — Syntactic rules report every occurrence exactly once, at any nesting. *)
From V Require Import Common.Str Traverse.Tree Traverse.VisitTraverse Traverse.HandlerTraverse Gen.VisitTable Traverse.TableFacts.
Open Scope N_scope.

(* ---- rules written as swc `Visit` implementations *)

(* a visitor all of whose overridden methods recurse reports the local findings of EVERY node, each node once *)
Theorem C08_visit_complete : forall v, (forall k, overridden v k -> recurses v k = true) ->
  forall t, visit v t = flat_map (local v) (preorder t).
Proof. exact visit_complete. Qed.
Print Assumptions C08_visit_complete.

(* embedding in a neutral context neither hides nor creates reports; each once, at the shifted position *)
Theorem C08_embedding : forall v c t, equivariant v -> spine_recurses v c -> neutral v c ->
  visit v (plug c t) = map (shift_report (offset c)) (visit v t).
Proof. exact embedding. Qed.
Print Assumptions C08_embedding.

(* ... to any depth, from depth-1 neutrality facts (what the nesting differential predicts with) *)
Theorem C08_embedding_composed : forall v cs t, complete v -> equivariant v -> Forall (neutral v) cs ->
  visit v (plug (comp_all cs) t) = map (shift_report (offset (comp_all cs))) (visit v t).
Proof. exact embedding_composed. Qed.
Print Assumptions C08_embedding_composed.

(* a silent fragment stays silent in a neutral context; a noisy one exposes a non-neutral context *)
Theorem C08_not_neutral_detected : forall v c t, complete v -> equivariant v ->
  visit v t = [] -> visit v (plug c t) <> [] -> ~ neutral v c.
Proof. exact not_neutral_detected. Qed.
Print Assumptions C08_not_neutral_detected.

(* one override that does not recurse hides everything beneath nodes of that kind ... *)
Theorem C08_non_recursing_override_hides : forall v k s cs,
  table v k = Overridden false -> visit v (Node k s cs) = local v (Node k s cs).
Proof. exact non_recursing_override_hides. Qed.
Print Assumptions C08_non_recursing_override_hides.

(* ... so the property fails for any incomplete visitor (generic witness: a call-like node whose override inspects only itself) *)
Theorem C08_visit_incomplete_hides :
  exists v c t, equivariant v /\ neutral v c /\ visit v t <> [] /\ visit v (plug c t) = [].
Proof. exact visit_incomplete_hides. Qed.
Print Assumptions C08_visit_incomplete_hides.

(* ---- rules written against the generic Handler/Traverse driver *)

(* a handler that never stops is called on every node exactly once, in pre-order *)
Theorem C08_handler_complete : forall (St : Type) (h : handler St), never_stops h ->
  forall t st, traverse h t st false = Done (run h (events t) st) false (events t).
Proof. exact handler_complete. Qed.
Print Assumptions C08_handler_complete.

Theorem C08_handler_sees_preorder : forall t, nodes_of (events t) = preorder t.
Proof. exact nodes_of_events. Qed.
Print Assumptions C08_handler_sees_preorder.

(* flag clear on entry + stop_traverse never called from on_exit_node  ==>  no assertion fires, the flag is
   clear on exit, and the traversal is the structured one (children skipped iff stopped AT that node) *)
Theorem C08_traverse_flag_invariant : forall (St : Type) (h : handler St), exit_clean h ->
  forall t st, traverse h t st false = Done (fst (spec h t st)) false (snd (spec h t st)).
Proof. exact traverse_flag_invariant. Qed.
Print Assumptions C08_traverse_flag_invariant.

(* the hypothesis is needed: a stop in on_exit_node panics at the next sibling, or leaks to the next rule *)
Theorem C08_exit_stop_panics :
  traverse exit_stopper (Node 0 (0, 9) [Node 1 (0, 1) []; Node 2 (2, 3) []]) tt false = Panic.
Proof. exact exit_stop_panics. Qed.
Print Assumptions C08_exit_stop_panics.

Theorem C08_exit_stop_leaks :
  exists log, traverse exit_stopper (Node 0 (0, 9) [Node 1 (0, 1) []]) tt false = Done tt true log.
Proof. exact exit_stop_leaks. Qed.
Print Assumptions C08_exit_stop_leaks.

(* stopping at a node skips exactly its descendants: its own callbacks run, the siblings follow normally *)
Theorem C08_stop_skips_exactly_children : forall (St : Type) (h : handler St), exit_clean h ->
  forall t rest st, stops_at h t st = true ->
    traverse h t st false = Done (fst (on_exit h t (after_node h t st))) false [EEnter t; ENode t; EExit t] /\
    traverse_list h (t :: rest) st false =
      seq_outcome (Done (fst (on_exit h t (after_node h t st))) false [EEnter t; ENode t; EExit t]) (traverse_list h rest).
Proof. exact stop_skips_exactly_children. Qed.
Print Assumptions C08_stop_skips_exactly_children.

Theorem C08_stop_visits_pruned : forall (St : Type) (h : handler St) p, exit_clean h -> stops_by h p ->
  forall t st, exists st', traverse h t st false = Done st' false (snd (spec h t st)) /\
                           nodes_of (snd (spec h t st)) = pruned p t.
Proof. exact stop_visits_pruned. Qed.
Print Assumptions C08_stop_visits_pruned.

Theorem C08_pruned_hole_visited : forall p c x, spine_clear p c x ->
  exists pre post, pruned p (plug_raw c x) = pre ++ pruned p x ++ post.
Proof. exact pruned_hole_visited. Qed.
Print Assumptions C08_pruned_hole_visited.

Theorem C08_pruned_hole_skipped : forall p c x y, spine_stops p c x -> spine_same p c x y ->
  map label (pruned p (plug_raw c x)) = map label (pruned p (plug_raw c y)).
Proof. exact pruned_hole_skipped. Qed.
Print Assumptions C08_pruned_hole_skipped.

(* a Handler based context-free rule reports like a complete visitor, hence embeds at any depth *)
Theorem C08_handler_embedding : forall f cs t st,
  equivariant (as_visitor f) -> Forall (neutral (as_visitor f)) cs ->
  exists log, traverse (report_handler f) (plug (comp_all cs) t) st false =
              Done (st ++ map (shift_report (offset (comp_all cs))) (visit (as_visitor f) t)) false log.
Proof. exact handler_embedding. Qed.
Print Assumptions C08_handler_embedding.

(* ---- obligations on the tables regenerated from the source on this run *)

(* EVERY claimed context-free rule: every overridden visit method recurses (no escape list) *)
Theorem C08_context_free_rules_recurse :
  forallb (fun r => forallb recurses_all (entries_of r)) context_free_rules = true.
Proof. exact context_free_rules_recurse. Qed.
Print Assumptions C08_context_free_rules_recurse.

Theorem C08_context_free_rules_recurse_spec : forall r e,
  In r context_free_rules -> In e visit_table -> v_rule e = r ->
  v_class e = RecAll \/ v_class e = RecByDesign.
Proof. exact context_free_rules_recurse_spec. Qed.
Print Assumptions C08_context_free_rules_recurse_spec.

Theorem C08_no_non_recursing_override_in_context_free_rules :
  filter (fun e => mem (v_rule e) context_free_rules && negb (recurses_all e)) visit_table = [].
Proof. exact no_non_recursing_override_in_context_free_rules. Qed.
Print Assumptions C08_no_non_recursing_override_in_context_free_rules.

(* the analyses (scope-analysis = deno_ast dependency, control-flow-analysis): their non-recursing overrides are the listed ones;
   scope-analysis.visit_param is the one that hides (known finding, dependency) *)
Theorem C08_analysis_non_recursing_known :
  forallb (fun e => match v_class e with RecNone => pair_mem (v_rule e, v_method e) known_analysis_non_recursing | _ => true end)
          analysis_rows = true.
Proof. exact analysis_non_recursing_known. Qed.
Print Assumptions C08_analysis_non_recursing_known.

Theorem C08_context_free_rules_exist :
  forallb (fun r => mem r rule_files && traversal_based r) context_free_rules = true.
Proof. exact context_free_rules_exist. Qed.
Print Assumptions C08_context_free_rules_exist.

Theorem C08_context_free_rules_never_stop : forall e,
  In e handler_table -> In (h_rule e) context_free_rules -> h_stops e = [].
Proof. exact context_free_rules_never_stop_spec. Qed.
Print Assumptions C08_context_free_rules_never_stop.

Theorem C08_handlers_respect_flag_protocol :
  forallb (fun e => negb (h_exit_stop e) &&
                    (match h_stops e with [] => true | _ => negb (h_reenters e) end)) handler_table = true /\
  stop_calls_outside_handler_impls = [] /\
  flag_protocol_users_outside_driver = [] /\
  driver_shape_as_modelled = true /\ traverse_flow_as_modelled = true.
Proof. exact handlers_respect_flag_protocol. Qed.
Print Assumptions C08_handlers_respect_flag_protocol.

Theorem C08_stopping_rules_are : stopping_rules = expected_stopping_rules.   (* camelcase, require-await *)
Proof. exact stopping_rules_are. Qed.
Print Assumptions C08_stopping_rules_are.

(* ---- rules that walk UP the tree to the nearest function boundary (Traverse/AncestorWalk.v; table coq/Gen/AncestorWalks.v
   regenerated from the sources on this run).  Imported here, after the theorems above, so that its short names
   (walk, chain, kind ...) shadow nothing they use. *)
From V Require Import Gen.AncestorWalks Traverse.AncestorWalk.

(* the walk itself: a boundary set that meets the chain of every construct of R never leaves a construct of R, whatever
   lies between the occurrence and the construct (inner) and whatever encloses it (outer) *)
Theorem C08_walk_never_escapes : forall b R, covers b R = true -> forall c, In c R -> forall inner outer,
  exists n k, stop_index b (inner ++ chain c ++ outer) = Some n /\ (n < length inner + length (chain c))%nat /\
              walk b (inner ++ chain c ++ outer) = Some k /\
              walk b (inner ++ chain c ++ outer) = walk b (inner ++ chain c).
Proof. exact walk_never_escapes. Qed.
Print Assumptions C08_walk_never_escapes.

Theorem C08_walk_stops_inside : forall b R, covers b R = true -> forall c, In c R -> forall inner outer,
  existsb b inner = false ->
  exists k, In k (chain c) /\ b k = true /\ walk b (chain c) = Some k /\ walk b (inner ++ chain c ++ outer) = Some k.
Proof. exact walk_stops_inside. Qed.
Print Assumptions C08_walk_stops_inside.

(* the hypothesis is needed: if the whole chain of one construct of R is missed, the enclosing code decides -- the same
   occurrence in the same construct gets no answer in one program and the answer of an outer boundary in another *)
Theorem C08_missed_construct_escapes : forall b R, covers b R = false ->
  exists c, In c R /\
    (forall inner outer, existsb b inner = false -> walk b (inner ++ chain c ++ outer) = walk b outer) /\
    walk b (chain c ++ []) = None /\
    (forall k, b k = true -> walk b (chain c ++ [k]) = Some k /\ ~ In k (chain c)).
Proof. exact missed_construct_escapes. Qed.
Print Assumptions C08_missed_construct_escapes.

(* every ancestor walk of the sources was read and classified, and is textually unchanged since *)
Theorem C08_all_ancestor_walks_classified_and_pinned :
  forallb (fun w => aw_pinned w && negb (is_unclassified w)) ancestor_walks = true /\ vanished_walks = [].
Proof. exact all_walks_classified_and_pinned. Qed.
Print Assumptions C08_all_ancestor_walks_classified_and_pinned.

(* THE obligation: the function-like kinds each function-boundary walk mentions meet the chain of every construct the
   rule is required to stop at *)
Theorem C08_ancestor_walks_stop_at_every_function_kind :
  forallb (fun w => names_resolve w && forallb (fun c => existsb (boundary_of_walk w) (chain c)) (required w))
          function_boundary_walks = true.
Proof. exact function_boundary_walks_cover. Qed.
Print Assumptions C08_ancestor_walks_stop_at_every_function_kind.

(* `required` = the whole category of the rule (async / function-root / this / return) minus the known gaps AW-1, AW-2 *)
Theorem C08_ancestor_walks_required_is_category_minus_known_gaps :
  forallb (fun w => match category_constructs (category_of w) with
                    | Some cs => forallb (fun c => cmem c (required w) || gap_mem (aw_rule w) c) cs
                    | None => false
                    end) function_boundary_walks = true.
Proof. exact required_is_category_minus_known_gaps. Qed.
Print Assumptions C08_ancestor_walks_required_is_category_minus_known_gaps.

Theorem C08_function_boundary_rules_are : function_boundary_rules = expected_function_boundary_rules.
Proof. exact function_boundary_rules_are. Qed.
Print Assumptions C08_function_boundary_rules_are.

(* spec form: for every rule, every function-boundary walk of it, every construct of the rule's category that is not a
   known gap and every path through it whose inner part holds no boundary, the walk stops at a node of the construct --
   the same node whatever the enclosing code *)
Theorem C08_ancestor_walks_stop_at_every_function_kind_spec : forall rule w cs c inner,
  In w ancestor_walks -> aw_rule w = rule -> is_function_boundary w = true ->
  category_constructs (category_of w) = Some cs -> In c cs -> gap_mem rule c = false ->
  existsb (boundary_of_walk w) inner = false ->
  exists k, In k (chain c) /\ boundary_of_walk w k = true /\
            forall outer, walk (boundary_of_walk w) (inner ++ chain c ++ outer) = Some k.
Proof. exact ancestor_walks_stop_at_every_function_kind_spec. Qed.
Print Assumptions C08_ancestor_walks_stop_at_every_function_kind_spec.

(* ... and with an arbitrary inner part (nested functions included): the walk stops before it leaves the construct *)
Theorem C08_ancestor_walks_never_escape : forall w c inner outer,
  In w ancestor_walks -> is_function_boundary w = true -> In c (required w) ->
  exists n k, stop_index (boundary_of_walk w) (inner ++ chain c ++ outer) = Some n /\
              (n < length inner + length (chain c))%nat /\
              walk (boundary_of_walk w) (inner ++ chain c ++ outer) = Some k /\
              walk (boundary_of_walk w) (inner ++ chain c ++ outer) = walk (boundary_of_walk w) (inner ++ chain c).
Proof. exact ancestor_walks_never_escape. Qed.
Print Assumptions C08_ancestor_walks_never_escape.

(* the chains are the parent structure of the view, and the list of function-like kinds misses none of its owners of a
   Function / BlockStmt, class members or object-literal properties *)
Theorem C08_ancestor_chains_follow_view :
  view_found = true /\ forallb (fun c => linked (entry c) (chain c)) all_constructs = true.
Proof. exact chains_follow_view. Qed.
Print Assumptions C08_ancestor_chains_follow_view.

Theorem C08_function_like_kinds_complete :
  forallb (fun k => mem k chain_tops) view_function_owners = true /\
  forallb (accounted block_owners_that_are_statements) view_block_owners = true /\
  forallb (fun k => mem k chain_tops || mem k class_members_without_code) view_class_members = true /\
  forallb (fun k => mem k chain_tops || mem k object_props_without_body) view_object_props = true /\
  forallb (fun k => mem k function_like_kinds) chain_tops = true /\
  forallb (fun k => mem k chain_tops || str_eqb k kFunction) function_like_kinds = true.
Proof. exact function_like_kinds_complete. Qed.
Print Assumptions C08_function_like_kinds_complete.

(* non-vacuity: a concrete rule, construct and path -- `await x` in a loop of an object-literal method that sits in a loop
   of an async function; no-top-level-await stops at the MethodProp after 5 parent steps (the repair of bdd2d16) *)
Theorem C08_ancestor_walk_example_no_top_level_await :
  option_map (fun w => (cmem CObjectMethod (required w),
                        walk (boundary_of_walk w) (example_inner ++ chain CObjectMethod ++ example_outer),
                        stop_index (boundary_of_walk w) (example_inner ++ chain CObjectMethod ++ example_outer)))
             no_top_level_await_walk
  = Some (true, Some kMethodProp, Some 5%nat).
Proof. exact no_top_level_await_stops_at_the_object_method. Qed.
Print Assumptions C08_ancestor_walk_example_no_top_level_await.

(* the boundary set of no-this-before-super BEFORE cec743a, {Function, ArrowExpr}, fails the obligation for the constructor
   (and six more this-binding constructs): `this` in the constructor of a class nested in a function expression is attributed
   to that function expression, 7 parent steps up instead of at most 4, and in general to whatever encloses the constructor *)
Theorem C08_ancestor_walks_refuted_before_fixes :
  hits no_this_before_super_boundary_before_cec743a CConstructor = false /\
  (match category_constructs this_category with
   | Some cs => (covers no_this_before_super_boundary_before_cec743a cs,
                 filter (fun c => negb (hits no_this_before_super_boundary_before_cec743a c)) cs)
   | None => (true, [])
   end) = (false, [CObjectGetter; CObjectSetter; CConstructor; CStaticBlock; CClassField; CPrivateField; CAutoAccessor]) /\
  walk no_this_before_super_boundary_before_cec743a
       (nested_ctor_inner ++ chain CConstructor ++ nested_ctor_outer)
    = Some kFunction /\
  stop_index no_this_before_super_boundary_before_cec743a
       (nested_ctor_inner ++ chain CConstructor ++ nested_ctor_outer)
    = Some 7%nat /\
  (forall outer, walk no_this_before_super_boundary_before_cec743a (nested_ctor_inner ++ chain CConstructor ++ outer)
                 = walk no_this_before_super_boundary_before_cec743a outer).
Proof. exact no_this_before_super_refuted_before_fixes. Qed.
Print Assumptions C08_ancestor_walks_refuted_before_fixes.

(* today's walk of the same rule, same path: stops at the Constructor *)
Theorem C08_ancestor_walk_example_no_this_before_super_today :
  option_map (fun w => (hits (boundary_of_walk w) CConstructor,
                        walk (boundary_of_walk w) (nested_ctor_inner ++ chain CConstructor ++ nested_ctor_outer)))
             no_this_before_super_walk
  = Some (true, Some kConstructor).
Proof. exact no_this_before_super_today. Qed.
Print Assumptions C08_ancestor_walk_example_no_this_before_super_today.
