(* C08 — Syntactic rules report every occurrence exactly once, at any nesting. *)
From V Require Import Common.Str Traverse.Tree Traverse.VisitTraverse Traverse.HandlerTraverse Gen.VisitTable Traverse.TableFacts.
Open Scope N_scope.

(* ---- rules written as swc `Visit` implementations *)

(* a visitor all of whose overridden methods recurse reports the local findings of EVERY node, each node once *)
Theorem C08_visit_complete : forall v, (forall k, overridden v k -> recurses v k = true) ->
  forall t, visit v t = flat_map (local v) (preorder t).
Proof. exact visit_complete. Qed.
Print Assumptions C08_visit_complete.

(* embedding in a neutral context neither hides nor creates reports; each once, at the shifted position *)
Theorem C08_embedding : forall v c t, equivariant v -> spine_recurses v c -> neutral v c ->
  visit v (plug c t) = map (shift_report (offset c)) (visit v t).
Proof. exact embedding. Qed.
Print Assumptions C08_embedding.

(* ... to any depth, from depth-1 neutrality facts (what the nesting differential predicts with) *)
Theorem C08_embedding_composed : forall v cs t, complete v -> equivariant v -> Forall (neutral v) cs ->
  visit v (plug (comp_all cs) t) = map (shift_report (offset (comp_all cs))) (visit v t).
Proof. exact embedding_composed. Qed.
Print Assumptions C08_embedding_composed.

(* a silent fragment stays silent in a neutral context; a noisy one exposes a non-neutral context *)
Theorem C08_not_neutral_detected : forall v c t, complete v -> equivariant v ->
  visit v t = [] -> visit v (plug c t) <> [] -> ~ neutral v c.
Proof. exact not_neutral_detected. Qed.
Print Assumptions C08_not_neutral_detected.

(* one override that does not recurse hides everything beneath nodes of that kind ... *)
Theorem C08_non_recursing_override_hides : forall v k s cs,
  table v k = Overridden false -> visit v (Node k s cs) = local v (Node k s cs).
Proof. exact non_recursing_override_hides. Qed.
Print Assumptions C08_non_recursing_override_hides.

(* ... so the property fails for any incomplete visitor (generic witness: a call-like node whose override inspects only itself) *)
Theorem C08_visit_incomplete_hides :
  exists v c t, equivariant v /\ neutral v c /\ visit v t <> [] /\ visit v (plug c t) = [].
Proof. exact visit_incomplete_hides. Qed.
Print Assumptions C08_visit_incomplete_hides.

(* ---- rules written against the generic Handler/Traverse driver *)

(* a handler that never stops is called on every node exactly once, in pre-order *)
Theorem C08_handler_complete : forall (St : Type) (h : handler St), never_stops h ->
  forall t st, traverse h t st false = Done (run h (events t) st) false (events t).
Proof. exact handler_complete. Qed.
Print Assumptions C08_handler_complete.

Theorem C08_handler_sees_preorder : forall t, nodes_of (events t) = preorder t.
Proof. exact nodes_of_events. Qed.
Print Assumptions C08_handler_sees_preorder.

(* flag clear on entry + stop_traverse never called from on_exit_node  ==>  no assertion fires, the flag is
   clear on exit, and the traversal is the structured one (children skipped iff stopped AT that node) *)
Theorem C08_traverse_flag_invariant : forall (St : Type) (h : handler St), exit_clean h ->
  forall t st, traverse h t st false = Done (fst (spec h t st)) false (snd (spec h t st)).
Proof. exact traverse_flag_invariant. Qed.
Print Assumptions C08_traverse_flag_invariant.

(* the hypothesis is needed: a stop in on_exit_node panics at the next sibling, or leaks to the next rule *)
Theorem C08_exit_stop_panics :
  traverse exit_stopper (Node 0 (0, 9) [Node 1 (0, 1) []; Node 2 (2, 3) []]) tt false = Panic.
Proof. exact exit_stop_panics. Qed.
Print Assumptions C08_exit_stop_panics.

Theorem C08_exit_stop_leaks :
  exists log, traverse exit_stopper (Node 0 (0, 9) [Node 1 (0, 1) []]) tt false = Done tt true log.
Proof. exact exit_stop_leaks. Qed.
Print Assumptions C08_exit_stop_leaks.

(* stopping at a node skips exactly its descendants: its own callbacks run, the siblings follow normally *)
Theorem C08_stop_skips_exactly_children : forall (St : Type) (h : handler St), exit_clean h ->
  forall t rest st, stops_at h t st = true ->
    traverse h t st false = Done (fst (on_exit h t (after_node h t st))) false [EEnter t; ENode t; EExit t] /\
    traverse_list h (t :: rest) st false =
      seq_outcome (Done (fst (on_exit h t (after_node h t st))) false [EEnter t; ENode t; EExit t]) (traverse_list h rest).
Proof. exact stop_skips_exactly_children. Qed.
Print Assumptions C08_stop_skips_exactly_children.

Theorem C08_stop_visits_pruned : forall (St : Type) (h : handler St) p, exit_clean h -> stops_by h p ->
  forall t st, exists st', traverse h t st false = Done st' false (snd (spec h t st)) /\
                           nodes_of (snd (spec h t st)) = pruned p t.
Proof. exact stop_visits_pruned. Qed.
Print Assumptions C08_stop_visits_pruned.

Theorem C08_pruned_hole_visited : forall p c x, spine_clear p c x ->
  exists pre post, pruned p (plug_raw c x) = pre ++ pruned p x ++ post.
Proof. exact pruned_hole_visited. Qed.
Print Assumptions C08_pruned_hole_visited.

Theorem C08_pruned_hole_skipped : forall p c x y, spine_stops p c x -> spine_same p c x y ->
  map label (pruned p (plug_raw c x)) = map label (pruned p (plug_raw c y)).
Proof. exact pruned_hole_skipped. Qed.
Print Assumptions C08_pruned_hole_skipped.

(* a Handler based context-free rule reports like a complete visitor, hence embeds at any depth *)
Theorem C08_handler_embedding : forall f cs t st,
  equivariant (as_visitor f) -> Forall (neutral (as_visitor f)) cs ->
  exists log, traverse (report_handler f) (plug (comp_all cs) t) st false =
              Done (st ++ map (shift_report (offset (comp_all cs))) (visit (as_visitor f) t)) false log.
Proof. exact handler_embedding. Qed.
Print Assumptions C08_handler_embedding.

(* ---- obligations on the tables regenerated from the source on this run *)

(* EVERY claimed context-free rule: every overridden visit method recurses (no escape list) *)
Theorem C08_context_free_rules_recurse :
  forallb (fun r => forallb recurses_all (entries_of r)) context_free_rules = true.
Proof. exact context_free_rules_recurse. Qed.
Print Assumptions C08_context_free_rules_recurse.

Theorem C08_context_free_rules_recurse_spec : forall r e,
  In r context_free_rules -> In e visit_table -> v_rule e = r ->
  v_class e = RecAll \/ v_class e = RecByDesign.
Proof. exact context_free_rules_recurse_spec. Qed.
Print Assumptions C08_context_free_rules_recurse_spec.

Theorem C08_no_non_recursing_override_in_context_free_rules :
  filter (fun e => mem (v_rule e) context_free_rules && negb (recurses_all e)) visit_table = [].
Proof. exact no_non_recursing_override_in_context_free_rules. Qed.
Print Assumptions C08_no_non_recursing_override_in_context_free_rules.

(* the analyses (scope-analysis = deno_ast dependency, control-flow-analysis): their non-recursing overrides are the listed ones;
   scope-analysis.visit_param is the one that hides (known finding, dependency) *)
Theorem C08_analysis_non_recursing_known :
  forallb (fun e => match v_class e with RecNone => pair_mem (v_rule e, v_method e) known_analysis_non_recursing | _ => true end)
          analysis_rows = true.
Proof. exact analysis_non_recursing_known. Qed.
Print Assumptions C08_analysis_non_recursing_known.

Theorem C08_context_free_rules_exist :
  forallb (fun r => mem r rule_files && traversal_based r) context_free_rules = true.
Proof. exact context_free_rules_exist. Qed.
Print Assumptions C08_context_free_rules_exist.

Theorem C08_context_free_rules_never_stop : forall e,
  In e handler_table -> In (h_rule e) context_free_rules -> h_stops e = [].
Proof. exact context_free_rules_never_stop_spec. Qed.
Print Assumptions C08_context_free_rules_never_stop.

Theorem C08_handlers_respect_flag_protocol :
  forallb (fun e => negb (h_exit_stop e) &&
                    (match h_stops e with [] => true | _ => negb (h_reenters e) end)) handler_table = true /\
  stop_calls_outside_handler_impls = [] /\
  flag_protocol_users_outside_driver = [] /\
  driver_shape_as_modelled = true /\ traverse_flow_as_modelled = true.
Proof. exact handlers_respect_flag_protocol. Qed.
Print Assumptions C08_handlers_respect_flag_protocol.

Theorem C08_stopping_rules_are : stopping_rules = expected_stopping_rules.   (* camelcase, require-await *)
Proof. exact stopping_rules_are. Qed.
Print Assumptions C08_stopping_rules_are.
