(* C09 — Diagnostics move with the code: layout changes only shift positions. *)
From V Require Import Common.Sort Common.LineIndex Pipeline.Directive Pipeline.Pipeline.
Open Scope N_scope.

Theorem C09_line_index_mono : forall nls p q, p <= q -> line_index nls p <= line_index nls q.
Proof. exact line_index_mono. Qed.
Print Assumptions C09_line_index_mono.

(* prepending k bytes that contain |pre| line breaks moves every line by |pre| *)
Theorem C09_line_index_prefix : forall pre k nls p,
  Forall (fun o => o < k) pre ->
  line_index (pre ++ map (N.add k) nls) (k + p) = N.of_nat (length pre) + line_index nls p.
Proof. exact line_index_prefix. Qed.
Print Assumptions C09_line_index_prefix.

From V Require Import Pipeline.DirectiveProofs Pipeline.PipelineProofs Pipeline.PipelineTheorems
  Pipeline.WellFormed Pipeline.OrderIndep Pipeline.Shift.

(* Prepending k bytes that contain |pre_nls| line breaks and only comments that are not
   directives translates every output range by exactly k bytes and changes nothing else:
   same diagnostics, same order, same suppression, same accounting -- for every rule set,
   raw diagnostic list, external result and hash order. *)
Theorem C09_pipeline_shift_equivariant : forall o orc orc' f k pre_c pre_nls rd ext,
  oracle_ok orc -> oracle_ok orc' ->
  wf_file f -> wf_file (shift_file k pre_c pre_nls f) -> file_word o <> line_word o ->
  Forall (fun c => parse_dir (file_word o) c = None) pre_c ->
  Forall (fun c => parse_dir (line_word o) c = None) pre_c ->
  Forall (fun x => x < k) pre_nls ->
  lint_inner o orc' (shift_file k pre_c pre_nls f) (map (shift_diag k) rd) (shift_ext k ext)
  = map (shift_diag k) (lint_inner o orc f rd ext).
Proof. exact pipeline_shift_equivariant. Qed.
Print Assumptions C09_pipeline_shift_equivariant.

Theorem C09_shift_file_wf : forall k pre_c pre_nls f,
  wf_file f -> NoDup (map c_start pre_c) -> Forall (fun c => c_start c < k) pre_c ->
  wf_file (shift_file k pre_c pre_nls f).
Proof. exact shift_file_wf. Qed.
Print Assumptions C09_shift_file_wf.

(* the sort commutes with translation because the key order is translation invariant *)
Theorem C09_sort_key_translation_invariant : forall k a b,
  diag_leb (shift_diag k a) (shift_diag k b) = diag_leb a b.
Proof. exact diag_leb_shift. Qed.
Print Assumptions C09_sort_key_translation_invariant.
