(* C09 — Diagnostics move with the code: layout changes only shift positions. *)
From V Require Import Common.Sort Common.LineIndex Pipeline.Directive Pipeline.Pipeline.
Open Scope N_scope.

Theorem C09_line_index_mono : forall nls p q, p <= q -> line_index nls p <= line_index nls q.
Proof. exact line_index_mono. Qed.
Print Assumptions C09_line_index_mono.

(* prepending k bytes that contain |pre| line breaks moves every line by |pre| *)
Theorem C09_line_index_prefix : forall pre k nls p,
  Forall (fun o => o < k) pre ->
  line_index (pre ++ map (N.add k) nls) (k + p) = N.of_nat (length pre) + line_index nls p.
Proof. exact line_index_prefix. Qed.
Print Assumptions C09_line_index_prefix.
