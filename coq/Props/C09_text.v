(* C09 (text-scanning rules) — a prefix only translates the hand-computed ranges.  To be merged into the
   C09 check. *)
From V Require Import Common.Utf Text.PreferAscii Text.Irregular.
From Coq Require Import Permutation.
Open Scope N_scope.

(* prefer-ascii: the non-ASCII characters of the prefix, then the diagnostics of the text translated by
   the BYTE length of the prefix.  `t <> []` is needed because the loop never examines the last
   character of the file. *)
Theorem C09_prefer_ascii_prefix : forall p t,
  t <> [] -> prefer_ascii (p ++ t) = pa_all 0 p ++ map (pa_shift (bytes p)) (prefer_ascii t).
Proof. exact prefer_ascii_prefix. Qed.
Print Assumptions C09_prefer_ascii_prefix.

Theorem C09_prefer_ascii_prefix_ascii : forall p t,
  forallb is_ascii p = true -> t <> [] ->
  prefer_ascii (p ++ t) = map (pa_shift (len p)) (prefer_ascii t).
Proof. exact prefer_ascii_prefix_ascii. Qed.
Print Assumptions C09_prefer_ascii_prefix_ascii.

Theorem C09_prefer_ascii_prefix_part_inside : forall p c s e, In (c, s, e) (pa_all 0 p) -> e <= bytes p.
Proof. exact pa_all_inside. Qed.
Print Assumptions C09_prefer_ascii_prefix_part_inside.

Theorem C09_prefer_ascii_misses_last : exists cs c, In c cs /\ is_ascii c = false /\ prefer_ascii cs = [].
Proof. exact prefer_ascii_misses_last. Qed.
Print Assumptions C09_prefer_ascii_misses_last.

(* no-irregular-whitespace: token-free prefix, tokens move with the text; side condition: no run spans
   the border *)
Theorem C09_irregular_ws_prefix_perm : forall p l fin,
  last_is irr_ws p && head_is irr_ws (first_gap l fin) = false ->
  exists ds', irregular (p ++ lay_text l fin) (map (rng_shift (bytes p)) (lay_toks 0 l)) = IrrOk ds' /\
    irregular (lay_text l fin) (lay_toks 0 l) = IrrOk (lay_scan 0 l fin) /\
    Permutation ds' (scan_gap 0 p ++ map (rng_shift (bytes p)) (lay_scan 0 l fin)).
Proof. exact irregular_prefix_perm. Qed.
Print Assumptions C09_irregular_ws_prefix_perm.

Theorem C09_irregular_ws_prefix : forall p l fin,
  last_is irr_ws p && head_is irr_ws (first_gap l fin) = false -> singles irr_lt 0 p = [] ->
  irregular (p ++ lay_text l fin) (map (rng_shift (bytes p)) (lay_toks 0 l))
  = IrrOk (scan_gap 0 p ++ map (rng_shift (bytes p)) (lay_scan 0 l fin)).
Proof. exact irregular_prefix_eq. Qed.
Print Assumptions C09_irregular_ws_prefix.

Theorem C09_irregular_ws_prefix_part_inside : forall p s e, In (s, e) (scan_gap 0 p) -> e <= bytes p.
Proof. exact scan_gap_inside. Qed.
Print Assumptions C09_irregular_ws_prefix_part_inside.

Theorem C09_irregular_ws_prefix_border_refuted :
  exists p l fin ds',
    irregular (p ++ lay_text l fin) (map (rng_shift (bytes p)) (lay_toks 0 l)) = IrrOk ds' /\
    ~ Permutation ds' (scan_gap 0 p ++ map (rng_shift (bytes p)) (lay_scan 0 l fin)).
Proof. exact irregular_prefix_border_refuted. Qed.
Print Assumptions C09_irregular_ws_prefix_border_refuted.
