(* C10 — no-unreachable never flags a statement that can execute.
   Model: CF/Syntax.v (programs, `wf`, `fn_stmt_safe`, `no_fn_stmt`), CF/Analyzer.v (port of control_flow/mod.rs and of the
   rules; `faithful` = the code before the fix commits, `current` = now (fixes A, B, D, E, F), `repaired` = `current`
   + the candidate repair of the known finding C), CF/Semantics.v (the specification: `exec`, `enters`,
   `prog_enters p pi` = some execution of the function body enters the statement at offset pi). *)
From V Require Import CF.Syntax CF.Analyzer CF.Semantics CF.SemDecide CF.SemDecideProofs CF.Oracle CF.Soundness
  CF.SoundnessTotal CF.SoundnessRefuted CF.SoundnessRepaired CF.SoundnessCurrent.
Open Scope N_scope.

(* the executable semantics used by the checks is the inductive specification *)
Theorem C10_exec_iff_csem : forall ls s k, exec ls s k <-> cin k (csem s ls) = true.
Proof. exact exec_iff_csem. Qed.
Print Assumptions C10_exec_iff_csem.

Theorem C10_enters_iff_reach : forall s pi, enters s pi <-> In pi (reach s).
Proof. exact enters_iff_reach. Qed.
Print Assumptions C10_enters_iff_reach.

Theorem C10_prog_enters_iff : forall p pi, prog_enters p pi <-> memN pi (prog_reach p) = true.
Proof. exact prog_enters_iff. Qed.
Print Assumptions C10_prog_enters_iff.

(* the `unwrap`s of the analyzer never fail, for every program and every variant of the code *)
Theorem C10_analyzer_total : forall fx p,
  panic (analyze_st fx p) = false /\ iget (analyze fx p) (p_pb p) <> None.
Proof. exact analyzer_total. Qed.
Print Assumptions C10_analyzer_total.

(* the current code.  `fn_stmt_safe p`: no statement that STARTS with a function (`function g(){}`, `() => {};`) is a
   branch of an if-else, the body of a while / do-while / for(;;) or a top-level statement of a switch case (function
   declarations in ordinary statement lists are fine).  `prog_enters` counts the body of a hoisted function declaration
   as enterable as soon as the enclosing statement list is entered. *)
Theorem C10_sound_current : forall p pi,
  wf p -> fn_stmt_safe p -> In pi (no_unreachable current p) -> ~ prog_enters p pi.
Proof. exact SoundnessCurrent.C10_sound_current. Qed.
Print Assumptions C10_sound_current.

(* programs without any function-like satisfy the side condition, and on them the current code computes exactly the
   map of the fully repaired code *)
Theorem C10_no_fn_stmt_is_safe : forall p, no_fn_stmt p -> fn_stmt_safe p.
Proof. exact no_fn_stmt_safe. Qed.
Print Assumptions C10_no_fn_stmt_is_safe.

Theorem C10_current_is_repaired_without_fn_stmt : forall p, no_fn_stmt p -> analyze current p = analyze repaired p.
Proof. exact analyze_current_repaired. Qed.
Print Assumptions C10_current_is_repaired_without_fn_stmt.

(* hoisting, non-vacuity:  function f() { return v1(); function v1() { v2(); return 1; v3(); } }
   `v2();` (44) inside the function declared after the `return` can be entered; `v3();` (60) is reported and cannot *)
Definition ex_hoist : program :=
  {| p_getter := false; p_start := 0; p_pb := 13;
     p_body := SCons (SRet 15 (Some (ECall 1)))
              (SCons (SFnDecl 28 1 42 (SCons (SExpr 44 (ECall 2)) (SCons (SRet 50 (Some ELit)) (SCons (SExpr 60 (ECall 3)) SNil)))) SNil) |}.
Example C10_hoisting_example :
  wf ex_hoist /\ fn_stmt_safe ex_hoist /\ ~ no_fn_stmt ex_hoist /\
  prog_enters ex_hoist 44 /\ prog_enters ex_hoist 50 /\ ~ prog_enters ex_hoist 60 /\ ~ prog_enters ex_hoist 28 /\
  no_unreachable current ex_hoist = [60].
Proof.
  split; [vm_compute; reflexivity|]. split; [vm_compute; reflexivity|]. split; [vm_compute; discriminate|].
  split; [apply prog_enters_iff; vm_compute; reflexivity|]. split; [apply prog_enters_iff; vm_compute; reflexivity|].
  split; [intros H; apply prog_enters_iff in H; vm_compute in H; discriminate|].
  split; [intros H; apply prog_enters_iff in H; vm_compute in H; discriminate | vm_compute; reflexivity].
Qed.

(* with the candidate repair of the known finding: unconditional *)
Theorem C10_sound_repaired : forall p pi,
  wf p -> In pi (no_unreachable repaired p) -> ~ prog_enters p pi.
Proof. exact SoundnessRepaired.C10_sound_repaired. Qed.
Print Assumptions C10_sound_repaired.

(* known finding, class C: a statement that starts with a function shares the function's map key
   (`if (v1) () => { throw 1; }; else () => { throw 1; }; v3();` flags `v3();`) *)
Theorem C10_known_class_C :
  exists p pi, wf p /\ ~ fn_stmt_safe p /\ In pi (no_unreachable current p) /\ prog_enters p pi.
Proof. exact SoundnessCurrent.C10_known_class_C. Qed.
Print Assumptions C10_known_class_C.

(* history: the property was false of the code before the fix commits; each witness is repaired by its fix alone *)
Theorem C10_refuted_before_fixes :
  ~ (forall p pi, wf p -> In pi (no_unreachable faithful p) -> ~ prog_enters p pi).
Proof. exact C10_refuted. Qed.
Print Assumptions C10_refuted_before_fixes.

(* function f() { do try { throw 1; } finally { continue; } while (v2); v1; } *)
Theorem C10_refuted_before_fix_A :
  wf wA_c10 /\ In 69 (no_unreachable faithful wA_c10) /\ prog_enters wA_c10 69 /\ c10_violations only_A wA_c10 = [].
Proof. exact C10_refuted_A. Qed.
Print Assumptions C10_refuted_before_fix_A.

(* function f() { L1: { for (;;) { if (v1) break L1; if (v2) break; } v3(); } } *)
Theorem C10_refuted_before_fix_B :
  wf wB_c10 /\ In 67 (no_unreachable faithful wB_c10) /\ prog_enters wB_c10 67 /\ c10_violations only_B wB_c10 = [].
Proof. exact C10_refuted_B. Qed.
Print Assumptions C10_refuted_before_fix_B.

(* function f() { try { throw v1; } catch (e) { } v1; } *)
Theorem C10_refuted_before_fix_D :
  wf wD_c10 /\ In 47 (no_unreachable faithful wD_c10) /\ prog_enters wD_c10 47 /\ c10_violations only_D wD_c10 = [].
Proof. exact C10_refuted_D. Qed.
Print Assumptions C10_refuted_before_fix_D.

(* function f() { try { while ((v1(), true)) { } } catch (e) { v2; } }   - `v2;` (60) was reported: the test of a while /
   do-while was visited after the loop had ended the scope, so that it can throw was not recorded *)
Theorem C10_refuted_before_fix_F :
  wf wF_c10 /\ In 60 (no_unreachable faithful wF_c10) /\ prog_enters wF_c10 60 /\ c10_violations only_F wF_c10 = [].
Proof. exact C10_refuted_F. Qed.
Print Assumptions C10_refuted_before_fix_F.

(* function f() { try { do { } while ((v1(), true)); } catch (e) { v2; } } *)
Theorem C10_refuted_before_fix_F_do_while :
  wf wF_c10_do /\ In 64 (no_unreachable faithful wF_c10_do) /\ prog_enters wF_c10_do 64 /\ c10_violations only_F wF_c10_do = [].
Proof. exact C10_refuted_F_do. Qed.
Print Assumptions C10_refuted_before_fix_F_do_while.

(* ... and against the code exactly as it was before that commit (fixes A, B, D, E applied): reported then, not now *)
Theorem C10_refuted_right_before_fix_F :
  wf wF_c10 /\ fn_stmt_safe wF_c10 /\ In 60 (no_unreachable before_F wF_c10) /\ prog_enters wF_c10 60 /\ no_unreachable current wF_c10 = [].
Proof. exact SoundnessRefuted.C10_refuted_right_before_fix_F. Qed.
Print Assumptions C10_refuted_right_before_fix_F.
