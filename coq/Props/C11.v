(* C11 — getter-return / no-fallthrough never miss a path that falls off the end.
   `prog_falls_off_end p` = some execution of the body completes normally; `exec_l b Normal` = some execution
   of the statement list b (a case's consequent) completes normally; `any_stops i b` = one of the top-level
   statements of b has an end reason in the map i that "stops execution" (this silences no-fallthrough). *)
From V Require Import CF.Syntax CF.Analyzer CF.Semantics CF.SemDecide CF.SemDecideProofs CF.Oracle CF.Soundness
  CF.SoundnessRefuted CF.SoundnessRepaired CF.SoundnessCurrent.
Open Scope N_scope.

Theorem C11_exec_l_iff_csem : forall l k, exec_l l k <-> cin k (csem_l l) = true.
Proof. exact exec_l_iff_csem. Qed.
Print Assumptions C11_exec_l_iff_csem.

Theorem C11_prog_falls_off_iff : forall p, prog_falls_off_end p <-> prog_can_fall_off p = true.
Proof. exact prog_falls_off_iff. Qed.
Print Assumptions C11_prog_falls_off_iff.

(* getter-return, current code: a getter whose body can fall off its end is reported *)
Theorem C11_getter_sound_current : forall p,
  wf p -> fn_stmt_safe p -> p_getter p = true -> prog_falls_off_end p -> In (p_start p) (getter_return current p).
Proof. exact SoundnessCurrent.C11_getter_sound_current. Qed.
Print Assumptions C11_getter_sound_current.

Theorem C11_getter_sound_repaired : forall p,
  wf p -> p_getter p = true -> prog_falls_off_end p -> In (p_start p) (getter_return repaired p).
Proof. exact SoundnessRepaired.C11_getter_sound_repaired. Qed.
Print Assumptions C11_getter_sound_repaired.

(* no-fallthrough, current code: for every entered switch at any depth and each of its cases, a "stops
   execution" claim on a top-level statement of the case implies that the case cannot complete normally *)
Theorem C11_case_sound_current : forall p sw cs b,
  wf p -> fn_stmt_safe p ->
  sub_stmts (SSwitch sw cs) (p_body p) -> prog_enters p sw -> case_in b cs ->
  any_stops (analyze current p) b = true -> ~ exec_l b Normal.
Proof. exact SoundnessCurrent.C11_case_sound_current. Qed.
Print Assumptions C11_case_sound_current.

Theorem C11_case_sound_repaired : forall p sw cs b,
  wf p ->
  sub_stmts (SSwitch sw cs) (p_body p) -> prog_enters p sw -> case_in b cs ->
  any_stops (analyze repaired p) b = true -> ~ exec_l b Normal.
Proof. exact SoundnessRepaired.C11_case_sound_repaired. Qed.
Print Assumptions C11_case_sound_repaired.

(* known finding, class C *)
Theorem C11_getter_known_class_C :
  exists p, wf p /\ ~ fn_stmt_safe p /\ p_getter p = true /\ prog_falls_off_end p /\ ~ In (p_start p) (getter_return current p).
Proof. exact SoundnessCurrent.C11_getter_known_class_C. Qed.
Print Assumptions C11_getter_known_class_C.

(* switch (d) { case 0: function v5() { return 1; } case 1: v999(); } *)
Theorem C11_case_known_class_C :
  exists p sw cs b, wf p /\ ~ fn_stmt_safe p /\ sub_stmts (SSwitch sw cs) (p_body p) /\ prog_enters p sw /\ case_in b cs /\
                    any_stops (analyze current p) b = true /\ exec_l b Normal.
Proof. exact SoundnessCurrent.C11_case_known_class_C. Qed.
Print Assumptions C11_case_known_class_C.

(* history: before the fix commits *)
Theorem C11_getter_refuted_before_fixes :
  ~ (forall p, wf p -> p_getter p = true -> prog_falls_off_end p -> In (p_start p) (getter_return faithful p)).
Proof. exact C11_getter_refuted. Qed.
Print Assumptions C11_getter_refuted_before_fixes.

Theorem C11_case_refuted_before_fixes :
  ~ (forall p sw cs b, wf p -> sub_stmts (SSwitch sw cs) (p_body p) -> prog_enters p sw -> case_in b cs ->
       any_stops (analyze faithful p) b = true -> ~ exec_l b Normal).
Proof. exact C11_case_refuted. Qed.
Print Assumptions C11_case_refuted_before_fixes.

(* ({get a() { do try { return 1; } finally { continue; } while (v2); }}) *)
Theorem C11_getter_refuted_before_fix_A :
  wf wA_getter /\ p_getter wA_getter = true /\ prog_falls_off_end wA_getter /\
  ~ In (p_start wA_getter) (getter_return faithful wA_getter) /\ c11_getter_violation only_A wA_getter = false.
Proof. exact C11_getter_refuted_A. Qed.
Print Assumptions C11_getter_refuted_before_fix_A.

(* ({get a() { do L1: if (v2) break L1; else break; while (true); }}) *)
Theorem C11_getter_refuted_before_fix_B :
  wf wB_getter /\ p_getter wB_getter = true /\ prog_falls_off_end wB_getter /\
  ~ In (p_start wB_getter) (getter_return faithful wB_getter) /\ c11_getter_violation only_B wB_getter = false.
Proof. exact C11_getter_refuted_B. Qed.
Print Assumptions C11_getter_refuted_before_fix_B.

(* ({get a() { try { throw v3; } catch (e) { } }}) *)
Theorem C11_getter_refuted_before_fix_D :
  wf wD_getter /\ p_getter wD_getter = true /\ prog_falls_off_end wD_getter /\
  ~ In (p_start wD_getter) (getter_return faithful wD_getter) /\ c11_getter_violation only_D wD_getter = false.
Proof. exact C11_getter_refuted_D. Qed.
Print Assumptions C11_getter_refuted_before_fix_D.

(* switch (d) { case 0: try { throw v3; } catch (e) { } case 1: v999(); } *)
Theorem C11_case_refuted_before_fix_D :
  wf wD_case /\ sub_stmts (SSwitch 15 wD_case_cases) (p_body wD_case) /\ prog_enters wD_case 15 /\
  case_in wD_case_body wD_case_cases /\ any_stops (analyze faithful wD_case) wD_case_body = true /\
  exec_l wD_case_body Normal /\ c11_case_violations only_D wD_case = [].
Proof. exact C11_case_refuted_D. Qed.
Print Assumptions C11_case_refuted_before_fix_D.

(* ({get a() { try { while ((v1(), true)) { } } catch (e) { } }})   - before fix F the getter was not reported *)
Theorem C11_getter_refuted_before_fix_F :
  wf wF_getter /\ p_getter wF_getter = true /\ prog_falls_off_end wF_getter /\
  ~ In (p_start wF_getter) (getter_return faithful wF_getter) /\ c11_getter_violation only_F wF_getter = false.
Proof. exact C11_getter_refuted_F. Qed.
Print Assumptions C11_getter_refuted_before_fix_F.

(* switch (d) { case 0: try { while ((v1(), true)) { } } catch (e) { } case 1: v999(); } *)
Theorem C11_case_refuted_before_fix_F :
  wf wF_case /\ sub_stmts (SSwitch 15 wF_case_cases) (p_body wF_case) /\ prog_enters wF_case 15 /\
  case_in wF_case_body wF_case_cases /\ any_stops (analyze faithful wF_case) wF_case_body = true /\
  exec_l wF_case_body Normal /\ c11_case_violations only_F wF_case = [].
Proof. exact C11_case_refuted_F. Qed.
Print Assumptions C11_case_refuted_before_fix_F.
