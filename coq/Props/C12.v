(* C12 — no-invalid-regexp agrees with the ECMAScript grammar: what is proved about the validator model
   (Regex/Validator.v, ES2022 constants folded) and the rule's decision (Regex/RuleDecision.v).
   The agreement with the grammar itself is PROVED on a fragment (C12_fragment_equiv: Regex/Grammar.v is the ES2022
   grammar of that fragment written from the standard) and validated against V8 beyond it (see the check's evidence). *)
From Coq Require Import List NArith ZArith Bool.
From V Require Import Common.Str Regex.Reader Regex.ReaderCache Gen.UnicodeProps Regex.Validator Regex.RuleDecision
  Regex.FlagsSpec Regex.ValidatorReset Regex.ValidatorTotal Regex.DecisionSpec
  Regex.Grammar Regex.FragParser Regex.FragGrammar Regex.FragmentEquiv.
Import ListNotations.
Open Scope N_scope.

(* --- the verdict does not depend on what the validator validated before (one validator per file) --- *)
Theorem C12_validator_history_independent : forall st1 st2 src u,
  verdict_of (validate_pattern st1 src u) = verdict_of (validate_pattern st2 src u).
Proof. exact validator_history_independent. Qed.
Print Assumptions C12_validator_history_independent.

Theorem C12_check_regex_history_independent : forall st1 st2 pat fl,
  fst (check_regex st1 pat fl) = fst (check_regex st2 pat fl).
Proof. exact check_regex_history_independent. Qed.
Print Assumptions C12_check_regex_history_independent.

(* all regexes of a file on one validator = each regex on a fresh validator *)
Theorem C12_check_file_each_fresh : forall items st,
  check_file st items = stop_after (map (fun it => decide (fst it) (snd it)) items).
Proof. exact check_file_each_fresh. Qed.
Print Assumptions C12_check_file_each_fresh.

Theorem C12_check_file_history_independent : forall st1 st2 items,
  check_file st1 items = check_file st2 items.
Proof. exact check_file_history_independent. Qed.
Print Assumptions C12_check_file_history_independent.

(* --- flags: exactly the duplicate-free strings over "gimuysdv" --- *)
Theorem C12_validate_flags_spec : forall fs : str,
  validate_flags fs = None <-> NoDup fs /\ Forall (fun c => In c [103; 105; 109; 117; 121; 115; 100; 118]) fs.
Proof. exact validate_flags_spec. Qed.
Print Assumptions C12_validate_flags_spec.

(* --- totality: neither panic nor fuel exhaustion; the rule decides Report or NoReport --- *)
Theorem C12_validator_never_panics : forall st src u p, validate_pattern st src u <> Panic p.
Proof. exact validator_never_panics. Qed.
Print Assumptions C12_validator_never_panics.

Theorem C12_validator_fuel_sufficient : forall st src u, validate_pattern st src u <> OutOfFuel.
Proof. exact validator_fuel_sufficient. Qed.
Print Assumptions C12_validator_fuel_sufficient.

Theorem C12_validator_total : forall st src u,
  (exists s, validate_pattern st src u = Ok tt s) \/ (exists m s, validate_pattern st src u = SyntaxErr m s).
Proof. exact validator_total. Qed.
Print Assumptions C12_validator_total.

Theorem C12_check_regex_total : forall st pat fl,
  fst (check_regex st pat fl) = Report \/ fst (check_regex st pat fl) = NoReport.
Proof. exact check_regex_total. Qed.
Print Assumptions C12_check_regex_total.

(* --- the decision as a function of the per-mode verdicts (of a fresh validator) --- *)
Theorem C12_decision_rule_spec : forall st pat fl,
  fst (check_regex st pat fl) = Report <->
  match fl with
  | Some f => validate_flags f <> None \/ pattern_invalid pat (existsb (N.eqb 117) f) = true
  | None => pattern_invalid pat true = true /\ pattern_invalid pat false = true
  end.
Proof. exact decision_rule_spec. Qed.
Print Assumptions C12_decision_rule_spec.

(* --- the reader's look-ahead cache is a cache --- *)
Theorem C12_creader_refines :
  (forall us r, cache_ok (c_reset us r) /\ abs (c_reset us r) = mkreader us 0) /\
  (forall i r, cache_ok (c_rewind i r) /\ abs (c_rewind i r) = r_rewind i (abs r)) /\
  (forall r, cache_ok r -> cache_ok (c_advance r) /\ abs (c_advance r) = r_advance (abs r)) /\
  (forall r k, cache_ok r -> (k < 4)%nat -> c_cp k r = r_cp k (abs r)).
Proof. exact creader_refines. Qed.
Print Assumptions C12_creader_refines.

(* --- facts about the generated tables (Gen/UnicodeProps.v, from unicode.rs) --- *)
(* sorted and disjoint: the model's linear scan and the Rust binary search find the same ranges *)
Theorem C12_ranges_sorted :
  ranges_sorted None large_id_start_ranges = true /\ ranges_sorted None large_id_continue_ranges = true.
Proof. exact ranges_sorted_ok. Qed.
Print Assumptions C12_ranges_sorted.

(* every identifier range lies in the scalar values above ASCII (so char::from_u32 cannot fail on them) *)
Theorem C12_ranges_scalar :
  forallb range_scalar large_id_start_ranges = true /\ forallb range_scalar large_id_continue_ranges = true.
Proof. exact ranges_scalar_ok. Qed.
Print Assumptions C12_ranges_scalar.

(* --- agreement with the ECMAScript grammar on the fragment ---
   in_fragment u l (Regex/FragParser.v), a left-to-right scan of the units of l in the mode u, outside and inside classes (a
   class runs from an unescaped `[` to the next unescaped `]`):
     a backslash is followed by a unit x, which is skipped, where with u, x is not p or P (property escapes) and, outside a
       class, not k (named references); outside a class, if x is one of the digits 1-9, the decimal number that starts at x is
       below 2^63;
     outside a class every `(?<` is followed by `=` or `!` (look-behind; named groups are outside the fragment), and where a
       `{` starts a syntactically complete `{n}` `{n,}` `{n,m}`, n and m are below 2^63.
   Pattern u (Regex/Grammar.v): the ES2022 grammar (22.2.1 + Annex B behind the u switch) and early errors of the fragment
   Disjunction, Alternative, Term (incl. Annex B QuantifiableAssertion Quantifier), Assertion ^ $ \b \B (?= (?! (?<= (?<!,
   Quantifier * + ? {n} {n,} {n,m} with lazy suffix (early error: n > m, on the unbounded values), Atom = PatternCharacter | . |
   \ AtomEscape | CharacterClass | ( ) | (?: ), CharacterClass = [ ClassRanges ] | [^ ClassRanges ] with ClassAtom = - | a unit
   other than \ ] - | \ ClassEscape, ClassEscape = b | - (with u) | c digit-or-underscore (without u) | CharacterClassEscape |
   CharacterEscape, the early errors of ranges (CharacterValue of the first endpoint above that of the second; with u a class
   escape as an endpoint), AtomEscape = DecimalEscape | CharacterClassEscape d D s S w W | CharacterEscape, where a
   DecimalEscape must not exceed NcapturingParens, the number of capturing groups of the whole pattern (an early error with u;
   without u Annex B reads it as a legacy octal escape or an identity escape instead), CharacterEscape = ControlEscape
   f n r t v | c ControlLetter | 0 (not before a digit) | x HexDigit HexDigit | RegExpUnicodeEscapeSequence (uXXXX, with u also
   surrogate pairs uD83D\uDE00 and u{CodePoint <= 10FFFF}) | LegacyOctalEscapeSequence (without u) | IdentityEscape[?U];
   Annex B without u: ExtendedAtom with ExtendedPatternCharacter (so `]` `{` `}` are literals where no quantifier starts),
   InvalidBracedQuantifier (a braced quantifier with nothing to repeat is an early error), `\c` not before a letter (the backslash
   is a literal), IdentityEscape = any unit but c -- tried after the other escapes, so `\x`, `\u` without their digits, `\8`, `\9`
   and `\k`, `\p` are identity escapes; with u a lone `{` `}` `]` is no Pattern and these escapes are errors.
   The units are the ones the validator reads (code points with u, UTF-16 code units without).
   From any validator state, in both modes: the model accepts exactly the Patterns (Pattern u s: s is a Disjunction whose
   NcapturingParens parameter equals the number of capturing groups of its own derivation). *)
Theorem C12_fragment_equiv : forall st s u, in_fragment u (visible_units s u) = true ->
  (verdict_of (validate_pattern st s u) = VOk <-> Pattern u (visible_units s u)).
Proof. exact fragment_equiv. Qed.
Print Assumptions C12_fragment_equiv.

Theorem C12_fragment_reject : forall st s u, in_fragment u (visible_units s u) = true -> ~ Pattern u (visible_units s u) ->
  exists m, verdict_of (validate_pattern st s u) = VErr m.
Proof. exact fragment_reject. Qed.
Print Assumptions C12_fragment_reject.

(* the executable recogniser that is cross-validated against V8 decides the grammar (every input, both modes).  in_grammar
   (the inputs on which Grammar.v is the whole ES2022 grammar: no named groups, no property escapes, no \k with u; where the
   recogniser is compared with V8) contains in_fragment, which adds the bounds on decimal numbers. *)
Theorem C12_recogniser_decides_grammar : forall u l, recognises u l = true <-> Pattern u l.
Proof. exact recognises_iff_Pattern. Qed.
Print Assumptions C12_recogniser_decides_grammar.

Theorem C12_in_fragment_in_grammar : forall u l, in_fragment u l = true -> in_grammar u l = true.
Proof. exact in_fragment_in_grammar. Qed.
Print Assumptions C12_in_fragment_in_grammar.

(* non-vacuity.  ex_valid = the 35 units of  ^ \b ( a | \d STAR ) PLUS ? (?<= \. ) (?! \w ) (?: e | ) ? \B $  and
   ex_braced = a{2}b{3,}?c{4,15}(?:d|e){0} : in the fragment, Patterns, accepted, in both modes;
   ex_annexb_all = (?= a ) STAR b ,  \a ,  a{ ,  a{1 ,  a{,5} ,  x}y]z ,  { ,  (?=a){2} : Patterns without u only (Annex B),
   accepted without u only;
   ex_invalid_all = a STAR STAR, a lone open paren, ^ STAR, a quantified look-behind, \b STAR, \d STAR STAR, a{2,1}, {1}, a|{1,2},
   ^{3}, a{1}{2}, (?<=a){1} : neither Patterns nor accepted, in both modes;
   ex_big_in = a{9223372036854775807,9223372036854775806} is in the fragment and rejected by both;
   ex_big_out = a{9223372036854775808,9223372036854775807} is not a Pattern and not in the fragment (bounds >= 2^63);
   ex_escapes_both = \0  \cJ  \x41  \u0041  \uD83D\uDE00  \uD83D  \uDE00  \n  \/  \x41{2}\cJ*\uD83D\uDE00+\0? : Patterns, accepted, both modes;
   ex_escapes_annexb = \c  \c1  \c*  \x  \x4  \xg  \u  \u004  \u{110000}  \u{}  \u{41  \k  \p  \-  \_  \a  a\c : Patterns and accepted
   without u; not Patterns with u, and rejected with u where in the fragment (\k, \p are outside it with u);
   ex_code_points = \u{41}  \u{10FFFF}  \u{000000041}  \u{1F600}+ : Patterns and accepted with u;
   ex_escapes_invalid = \c**  \x41**  (\u0041  \0{2,1} : neither Patterns nor accepted, both modes;
   ex_backrefs = (a)\1  \1(a)  ((a))\2  (?=(a))\1  (a)(b)(c)(d)(e)(f)(g)(h)(i)(j)\10 : Patterns, accepted, both modes;
   ex_backrefs_annexb = \1  (a)\2  \8  \18  \00  \07  \377  \400  \08  (?:a)\1  \(\1  (a)\18 : Patterns and accepted without u only;
   \1**  (\1  \1{2,1} : neither Patterns nor accepted, both modes;
   classes: ex_classes = [a-z] [^a] [] [^] [a-] [-a] [--a] [\b-a] [\-] [\ca-\cb] [\0-9] [a-b-c] [\n-\r] [(]
   ([(])\1 [\]] [[] are Patterns in both modes; ex_classes_annexb = [\d-a] [a-\d] [\c1] [\c_-a] [\c] [\1] [\8] [\x4] [b-\u{61}] [a]] [\B] [\k]
   [\00-\07] [\_] without u only; [z-a] [a--] [a-\b] [\r-\n] [a-\-] [a [\] in neither mode (Patterns / accepted by the validator alike) *)
Example C12_fragment_example_valid : forall st u,
  in_fragment u ex_valid = true /\ Pattern u ex_valid /\ verdict_of (validate_pattern st ex_valid u) = VOk.
Proof. intros st u. split; [exact (ex_valid_ok u)|split; [exact (ex_valid_pattern u) | exact (ex_valid_accepted st u)]]. Qed.
Example C12_fragment_example_braced : forall st u,
  in_fragment u ex_braced = true /\ Pattern u ex_braced /\ verdict_of (validate_pattern st ex_braced u) = VOk.
Proof. exact ex_braced_valid. Qed.
Example C12_fragment_example_annexb : forall st l, In l ex_annexb_all ->
  (Pattern false l /\ verdict_of (validate_pattern st l false) = VOk) /\
  (~ Pattern true l /\ verdict_of (validate_pattern st l true) <> VOk).
Proof. exact ex_annexb_modes. Qed.
Example C12_fragment_example_invalid : forall st u l, In l ex_invalid_all ->
  ~ Pattern u (visible_units l u) /\ verdict_of (validate_pattern st l u) <> VOk.
Proof. exact ex_invalid. Qed.
Example C12_fragment_example_big_bounds : forall st u,
  (in_fragment u ex_big_in = true /\ ~ Pattern u ex_big_in /\ verdict_of (validate_pattern st ex_big_in u) <> VOk) /\
  (in_fragment u ex_big_out = false /\ ~ Pattern u ex_big_out).
Proof. exact ex_big_bounds. Qed.
Example C12_fragment_example_escapes : forall st u l, In l ex_escapes_both ->
  Pattern u (visible_units l u) /\ verdict_of (validate_pattern st l u) = VOk.
Proof. exact ex_escapes_valid. Qed.
Example C12_fragment_example_escapes_annexb : forall st l, In l ex_escapes_annexb ->
  (Pattern false l /\ verdict_of (validate_pattern st l false) = VOk) /\
  (~ Pattern true l /\ (in_fragment true l = true -> verdict_of (validate_pattern st l true) <> VOk)).
Proof. exact ex_escapes_annexb_modes. Qed.
Example C12_fragment_example_code_points : forall st l, In l ex_code_points ->
  Pattern true l /\ verdict_of (validate_pattern st l true) = VOk.
Proof. exact ex_code_points_valid. Qed.
Example C12_fragment_example_escapes_invalid : forall st u l, In l ex_escapes_invalid ->
  ~ Pattern u (visible_units l u) /\ verdict_of (validate_pattern st l u) <> VOk.
Proof. exact ex_escapes_invalid_both. Qed.
Example C12_fragment_example_backrefs : forall st u l, In l ex_backrefs ->
  Pattern u (visible_units l u) /\ verdict_of (validate_pattern st l u) = VOk.
Proof. exact ex_backrefs_valid. Qed.
Example C12_fragment_example_backrefs_annexb : forall st l, In l ex_backrefs_annexb ->
  (Pattern false l /\ verdict_of (validate_pattern st l false) = VOk) /\
  (~ Pattern true l /\ verdict_of (validate_pattern st l true) <> VOk).
Proof. exact ex_backrefs_annexb_modes. Qed.
Example C12_fragment_example_backrefs_invalid : forall st u l, In l [[92;49;42;42]; [40;92;49]; [92;49;123;50;44;49;125]] ->
  ~ Pattern u (visible_units l u) /\ verdict_of (validate_pattern st l u) <> VOk.
Proof. exact ex_backrefs_invalid. Qed.
Example C12_fragment_example_classes : forall st u l, In l ex_classes ->
  Pattern u (visible_units l u) /\ verdict_of (validate_pattern st l u) = VOk.
Proof. exact ex_classes_patterns. Qed.
Example C12_fragment_example_classes_annexb : forall st l, In l ex_classes_annexb ->
  (Pattern false l /\ verdict_of (validate_pattern st l false) = VOk) /\
  (~ Pattern true l /\ verdict_of (validate_pattern st l true) <> VOk).
Proof. exact ex_classes_annexb_modes. Qed.
Example C12_fragment_example_classes_invalid : forall st u l,
  In l [[91;122;45;97;93]; [91;97;45;45;93]; [91;97;45;92;98;93]; [91;92;114;45;92;110;93]; [91;97;45;92;45;93]; [91;97]; [91;92;93]] ->
  ~ Pattern u (visible_units l u) /\ verdict_of (validate_pattern st l u) <> VOk.
Proof. exact ex_classes_invalid. Qed.
