(* C13 — Applying a quick fix yields valid code and removes the reported problem.
   Builders' lexical contracts + the application algebra; "still parses" itself is delegated to the real
   parser in the correspondence stage (tools/props_c13.py).  The builders are those of the repaired tree;
   `_before_fix_refuted` = historic witness of a defect of the builder before its `fix:` commit. *)
From V Require Import Text.FixApply Text.FixBuilders.
From Coq Require Import String.
Open Scope N_scope.

(* ---------------- application algebra (byte level; A = N bytes) *)
Theorem C13_apply_nil : forall text : list N, apply_fix text [] = Some text.
Proof. exact apply_fix_nil. Qed.
Print Assumptions C13_apply_nil.

Theorem C13_apply_single : forall (text : list N) s e n,
  s <= e -> e <= len text ->
  apply_fix text [(s, e, n)] = Some (firstn (N.to_nat s) text ++ n ++ skipn (N.to_nat e) text).
Proof. exact apply_fix_single. Qed.
Print Assumptions C13_apply_single.

(* defined exactly on sorted, pairwise disjoint, in-bounds changes with start <= end *)
Theorem C13_apply_defined : forall (text : list N) chs,
  apply_fix text chs <> None <-> valid_changes (len text) chs = true.
Proof. exact apply_fix_defined. Qed.
Print Assumptions C13_apply_defined.

Theorem C13_apply_length : forall (text : list N) chs t',
  apply_fix text chs = Some t' -> len t' + removed chs = len text + inserted chs.
Proof. exact apply_fix_length. Qed.
Print Assumptions C13_apply_length.

(* text outside the changes is preserved *)
Theorem C13_apply_preserved : forall (text : list N) chs t' i,
  apply_fix text chs = Some t' -> outside chs i ->
  nth_error t' (N.to_nat (newpos 0 chs i)) = nth_error text (N.to_nat i).
Proof. exact apply_fix_preserved. Qed.
Print Assumptions C13_apply_preserved.

Theorem C13_apply_segments : forall (segs : list (@seg N)) fin,
  apply_fix (utf8 (seg_text segs fin)) (seg_changes_bytes 0 segs) = Some (utf8 (seg_new segs fin)).
Proof. exact apply_fix_utf8_segs. Qed.
Print Assumptions C13_apply_segments.

Theorem C13_apply_sorted_first : forall (text : list N) chs,
  valid_changes (len text) chs = true -> apply_sorted text chs = apply_fix text chs.
Proof. exact apply_sorted_valid. Qed.
Print Assumptions C13_apply_sorted_first.

(* ---------------- jsx-curly-braces *)
(* every offered attribute fix is ONE attribute string *)
Theorem C13_curly_attr_fix_wellformed : forall v s, curly_attr_fix v = Some s -> jsx_attr_string s.
Proof. exact curly_attr_fix_wellformed. Qed.
Print Assumptions C13_curly_attr_fix_wellformed.

Theorem C13_curly_attr_fix_none_iff : forall v, curly_attr_fix v = None <-> In DQ v /\ In SQ v.
Proof. exact curly_attr_fix_none_iff. Qed.
Print Assumptions C13_curly_attr_fix_none_iff.

Theorem C13_curly_attr_change_range : forall s e v c, curly_attr_change s e v = Some c -> fst c = (s, e).
Proof. exact curly_attr_change_range. Qed.
Print Assumptions C13_curly_attr_change_range.

Theorem C13_curly_attr_fix_before_fix_refuted : exists v, ~ jsx_attr_string (curly_attr_fix_before_fix v).
Proof. exact curly_attr_fix_before_fix_refuted. Qed.
Print Assumptions C13_curly_attr_fix_before_fix_refuted.

Theorem C13_curly_child_fix_wellformed : forall v s, curly_child_fix v = Some s -> jsx_text s.
Proof. exact curly_child_fix_wellformed. Qed.
Print Assumptions C13_curly_child_fix_wellformed.

(* ---------------- jsx-no-unescaped-entities *)
Theorem C13_entities_fix_clean : forall s, ~ In LBRACE s -> ~ In LT s -> jsx_text (escape s).
Proof. exact entities_fix_clean. Qed.
Print Assumptions C13_entities_fix_clean.

Theorem C13_escape_idempotent : forall s, escape (escape s) = escape s.
Proof. exact escape_idempotent. Qed.
Print Assumptions C13_escape_idempotent.

Theorem C13_entities_fix_removes : forall s, entities_reported (escape s) = false.
Proof. exact entities_fix_removes. Qed.
Print Assumptions C13_entities_fix_removes.

(* ---------------- jsx-boolean-value *)
Theorem C13_boolean_fix_result : forall pre name rest post,
  apply_fix (utf8 (pre ++ name ++ rest ++ post))
            [ch_bytes (boolean_change (Some (bytes (pre ++ name))) (bytes (pre ++ name)) (bytes (pre ++ name) + bytes rest) (hd_error post))]
  = Some (utf8 (pre ++ name ++ (if glued_next (hd_error post) then [32] else []) ++ post)).
Proof. exact boolean_fix_result. Qed.
Print Assumptions C13_boolean_fix_result.

(* what follows the attribute name afterwards can never continue the name *)
Theorem C13_boolean_fix_next_char : forall pre name rest post,
  exists tail,
    apply_fix (utf8 (pre ++ name ++ rest ++ post))
              [ch_bytes (boolean_change (Some (bytes (pre ++ name))) (bytes (pre ++ name)) (bytes (pre ++ name) + bytes rest) (hd_error post))]
    = Some (utf8 (pre ++ name ++ tail)) /\ glued_next (hd_error tail) = false.
Proof. exact boolean_fix_next_char. Qed.
Print Assumptions C13_boolean_fix_next_char.

Theorem C13_boolean_fix_before_fix_refuted :
  exists pre name rest post,
    pre ++ name ++ rest ++ post = s2l "<Foo a:b={true}c:d />" /\
    apply_fix (utf8 (pre ++ name ++ rest ++ post))
      [ch_bytes (boolean_change_before_fix (Some (bytes (pre ++ name))) (bytes (pre ++ name)) (bytes (pre ++ name) + bytes rest))]
    = Some (utf8 (s2l "<Foo a:bc:d />")).
Proof. exact boolean_fix_before_fix_refuted. Qed.
Print Assumptions C13_boolean_fix_before_fix_refuted.

(* ---------------- jsx-props-no-spread-multi (tokens are inputs) *)
Theorem C13_spread_fix_range_ok : forall pre gap inner post oe cs,
  let text := pre ++ (gap ++ [LBRACE] ++ inner ++ [RBRACE]) ++ post in
  let open := Some (true, bytes (pre ++ gap), oe) in
  let close := Some (true, cs, bytes pre + bytes (gap ++ [LBRACE] ++ inner ++ [RBRACE])) in
  exists c, spread_change open close (Some (bytes pre)) = Some c /\
    apply_fix (utf8 text) [ch_bytes c] = Some (utf8 (pre ++ post)) /\
    boundary text (fst (fst c)) /\ boundary text (snd (fst c)).
Proof. exact spread_fix_range_ok. Qed.
Print Assumptions C13_spread_fix_range_ok.

Theorem C13_spread_fix_needs_braces : forall open close prev c,
  spread_change open close prev = Some c ->
  exists os oe cs ce, open = Some (true, os, oe) /\ close = Some (true, cs, ce) /\ snd (fst c) = ce /\ snd c = [].
Proof. exact spread_fix_needs_braces. Qed.
Print Assumptions C13_spread_fix_needs_braces.

Theorem C13_spread_fix_before_fix_refuted :
  (exists pre spread post c r,
      let text := pre ++ [LBRACE] ++ spread ++ [RBRACE] ++ post in
      braces_balanced text = true /\
      spread_change_before_fix (bytes pre + 1) (bytes pre + 1 + bytes spread) = Some c /\
      apply_fix (utf8 text) [ch_bytes c] = Some (utf8 r) /\ braces_balanced r = false) /\
  (exists pre spread post c,
      let text := pre ++ [LBRACE] ++ spread ++ [RBRACE] ++ post in
      spread_change_before_fix (bytes pre + 1) (bytes pre + 1 + bytes spread) = Some c /\
      ~ boundary text (fst (fst c))).
Proof. exact spread_fix_before_fix_refuted. Qed.
Print Assumptions C13_spread_fix_before_fix_refuted.

(* the two historic witnesses with the token-based range *)
Theorem C13_spread_fix_witnesses_now_ok :
  (exists c, spread_change (Some (true, 9, 10)) (Some (true, 14, 15)) (Some 9) = Some c /\
     apply_fix (utf8 (s2l "<a {...x}{...x}/>")) [ch_bytes c] = Some (utf8 (s2l "<a {...x}/>"))) /\
  (exists c, spread_change (Some (true, 12, 13)) (Some (true, 17, 18)) (Some 9) = Some c /\
     apply_fix (utf8 (s2l "<a {...x}" ++ [12288] ++ s2l "{...x}/>")) [ch_bytes c] = Some (utf8 (s2l "<a {...x}/>"))).
Proof. exact spread_fix_witnesses_now_ok. Qed.
Print Assumptions C13_spread_fix_witnesses_now_ok.

(* ---------------- no-window / no-window-prefix / no-node-globals (global) *)
Theorem C13_global_this_ident : ident GLOBAL_THIS.
Proof. exact global_this_ident. Qed.
Print Assumptions C13_global_this_ident.

Theorem C13_global_this_not_flagged :
  str_eqb GLOBAL_THIS WINDOW = false /\ lookup GLOBAL_THIS node_globals = None /\ str_eqb GLOBAL_THIS PROCESS = false.
Proof. exact global_this_not_flagged. Qed.
Print Assumptions C13_global_this_not_flagged.

Theorem C13_rename_fix_result : forall pre name post,
  apply_fix (utf8 (pre ++ name ++ post)) [ch_bytes (rename_change (bytes pre) (bytes pre + bytes name))]
  = Some (utf8 (pre ++ GLOBAL_THIS ++ post)).
Proof. exact rename_fix_result. Qed.
Print Assumptions C13_rename_fix_result.

(* ---------------- no-process-global / no-node-globals (imports) *)
Theorem C13_import_line_wellformed : forall fk nl,
  In fk import_kinds -> import_line_ok nl (to_text fk nl) = true /\ count NL (to_text fk NlNone) = 0.
Proof. exact import_line_wellformed. Qed.
Print Assumptions C13_import_line_wellformed.

Theorem C13_node_globals_kinds : forall name fk,
  lookup name node_globals = Some fk -> In fk import_kinds \/ fk = FK_GLOBAL.
Proof. exact node_globals_kinds. Qed.
Print Assumptions C13_node_globals_kinds.

Theorem C13_import_fix_result : forall pre post fk nl,
  apply_fix (utf8 (pre ++ post)) [ch_bytes (bytes pre, bytes pre, to_text fk nl)] = Some (utf8 (pre ++ to_text fk nl ++ post)).
Proof. exact import_fix_result. Qed.
Print Assumptions C13_import_fix_result.

(* an insertion with the newline on the side of the neighbouring code (a blank instead when more code follows the last
   import on its line); no import fix in a CommonJS file *)
Theorem C13_global_change_shape : forall last code_start s e fk,
  In fk import_kinds ->
  global_change true last code_start s e fk = None /\
  exists a t, global_change false last code_start s e fk = Some (a, a, t) /\
    match last with
    | Some (p, inline) => a = p /\ t = to_text fk (if inline then NlInline else NlLeading)
    | None => a = code_start /\ t = to_text fk NlTrailing
    end.
Proof. exact global_change_shape. Qed.
Print Assumptions C13_global_change_shape.

(* ---------------- verbatim-module-syntax *)
Theorem C13_vms_all_changes_valid : forall kw_end total spans chs,
  vms_all_changes kw_end (map Some spans) = Some chs ->
  spans_sorted kw_end total spans = true ->
  valid_changes total (map ch_bytes chs) = true.
Proof. exact vms_all_changes_valid. Qed.
Print Assumptions C13_vms_all_changes_valid.

Theorem C13_vms_all_changes_none : forall kw_end spans, In None spans -> vms_all_changes kw_end spans = None.
Proof. exact vms_all_changes_none. Qed.
Print Assumptions C13_vms_all_changes_none.

Theorem C13_vms_all_fix_result : forall pre kw mid tyspan post,
  exists chs,
    vms_all_changes (bytes (pre ++ kw))
       [Some (bytes (pre ++ kw) + bytes mid, bytes (pre ++ kw) + bytes mid + bytes tyspan)] = Some chs /\
    apply_fix (utf8 (pre ++ kw ++ mid ++ tyspan ++ post)) (map ch_bytes chs)
    = Some (utf8 (pre ++ kw ++ TYPE_LEAD ++ mid ++ post)).
Proof. exact vms_all_fix_result. Qed.
Print Assumptions C13_vms_all_fix_result.

Theorem C13_vms_spec_fix_result : forall pre spec post c,
  vms_spec_change true (bytes pre) = Some c ->
  apply_fix (utf8 (pre ++ spec ++ post)) [ch_bytes c] = Some (utf8 (pre ++ TYPE_TRAIL ++ spec ++ post)).
Proof. exact vms_spec_fix_result. Qed.
Print Assumptions C13_vms_spec_fix_result.

Theorem C13_vms_spec_change_only_named : forall start, vms_spec_change false start = None.
Proof. exact vms_spec_change_only_named. Qed.
Print Assumptions C13_vms_spec_change_only_named.

(* ---------------- "apply the first fix repeatedly" terminates (GIVEN the per-fix decrease) *)
Theorem C13_fix_loop_terminates : forall (T : Type) (step : T -> option T) (m : T -> nat),
  (forall t t', step t = Some t' -> (m t' < m t)%nat) ->
  forall t, exists t' k, run step (m t) 0 t = Done t' k /\ step t' = None /\ (k <= m t)%nat.
Proof. exact @fix_loop_terminates. Qed.
Print Assumptions C13_fix_loop_terminates.

Theorem C13_fix_loop_none_left : forall (T : Type) (step : T -> option T) (m : T -> nat),
  (forall t t', step t = Some t' -> (m t' < m t)%nat) ->
  (forall t, step t = None -> m t = 0%nat) ->
  forall t, exists t' k, run step (m t) 0 t = Done t' k /\ m t' = 0%nat /\ (k <= m t)%nat.
Proof. exact @fix_loop_none_left. Qed.
Print Assumptions C13_fix_loop_none_left.
