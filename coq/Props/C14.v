(* C14 — Rules about global names respect lexical scoping. *)
From V Require Import Common.Str Scope.MiniScope Gen.Readers Scope.ReaderFacts.
Open Scope N_scope.

(* a reference is unresolved (global, for the rules) exactly when no enclosing declaration binds its name:
   any binding form, any nesting depth between the declaration and the reference, `var` hoisted to its function *)
Theorem C14_unresolved_iff_unbound : forall t p x,
  ref_at t p = Some x -> (resolve_prog t p = Some Unresolved <-> ~ bound_at t p x).
Proof. exact unresolved_iff_unbound. Qed.
Print Assumptions C14_unresolved_iff_unbound.

Theorem C14_bound_iff_enclosed : forall t p x,
  ref_at t p = Some x -> ((exists fs, resolve_prog t p = Some (Bound fs)) <-> bound_at t p x).
Proof. exact bound_iff_enclosed. Qed.
Print Assumptions C14_bound_iff_enclosed.

Theorem C14_bound_names_enclosing_declarations : forall t p x fs,
  ref_at t p = Some x -> resolve_prog t p = Some (Bound fs) ->
  fs <> [] /\ forall f, In f fs -> Encl (Fun t) (In_ :: p) x f.
Proof. exact bound_names_enclosing_declarations. Qed.
Print Assumptions C14_bound_names_enclosing_declarations.

(* the rule scheme "report a reference to one of my global names iff the scope query says unresolved" reports exactly
   the references that no enclosing declaration binds *)
Theorem C14_report_iff : forall names t p,
  In p (reports names t) <-> exists x, ref_at t p = Some x /\ In x names /\ ~ bound_at t p x.
Proof. exact report_iff. Qed.
Print Assumptions C14_report_iff.

(* property keys, member names and labels never bind *)
Theorem C14_prop_keys_never_bind : forall t p x,
  binder_free t = true -> ref_at t p = Some x -> resolve_prog t p = Some Unresolved.
Proof. exact prop_keys_never_bind. Qed.
Print Assumptions C14_prop_keys_never_bind.

Theorem C14_key_member_label_names_irrelevant : forall env y z e p,
  resolve env (PropKey y e) p = resolve env (PropKey z e) p /\
  resolve env (Member e y) p = resolve env (Member e z) p /\
  resolve env (Label y e) p = resolve env (Label z e) p.
Proof. exact key_member_label_names_irrelevant. Qed.
Print Assumptions C14_key_member_label_names_irrelevant.

(* same-named bindings in non-enclosing scopes do not bind *)
Theorem C14_sibling_scopes_do_not_bind : forall s b p x,
  ref_at b p = Some x -> (forall f, ~ DeclVar s x f) -> (forall f, ~ DeclLex s x f) ->
  resolve_prog (Seq s b) (R :: p) = resolve_prog b p /\ resolve_prog (Seq b s) (L :: p) = resolve_prog b p.
Proof. exact sibling_scopes_do_not_bind. Qed.
Print Assumptions C14_sibling_scopes_do_not_bind.

Theorem C14_sibling_function_does_not_bind : forall a b p x, ref_at b p = Some x ->
  resolve_prog (Seq (Fun a) b) (R :: p) = resolve_prog b p.
Proof. exact sibling_function_does_not_bind. Qed.
Print Assumptions C14_sibling_function_does_not_bind.

Theorem C14_sibling_block_does_not_bind : forall a b p x, ref_at b p = Some x ->
  (forall f, ~ DeclVar a x f) -> resolve_prog (Seq (Block a) b) (R :: p) = resolve_prog b p.
Proof. exact sibling_block_does_not_bind. Qed.
Print Assumptions C14_sibling_block_does_not_bind.

Theorem C14_sibling_binder_does_not_bind : forall f y inner rest p x, ref_at rest p = Some x ->
  (forall g, ~ DeclVar inner x g) -> resolve_prog (Sibling f y inner rest) (R :: p) = resolve_prog rest p.
Proof. exact sibling_binder_does_not_bind. Qed.
Print Assumptions C14_sibling_binder_does_not_bind.

(* rules that ask deno_ast's Scope: exact whenever every binding form of the program is one deno_ast records;
   otherwise they additionally report the references bound only by unrecorded forms (the known-finding classes) *)
Theorem C14_scope_var_exact_when_recorded : forall rec names t,
  (forall f, In f (forms_of t) -> rec f = true) -> reports_scope_var rec names t = reports names t.
Proof. exact scope_var_exact_when_recorded. Qed.
Print Assumptions C14_scope_var_exact_when_recorded.

Theorem C14_report_scope_var_iff : forall rec names t p,
  In p (reports_scope_var rec names t) <->
  exists x, ref_at t p = Some x /\ In x names /\
    (~ bound_at t p x \/ exists fs, resolve_prog t p = Some (Bound fs) /\ forall f, In f fs -> rec f = false).
Proof. exact report_scope_var_iff. Qed.
Print Assumptions C14_report_scope_var_iff.

Theorem C14_scope_var_misses_unrecorded :
  let t := Seq (Decl (mkForm KTsEnum false) nW) (Member (Ref nW) [97]) in
  reports [nW] t = [] /\ reports_scope_var recorded_deno_ast [nW] t = [[R; In_]] /\ bound_at t [R; In_] nW.
Proof. exact scope_var_misses_unrecorded. Qed.
Print Assumptions C14_scope_var_misses_unrecorded.

(* generated-table obligations: every comparison of an identifier with a global name consults the scope analysis
   (except the listed prefer-primordials handlers), in every rule of the property's list *)
Theorem C14_nothing_unclassified : c14_unknown = [].
Proof. exact c14_nothing_unclassified. Qed.
Print Assumptions C14_nothing_unclassified.

Theorem C14_comparisons_consult_scope :
  forall s, In s c14_sites -> s_consults s = true \/ In (site_key s) known_unscoped.
Proof. exact c14_comparisons_consult_scope. Qed.
Print Assumptions C14_comparisons_consult_scope.

Theorem C14_every_rule_has_a_comparison :
  forall r, In r c14_rules -> exists s, In s c14_sites /\ s_rule s = r.
Proof. exact c14_every_rule_has_a_comparison. Qed.
Print Assumptions C14_every_rule_has_a_comparison.

Theorem C14_known_unscoped_still_present :
  forall k, In k known_unscoped -> exists s, In s c14_sites /\ site_key s = k /\ s_consults s = false.
Proof. exact c14_known_unscoped_still_present. Qed.
Print Assumptions C14_known_unscoped_still_present.
