(* C15 — Rule selection by tags, include and exclude follows its documented algebra. *)
From V Require Import Select.Select Select.SelectProofs Gen.Registry Select.RegistryFacts.
From Coq Require Import Permutation Sorted.
Open Scope N_scope.

(* exactly the rules that (carry a tag in T, or T is absent, or are listed in Inc) and are not listed in Exc *)
Theorem C15_filtered_spec : forall all T Exc Inc r,
  In r (filtered_rules all T Exc Inc) <-> In r all /\ (tagged T r \/ listed Inc r) /\ ~ listed Exc r.
Proof. exact filtered_spec. Qed.
Print Assumptions C15_filtered_spec.

(* each once *)
Theorem C15_filtered_perm : forall all T Exc Inc,
  Permutation (filtered_rules all T Exc Inc) (filter (passes T Exc Inc) all).
Proof. exact filtered_perm. Qed.
Print Assumptions C15_filtered_perm.

Theorem C15_filtered_nodup_on_registry : forall T Exc Inc,
  NoDup (map r_code (filtered_rules registry T Exc Inc)).
Proof. exact filtered_nodup_on_registry. Qed.
Print Assumptions C15_filtered_nodup_on_registry.

(* sorted by code *)
Theorem C15_filtered_sorted : forall all T Exc Inc,
  StronglySorted (fun a b => str_leb (r_code a) (r_code b) = true) (filtered_rules all T Exc Inc).
Proof. exact filtered_sorted. Qed.
Print Assumptions C15_filtered_sorted.

Theorem C15_unknown_names_ignored : forall all T Exc Inc,
  filtered_rules all T (option_map (filter (known_in all)) Exc) (option_map (filter (known_in all)) Inc)
  = filtered_rules all T Exc Inc.
Proof. exact unknown_names_ignored. Qed.
Print Assumptions C15_unknown_names_ignored.

Theorem C15_exclude_beats_include : forall all T Exc Inc r,
  listed Exc r -> ~ In r (filtered_rules all T Exc Inc).
Proof. exact exclude_beats_include. Qed.
Print Assumptions C15_exclude_beats_include.

(* the recommended set is exactly the rules tagged recommended -- on the registry regenerated from
   the implementation: it is what the implementation returned, and it is selection by the tag *)
Theorem C15_recommended_spec : forall all r,
  In r (recommended_rules all) <-> In r all /\ In RECOMMENDED (r_tags r).
Proof. exact recommended_spec. Qed.
Print Assumptions C15_recommended_spec.

Theorem C15_registry_recommended_agrees : map r_code (recommended_rules registry) = impl_recommended.
Proof. exact registry_recommended_agrees. Qed.
Print Assumptions C15_registry_recommended_agrees.

Theorem C15_registry_recommended_is_tag :
  recommended_rules registry = filtered_rules registry (Some [RECOMMENDED]) None None.
Proof. exact registry_recommended_is_tag. Qed.
Print Assumptions C15_registry_recommended_is_tag.

(* generated-table obligations *)
Theorem C15_registry_codes_nodup : NoDup (map r_code registry).
Proof. exact registry_codes_nodup. Qed.
Print Assumptions C15_registry_codes_nodup.

Theorem C15_registry_tags_known : forall r, In r registry -> forall t, In t (r_tags r) -> In t all_tags.
Proof. exact registry_tags_known. Qed.
Print Assumptions C15_registry_tags_known.

(* the linter runs exactly the selected rules (a permutation), by priority then code, so the
   directive-accounting rules run last *)
Theorem C15_priority_sort_perm : forall rs, Permutation (sort_rules_by_priority rs) rs.
Proof. exact priority_sort_perm. Qed.
Print Assumptions C15_priority_sort_perm.

Theorem C15_priority_sort_sorted : forall rs,
  StronglySorted (fun a b => prio_leb a b = true) (sort_rules_by_priority rs).
Proof. exact priority_sort_sorted. Qed.
Print Assumptions C15_priority_sort_sorted.

Theorem C15_lower_priority_never_after : forall rs pre a post b,
  sort_rules_by_priority rs = pre ++ a :: post -> In b post -> r_prio a <= r_prio b.
Proof. exact accounting_rules_last. Qed.
Print Assumptions C15_lower_priority_never_after.

Theorem C15_registry_accounting_after_ordinary : forall a b, In a registry -> In b registry ->
  mem (r_code a) ACCOUNTING = false -> mem (r_code b) ACCOUNTING = true -> r_prio a < r_prio b.
Proof. exact registry_accounting_after_ordinary. Qed.
Print Assumptions C15_registry_accounting_after_ordinary.

(* the order in which rules are supplied is irrelevant (also used by C04) *)
Theorem C15_rule_order_irrelevant : forall rs rs',
  NoDup (map r_code rs) -> (forall a b, In a rs -> In b rs -> r_code a = r_code b -> a = b) ->
  Permutation rs rs' -> sort_rules_by_priority rs = sort_rules_by_priority rs'.
Proof. exact rule_order_irrelevant. Qed.
Print Assumptions C15_rule_order_irrelevant.

(* dlint's two selections (examples/dlint): `--rule c` and a config file *)
Theorem C15_rule_flag_selects_exactly : forall all c r,
  In r (dlint_rule_flag all c) <-> In r all /\ r_code r = c.
Proof. exact rule_flag_selects_exactly. Qed.
Print Assumptions C15_rule_flag_selects_exactly.

Theorem C15_config_selects : forall all tags excl incl r,
  In r (dlint_config_rules all tags excl incl) <->
  In r all /\ ((exists t, In t (r_tags r) /\ In t tags) \/ In (r_code r) incl) /\ ~ In (r_code r) excl.
Proof. exact config_selects. Qed.
Print Assumptions C15_config_selects.
