(* C16 — Both entry points and the external-linter hook behave identically.
   (lint_file and lint_with_ast are the same function `lint_inner` of the parsed file in the model;
    their agreement on the implementation is established by the correspondence stage.) *)
From V Require Import Common.Sort Pipeline.Directive Pipeline.Pipeline Pipeline.DirectiveProofs
  Pipeline.PipelineProofs Pipeline.PipelineTheorems.
From Coq Require Import Permutation Sorted.
Open Scope N_scope.

Theorem C16_declining_callback_neutral : forall o orc f rd,
  lint_inner o orc f rd Declined = lint_inner o orc f rd NoCallback.
Proof. exact declining_callback_neutral. Qed.
Print Assumptions C16_declining_callback_neutral.

(* external diagnostics go through the very same suppression / accounting / sort *)
Theorem C16_external_same_pipeline : forall o orc f rd ed ec,
  lint_inner o orc f rd (ExtResult ed ec) =
  if ignore_all (find_file_dir (file_word o) (f_leading f)) then []
  else collect o orc f (find_file_dir (file_word o) (f_leading f)) (rd ++ ed) ec.
Proof. exact external_same_pipeline. Qed.
Print Assumptions C16_external_same_pipeline.

Theorem C16_external_like_builtin : forall o orc f rd ed,
  lint_inner o orc f rd (ExtResult ed []) = lint_inner o orc f (rd ++ ed) NoCallback.
Proof. exact external_like_builtin. Qed.
Print Assumptions C16_external_like_builtin.

Theorem C16_output_sorted : forall o orc f rd ext,
  StronglySorted (le diag_leb) (lint_inner o orc f rd ext).
Proof. exact output_sorted_always. Qed.
Print Assumptions C16_output_sorted.

(* a whole-file (range-less) external diagnostic is kept unless the file-level directive names its code *)
Theorem C16_rangeless_kept : forall o orc f rd ext,
  ignore_all (find_file_dir (file_word o) (f_leading f)) = false ->
  forall d, In d (rd ++ ext_diags ext) -> d_range d = None ->
  file_has (find_file_dir (file_word o) (f_leading f)) (d_code d) = false ->
  In d (lint_inner o orc f rd ext).
Proof. exact rangeless_kept. Qed.
Print Assumptions C16_rangeless_kept.

From V Require Import Pipeline.Accounting Pipeline.WellFormed Pipeline.AccountingFinal.
(* the rule codes an external linter declares count as known and as enabled for directive accounting: a directive
   naming such a code is never reported as unknown and is reported as unused exactly when it suppressed nothing *)
Theorem C16_external_code_accounting : forall o orc f raw ec k d c,
  oracle_ok orc -> wf_file f -> file_word o <> line_word o ->
  let fd := find_file_dir (file_word o) (f_leading f) in
  In (k, d) (c_dirs o orc f fd) -> In c (dir_codes d) -> In c ec ->
  n_unknown o orc f fd raw ec k d c = 0%nat /\
  n_unused o orc f fd raw ec k d c = (if negb (used o orc f fd raw ec k c) && negb (unused_switch fd) then 1%nat else 0%nat).
Proof. exact external_code_accounting. Qed.
Print Assumptions C16_external_code_accounting.
