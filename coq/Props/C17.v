(* C17 — Custom directive names are honoured independently of each other.
   All of C05–C07's theorems are stated for arbitrary options `o`, i.e. they already
   quantify over every custom word; what is specific to C17 is the plumbing. *)
From V Require Import Common.Sort Pipeline.Directive Pipeline.Pipeline Pipeline.DirectiveProofs
  Pipeline.PipelineProofs Pipeline.PipelineTheorems.
Open Scope N_scope.

Theorem C17_file_word_from_file_option : forall fw lw lw' r a,
  file_word (mkOpts fw lw r a) = file_word (mkOpts fw lw' r a).
Proof. exact file_word_from_file_option. Qed.
Print Assumptions C17_file_word_from_file_option.

Theorem C17_line_word_from_line_option : forall fw fw' lw r a,
  line_word (mkOpts fw lw r a) = line_word (mkOpts fw' lw r a).
Proof. exact line_word_from_line_option. Qed.
Print Assumptions C17_line_word_from_line_option.

Theorem C17_custom_file_word : forall w lw r a, file_word (mkOpts (Some w) lw r a) = w.
Proof. exact custom_file_word. Qed.
Print Assumptions C17_custom_file_word.

Theorem C17_custom_line_word : forall fw w r a, line_word (mkOpts fw (Some w) r a) = w.
Proof. exact custom_line_word. Qed.
Print Assumptions C17_custom_line_word.

Theorem C17_default_file_word : forall lw r a, file_word (mkOpts None lw r a) = W_FILE.
Proof. exact default_file_word. Qed.
Print Assumptions C17_default_file_word.

Theorem C17_default_line_word : forall fw r a, line_word (mkOpts fw None r a) = W_LINE.
Proof. exact default_line_word. Qed.
Print Assumptions C17_default_line_word.

(* exactly the configured word acts as a directive: any other first word (the default of an
   overridden kind included) is not recognised *)
Theorem C17_only_configured_word_recognised : forall w w' c,
  w' <> w -> first_word (trim (c_text c)) = Some w' -> parse_dir w c = None.
Proof. exact only_configured_word_recognised. Qed.
Print Assumptions C17_only_configured_word_recognised.

Theorem C17_configured_word_recognised : forall w c,
  c_line c = true -> first_word (trim (c_text c)) = Some w -> exists d, parse_dir w c = Some d.
Proof. exact configured_word_recognised. Qed.
Print Assumptions C17_configured_word_recognised.

(* the guarantees of C05 hold verbatim with custom words *)
Theorem C17_custom_bare_file_directive_silences : forall w lw r a orc f rd ext d,
  find_file_dir w (f_leading f) = Some d -> dir_codes d = [] ->
  lint_inner (mkOpts (Some w) lw r a) orc f rd ext = [].
Proof. exact custom_bare_file_directive_silences. Qed.
Print Assumptions C17_custom_bare_file_directive_silences.
