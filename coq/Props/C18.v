(* C18 — JSX factory configuration affects nothing but unused-variable analysis. *)
From V Require Import Common.Str Jsx.Factory Jsx.FactoryProofs Gen.FactoryReaders Jsx.ReaderFacts.
From Coq Require Import String.
Open Scope N_scope.

(* generated from the source on every run: no other rule (no other file) reads the configuration *)
Theorem C18_only_no_unused_vars_reads_the_factories :
  factory_readers = [s2l "rules/no_unused_vars.rs"%string].
Proof. exact only_no_unused_vars_reads_the_factories. Qed.
Print Assumptions C18_only_no_unused_vars_reads_the_factories.

Theorem C18_pragma_wins : forall p d, effective (Some p) d = Some p.
Proof. exact pragma_wins. Qed.
Print Assumptions C18_pragma_wins.

Theorem C18_config_only_removes : forall c f x, In x (unused c f) -> In x (unused no_config f).
Proof. exact config_only_removes. Qed.
Print Assumptions C18_config_only_removes.

Theorem C18_removed_are_factory_idents : forall c f x,
  In x (unused no_config f) -> ~ In x (unused c f) ->
  (has_element f = true /\ pragma_factory f = None /\ In x (opt_idents (default_factory c)))
  \/ (has_fragment f = true /\ pragma_fragment f = None /\ In x (opt_idents (default_fragment c))).
Proof. exact removed_are_factory_idents. Qed.
Print Assumptions C18_removed_are_factory_idents.

Theorem C18_no_jsx_no_effect : forall c f,
  has_element f = false -> has_fragment f = false -> unused c f = unused no_config f.
Proof. exact no_jsx_no_effect. Qed.
Print Assumptions C18_no_jsx_no_effect.

Theorem C18_pragmas_make_config_irrelevant : forall c c' f p q,
  pragma_factory f = Some p -> pragma_fragment f = Some q -> unused c f = unused c' f.
Proof. exact pragmas_make_config_irrelevant. Qed.
Print Assumptions C18_pragmas_make_config_irrelevant.

Theorem C18_unused_spec : forall c f x,
  In x (unused c f) <-> In x (declared f) /\ ~ In x (used f) /\ ~ In x (factory_usages c f).
Proof. exact unused_spec. Qed.
Print Assumptions C18_unused_spec.
