(* C19 — dlint's report and exit status do not depend on scheduling.
   (Model of the REPAIRED example: recoverable parse diagnostics are stored with the file's
   diagnostics and printed by the sequential epilogue.) *)
From V Require Import Common.Interleave Dlint.Dlint Dlint.DlintProofs.
From Coq Require Import Permutation.
Open Scope N_scope.

(* any two orders of the same atomic actions leave the same counter and the same map *)
Theorem C19_shared_state_schedule_free : forall tr tr',
  Permutation tr tr' -> NoDup (map fst (inserts tr)) -> run_actions tr = run_actions tr'.
Proof. exact shared_state_schedule_free. Qed.
Print Assumptions C19_shared_state_schedule_free.

(* the whole report and the exit status are the same under every interleaving of the workers *)
Theorem C19_dlint_schedule_free : forall files tr1 tr2,
  NoDup (map fr_path files) ->
  Interleave action (map worker files) tr1 -> Interleave action (map worker files) tr2 ->
  dlint_run files tr1 = dlint_run files tr2.
Proof. exact dlint_schedule_free. Qed.
Print Assumptions C19_dlint_schedule_free.

Theorem C19_argument_order_irrelevant : forall files files' tr tr',
  NoDup (map fr_path files) -> Permutation files files' ->
  Interleave action (map worker files) tr -> Interleave action (map worker files') tr' ->
  dlint_run files tr = dlint_run files' tr'.
Proof. exact dlint_argument_order_irrelevant. Qed.
Print Assumptions C19_argument_order_irrelevant.

(* the problem count = lint diagnostics + recoverable parse diagnostics of the files that parse *)
Theorem C19_count_spec : forall files tr,
  Interleave action (map worker files) tr -> counter (run_actions tr) = total_count files.
Proof. exact dlint_count_spec. Qed.
Print Assumptions C19_count_spec.

(* exit status 1 exactly when the count is non-zero or a file fails to parse *)
Theorem C19_exit_spec : forall files tr,
  Interleave action (map worker files) tr ->
  snd (dlint_run files tr) = if existsb fr_fatal files || negb (total_count files =? 0) then 1 else 0.
Proof. exact dlint_exit_spec. Qed.
Print Assumptions C19_exit_spec.

From V Require Import Select.Select Select.SelectProofs.
(* rule selection of the dlint binary: `--rule c` runs exactly the rule with code c; a config file selects by the algebra of C15 *)
Theorem C19_rule_flag_selects_exactly : forall all c r,
  In r (dlint_rule_flag all c) <-> In r all /\ r_code r = c.
Proof. exact rule_flag_selects_exactly. Qed.
Print Assumptions C19_rule_flag_selects_exactly.
