(* C20 — Diagnostics do not depend on how local bindings are spelled. *)
From V Require Import Common.Str Scope.Rename Gen.Readers Scope.ReaderFacts.
Open Scope N_scope.

(* an Id-table program run on consistently renamed identifiers yields the renamed reports: same number, codes,
   positions and order -- for every renaming that is injective on the program's names and keeps the reserved spellings *)
Theorem C20_rename_equivariant : forall (reserved : str -> bool) (r : str -> str) (p : cmd),
  closed 0 p -> injective_on r (names p) -> avoids r reserved (names p) ->
  run reserved (rename r p) = rename_out r (run reserved p).
Proof. exact rename_equivariant. Qed.
Print Assumptions C20_rename_equivariant.

Theorem C20_rename_keeps_codes_and_positions : forall reserved r p,
  closed 0 p -> injective_on r (names p) -> avoids r reserved (names p) ->
  map fst (run reserved (rename r p)) = map fst (run reserved p).
Proof. exact rename_keeps_codes_and_positions. Qed.
Print Assumptions C20_rename_keeps_codes_and_positions.

(* the binding-tracking cores are such programs and commute with renaming *)
Theorem C20_core_rename_equivariant : forall (core : list event -> cmd) reserved r evs,
  core (map (rename_event r) evs) = rename r (core evs) -> closed 0 (core evs) ->
  injective_on r (names (core evs)) -> avoids r reserved (names (core evs)) ->
  run reserved (core (map (rename_event r) evs)) = rename_out r (run reserved (core evs)).
Proof. exact core_rename_equivariant. Qed.
Print Assumptions C20_core_rename_equivariant.

Theorem C20_no_redeclare_parametric : forall r evs,
  no_redeclare_core (map (rename_event r) evs) = rename r (no_redeclare_core evs).
Proof. exact no_redeclare_parametric. Qed.
Print Assumptions C20_no_redeclare_parametric.

Theorem C20_no_assign_parametric : forall r kind code evs,
  no_assign_core kind code (map (rename_event r) evs) = rename r (no_assign_core kind code evs).
Proof. exact no_assign_parametric. Qed.
Print Assumptions C20_no_assign_parametric.

Theorem C20_no_unused_parametric : forall r evs,
  no_unused_core (map (rename_event r) evs) = rename r (no_unused_core evs).
Proof. exact no_unused_parametric. Qed.
Print Assumptions C20_no_unused_parametric.

Theorem C20_prefer_const_parametric : forall r evs,
  prefer_const_core (map (rename_event r) evs) = rename r (prefer_const_core evs).
Proof. exact prefer_const_parametric. Qed.
Print Assumptions C20_prefer_const_parametric.

Theorem C20_cores_closed : forall evs kind code,
  closed 0 (no_redeclare_core evs) /\ closed 0 (no_assign_core kind code evs) /\
  closed 0 (no_unused_core evs) /\ closed 0 (prefer_const_core evs).
Proof. exact cores_closed. Qed.
Print Assumptions C20_cores_closed.

(* the hypotheses are needed (the property's eligibility conditions: fresh name, not a reserved spelling) *)
Theorem C20_injectivity_needed :
  let r := fun x : str => if str_eqb x nA then nB else x in
  map fst (run underscore (no_redeclare_core (map (rename_event r) ex_events)))
  <> map fst (run underscore (no_redeclare_core ex_events)).
Proof. exact injectivity_needed. Qed.
Print Assumptions C20_injectivity_needed.

Theorem C20_avoidance_needed :
  let r := fun x : str => if str_eqb x nA then [95; 97] else x in
  map fst (run underscore (no_unused_core (map (rename_event r) ex_events)))
  <> map fst (run underscore (no_unused_core ex_events)).
Proof. exact avoidance_needed. Qed.
Print Assumptions C20_avoidance_needed.

(* generated-table obligations: no rule iterates a table keyed by names (so neither order nor choice of reports can depend
   on a spelling); everything the scanner saw is classified *)
Theorem C20_nothing_unclassified : c20_unknown = [].
Proof. exact c20_nothing_unclassified. Qed.
Print Assumptions C20_nothing_unclassified.

Theorem C20_no_iteration_over_name_keyed_tables :
  forall c, In c c20_containers -> c_keykind c = 1 -> c_iterated c = false.
Proof. exact c20_no_iteration_over_name_keyed_tables. Qed.
Print Assumptions C20_no_iteration_over_name_keyed_tables.

Theorem C20_keys_classified : forall c, In c c20_containers -> c_keykind c = 0 \/ c_keykind c = 1.
Proof. exact c20_keys_classified. Qed.
Print Assumptions C20_keys_classified.

Theorem C20_listed_rules_scanned : c20_rules <> [] /\
  exists c, In c c20_containers /\ c_keykind c = 1 /\ In (c_rule c) c20_rules.
Proof. exact c20_listed_rules_scanned. Qed.
Print Assumptions C20_listed_rules_scanned.
