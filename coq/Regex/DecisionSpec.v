(* The decision of no-invalid-regexp as a function of the per-mode verdicts of the validator (which, by
   ValidatorReset.v, do not depend on the validator's history, and by ValidatorTotal.v are Ok or SyntaxErr):
     flags known (Some f):  report  <->  f is not a valid flag string  \/  the pattern is invalid in the mode
                                         selected by `u ∈ f`
     flags unknown (None):  report  <->  the pattern is invalid with u AND invalid without u. *)
From Coq Require Import List NArith ZArith Bool.
From V Require Import Common.Str Regex.Reader Regex.Validator Regex.RuleDecision Regex.ValidatorReset Regex.ValidatorTotal.
Import ListNotations.
Open Scope N_scope.

(* the verdict of a fresh validator *)
Definition pattern_invalid (pat : str) (u : bool) : bool :=
  match validate_pattern init_vst pat u with SyntaxErr _ _ => true | _ => false end.
Definition has_u (f : str) : bool := existsb (N.eqb 117) f.

Lemma check_pattern_cases st pat u :
  (pattern_invalid pat u = true /\ exists m s, check_pattern st pat u = PvInvalid m s) \/
  (pattern_invalid pat u = false /\ exists s, check_pattern st pat u = PvValid s).
Proof.
  pose proof (validator_history_independent st init_vst pat u) as Hind.
  pose proof (validator_total init_vst pat u) as T0.
  pose proof (validator_total st pat u) as T1.
  unfold pattern_invalid, check_pattern.
  set (r0 := validate_pattern init_vst pat u) in *. set (r1 := validate_pattern st pat u) in *. clearbody r0 r1.
  destruct T0 as [[s0 E0]|[m0 [s0 E0]]], T1 as [[s1 E1]|[m1 [s1 E1]]]; subst r0 r1; cbn in Hind; try discriminate.
  - right. split; [reflexivity|]. exists s1; reflexivity.
  - left. split; [reflexivity|]. exists m1, s1; reflexivity.
Qed.

Lemma both_modes_spec st pat :
  fst (both_modes st pat) = Report <-> pattern_invalid pat true = true /\ pattern_invalid pat false = true.
Proof.
  unfold both_modes.
  destruct (check_pattern_cases st pat true) as [[Hi [m [s ->]]]|[Hi [s ->]]]; rewrite Hi.
  - destruct (check_pattern_cases s pat false) as [[Hj [m' [s' ->]]]|[Hj [s' ->]]]; rewrite Hj; cbn [fst].
    + split; [intros _; split; reflexivity | reflexivity].
    + split; [discriminate | intros [_ Hf]; discriminate].
  - cbn [fst]. split; [discriminate | intros [Hf _]; discriminate].
Qed.

Theorem decision_rule_spec : forall st pat fl,
  fst (check_regex st pat fl) = Report <->
  match fl with
  | Some f => validate_flags f <> None \/ pattern_invalid pat (has_u f) = true
  | None => pattern_invalid pat true = true /\ pattern_invalid pat false = true
  end.
Proof.
  intros st pat [f|]; unfold check_regex; [|apply both_modes_spec].
  destruct (validate_flags f) as [m|] eqn:Ef.
  - cbn [fst]. split; [intros _; left; discriminate | reflexivity].
  - unfold has_u.
    destruct (check_pattern_cases st pat (existsb (N.eqb 117) f)) as [[Hi [m [s ->]]]|[Hi [s ->]]]; rewrite Hi; cbn [fst].
    + split; [intros _; right; reflexivity | reflexivity].
    + split; [discriminate | intros [Hc|Hc]; [exfalso; apply Hc; reflexivity | discriminate]].
Qed.

(* with check_regex_total: otherwise the decision is NoReport *)
Corollary decision_rule_no_report : forall st pat fl,
  fst (check_regex st pat fl) <> Report -> fst (check_regex st pat fl) = NoReport.
Proof. intros st pat fl H. destruct (check_regex_total st pat fl) as [E|E]; [contradiction | exact E]. Qed.

(* non-vacuity *)
Example decision_example_known_flags :    (* new RegExp("[", "g") reports; new RegExp("\\u{41}{1,2}", "u") does not *)
  fst (check_regex init_vst [91] (Some [103])) = Report /\
  fst (check_regex init_vst [92;117;123;52;49;125;123;49;44;50;125] (Some [117])) = NoReport.
Proof. split; vm_compute; reflexivity. Qed.
Example decision_example_unknown_flags :  (* new RegExp("\\u{41}{1,2}", flags): invalid without u only: no report *)
  fst (check_regex init_vst [92;117;123;52;49;125;123;49;44;50;125] None) = NoReport /\
  fst (check_regex init_vst [92;117;123;52;49;125;123;49;44;50;125] (Some [])) = Report.
Proof. split; vm_compute; reflexivity. Qed.

Print Assumptions decision_rule_spec.
