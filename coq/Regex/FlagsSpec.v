(* validate_flags (as written in validator.rs, Es2022) accepts exactly the duplicate-free strings over "gimuysdv".
   Note `v` IS accepted by the code (flag == 'v' && ecma_version >= Es2022). *)
From Coq Require Import List NArith Bool Lia.
From V Require Import Common.Str Regex.RuleDecision.
Import ListNotations.
Open Scope N_scope.

Definition flag_letters : list N := [103; 105; 109; 117; 121; 115; 100; 118]. (* g i m u y s d v *)

Lemma existsb_eqb_In (c : N) (l : list N) : existsb (N.eqb c) l = true <-> In c l.
Proof.
  rewrite existsb_exists. split.
  - intros [x [Hin Heq]]. apply N.eqb_eq in Heq. subst x. exact Hin.
  - intros Hin. exists c. split; [exact Hin | apply N.eqb_refl].
Qed.

Lemma flag_ok_In c : flag_ok c = true <-> In c flag_letters.
Proof. unfold flag_ok. apply existsb_eqb_In. Qed.

Lemma validate_flags_from_spec (fs : str) : forall seen,
  validate_flags_from seen fs = None <->
  NoDup fs /\ (forall c, In c fs -> ~ In c seen) /\ Forall (fun c => In c flag_letters) fs.
Proof.
  induction fs as [|c r IH]; intros seen; cbn [validate_flags_from].
  - split; [intros _|reflexivity]. split; [constructor|]. split; [intros c []|constructor].
  - destruct (existsb (N.eqb c) seen) eqn:Eseen.
    + apply existsb_eqb_In in Eseen. split; [discriminate|].
      intros [_ [Hfresh _]]. exfalso. apply (Hfresh c); [left; reflexivity|exact Eseen].
    + assert (Hnseen : ~ In c seen).
      { intros Hin. apply existsb_eqb_In in Hin. congruence. }
      destruct (flag_ok c) eqn:Eok.
      * apply flag_ok_In in Eok. rewrite IH. split.
        -- intros [Hnd [Hfresh Hall]]. split; [|split].
           ++ constructor; [|exact Hnd]. intros Hin. apply (Hfresh c Hin). left; reflexivity.
           ++ intros d [Hd|Hd] Hin; [subst d; exact (Hnseen Hin)|].
              apply (Hfresh d Hd). right; exact Hin.
           ++ constructor; assumption.
        -- intros [Hnd [Hfresh Hall]]. inversion Hnd as [|c' r' Hnotin Hnd']; subst.
           inversion Hall as [|c' r' Hc Hall']; subst. split; [exact Hnd'|]. split; [|exact Hall'].
           intros d Hd [Hin|Hin]; [subst d; exact (Hnotin Hd)|].
           apply (Hfresh d); [right; exact Hd|exact Hin].
      * split; [discriminate|]. intros [_ [_ Hall]]. inversion Hall as [|c' r' Hc Hall']; subst.
        apply flag_ok_In in Hc. congruence.
Qed.

Theorem validate_flags_spec (fs : str) :
  validate_flags fs = None <-> NoDup fs /\ Forall (fun c => In c flag_letters) fs.
Proof.
  unfold validate_flags. rewrite validate_flags_from_spec. split.
  - intros [Hnd [_ Hall]]; split; assumption.
  - intros [Hnd Hall]; split; [exact Hnd|]. split; [intros c _ []|exact Hall].
Qed.

(* which error: a duplicate is reported before an invalid letter at the same position *)
Theorem validate_flags_error_class (fs : str) (m : N) :
  validate_flags fs = Some m -> m = E_dup_flag \/ m = E_invalid_flag.
Proof.
  unfold validate_flags. generalize (@nil N) as seen. induction fs as [|c r IH]; intros seen; cbn [validate_flags_from].
  - discriminate.
  - destruct (existsb (N.eqb c) seen); [intros [= <-]; left; reflexivity|].
    destruct (flag_ok c); [apply IH|intros [= <-]; right; reflexivity].
Qed.

Example flags_ok_example : validate_flags [100;103;105;109;115;117;121;118] = None. Proof. reflexivity. Qed.
Example flags_dup_example : validate_flags [103;105;103] = Some E_dup_flag. Proof. reflexivity. Qed.
Example flags_bad_example : validate_flags [103;122] = Some E_invalid_flag. Proof. reflexivity. Qed.

Print Assumptions validate_flags_spec.
Print Assumptions validate_flags_error_class.
