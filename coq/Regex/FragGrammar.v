(* The recogniser of FragParser.v is sound and complete for the inductive grammar of Grammar.v:
     sp_pattern_sound    : sp_pattern u l = SOk tt r         -> Pattern u l            (any l, both modes)
     sp_pattern_complete : Pattern u l -> chars_ok u l = true -> sp_pattern u l = SOk tt []
   (chars_ok is only used to know that the single-character atoms are not `]` `{` `}`, which Annex B admits as
   ExtendedPatternCharacter without u). *)
From Coq Require Import List NArith Bool Lia PeanoNat.
From V Require Import Regex.Grammar Regex.FragParser.
Import ListNotations.
Open Scope N_scope.

Lemma nonsyntax_pattern_char u c : syntax_character c = false -> pattern_char u c = true.
Proof.
  intros H. destruct u; cbn [pattern_char]; [rewrite H; reflexivity|].
  unfold syntax_character, extended_pattern_character in *. cbn [existsb] in *.
  repeat (apply orb_false_iff in H; destruct H as [?E H]).
  repeat match goal with Hc : (_ =? _) = false |- _ => rewrite Hc; clear Hc end. reflexivity.
Qed.
Lemma pattern_char_not_quant u c : pattern_char u c = true -> is_quant_char c = false.
Proof.
  intros H. unfold is_quant_char.
  destruct (N.eqb_spec c g_star) as [->|_]; [destruct u; discriminate|].
  destruct (N.eqb_spec c g_plus) as [->|_]; [destruct u; discriminate|].
  destruct (N.eqb_spec c g_question) as [->|_]; [destruct u; discriminate|]. reflexivity.
Qed.
(* the condition under which a single-character atom is a non-syntax character *)
Definition cok (u : bool) (c : N) : Prop := u = true \/ no_brace c = true.
Lemma frag_pattern_char u c : cok u c -> pattern_char u c = true -> syntax_character c = false.
Proof.
  intros [->|Hb] Hp; [cbn in Hp; apply negb_true_iff in Hp; exact Hp|].
  destruct u; [cbn in Hp; apply negb_true_iff in Hp; exact Hp|].
  unfold pattern_char, extended_pattern_character in Hp. unfold no_brace in Hb. unfold syntax_character.
  cbn [existsb] in *. apply negb_true_iff in Hp, Hb.
  repeat match goal with H : (_ || _)%bool = false |- _ => apply orb_false_iff in H; destruct H end.
  repeat match goal with Hc : (_ =? _) = false |- _ => rewrite Hc; clear Hc end. reflexivity.
Qed.

Definition noq (r : list N) : Prop := match r with c :: _ => is_quant_char c = false | [] => True end.
Definition stop (r : list N) : Prop := r = [] \/ exists r', r = g_rparen :: r'.

Lemma sp_quant_noq r : noq r -> sp_quant r = (false, r).
Proof. destruct r as [|c r]; cbn [sp_quant noq]; [reflexivity|]. intros ->. reflexivity. Qed.
Lemma stop_noq r : stop r -> noq r.
Proof. intros [->|[r' ->]]; cbn; [exact I|reflexivity]. Qed.

(* ================= soundness ================= *)
Lemma sp_quant_sound l r : sp_quant l = (true, r) -> exists q, l = q ++ r /\ Quantifier q.
Proof.
  destruct l as [|c l']; cbn [sp_quant]; [discriminate|].
  destruct (is_quant_char c) eqn:Eq; [|discriminate]. intros [= <-].
  assert (Hp : QuantifierPrefix [c]).
  { unfold is_quant_char in Eq. apply orb_true_iff in Eq. destruct Eq as [Eq|Eq]; [apply orb_true_iff in Eq; destruct Eq as [Eq|Eq]|];
      apply N.eqb_eq in Eq; subst c; constructor. }
  destruct l' as [|q r']; [exists [c]; split; [reflexivity|apply Q_greedy; exact Hp]|].
  destruct (N.eqb_spec q g_question) as [->|_].
  - exists ([c] ++ [g_question]). split; [reflexivity|apply Q_lazy; exact Hp].
  - exists [c]. split; [reflexivity|apply Q_greedy; exact Hp].
Qed.
Lemma sp_quant_false l r : sp_quant l = (false, r) -> r = l.
Proof. destruct l as [|c l']; cbn [sp_quant]; [intros [= <-]; reflexivity|]. destruct (is_quant_char c); [discriminate|intros [= <-]; reflexivity]. Qed.

Lemma Alternative_cons u t a : Term u t -> Alternative u a -> Alternative u (t ++ a).
Proof.
  intros Ht Ha. induction Ha as [|a t' Ha IH Ht'].
  - rewrite app_nil_r. change t with ([] ++ t). apply A_term; [apply A_empty|exact Ht].
  - rewrite app_assoc. apply A_term; [exact IH|exact Ht'].
Qed.

Section Sound.
Variable u : bool.
Variable sdisj : list N -> SR unit.
Hypothesis sdisj_sound : forall l r, sdisj l = SOk tt r -> exists d, l = d ++ r /\ Disjunction u d.

Lemma sp_group_body_sound l b r : sp_group_body sdisj l = SOk b r ->
  b = true /\ exists d, l = d ++ g_rparen :: r /\ Disjunction u d.
Proof.
  unfold sp_group_body. destruct (sdisj l) as [[] [|c r0]| |] eqn:E; try discriminate.
  destruct (N.eqb_spec c g_rparen) as [->|_]; [|discriminate]. intros [= <- <-].
  split; [reflexivity|]. apply sdisj_sound in E. exact E.
Qed.
Lemma is_eq_or_bang_cases y : is_eq_or_bang y = true -> y = g_equals \/ y = g_bang.
Proof. unfold is_eq_or_bang. intros H. apply orb_true_iff in H. destruct H as [H|H]; apply N.eqb_eq in H; auto. Qed.
Lemma sp_assertion_sound l b r : sp_assertion sdisj l = SOk b r ->
  (b = true /\ exists w, l = w ++ r /\ Assertion u w /\
     (quantifiable u l = true -> u = false /\ QuantifiableAssertion u w)) \/ (b = false /\ r = l).
Proof.
  destruct l as [|c l']; cbn [sp_assertion]; [intros [= <- <-]; right; split; reflexivity|].
  destruct (N.eqb_spec c g_caret) as [->|_].
  { intros [= <- <-]. left. split; [reflexivity|]. exists [g_caret]. split; [reflexivity|]. split; [apply As_caret|].
    destruct l' as [|c1 [|c2 l2]]; cbn; discriminate. }
  destruct (N.eqb_spec c g_dollar) as [->|_].
  { intros [= <- <-]. left. split; [reflexivity|]. exists [g_dollar]. split; [reflexivity|]. split; [apply As_dollar|].
    destruct l' as [|c1 [|c2 l2]]; cbn; discriminate. }
  destruct (N.eqb_spec c g_backslash) as [->|_].
  { destruct l' as [|x r']; [intros [= <- <-]; right; split; reflexivity|].
    destruct (assertion_escape x) eqn:Ex; [|intros [= <- <-]; right; split; reflexivity].
    intros [= <- <-]. left. split; [reflexivity|]. exists [g_backslash; x]. split; [reflexivity|]. split.
    - unfold assertion_escape in Ex. apply orb_true_iff in Ex. destruct Ex as [Ex|Ex]; apply N.eqb_eq in Ex; subst x;
        [apply As_word_boundary|apply As_not_word_boundary].
    - destruct r' as [|c2 l2]; cbn; discriminate. }
  destruct (N.eqb_spec c g_lparen) as [->|_]; [|intros [= <- <-]; right; split; reflexivity].
  destruct l' as [|q r1]; [intros [= <- <-]; right; split; reflexivity|].
  destruct (N.eqb_spec q g_question) as [->|_]; [|intros [= <- <-]; right; split; reflexivity].
  destruct r1 as [|x r2]; [intros [= <- <-]; right; split; reflexivity|].
  destruct (N.eqb_spec x g_less) as [->|Hx].
  - destruct r2 as [|y r3]; [intros [= <- <-]; right; split; reflexivity|].
    destruct (is_eq_or_bang y) eqn:Ey; [|intros [= <- <-]; right; split; reflexivity].
    intros H. apply sp_group_body_sound in H. destruct H as [-> [d [-> Hd]]]. left. split; [reflexivity|].
    apply is_eq_or_bang_cases in Ey. destruct Ey as [->| ->].
    + exists (g_lparen :: g_question :: g_less :: g_equals :: d ++ [g_rparen]). split; [cbn [app]; rewrite <- app_assoc; reflexivity|].
      split; [apply As_lookbehind; exact Hd|]. cbn. discriminate.
    + exists (g_lparen :: g_question :: g_less :: g_bang :: d ++ [g_rparen]). split; [cbn [app]; rewrite <- app_assoc; reflexivity|].
      split; [apply As_neg_lookbehind; exact Hd|]. cbn. discriminate.
  - destruct (is_eq_or_bang x) eqn:Ex; [|intros [= <- <-]; right; split; reflexivity].
    intros H. apply sp_group_body_sound in H. destruct H as [-> [d [-> Hd]]]. left. split; [reflexivity|].
    apply is_eq_or_bang_cases in Ex. destruct Ex as [->| ->].
    + exists (g_lparen :: g_question :: g_equals :: d ++ [g_rparen]). split; [cbn [app]; rewrite <- app_assoc; reflexivity|].
      assert (HQ : QuantifiableAssertion u (g_lparen :: g_question :: g_equals :: d ++ [g_rparen])) by (apply QA_lookahead; exact Hd).
      split; [apply As_lookahead; exact HQ|]. cbn. intros Hu. split; [destruct u; [discriminate|reflexivity]|exact HQ].
    + exists (g_lparen :: g_question :: g_bang :: d ++ [g_rparen]). split; [cbn [app]; rewrite <- app_assoc; reflexivity|].
      assert (HQ : QuantifiableAssertion u (g_lparen :: g_question :: g_bang :: d ++ [g_rparen])) by (apply QA_neg_lookahead; exact Hd).
      split; [apply As_lookahead; exact HQ|]. cbn. intros Hu. split; [destruct u; [discriminate|reflexivity]|exact HQ].
Qed.
Lemma escape_ok_AtomEscape x : escape_ok u x = true -> AtomEscape u [x].
Proof.
  unfold escape_ok. intros H. apply orb_true_iff in H. destruct H as [H|H]; [apply orb_true_iff in H; destruct H as [H|H]|].
  - apply AE_class; exact H.
  - apply AE_control; exact H.
  - apply AE_identity; exact H.
Qed.
Lemma sp_atom_sound l b r : sp_assertion sdisj l = SOk false l -> sp_atom u sdisj l = SOk b r ->
  (b = true /\ exists w, l = w ++ r /\ Atom u w) \/ (b = false /\ r = l).
Proof.
  intros Hna.
  destruct l as [|c l']; cbn [sp_atom]; [intros [= <- <-]; right; split; reflexivity|].
  destruct (syntax_character c) eqn:Es; cbn [negb].
  2:{ intros [= <- <-]. left. split; [reflexivity|]. exists [c]. split; [reflexivity|].
      apply At_char. apply nonsyntax_pattern_char. exact Es. }
  destruct (N.eqb_spec c g_dot) as [->|_].
  { intros [= <- <-]. left. split; [reflexivity|]. exists [g_dot]. split; [reflexivity|apply At_dot]. }
  destruct (N.eqb_spec c g_backslash) as [->|_].
  { cbn [sp_escape]. destruct l' as [|x r']; cbn [N.eqb Pos.eqb]; [discriminate|]. destruct (escape_ok u x) eqn:Ex; [|discriminate].
    intros [= <- <-]. left. split; [reflexivity|]. exists [g_backslash; x]. split; [reflexivity|].
    apply At_escape; [apply escape_ok_AtomEscape; exact Ex|].
    cbn [sp_assertion] in Hna. cbn [N.eqb Pos.eqb] in Hna. destruct (assertion_escape x); [discriminate|reflexivity]. }
  destruct (N.eqb_spec c g_lparen) as [->|_]; [|intros [= <- <-]; right; split; reflexivity].
  assert (Hcap : forall l0, sp_group_body sdisj l0 = SOk b r ->
            b = true /\ exists w, g_lparen :: l0 = w ++ r /\ Atom u w).
  { intros l0 H. apply sp_group_body_sound in H. destruct H as [-> [d [-> Hd]]]. split; [reflexivity|].
    exists (g_lparen :: d ++ [g_rparen]). split; [cbn [app]; rewrite <- app_assoc; reflexivity|apply At_group; exact Hd]. }
  destruct l' as [|q r']; [intros H; left; apply Hcap; exact H|].
  destruct (N.eqb_spec q g_question) as [->|_]; [|intros H; left; apply Hcap; exact H].
  destruct r' as [|k r'']; [discriminate|].
  destruct (N.eqb_spec k g_colon) as [->|_]; [|discriminate].
  intros H. apply sp_group_body_sound in H. destruct H as [-> [d [-> Hd]]]. left. split; [reflexivity|].
  exists (g_lparen :: g_question :: g_colon :: d ++ [g_rparen]). split; [cbn [app]; rewrite <- app_assoc; reflexivity|].
  apply At_noncapturing; exact Hd.
Qed.
Lemma sp_term_sound l b r : sp_term u sdisj l = SOk b r ->
  (b = true /\ exists t, l = t ++ r /\ Term u t) \/ (b = false /\ r = l).
Proof.
  unfold sp_term. destruct (sp_assertion sdisj l) as [[|] r0| |] eqn:Ea; try discriminate.
  - apply sp_assertion_sound in Ea. destruct Ea as [[_ [w [-> [Hw Hq]]]]|[Ea _]]; [|discriminate].
    destruct (quantifiable u (w ++ r0)) eqn:Eq.
    + intros [= <- <-]. left. split; [reflexivity|]. destruct (Hq eq_refl) as [Hu HQ].
      destruct (sp_quant r0) as [[|] r1] eqn:Eq'; cbn [snd].
      * apply sp_quant_sound in Eq'. destruct Eq' as [q [-> Hq']]. exists (w ++ q). split; [rewrite app_assoc; reflexivity|].
        apply T_qassertion_quant; assumption.
      * apply sp_quant_false in Eq'. subst r1. exists w. split; [reflexivity|apply T_assertion; exact Hw].
    + intros [= <- <-]. left. split; [reflexivity|]. exists w. split; [reflexivity|apply T_assertion; exact Hw].
  - assert (Hna : sp_assertion sdisj l = SOk false l).
    { rewrite Ea. f_equal. apply sp_assertion_sound in Ea. destruct Ea as [[Ea _]|[_ Ea]]; [discriminate|exact Ea]. }
    destruct (sp_atom u sdisj l) as [[|] r1| |] eqn:E; try discriminate.
    + intros [= <- <-]. left. split; [reflexivity|].
      apply (sp_atom_sound _ _ _ Hna) in E. destruct E as [[_ [w [-> Hw]]]|[E _]]; [|discriminate].
      destruct (sp_quant r1) as [[|] r2] eqn:Eq; cbn [snd].
      * apply sp_quant_sound in Eq. destruct Eq as [q [-> Hq]]. exists (w ++ q). split; [rewrite app_assoc; reflexivity|].
        apply T_atom_quant; assumption.
      * apply sp_quant_false in Eq. subst r2. exists w. split; [reflexivity|apply T_atom; exact Hw].
    + intros [= <- <-]. right. split; [reflexivity|].
      apply (sp_atom_sound _ _ _ Hna) in E. destruct E as [[E _]|[_ E]]; [discriminate|exact E].
Qed.
Lemma sp_alternative_sound g : forall l r, sp_alternative u sdisj g l = SOk tt r ->
  exists a, l = a ++ r /\ Alternative u a.
Proof.
  induction g as [|g IH]; intros l r; cbn [sp_alternative]; [discriminate|].
  destruct l as [|c l']; [intros [= <-]; exists []; split; [reflexivity|apply A_empty]|].
  destruct (sp_term u sdisj (c :: l')) as [[|] r0| |] eqn:E; try discriminate.
  - intros H. apply IH in H. destruct H as [a [-> Ha]].
    apply sp_term_sound in E. destruct E as [[_ [t [-> Ht]]]|[E _]]; [|discriminate].
    exists (t ++ a). split; [rewrite app_assoc; reflexivity|apply Alternative_cons; assumption].
  - intros [= <-]. apply sp_term_sound in E. destruct E as [[E _]|[_ ->]]; [discriminate|].
    exists []. split; [reflexivity|apply A_empty].
Qed.
Lemma sp_bars_sound g : forall l r, sp_bars u sdisj g l = SOk tt r ->
  forall a, Alternative u a -> exists d, a ++ l = d ++ r /\ Disjunction u d.
Proof.
  induction g as [|g IH]; intros l r; cbn [sp_bars]; [discriminate|].
  destruct l as [|c l'].
  { intros [= <-] a Ha. exists a. split; [reflexivity|apply D_alt; exact Ha]. }
  destruct (N.eqb_spec c g_bar) as [->|_].
  2:{ intros [= <-] a Ha. exists a. split; [reflexivity|apply D_alt; exact Ha]. }
  destruct (sp_alternative u sdisj (S (length l')) l') as [[] r0| |] eqn:E; try discriminate.
  intros H a Ha. apply sp_alternative_sound in E. destruct E as [a' [-> Ha']].
  destruct (IH _ _ H a' Ha') as [d [Hd1 Hd2]]. exists (a ++ g_bar :: d). split.
  - rewrite Hd1. rewrite <- app_assoc. reflexivity.
  - apply D_bar; assumption.
Qed.
Lemma sp_disjunction_body_sound l r : sp_disjunction_body u sdisj l = SOk tt r ->
  exists d, l = d ++ r /\ Disjunction u d.
Proof.
  unfold sp_disjunction_body.
  destruct (sp_alternative u sdisj (S (length l)) l) as [[] l1| |] eqn:E1; try discriminate.
  destruct (sp_bars u sdisj (S (length l1)) l1) as [[] l2| |] eqn:E2; try discriminate.
  destruct (fst (sp_quant l2)); [discriminate|]. intros [= <-].
  apply sp_alternative_sound in E1. destruct E1 as [a [-> Ha]].
  exact (sp_bars_sound _ _ _ E2 a Ha).
Qed.
End Sound.

Lemma sp_disjunction_sound u f : forall l r, sp_disjunction u f l = SOk tt r -> exists d, l = d ++ r /\ Disjunction u d.
Proof.
  induction f as [|f IH]; intros l r; cbn [sp_disjunction]; [discriminate|].
  apply sp_disjunction_body_sound. exact IH.
Qed.

Theorem sp_pattern_sound u l a r : sp_pattern u l = SOk a r -> Pattern u l.
Proof.
  unfold sp_pattern. destruct (sp_disjunction u (S (length l)) l) as [[] [|c r0]| |] eqn:E; try discriminate.
  intros _. apply (sp_disjunction_sound u) in E. destruct E as [d [-> Hd]]. rewrite app_nil_r. exact Hd.
Qed.

(* ================= completeness ================= *)
(* first characters: no construct starts with a quantifier character; a Disjunction does not start with `?` *)
Lemma grammar_heads u :
  (forall d, Disjunction u d -> noq d) /\ (forall a, Alternative u a -> noq a) /\
  (forall t, Term u t -> noq t /\ t <> []) /\ (forall w, Assertion u w -> noq w /\ w <> []) /\
  (forall w, QuantifiableAssertion u w -> noq w /\ w <> []) /\ (forall w, Atom u w -> noq w /\ w <> []).
Proof.
  apply grammar_mutind.
  - intros a _ IH. exact IH.
  - intros a d _ IHa _ _. destruct a as [|c a']; [cbn; reflexivity|exact IHa].
  - exact I.
  - intros a t _ IHa _ [IHt Hne]. destruct a as [|c a']; [exact IHt|exact IHa].
  - intros a _ IH. exact IH.
  - intros a q _ _ [IHa Hne] _. destruct a as [|c a']; [contradiction|]. split; [exact IHa|discriminate].
  - intros a _ IH. exact IH.
  - intros a q _ [IHa Hne] _. destruct a as [|c a']; [contradiction|]. split; [exact IHa|discriminate].
  - split; [cbn; reflexivity|discriminate].
  - split; [cbn; reflexivity|discriminate].
  - split; [cbn; reflexivity|discriminate].
  - split; [cbn; reflexivity|discriminate].
  - intros a _ IH. exact IH.
  - intros d _ _. split; [cbn; reflexivity|discriminate].
  - intros d _ _. split; [cbn; reflexivity|discriminate].
  - intros d _ _. split; [cbn; reflexivity|discriminate].
  - intros d _ _. split; [cbn; reflexivity|discriminate].
  - intros c Hc. split; [cbn; apply (pattern_char_not_quant u); exact Hc|discriminate].
  - split; [cbn; reflexivity|discriminate].
  - intros c _ _. split; [cbn; reflexivity|discriminate].
  - intros d _ _. split; [cbn; reflexivity|discriminate].
  - intros d _ _. split; [cbn; reflexivity|discriminate].
Qed.

Lemma noq_app a r : a <> [] -> noq a -> noq (a ++ r).
Proof. destruct a as [|c a']; [contradiction|]. intros _ H. exact H. Qed.

(* more fuel does not change a result *)
Lemma sp_alternative_mono u sdisj g : forall l res, sp_alternative u sdisj g l = res -> res <> SFuel ->
  forall g', (g <= g')%nat -> sp_alternative u sdisj g' l = res.
Proof.
  induction g as [|g IH]; intros l res H Hne g' Hle; [cbn in H; congruence|].
  destruct g' as [|g']; [lia|]. cbn [sp_alternative] in *.
  destruct l as [|c l']; [exact H|].
  destruct (sp_term u sdisj (c :: l')) as [[|] r0| |]; try exact H.
  apply (IH _ _ H Hne). lia.
Qed.

Lemma chars_ok_app u a b : chars_ok u (a ++ b) = true -> chars_ok u a = true /\ chars_ok u b = true.
Proof. unfold chars_ok. destruct u; [split; reflexivity|]. cbn [orb]. rewrite forallb_app. apply andb_true_iff. Qed.
Lemma chars_ok_cons u c l : chars_ok u (c :: l) = true -> cok u c /\ chars_ok u l = true.
Proof.
  unfold chars_ok, cok. destruct u; [split; [left|]; reflexivity|]. cbn [orb forallb]. intros H.
  apply andb_true_iff in H. destruct H as [H1 H2]. split; [right; exact H1|exact H2].
Qed.
Tactic Notation "chars_tail" hyp(H) integer(n) := do n (apply chars_ok_cons in H; destruct H as [_ H]); apply chars_ok_app in H; destruct H as [H _].

Section Complete.
Variable u : bool.

Definition P_D (d : list N) : Prop := chars_ok u d = true ->
  forall r f, stop r -> (length (d ++ r) <= f)%nat ->
  exists l1, sp_alternative u (sp_disjunction u f) (S (length (d ++ r))) (d ++ r) = SOk tt l1 /\
             (length l1 <= length (d ++ r))%nat /\
             forall g, (length l1 < g)%nat -> sp_bars u (sp_disjunction u f) g l1 = SOk tt r.
Definition P_A (a : list N) : Prop := chars_ok u a = true ->
  forall r f g res, noq r -> (length (a ++ r) <= f)%nat ->
  sp_alternative u (sp_disjunction u f) g r = res -> res <> SFuel ->
  sp_alternative u (sp_disjunction u f) (g + length a) (a ++ r) = res.
Definition P_T (t : list N) : Prop := chars_ok u t = true ->
  forall r f, noq r -> (length (t ++ r) <= f)%nat -> sp_term u (sp_disjunction u f) (t ++ r) = SOk true r.
Definition P_As (w : list N) : Prop := chars_ok u w = true ->
  forall r f, (length (w ++ r) <= f)%nat -> sp_assertion (sp_disjunction u f) (w ++ r) = SOk true r.
(* a look-ahead: recognised as an assertion, and quantifiable exactly without u *)
Definition P_QA (w : list N) : Prop := chars_ok u w = true ->
  forall r f, (length (w ++ r) <= f)%nat ->
  sp_assertion (sp_disjunction u f) (w ++ r) = SOk true r /\ quantifiable u (w ++ r) = negb u.
(* an atom: not an assertion, recognised as an atom *)
Definition P_At (w : list N) : Prop := chars_ok u w = true ->
  forall r f, (length (w ++ r) <= f)%nat ->
  sp_atom u (sp_disjunction u f) (w ++ r) = SOk true r /\ sp_assertion (sp_disjunction u f) (w ++ r) = SOk false (w ++ r).

Lemma P_D_disjunction d : P_D d -> chars_ok u d = true -> forall r f, stop r -> (length (d ++ r) < f)%nat ->
  sp_disjunction u f (d ++ r) = SOk tt r.
Proof.
  intros HP Hf r f Hs Hlen. destruct f as [|f]; [lia|]. cbn [sp_disjunction]. unfold sp_disjunction_body.
  destruct (HP Hf r f Hs ltac:(lia)) as [l1 [E1 [Hl1 Hb]]]. rewrite E1.
  rewrite (Hb (S (length l1)) ltac:(lia)). rewrite (sp_quant_noq r (stop_noq r Hs)). reflexivity.
Qed.
(* `(x` D `)` rest, entered after the prefix: the body of any group or look-around *)
Lemma P_D_group_body d : P_D d -> chars_ok u d = true -> forall r f, (S (length (d ++ g_rparen :: r)) <= f)%nat ->
  sp_group_body (sp_disjunction u f) (d ++ g_rparen :: r) = SOk true r.
Proof.
  intros HP Hf r f Hlen. unfold sp_group_body. rewrite (P_D_disjunction d HP Hf (g_rparen :: r) f).
  - rewrite N.eqb_refl. reflexivity.
  - right. exists r. reflexivity.
  - lia.
Qed.

Lemma alt_stops_at f r : (exists c r', r = c :: r' /\ syntax_character c = true /\ c <> g_dot /\ c <> g_lparen /\
                                       c <> g_caret /\ c <> g_dollar /\ c <> g_backslash) \/ r = [] ->
  sp_alternative u (sp_disjunction u f) 1 r = SOk tt r.
Proof.
  intros [[c [r' [-> [Hs [Hd [Hl [Hc [Hdo Hb]]]]]]]]| ->]; [|reflexivity].
  cbn [sp_alternative]. unfold sp_term. cbn [sp_assertion sp_atom]. rewrite Hs. cbn [negb].
  destruct (N.eqb_spec c g_caret); [contradiction|]. destruct (N.eqb_spec c g_dollar); [contradiction|].
  destruct (N.eqb_spec c g_backslash); [contradiction|].
  destruct (N.eqb_spec c g_dot); [contradiction|]. destruct (N.eqb_spec c g_lparen); [contradiction|]. reflexivity.
Qed.

Lemma app_comm_cons' (a b : list N) c : (a ++ [c]) ++ b = a ++ c :: b.
Proof. rewrite <- app_assoc. reflexivity. Qed.

Lemma completeness_mut :
  (forall d, Disjunction u d -> P_D d) /\ (forall a, Alternative u a -> P_A a) /\
  (forall t, Term u t -> P_T t) /\ (forall w, Assertion u w -> P_As w) /\
  (forall w, QuantifiableAssertion u w -> P_QA w) /\ (forall w, Atom u w -> P_At w).
Proof.
  apply grammar_mutind.
  - (* D_alt *) intros a Ha IHa Hf r f Hs Hlen. exists r. split; [|split].
    + pose proof (IHa Hf r f 1%nat (SOk tt r) (stop_noq r Hs) Hlen) as H.
      assert (E : sp_alternative u (sp_disjunction u f) 1 r = SOk tt r).
      { apply alt_stops_at. destruct Hs as [->|[r' ->]]; [right; reflexivity|left].
        exists g_rparen, r'. repeat split; try reflexivity; discriminate. }
      specialize (H E ltac:(discriminate)).
      apply (sp_alternative_mono _ _ _ _ _ H); [discriminate|]. rewrite app_length. lia.
    + rewrite app_length. lia.
    + intros g Hg. destruct g as [|g]; [lia|]. cbn [sp_bars].
      destruct Hs as [->|[r' ->]]; [reflexivity|]. reflexivity.
  - (* D_bar *) intros a d Ha IHa Hd IHd Hf r f Hs Hlen.
    apply chars_ok_app in Hf. destruct Hf as [Hfa Hfd].
    assert (Hfd' : chars_ok u d = true) by (apply chars_ok_cons in Hfd; apply Hfd).
    rewrite <- app_assoc in *. cbn [app] in *.
    exists (g_bar :: d ++ r). split; [|split].
    + assert (E : sp_alternative u (sp_disjunction u f) 1 (g_bar :: d ++ r) = SOk tt (g_bar :: d ++ r)).
      { apply alt_stops_at. left. exists g_bar, (d ++ r). repeat split; try reflexivity; discriminate. }
      pose proof (IHa Hfa (g_bar :: d ++ r) f 1%nat _ ltac:(cbn; reflexivity) Hlen E ltac:(discriminate)) as H.
      apply (sp_alternative_mono _ _ _ _ _ H); [discriminate|]. rewrite app_length. lia.
    + rewrite app_length. lia.
    + intros g Hg. destruct g as [|g]; [cbn in Hg; lia|]. cbn [sp_bars]. rewrite N.eqb_refl.
      assert (Hlen' : (length (d ++ r) <= f)%nat) by (rewrite app_length in Hlen; cbn [length] in Hlen; lia).
      destruct (IHd Hfd' r f Hs Hlen') as [l1 [E1 [Hl1 Hb]]]. rewrite E1. apply Hb. cbn [length] in Hg. lia.
  - (* A_empty *) intros _ r f g res _ _ H _. cbn [length app]. rewrite Nat.add_0_r. exact H.
  - (* A_term *) intros a t Ha IHa Ht IHt Hf r f g res Hq Hlen H Hne.
    apply chars_ok_app in Hf. destruct Hf as [Hfa Hft].
    destruct (proj1 (proj2 (proj2 (grammar_heads u))) t Ht) as [Hqt Hnt].
    rewrite <- app_assoc in *.
    assert (Hlen' : (length (t ++ r) <= f)%nat) by (rewrite app_length in Hlen; lia).
    assert (E : sp_alternative u (sp_disjunction u f) (g + length t) (t ++ r) = res).
    { destruct t as [|c t']; [contradiction|]. cbn [length]. rewrite Nat.add_succ_r. cbn [sp_alternative app].
      change (c :: t' ++ r) with ((c :: t') ++ r). rewrite (IHt Hft r f Hq Hlen').
      apply (sp_alternative_mono _ _ _ _ _ H Hne). lia. }
    pose proof (IHa Hfa (t ++ r) f (g + length t)%nat res (noq_app t r Hnt Hqt) Hlen E Hne) as H'.
    replace (g + length (a ++ t))%nat with (g + length t + length a)%nat by (rewrite app_length; lia). exact H'.
  - (* T_assertion *) intros a Ha IHa Hf r f Hq Hlen. unfold sp_term. rewrite (IHa Hf r f Hlen).
    destruct (quantifiable u (a ++ r)); [rewrite (sp_quant_noq r Hq)|]; reflexivity.
  - (* T_qassertion_quant *) intros a q Hu Ha IHa Hq0 Hf r f Hq Hlen.
    apply chars_ok_app in Hf. destruct Hf as [Hfa Hfq]. rewrite <- app_assoc in *.
    destruct (IHa Hfa (q ++ r) f Hlen) as [E1 E2]. unfold sp_term. rewrite E1, E2, Hu. cbn [negb].
    assert (E : snd (sp_quant (q ++ r)) = r).
    { destruct Hq0 as [p Hp|p Hp]; destruct Hp; cbn [app sp_quant is_quant_char];
        try rewrite N.eqb_refl; cbn [orb snd]; try reflexivity;
        (destruct r as [|c r']; [reflexivity|]); cbn [noq] in Hq; unfold is_quant_char in Hq;
        apply orb_false_iff in Hq; destruct Hq as [_ Hq]; rewrite Hq; reflexivity. }
    rewrite E. reflexivity.
  - (* T_atom *) intros a Ha IHa Hf r f Hq Hlen. unfold sp_term. destruct (IHa Hf r f Hlen) as [E1 E2].
    rewrite E2, E1. rewrite (sp_quant_noq r Hq). reflexivity.
  - (* T_atom_quant *) intros a q Ha IHa Hq0 Hf r f Hq Hlen.
    apply chars_ok_app in Hf. destruct Hf as [Hfa Hfq]. rewrite <- app_assoc in *.
    unfold sp_term. destruct (IHa Hfa (q ++ r) f Hlen) as [E1 E2]. rewrite E2, E1.
    assert (E : snd (sp_quant (q ++ r)) = r).
    { destruct Hq0 as [p Hp|p Hp]; destruct Hp; cbn [app sp_quant is_quant_char];
        try rewrite N.eqb_refl; cbn [orb snd]; try reflexivity;
        (destruct r as [|c r']; [reflexivity|]); cbn [noq] in Hq; unfold is_quant_char in Hq;
        apply orb_false_iff in Hq; destruct Hq as [_ Hq]; rewrite Hq; reflexivity. }
    rewrite E. reflexivity.
  - (* As_caret *) intros _ r f _. reflexivity.
  - (* As_dollar *) intros _ r f _. reflexivity.
  - (* As_word_boundary *) intros _ r f _. reflexivity.
  - (* As_not_word_boundary *) intros _ r f _. reflexivity.
  - (* As_lookahead *) intros a Ha IHa Hf r f Hlen. apply (IHa Hf r f Hlen).
  - (* As_lookbehind *) intros d Hd IHd Hf r f Hlen. chars_tail Hf 4.
    cbn [app sp_assertion]. rewrite app_comm_cons'. cbn [N.eqb Pos.eqb is_eq_or_bang orb].
    apply (P_D_group_body d IHd Hf). cbn [length app] in Hlen. rewrite app_comm_cons' in Hlen. cbn [length] in *. lia.
  - (* As_neg_lookbehind *) intros d Hd IHd Hf r f Hlen. chars_tail Hf 4.
    cbn [app sp_assertion]. rewrite app_comm_cons'. cbn [N.eqb Pos.eqb is_eq_or_bang orb].
    apply (P_D_group_body d IHd Hf). cbn [length app] in Hlen. rewrite app_comm_cons' in Hlen. cbn [length] in *. lia.
  - (* QA_lookahead *) intros d Hd IHd Hf r f Hlen. chars_tail Hf 3. split.
    + cbn [app sp_assertion]. rewrite app_comm_cons'. cbn [N.eqb Pos.eqb is_eq_or_bang orb].
      apply (P_D_group_body d IHd Hf). cbn [length app] in Hlen. rewrite app_comm_cons' in Hlen. cbn [length] in *. lia.
    + cbn. reflexivity.
  - (* QA_neg_lookahead *) intros d Hd IHd Hf r f Hlen. chars_tail Hf 3. split.
    + cbn [app sp_assertion]. rewrite app_comm_cons'. cbn [N.eqb Pos.eqb is_eq_or_bang orb].
      apply (P_D_group_body d IHd Hf). cbn [length app] in Hlen. rewrite app_comm_cons' in Hlen. cbn [length] in *. lia.
    + cbn. reflexivity.
  - (* At_char *) intros c Hc Hf r f _. cbn [app sp_atom sp_assertion].
    apply chars_ok_cons in Hf. destruct Hf as [Hf _].
    pose proof (frag_pattern_char u c Hf Hc) as Hs. rewrite Hs. cbn [negb]. split; [reflexivity|].
    destruct (N.eqb_spec c g_caret) as [->|_]; [discriminate|]. destruct (N.eqb_spec c g_dollar) as [->|_]; [discriminate|].
    destruct (N.eqb_spec c g_backslash) as [->|_]; [discriminate|].
    destruct (N.eqb_spec c g_lparen) as [->|_]; [discriminate|]. reflexivity.
  - (* At_dot *) intros _ r f _. split; reflexivity.
  - (* At_escape *) intros c He Hne _ r f _. cbn [app sp_atom sp_assertion sp_escape]. cbn [N.eqb Pos.eqb negb syntax_character existsb orb].
    rewrite Hne. split; [|reflexivity].
    assert (Hok : escape_ok u c = true).
    { unfold escape_ok. inversion He as [c0 H0|c0 H0|c0 H0]; subst; rewrite H0; rewrite ?orb_true_r; reflexivity. }
    rewrite Hok. reflexivity.
  - (* At_group *) intros d Hd IHd Hf r f Hlen. chars_tail Hf 1.
    pose proof (proj1 (grammar_heads u) d Hd) as Hqd.
    cbn [app sp_atom sp_assertion]. rewrite app_comm_cons'. cbn [N.eqb Pos.eqb negb syntax_character existsb orb].
    assert (Hbody : sp_group_body (sp_disjunction u f) (d ++ g_rparen :: r) = SOk true r).
    { apply (P_D_group_body d IHd Hf). cbn [length app] in Hlen. rewrite app_comm_cons' in Hlen. cbn [length] in *. lia. }
    destruct d as [|q d']; [split; [exact Hbody|reflexivity]|]. cbn [app]. cbn [noq] in Hqd.
    unfold is_quant_char in Hqd. apply orb_false_iff in Hqd. destruct Hqd as [_ Hqd]. rewrite Hqd. split; [exact Hbody|reflexivity].
  - (* At_noncapturing *) intros d Hd IHd Hf r f Hlen. chars_tail Hf 3.
    cbn [app sp_atom sp_assertion]. rewrite app_comm_cons'. cbn [N.eqb Pos.eqb negb syntax_character existsb orb is_eq_or_bang].
    split; [|reflexivity].
    apply (P_D_group_body d IHd Hf). cbn [length app] in Hlen. rewrite app_comm_cons' in Hlen. cbn [length] in *. lia.
Qed.

Theorem sp_pattern_complete l : Pattern u l -> chars_ok u l = true -> sp_pattern u l = SOk tt [].
Proof.
  intros Hp Hf. unfold sp_pattern.
  pose proof (P_D_disjunction l (proj1 completeness_mut l Hp) Hf [] (S (length l)) (or_introl eq_refl)) as H.
  rewrite app_nil_r in H. rewrite H; [reflexivity|lia].
Qed.
End Complete.

Theorem recognises_iff_Pattern u l : chars_ok u l = true -> (recognises u l = true <-> Pattern u l).
Proof.
  intros Hf. unfold recognises. split.
  - destruct (sp_pattern u l) as [a r| |] eqn:E; try discriminate. intros _. exact (sp_pattern_sound u l a r E).
  - intros Hp. rewrite (sp_pattern_complete u l Hp Hf). reflexivity.
Qed.

Print Assumptions recognises_iff_Pattern.
